import Refine.Lemmas.ContainersSort
import Mathlib.Order.Defs.LinearOrder
import Mathlib.Data.Int.Order.Basic

/-! Heap sort (`ref_sort_heap_int/_glob/_dbl`): the literal sift-down loop yields a permutation (any comparison)
    under which the keys are non-decreasing (linear order). -/

namespace Refine.Model.Sort
open List

section perm
variable {α : Type} [Inhabited α] (lt : α → α → Bool) (a : List α)

theorem set_getD_self (l : List Nat) (i : Nat) : l.set i (l.getD i 0) = l := by
  apply List.ext_getElem (by simp)
  intro k h1 h2
  simp only [List.getElem_set]
  split_ifs with h
  · subst h; rw [getD_eq_getElem' _ _ h2]
  · rfl

/-- moving the hole from `i` to `j'` is a transposition of the filled array -/
theorem hole_move_perm (idx : List Nat) (i j' indxt : Nat) (hi : i < idx.length) (hj : j' < idx.length)
    (hij : i ≠ j') : ((idx.set i (idx.getD j' 0)).set j' indxt).Perm (idx.set i indxt) := by
  have h := List.set_set_perm (as := idx.set i indxt) (i := i) (j := j') (by simpa using hi) (by simpa using hj)
  have e1 : (idx.set i indxt)[j']'(by simpa using hj) = idx.getD j' 0 := by
    rw [List.getElem_set_ne hij, getD_eq_getElem' _ _ hj]
  have e2 : (idx.set i indxt)[i]'(by simpa using hi) = indxt := by simp
  rw [e1, e2, List.set_set] at h
  exact h

/-- the child selected by `if (j < ir) if (a[idx[j]] < a[idx[j+1]]) j++` -/
def childSel (idx : List Nat) (j ir : Nat) : Nat :=
  if j < ir && lt (keyAt a idx j) (keyAt a idx (j + 1)) then j + 1 else j

theorem siftDown_succ (indxt : Nat) (q : α) (ir f i j : Nat) (idx : List Nat) :
    siftDown lt a indxt q ir (f + 1) i j idx =
      if j ≤ ir then
        if lt q (keyAt a idx (childSel lt a idx j ir)) then
          siftDown lt a indxt q ir f (childSel lt a idx j ir) (2 * childSel lt a idx j ir + 1)
            (idx.set i (idx.getD (childSel lt a idx j ir) 0))
        else idx.set i indxt
      else idx.set i indxt := rfl

theorem childSel_range (idx : List Nat) (j ir : Nat) (h : j ≤ ir) :
    j ≤ childSel lt a idx j ir ∧ childSel lt a idx j ir ≤ j + 1 ∧ childSel lt a idx j ir ≤ ir := by
  unfold childSel
  split_ifs with h3
  · simp only [Bool.and_eq_true, decide_eq_true_eq] at h3; omega
  · omega

theorem siftDown_perm (indxt : Nat) (q : α) (ir fuel i j : Nat) (idx : List Nat)
    (hij : i < j) (hi : i < idx.length) (hir : ir < idx.length) :
    (siftDown lt a indxt q ir fuel i j idx).Perm (idx.set i indxt) := by
  induction fuel generalizing i j idx with
  | zero => exact Perm.refl _
  | succ f ih =>
    rw [siftDown_succ]
    by_cases h1 : j ≤ ir
    · rw [if_pos h1]
      obtain ⟨hc1, hc2, hc3⟩ := childSel_range lt a idx j ir h1
      generalize childSel lt a idx j ir = j' at *
      by_cases h2 : lt q (keyAt a idx j') = true
      · rw [if_pos h2]
        refine (ih j' (2 * j' + 1) (idx.set i (idx.getD j' 0)) (by omega) (by simp; omega) (by simpa using hir)).trans ?_
        exact hole_move_perm idx i j' indxt hi (by omega) (by omega)
      · rw [if_neg h2]
    · rw [if_neg h1]

theorem siftDown_length (indxt : Nat) (q : α) (ir fuel i j : Nat) (idx : List Nat)
    (hij : i < j) (hi : i < idx.length) (hir : ir < idx.length) :
    (siftDown lt a indxt q ir fuel i j idx).length = idx.length := by
  rw [(siftDown_perm lt a indxt q ir fuel i j idx hij hi hir).length_eq, List.length_set]

/-- positions above `ir` are not touched -/
theorem siftDown_frame (indxt : Nat) (q : α) (ir fuel i j : Nat) (idx : List Nat) (hi : i ≤ ir)
    (k : Nat) (hk : ir < k) : (siftDown lt a indxt q ir fuel i j idx).getD k 0 = idx.getD k 0 := by
  induction fuel generalizing i j idx with
  | zero => simp only [siftDown]; rw [getD_set']; rw [if_neg (by omega)]
  | succ f ih =>
    rw [siftDown_succ]
    by_cases h1 : j ≤ ir
    · rw [if_pos h1]
      obtain ⟨hc1, hc2, hc3⟩ := childSel_range lt a idx j ir h1
      generalize childSel lt a idx j ir = j' at *
      by_cases h2 : lt q (keyAt a idx j') = true
      · rw [if_pos h2, ih j' _ _ hc3, getD_set', if_neg (by omega)]
      · rw [if_neg h2, getD_set', if_neg (by omega)]
    · rw [if_neg h1, getD_set', if_neg (by omega)]

/-- every entry at a position `≤ ir` after the sift was `indxt` or an entry at a position `≤ ir` before -/
theorem siftDown_closed (P : Nat → Prop) (indxt : Nat) (q : α) (ir fuel i j : Nat) (idx : List Nat)
    (hP : P indxt) (hall : ∀ k, k ≤ ir → P (idx.getD k 0)) (k : Nat) (hk : k ≤ ir) :
    P ((siftDown lt a indxt q ir fuel i j idx).getD k 0) := by
  induction fuel generalizing i j idx with
  | zero =>
    simp only [siftDown]; rw [getD_set']
    split_ifs
    · exact hP
    · exact hall k hk
  | succ f ih =>
    rw [siftDown_succ]
    by_cases h1 : j ≤ ir
    · rw [if_pos h1]
      obtain ⟨hc1, hc2, hc3⟩ := childSel_range lt a idx j ir h1
      generalize childSel lt a idx j ir = j' at *
      by_cases h2 : lt q (keyAt a idx j') = true
      · rw [if_pos h2]
        apply ih
        intro k' hk'
        rw [getD_set']
        split_ifs
        · exact hall j' hc3
        · exact hall k' hk'
      · rw [if_neg h2, getD_set']
        split_ifs
        · exact hP
        · exact hall k hk
    · rw [if_neg h1, getD_set']
      split_ifs
      · exact hP
      · exact hall k hk

theorem heapify_perm (n l : Nat) (idx : List Nat) (hlen : idx.length = n) (hl : l ≤ n) :
    (heapify lt a n l idx).Perm idx := by
  induction l generalizing idx with
  | zero => exact Perm.refl _
  | succ i ih =>
    simp only [heapify]
    have hp := siftDown_perm lt a (idx.getD i 0) (a.getD (idx.getD i 0) default) (n - 1) n i (2 * i + 1) idx
      (by omega) (by omega) (by omega)
    rw [set_getD_self] at hp
    exact (ih _ (by rw [hp.length_eq, hlen]) (by omega)).trans hp

theorem extract_perm (n ir : Nat) (idx : List Nat) (hir : ir < idx.length) :
    (extract lt a n ir idx).Perm idx := by
  induction ir generalizing idx with
  | zero => exact Perm.refl _
  | succ ir ih =>
    simp only [extract]
    have hsw : ((idx.set (ir + 1) (idx.getD 0 0)).set 0 (idx.getD (ir + 1) 0)).Perm idx := by
      have h := List.set_set_perm (as := idx) (i := ir + 1) (j := 0) hir (by omega)
      rwa [← getD_eq_getElem' idx 0 hir, ← getD_eq_getElem' idx 0 (by omega : 0 < idx.length)] at h
    split_ifs with h0
    · exact hsw
    · have hp := siftDown_perm lt a (idx.getD (ir + 1) 0) (a.getD (idx.getD (ir + 1) 0) default) ir n 0 1
        (idx.set (ir + 1) (idx.getD 0 0)) (by omega) (by simp; omega) (by simp; omega)
      exact (ih _ (by rw [hp.length_eq]; simp; omega)).trans (hp.trans hsw)

/-- `ref_sort_heap_*`: `sorted_index` is a permutation of `0..n-1`, for any comparison whatsoever
    (in particular for `REF_DBL` keys with NaNs) -/
theorem sortHeap_perm : (sortHeap lt a).Perm (List.range a.length) := by
  simp only [sortHeap]
  split_ifs with h
  · exact Perm.refl _
  · have h1 := heapify_perm lt a a.length (a.length >>> 1) (List.range a.length) (by simp)
      (by rw [Nat.shiftRight_eq_div_pow]; omega)
    exact (extract_perm lt a a.length (a.length - 1) _ (by rw [h1.length_eq]; simp; omega)).trans h1

theorem heapLoop_phase1 (n i f : Nat) (idx : List Nat) (h : i ≤ f) :
    heapLoop lt a n f (i + 1) (n - 1) idx = heapLoop lt a n (f - i) 1 (n - 1) (heapify lt a n i idx) := by
  induction i generalizing f idx with
  | zero => rfl
  | succ i ih =>
    obtain ⟨f', rfl⟩ : ∃ f', f = f' + 1 := ⟨f - 1, by omega⟩
    rw [heapLoop, if_pos (by omega)]
    simp only [Nat.add_sub_cancel, heapify]
    have e : i + 1 + i = 2 * i + 1 := by omega
    rw [e, ih f' _ (by omega)]
    congr 1
    omega

theorem heapLoop_phase2 (n ir f : Nat) (idx : List Nat) (h1 : 1 ≤ ir) (h : ir ≤ f) :
    heapLoop lt a n f 1 ir idx = extract lt a n ir idx := by
  induction ir generalizing f idx with
  | zero => omega
  | succ ir ih =>
    obtain ⟨f', rfl⟩ : ∃ f', f = f' + 1 := ⟨f - 1, by omega⟩
    rw [heapLoop, if_neg (by omega)]
    simp only [Nat.add_sub_cancel, extract, Nat.sub_self, Nat.add_zero]
    by_cases h0 : ir = 0
    · rw [if_pos h0, if_pos h0]
    · rw [if_neg h0, if_neg h0, ih f' _ (by omega) (by omega)]

/-- the literal single loop computes exactly the two-phase function the theorems are about -/
theorem sortHeapLoop_eq : sortHeapLoop lt a = sortHeap lt a := by
  unfold sortHeapLoop sortHeap
  simp only
  split_ifs with h
  · rfl
  · rw [heapLoop_phase1 lt a a.length (a.length >>> 1) _ _ (by omega),
      heapLoop_phase2 lt a a.length (a.length - 1) _ _ (by omega) (by omega)]


end perm


section sorted
variable {α : Type} [Inhabited α] [LinearOrder α] (a : List α)

/-- the comparison used by the `REF_INT`, `REF_GLOB` and (NaN-free) `REF_DBL` instances -/
def ltOf : α → α → Bool := fun x y => decide (x < y)

/-- max-heap property of the keys `K` for all parents `k ≥ lo` with children `≤ ir` -/
def HeapProp (K : Nat → α) (lo ir : Nat) : Prop :=
  ∀ k c, lo ≤ k → (c = 2 * k + 1 ∨ c = 2 * k + 2) → c ≤ ir → K c ≤ K k

omit [LinearOrder α] in
theorem keyAt_set (idx : List Nat) (i x k : Nat) (hi : i < idx.length) :
    keyAt a (idx.set i x) k = if k = i then a.getD x default else keyAt a idx k := by
  unfold keyAt
  rw [getD_set']
  by_cases h : k = i
  · simp [h, hi]
  · simp [h]

theorem childSel_max (idx : List Nat) (j ir : Nat) :
    keyAt a idx j ≤ keyAt a idx (childSel ltOf a idx j ir) ∧
      (j + 1 ≤ ir → keyAt a idx (j + 1) ≤ keyAt a idx (childSel ltOf a idx j ir)) := by
  unfold childSel ltOf
  split_ifs with h3
  · simp only [Bool.and_eq_true, decide_eq_true_eq] at h3
    exact ⟨le_of_lt h3.2, fun _ => le_refl _⟩
  · simp only [Bool.and_eq_true, decide_eq_true_eq, not_and, not_lt] at h3
    exact ⟨le_refl _, fun h => h3 (by omega)⟩

/-- filling the hole `i` with `q` gives a heap when `q` dominates the children of `i` -/
theorem fill_heap (indxt : Nat) (q : α) (hq : q = a.getD indxt default) (lo ir i : Nat) (idx : List Nat)
    (hil : i < idx.length)
    (hA : ∀ k c, lo ≤ k → (c = 2 * k + 1 ∨ c = 2 * k + 2) → c ≤ ir → k ≠ i → c ≠ i →
      keyAt a idx c ≤ keyAt a idx k)
    (hB : ∀ p, lo ≤ p → (i = 2 * p + 1 ∨ i = 2 * p + 2) → q ≤ keyAt a idx p)
    (hC : ∀ c, (c = 2 * i + 1 ∨ c = 2 * i + 2) → c ≤ ir → keyAt a idx c ≤ q) :
    HeapProp (keyAt a (idx.set i indxt)) lo ir := by
  intro k c hk hc hcir
  rw [keyAt_set a idx i indxt c hil, keyAt_set a idx i indxt k hil, ← hq]
  by_cases hki : k = i
  · have hci : ¬ c = i := by omega
    rw [if_pos hki, if_neg hci]
    exact hC c (by rw [← hki]; exact hc) hcir
  · rw [if_neg hki]
    by_cases hci : c = i
    · rw [if_pos hci]; exact hB k hk (by rw [← hci]; exact hc)
    · rw [if_neg hci]; exact hA k c hk hc hcir hki hci

theorem siftDown_heap (indxt : Nat) (q : α) (hq : q = a.getD indxt default) (lo ir fuel i j : Nat)
    (idx : List Nat) (hj : j = 2 * i + 1) (hlo : lo ≤ i) (hi : i ≤ ir) (hir : ir < idx.length)
    (hfuel : ir < j + fuel)
    (hA : ∀ k c, lo ≤ k → (c = 2 * k + 1 ∨ c = 2 * k + 2) → c ≤ ir → k ≠ i → c ≠ i →
      keyAt a idx c ≤ keyAt a idx k)
    (hB : ∀ p, lo ≤ p → (i = 2 * p + 1 ∨ i = 2 * p + 2) → q ≤ keyAt a idx p ∧
      ∀ c, (c = 2 * i + 1 ∨ c = 2 * i + 2) → c ≤ ir → keyAt a idx c ≤ keyAt a idx p) :
    HeapProp (keyAt a (siftDown ltOf a indxt q ir fuel i j idx)) lo ir := by
  induction fuel generalizing i j idx with
  | zero =>
    simp only [siftDown]
    exact fill_heap a indxt q hq lo ir i idx (by omega) hA (fun p hp hc => (hB p hp hc).1)
      (fun c hc hcir => by omega)
  | succ f ih =>
    rw [siftDown_succ]
    by_cases h1 : j ≤ ir
    · rw [if_pos h1]
      obtain ⟨hc1, hc2, hc3⟩ := childSel_range ltOf a idx j ir h1
      obtain ⟨hm1, hm2⟩ := childSel_max a idx j ir
      generalize childSel ltOf a idx j ir = j' at *
      have hmax : ∀ c, (c = 2 * i + 1 ∨ c = 2 * i + 2) → c ≤ ir → keyAt a idx c ≤ keyAt a idx j' := by
        intro c hc hcir
        rcases hc with hc | hc
        · rw [hc, ← hj]; exact hm1
        · have : c = j + 1 := by omega
          rw [this]; exact hm2 (by omega)
      by_cases h2 : ltOf q (keyAt a idx j') = true
      · rw [if_pos h2]
        have hlt : q < keyAt a idx j' := by simpa [ltOf] using h2
        have hil : i < idx.length := by omega
        have hK : ∀ k, keyAt a (idx.set i (idx.getD j' 0)) k = if k = i then keyAt a idx j' else keyAt a idx k :=
          fun k => keyAt_set a idx i (idx.getD j' 0) k hil
        apply ih j' (2 * j' + 1) (idx.set i (idx.getD j' 0)) rfl (by omega) hc3 (by simpa using hir) (by omega)
        · intro k c hk hc hcir hkj hcj
          rw [hK, hK]
          by_cases hki : k = i
          · have hci : ¬ c = i := by omega
            rw [if_pos hki, if_neg hci]
            exact hmax c (by rw [← hki]; exact hc) hcir
          · rw [if_neg hki]
            by_cases hci : c = i
            · rw [if_pos hci]
              exact (hB k hk (by rw [← hci]; exact hc)).2 j' (by omega) hc3
            · rw [if_neg hci]; exact hA k c hk hc hcir hki hci
        · intro p hp hpc
          have hpi : p = i := by omega
          subst hpi
          rw [hK, if_pos rfl]
          refine ⟨le_of_lt hlt, fun c hc hcir => ?_⟩
          have hci : ¬ c = p := by omega
          rw [hK, if_neg hci]
          exact hA j' c (by omega) hc hcir (by omega) hci
      · rw [if_neg h2]
        have hge : keyAt a idx j' ≤ q := by
          have : ¬ q < keyAt a idx j' := by simpa [ltOf] using h2
          exact not_lt.1 this
        exact fill_heap a indxt q hq lo ir i idx (by omega) hA (fun p hp hc => (hB p hp hc).1)
          (fun c hc hcir => le_trans (hmax c hc hcir) hge)
    · rw [if_neg h1]
      exact fill_heap a indxt q hq lo ir i idx (by omega) hA (fun p hp hc => (hB p hp hc).1)
        (fun c hc hcir => by omega)

theorem heapify_heap (n l : Nat) (idx : List Nat) (hlen : idx.length = n) (hl : l ≤ n / 2)
    (hH : HeapProp (keyAt a idx) l (n - 1)) :
    HeapProp (keyAt a (heapify ltOf a n l idx)) 0 (n - 1) := by
  induction l generalizing idx with
  | zero => exact hH
  | succ i ih =>
    simp only [heapify]
    apply ih
    · rw [siftDown_length ltOf a _ _ _ _ _ _ _ (by omega) (by omega) (by omega), hlen]
    · omega
    · apply siftDown_heap a _ _ rfl i (n - 1) n i (2 * i + 1) idx rfl (Nat.le_refl _) (by omega) (by omega) (by omega)
      · intro k c hk hc hcir hki hci
        exact hH k c (by omega) hc hcir
      · intro p hp hpc; omega

omit [Inhabited α] in
/-- the root of a heap is its maximum -/
theorem root_max (K : Nat → α) (ir : Nat) (hH : HeapProp K 0 ir) (k : Nat) (hk : k ≤ ir) : K k ≤ K 0 := by
  induction k using Nat.strongRecOn with
  | _ k ih =>
    rcases Nat.eq_zero_or_pos k with h0 | h0
    · subst h0; exact le_refl _
    · have h1 := hH ((k - 1) / 2) k (Nat.zero_le _) (by omega) hk
      exact le_trans h1 (ih ((k - 1) / 2) (by omega) (by omega))

theorem extract_sorted (n ir : Nat) (idx : List Nat) (hlen : idx.length = n) (hir : ir < n) (h1 : 1 ≤ ir)
    (hH : HeapProp (keyAt a idx) 0 ir)
    (hS : ∀ p q, ir < p → p < q → q < n → keyAt a idx p ≤ keyAt a idx q)
    (hD : ∀ k p, k ≤ ir → ir < p → p < n → keyAt a idx k ≤ keyAt a idx p) :
    ∀ p q, p < q → q < n → keyAt a (extract ltOf a n ir idx) p ≤ keyAt a (extract ltOf a n ir idx) q := by
  induction ir generalizing idx with
  | zero => omega
  | succ ir ih =>
    simp only [extract]
    have hroot := root_max (keyAt a idx) (ir + 1) hH
    have hl1 : ir + 1 < idx.length := by omega
    have hK1 : ∀ k, keyAt a (idx.set (ir + 1) (idx.getD 0 0)) k =
        if k = ir + 1 then keyAt a idx 0 else keyAt a idx k :=
      fun k => keyAt_set a idx (ir + 1) (idx.getD 0 0) k hl1
    by_cases h0 : ir = 0
    · rw [if_pos h0]
      subst h0
      have hK : ∀ k, keyAt a ((idx.set 1 (idx.getD 0 0)).set 0 (idx.getD 1 0)) k =
          if k = 0 then keyAt a idx 1 else if k = 1 then keyAt a idx 0 else keyAt a idx k := by
        intro k
        rw [keyAt_set a _ 0 _ k (by simp; omega), hK1]
        rfl
      intro p q hpq hq
      rw [hK, hK]
      have hq0 : ¬ q = 0 := by omega
      rw [if_neg hq0]
      by_cases hp0 : p = 0
      · rw [if_pos hp0]
        by_cases hq1 : q = 1
        · rw [if_pos hq1]; exact hroot 1 (Nat.le_refl _)
        · rw [if_neg hq1]; exact hD 1 q (Nat.le_refl _) (by omega) hq
      · rw [if_neg hp0]
        have hq1 : ¬ q = 1 := by omega
        rw [if_neg hq1]
        by_cases hp1 : p = 1
        · rw [if_pos hp1]; exact hD 0 q (by omega) (by omega) hq
        · rw [if_neg hp1]; exact hS p q (by omega) hpq hq
    · rw [if_neg h0]
      set idx1 := idx.set (ir + 1) (idx.getD 0 0) with hidx1
      have hlen1 : idx1.length = n := by simp [hidx1, hlen]
      set r := siftDown ltOf a (idx.getD (ir + 1) 0) (a.getD (idx.getD (ir + 1) 0) default) ir n 0 1 idx1 with hr
      have hrlen : r.length = n := by
        rw [hr, siftDown_length ltOf a _ _ _ _ _ _ _ (by omega) (by omega) (by omega), hlen1]
      -- keys above `ir` after the sift are those of `idx1`
      have hframe : ∀ k, ir < k → keyAt a r k = keyAt a idx1 k := by
        intro k hk
        unfold keyAt
        rw [hr, siftDown_frame ltOf a _ _ _ _ _ _ _ (Nat.zero_le _) k hk]
      apply ih r hrlen (by omega) (by omega)
      · -- heap on [0, ir]
        apply siftDown_heap a _ _ rfl 0 ir n 0 1 idx1 rfl (Nat.le_refl _) (Nat.zero_le _) (by omega) (by omega)
        · intro k c hk hc hcir hki hci
          rw [hK1, hK1, if_neg (by omega), if_neg (by omega)]
          exact hH k c hk hc (by omega)
        · intro p hp hpc; omega
      · -- sorted suffix
        intro p q hp hpq hq
        rw [hframe p hp, hframe q (by omega), hK1, hK1]
        have hq' : ¬ q = ir + 1 := by omega
        rw [if_neg hq']
        by_cases hp' : p = ir + 1
        · rw [if_pos hp']; exact hD 0 q (by omega) (by omega) hq
        · rw [if_neg hp']; exact hS p q (by omega) hpq hq
      · -- dominance
        intro k p hk hp hpn
        rw [hframe p hp]
        have hcl := siftDown_closed ltOf a (fun v => a.getD v default ≤ keyAt a idx1 p) (idx.getD (ir + 1) 0)
          (a.getD (idx.getD (ir + 1) 0) default) ir n 0 1 idx1
        have hbound : ∀ k', k' ≤ ir + 1 → keyAt a idx k' ≤ keyAt a idx1 p := by
          intro k' hk'
          rw [hK1]
          by_cases hp' : p = ir + 1
          · rw [if_pos hp']; exact hroot k' hk'
          · rw [if_neg hp']; exact hD k' p hk' (by omega) hpn
        refine hcl (hbound (ir + 1) (Nat.le_refl _)) ?_ k hk
        intro k' hk'
        have : keyAt a idx1 k' = keyAt a idx k' := by rw [hK1, if_neg (by omega)]
        show keyAt a idx1 k' ≤ _
        rw [this]; exact hbound k' (by omega)

/-- `ref_sort_heap_*`: the keys are non-decreasing along `sorted_index` -/
theorem sortHeap_sorted : (applyIdx a (sortHeap ltOf a)).Pairwise (· ≤ ·) := by
  have key : ∀ p q, p < q → q < a.length →
      keyAt a (sortHeap ltOf a) p ≤ keyAt a (sortHeap ltOf a) q := by
    simp only [sortHeap]
    split_ifs with h
    · intro p q hpq hq; omega
    · have hp := heapify_perm ltOf a a.length (a.length >>> 1) (List.range a.length) (by simp)
        (by rw [Nat.shiftRight_eq_div_pow]; omega)
      apply extract_sorted a a.length (a.length - 1) _ (by rw [hp.length_eq]; simp) (by omega) (by omega)
      · rw [Nat.shiftRight_eq_div_pow, Nat.pow_one]
        apply heapify_heap a a.length (a.length / 2) _ (by simp) (Nat.le_refl _)
        intro k c hk hc hcir; omega
      · intro p q hp; omega
      · intro k p hk hp; omega
  have hlen : (sortHeap ltOf a).length = a.length := by
    rw [(sortHeap_perm ltOf a).length_eq, List.length_range]
  rw [List.pairwise_iff_getElem]
  intro i j hi hj hij
  simp only [applyIdx, List.length_map] at hi hj
  have := key i j hij (by omega)
  simp only [applyIdx, List.getElem_map]
  unfold keyAt at this
  rwa [getD_eq_getElem' _ _ hi, getD_eq_getElem' _ _ hj] at this

end sorted

/-- applying a permutation of `0..n-1` to `a` permutes `a` -/
theorem applyIdx_perm {α : Type} [Inhabited α] (a : List α) (idx : List Nat)
    (h : idx.Perm (List.range a.length)) : (applyIdx a idx).Perm a := by
  have h1 : (applyIdx a idx).Perm ((List.range a.length).map fun k => a.getD k default) := h.map _
  have h2 : ((List.range a.length).map fun k => a.getD k default) = a := by
    apply List.ext_getElem (by simp)
    intro i h1 h2
    simp only [List.getElem_map, List.getElem_range]
    exact getD_eq_getElem' a default h2
  rwa [h2] at h1

theorem ltInt_eq : ltInt = ltOf (α := Int) := by
  funext x y; simp [ltInt, ltOf]


end Refine.Model.Sort
