import Refine.Model.ContainersSort
import Mathlib.Data.List.Perm.Basic
import Mathlib.Order.Basic

namespace Refine.Model.Sort
open List

theorem getD_set' {α} (s : List α) (i k : Nat) (x d : α) :
    (s.set i x).getD k d = if k = i ∧ i < s.length then x else s.getD k d := by
  simp only [List.getD_eq_getElem?_getD, List.getElem?_set]
  split_ifs <;> simp_all

theorem length_swapAt {α} (d : α) (s : List α) (i j : Nat) : (swapAt d s i j).length = s.length := by
  simp [swapAt]

theorem swapAt_perm {α} (d : α) (s : List α) (i j : Nat) (hi : i < s.length) (hj : j < s.length) :
    (swapAt d s i j).Perm s := by
  have := List.set_set_perm (as := s) hi hj
  simpa [swapAt, List.getD_eq_getElem?_getD, hi, hj] using this

theorem getD_swapAt {α} (d : α) (s : List α) (i j k : Nat) (hi : i < s.length) (hj : j < s.length) :
    (swapAt d s i j).getD k d = if k = j then s.getD i d else if k = i then s.getD j d else s.getD k d := by
  simp only [swapAt, getD_set', List.length_set]
  split_ifs <;> simp_all

/-- `minLoop` returns an index in `{sm} ∪ [j, j+c)` whose value is minimal among those -/
theorem minLoop_spec (s : List Int) (c j sm : Nat) :
    (minLoop s c j sm = sm ∨ (j ≤ minLoop s c j sm ∧ minLoop s c j sm < j + c)) ∧
      s.getD (minLoop s c j sm) 0 ≤ s.getD sm 0 ∧
      ∀ k, j ≤ k → k < j + c → s.getD (minLoop s c j sm) 0 ≤ s.getD k 0 := by
  induction c generalizing j sm with
  | zero => exact ⟨Or.inl rfl, Int.le_refl _, fun k h1 h2 => by omega⟩
  | succ c ih =>
    simp only [minLoop]
    by_cases hlt : s.getD j 0 < s.getD sm 0
    · simp only [hlt, if_true]
      obtain ⟨h1, h2, h3⟩ := ih (j + 1) j
      refine ⟨by omega, by omega, fun k hk1 hk2 => ?_⟩
      by_cases hkj : k = j
      · subst hkj; exact h2
      · exact h3 k (by omega) (by omega)
    · simp only [hlt, if_false]
      obtain ⟨h1, h2, h3⟩ := ih (j + 1) sm
      refine ⟨by omega, h2, fun k hk1 hk2 => ?_⟩
      by_cases hkj : k = j
      · subst hkj; omega
      · exact h3 k (by omega) (by omega)

/-- loop invariant of the selection sort -/
theorem selLoop_spec (c i : Nat) (s : List Int) (hn : i + c = s.length)
    (hpre : ∀ a b, a < i → a < b → b < s.length → s.getD a 0 ≤ s.getD b 0) :
    (selLoop c i s).Perm s ∧
      ∀ a b, a < b → b < (selLoop c i s).length → (selLoop c i s).getD a 0 ≤ (selLoop c i s).getD b 0 := by
  induction c generalizing i s with
  | zero =>
    simp only [selLoop]
    refine ⟨Perm.refl _, fun a b hab hb => hpre a b (by omega) hab hb⟩
  | succ c ih =>
    simp only [selLoop]
    obtain ⟨hm1, hm2, hm3⟩ := minLoop_spec s c (i + 1) i
    generalize minLoop s c (i + 1) i = m at hm1 hm2 hm3 ⊢
    have hi : i < s.length := by omega
    have hml : m < s.length := by omega
    have hmi : i ≤ m := by omega
    have hlen := length_swapAt (0 : Int) s i m
    have hmin : ∀ k, i ≤ k → k < s.length → s.getD m 0 ≤ s.getD k 0 := by
      intro k hk1 hk2
      by_cases hki : k = i
      · subst hki; exact hm2
      · exact hm3 k (by omega) (by omega)
    have h := ih (i + 1) (swapAt 0 s i m) (by omega) (by
      intro a b ha hab hb
      rw [hlen] at hb
      rw [getD_swapAt _ _ _ _ _ hi hml, getD_swapAt _ _ _ _ _ hi hml]
      by_cases hai : a = i
      · subst hai
        have : ¬ (b = a) := by omega
        by_cases ham : a = m
        · subst ham; simp [this]; exact hmin b (by omega) hb
        · simp only [ham, if_false, if_true, this]
          split_ifs
          · exact hmin a (by omega) hi
          · exact hmin b (by omega) hb
      · have ha' : a < i := by omega
        have h1 : ¬ a = m := by omega
        simp only [h1, hai, if_false]
        split_ifs
        · exact hpre a i ha' (by omega) hi
        · exact hpre a m ha' (by omega) hml
        · exact hpre a b ha' hab hb)
    exact ⟨h.1.trans (swapAt_perm 0 s i m hi hml), h.2⟩

theorem sortInsertion_perm (a : List Int) : (sortInsertion a).Perm a :=
  (selLoop_spec a.length 0 a (by simp) (by intro _ _ h; omega)).1

theorem sortInsertion_sorted (a : List Int) : (sortInsertion a).Pairwise (· ≤ ·) := by
  have h := (selLoop_spec a.length 0 a (by simp) (by intro _ _ h; omega)).2
  rw [List.pairwise_iff_getElem]
  intro i j hi hj hij
  have := h i j hij hj
  simp only [sortInsertion] at hi hj ⊢
  simpa [List.getD_eq_getElem?_getD, List.getElem?_eq_getElem hi, List.getElem?_eq_getElem hj] using this

theorem uniqueLoop_spec (s : List Int)
    (hs : ∀ a b, a < b → b < s.length → s.getD a 0 ≤ s.getD b 0)
    (c i j : Nat) (u : List Int) (hlen : u.length = s.length) (hi : i + c = s.length) (hji : j < i)
    (hsuf : ∀ k, i ≤ k → u.getD k 0 = s.getD k 0)
    (hinc : ∀ a b, a < b → b ≤ j → u.getD a 0 < u.getD b 0)
    (hlast : u.getD j 0 = s.getD (i - 1) 0)
    (hset : ∀ x, (∃ k, k ≤ j ∧ u.getD k 0 = x) ↔ (∃ k, k < i ∧ s.getD k 0 = x)) :
    (uniqueLoop c i j u).2.length = s.length ∧ (uniqueLoop c i j u).1 < s.length ∧
    (∀ a b, a < b → b ≤ (uniqueLoop c i j u).1 →
        (uniqueLoop c i j u).2.getD a 0 < (uniqueLoop c i j u).2.getD b 0) ∧
    (∀ x, (∃ k, k ≤ (uniqueLoop c i j u).1 ∧ (uniqueLoop c i j u).2.getD k 0 = x) ↔
        (∃ k, k < s.length ∧ s.getD k 0 = x)) := by
  induction c generalizing i j u with
  | zero =>
    simp only [uniqueLoop]
    have : i = s.length := by omega
    subst this
    exact ⟨hlen, by omega, hinc, hset⟩
  | succ c ih =>
    simp only [uniqueLoop]
    have hil : i < s.length := by omega
    have hui : u.getD i 0 = s.getD i 0 := hsuf i (Nat.le_refl _)
    have hle : u.getD j 0 ≤ u.getD i 0 := by
      rw [hlast, hui]; exact hs (i - 1) i (by omega) hil
    by_cases hne : u.getD j 0 ≠ u.getD i 0
    · simp only [if_pos hne]
      have hlt : u.getD j 0 < u.getD i 0 := by omega
      -- uniform description of the updated array
      have hu' : ∀ k, (if j + 1 ≠ i then u.set (j + 1) (u.getD i 0) else u).getD k 0 =
          if k = j + 1 then u.getD i 0 else u.getD k 0 := by
        intro k
        by_cases hj1 : j + 1 = i
        · simp only [hj1, ne_eq, not_true_eq_false, if_false]
          split_ifs with hk
          · rw [hk]
          · rfl
        · simp only [ne_eq, hj1, not_false_eq_true, if_true, getD_set', hlen]
          have : j + 1 < s.length := by omega
          simp [this]
      have hlen' : (if j + 1 ≠ i then u.set (j + 1) (u.getD i 0) else u).length = s.length := by
        split_ifs <;> simp [hlen]
      generalize (if j + 1 ≠ i then u.set (j + 1) (u.getD i 0) else u) = u' at hu' hlen' ⊢
      apply ih (i + 1) (j + 1) u' hlen' (by omega) (by omega)
      · intro k hk; rw [hu']; have : ¬ k = j + 1 := by omega
        simp only [this, if_false]; exact hsuf k (by omega)
      · intro a b hab hb
        rw [hu', hu']
        have ha : ¬ a = j + 1 := by omega
        simp only [ha, if_false]
        by_cases hbj : b = j + 1
        · simp only [hbj, if_true]
          by_cases haj : a = j
          · rw [haj]; exact hlt
          · have := hinc a j (by omega) (Nat.le_refl _); omega
        · simp only [hbj, if_false]; exact hinc a b hab (by omega)
      · rw [hu', if_pos rfl, hui, Nat.add_sub_cancel]
      · intro x
        constructor
        · rintro ⟨k, hk, hx⟩
          rw [hu'] at hx
          by_cases hkj : k = j + 1
          · simp only [hkj, if_true] at hx; exact ⟨i, by omega, by rw [← hui]; exact hx⟩
          · simp only [hkj, if_false] at hx
            obtain ⟨k', hk', hx'⟩ := (hset x).1 ⟨k, by omega, hx⟩
            exact ⟨k', by omega, hx'⟩
        · rintro ⟨k, hk, hx⟩
          by_cases hki : k = i
          · exact ⟨j + 1, Nat.le_refl _, by rw [hu', if_pos rfl, hui, ← hki, hx]⟩
          · obtain ⟨k', hk', hx'⟩ := (hset x).2 ⟨k, by omega, hx⟩
            refine ⟨k', by omega, ?_⟩
            rw [hu']; have : ¬ k' = j + 1 := by omega
            simp only [this, if_false]; exact hx'
    · have heq : u.getD j 0 = u.getD i 0 := by omega
      simp only [if_neg hne]
      have hji' : j ≠ i := by omega
      simp only [ne_eq, hji', not_false_eq_true, if_true]
      have hu' : ∀ k, (u.set j (u.getD i 0)).getD k 0 = u.getD k 0 := by
        intro k
        rw [getD_set']
        split_ifs with h
        · rw [h.1, heq]
        · rfl
      have hlen' : (u.set j (u.getD i 0)).length = s.length := by simp [hlen]
      generalize (u.set j (u.getD i 0)) = u' at hu' hlen' ⊢
      apply ih (i + 1) j u' hlen' (by omega) (by omega)
      · intro k hk; rw [hu']; exact hsuf k (by omega)
      · intro a b hab hb; rw [hu', hu']; exact hinc a b hab hb
      · rw [hu', heq, hui, Nat.add_sub_cancel]
      · intro x
        constructor
        · rintro ⟨k, hk, hx⟩
          rw [hu'] at hx
          obtain ⟨k', hk', hx'⟩ := (hset x).1 ⟨k, hk, hx⟩
          exact ⟨k', by omega, hx'⟩
        · rintro ⟨k, hk, hx⟩
          by_cases hki : k = i
          · exact ⟨j, Nat.le_refl _, by rw [hu', heq, hui, ← hki, hx]⟩
          · obtain ⟨k', hk', hx'⟩ := (hset x).2 ⟨k, by omega, hx⟩
            exact ⟨k', hk', by rw [hu']; exact hx'⟩


theorem getD_eq_getElem' {α} (l : List α) (d : α) {i : Nat} (h : i < l.length) : l.getD i d = l[i] := by
  simp [List.getD_eq_getElem?_getD, h]

theorem pairwise_iff_getD {R : Int → Int → Prop} (l : List Int) :
    l.Pairwise R ↔ ∀ a b, a < b → b < l.length → R (l.getD a 0) (l.getD b 0) := by
  rw [List.pairwise_iff_getElem]
  constructor
  · intro h a b hab hb
    have := h a b (by omega) hb hab
    rwa [getD_eq_getElem' _ _ (by omega : a < l.length), getD_eq_getElem' _ _ hb]
  · intro h a b ha hb hab
    have := h a b hab hb
    rwa [getD_eq_getElem' _ _ ha, getD_eq_getElem' _ _ hb] at this

theorem mem_iff_getD (l : List Int) (x : Int) : x ∈ l ↔ ∃ k, k < l.length ∧ l.getD k 0 = x := by
  rw [List.mem_iff_getElem]
  constructor
  · rintro ⟨k, hk, hx⟩; exact ⟨k, hk, by rw [getD_eq_getElem' _ _ hk, hx]⟩
  · rintro ⟨k, hk, hx⟩; exact ⟨k, hk, by rw [← hx, getD_eq_getElem' _ _ hk]⟩

theorem getD_take (l : List Int) (m k : Nat) (hk : k < m) : (l.take m).getD k 0 = l.getD k 0 := by
  simp [List.getD_eq_getElem?_getD, hk]

/-- `ref_sort_unique_int` for `n ≥ 1`: `nunique` counts a strictly increasing list with the same
    elements as the input -/
theorem uniqueInt_cons (x : Int) (xs : List Int) :
    uniqueInt (x :: xs) =
      ((uniqueLoop ((x :: xs).length - 1) 1 0 (sortInsertion (x :: xs))).1 + 1,
       (uniqueLoop ((x :: xs).length - 1) 1 0 (sortInsertion (x :: xs))).2) := rfl

theorem uniqueInt_spec_ne (a : List Int) (ha : a ≠ []) :
    (uniqueInt a).1 = (uniqueList a).length ∧ (uniqueList a).Pairwise (· < ·) ∧
      ∀ x, x ∈ uniqueList a ↔ x ∈ a := by
  obtain ⟨x0, xs0, rfl⟩ : ∃ x xs, a = x :: xs := by
    cases a with
    | nil => exact absurd rfl ha
    | cons x xs => exact ⟨x, xs, rfl⟩
  generalize hA : x0 :: xs0 = a at *
  have hcons : uniqueInt a = ((uniqueLoop (a.length - 1) 1 0 (sortInsertion a)).1 + 1,
      (uniqueLoop (a.length - 1) 1 0 (sortInsertion a)).2) := by
    subst hA; exact uniqueInt_cons x0 xs0
  have hperm := sortInsertion_perm a
  have hsorted := (pairwise_iff_getD _).1 (sortInsertion_sorted a)
  have hlen : (sortInsertion a).length = a.length := hperm.length_eq
  have hpos : 0 < a.length := List.length_pos_iff.2 ha
  obtain ⟨h1, h2, h3, h4⟩ := uniqueLoop_spec (sortInsertion a) hsorted (a.length - 1) 1 0 (sortInsertion a)
    rfl (by omega) (by omega) (fun _ _ => rfl) (fun a b hab hb => by omega) rfl
    (fun x => ⟨fun ⟨k, hk, hx⟩ => ⟨k, by omega, hx⟩, fun ⟨k, hk, hx⟩ => ⟨k, by omega, hx⟩⟩)
  simp only [uniqueList, hcons]
  generalize uniqueLoop (a.length - 1) 1 0 (sortInsertion a) = r at h1 h2 h3 h4
  obtain ⟨j, u⟩ := r
  simp only at h1 h2 h3 h4 ⊢
  refine ⟨by simp [List.length_take]; omega, ?_, ?_⟩
  · rw [pairwise_iff_getD]
    intro p q hpq hq
    simp only [List.length_take] at hq
    rw [getD_take _ _ _ (by omega), getD_take _ _ _ (by omega)]
    exact h3 p q hpq (by omega)
  · intro x
    rw [mem_iff_getD, ← hperm.mem_iff, mem_iff_getD (sortInsertion a), ← h4]
    simp only [List.length_take]
    constructor
    · rintro ⟨k, hk, hx⟩
      exact ⟨k, by omega, by rwa [getD_take _ _ _ (by omega)] at hx⟩
    · rintro ⟨k, hk, hx⟩
      exact ⟨k, by omega, by rwa [getD_take _ _ _ (by omega)]⟩

theorem uniqueInt_nil : uniqueInt [] = (0, []) := rfl

/-- `ref_sort_unique_int` for every `n` (the empty list included): `nunique` counts a strictly increasing list
    with the same elements as the input -/
theorem uniqueInt_spec (a : List Int) :
    (uniqueInt a).1 = (uniqueList a).length ∧ (uniqueList a).Pairwise (· < ·) ∧
      ∀ x, x ∈ uniqueList a ↔ x ∈ a := by
  by_cases ha : a = []
  · subst ha
    simp [uniqueList, uniqueInt_nil]
  · exact uniqueInt_spec_ne a ha


theorem strictSorted_ext {l₁ l₂ : List Int} (h₁ : l₁.Pairwise (· < ·)) (h₂ : l₂.Pairwise (· < ·))
    (h : ∀ x, x ∈ l₁ ↔ x ∈ l₂) : l₁ = l₂ := by
  have d₁ : l₁.Nodup := h₁.imp (fun h => by omega)
  have d₂ : l₂.Nodup := h₂.imp (fun h => by omega)
  exact List.Perm.eq_of_pairwise (le := (· < ·)) (fun a b _ _ hab hba => by omega) h₁ h₂
    ((List.perm_ext_iff_of_nodup d₁ d₂).2 h)

theorem sortSame_eq (l0 l1 : List Int) :
    sortSame l0 l1 = true ↔ uniqueList l0 = uniqueList l1 := by
  obtain ⟨hn0, -, -⟩ := uniqueInt_spec l0
  obtain ⟨hn1, -, -⟩ := uniqueInt_spec l1
  simp only [sortSame, uniqueList] at *
  generalize uniqueInt l0 = r0 at *
  generalize uniqueInt l1 = r1 at *
  obtain ⟨n0, u0⟩ := r0
  obtain ⟨n1, u1⟩ := r1
  simp only at *
  constructor
  · intro h
    split_ifs at h with hn
    · subst hn
      rw [List.all_eq_true] at h
      apply List.ext_getElem (by omega)
      intro i hi1 hi2
      have := h i (by simp; omega)
      simp only [beq_iff_eq] at this
      have e0 := getD_take u0 n0 i (by omega)
      have e1 := getD_take u1 n0 i (by omega)
      rw [getD_eq_getElem' _ _ hi1] at e0
      rw [getD_eq_getElem' _ _ hi2] at e1
      rw [e0, e1, this]
  · intro h
    have hn : n0 = n1 := by rw [hn0, hn1, h]
    subst hn
    simp only [if_true, List.all_eq_true, beq_iff_eq, List.mem_range]
    intro i hi
    rw [← getD_take u0 n0 i hi, ← getD_take u1 n0 i hi, h]

/-- `ref_sort_same` decides equality of the sets of elements (for every `n`, 0 included) -/
theorem sortSame_spec (l0 l1 : List Int) :
    sortSame l0 l1 = true ↔ ∀ x, x ∈ l0 ↔ x ∈ l1 := by
  rw [sortSame_eq l0 l1]
  obtain ⟨-, hs0, hm0⟩ := uniqueInt_spec l0
  obtain ⟨-, hs1, hm1⟩ := uniqueInt_spec l1
  constructor
  · intro h x; rw [← hm0, ← hm1, h]
  · intro h; exact strictSorted_ext hs0 hs1 (fun x => by rw [hm0, hm1, h])

/-- outcome of a search in a non-decreasing list: a position holding the target, or `not_found`/`REF_EMPTY`
    and the target is absent -/
def SearchOK (a : List Int) (t : Int) (r : Status × Int) : Prop :=
  (∃ p : Nat, r = (Status.ok, (p : Int)) ∧ p < a.length ∧ a.getD p 0 = t) ∨
  (r = (Status.not_found, EMPTY) ∧ t ∉ a)

theorem searchLoop_spec (a : List Int)
    (hs : ∀ i j, i < j → j < a.length → a.getD i 0 ≤ a.getD j 0) (t : Int)
    (fuel lo up mid : Nat) (hup : up < a.length) (hlo : a.getD lo 0 < t) (hupv : t < a.getD up 0)
    (hmid : mid = (lo + up) / 2 ∨ (lo = 0 ∧ up = a.length - 1 ∧ mid = a.length / 2))
    (hfuel : up - lo ≤ fuel) (hlu : lo < up) : SearchOK a t (searchLoop a t fuel lo up mid) := by
  induction fuel generalizing lo up mid with
  | zero => omega
  | succ f ih =>
    simp only [searchLoop, Bool.and_eq_true, decide_eq_true_eq, Nat.shiftRight_eq_div_pow, Nat.pow_one]
    by_cases hc : lo < mid ∧ mid < up
    · rw [if_pos hc]
      by_cases hge : t ≥ a.getD mid 0
      · rw [if_pos hge]
        by_cases heq : t = a.getD mid 0
        · rw [if_pos heq]
          exact Or.inl ⟨mid, rfl, by omega, heq.symm⟩
        · rw [if_neg heq]
          exact ih mid up ((mid + up) / 2) hup (by omega) hupv (Or.inl rfl) (by omega) (by omega)
      · rw [if_neg hge]
        exact ih lo mid ((lo + mid) / 2) (by omega) hlo (by omega) (Or.inl rfl) (by omega) (by omega)
    · rw [if_neg hc]
      refine Or.inr ⟨rfl, ?_⟩
      have hup1 : up = lo + 1 := by
        rcases hmid with h | ⟨h1, h2, h3⟩ <;> omega
      rw [mem_iff_getD]
      rintro ⟨k, hk, hx⟩
      by_cases hkl : k ≤ lo
      · rcases Nat.lt_or_eq_of_le hkl with h | h
        · have := hs k lo h (by omega); omega
        · subst h; omega
      · have hku : up ≤ k := by omega
        rcases Nat.lt_or_eq_of_le hku with h | h
        · have := hs up k h hk; omega
        · subst h; omega

/-- `ref_sort_search_int` on a non-decreasing list -/
theorem searchInt_spec (a : List Int) (hsorted : a.Pairwise (· ≤ ·)) (t : Int) :
    SearchOK a t (searchInt a t) := by
  have hs := (pairwise_iff_getD a).1 hsorted
  simp only [searchInt, Bool.or_eq_true, decide_eq_true_eq]
  by_cases hn : a.length < 1
  · rw [if_pos hn]
    have : a = [] := List.length_eq_zero_iff.1 (by omega)
    subst this
    exact Or.inr ⟨rfl, by simp⟩
  rw [if_neg hn]
  by_cases hout : t < a.getD 0 0 ∨ t > a.getD (a.length - 1) 0
  · rw [if_pos hout]
    refine Or.inr ⟨rfl, ?_⟩
    rw [mem_iff_getD]
    rintro ⟨k, hk, hx⟩
    rcases hout with h | h
    · rcases Nat.eq_zero_or_pos k with h0 | h0
      · subst h0; omega
      · have := hs 0 k h0 hk; omega
    · rcases Nat.lt_or_eq_of_le (by omega : k ≤ a.length - 1) with h0 | h0
      · have := hs k (a.length - 1) h0 (by omega); omega
      · subst h0; omega
  rw [if_neg hout]
  by_cases h0 : t = a.getD 0 0
  · rw [if_pos h0]; exact Or.inl ⟨0, rfl, by omega, h0.symm⟩
  rw [if_neg h0]
  by_cases h1 : t = a.getD (a.length - 1) 0
  · rw [if_pos h1]; exact Or.inl ⟨a.length - 1, rfl, by omega, h1.symm⟩
  rw [if_neg h1]
  have hn2 : 0 < a.length - 1 := by
    by_contra hc
    have : a.length - 1 = 0 := by omega
    rw [this] at hout h1
    omega
  refine searchLoop_spec a hs t a.length 0 (a.length - 1) (a.length >>> 1) (by omega) (by omega) (by omega)
    (Or.inr ⟨rfl, rfl, by simp [Nat.shiftRight_eq_div_pow]⟩) (by omega) hn2

theorem searchInt_found_iff (a : List Int) (hsorted : a.Pairwise (· ≤ ·)) (t : Int) :
    (searchInt a t).1 = Status.ok ↔ t ∈ a := by
  rcases searchInt_spec a hsorted t with ⟨p, hr, hp, hx⟩ | ⟨hr, hx⟩
  · rw [hr]; simp only [true_iff]; rw [mem_iff_getD]; exact ⟨p, hp, hx⟩
  · rw [hr]; simp [hx]

/-- soundness without any assumption on the list: whatever the input, `ok` comes with an index that
    holds the target, every other outcome is `not_found` with `REF_EMPTY` -/
theorem searchLoop_sound (a : List Int) (t : Int) (fuel lo up mid : Nat) (hup : up < a.length) :
    (∃ p : Nat, searchLoop a t fuel lo up mid = (Status.ok, (p : Int)) ∧ p < a.length ∧ a.getD p 0 = t) ∨
      searchLoop a t fuel lo up mid = (Status.not_found, EMPTY) := by
  induction fuel generalizing lo up mid with
  | zero => exact Or.inr rfl
  | succ f ih =>
    simp only [searchLoop, Bool.and_eq_true, decide_eq_true_eq]
    split_ifs with hc hge heq
    · exact Or.inl ⟨mid, rfl, by omega, heq.symm⟩
    · exact ih _ _ _ hup
    · exact ih _ _ _ (by omega)
    · exact Or.inr rfl

theorem searchInt_sound (a : List Int) (t : Int) :
    (∃ p : Nat, searchInt a t = (Status.ok, (p : Int)) ∧ p < a.length ∧ a.getD p 0 = t) ∨
      searchInt a t = (Status.not_found, EMPTY) := by
  simp only [searchInt, Bool.or_eq_true, decide_eq_true_eq]
  split_ifs with h1 h2 h3 h4
  · exact Or.inr rfl
  · exact Or.inr rfl
  · exact Or.inl ⟨0, rfl, by omega, h3.symm⟩
  · exact Or.inl ⟨a.length - 1, rfl, by omega, h4.symm⟩
  · exact searchLoop_sound a t _ _ _ _ (by omega)

/-- `ref_sort_rand_in_range(min, max)` lies in `[min, max]` for every `rand()` value -/
theorem randInRange_bounds (min max : Int) (r : Nat) (h : min ≤ max) :
    min ≤ randInRange min max r ∧ randInRange min max r ≤ max := by
  unfold randInRange
  have hpos : (0 : Int) < max - min + 1 := by omega
  have h1 : 0 ≤ Int.tmod (r : Int) (max - min + 1) := Int.tmod_nonneg _ (Int.natCast_nonneg r)
  have h2 : Int.tmod (r : Int) (max - min + 1) < max - min + 1 := Int.tmod_lt_of_pos _ hpos
  omega

end Refine.Model.Sort
