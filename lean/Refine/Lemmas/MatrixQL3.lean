import Refine.Lemmas.MatrixQL2

/-!
  `diagM_similarity`, part 2: the loops.  The `do … while` loop of a row keeps `Q (T + f·P) Qᵀ` (`qlLoop_repr`);
  a sub-diagonal entry leaves the represented matrix only when the convergence test declares it negligible
  (`rowStep_repr`: at most one entry when the block is chosen, one when the row is finished); three rows give
  `diagM_repr`: `m = Q diag(d) Qᵀ + (the dropped entries, each between the two vectors it coupled when it was dropped)`.
-/
namespace Refine.Model.Matrix
open Refine Refine.ScalarReal
open _root_.Matrix

/-! ### the tolerance of the convergence test -/

/-- what `QL.isSmall` compares `|e|` with: `1.0e-14 * tst1` (relative variant) or `1.0e-14` -/
noncomputable def QL.tol (st : QL ℝ) : ℝ :=
  if relativeConvergence then (10 : ℝ) ^ (-14 : ℤ) * st.tst1 else (10 : ℝ) ^ (-14 : ℤ)

theorem isSmall_bound (st : QL ℝ) (i : Nat) (h : st.isSmall i = true) : |st.getE i| ≤ st.tol := by
  unfold QL.isSmall at h
  dsimp only at h
  have hz : Scalar.cabs (Scalar.sub (Scalar.add st.tst1 (Scalar.cabs (st.getE i))) st.tst1) = |st.getE i| := by
    rw [cabs_eq, cabs_eq, add_eq, sub_eq]; simp
  rw [hz] at h
  unfold QL.tol
  revert h
  cases relativeConvergence
  · simp only [Bool.false_eq_true, if_false, lt_iff, ofDec_eq]
    intro h
    have := h.le
    simpa using this
  · simp only [if_true, le_iff, ofDec_eq, mul_eq]
    intro h
    simpa using h

theorem tol_congr {st st' : QL ℝ} (h : st'.tst1 = st.tst1) : st'.tol = st.tol := by
  unfold QL.tol; rw [h]

theorem tol_mono {st st' : QL ℝ} (h : st.tst1 ≤ st'.tst1) : st.tol ≤ st'.tol := by
  unfold QL.tol
  cases relativeConvergence
  · simp
  · simp only [if_true]
    apply mul_le_mul_of_nonneg_left h
    positivity

theorem tstUpd_mono (l : Nat) (st : QL ℝ) : st.tst1 ≤ (tstUpd l st).tst1 := by
  unfold tstUpd
  split_ifs with hc
  · rw [lt_iff] at hc; exact hc.le
  · exact le_refl _

theorem findSmall_small (st : QL ℝ) (n mm : Nat) (h : st.findSmall mm n < mm + n) :
    st.isSmall (st.findSmall mm n) = true := by
  induction n generalizing mm with
  | zero => unfold QL.findSmall at h; omega
  | succ n ih =>
    unfold QL.findSmall at h ⊢
    by_cases hs : st.isSmall mm = true
    · rw [if_pos hs]; exact hs
    · rw [if_neg hs] at h ⊢
      exact ih (mm + 1) (by omega)

/-! ### dropped entries -/

/-- `Q · offdiag(a, b) · Qᵀ`: the contribution of sub-diagonal entries `a` (between vectors 0, 1) and `b`
    (between vectors 1, 2) in the coordinates of the input matrix -/
noncomputable def dropMat (q : Eig12 ℝ) (a b : ℝ) : Matrix (Fin 3) (Fin 3) ℝ := q.V * triMat 0 0 0 a b * q.Vᵀ

theorem dropMat_zero (q : Eig12 ℝ) : dropMat q 0 0 = 0 := by
  have : triMat 0 0 0 0 0 = 0 := by
    ext i j; fin_cases i <;> fin_cases j <;> simp [triMat]
  unfold dropMat; rw [this]; simp

/-- the state the `do … while` loop of the block l..mm works on: `e[mm]` passed the test and is overwritten by 0
    in the first inner step (only `e[1]` matters: `e[2]` is not part of the matrix) -/
def dropE (mm : Nat) (st : QL ℝ) : QL ℝ := { st with e1 := if mm = 1 then 0 else st.e1 }

theorem startDrop (l mm : Nat) (hl : l < mm) (hm : mm ≤ 2) (st : QL ℝ) :
    st.reprMat l = (dropE mm st).reprMat l + dropMat st.d 0 (if mm = 1 then st.e1 else 0) := by
  have hc : mm = 1 ∨ mm = 2 := by omega
  rcases hc with rfl | rfl
  · have : l = 0 := by omega
    subst this
    unfold QL.reprMat dropMat dropE
    rw [← Matrix.add_mul, ← Matrix.mul_add]
    congr 2
    ext i j; fin_cases i <;> fin_cases j <;> simp [QL.Tmat, triMat]
  · have : dropE 2 st = st := by simp [dropE]
    rw [this]
    simp [dropMat_zero]

/-- finishing row l: `d[l] += f`, and `e[l]` is not looked at again -/
theorem endDrop (l : Nat) (hl : l ≤ 2) (s : QL ℝ) :
    s.reprMat l = (s.setD l (s.getD l + s.f)).reprMat (l + 1) +
      dropMat s.d (if l = 0 then s.e0 else 0) (if l = 1 then s.e1 else 0) := by
  have hV : (s.setD l (s.getD l + s.f)).d.V = s.d.V := by
    rcases l with _ | _ | l <;> rfl
  unfold QL.reprMat dropMat
  rw [hV, ← Matrix.add_mul, ← Matrix.mul_add]
  congr 2
  have hc : l = 0 ∨ l = 1 ∨ l = 2 := by omega
  rcases hc with rfl | rfl | rfl <;>
  · ext i j; fin_cases i <;> fin_cases j <;> simp [QL.Tmat, triMat, QL.getD, QL.setD]

/-! ### the loops -/

theorem sweep_repr (l mm : Nat) (hl : l < mm) (hm : mm ≤ 2) (st : QL ℝ) (h : QLInv l mm st) :
    (sweep l mm st).reprMat l = (dropE mm st).reprMat l ∧ dropE mm (sweep l mm st) = sweep l mm st := by
  have hcases : (l = 0 ∧ mm = 1) ∨ (l = 0 ∧ mm = 2) ∨ (l = 1 ∧ mm = 2) := by omega
  rcases hcases with ⟨rfl, rfl⟩ | ⟨rfl, rfl⟩ | ⟨rfl, rfl⟩
  · obtain ⟨a, _, c⟩ := sweep01_repr st (h.sub 0 (by omega) (by omega))
    refine ⟨?_, ?_⟩
    · rw [a]; simp [dropE]
    · unfold dropE; simp only [if_true]
      conv_rhs => rw [← show ({ sweep 0 1 st with e1 := (sweep 0 1 st).e1 } : QL ℝ) = sweep 0 1 st from rfl]
      rw [c]
  · refine ⟨?_, by simp [dropE]⟩
    have : dropE 2 st = st := by simp [dropE]
    rw [this]
    exact sweep02_repr st (h.sub 0 (by omega) (by omega)) (h.sub 1 (by omega) (by omega))
  · refine ⟨?_, by simp [dropE]⟩
    have : dropE 2 st = st := by simp [dropE]
    rw [this]
    exact (sweep12_repr st (h.sub 1 (by omega) (by omega))).1

/-- the `do … while` loop of a row is an exact orthogonal similarity (any number of sweeps), it ends with an `e[l]`
    that passes the convergence test, and it does not touch `tst1` -/
theorem qlLoop_repr (fuel l mm : Nat) (hl : l < mm) (hm : mm ≤ 2) (st st' : QL ℝ) (h : QLInv l mm st)
    (hq : qlLoop fuel l mm st = .ok st') :
    st'.reprMat l = (dropE mm st).reprMat l ∧ st'.isSmall l = true ∧ st'.tst1 = st.tst1 := by
  induction fuel generalizing st with
  | zero => unfold qlLoop at hq; exact absurd hq (by simp)
  | succ fuel ih =>
    unfold qlLoop at hq
    dsimp only at hq
    obtain ⟨a, b, c⟩ := sweep_inv l mm hl hm st h
    obtain ⟨r1, r2⟩ := sweep_repr l mm hl hm st h
    by_cases hs : (sweep l mm st).isSmall l = true
    · rw [if_pos hs] at hq
      injection hq with hq
      rw [← hq]; exact ⟨r1, hs, sweep_tst1 l mm st⟩
    · rw [if_neg hs] at hq
      have inv : QLInv l mm (sweep l mm st) := by
        refine ⟨a, b, ?_⟩
        intro i h1 h2
        by_cases hi : i = l
        · rw [hi]; exact ne_zero_of_not_isSmall _ _ b (Bool.eq_false_iff.mpr hs)
        · exact c i (by omega) h2
      obtain ⟨q1, q2, q3⟩ := ih (sweep l mm st) inv hq
      refine ⟨?_, q2, ?_⟩
      · rw [q1, r2, r1]
      · rw [q3, sweep_tst1]

/-- the entry dropped when the active block of a row is chosen: only row 0 with block 0..1 drops a stored entry
    (`e[1]`, overwritten by 0 in the first inner step); `e[2]` is 0 and not part of the matrix -/
noncomputable def rowEps (l : Nat) (st : QL ℝ) : ℝ :=
  if l = 0 ∧ (tstUpd l st).findSmall l (3 - l) = 1 then st.e1 else 0

/-- one trip of the row loop: the represented matrix changes only by the entries the convergence test drops -/
theorem rowStep_repr (l : Nat) (hl : l ≤ 2) (st st' : QL ℝ) (ho : Orthonormal st.d) (ht : 0 ≤ st.tst1)
    (h : rowStep l st = .ok st') :
    ∃ ε : ℝ, st.reprMat l = st'.reprMat (l + 1) + dropMat st.d 0 ε +
        dropMat st'.d (if l = 0 then st'.e0 else 0) (if l = 1 then st'.e1 else 0) ∧
      |ε| ≤ st'.tol ∧ ε = rowEps l st ∧ |st'.getE l| ≤ st'.tol ∧ st.tst1 ≤ st'.tst1 := by
  unfold rowEps
  unfold rowStep at h
  dsimp only at h
  rw [tstUpd_def] at h
  obtain ⟨ud, u0, u1, u2, uf, ut⟩ := tstUpd_spec l st ht
  have umono := tstUpd_mono l st
  have hrepr1 : (tstUpd l st).reprMat l = st.reprMat l := by
    unfold QL.reprMat QL.Tmat; rw [ud, u0, u1, uf]
  have ho1 : Orthonormal (tstUpd l st).d := by rw [ud]; exact ho
  generalize tstUpd l st = st1 at *
  obtain ⟨f1, f2, f3⟩ := findSmall_spec st1 (3 - l) l
  have f4 := findSmall_small st1 (3 - l) l
  generalize st1.findSmall l (3 - l) = mm at h f1 f2 f3 f4
  by_cases h3 : (mm == 3) = true
  · rw [if_pos h3] at h; exact absurd h (by simp)
  rw [if_neg h3] at h
  have hmm : mm ≤ 2 := by
    have : mm ≠ 3 := by simpa using h3
    omega
  have hsm : st1.isSmall mm = true := f4 (by omega)
  -- shared tail: from the state `s` the row ends with
  have tail : ∀ s : QL ℝ, s.isSmall l = true → s.tst1 = st1.tst1 →
      st' = s.setD l (s.getD l + s.f) →
      s.reprMat l = st'.reprMat (l + 1) +
        dropMat st'.d (if l = 0 then st'.e0 else 0) (if l = 1 then st'.e1 else 0) ∧
      |st'.getE l| ≤ st'.tol ∧ st.tst1 ≤ st'.tst1 ∧ st'.tol = st1.tol := by
    intro s hs htst he
    have e1 := endDrop l hl s
    have hd : st'.d.V = s.d.V := by
      rw [he]; rcases l with _ | _ | l <;> rfl
    have hE0 : st'.e0 = s.e0 := by rw [he, setD_e0]
    have hE1 : st'.e1 = s.e1 := by rw [he, setD_e1]
    have hT : st'.tst1 = s.tst1 := by rw [he, setD_tst1]
    have hG : st'.getE l = s.getE l := by rw [he, setD_getE]
    refine ⟨?_, ?_, ?_, ?_⟩
    · rw [e1, ← he, hE0, hE1]; unfold dropMat; rw [hd]
    · rw [hG, tol_congr hT]; exact isSmall_bound s l hs
    · rw [hT, htst]; exact umono
    · exact tol_congr (hT.trans htst)
  by_cases hne : (mm != l) = true
  · rw [if_pos hne] at h
    have hlt : l < mm := by
      have : mm ≠ l := by simpa using hne
      omega
    split at h
    · rename_i st2 hq
      injection h with h
      have inv : QLInv l mm st1 := ⟨ho1, ut, fun i h1 h2 => ne_zero_of_not_isSmall _ _ ut (f3 i h1 h2)⟩
      obtain ⟨r1, r2, r3⟩ := qlLoop_repr 30 l mm hlt hmm st1 st2 inv hq
      obtain ⟨t1, t2, t3, t4⟩ := tail st2 r2 r3 h.symm
      have sd := startDrop l mm hlt hmm st1
      refine ⟨if mm = 1 then st1.e1 else 0, ?_, ?_, ?_, t2, t3⟩
      · rw [← hrepr1, sd, ← r1, t1, ud]
        abel
      · rw [t4]
        split_ifs with hm1
        · have := isSmall_bound st1 mm hsm
          rw [hm1] at this; exact this
        · rw [abs_zero]
          unfold QL.tol
          cases relativeConvergence
          · simp
          · simp only [if_true]; positivity
      · by_cases hm1 : mm = 1
        · have : l = 0 := by omega
          rw [if_pos hm1, if_pos ⟨this, hm1⟩, u1]
        · rw [if_neg hm1, if_neg (fun hh => hm1 hh.2)]
    · exact absurd h (by simp)
  · rw [if_neg hne] at h
    injection h with h
    have hml : mm = l := by simpa using hne
    rw [hml] at hsm
    obtain ⟨t1, t2, t3, t4⟩ := tail st1 hsm rfl h.symm
    refine ⟨0, ?_, ?_, ?_, t2, t3⟩
    · rw [← hrepr1, t1, dropMat_zero, add_zero]
    · rw [abs_zero, t4]
      unfold QL.tol
      cases relativeConvergence
      · simp
      · simp only [if_true]; positivity
    · rw [if_neg]
      intro hh
      omega

end Refine.Model.Matrix
