import Refine.Lemmas.MatrixReal
import Mathlib.Algebra.BigOperators.Fin
import Mathlib.Algebra.Order.BigOperators.Group.Finset

/-!
  Matrix-level facts used for log/exp/sqrt/intersect/bound: conjugation of quadratic forms,
  spectral form of a quadratic form, products of functions of the same eigen system.
-/
namespace Refine.Model.Matrix
open Refine Refine.ScalarReal
open _root_.Matrix

section general
variable {n : Type} [Fintype n] [DecidableEq n]

/-- products of two matrices diagonal in the same orthonormal basis -/
theorem spectral_mul (V : Matrix n n ℝ) (a b : n → ℝ) (hV : Vᵀ * V = 1) :
    (V * diagonal a * Vᵀ) * (V * diagonal b * Vᵀ) = V * diagonal (fun i => a i * b i) * Vᵀ := by
  calc (V * diagonal a * Vᵀ) * (V * diagonal b * Vᵀ)
      = V * diagonal a * (Vᵀ * V) * diagonal b * Vᵀ := by simp only [Matrix.mul_assoc]
    _ = V * (diagonal a * diagonal b) * Vᵀ := by rw [hV]; simp only [Matrix.mul_assoc, Matrix.one_mul]
    _ = V * diagonal (fun i => a i * b i) * Vᵀ := by rw [diagonal_mul_diagonal]

theorem spectral_one (V : Matrix n n ℝ) (hV : Vᵀ * V = 1) :
    V * diagonal (fun _ => (1 : ℝ)) * Vᵀ = 1 := by
  have : diagonal (fun _ : n => (1 : ℝ)) = 1 := diagonal_one
  rw [this, Matrix.mul_one]
  exact mul_eq_one_comm.mp hV

omit [DecidableEq n] in
/-- xᵀ (H C H) x = (Hx)ᵀ C (Hx) for symmetric H -/
theorem quad_conj (H C : Matrix n n ℝ) (hH : Hᵀ = H) (x : n → ℝ) :
    x ⬝ᵥ ((H * C * H) *ᵥ x) = (H *ᵥ x) ⬝ᵥ (C *ᵥ (H *ᵥ x)) := by
  rw [← mulVec_mulVec, ← mulVec_mulVec, dotProduct_mulVec, ← mulVec_transpose, hH]

/-- yᵀ (V diag(a) Vᵀ) y = Σ a_k ((Vᵀ y)_k)² -/
theorem quad_spectral (V : Matrix n n ℝ) (a : n → ℝ) (y : n → ℝ) :
    y ⬝ᵥ ((V * diagonal a * Vᵀ) *ᵥ y) = ∑ k, a k * ((Vᵀ *ᵥ y) k) ^ 2 := by
  rw [← mulVec_mulVec, ← mulVec_mulVec, dotProduct_mulVec, ← mulVec_transpose]
  simp only [dotProduct, mulVec_diagonal]
  apply Finset.sum_congr rfl
  intro k _
  ring

theorem sum_sq_orth (V : Matrix n n ℝ) (hV : V * Vᵀ = 1) (y : n → ℝ) :
    ∑ k, ((Vᵀ *ᵥ y) k) ^ 2 = y ⬝ᵥ y := by
  have h := quad_spectral V (fun _ => (1 : ℝ)) y
  have h1 : V * diagonal (fun _ : n => (1 : ℝ)) * Vᵀ = 1 := by
    have : diagonal (fun _ : n => (1 : ℝ)) = 1 := diagonal_one
    rw [this, Matrix.mul_one, hV]
  rw [h1, one_mulVec] at h
  rw [h]
  apply Finset.sum_congr rfl
  intro k _
  ring

/-- core of `intersect` / `bound`: with `A = H²`, `N = H⁻¹` and an exact eigen system (μ, W) of `N B N`,
    the matrix `H W c(μ) Wᵀ H` dominates (resp. is dominated by) both `A` and `B` when `c t ≥ 1, t`
    (resp. `c t ≤ 1, t`); `sgn = 1` for intersect, `sgn = -1` for bound. -/
theorem combine_core (H N B W : Matrix n n ℝ) (μ : n → ℝ) (c : ℝ → ℝ)
    (hH : Hᵀ = H) (hHN : H * N = 1) (hW : Wᵀ * W = 1)
    (hB : N * B * N = W * diagonal μ * Wᵀ) (x : n → ℝ) :
    x ⬝ᵥ ((H * H) *ᵥ x) = ∑ k, ((Wᵀ *ᵥ (H *ᵥ x)) k) ^ 2 ∧
    x ⬝ᵥ (B *ᵥ x) = ∑ k, μ k * ((Wᵀ *ᵥ (H *ᵥ x)) k) ^ 2 ∧
    x ⬝ᵥ ((H * (W * diagonal (fun k => c (μ k)) * Wᵀ) * H) *ᵥ x)
      = ∑ k, c (μ k) * ((Wᵀ *ᵥ (H *ᵥ x)) k) ^ 2 := by
  have hNH : N * H = 1 := mul_eq_one_comm.mp hHN
  have hW' : W * Wᵀ = 1 := mul_eq_one_comm.mp hW
  refine ⟨?_, ?_, ?_⟩
  · have : H * H = H * 1 * H := by rw [Matrix.mul_one]
    rw [this, quad_conj H 1 hH, one_mulVec, sum_sq_orth W hW']
  · have hBB : B = H * (N * B * N) * H := by
      calc B = (H * N) * B * (N * H) := by rw [hHN, hNH, Matrix.one_mul, Matrix.mul_one]
        _ = H * (N * B * N) * H := by simp only [Matrix.mul_assoc]
    rw [hBB, quad_conj H _ hH, hB, quad_spectral]
  · rw [quad_conj H _ hH, quad_spectral]

end general

/-! ### bridge for products and quadratic forms -/

theorem toMat_multM0M1M0 (a b : M6 ℝ) : (multM0M1M0 a b).toMat = a.toMat * b.toMat * a.toMat := by
  simp only [M6.toMat, mul_fin_three, multM0M1M0, multM, mul_eq, add_eq]
  ext i j; fin_cases i <;> fin_cases j <;> simp <;> ring

theorem vtMv_eq (m : M6 ℝ) (x : Vec3 ℝ) : vtMv m x = x.toFun ⬝ᵥ (m.toMat *ᵥ x.toFun) := by
  simp only [vtMv, M6.toMat, Vec3.toFun, dotProduct, mulVec, Fin.sum_univ_three, mul_eq, add_eq]
  simp

end Refine.Model.Matrix

namespace Refine.Model.Matrix
open Refine Refine.ScalarReal
open _root_.Matrix

/-- `formM` of an eigen system as a function of the matrix: `f(m) g(m) = (fg)(m)` -/
theorem toMat_formM_mul (d : Eig12 ℝ) (ho : Orthonormal d) (f g : ℝ → ℝ) :
    (formM (mapEig f d)).toMat * (formM (mapEig g d)).toMat = (formM (mapEig (fun t => f t * g t) d)).toMat := by
  rw [toMat_formM, toMat_formM, toMat_formM, mapEig_V, mapEig_V, mapEig_V, mapEig_lam, mapEig_lam, mapEig_lam]
  exact spectral_mul d.V _ _ ((orthonormal_iff d).mp ho)

theorem mapEig_congr (d : Eig12 ℝ) (f g : ℝ → ℝ) (h0 : f d.l0 = g d.l0) (h1 : f d.l1 = g d.l1)
    (h2 : f d.l2 = g d.l2) : mapEig f d = mapEig g d := by
  simp only [mapEig, h0, h1, h2]

@[simp] theorem mapEig_id (d : Eig12 ℝ) : mapEig (fun t => t) d = d := rfl

theorem mapEig_mapEig (d : Eig12 ℝ) (f g : ℝ → ℝ) : mapEig f (mapEig g d) = mapEig (fun t => f (g t)) d := rfl

theorem toMat_formM_one (d : Eig12 ℝ) (ho : Orthonormal d) :
    (formM (mapEig (fun _ => (1 : ℝ)) d)).toMat = 1 := by
  rw [toMat_formM, mapEig_V, mapEig_lam]
  exact spectral_one d.V ((orthonormal_iff d).mp ho)

/-- what a successful `sqrtTail` returns, and what its guards guarantee -/
theorem sqrtTail_ok {d : Eig12 ℝ} {sq isq : M6 ℝ} (h : sqrtTail d = .ok (sq, isq)) :
    Real.sqrt d.l0 ≠ 0 ∧ Real.sqrt d.l1 ≠ 0 ∧ Real.sqrt d.l2 ≠ 0 ∧
    sq = formM (mapEig Real.sqrt d) ∧ isq = formM (mapEig (fun t => 1 / Real.sqrt t) d) := by
  unfold sqrtTail at h
  simp only [one_eq, div_eq] at h
  by_cases g0 : Scalar.divisible 1 (mapEig Scalar.sqrt d).l0 = true
  · by_cases g1 : Scalar.divisible 1 (mapEig Scalar.sqrt d).l1 = true
    · by_cases g2 : Scalar.divisible 1 (mapEig Scalar.sqrt d).l2 = true
      · simp only [g0, g1, g2, Bool.not_true, Bool.false_eq_true, if_false] at h
        injection h with h
        injection h with ha hb
        refine ⟨divisible_ne_zero g0, divisible_ne_zero g1, divisible_ne_zero g2, ha.symm, ?_⟩
        rw [← hb]; rfl
      · simp [g0, g1, g2] at h
    · simp [g0, g1] at h
  · simp [g0] at h

theorem sqrtTail_div_zero_or_ok (d : Eig12 ℝ) :
    sqrtTail d = .error .div_zero ∨ ∃ p, sqrtTail d = .ok p := by
  unfold sqrtTail
  simp only
  split_ifs <;> simp

end Refine.Model.Matrix

namespace Refine.Model.Matrix
open Refine Refine.ScalarReal
open _root_.Matrix

/-- the rows of an orthonormal system are orthonormal too (scalar form) -/
theorem Orthonormal.rows_eqs {d : Eig12 ℝ} (h : Orthonormal d) :
    d.x0 * d.x0 + d.x1 * d.x1 + d.x2 * d.x2 = 1 ∧ d.y0 * d.y0 + d.y1 * d.y1 + d.y2 * d.y2 = 1 ∧
    d.z0 * d.z0 + d.z1 * d.z1 + d.z2 * d.z2 = 1 ∧ d.x0 * d.y0 + d.x1 * d.y1 + d.x2 * d.y2 = 0 ∧
    d.x0 * d.z0 + d.x1 * d.z1 + d.x2 * d.z2 = 0 ∧ d.y0 * d.z0 + d.y1 * d.z1 + d.y2 * d.z2 = 0 := by
  have hm := h.rows
  rw [Eig12.V_transpose, one_fin_three] at hm
  simp only [Eig12.V, mul_fin_three] at hm
  have e := fun i j => congrFun (congrFun hm i) j
  have h00 := e 0 0; have h01 := e 0 1; have h02 := e 0 2
  have h11 := e 1 1; have h12 := e 1 2; have h22 := e 2 2
  simp at h00 h01 h02 h11 h12 h22
  exact ⟨h00, h11, h22, h01, h02, h12⟩

/-- a matrix with an orthonormal eigen system and positive eigenvalues is positive definite -/
theorem vtMv_formM_pos (d : Eig12 ℝ) (ho : Orthonormal d) (hpos : 0 < d.l0 ∧ 0 < d.l1 ∧ 0 < d.l2)
    (x : Vec3 ℝ) (hx : x.x ≠ 0 ∨ x.y ≠ 0 ∨ x.z ≠ 0) : 0 < vtMv (formM d) x := by
  have hq : vtMv (formM d) x =
      d.l0 * (d.x0 * x.x + d.y0 * x.y + d.z0 * x.z) ^ 2 +
      d.l1 * (d.x1 * x.x + d.y1 * x.y + d.z1 * x.z) ^ 2 +
      d.l2 * (d.x2 * x.x + d.y2 * x.y + d.z2 * x.z) ^ 2 := by
    simp only [vtMv, formM, mul_eq, add_eq]; ring
  rw [hq]
  set a0 := d.x0 * x.x + d.y0 * x.y + d.z0 * x.z with ha0
  set a1 := d.x1 * x.x + d.y1 * x.y + d.z1 * x.z with ha1
  set a2 := d.x2 * x.x + d.y2 * x.y + d.z2 * x.z with ha2
  obtain ⟨r1, r2, r3, r4, r5, r6⟩ := ho.rows_eqs
  have ex : x.x = d.x0 * a0 + d.x1 * a1 + d.x2 * a2 := by
    rw [ha0, ha1, ha2]; linear_combination (-x.x) * r1 - x.y * r4 - x.z * r5
  have ey : x.y = d.y0 * a0 + d.y1 * a1 + d.y2 * a2 := by
    rw [ha0, ha1, ha2]; linear_combination (-x.x) * r4 - x.y * r2 - x.z * r6
  have ez : x.z = d.z0 * a0 + d.z1 * a1 + d.z2 * a2 := by
    rw [ha0, ha1, ha2]; linear_combination (-x.x) * r5 - x.y * r6 - x.z * r3
  by_contra hcon
  rw [not_lt] at hcon
  have t0 : 0 ≤ d.l0 * a0 ^ 2 := mul_nonneg hpos.1.le (sq_nonneg _)
  have t1 : 0 ≤ d.l1 * a1 ^ 2 := mul_nonneg hpos.2.1.le (sq_nonneg _)
  have t2 : 0 ≤ d.l2 * a2 ^ 2 := mul_nonneg hpos.2.2.le (sq_nonneg _)
  have z0 : a0 = 0 := by
    have : d.l0 * a0 ^ 2 = 0 := by linarith
    rcases mul_eq_zero.mp this with h | h
    · exact absurd h hpos.1.ne'
    · exact pow_eq_zero_iff (by norm_num) |>.mp h
  have z1 : a1 = 0 := by
    have : d.l1 * a1 ^ 2 = 0 := by linarith
    rcases mul_eq_zero.mp this with h | h
    · exact absurd h hpos.2.1.ne'
    · exact pow_eq_zero_iff (by norm_num) |>.mp h
  have z2 : a2 = 0 := by
    have : d.l2 * a2 ^ 2 = 0 := by linarith
    rcases mul_eq_zero.mp this with h | h
    · exact absurd h hpos.2.2.ne'
    · exact pow_eq_zero_iff (by norm_num) |>.mp h
  rw [z0, z1, z2] at ex ey ez
  rcases hx with h | h | h
  · apply h; rw [ex]; ring
  · apply h; rw [ey]; ring
  · apply h; rw [ez]; ring

/-- the three quadratic forms of `combine` (shared tail of intersect / bound) in the basis `w = Wᵀ H x` -/
theorem combine_forms (clamp : ℝ → ℝ) (m1 m2 h nh m12 : M6 ℝ) (d2 : Eig12 ℝ)
    (hHH : h.toMat * h.toMat = m1.toMat) (hHN : h.toMat * nh.toMat = 1)
    (h2 : diagM (multM0M1M0 nh m2) = .ok d2) (he2 : IsEigSys d2 (multM0M1M0 nh m2))
    (hc : combine clamp h nh m2 = .ok m12) (x : Vec3 ℝ) :
    ∃ w : Fin 3 → ℝ, vtMv m1 x = ∑ k, w k ^ 2 ∧ vtMv m2 x = ∑ k, d2.lam k * w k ^ 2 ∧
      vtMv m12 x = ∑ k, clamp (d2.lam k) * w k ^ 2 := by
  unfold combine at hc
  dsimp only at hc
  rw [h2] at hc
  dsimp only at hc
  injection hc with hc
  have hB : nh.toMat * m2.toMat * nh.toMat = d2.V * diagonal d2.lam * d2.Vᵀ := by
    rw [← toMat_multM0M1M0, ← he2.2, toMat_formM]
  obtain ⟨c1, c2, c3⟩ := combine_core h.toMat nh.toMat m2.toMat d2.V d2.lam clamp
    (M6.toMat_transpose h) hHN ((orthonormal_iff d2).mp he2.1) hB x.toFun
  refine ⟨d2.Vᵀ *ᵥ (h.toMat *ᵥ x.toFun), ?_, ?_, ?_⟩
  · rw [vtMv_eq, ← hHH, c1]
  · rw [vtMv_eq, c2]
  · rw [vtMv_eq, ← hc, toMat_multM0M1M0, toMat_formM, mapEig_V, mapEig_lam, c3]

/-- with non-negative eigenvalues `sqrt_abs_m` is `sqrt_m` -/
theorem sqrtAbsM_eq_sqrtM (m : M6 ℝ) (d : Eig12 ℝ) (h1 : diagM m = .ok d)
    (hnn : 0 ≤ d.l0 ∧ 0 ≤ d.l1 ∧ 0 ≤ d.l2) : sqrtAbsM m = sqrtM m := by
  unfold sqrtAbsM sqrtM
  rw [h1]
  have hg : (Scalar.lt d.l0 Scalar.zero || Scalar.lt d.l1 Scalar.zero || Scalar.lt d.l2 Scalar.zero) = false := by
    rw [Bool.or_eq_false_iff, Bool.or_eq_false_iff, lt_false_iff, lt_false_iff, lt_false_iff, zero_eq]
    exact ⟨⟨hnn.1, hnn.2.1⟩, hnn.2.2⟩
  simp only [hg, Bool.false_eq_true, if_false]
  have : mapEig Scalar.cabs d = d := by
    rw [← mapEig_id d]
    apply mapEig_congr <;> simp only [mapEig_id, cabs_eq]
    · exact abs_of_nonneg hnn.1
    · exact abs_of_nonneg hnn.2.1
    · exact abs_of_nonneg hnn.2.2
  rw [this]

end Refine.Model.Matrix
