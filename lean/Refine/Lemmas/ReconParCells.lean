import Refine.Lemmas.ReconParMesh
import Mathlib.Data.List.Perm.Basic

/-!
  Clause (ii) of the distributed invariant at the CELL level implies the sub-simplex form `CompleteAt` used by the
  partition-independence theorems: if the stored cells incident to a vertex, renamed to global ids, are as a multiset
  the cells of the global mesh incident to it, then the same holds for the tets (3-D: the C's decomposition of
  pyramids, prisms and hexes) and triangles (2-D: quads split) the L2 projection visits.
-/
namespace Refine.ReconParCells
open Refine Refine.Model.Recon Refine.Model.ReconPar Refine.ReconParMesh

def kindSize : CellKind → Nat
  | .tri => 3 | .qua => 4 | .tet => 4 | .pyr => 5 | .pri => 6 | .hex => 8

/-- the cell has as many vertices as its kind says -/
def CellWF (c : Cell) : Prop := c.nodes.length = kindSize c.kind

def globCell (l2g : List Nat) (c : Cell) : Cell := ⟨c.kind, c.nodes.map (gOf l2g)⟩
def cellTouches (g : Nat) (c : Cell) : Bool := c.nodes.contains g

theorem len3 {l : List Nat} (h : l.length = 3) : ∃ a b c, l = [a, b, c] := by
  rcases l with _ | ⟨a, _ | ⟨b, _ | ⟨c, _ | ⟨d, t⟩⟩⟩⟩ <;> simp at h
  exact ⟨a, b, c, rfl⟩
theorem len4 {l : List Nat} (h : l.length = 4) : ∃ a b c d, l = [a, b, c, d] := by
  rcases l with _ | ⟨a, _ | ⟨b, _ | ⟨c, _ | ⟨d, _ | ⟨e, t⟩⟩⟩⟩⟩ <;> simp at h
  exact ⟨a, b, c, d, rfl⟩
theorem len5 {l : List Nat} (h : l.length = 5) : ∃ a b c d e, l = [a, b, c, d, e] := by
  rcases l with _ | ⟨a, _ | ⟨b, _ | ⟨c, _ | ⟨d, _ | ⟨e, _ | ⟨f, t⟩⟩⟩⟩⟩⟩ <;> simp at h
  exact ⟨a, b, c, d, e, rfl⟩
theorem len6 {l : List Nat} (h : l.length = 6) : ∃ a b c d e f, l = [a, b, c, d, e, f] := by
  rcases l with _ | ⟨a, _ | ⟨b, _ | ⟨c, _ | ⟨d, _ | ⟨e, _ | ⟨f, _ | ⟨g, t⟩⟩⟩⟩⟩⟩⟩ <;> simp at h
  exact ⟨a, b, c, d, e, f, rfl⟩
theorem len8 {l : List Nat} (h : l.length = 8) : ∃ a b c d e f g i, l = [a, b, c, d, e, f, g, i] := by
  rcases l with _ | ⟨a, _ | ⟨b, _ | ⟨c, _ | ⟨d, _ | ⟨e, _ | ⟨f, _ | ⟨g, _ | ⟨i, _ | ⟨j, t⟩⟩⟩⟩⟩⟩⟩⟩⟩ <;> simp at h
  exact ⟨a, b, c, d, e, f, g, i, rfl⟩

/-! ### the two facts about the decompositions -/

theorem subTets_glob (l2g : List Nat) (c : Cell) (h : CellWF c) :
    subTets (globCell l2g c) = (subTets c).map (globTet l2g) := by
  obtain ⟨kind, nodes⟩ := c
  cases kind <;> simp only [CellWF, kindSize] at h
  · rfl
  · rfl
  · obtain ⟨a, b, c, d, rfl⟩ := len4 h; rfl
  · obtain ⟨a, b, c, d, e, rfl⟩ := len5 h; rfl
  · obtain ⟨a, b, c, d, e, f, rfl⟩ := len6 h; rfl
  · obtain ⟨a, b, c, d, e, f, g, i, rfl⟩ := len8 h; rfl

theorem subTris_glob (l2g : List Nat) (c : Cell) (h : CellWF c) :
    subTris (globCell l2g c) = (subTris c).map (globTri l2g) := by
  obtain ⟨kind, nodes⟩ := c
  cases kind <;> simp only [CellWF, kindSize] at h
  · obtain ⟨a, b, c, rfl⟩ := len3 h; rfl
  · obtain ⟨a, b, c, d, rfl⟩ := len4 h; rfl
  · rfl
  · rfl
  · rfl
  · rfl

theorem subTets_touch (g : Nat) (c : Cell) (h : CellWF c) (t : Tet) (ht : t ∈ subTets c)
    (hg : tetTouches g t = true) : cellTouches g c = true := by
  obtain ⟨kind, nodes⟩ := c
  cases kind <;> simp only [CellWF, kindSize] at h
  · simp [subTets] at ht
  · simp [subTets] at ht
  · obtain ⟨a, b, c, d, rfl⟩ := len4 h
    simp only [subTets, List.getD_cons_zero, List.getD_cons_succ, List.mem_singleton] at ht
    subst ht
    simpa [tetTouches, cellTouches] using hg
  · obtain ⟨a, b, c, d, e, rfl⟩ := len5 h
    simp only [subTets, List.getD_cons_zero, List.getD_cons_succ, List.mem_cons, List.not_mem_nil, or_false] at ht
    rcases ht with rfl | rfl <;> simp [tetTouches, cellTouches] at hg ⊢ <;> omega
  · obtain ⟨a, b, c, d, e, f, rfl⟩ := len6 h
    simp only [subTets, priTets, List.getD_cons_zero, List.getD_cons_succ, List.mem_cons, List.not_mem_nil,
      or_false] at ht
    rcases ht with rfl | rfl | rfl <;> simp [tetTouches, cellTouches] at hg ⊢ <;> omega
  · obtain ⟨a, b, c, d, e, f, g', i, rfl⟩ := len8 h
    simp only [subTets, priTets, List.getD_cons_zero, List.getD_cons_succ, List.mem_cons, List.not_mem_nil,
      or_false, List.mem_append] at ht
    rcases ht with (rfl | rfl | rfl) | (rfl | rfl | rfl) <;> simp [tetTouches, cellTouches] at hg ⊢ <;> omega

theorem subTris_touch (g : Nat) (c : Cell) (h : CellWF c) (t : Tri) (ht : t ∈ subTris c)
    (hg : triTouches g t = true) : cellTouches g c = true := by
  obtain ⟨kind, nodes⟩ := c
  cases kind <;> simp only [CellWF, kindSize] at h
  · obtain ⟨a, b, c, rfl⟩ := len3 h
    simp only [subTris, List.getD_cons_zero, List.getD_cons_succ, List.mem_singleton] at ht
    subst ht
    simpa [triTouches, cellTouches] using hg
  · obtain ⟨a, b, c, d, rfl⟩ := len4 h
    simp only [subTris, List.getD_cons_zero, List.getD_cons_succ, List.mem_cons, List.not_mem_nil, or_false] at ht
    rcases ht with rfl | rfl <;> simp [triTouches, cellTouches] at hg ⊢ <;> omega
  · simp [subTris] at ht
  · simp [subTris] at ht
  · simp [subTris] at ht
  · simp [subTris] at ht

/-! ### generic: kind-ordered gathering of sub-simplices -/

section generic
variable {τ : Type} (sub : Cell → List τ) (gl : τ → τ) (tch : τ → Bool)

/-- the cells in the order the C visits the groups -/
def byKinds (kinds : List CellKind) (cells : List Cell) : List Cell := kinds.flatMap fun k => ofKind k cells

theorem ofKind_map_glob (l2g : List Nat) (k : CellKind) (cells : List Cell) :
    ofKind k (cells.map (globCell l2g)) = (ofKind k cells).map (globCell l2g) := by
  unfold ofKind
  rw [List.filter_map]
  rfl

theorem byKinds_map_glob (l2g : List Nat) (kinds : List CellKind) (cells : List Cell) :
    byKinds kinds (cells.map (globCell l2g)) = (byKinds kinds cells).map (globCell l2g) := by
  unfold byKinds
  induction kinds with
  | nil => rfl
  | cons k rest ih =>
    simp only [List.flatMap_cons, List.map_append, ofKind_map_glob] at ih ⊢
    rw [ih]

theorem mem_byKinds {kinds : List CellKind} {cells : List Cell} {c : Cell} (h : c ∈ byKinds kinds cells) : c ∈ cells := by
  unfold byKinds at h
  obtain ⟨k, _, hk⟩ := List.mem_flatMap.mp h
  exact (List.mem_filter.mp hk).1

theorem byKinds_filter (p : Cell → Bool) (kinds : List CellKind) (cells : List Cell) :
    byKinds kinds (cells.filter p) = (byKinds kinds cells).filter p := by
  unfold byKinds
  induction kinds with
  | nil => rfl
  | cons k rest ih =>
    simp only [List.flatMap_cons, List.filter_append, ih]
    congr 1
    unfold ofKind
    rw [List.filter_filter, List.filter_filter]
    apply List.filter_congr
    intro c _
    exact Bool.and_comm _ _

theorem byKinds_perm {kinds : List CellKind} {c1 c2 : List Cell} (h : c1.Perm c2) :
    (byKinds kinds c1).Perm (byKinds kinds c2) := by
  unfold byKinds
  induction kinds with
  | nil => exact List.Perm.refl _
  | cons k rest ih =>
    simp only [List.flatMap_cons]
    exact (h.filter _).append ih

theorem flatMap_map_glob (l2g : List Nat) (hsub : ∀ c, CellWF c → sub (globCell l2g c) = (sub c).map gl) :
    ∀ L : List Cell, (∀ c ∈ L, CellWF c) → (L.map (globCell l2g)).flatMap sub = (L.flatMap sub).map gl := by
  intro L
  induction L with
  | nil => intro _; rfl
  | cons c rest ih =>
    intro h
    simp only [List.map_cons, List.flatMap_cons, List.map_append]
    rw [hsub c (h c List.mem_cons_self), ih (fun c' hc' => h c' (List.mem_cons_of_mem _ hc'))]

theorem flatMap_filter_touch (g : Nat)
    (htouch : ∀ c, CellWF c → ∀ t ∈ sub c, tch t = true → cellTouches g c = true) :
    ∀ L : List Cell, (∀ c ∈ L, CellWF c) →
      (L.flatMap sub).filter tch = ((L.filter (cellTouches g)).flatMap sub).filter tch := by
  intro L
  induction L with
  | nil => intro _; rfl
  | cons c rest ih =>
    intro h
    have ih' := ih (fun c' hc' => h c' (List.mem_cons_of_mem _ hc'))
    rw [List.flatMap_cons, List.filter_append, ih', List.filter_cons]
    cases hc : cellTouches g c with
    | true => simp only [if_true, List.flatMap_cons, List.filter_append]
    | false =>
      simp only [Bool.false_eq_true, if_false]
      have : (sub c).filter tch = [] := by
        rw [List.filter_eq_nil_iff]
        intro t ht htt
        have := htouch c (h c List.mem_cons_self) t ht htt
        rw [hc] at this
        exact absurd this (by simp)
      rw [this, List.nil_append]

/-- the generic step: cell-level multiset equality around `g` ⇒ sub-simplex-level multiset equality around `g` -/
theorem gather_complete (l2g : List Nat) (g : Nat) (kinds : List CellKind)
    (hsub : ∀ c, CellWF c → sub (globCell l2g c) = (sub c).map gl)
    (htouch : ∀ c, CellWF c → ∀ t ∈ sub c, tch t = true → cellTouches g c = true)
    (lcells gcells : List Cell) (hL : ∀ c ∈ lcells, CellWF c) (hG : ∀ c ∈ gcells, CellWF c)
    (h : ((lcells.map (globCell l2g)).filter (cellTouches g)).Perm (gcells.filter (cellTouches g))) :
    ((((byKinds kinds lcells).flatMap sub).map gl).filter tch).Perm (((byKinds kinds gcells).flatMap sub).filter tch) := by
  have hLk : ∀ c ∈ byKinds kinds lcells, CellWF c := fun c hc => hL c (mem_byKinds hc)
  have hGk : ∀ c ∈ byKinds kinds gcells, CellWF c := fun c hc => hG c (mem_byKinds hc)
  have hglobWF : ∀ c ∈ byKinds kinds (lcells.map (globCell l2g)), CellWF c := by
    intro c hc
    obtain ⟨c0, hc0, rfl⟩ := List.mem_map.mp (mem_byKinds hc)
    have := hL c0 hc0
    simp only [CellWF, globCell, List.length_map] at this ⊢
    exact this
  rw [← flatMap_map_glob sub gl l2g hsub _ hLk, ← byKinds_map_glob,
    flatMap_filter_touch sub tch g htouch _ hglobWF, flatMap_filter_touch sub tch g htouch _ hGk,
    ← byKinds_filter, ← byKinds_filter]
  exact ((byKinds_perm h).flatMap_right _).filter _

end generic

theorem allTets_eq (cells : List Cell) :
    allTets cells = (byKinds [CellKind.tet, CellKind.pyr, CellKind.pri, CellKind.hex] cells).flatMap subTets := by
  simp [allTets, byKinds, List.append_assoc]

theorem allTris_eq (cells : List Cell) :
    allTris cells = (byKinds [CellKind.tri, CellKind.qua] cells).flatMap subTris := by
  simp [allTris, byKinds]

/-- **clause (ii) at the cell level ⇒ `CompleteAt`**: if the stored cells around the stored vertex `i`, renamed to
    global ids, are as a multiset the cells of the global mesh around that vertex (every cell incident to it is
    stored, none twice), the stored sub-simplices around it are the global ones -/
theorem completeAt_of_cells (twod : Bool) (gcells : List Cell) (r : Rank) (i : Nat)
    (hL : ∀ c ∈ r.cells, CellWF c) (hG : ∀ c ∈ gcells, CellWF c)
    (h : ((r.cells.map (globCell r.l2g)).filter (cellTouches (gOf r.l2g i))).Perm
      (gcells.filter (cellTouches (gOf r.l2g i)))) :
    CompleteAt twod gcells r i := by
  unfold CompleteAt
  cases twod with
  | true =>
    simp only [if_true, allTris_eq]
    exact gather_complete subTris (globTri r.l2g) (triTouches (gOf r.l2g i)) r.l2g (gOf r.l2g i) _
      (subTris_glob r.l2g) (subTris_touch (gOf r.l2g i)) r.cells gcells hL hG h
  | false =>
    simp only [Bool.false_eq_true, if_false, allTets_eq]
    exact gather_complete subTets (globTet r.l2g) (tetTouches (gOf r.l2g i)) r.l2g (gOf r.l2g i) _
      (subTets_glob r.l2g) (subTets_touch (gOf r.l2g i)) r.cells gcells hL hG h

end Refine.ReconParCells
