import Refine.Lemmas.UgridPartRead
import Refine.Lemmas.ParCell

/-! after the parallel read: every cell is owned by exactly one rank, stored on the rank that receives it first and on
    its owner; `ref_cell_add_many_global`'s duplicate filter is the identity on cells with pairwise different node sets -/
namespace Refine.Lemmas.Ugrid
open Refine.Gen Refine.Model.Endian Refine.Model.Ugrid
open Refine.Model.Meshb (Bytes Status Vertex P Cfg)

/-! ### one owner per cell -/

theorem buckets_perm {β : Type} (f : β → Nat) (l : List β) (n : Nat) :
    ((List.range n).flatMap fun r => l.filter fun a => f a == r).Perm (l.filter fun a => decide (f a < n)) := by
  induction n with
  | zero => simp
  | succ n ih =>
    rw [List.range_succ, List.flatMap_append]
    simp only [List.flatMap_cons, List.flatMap_nil, List.append_nil]
    have h1 := List.Perm.append_right (l.filter fun a => f a == n) ih
    have h2 := Refine.Lemmas.Par.filter_append_disjoint (fun a => decide (f a < n)) (fun a => f a == n) l
      (by intro a _ h; simp at h; omega)
    refine h1.trans (h2.trans ?_)
    have : (fun a => decide (f a < n) || f a == n) = fun a => decide (f a < n + 1) := by
      funext a
      by_cases h : f a < n
      · have : f a < n + 1 := by omega
        simp [h, this]
      · by_cases h' : f a = n
        · simp [h']
        · have : ¬ f a < n + 1 := by omega
          have hb : (f a == n) = false := by simpa using h'
          simp [h, this, hb]
    rw [this]

/-- every rank's owned cells, concatenated in rank order, are the stored cells up to order: each cell is owned once -/
theorem owned_partition (pm : PartMesh) (k : Kind) (cs : List (List Int))
    (h : ∀ c ∈ cs, pm.ownerOf k c < pm.np) :
    ((List.range pm.np).flatMap fun r => pm.ownedBy k cs r).Perm cs := by
  have := buckets_perm (fun c => pm.ownerOf k c) cs pm.np
  unfold PartMesh.ownedBy
  refine this.trans ?_
  rw [List.filter_eq_self.2]
  intro c hc
  simpa using h c hc

theorem partOf_lt (pm : PartMesh) (hnp : 1 ≤ pm.np) (g : Int) : pm.partOf g < pm.np := by
  unfold PartMesh.partOf
  cases h : implicitPart pm.nnode pm.np g with
  | none => simp; omega
  | some p => simpa using implicitPart_lt h

theorem ownerOf_lt (pm : PartMesh) (hnp : 1 ≤ pm.np) (k : Kind) (c : List Int) : pm.ownerOf k c < pm.np := by
  unfold PartMesh.ownerOf
  split
  · omega
  · exact partOf_lt pm hnp _

theorem foldl_min_mem_int (gs : List Int) (g : Int) : gs.foldl (fun m x => if x < m then x else m) g ∈ g :: gs := by
  induction gs generalizing g with
  | nil => simp
  | cons x xs ih =>
    simp only [List.foldl_cons]
    by_cases h : x < g
    · simp only [h, if_true]
      have := ih x
      simp only [List.mem_cons] at this ⊢
      rcases this with h1 | h1
      · right; left; exact h1
      · right; right; exact h1
    · simp only [h, if_false]
      have := ih g
      simp only [List.mem_cons] at this ⊢
      rcases this with h1 | h1
      · left; exact h1
      · right; right; exact h1

/-- the owner stores the cell -/
theorem owner_stores (pm : PartMesh) (k : Kind) (c : List Int) (hne : c.take k.nodePer ≠ []) :
    pm.storedOn k (pm.ownerOf k c) c = true := by
  unfold PartMesh.storedOn PartMesh.ownerOf
  cases hc : c.take k.nodePer with
  | nil => exact absurd hc hne
  | cons g gs =>
    simp only
    rw [List.any_eq_true]
    exact ⟨_, foldl_min_mem_int gs g, by simp⟩

/-- the rank that receives the cell from the reader (implicit part of its first node) stores it -/
theorem firstDest_stores (pm : PartMesh) (k : Kind) (c : List Int) (hne : c.take k.nodePer ≠ []) :
    pm.storedOn k (pm.firstDest c) c = true := by
  unfold PartMesh.storedOn PartMesh.firstDest
  rw [List.any_eq_true]
  refine ⟨c.getD UgridOffsets.dest_node 0, ?_, by simp⟩
  have hd : UgridOffsets.dest_node = 0 := rfl
  rw [hd]
  cases c with
  | nil => simp at hne
  | cons x xs =>
    have hp := nodePer_pos k
    obtain ⟨j, hj⟩ : ∃ j, k.nodePer = j + 1 := ⟨k.nodePer - 1, by omega⟩
    simp [hj]

/-! ### the duplicate filter -/

theorem dedup_go (k : Kind) (cs acc : List (List Int))
    (h1 : (cs.map (nodeSet k)).Nodup) (h2 : ∀ c ∈ cs, ∀ d ∈ acc, nodeSet k d ≠ nodeSet k c) :
    dedupCells k cs acc = acc.reverse ++ cs := by
  induction cs generalizing acc with
  | nil => simp [dedupCells]
  | cons c cs ih =>
    have hno : acc.any (fun d => nodeSet k d == nodeSet k c) = false := by
      rw [List.any_eq_false]
      intro d hd
      simpa using h2 c (by simp) d hd
    simp only [dedupCells, hno, Bool.false_eq_true, if_false]
    rw [List.map_cons, List.nodup_cons] at h1
    rw [ih (c :: acc) h1.2 (by
      intro c' hc' d hd
      simp only [List.mem_cons] at hd
      rcases hd with rfl | hd
      · intro he
        exact h1.1 (by rw [he]; exact List.mem_map_of_mem hc')
      · exact h2 c' (by simp [hc']) d hd)]
    simp

/-- cells with pairwise different node sets are all kept, in file order -/
theorem dedupCells_of_nodup (k : Kind) (cs : List (List Int)) (h : (cs.map (nodeSet k)).Nodup) :
    dedupCells k cs [] = cs := by
  simpa using dedup_go k cs [] h (by simp)

end Refine.Lemmas.Ugrid
