import Refine.Lemmas.UgridPartRead
import Refine.Lemmas.ParCell

/-! after the parallel read: every cell is owned by exactly one rank, stored on the rank that receives it first and on
    its owner; `ref_cell_add_many_global`'s duplicate filter is the identity on cells with pairwise different node sets -/
namespace Refine.Lemmas.Ugrid
open Refine.Gen Refine.Model.Endian Refine.Model.Ugrid
open Refine.Model.Meshb (Bytes Status Vertex P Cfg)

/-! ### one owner per cell -/

theorem buckets_perm {β : Type} (f : β → Nat) (l : List β) (n : Nat) :
    ((List.range n).flatMap fun r => l.filter fun a => f a == r).Perm (l.filter fun a => decide (f a < n)) := by
  induction n with
  | zero => simp
  | succ n ih =>
    rw [List.range_succ, List.flatMap_append]
    simp only [List.flatMap_cons, List.flatMap_nil, List.append_nil]
    have h1 := List.Perm.append_right (l.filter fun a => f a == n) ih
    have h2 := Refine.Lemmas.Par.filter_append_disjoint (fun a => decide (f a < n)) (fun a => f a == n) l
      (by intro a _ h; simp at h; omega)
    refine h1.trans (h2.trans ?_)
    have : (fun a => decide (f a < n) || f a == n) = fun a => decide (f a < n + 1) := by
      funext a
      by_cases h : f a < n
      · have : f a < n + 1 := by omega
        simp [h, this]
      · by_cases h' : f a = n
        · simp [h']
        · have : ¬ f a < n + 1 := by omega
          have hb : (f a == n) = false := by simpa using h'
          simp [h, this, hb]
    rw [this]

/-- every rank's owned cells, concatenated in rank order, are the stored cells up to order: each cell is owned once -/
theorem owned_partition (pm : PartMesh) (k : Kind) (cs : List (List Int))
    (h : ∀ c ∈ cs, pm.ownerOf k c < pm.np) :
    ((List.range pm.np).flatMap fun r => pm.ownedBy k cs r).Perm cs := by
  have := buckets_perm (fun c => pm.ownerOf k c) cs pm.np
  unfold PartMesh.ownedBy
  refine this.trans ?_
  rw [List.filter_eq_self.2]
  intro c hc
  simpa using h c hc

theorem partOf_lt (pm : PartMesh) (hnp : 1 ≤ pm.np) (g : Int) : pm.partOf g < pm.np := by
  unfold PartMesh.partOf
  cases h : implicitPart pm.nnode pm.np g with
  | none => simp; omega
  | some p => simpa using implicitPart_lt h

theorem ownerOf_lt (pm : PartMesh) (hnp : 1 ≤ pm.np) (k : Kind) (c : List Int) : pm.ownerOf k c < pm.np := by
  unfold PartMesh.ownerOf
  split
  · omega
  · exact partOf_lt pm hnp _

theorem foldl_min_mem_int (gs : List Int) (g : Int) : gs.foldl (fun m x => if x < m then x else m) g ∈ g :: gs := by
  induction gs generalizing g with
  | nil => simp
  | cons x xs ih =>
    simp only [List.foldl_cons]
    by_cases h : x < g
    · simp only [h, if_true]
      have := ih x
      simp only [List.mem_cons] at this ⊢
      rcases this with h1 | h1
      · right; left; exact h1
      · right; right; exact h1
    · simp only [h, if_false]
      have := ih g
      simp only [List.mem_cons] at this ⊢
      rcases this with h1 | h1
      · left; exact h1
      · right; right; exact h1

/-- the owner stores the cell -/
theorem owner_stores (pm : PartMesh) (k : Kind) (c : List Int) (hne : c.take k.nodePer ≠ []) :
    pm.storedOn k (pm.ownerOf k c) c = true := by
  unfold PartMesh.storedOn PartMesh.ownerOf
  cases hc : c.take k.nodePer with
  | nil => exact absurd hc hne
  | cons g gs =>
    simp only
    rw [List.any_eq_true]
    exact ⟨_, foldl_min_mem_int gs g, by simp⟩

/-- the rank that receives the cell from the reader (implicit part of its first node) stores it -/
theorem firstDest_stores (pm : PartMesh) (k : Kind) (c : List Int) (hne : c.take k.nodePer ≠ []) :
    pm.storedOn k (pm.firstDest c) c = true := by
  unfold PartMesh.storedOn PartMesh.firstDest
  rw [List.any_eq_true]
  refine ⟨c.getD UgridOffsets.dest_node 0, ?_, by simp⟩
  have hd : UgridOffsets.dest_node = 0 := rfl
  rw [hd]
  cases c with
  | nil => simp at hne
  | cons x xs =>
    have hp := nodePer_pos k
    obtain ⟨j, hj⟩ : ∃ j, k.nodePer = j + 1 := ⟨k.nodePer - 1, by omega⟩
    simp [hj]

/-! ### the duplicate filter -/

theorem dedup_go (k : Kind) (cs acc : List (List Int))
    (h1 : (cs.map (nodeSet k)).Nodup) (h2 : ∀ c ∈ cs, ∀ d ∈ acc, nodeSet k d ≠ nodeSet k c) :
    dedupCells k cs acc = acc.reverse ++ cs := by
  induction cs generalizing acc with
  | nil => simp [dedupCells]
  | cons c cs ih =>
    have hno : acc.any (fun d => nodeSet k d == nodeSet k c) = false := by
      rw [List.any_eq_false]
      intro d hd
      simpa using h2 c (by simp) d hd
    simp only [dedupCells, hno, Bool.false_eq_true, if_false]
    rw [List.map_cons, List.nodup_cons] at h1
    rw [ih (c :: acc) h1.2 (by
      intro c' hc' d hd
      simp only [List.mem_cons] at hd
      rcases hd with rfl | hd
      · intro he
        exact h1.1 (by rw [he]; exact List.mem_map_of_mem hc')
      · exact h2 c' (by simp [hc']) d hd)]
    simp

/-- cells with pairwise different node sets are all kept, in file order -/
theorem dedupCells_of_nodup (k : Kind) (cs : List (List Int)) (h : (cs.map (nodeSet k)).Nodup) :
    dedupCells k cs [] = cs := by
  simpa using dedup_go k cs [] h (by simp)

/-! ### what an accepted parallel read guarantees -/

theorem dedup_subset (k : Kind) (cs acc : List (List Int)) : ∀ c ∈ dedupCells k cs acc, c ∈ cs ∨ c ∈ acc := by
  induction cs generalizing acc with
  | nil => intro c hc; simp only [dedupCells, List.mem_reverse] at hc; exact .inr hc
  | cons d cs ih =>
    intro c hc
    simp only [dedupCells] at hc
    split at hc
    · rcases ih acc c hc with h | h
      · exact .inl (by simp [h])
      · exact .inr h
    · rcases ih (d :: acc) c hc with h | h
      · exact .inl (by simp [h])
      · simp only [List.mem_cons] at h
        rcases h with rfl | h
        · exact .inl (by simp)
        · exact .inr h

/-- with the index check, the chunk loop only returns rows whose node entries are in `[0, nnode)` -/
theorem partCellLoop_checked {cfg : Cfg} (hci : cfg.checkIndex = true) {fl : Flavor} {bs : Bytes} {k : Kind} {nnode co fo : Int}
    {chunk fuel ncell r : Nat} {cs : List (List Int)}
    (h : partCellLoop cfg fl bs k nnode co fo chunk fuel ncell r = .ok cs) : cs.all (partIndexOk k nnode) = true := by
  induction fuel generalizing r cs with
  | zero => simp only [partCellLoop, Except.ok.injEq] at h; subst h; rfl
  | succ fuel ih =>
    simp only [partCellLoop] at h
    by_cases hd : ncell ≤ r
    · rw [if_pos hd] at h; simp only [Except.ok.injEq] at h; subst h; rfl
    · rw [if_neg hd] at h
      cases hp : packCell fl bs k co fo (min chunk (ncell - r)) r with
      | error e => rw [hp] at h; simp at h
      | ok X =>
        rw [hp] at h
        dsimp only at h
        by_cases hbad : cfg.checkIndex = true ∧ X.all (partIndexOk k nnode) = false
        · rw [if_pos hbad] at h; simp at h
        · rw [if_neg hbad] at h
          cases hl : partCellLoop cfg fl bs k nnode co fo chunk fuel ncell (r + min chunk (ncell - r)) with
          | error e => rw [hl] at h; simp at h
          | ok Y =>
            rw [hl] at h
            simp only [Except.ok.injEq] at h
            subst h
            have hX : X.all (partIndexOk k nnode) = true := by
              cases hx : X.all (partIndexOk k nnode) with
              | true => rfl
              | false => exact absurd ⟨hci, hx⟩ hbad
            rw [List.all_append, hX, ih hl]; rfl

theorem partSection_ok {cfg : Cfg} {fl : Flavor} {bs : Bytes} {np : Nat} {co : Option Nat} {hdr : List Int} {k : Kind}
    {cs : List (List Int)} (h : partSection cfg fl bs np co hdr k = .ok cs) :
    ∀ c ∈ cs, partIndexOk k (hdr.getD 0 0) c = true := by
  unfold partSection at h
  dsimp only at h
  by_cases h0 : hdr.getD k.hdrIndex 0 ≤ 0
  · rw [if_pos h0] at h; simp only [Except.ok.injEq] at h; subst h; simp
  · rw [if_neg h0] at h
    have key : ∀ chunk : Nat,
        (if (k.sizePer : Int) * (chunk : Int) ≥ 2 ^ 31 then (Except.error Status.undefined : Except Status _) else
          if cfg.allocCap < 8 * k.sizePer * chunk then .error .null else
          match partCellLoop cfg fl bs k (hdr.getD 0 0) (offsetsOf k (UgridOffsets.ibyte fl.fat) hdr).1
              (offsetsOf k (UgridOffsets.ibyte fl.fat) hdr).2 chunk (hdr.getD k.hdrIndex 0).toNat
              (hdr.getD k.hdrIndex 0).toNat 0 with
          | .error e => .error e
          | .ok cs0 =>
            if cs0.all (partIndexOk k (hdr.getD 0 0)) = true ∧ (implicitPart (hdr.getD 0 0) np 0).isSome = true then
              .ok (dedupCells k cs0 [])
            else .error .undefined) = .ok cs →
        ∀ c ∈ cs, partIndexOk k (hdr.getD 0 0) c = true := by
      intro chunk h
      by_cases h1 : (k.sizePer : Int) * (chunk : Int) ≥ 2 ^ 31
      · rw [if_pos h1] at h; simp at h
      · rw [if_neg h1] at h
        by_cases h2 : cfg.allocCap < 8 * k.sizePer * chunk
        · rw [if_pos h2] at h; simp at h
        · rw [if_neg h2] at h
          cases hl : partCellLoop cfg fl bs k (hdr.getD 0 0) (offsetsOf k (UgridOffsets.ibyte fl.fat) hdr).1
              (offsetsOf k (UgridOffsets.ibyte fl.fat) hdr).2 chunk (hdr.getD k.hdrIndex 0).toNat
              (hdr.getD k.hdrIndex 0).toNat 0 with
          | error e => rw [hl] at h; simp at h
          | ok cs0 =>
            rw [hl] at h
            dsimp only at h
            by_cases hg : cs0.all (partIndexOk k (hdr.getD 0 0)) = true ∧
                (implicitPart (hdr.getD 0 0) np 0).isSome = true
            · rw [if_pos hg] at h
              simp only [Except.ok.injEq] at h
              subst h
              intro c hc
              rcases dedup_subset k cs0 [] c hc with hc' | hc'
              · exact (List.all_eq_true.1 hg.1) c hc'
              · simp at hc'
            · rw [if_neg hg] at h; simp at h
    cases co with
    | none => exact key _ h
    | some c => exact key c h

theorem partSections_ok {cfg : Cfg} {fl : Flavor} {bs : Bytes} {np : Nat} {co : Option Nat} {hdr : List Int}
    {ks : List Kind} {css : List (List (List Int))} (h : partSections cfg fl bs np co hdr ks = .ok css) :
    css.length = ks.length ∧ ∀ p ∈ ks.zip css, ∀ c ∈ p.2, partIndexOk p.1 (hdr.getD 0 0) c = true := by
  induction ks generalizing css with
  | nil => simp only [partSections, Except.ok.injEq] at h; subst h; simp
  | cons k ks ih =>
    simp only [partSections] at h
    cases h1 : partSection cfg fl bs np co hdr k with
    | error e => rw [h1] at h; simp at h
    | ok cs =>
      rw [h1] at h
      dsimp only at h
      cases h2 : partSections cfg fl bs np co hdr ks with
      | error e => rw [h2] at h; simp at h
      | ok css' =>
        rw [h2] at h
        simp only [Except.ok.injEq] at h
        subst h
        obtain ⟨hl, hm⟩ := ih h2
        refine ⟨by simp [hl], ?_⟩
        intro p hp
        simp only [List.zip_cons_cons, List.mem_cons] at hp
        rcases hp with rfl | hp
        · exact partSection_ok h1
        · exact hm p hp

/-- an accepted parallel read: six cell lists, every node entry of every stored cell in `[0, nnode)`, and exactly
    `nnode` vertices read -/
theorem partRead_ok {cfg : Cfg} {fl : Flavor} {np : Nat} {co : Option Nat} {bs : Bytes} {pm : PartMesh}
    (h : partReadWith cfg fl np co bs = .ok pm) :
    pm.cells.length = 6 ∧ pm.nodes.length = pm.nnode.toNat ∧
    ∀ p ∈ Kind.all.zip pm.cells, ∀ c ∈ p.2, ∀ x ∈ c.take p.1.nodePer, 0 ≤ x ∧ x < pm.nnode := by
  unfold partReadWith at h
  cases h0 : rdHeaderPart fl bs with
  | error e => rw [h0] at h; simp at h
  | ok p0 =>
    obtain ⟨hdr, s⟩ := p0
    rw [h0] at h
    dsimp only at h
    by_cases hz : partHeaderHazard np hdr = true
    · rw [if_pos hz] at h; simp at h
    · rw [if_neg hz] at h
      cases hv : rdVerts fl (hdr.getD 0 0).toNat s with
      | error e => rw [hv] at h; simp at h
      | ok pv =>
        obtain ⟨nodes, s1⟩ := pv
        rw [hv] at h
        dsimp only at h
        cases hs : partSections cfg fl bs np co hdr Kind.all with
        | error e => rw [hs] at h; simp at h
        | ok css =>
          rw [hs] at h
          simp only [Except.ok.injEq] at h
          subst h
          obtain ⟨hl, hm⟩ := partSections_ok hs
          refine ⟨by simpa [Kind.all] using hl, (rdVerts_len hv).1, ?_⟩
          intro p hp c hc x hx
          have := hm p hp c hc
          unfold partIndexOk at this
          simpa using (List.all_eq_true.1 this) x hx

end Refine.Lemmas.Ugrid
