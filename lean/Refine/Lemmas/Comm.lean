import Refine.Model.Comm

/-!
  Helper lemmas for the C17 theorems (`Refine/Props/C17.lean`): buffers (`writeAt`, `slice`),
  displacement arrays, the receive loops.
-/
namespace Refine.Lemmas.Comm
open Refine.Model.Comm

variable {α : Type}

/-! ### buffers -/

theorem writeAt_mid (pre mid post blk : List α) (off : Nat) (hoff : off = pre.length)
    (h : mid.length = blk.length) :
    writeAt (pre ++ mid ++ post) off blk = pre ++ blk ++ post := by
  subst hoff
  unfold writeAt
  have h1 : List.take pre.length (pre ++ mid ++ post) = pre := by
    rw [List.append_assoc, List.take_left']; rfl
  have h2 : List.drop (pre.length + blk.length) (pre ++ mid ++ post) = post := by
    rw [← h]
    have : (pre ++ mid).length = pre.length + mid.length := List.length_append
    rw [← this, List.drop_left']; rfl
  rw [h1, h2]

theorem writeAt_nil (buf : List α) (off : Nat) : writeAt buf off [] = buf := by
  unfold writeAt
  simp

theorem slice_mid (pre mid post : List α) (off cnt : Nat) (hoff : off = pre.length) (hc : cnt = mid.length) :
    slice (pre ++ mid ++ post) off cnt = mid := by
  subst hoff; subst hc
  unfold slice
  rw [List.append_assoc, List.drop_left' rfl, List.take_left' rfl]

theorem length_writeAt (buf blk : List α) (off : Nat) (h : off + blk.length ≤ buf.length) :
    (writeAt buf off blk).length = buf.length := by
  unfold writeAt
  simp only [List.length_append, List.length_take, List.length_drop]
  omega

/-! ### displacement arrays -/

theorem length_displsFrom (acc : Int) (xs : List Int) : (displsFrom acc xs).length = xs.length := by
  induction xs generalizing acc with
  | nil => rfl
  | cons x xs ih => simp [displsFrom, ih]

theorem isum_eq_sum (xs : List Int) : isum xs = xs.sum := by
  unfold isum
  have : ∀ (a : Int), xs.foldl (· + ·) a = a + xs.sum := by
    induction xs with
    | nil => intro a; simp
    | cons x xs ih => intro a; simp [List.foldl_cons, ih]; omega
  simpa using this 0

theorem sum_nonneg_int (xs : List Int) (h : ∀ x ∈ xs, 0 ≤ x) : 0 ≤ xs.sum := by
  induction xs with
  | nil => simp
  | cons x xs ih =>
    have := h x List.mem_cons_self
    have := ih (fun y hy => h y (List.mem_cons_of_mem _ hy))
    simp only [List.sum_cons]; omega

/-! ### the guards of `ref_mpi_alltoallv` -/

theorem sizeN_ok (n : Int) (hn : 0 ≤ n) (xs : List Int)
    (h : ∀ x ∈ xs, 0 ≤ x ∧ n * x ≤ INT_MAX) : sizeN n xs = some (xs.map (n * ·)) := by
  induction xs with
  | nil => rfl
  | cons x xs ih =>
    have hx := h x (List.mem_cons_self)
    have hm : intMultipliable n x = true := by
      unfold intMultipliable
      have : INT_MIN ≤ n * x := by
        have : 0 ≤ n * x := Int.mul_nonneg hn hx.1
        unfold INT_MIN; omega
      simp [hx.2, this]
    have h0 : decide (0 ≤ x) = true := by simp [hx.1]
    rw [sizeN, h0, hm, ih (fun y hy => h y (List.mem_cons_of_mem _ hy))]
    rfl

theorem dispGuard_ok (acc : Int) (xs : List Int) (hacc : 0 ≤ acc) (hx : ∀ x ∈ xs, 0 ≤ x)
    (hs : acc + xs.sum ≤ INT_MAX) : dispGuard acc xs = some (displsFrom acc xs) := by
  induction xs generalizing acc with
  | nil => rfl
  | cons x xs ih =>
    cases xs with
    | nil => rfl
    | cons y ys =>
      have hx0 := hx x (List.mem_cons_self)
      have hsum : 0 ≤ (y :: ys).sum :=
        sum_nonneg_int _ (fun z hz => hx z (List.mem_cons_of_mem _ hz))
      have hadd : intAddable acc x = true := by
        unfold intAddable
        have h1 : acc + x ≤ INT_MAX := by
          simp only [List.sum_cons] at hs hsum ⊢
          omega
        have h2 : INT_MIN ≤ acc + x := by unfold INT_MIN; omega
        simp [h1, h2]
      rw [dispGuard, if_pos hadd, ih (acc + x) (by omega) (fun z hz => hx z (List.mem_cons_of_mem _ hz))
        (by simp only [List.sum_cons] at hs ⊢; omega)]
      rfl

/-! ### blocks of a flat buffer -/

/-- lengths as `Int` -/
def lensI (L : List (List α)) : List Int := L.map fun l => (l.length : Int)

theorem slice_flatten_from (L : List (List α)) (pre : List α) (acc : Int) (hacc : acc = (pre.length : Int))
    (r : Nat) :
    slice (pre ++ L.flatten) ((displsFrom acc (lensI L)).getD r 0).toNat ((lensI L).getD r 0).toNat
      = L.getD r [] := by
  induction L generalizing pre acc r with
  | nil => simp [lensI, displsFrom, slice]
  | cons l L ih =>
    cases r with
    | zero =>
      simp only [lensI, List.map_cons, displsFrom, List.getD_cons_zero, List.flatten_cons]
      rw [← List.append_assoc]
      exact slice_mid pre l L.flatten _ _ (by omega) (by omega)
    | succ r =>
      simp only [lensI, List.map_cons, displsFrom, List.getD_cons_succ, List.flatten_cons]
      rw [← List.append_assoc]
      exact ih (pre ++ l) (acc + (l.length : Int)) (by simp [hacc]) r

theorem slice_flatten (L : List (List α)) (r : Nat) :
    slice L.flatten ((displs (lensI L)).getD r 0).toNat ((lensI L).getD r 0).toNat = L.getD r [] := by
  have := slice_flatten_from L [] 0 (by simp) r
  simpa [displs] using this

/-! ### receive side of `MPI_Alltoallv` -/

/-- the block `src` sends to rank `r` -/
def blockTo (r : Nat) (src : VArgs α) : List α :=
  slice src.send (src.sdispl.getD r 0).toNat (src.scount.getD r 0).toNat

theorem mpiRecvLoop_spec (r : Nat) (srcs : List (VArgs α)) (rcs : List Int) (pre rest : List α)
    (acc : Int) (hacc : acc = (pre.length : Int))
    (hcnt : srcs.map (fun src => src.scount.getD r 0) = rcs)
    (hlen : lensI (srcs.map (blockTo r)) = rcs)
    (hrest : (rest.length : Int) = rcs.sum) :
    mpiRecvLoop r srcs rcs (displsFrom acc rcs) (pre ++ rest) = some (pre ++ (srcs.map (blockTo r)).flatten) := by
  induction srcs generalizing rcs pre rest acc with
  | nil =>
    subst hcnt
    simp only [List.map_nil, List.sum_nil] at hrest
    have : rest = [] := List.eq_nil_of_length_eq_zero (by omega)
    simp [mpiRecvLoop, this]
  | cons src srcs ih =>
    cases rcs with
    | nil => simp at hcnt
    | cons rc rcs =>
      simp only [List.map_cons, List.cons.injEq] at hcnt
      simp only [lensI, List.map_cons, List.cons.injEq] at hlen
      obtain ⟨hc1, hc2⟩ := hcnt
      obtain ⟨hl1, hl2⟩ := hlen
      simp only [List.sum_cons] at hrest
      have hrc0 : 0 ≤ rc := by omega
      have hrcs0 : 0 ≤ rcs.sum := by
        rw [← hl2]; apply sum_nonneg_int; intro x hx
        simp only [List.mem_map] at hx
        obtain ⟨_, _, rfl⟩ := hx
        omega
      simp only [displsFrom, mpiRecvLoop, hc1, Int.le_refl, if_true]
      -- split rest
      have hsplit : rest = rest.take (blockTo r src).length ++ rest.drop (blockTo r src).length :=
        (List.take_append_drop _ _).symm
      have htl : (rest.take (blockTo r src).length).length = (blockTo r src).length := by
        rw [List.length_take]; omega
      have hw : writeAt (pre ++ rest) acc.toNat (blockTo r src)
          = pre ++ blockTo r src ++ rest.drop (blockTo r src).length := by
        conv => lhs; rw [hsplit, ← List.append_assoc]
        exact writeAt_mid pre _ _ _ _ (by omega) htl
      have hb : slice src.send (src.sdispl.getD r 0).toNat rc.toNat = blockTo r src := by
        unfold blockTo; rw [hc1]
      rw [hb, hw]
      rw [ih rcs (pre ++ blockTo r src) (rest.drop (blockTo r src).length) (acc + rc)
        (by simp only [List.length_append]; omega) hc2 hl2
        (by rw [List.length_drop]; omega)]
      simp [List.append_assoc]

/-! ### small list facts -/

theorem map_mapIdx_const {β γ δ : Type} (l : List β) (f : Nat → β → γ) (g : γ → δ) (k : β → δ)
    (h : ∀ i a, g (f i a) = k a) : (l.mapIdx f).map g = l.map k := by
  apply List.ext_getElem
  · simp
  · intro i h1 h2
    simp [h]

theorem getD_map_len (b : List (List β)) (r : Nat) (f : List β → Int) (hf : f [] = 0) :
    (b.map f).getD r 0 = f (b.getD r []) := by
  simp only [List.getD_eq_getElem?_getD, List.getElem?_map]
  cases b[r]? <;> simp [hf]

theorem getD_map_flatten (b : List (List (List β))) (r : Nat) :
    (b.map List.flatten).getD r [] = (b.getD r []).flatten := by
  simp only [List.getD_eq_getElem?_getD, List.getElem?_map]
  cases b[r]? <;> simp

theorem length_flatten_uniform (n : Nat) (blk : List (List β)) (h : ∀ it ∈ blk, it.length = n) :
    blk.flatten.length = n * blk.length := by
  induction blk with
  | nil => simp
  | cons it blk ih =>
    have h1 := h it List.mem_cons_self
    have h2 := ih (fun x hx => h x (List.mem_cons_of_mem _ hx))
    simp only [List.flatten_cons, List.length_append, List.length_cons, h1, h2, Nat.mul_add, Nat.mul_one]
    omega

theorem allSome_map_some {β : Type} (l : List β) : allSome (l.map some) = some l := by
  induction l with
  | nil => rfl
  | cons x xs ih => simp [allSome, ih]

/-! ### `ref_mpi_alltoallv`, world level -/

/-- column `r` of a matrix of blocks (`[]` where a row is short) -/
def column {γ : Type} (r : Nat) (blocks : List (List (List γ))) : List (List γ) :=
  blocks.map fun b => b.getD r []

/-- item counts as `Int` -/
def countsI {γ : Type} (b : List (List γ)) : List Int := b.map fun blk => (blk.length : Int)

/-- the world in which rank `s` sends the items `blocks[s][r]` (each item `n` scalars) to rank `r`:
    flat send buffers, per-destination item counts, receive counts as an exchange of the send counts gives them,
    `recv0 r` the receive buffer rank `r` passes in -/
def a2aWorld (blocks : List (List (List (List α)))) (recv0 : Nat → List α) : World (A2A α) :=
  blocks.mapIdx fun r b =>
    { send := (b.map List.flatten).flatten
      sendSize := countsI b
      recv := recv0 r
      recvSize := countsI (column r blocks) }

/-- what rank `r` hands to `MPI_Alltoallv` in that world -/
def a2aVArgs (n : Nat) (blocks : List (List (List (List α)))) (recv0 : Nat → List α) (r : Nat)
    (b : List (List (List α))) : VArgs α :=
  { send := (b.map List.flatten).flatten
    scount := (countsI b).map ((n : Int) * ·)
    sdispl := displs ((countsI b).map ((n : Int) * ·))
    recv := recv0 r
    rcount := (countsI (column r blocks)).map ((n : Int) * ·)
    rdispl := displs ((countsI (column r blocks)).map ((n : Int) * ·)) }

theorem countsI_nonneg {γ : Type} (b : List (List γ)) : ∀ x ∈ countsI b, 0 ≤ x := by
  intro x hx
  simp only [countsI, List.mem_map] at hx
  obtain ⟨_, _, rfl⟩ := hx
  omega

theorem scaled_le_of_sum (n : Int) (hn : 0 ≤ n) (xs : List Int) (h0 : ∀ x ∈ xs, 0 ≤ x)
    (hs : n * xs.sum ≤ INT_MAX) : ∀ x ∈ xs, 0 ≤ x ∧ n * x ≤ INT_MAX := by
  induction xs with
  | nil => intro x hx; simp at hx
  | cons y ys ih =>
    have hy := h0 y List.mem_cons_self
    have hys : 0 ≤ ys.sum := sum_nonneg_int _ (fun z hz => h0 z (List.mem_cons_of_mem _ hz))
    simp only [List.sum_cons, Int.mul_add] at hs
    have h1 : 0 ≤ n * y := Int.mul_nonneg hn hy
    have h2 : 0 ≤ n * ys.sum := Int.mul_nonneg hn hys
    intro x hx
    rcases List.mem_cons.mp hx with rfl | hx
    · exact ⟨hy, by omega⟩
    · exact ih (fun z hz => h0 z (List.mem_cons_of_mem _ hz)) (by omega) x hx

theorem sum_map_mul (n : Int) (xs : List Int) : (xs.map (n * ·)).sum = n * xs.sum := by
  induction xs with
  | nil => simp
  | cons x xs ih => simp only [List.map_cons, List.sum_cons, ih, Int.mul_add]

theorem a2avArgs_world (n : Nat) (blocks : List (List (List (List α)))) (recv0 : Nat → List α)
    (hsend : ∀ b ∈ blocks, (n : Int) * (countsI b).sum ≤ INT_MAX)
    (hrcv : ∀ r, r < blocks.length → (n : Int) * (countsI (column r blocks)).sum ≤ INT_MAX) :
    (a2aWorld blocks recv0).map (a2avArgs (n : Int))
      = (blocks.mapIdx (a2aVArgs n blocks recv0)).map some := by
  have hn : (0 : Int) ≤ n := by omega
  have nonneg : ∀ (xs : List Int), (∀ x ∈ xs, 0 ≤ x) → ∀ y ∈ xs.map ((n : Int) * ·), 0 ≤ y := by
    intro xs h y hy
    simp only [List.mem_map] at hy
    obtain ⟨x, hx, rfl⟩ := hy
    exact Int.mul_nonneg hn (h x hx)
  apply List.ext_getElem
  · simp [a2aWorld]
  · intro r h1 h2
    have hr : r < blocks.length := by simpa [a2aWorld] using h1
    have hb : blocks[r] ∈ blocks := List.getElem_mem hr
    simp only [a2aWorld, List.getElem_map, List.getElem_mapIdx, a2avArgs]
    rw [sizeN_ok n hn _ (scaled_le_of_sum n hn _ (countsI_nonneg _) (hsend _ hb)),
      sizeN_ok n hn _ (scaled_le_of_sum n hn _ (countsI_nonneg _) (hrcv r hr))]
    simp only []
    rw [dispGuard_ok 0 _ (by omega) (nonneg _ (countsI_nonneg _)) (by rw [sum_map_mul]; have := hsend _ hb; omega),
      dispGuard_ok 0 _ (by omega) (nonneg _ (countsI_nonneg _)) (by rw [sum_map_mul]; have := hrcv r hr; omega)]
    rfl

/-- the block rank `s` sends to `r` in `a2aWorld` is the flattened item list `blocks[s][r]` -/
theorem blockTo_a2aVArgs (n : Nat) (blocks : List (List (List (List α)))) (recv0 : Nat → List α)
    (s r : Nat) (b : List (List (List α))) (hitem : ∀ blk ∈ b, ∀ it ∈ blk, it.length = n) :
    blockTo r (a2aVArgs n blocks recv0 s b) = (b.getD r []).flatten := by
  have hl : (countsI b).map ((n : Int) * ·) = lensI (b.map List.flatten) := by
    simp only [countsI, lensI, List.map_map]
    apply List.map_congr_left
    intro blk hblk
    simp only [Function.comp, length_flatten_uniform n blk (hitem blk hblk)]
    push_cast; rfl
  unfold blockTo a2aVArgs
  simp only [hl]
  rw [slice_flatten, getD_map_flatten]

theorem alltoallvMpi_spec (ty : RefType) (hty : ty.mpiOk = true) (n : Nat)
    (blocks : List (List (List (List α)))) (recv0 : Nat → List α)
    (hitem : ∀ b ∈ blocks, ∀ blk ∈ b, ∀ it ∈ blk, it.length = n)
    (hrecv : ∀ r, r < blocks.length → ((recv0 r).length : Int) = (n : Int) * (countsI (column r blocks)).sum)
    (hsend : ∀ b ∈ blocks, (n : Int) * (countsI b).sum ≤ INT_MAX)
    (hrcv : ∀ r, r < blocks.length → (n : Int) * (countsI (column r blocks)).sum ≤ INT_MAX) :
    alltoallvMpi ty (n : Int) (a2aWorld blocks recv0)
      = some ((List.range blocks.length).map fun r => (Status.ok, ((column r blocks).flatten).flatten)) := by
  unfold alltoallvMpi
  simp only [hty, Bool.not_true, Bool.false_eq_true, if_false]
  rw [a2avArgs_world n blocks recv0 hsend hrcv]
  have hall : ((blocks.mapIdx (a2aVArgs n blocks recv0)).map some).all Option.isSome = true := by
    simp [List.all_map]
  simp only [hall, if_true, List.filterMap_map, Function.comp_def, id, List.filterMap_some]
  -- every rank's receive loop
  have hloop : (blocks.mapIdx (a2aVArgs n blocks recv0)).mapIdx
        (fun r me => mpiRecvLoop r (blocks.mapIdx (a2aVArgs n blocks recv0)) me.rcount me.rdispl me.recv)
      = ((List.range blocks.length).map fun r => ((column r blocks).flatten).flatten).map some := by
    apply List.ext_getElem
    · simp
    · intro r h1 h2
      have hr : r < blocks.length := by simpa using h1
      simp only [List.getElem_mapIdx, List.getElem_map, List.getElem_range]
      have hcnt : (blocks.mapIdx (a2aVArgs n blocks recv0)).map (fun src => src.scount.getD r 0)
          = (countsI (column r blocks)).map ((n : Int) * ·) := by
        rw [map_mapIdx_const _ _ _ (fun b => (n : Int) * ((b.getD r []).length : Int))]
        · simp [countsI, column, List.map_map, Function.comp_def]
        · intro i b
          simp only [a2aVArgs, countsI, List.map_map, Function.comp_def]
          exact getD_map_len b r (fun blk => (n : Int) * (blk.length : Int)) (by simp)
      have hblk : (blocks.mapIdx (a2aVArgs n blocks recv0)).map (blockTo r)
          = (column r blocks).map List.flatten := by
        apply List.ext_getElem
        · simp [column]
        · intro s hs1 hs2
          have hs : s < blocks.length := by simpa using hs1
          simp only [List.getElem_map, List.getElem_mapIdx, column]
          exact blockTo_a2aVArgs n blocks recv0 s r _ (hitem _ (List.getElem_mem hs))
      have hlen : lensI ((blocks.mapIdx (a2aVArgs n blocks recv0)).map (blockTo r))
          = (countsI (column r blocks)).map ((n : Int) * ·) := by
        rw [hblk]
        simp only [lensI, countsI, column, List.map_map, Function.comp_def]
        apply List.map_congr_left
        intro b hb
        have : ∀ it ∈ b.getD r [], it.length = n := by
          intro it hit
          rw [List.getD_eq_getElem?_getD] at hit
          cases hbr : b[r]? with
          | none => simp [hbr] at hit
          | some blk =>
            simp only [hbr, Option.getD_some] at hit
            exact hitem b hb blk (List.mem_of_getElem? hbr) it hit
        rw [length_flatten_uniform n _ this]
        push_cast; rfl
      have := mpiRecvLoop_spec r (blocks.mapIdx (a2aVArgs n blocks recv0))
        ((countsI (column r blocks)).map ((n : Int) * ·)) [] (recv0 r) 0 (by simp) hcnt hlen
        (by rw [sum_map_mul]; exact hrecv r hr)
      simp only [List.nil_append] at this
      simp only [a2aVArgs, displs]
      rw [this, hblk, List.flatten_flatten]
  unfold mpiAlltoallv
  rw [hloop, allSome_map_some]
  simp [List.map_map, Function.comp_def]

/-! ### `ref_mpi_alltoallv_native`: the request lists -/

/-- all tags of the parts `part0 … part0 + len - 1` pass the `RAB` check -/
def TagsOk (maxTag : Int) (tagOf : Int → Int) (part0 : Int) (len : Nat) : Prop :=
  ∀ j : Nat, j < len → 0 ≤ tagOf (part0 + j) ∧ tagOf (part0 + j) ≤ maxTag

theorem TagsOk.tail {maxTag : Int} {tagOf : Int → Int} {part0 : Int} {len : Nat}
    (h : TagsOk maxTag tagOf part0 (len + 1)) : TagsOk maxTag tagOf (part0 + 1) len := by
  intro j hj
  have := h (j + 1) (by omega)
  have e : part0 + ((j + 1 : Nat) : Int) = part0 + 1 + (j : Int) := by omega
  rwa [e] at this

theorem TagsOk.head {maxTag : Int} {tagOf : Int → Int} {part0 : Int} {len : Nat}
    (h : TagsOk maxTag tagOf part0 (len + 1)) : 0 ≤ tagOf part0 ∧ tagOf part0 ≤ maxTag := by
  have := h 0 (by omega)
  simpa using this

theorem nativeSends_status (ty : RefType) (hty : ty.nativeOk = true) (np maxTag rank n : Int) (send : List α)
    (sizes : List Int) (part0 off : Int)
    (htag : TagsOk maxTag (fun p => np * p + rank) part0 sizes.length) :
    (nativeSends ty np maxTag rank n send part0 off sizes).1 = Status.ok := by
  induction sizes generalizing part0 off with
  | nil => rfl
  | cons sz rest ih =>
    have hh := htag.head
    unfold nativeSends
    by_cases hsz : 0 < sz
    · simp only [hsz, if_true, hh.1, hh.2, decide_true, Bool.and_self, Bool.not_true, Bool.false_eq_true,
        if_false, hty]
      exact ih _ _ htag.tail
    · simp only [hsz, if_false]
      exact ih _ _ htag.tail

theorem nativeRecvs_status (ty : RefType) (hty : ty.nativeOk = true) (np maxTag rank n : Int)
    (sizes : List Int) (part0 off : Int)
    (htag : TagsOk maxTag (fun p => np * rank + p) part0 sizes.length) :
    (nativeRecvs ty np maxTag rank n part0 off sizes).1 = Status.ok := by
  induction sizes generalizing part0 off with
  | nil => rfl
  | cons sz rest ih =>
    have hh := htag.head
    unfold nativeRecvs
    by_cases hsz : 0 < sz
    · simp only [hsz, if_true, hh.1, hh.2, decide_true, Bool.and_self, Bool.not_true, Bool.false_eq_true,
        if_false, hty]
      exact ih _ _ htag.tail
    · simp only [hsz, if_false]
      exact ih _ _ htag.tail

/-- the message for part `part0 + k` is found by (dest, tag) in the posted sends -/
theorem nativeSends_find (ty : RefType) (hty : ty.nativeOk = true) (np maxTag rank n : Int) (send : List α)
    (sizes : List Int) (part0 off : Int) (k : Nat) (hk : k < sizes.length) (hpos : 0 < sizes.getD k 0)
    (htag : TagsOk maxTag (fun p => np * p + rank) part0 sizes.length) :
    (nativeSends ty np maxTag rank n send part0 off sizes).2.find?
        (fun m => m.dest == part0 + k && m.tag == np * (part0 + k) + rank)
      = some ⟨part0 + k, np * (part0 + k) + rank,
          slice send (off + n * (sizes.take k).sum).toNat (n * sizes.getD k 0).toNat⟩ := by
  induction sizes generalizing part0 off k with
  | nil => simp at hk
  | cons sz rest ih =>
    have hh := htag.head
    unfold nativeSends
    cases k with
    | zero =>
      simp only [List.getD_cons_zero] at hpos
      simp only [hpos, if_true, hh.1, hh.2, decide_true, Bool.and_self, Bool.not_true, Bool.false_eq_true,
        if_false, hty, List.take_zero, List.sum_nil, Int.mul_zero, Int.add_zero, List.getD_cons_zero,
        Int.natCast_zero]
      rw [List.find?_cons_of_pos]
      simp
    | succ k =>
      simp only [List.getD_cons_succ] at hpos
      have e : part0 + ((k + 1 : Nat) : Int) = part0 + 1 + (k : Int) := by omega
      have hne : (part0 == part0 + 1 + (k : Int)) = false := by
        simp only [beq_eq_false_iff_ne, ne_eq]; omega
      have hsum : off + n * sz + n * (rest.take k).sum = off + n * ((sz :: rest).take (k + 1)).sum := by
        simp only [List.take_succ_cons, List.sum_cons, Int.mul_add]; omega
      have ih' := ih (part0 + 1) (off + n * sz) k (by simpa using hk) hpos htag.tail
      rw [hsum] at ih'
      rw [e]
      by_cases hsz : 0 < sz
      · simp only [hsz, if_true, hh.1, hh.2, decide_true, Bool.and_self, Bool.not_true, Bool.false_eq_true,
          if_false, hty, List.getD_cons_succ]
        rw [List.find?_cons_of_neg]
        · exact ih'
        · simp [hne]
      · simp only [hsz, if_false, List.getD_cons_succ]
        exact ih'

/-- a receive for part `part0 + k` is posted when its size is positive -/
theorem nativeRecvs_any (ty : RefType) (hty : ty.nativeOk = true) (np maxTag rank n : Int)
    (sizes : List Int) (part0 off : Int) (k : Nat) (hk : k < sizes.length) (hpos : 0 < sizes.getD k 0)
    (htag : TagsOk maxTag (fun p => np * rank + p) part0 sizes.length) :
    (nativeRecvs ty np maxTag rank n part0 off sizes).2.any
        (fun rq => rq.source == part0 + k && rq.tag == np * rank + (part0 + k)) = true := by
  induction sizes generalizing part0 off k with
  | nil => simp at hk
  | cons sz rest ih =>
    have hh := htag.head
    unfold nativeRecvs
    cases k with
    | zero =>
      simp only [List.getD_cons_zero] at hpos
      simp [hpos, hh.1, hh.2, hty]
    | succ k =>
      simp only [List.getD_cons_succ] at hpos
      have e : part0 + ((k + 1 : Nat) : Int) = part0 + 1 + (k : Int) := by omega
      have ih' := ih (part0 + 1) (off + n * sz) k (by simpa using hk) hpos htag.tail
      rw [e]
      by_cases hsz : 0 < sz
      · simp only [hsz, if_true, hh.1, hh.2, decide_true, Bool.and_self, Bool.not_true, Bool.false_eq_true,
          if_false, hty, List.any_cons, ih', Bool.or_true]
      · simp only [hsz, if_false]
        exact ih'

/-- a property of all posted sends follows from the property of the message of every positive part -/
theorem nativeSends_all (ty : RefType) (np maxTag rank n : Int) (send : List α)
    (sizes : List Int) (part0 off : Int) (P : Msg α → Bool)
    (h : ∀ k : Nat, k < sizes.length → 0 < sizes.getD k 0 → ∀ d, P ⟨part0 + k, np * (part0 + k) + rank, d⟩ = true) :
    (nativeSends ty np maxTag rank n send part0 off sizes).2.all P = true := by
  induction sizes generalizing part0 off with
  | nil => rfl
  | cons sz rest ih =>
    have ht : ∀ k : Nat, k < rest.length → 0 < rest.getD k 0 →
        ∀ d, P ⟨part0 + 1 + k, np * (part0 + 1 + k) + rank, d⟩ = true := by
      intro k hk hp d
      have := h (k + 1) (by simpa using hk) (by simpa using hp) d
      have e : part0 + ((k + 1 : Nat) : Int) = part0 + 1 + (k : Int) := by omega
      rwa [e] at this
    unfold nativeSends
    by_cases hsz : 0 < sz
    · simp only [hsz, if_true]
      split
      · rfl
      · split
        · rfl
        · have h0 := h 0 (by simp) (by simpa using hsz)
          simp only [Int.natCast_zero, Int.add_zero] at h0
          simp only [List.all_cons, h0, Bool.true_and]
          exact ih _ _ ht
    · simp only [hsz, if_false]
      exact ih _ _ ht

/-- waiting for the posted receives of the native variant stores the blocks one after the other -/
theorem recvPosted_native (W : World (Posted α)) (me : Int) (ty : RefType) (hty : ty.nativeOk = true)
    (np maxTag n : Int) (hn : 0 ≤ n) (sizes : List Int) (hsz : ∀ x ∈ sizes, 0 ≤ x) (blks : List (List α))
    (hlen : lensI blks = sizes.map (n * ·))
    (part0 off : Int) (pre rest : List α) (hoff : off = (pre.length : Int))
    (hrest : (rest.length : Int) = (sizes.map (n * ·)).sum)
    (htag : TagsOk maxTag (fun p => np * me + p) part0 sizes.length)
    (hfind : ∀ k : Nat, k < sizes.length → 0 < sizes.getD k 0 → ∀ o c,
      ∃ m, findMsg W me ⟨part0 + k, np * me + (part0 + k), o, c⟩ = some m ∧ m.data = blks.getD k []) :
    recvPosted W me (nativeRecvs ty np maxTag me n part0 off sizes).2 (pre ++ rest)
      = some (pre ++ blks.flatten) := by
  induction sizes generalizing blks part0 off pre rest with
  | nil =>
    cases blks with
    | nil =>
      simp only [List.map_nil, List.sum_nil] at hrest
      have : rest = [] := List.eq_nil_of_length_eq_zero (by omega)
      simp [nativeRecvs, recvPosted, this]
    | cons b bs => simp [lensI] at hlen
  | cons sz szs ih =>
    cases blks with
    | nil => simp [lensI] at hlen
    | cons blk blks =>
      simp only [lensI, List.map_cons, List.cons.injEq] at hlen
      obtain ⟨hl1, hl2⟩ := hlen
      have hh := htag.head
      have hsz0 := hsz sz List.mem_cons_self
      have hszs : ∀ x ∈ szs, 0 ≤ x := fun x hx => hsz x (List.mem_cons_of_mem _ hx)
      simp only [List.map_cons, List.sum_cons] at hrest
      have hsum0 : 0 ≤ (szs.map (n * ·)).sum := by
        apply sum_nonneg_int; intro y hy
        simp only [List.mem_map] at hy
        obtain ⟨x, hx, rfl⟩ := hy
        exact Int.mul_nonneg hn (hszs x hx)
      have hf : ∀ k : Nat, k < szs.length → 0 < szs.getD k 0 → ∀ o c,
          ∃ m, findMsg W me ⟨part0 + 1 + k, np * me + (part0 + 1 + k), o, c⟩ = some m ∧ m.data = blks.getD k [] := by
        intro k hk hp o c
        have := hfind (k + 1) (by simpa using hk) (by simpa using hp) o c
        have e : part0 + ((k + 1 : Nat) : Int) = part0 + 1 + (k : Int) := by omega
        rw [e] at this
        simpa using this
      unfold nativeRecvs
      by_cases hpos : 0 < sz
      · simp only [hpos, if_true, hh.1, hh.2, decide_true, Bool.and_self, Bool.not_true, Bool.false_eq_true,
          if_false, hty]
        obtain ⟨m, hm, hmd⟩ := hfind 0 (by simp) (by simpa using hpos) off (n * sz)
        simp only [Int.natCast_zero, Int.add_zero, List.getD_cons_zero] at hm hmd
        unfold recvPosted
        simp only [hm, hmd]
        have hle : ((blk.length : Int) ≤ n * sz) := by omega
        simp only [hle, if_true]
        have hsplit : rest = rest.take blk.length ++ rest.drop blk.length := (List.take_append_drop _ _).symm
        have hnsz : 0 ≤ n * sz := Int.mul_nonneg hn hsz0
        have htl : (rest.take blk.length).length = blk.length := by
          rw [List.length_take]; omega
        have hw : writeAt (pre ++ rest) off.toNat blk = pre ++ blk ++ rest.drop blk.length := by
          conv => lhs; rw [hsplit, ← List.append_assoc]
          exact writeAt_mid pre _ _ _ _ (by omega) htl
        rw [hw, ih hszs blks hl2 (part0 + 1) (off + n * sz) (pre ++ blk) (rest.drop blk.length)
          (by simp only [List.length_append]; omega) (by rw [List.length_drop]; omega) htag.tail hf]
        simp [List.append_assoc]
      · have hz : sz = 0 := by omega
        subst hz
        simp only [Int.mul_zero] at hl1 hrest
        have hb : blk = [] := List.eq_nil_of_length_eq_zero (by omega)
        subst hb
        simp only [Int.lt_irrefl, if_false, Int.mul_zero, Int.add_zero, List.flatten_cons, List.nil_append]
        exact ih hszs blks hl2 (part0 + 1) off pre rest hoff (by omega) htag.tail hf

theorem displsFrom_getD (acc : Int) (xs : List Int) (r : Nat) (hr : r < xs.length) :
    (displsFrom acc xs).getD r 0 = acc + (xs.take r).sum := by
  induction xs generalizing acc r with
  | nil => simp at hr
  | cons x xs ih =>
    cases r with
    | zero => simp [displsFrom]
    | succ r =>
      simp only [displsFrom, List.getD_cons_succ, List.take_succ_cons, List.sum_cons]
      rw [ih (acc + x) r (by simpa using hr)]
      omega

theorem countsI_getD {γ : Type} (b : List (List γ)) (r : Nat) :
    (countsI b).getD r 0 = ((b.getD r []).length : Int) :=
  getD_map_len b r (fun blk => (blk.length : Int)) (by simp)

theorem column_getD {γ : Type} (blocks : List (List (List γ))) (r s : Nat) (hs : s < blocks.length) :
    (column r blocks).getD s [] = blocks[s].getD r [] := by
  simp [column, List.getD_eq_getElem?_getD, hs]

theorem lensI_flatten_items (n : Nat) (b : List (List (List α))) (hitem : ∀ blk ∈ b, ∀ it ∈ blk, it.length = n) :
    lensI (b.map List.flatten) = (countsI b).map ((n : Int) * ·) := by
  simp only [countsI, lensI, List.map_map]
  apply List.map_congr_left
  intro blk hblk
  simp only [Function.comp, length_flatten_uniform n blk (hitem blk hblk)]
  push_cast; rfl

theorem column_items (n : Nat) (blocks : List (List (List (List α)))) (r : Nat)
    (hitem : ∀ b ∈ blocks, ∀ blk ∈ b, ∀ it ∈ blk, it.length = n) :
    ∀ blk ∈ column r blocks, ∀ it ∈ blk, it.length = n := by
  intro blk hblk it hit
  simp only [column, List.mem_map] at hblk
  obtain ⟨b, hb, rfl⟩ := hblk
  rw [List.getD_eq_getElem?_getD] at hit
  cases hbr : b[r]? with
  | none => simp [hbr] at hit
  | some blk =>
    simp only [hbr, Option.getD_some] at hit
    exact hitem b hb blk (List.mem_of_getElem? hbr) it hit

/-- the slice the native variant sends for part `r` is the flattened block -/
theorem native_slice (n : Nat) (b : List (List (List α))) (hitem : ∀ blk ∈ b, ∀ it ∈ blk, it.length = n)
    (r : Nat) (hr : r < b.length) :
    slice (b.map List.flatten).flatten ((0 : Int) + (n : Int) * ((countsI b).take r).sum).toNat
        ((n : Int) * (countsI b).getD r 0).toNat
      = (b.getD r []).flatten := by
  have hl := lensI_flatten_items n b hitem
  have h1 : (displs (lensI (b.map List.flatten))).getD r 0 = (0 : Int) + (n : Int) * ((countsI b).take r).sum := by
    unfold displs
    rw [displsFrom_getD 0 _ r (by simp [lensI]; exact hr), hl, ← List.map_take, sum_map_mul]
  have h2 : (lensI (b.map List.flatten)).getD r 0 = (n : Int) * (countsI b).getD r 0 := by
    rw [hl]
    simp only [countsI, List.map_map, Function.comp_def]
    rw [getD_map_len b r (fun blk => (n : Int) * (blk.length : Int)) (by simp),
      getD_map_len b r (fun blk => (blk.length : Int)) (by simp)]
  rw [← h1, ← h2, slice_flatten, getD_map_flatten]

theorem tag_bounds (N a b maxTag : Int) (ha : 0 ≤ a) (ha' : a < N) (hb : 0 ≤ b) (hb' : b < N)
    (hmax : N * N ≤ maxTag) : 0 ≤ N * a + b ∧ N * a + b ≤ maxTag := by
  have h1 : N * a ≤ N * (N - 1) := Int.mul_le_mul_of_nonneg_left (by omega) (by omega)
  have h2 : N * (N - 1) = N * N - N := by rw [Int.mul_sub, Int.mul_one]
  have h3 : 0 ≤ N * a := Int.mul_nonneg (by omega) ha
  omega

/-! ### `ref_mpi_alltoallv_native`, world level -/

theorem mpiOk_of_nativeOk {ty : RefType} (h : ty.nativeOk = true) : ty.mpiOk = true := by
  cases ty <;> simp_all [RefType.nativeOk, RefType.ild, RefType.mpiOk]

/-- what rank `r` posts in the native variant (world of `a2aWorld`) -/
def nativePosted (ty : RefType) (maxTag : Int) (n : Nat) (blocks : List (List (List (List α))))
    (recv0 : Nat → List α) (r : Nat) (b : List (List (List α))) : Posted α :=
  ⟨Status.ok,
   (nativeRecvs ty (blocks.length : Int) maxTag (r : Int) (n : Int) 0 0 (countsI (column r blocks))).2,
   (nativeSends ty (blocks.length : Int) maxTag (r : Int) (n : Int) (b.map List.flatten).flatten 0 0 (countsI b)).2,
   recv0 r⟩

theorem tagsOk_recv (np : Nat) (maxTag : Int) (r : Nat) (hr : r < np) (hmax : (np : Int) * np ≤ maxTag) :
    TagsOk maxTag (fun p => (np : Int) * (r : Int) + p) 0 np := by
  intro j hj
  simp only [Int.zero_add]
  exact tag_bounds np r j maxTag (by omega) (by omega) (by omega) (by omega) hmax

theorem tagsOk_send (np : Nat) (maxTag : Int) (r : Nat) (hr : r < np) (hmax : (np : Int) * np ≤ maxTag) :
    TagsOk maxTag (fun p => (np : Int) * p + (r : Int)) 0 np := by
  intro j hj
  simp only [Int.zero_add]
  exact tag_bounds np j r maxTag (by omega) (by omega) (by omega) (by omega) hmax

theorem nativePost_world (ty : RefType) (hty : ty.nativeOk = true) (maxTag : Int) (n : Nat)
    (blocks : List (List (List (List α)))) (recv0 : Nat → List α)
    (hmax : (blocks.length : Int) * blocks.length ≤ maxTag)
    (hsq : ∀ b ∈ blocks, b.length = blocks.length) :
    (a2aWorld blocks recv0).mapIdx
        (fun r a => nativePost ty ((a2aWorld blocks recv0).length : Int) maxTag (r : Int) (n : Int) a)
      = blocks.mapIdx (nativePosted ty maxTag n blocks recv0) := by
  have hlenw : (a2aWorld blocks recv0).length = blocks.length := by simp [a2aWorld]
  apply List.ext_getElem
  · simp [a2aWorld]
  · intro r h1 h2
    have hr : r < blocks.length := by simpa [a2aWorld] using h1
    have hb : blocks[r] ∈ blocks := List.getElem_mem hr
    simp only [List.getElem_mapIdx, hlenw]
    unfold nativePost nativePosted
    have hnot : ¬ ((blocks.length : Int) * blocks.length > maxTag) := by omega
    simp only [mpiOk_of_nativeOk hty, Bool.not_true, Bool.false_eq_true, if_false, hnot]
    have hrs := nativeRecvs_status ty hty (blocks.length : Int) maxTag (r : Int) (n : Int)
      (countsI (column r blocks)) 0 0
      (by simpa [countsI, column] using tagsOk_recv blocks.length maxTag r hr hmax)
    have hss := nativeSends_status ty hty (blocks.length : Int) maxTag (r : Int) (n : Int)
      ((blocks[r].map List.flatten).flatten) (countsI blocks[r]) 0 0
      (by simpa [countsI, hsq _ hb] using tagsOk_send blocks.length maxTag r hr hmax)
    simp only [a2aWorld, List.getElem_mapIdx, hrs, ne_eq, not_true_eq_false, if_false, hss]

theorem alltoallvNative_spec (ty : RefType) (hty : ty.nativeOk = true) (maxTag : Int) (n : Nat)
    (blocks : List (List (List (List α)))) (recv0 : Nat → List α)
    (hmax : (blocks.length : Int) * blocks.length ≤ maxTag)
    (hsq : ∀ b ∈ blocks, b.length = blocks.length)
    (hitem : ∀ b ∈ blocks, ∀ blk ∈ b, ∀ it ∈ blk, it.length = n)
    (hrecv : ∀ r, r < blocks.length → ((recv0 r).length : Int) = (n : Int) * (countsI (column r blocks)).sum) :
    alltoallvNative ty maxTag (n : Int) (a2aWorld blocks recv0)
      = some ((List.range blocks.length).map fun r => (Status.ok, ((column r blocks).flatten).flatten)) := by
  unfold alltoallvNative
  rw [nativePost_world ty hty maxTag n blocks recv0 hmax hsq]
  -- abbreviations
  have hW : ∀ s, (hs : s < blocks.length) →
      (blocks.mapIdx (nativePosted ty maxTag n blocks recv0))[s]? = some (nativePosted ty maxTag n blocks recv0 s blocks[s]) := by
    intro s hs
    simp [hs]
  have hcnt : ∀ r s, r < blocks.length → (hs : s < blocks.length) →
      (countsI (column r blocks)).getD s 0 = (countsI blocks[s]).getD r 0 := by
    intro r s hr hs
    rw [countsI_getD, countsI_getD, column_getD blocks r s hs]
  unfold p2pExchange
  have hloop : (blocks.mapIdx (nativePosted ty maxTag n blocks recv0)).mapIdx
      (fun r p =>
        if p.status ≠ Status.ok then
          (if p.rcvs.isEmpty && p.msgs.isEmpty then some (p.status, p.buf) else none)
        else if p.msgs.all (sendMatched (blocks.mapIdx (nativePosted ty maxTag n blocks recv0)) (r : Int)) then
          (recvPosted (blocks.mapIdx (nativePosted ty maxTag n blocks recv0)) (r : Int) p.rcvs p.buf).map
            fun b => (Status.ok, b)
        else none)
      = ((List.range blocks.length).map fun r => (Status.ok, ((column r blocks).flatten).flatten)).map some := by
    apply List.ext_getElem
    · simp
    · intro r h1 h2
      have hr : r < blocks.length := by simpa using h1
      have hb : blocks[r] ∈ blocks := List.getElem_mem hr
      simp only [List.getElem_mapIdx, List.getElem_map, List.getElem_range]
      -- status ok
      have hst : (nativePosted ty maxTag n blocks recv0 r blocks[r]).status = Status.ok := rfl
      simp only [hst, ne_eq, not_true_eq_false, if_false]
      -- every send is matched
      have hsend : (nativePosted ty maxTag n blocks recv0 r blocks[r]).msgs.all
          (sendMatched (blocks.mapIdx (nativePosted ty maxTag n blocks recv0)) (r : Int)) = true := by
        have hm : (nativePosted ty maxTag n blocks recv0 r blocks[r]).msgs
            = (nativeSends ty (blocks.length : Int) maxTag (r : Int) (n : Int)
                (blocks[r].map List.flatten).flatten 0 0 (countsI blocks[r])).2 := rfl
        rw [hm]
        apply nativeSends_all
        intro k hk hpos d
        have hk' : k < blocks.length := by simpa [countsI, hsq _ hb] using hk
        unfold sendMatched
        have hneg : ¬ ((k : Int) < 0) := by omega
        simp only [Int.zero_add, hneg, if_false, Int.toNat_natCast, hW k hk']
        have := nativeRecvs_any ty hty (blocks.length : Int) maxTag (k : Int) (n : Int)
          (countsI (column k blocks)) 0 0 r (by simpa [countsI, column] using hr)
          (by rw [hcnt k r hk' hr]; exact hpos)
          (by simpa [countsI, column] using tagsOk_recv blocks.length maxTag k hk' hmax)
        simpa [nativePosted] using this
      simp only [hsend, if_true]
      -- the receives
      have hitemc := column_items n blocks r hitem
      have hrp := recvPosted_native (blocks.mapIdx (nativePosted ty maxTag n blocks recv0)) (r : Int) ty hty
        (blocks.length : Int) maxTag (n : Int) (by omega) (countsI (column r blocks)) (countsI_nonneg _)
        ((column r blocks).map List.flatten) (lensI_flatten_items n _ hitemc) 0 0 [] (recv0 r) (by simp)
        (by rw [sum_map_mul]; exact hrecv r hr)
        (by simpa [countsI, column] using tagsOk_recv blocks.length maxTag r hr hmax)
        (by
          intro k hk hpos o c
          have hk' : k < blocks.length := by simpa [countsI, column] using hk
          have hbk : blocks[k] ∈ blocks := List.getElem_mem hk'
          unfold findMsg
          have hneg : ¬ ((k : Int) < 0) := by omega
          simp only [Int.zero_add, hneg, if_false, Int.toNat_natCast, hW k hk']
          have hf := nativeSends_find ty hty (blocks.length : Int) maxTag (k : Int) (n : Int)
            ((blocks[k].map List.flatten).flatten) (countsI blocks[k]) 0 0 r
            (by simpa [countsI, hsq _ hbk] using hr)
            (by rw [← hcnt r k hr hk']; exact hpos)
            (by simpa [countsI, hsq _ hbk] using tagsOk_send blocks.length maxTag k hk' hmax)
          simp only [Int.zero_add] at hf
          have hm : (nativePosted ty maxTag n blocks recv0 k blocks[k]).msgs
              = (nativeSends ty (blocks.length : Int) maxTag (k : Int) (n : Int)
                  (blocks[k].map List.flatten).flatten 0 0 (countsI blocks[k])).2 := rfl
          rw [hm]
          refine ⟨_, hf, ?_⟩
          · simp only
            have := native_slice n blocks[k] (hitem _ hbk) r (by rw [hsq _ hbk]; exact hr)
            simp only [Int.zero_add] at this
            rw [this, getD_map_flatten, column_getD blocks r k hk'])
      simp only [List.nil_append] at hrp
      have hbuf : (nativePosted ty maxTag n blocks recv0 r blocks[r]).buf = recv0 r := rfl
      have hrc : (nativePosted ty maxTag n blocks recv0 r blocks[r]).rcvs
          = (nativeRecvs ty (blocks.length : Int) maxTag (r : Int) (n : Int) 0 0 (countsI (column r blocks))).2 := rfl
      rw [hbuf, hrc, hrp, List.flatten_flatten]
      rfl
  rw [hloop, allSome_map_some]

/-! ### the bucket pack of `ref_mpi_blindsend` -/

theorem flatMap_congr' {β γ : Type} (l : List β) (g g' : β → List γ) (h : ∀ x ∈ l, g x = g' x) :
    l.flatMap g = l.flatMap g' := by
  induction l with
  | nil => rfl
  | cons x xs ih =>
    simp only [List.flatMap_cons, h x List.mem_cons_self, ih (fun y hy => h y (List.mem_cons_of_mem _ hy))]

theorem range_split (np p : Nat) (hp : p < np) :
    List.range np = List.range p ++ p :: List.range' (p + 1) (np - p - 1) := by
  have h1 : List.range np = List.range' 0 p ++ List.range' (0 + 1 * p) (np - p) := by
    rw [List.range'_append, List.range_eq_range']
    congr 1; omega
  have h2 : List.range' (0 + 1 * p) (np - p) = p :: List.range' (p + 1) (np - p - 1) := by
    have : np - p = (np - p - 1) + 1 := by omega
    rw [this, List.range'_succ]
    simp
  rw [h1, h2, List.range_eq_range']

/-- segment `q` of the packed buffer: `f q` already stored, `h q` not yet written -/
def segData (np : Nat) (f h : Nat → List α) : List α := (List.range np).flatMap fun q => f q ++ h q

def upd {β : Type} (f : Nat → β) (p : Nat) (v : β) : Nat → β := fun q => if q = p then v else f q

theorem segData_split (np p : Nat) (hp : p < np) (f h : Nat → List α) :
    segData np f h = (List.range p).flatMap (fun q => f q ++ h q) ++ (f p ++ h p)
      ++ (List.range' (p + 1) (np - p - 1)).flatMap (fun q => f q ++ h q) := by
  unfold segData
  rw [range_split np p hp, List.flatMap_append, List.flatMap_cons]
  simp only [List.append_assoc]

theorem segData_write (np p ldim : Nat) (hp : p < np) (f h : Nat → List α) (item : List α)
    (hit : item.length = ldim) (hh : ldim ≤ (h p).length) (off : Nat)
    (hoff : off = ((List.range p).flatMap (fun q => f q ++ h q)).length + (f p).length) :
    writeAt (segData np f h) off item
      = segData np (upd f p (f p ++ item)) (upd h p ((h p).drop ldim)) := by
  rw [segData_split np p hp f h, segData_split np p hp (upd f p (f p ++ item)) (upd h p ((h p).drop ldim))]
  have hA : (List.range p).flatMap (fun q => upd f p (f p ++ item) q ++ upd h p ((h p).drop ldim) q)
      = (List.range p).flatMap (fun q => f q ++ h q) := by
    apply flatMap_congr'
    intro q hq
    have : q ≠ p := by have := List.mem_range.mp hq; omega
    simp [upd, this]
  have hB : (List.range' (p + 1) (np - p - 1)).flatMap
        (fun q => upd f p (f p ++ item) q ++ upd h p ((h p).drop ldim) q)
      = (List.range' (p + 1) (np - p - 1)).flatMap (fun q => f q ++ h q) := by
    apply flatMap_congr'
    intro q hq
    have : q ≠ p := by have := (List.mem_range'_1.mp hq).1; omega
    simp [upd, this]
  rw [hA, hB]
  simp only [upd, if_true]
  have hsplit : h p = (h p).take ldim ++ (h p).drop ldim := (List.take_append_drop _ _).symm
  have htl : ((h p).take ldim).length = item.length := by rw [List.length_take]; omega
  -- regroup so that the overwritten part is in the middle
  have e1 : (List.range p).flatMap (fun q => f q ++ h q) ++ (f p ++ h p)
        ++ (List.range' (p + 1) (np - p - 1)).flatMap (fun q => f q ++ h q)
      = ((List.range p).flatMap (fun q => f q ++ h q) ++ f p) ++ (h p).take ldim
        ++ ((h p).drop ldim ++ (List.range' (p + 1) (np - p - 1)).flatMap (fun q => f q ++ h q)) := by
    conv => lhs; rw [hsplit]
    simp only [List.append_assoc]
  rw [e1, writeAt_mid _ _ _ _ off (by rw [hoff, List.length_append]) htl]
  simp only [List.append_assoc]

theorem prefLen_congr {β : Type} (k : Nat) (g g' : Nat → List β) (h : ∀ q, q < k → (g q).length = (g' q).length) :
    ((List.range k).flatMap g).length = ((List.range k).flatMap g').length := by
  rw [List.length_flatMap, List.length_flatMap]
  congr 1
  apply List.map_congr_left
  intro q hq
  exact h q (List.mem_range.mp hq)

theorem incrAt_getD (a : List Int) (p q : Nat) (hp : p < a.length) :
    (incrAt a p).getD q 0 = if q = p then a.getD p 0 + 1 else a.getD q 0 := by
  unfold incrAt
  rw [List.getD_eq_getElem?_getD, List.getElem?_set]
  by_cases h : p = q
  · subst h; simp [hp]
  · have : ¬ q = p := fun e => h e.symm
    simp [h, this, List.getD_eq_getElem?_getD]

theorem length_incrAt (a : List Int) (p : Nat) : (incrAt a p).length = a.length := by
  simp [incrAt]

/-- the items addressed to `q`, in the order they were given -/
def bucket (q : Nat) (pairs : List (Nat × List α)) : List (List α) :=
  (pairs.filter fun x => x.1 == q).map (·.2)

theorem bucket_cons_self (p : Nat) (item : List α) (rest : List (Nat × List α)) :
    bucket p ((p, item) :: rest) = item :: bucket p rest := by
  simp [bucket]

theorem bucket_cons_ne (p q : Nat) (hne : q ≠ p) (item : List α) (rest : List (Nat × List α)) :
    bucket q ((p, item) :: rest) = bucket q rest := by
  have : (p == q) = false := by simp only [beq_eq_false_iff_ne, ne_eq]; omega
  simp [bucket, this]

structure PackInv (ldim np : Nat) (f h : Nat → List α) (aNext : List Int) (todo : List (Nat × List α)) : Prop where
  len : aNext.length = np
  nonneg : ∀ p, p < np → 0 ≤ aNext.getD p 0
  next : ∀ p, p < np →
    ldim * (aNext.getD p 0).toNat = ((List.range p).flatMap (fun q => f q ++ h q)).length + (f p).length
  hole : ∀ p, p < np → (h p).length = ldim * (bucket p todo).length

theorem pack_spec (ldim np : Nat) (pairs : List (Nat × List α)) (hd : ∀ x ∈ pairs, x.1 < np)
    (hi : ∀ x ∈ pairs, x.2.length = ldim) (f h : Nat → List α) (aNext : List Int)
    (inv : PackInv ldim np f h aNext pairs) :
    pack ldim (pairs.map fun x => (x.1 : Int)) (pairs.map (·.2)).flatten (segData np f h) aNext
      = (List.range np).flatMap fun q => f q ++ (bucket q pairs).flatten := by
  induction pairs generalizing f h aNext with
  | nil =>
    simp only [List.map_nil, pack, segData]
    apply flatMap_congr'
    intro q hq
    have := inv.hole q (List.mem_range.mp hq)
    simp only [bucket, List.filter_nil, List.map_nil, List.length_nil, Nat.mul_zero] at this
    simp [List.eq_nil_of_length_eq_zero this, bucket]
  | cons x rest ih =>
    obtain ⟨p, item⟩ := x
    have hp : p < np := hd (p, item) List.mem_cons_self
    have hit : item.length = ldim := hi (p, item) List.mem_cons_self
    have hd' : ∀ x ∈ rest, x.1 < np := fun x hx => hd x (List.mem_cons_of_mem _ hx)
    have hi' : ∀ x ∈ rest, x.2.length = ldim := fun x hx => hi x (List.mem_cons_of_mem _ hx)
    have hhole := inv.hole p hp
    rw [bucket_cons_self, List.length_cons, Nat.mul_succ] at hhole
    have hh : ldim ≤ (h p).length := by omega
    simp only [List.map_cons, List.flatten_cons, pack, Int.toNat_natCast]
    rw [List.take_left' hit, List.drop_left' hit]
    rw [segData_write np p ldim hp f h item hit hh _ (inv.next p hp)]
    -- the invariant after the step
    have hseg : ∀ q, (upd f p (f p ++ item) q ++ upd h p ((h p).drop ldim) q).length = (f q ++ h q).length := by
      intro q
      by_cases hq : q = p
      · subst hq
        simp only [upd, if_true, List.length_append, List.length_drop]
        omega
      · simp [upd, hq]
    have inv' : PackInv ldim np (upd f p (f p ++ item)) (upd h p ((h p).drop ldim)) (incrAt aNext p) rest := by
      refine ⟨by rw [length_incrAt]; exact inv.len, ?_, ?_, ?_⟩
      · intro q hq
        rw [incrAt_getD aNext p q (by rw [inv.len]; exact hp)]
        have h1 := inv.nonneg p hp
        have h2 := inv.nonneg q hq
        split <;> omega
      · intro q hq
        rw [incrAt_getD aNext p q (by rw [inv.len]; exact hp)]
        rw [prefLen_congr q _ (fun q => f q ++ h q) (fun q' _ => hseg q')]
        by_cases hqp : q = p
        · subst hqp
          have h0 := inv.nonneg q hq
          have hn := inv.next q hq
          have e : (aNext.getD q 0 + 1).toNat = (aNext.getD q 0).toNat + 1 := by omega
          simp only [if_true, upd, e, Nat.mul_succ, List.length_append]
          omega
        · have hn := inv.next q hq
          simp only [hqp, if_false, upd]
          exact hn
      · intro q hq
        by_cases hqp : q = p
        · subst hqp
          simp only [upd, if_true, List.length_drop]
          omega
        · have := inv.hole q hq
          rw [bucket_cons_ne p q hqp] at this
          simp only [upd, hqp, if_false]
          exact this
    rw [ih hd' hi' _ _ _ inv']
    apply flatMap_congr'
    intro q hq
    by_cases hqp : q = p
    · subst hqp
      simp [upd, bucket_cons_self]
    · simp [upd, hqp, bucket_cons_ne p q hqp]

/-! ### `a_size`, `a_next` and the initial state of the pack -/

/-- `Σ_{j<q} cs j` -/
def prefSum (cs : Nat → Nat) (q : Nat) : Nat := ((List.range q).map cs).sum

theorem prefSum_succ (cs : Nat → Nat) (q : Nat) : prefSum cs (q + 1) = prefSum cs q + cs q := by
  simp [prefSum, List.range_succ, List.sum_append]

theorem prefSum_mono (cs : Nat → Nat) (q k : Nat) (h : q ≤ k) : prefSum cs q ≤ prefSum cs k := by
  induction k with
  | zero => have : q = 0 := by omega
            subst this; exact Nat.le_refl _
  | succ k ih =>
    by_cases hq : q = k + 1
    · subst hq; exact Nat.le_refl _
    · have := ih (by omega)
      rw [prefSum_succ]; omega

/-- cutting a list into consecutive chunks and gluing them back -/
theorem chunks_flatMap (cs : Nat → Nat) (init : List α) (k : Nat) :
    (List.range k).flatMap (fun q => slice init (prefSum cs q) (cs q)) = init.take (prefSum cs k) := by
  induction k with
  | zero => simp [prefSum]
  | succ k ih =>
    rw [List.range_succ, List.flatMap_append, List.flatMap_singleton, ih, prefSum_succ, List.take_add]
    rfl

theorem foldl_incrAt_length (procs : List Int) (a : List Int) :
    (procs.foldl (fun a p => incrAt a p.toNat) a).length = a.length := by
  induction procs generalizing a with
  | nil => rfl
  | cons p ps ih => simp only [List.foldl_cons, ih, length_incrAt]

theorem foldl_incrAt_getD (pairs : List (Nat × List α)) (a : List Int) (hd : ∀ x ∈ pairs, x.1 < a.length)
    (q : Nat) :
    ((pairs.map fun x => (x.1 : Int)).foldl (fun a p => incrAt a p.toNat) a).getD q 0
      = a.getD q 0 + ((bucket q pairs).length : Int) := by
  induction pairs generalizing a with
  | nil => simp [bucket]
  | cons x rest ih =>
    obtain ⟨p, item⟩ := x
    have hp : p < a.length := hd (p, item) List.mem_cons_self
    simp only [List.map_cons, List.foldl_cons, Int.toNat_natCast]
    rw [ih (incrAt a p) (fun x hx => by rw [length_incrAt]; exact hd x (List.mem_cons_of_mem _ hx)),
      incrAt_getD a p q hp]
    by_cases hq : q = p
    · subst hq
      simp only [if_true, bucket_cons_self, List.length_cons]
      push_cast; omega
    · simp only [hq, if_false, bucket_cons_ne p q hq]

theorem countDest_eq (np : Nat) (pairs : List (Nat × List α)) (hd : ∀ x ∈ pairs, x.1 < np) :
    countDest np (pairs.map fun x => (x.1 : Int))
      = (List.range np).map fun q => ((bucket q pairs).length : Int) := by
  apply List.ext_getElem
  · simp [countDest, foldl_incrAt_length]
  · intro q h1 h2
    have hq : q < np := by simpa using h2
    have := foldl_incrAt_getD pairs (List.replicate np 0) (by simpa using hd) q
    simp only [countDest] at h1 ⊢
    rw [List.getD_eq_getElem?_getD, List.getElem?_eq_getElem h1] at this
    simp only [Option.getD_some] at this
    rw [this]
    simp [List.getD_eq_getElem?_getD, hq]

theorem sum_range_cast (cs : Nat → Nat) (q : Nat) :
    ((List.range q).map fun j => (cs j : Int)).sum = (prefSum cs q : Int) := by
  induction q with
  | zero => simp [prefSum]
  | succ q ih =>
    rw [prefSum_succ, List.range_succ, List.map_append, List.sum_append, ih]
    simp

theorem prefSum_mul (ldim : Nat) (cs : Nat → Nat) (q : Nat) :
    prefSum (fun j => ldim * cs j) q = ldim * prefSum cs q := by
  induction q with
  | zero => simp [prefSum]
  | succ q ih => rw [prefSum_succ, prefSum_succ, ih, Nat.mul_add]

/-- the bucket pack of `ref_mpi_blindsend`, from the `a_next` prefix sums and ANY initial contents of `a_data`:
    bucket `q` holds the items addressed to `q` in their original order; every slot is overwritten -/
theorem pack_init (ldim np : Nat) (pairs : List (Nat × List α)) (hd : ∀ x ∈ pairs, x.1 < np)
    (hi : ∀ x ∈ pairs, x.2.length = ldim) (init : List α)
    (hinit : init.length = ldim * prefSum (fun q => (bucket q pairs).length) np) :
    pack ldim (pairs.map fun x => (x.1 : Int)) (pairs.map (·.2)).flatten init
        (displs (countDest np (pairs.map fun x => (x.1 : Int))))
      = (List.range np).flatMap fun q => (bucket q pairs).flatten := by
  let c : Nat → Nat := fun q => (bucket q pairs).length
  let cs : Nat → Nat := fun q => ldim * c q
  let h : Nat → List α := fun q => slice init (prefSum cs q) (cs q)
  have hlen : init.length = prefSum cs np := by rw [hinit, prefSum_mul]
  have hseg : segData np (fun _ => []) h = init := by
    simp only [segData, List.nil_append]
    rw [chunks_flatMap cs init np, ← hlen, List.take_length]
  have hnext : ∀ p, p < np →
      (displs (countDest np (pairs.map fun x => (x.1 : Int)))).getD p 0 = (prefSum c p : Int) := by
    intro p hp
    rw [countDest_eq np pairs hd]
    unfold displs
    rw [displsFrom_getD 0 _ p (by simpa using hp), ← List.map_take, List.take_range, Nat.min_eq_left (by omega),
      sum_range_cast c p]
    omega
  have inv : PackInv ldim np (fun _ => []) h (displs (countDest np (pairs.map fun x => (x.1 : Int)))) pairs := by
    refine ⟨?_, ?_, ?_, ?_⟩
    · simp [displs, length_displsFrom, countDest, foldl_incrAt_length]
    · intro p hp; rw [hnext p hp]; omega
    · intro p hp
      rw [hnext p hp]
      simp only [List.nil_append, List.length_nil, Nat.add_zero, Int.toNat_natCast]
      rw [chunks_flatMap cs init p, List.length_take]
      have e : ldim * prefSum c p = prefSum cs p := (prefSum_mul ldim c p).symm
      rw [e]
      have := prefSum_mono cs p np (by omega)
      omega
    · intro p hp
      show (slice init (prefSum cs p) (cs p)).length = ldim * c p
      unfold slice
      rw [List.length_take, List.length_drop]
      have h1 := prefSum_mono cs (p + 1) np (by omega)
      rw [prefSum_succ] at h1
      show min (cs p) _ = cs p
      omega
  have := pack_spec ldim np pairs hd hi (fun _ => []) h _ inv
  rw [hseg] at this
  simpa using this

/-! ### `ref_mpi_blindsend`, world level -/

/-- the `ref_mpi_blindsend` arguments of a rank that wants the items `pairs` delivered: `(destination, item)` -/
def blindOf (pairs : List (Nat × List α)) : Blind α :=
  ⟨pairs.map fun x => (x.1 : Int), (pairs.map (·.2)).flatten⟩

/-- the items addressed to `r`, by source rank and then in the source's order -/
def delivered (r : Nat) (w : World (List (Nat × List α))) : List (List α) := w.flatMap (bucket r)

/-- the block matrix of a blind send: `blocks[s][r]` = items of rank `s` addressed to `r` -/
def blindBlocks (w : World (List (Nat × List α))) : List (List (List (List α))) :=
  w.map fun pairs => (List.range w.length).map fun q => bucket q pairs

theorem bucket_count_cons (p : Nat) (item : List α) (rest : List (Nat × List α)) (k : Nat) :
    prefSum (fun q => (bucket q ((p, item) :: rest)).length) k
      = prefSum (fun q => (bucket q rest).length) k + (if p < k then 1 else 0) := by
  induction k with
  | zero => simp [prefSum]
  | succ k ih =>
    rw [prefSum_succ, prefSum_succ, ih]
    by_cases hk : k = p
    · subst hk
      rw [bucket_cons_self]
      simp
      omega
    · rw [bucket_cons_ne p k hk]
      by_cases h1 : p < k
      · have : p < k + 1 := by omega
        simp [h1, this]; omega
      · have : ¬ p < k + 1 := by omega
        simp [h1, this]

theorem bucket_total (np : Nat) (pairs : List (Nat × List α)) (hd : ∀ x ∈ pairs, x.1 < np) :
    prefSum (fun q => (bucket q pairs).length) np = pairs.length := by
  induction pairs with
  | nil =>
    have : ∀ k, prefSum (fun q => (bucket q ([] : List (Nat × List α))).length) k = 0 := by
      intro k
      induction k with
      | zero => simp [prefSum]
      | succ k ih => rw [prefSum_succ, ih]; simp [bucket]
    simpa using this np
  | cons x rest ih =>
    obtain ⟨p, item⟩ := x
    rw [bucket_count_cons, ih (fun x hx => hd x (List.mem_cons_of_mem _ hx))]
    have := hd (p, item) List.mem_cons_self
    simp only at this
    simp [this]

theorem mem_bucket (q : Nat) (pairs : List (Nat × List α)) (it : List α) (h : it ∈ bucket q pairs) :
    ∃ x ∈ pairs, x.2 = it := by
  simp only [bucket, List.mem_map, List.mem_filter] at h
  obtain ⟨x, ⟨hx, _⟩, rfl⟩ := h
  exact ⟨x, hx, rfl⟩

theorem getD_map_range {β : Type} (np r : Nat) (hr : r < np) (g : Nat → β) (d : β) :
    ((List.range np).map g).getD r d = g r := by
  simp [List.getD_eq_getElem?_getD, hr]

theorem column_blindBlocks (w : World (List (Nat × List α))) (r : Nat) (hr : r < w.length) :
    column r (blindBlocks w) = w.map (bucket r) := by
  simp only [column, blindBlocks, List.map_map, Function.comp_def]
  apply List.map_congr_left
  intro pairs _
  exact getD_map_range w.length r hr (fun q => bucket q pairs) []

theorem countsI_sum_eq_length {γ : Type} (L : List (List γ)) : (countsI L).sum = (L.flatten.length : Int) := by
  induction L with
  | nil => simp [countsI]
  | cons l L ih =>
    simp only [countsI, List.map_cons, List.sum_cons, List.flatten_cons, List.length_append] at ih ⊢
    rw [ih]; push_cast; rfl

theorem countsI_column_sum (w : World (List (Nat × List α))) (r : Nat) (hr : r < w.length) :
    (countsI (column r (blindBlocks w))).sum = ((delivered r w).length : Int) := by
  rw [column_blindBlocks w r hr, countsI_sum_eq_length, delivered, List.flatMap_def]

theorem countsI_blindRow (np : Nat) (pairs : List (Nat × List α)) (hd : ∀ x ∈ pairs, x.1 < np) :
    (countsI ((List.range np).map fun q => bucket q pairs)).sum = (pairs.length : Int) := by
  simp only [countsI, List.map_map, Function.comp_def]
  rw [sum_range_cast (fun q => (bucket q pairs).length) np, bucket_total np pairs hd]

theorem countDest_blindOf (np : Nat) (pairs : List (Nat × List α)) (hd : ∀ x ∈ pairs, x.1 < np) :
    countDest np (blindOf pairs).proc = countsI ((List.range np).map fun q => bucket q pairs) := by
  simp only [blindOf, countDest_eq np pairs hd, countsI, List.map_map, Function.comp_def]

theorem bSize_blind (w : World (List (Nat × List α))) (hd : ∀ pairs ∈ w, ∀ x ∈ pairs, x.1 < w.length)
    (s : Nat) (hs : s < w.length) :
    (w.map fun pairs => (countDest w.length (blindOf pairs).proc).getD s (default : Int))
      = countsI (column s (blindBlocks w)) := by
  rw [column_blindBlocks w s hs]
  simp only [countsI, List.map_map, Function.comp_def]
  apply List.map_congr_left
  intro pairs hp
  rw [countDest_blindOf w.length pairs (hd pairs hp)]
  simp only [countsI, List.map_map, Function.comp_def]
  exact getD_map_range w.length s hs (fun q => ((bucket q pairs).length : Int)) 0

theorem blindArgs_world [Inhabited α] (ldim : Nat) (w : World (List (Nat × List α)))
    (hd : ∀ pairs ∈ w, ∀ x ∈ pairs, x.1 < w.length)
    (hi : ∀ pairs ∈ w, ∀ x ∈ pairs, x.2.length = ldim) :
    ((w.map blindOf).zip (mpiAlltoall ((w.map blindOf).map fun b => countDest w.length b.proc))).map
        (fun (x : Blind α × List Int) => blindArgs ldim w.length x.1 x.2)
      = a2aWorld (blindBlocks w) (fun r => List.replicate (ldim * (delivered r w).length) default) := by
  apply List.ext_getElem
  · simp [mpiAlltoall, a2aWorld, blindBlocks]
  · intro s h1 h2
    have hs : s < w.length := by simpa [a2aWorld, blindBlocks] using h2
    have hps : w[s] ∈ w := List.getElem_mem hs
    have hds := hd _ hps
    have his := hi _ hps
    simp only [List.getElem_map, List.getElem_zip, a2aWorld, List.getElem_mapIdx, blindBlocks, mpiAlltoall,
      List.getElem_range, List.map_map, Function.comp_def, List.length_map]
    have hB := bSize_blind w hd s hs
    simp only [blindBlocks] at hB
    rw [hB]
    have hA := countDest_blindOf w.length w[s] hds
    have hAt : isum (countsI ((List.range w.length).map fun q => bucket q w[s])) = (w[s].length : Int) := by
      rw [isum_eq_sum, countsI_blindRow w.length w[s] hds]
    have hBt : isum (countsI (column s (blindBlocks w))) = ((delivered s w).length : Int) := by
      rw [isum_eq_sum, countsI_column_sum w s hs]
    simp only [blindBlocks] at hBt
    unfold blindArgs
    simp only [hA, hAt, hBt, Int.toNat_natCast]
    have hpack := pack_init ldim w.length w[s] hds his (List.replicate (ldim * w[s].length) default)
      (by rw [List.length_replicate, bucket_total w.length w[s] hds])
    rw [← hA]
    have hproc : (blindOf w[s]).proc = w[s].map fun x => (x.1 : Int) := rfl
    have hsend : (blindOf w[s]).send = (w[s].map (·.2)).flatten := rfl
    rw [hproc, hsend, hpack, ← hproc, hA]
    simp only [List.flatMap_def]

theorem blindBlocks_items (ldim : Nat) (w : World (List (Nat × List α)))
    (hi : ∀ pairs ∈ w, ∀ x ∈ pairs, x.2.length = ldim) :
    ∀ b ∈ blindBlocks w, ∀ blk ∈ b, ∀ it ∈ blk, it.length = ldim := by
  intro b hb blk hblk it hit
  simp only [blindBlocks, List.mem_map] at hb
  obtain ⟨pairs, hp, rfl⟩ := hb
  simp only [List.mem_map] at hblk
  obtain ⟨q, _, rfl⟩ := hblk
  obtain ⟨x, hx, rfl⟩ := mem_bucket q pairs it hit
  exact hi pairs hp x hx

theorem blindsend_spec [Inhabited α] (native : Bool) (ty : RefType) (hty : ty.ild = true) (maxTag : Int)
    (ldim : Nat) (w : World (List (Nat × List α)))
    (hd : ∀ pairs ∈ w, ∀ x ∈ pairs, x.1 < w.length)
    (hi : ∀ pairs ∈ w, ∀ x ∈ pairs, x.2.length = ldim)
    (hnat : native = true → (w.length : Int) * w.length ≤ maxTag)
    (hsend : native = false → ∀ pairs ∈ w, (ldim : Int) * pairs.length ≤ INT_MAX)
    (hrecv : native = false → ∀ r, r < w.length → (ldim : Int) * (delivered r w).length ≤ INT_MAX) :
    blindsend native ty maxTag ldim (w.map blindOf)
      = some ((List.range w.length).map fun r =>
          (Status.ok, ((delivered r w).length : Int), (delivered r w).flatten)) := by
  unfold blindsend
  simp only [List.length_map]
  by_cases h1 : w.length ≤ 1
  · -- the serial path: a copy
    simp only [h1, if_true, hty, List.map_map, Function.comp_def]
    match w, h1, hd, hi with
    | [], _, _, _ => rfl
    | [pairs], _, hd, hi =>
      have hd0 : ∀ x ∈ pairs, x.1 = 0 := by
        intro x hx
        have := hd pairs (List.mem_singleton.mpr rfl) x hx
        simp at this; exact this
      have hb : bucket 0 pairs = pairs.map (·.2) := by
        unfold bucket
        rw [List.filter_eq_self.mpr]
        intro x hx
        simp [hd0 x hx]
      have hlen : (pairs.map (·.2)).flatten.length = ldim * pairs.length := by
        rw [length_flatten_uniform ldim]
        · simp
        · intro it hit
          simp only [List.mem_map] at hit
          obtain ⟨x, hx, rfl⟩ := hit
          exact hi pairs (List.mem_singleton.mpr rfl) x hx
      simp only [List.map_cons, List.map_nil, List.length_singleton, List.range_one, delivered,
        List.flatMap_cons, List.flatMap_nil, List.append_nil, hb, blindOf, List.length_map]
      have hs : slice (pairs.map (·.2)).flatten 0 (ldim * pairs.length) = (pairs.map (·.2)).flatten := by
        unfold slice
        rw [List.drop_zero, ← hlen, List.take_length]
      simp [hs]
    | _ :: _ :: _, h1, _, _ => simp at h1
  · simp only [h1, if_false, hty, Bool.not_true, Bool.false_eq_true]
    have hargs := blindArgs_world ldim w hd hi
    have hzip : ((w.map blindOf).zip (mpiAlltoall ((w.map blindOf).map fun b => countDest w.length b.proc))).map
          (fun (x : Blind α × List Int) =>
            match x with
            | (b, bs) => blindArgs ldim w.length b bs)
        = a2aWorld (blindBlocks w) (fun r => List.replicate (ldim * (delivered r w).length) default) := hargs
    rw [hzip]
    have hnp : (blindBlocks w).length = w.length := by simp [blindBlocks]
    have hitem := blindBlocks_items ldim w hi
    have hrl : ∀ r, r < (blindBlocks w).length →
        (((fun r => List.replicate (ldim * (delivered r w).length) (default : α)) r).length : Int)
          = (ldim : Int) * (countsI (column r (blindBlocks w))).sum := by
      intro r hr
      rw [countsI_column_sum w r (by omega)]
      simp
    have hres : alltoallv native ty maxTag (ldim : Int)
        (a2aWorld (blindBlocks w) (fun r => List.replicate (ldim * (delivered r w).length) default))
        = some ((List.range w.length).map fun r => (Status.ok, (delivered r w).flatten)) := by
      have hcol : ∀ r, r < w.length → ((column r (blindBlocks w)).flatten).flatten = (delivered r w).flatten := by
        intro r hr
        rw [column_blindBlocks w r hr, delivered, List.flatMap_def]
      unfold alltoallv
      cases native with
      | true =>
        simp only [if_true]
        rw [alltoallvNative_spec ty (by simpa [RefType.nativeOk] using hty) maxTag ldim _ _
          (by rw [hnp]; exact hnat rfl)
          (by intro b hb
              simp only [blindBlocks, List.mem_map] at hb
              obtain ⟨pairs, _, rfl⟩ := hb
              simp [blindBlocks])
          hitem hrl, hnp]
        congr 1
        apply List.map_congr_left
        intro r hr
        rw [hcol r (List.mem_range.mp hr)]
      | false =>
        simp only [Bool.false_eq_true, if_false]
        rw [alltoallvMpi_spec ty (by cases ty <;> simp_all [RefType.ild, RefType.mpiOk]) ldim _ _ hitem hrl
          (by intro b hb
              simp only [blindBlocks, List.mem_map] at hb
              obtain ⟨pairs, hp, rfl⟩ := hb
              rw [countsI_blindRow w.length pairs (hd pairs hp)]
              exact hsend rfl pairs hp)
          (by intro r hr
              rw [countsI_column_sum w r (by omega)]
              exact hrecv rfl r (by omega)), hnp]
        congr 1
        apply List.map_congr_left
        intro r hr
        rw [hcol r (List.mem_range.mp hr)]
    rw [hres]
    simp only [Option.map_some, mpiAlltoall, List.length_map, List.map_map, Function.comp_def]
    rw [List.zip_map']
    simp only [List.map_map, Function.comp_def]
    congr 1
    apply List.map_congr_left
    intro r hr
    have hr' := List.mem_range.mp hr
    have := bSize_blind w hd r hr'
    simp only [this, isum_eq_sum, countsI_column_sum w r hr']

/-! ### the shares of `ref_mpi_balance` -/

/-- the share of rank `r` in natural numbers -/
def shareNat (total first last r : Nat) : Nat :=
  if first ≤ r ∧ r ≤ last then
    total / (last - first + 1) + (if r - first < total % (last - first + 1) then 1 else 0)
  else 0

theorem shareOf_eq (total first last r : Nat) (hfl : first ≤ last) :
    shareOf (total : Int) (first : Int) (last : Int) (r : Int) = (shareNat total first last r : Int) := by
  unfold shareOf shareNat
  have hact : (last : Int) - (first : Int) + 1 = ((last - first + 1 : Nat) : Int) := by omega
  rw [hact]
  by_cases hin : first ≤ r ∧ r ≤ last
  · have hin' : (first : Int) ≤ (r : Int) ∧ (r : Int) ≤ (last : Int) := by omega
    simp only [hin, hin', and_self, if_true]
    rw [Int.tdiv_eq_ediv_of_nonneg (by omega)]
    have hdiv : (total : Int) / ((last - first + 1 : Nat) : Int) = ((total / (last - first + 1) : Nat) : Int) := by
      norm_cast
    have hmod : (total : Int) - (total : Int) / ((last - first + 1 : Nat) : Int) * ((last - first + 1 : Nat) : Int)
        = ((total % (last - first + 1) : Nat) : Int) := by
      have := Int.ediv_mul_add_emod (total : Int) ((last - first + 1 : Nat) : Int)
      have h2 : (total : Int) % ((last - first + 1 : Nat) : Int) = ((total % (last - first + 1) : Nat) : Int) := by
        norm_cast
      omega
    rw [hmod, hdiv]
    have hmax : max (0 : Int) ((r : Int) - (first : Int)) = ((r - first : Nat) : Int) := by omega
    rw [hmax]
    by_cases hlt : r - first < total % (last - first + 1)
    · have : ((r - first : Nat) : Int) < ((total % (last - first + 1) : Nat) : Int) := by omega
      simp only [hlt, this, if_true]
      push_cast; rfl
    · have : ¬ ((r - first : Nat) : Int) < ((total % (last - first + 1) : Nat) : Int) := by omega
      simp only [hlt, this, if_false]
      push_cast; rfl
  · have hin' : ¬ ((first : Int) ≤ (r : Int) ∧ (r : Int) ≤ (last : Int)) := by omega
    simp only [hin, hin', if_false]
    have : ¬ (max (0 : Int) ((r : Int) - (first : Int)) < 0) := by omega
    simp [this]

/-- closed form of the running total of the shares -/
theorem prefSum_shareNat (total first last : Nat) (hfl : first ≤ last) (k : Nat) :
    prefSum (shareNat total first last) k
      = (min k (last + 1) - first) * (total / (last - first + 1))
        + min (min k (last + 1) - first) (total % (last - first + 1)) := by
  induction k with
  | zero => simp [prefSum]
  | succ k ih =>
    rw [prefSum_succ, ih]
    unfold shareNat
    by_cases h1 : k < first
    · have e1 : min k (last + 1) - first = 0 := by omega
      have e2 : min (k + 1) (last + 1) - first = 0 := by omega
      have hin : ¬ (first ≤ k ∧ k ≤ last) := by omega
      rw [e1, e2]
      simp only [hin, if_false, Nat.zero_mul, Nat.zero_min, Nat.add_zero]
    · by_cases h2 : k ≤ last
      · have e1 : min k (last + 1) - first = k - first := by omega
        have e2 : min (k + 1) (last + 1) - first = (k - first) + 1 := by omega
        have hin : first ≤ k ∧ k ≤ last := by omega
        rw [e1, e2]
        simp only [hin, and_self, if_true, Nat.succ_mul]
        by_cases hlt : k - first < total % (last - first + 1)
        · simp only [hlt, if_true]; omega
        · simp only [hlt, if_false]; omega
      · have e1 : min k (last + 1) - first = last + 1 - first := by omega
        have e2 : min (k + 1) (last + 1) - first = last + 1 - first := by omega
        have hin : ¬ (first ≤ k ∧ k ≤ last) := by omega
        rw [e1, e2]
        simp only [hin, if_false, Nat.add_zero]

theorem prefSum_shareNat_total (total first last np : Nat) (hfl : first ≤ last) (hl : last < np) :
    prefSum (shareNat total first last) np = total := by
  rw [prefSum_shareNat total first last hfl np]
  have e1 : min np (last + 1) - first = last - first + 1 := by omega
  rw [e1]
  have hlt : total % (last - first + 1) < last - first + 1 := Nat.mod_lt _ (by omega)
  rw [Nat.min_eq_right (by omega)]
  exact Nat.div_add_mod total (last - first + 1)


theorem shareNat_inactive (total first last r : Nat) (h : r < first ∨ last < r) : shareNat total first last r = 0 := by
  unfold shareNat
  have : ¬ (first ≤ r ∧ r ≤ last) := by omega
  simp [this]

theorem shareNat_active_diff (total first last r q : Nat) (hr : first ≤ r ∧ r ≤ last) (hq : first ≤ q ∧ q ≤ last) :
    shareNat total first last r ≤ shareNat total first last q + 1 := by
  unfold shareNat
  simp only [hr, hq, and_self, if_true]
  split <;> split <;> omega

/-! ### `find_destination` -/

theorem findDest_bounds (n : Int) (shares : List Int) (part gid : Int) (h0 : ∀ s ∈ shares, 0 ≤ s)
    (hg0 : 0 ≤ gid) (hg : gid < shares.sum) :
    part ≤ findDest n part shares gid ∧ findDest n part shares gid < part + shares.length := by
  induction shares generalizing part gid with
  | nil => simp at hg; omega
  | cons s ss ih =>
    unfold findDest
    by_cases hlt : gid < s
    · simp only [hlt, if_true, List.length_cons]
      omega
    · simp only [hlt, if_false, List.length_cons]
      simp only [List.sum_cons] at hg
      have := ih (part + 1) (gid - s) (fun x hx => h0 x (List.mem_cons_of_mem _ hx)) (by omega) (by omega)
      push_cast
      omega

/-- `find_destination` returns `r` exactly for the global ids in `[Σ_{q<r} shares, Σ_{q≤r} shares)` -/
theorem findDest_iff (n : Int) (shares : List Int) (part gid : Int) (r : Nat) (h0 : ∀ s ∈ shares, 0 ≤ s)
    (hg0 : 0 ≤ gid) (hg : gid < shares.sum) (hr : r < shares.length) :
    findDest n part shares gid = part + r
      ↔ (shares.take r).sum ≤ gid ∧ gid < (shares.take (r + 1)).sum := by
  induction shares generalizing part gid r with
  | nil => simp at hr
  | cons s ss ih =>
    have hs0 := h0 s List.mem_cons_self
    have hss0 : ∀ x ∈ ss, 0 ≤ x := fun x hx => h0 x (List.mem_cons_of_mem _ hx)
    simp only [List.sum_cons] at hg
    unfold findDest
    by_cases hlt : gid < s
    · simp only [hlt, if_true]
      cases r with
      | zero => simp [hlt, hg0]
      | succ r =>
        have hnn : 0 ≤ (ss.take r).sum := sum_nonneg_int _ (fun x hx => hss0 x (List.mem_of_mem_take hx))
        simp only [List.take_succ_cons, List.sum_cons]
        constructor
        · intro h; push_cast at h; omega
        · intro h; omega
    · simp only [hlt, if_false]
      have hb := findDest_bounds n ss (part + 1) (gid - s) hss0 (by omega) (by omega)
      cases r with
      | zero =>
        simp only [List.take_zero, List.sum_nil, List.take_succ_cons, List.sum_cons, Int.add_zero]
        constructor
        · intro h; push_cast at h; omega
        · intro h; omega
      | succ r =>
        have := ih (part + 1) (gid - s) r hss0 (by omega) (by omega) (by simpa using hr)
        simp only [List.take_succ_cons, List.sum_cons]
        have e : part + ((r + 1 : Nat) : Int) = part + 1 + (r : Int) := by omega
        rw [e, this]
        omega

/-- the shares as the `REF_INT` array the C gathers -/
def sharesI (cs : Nat → Nat) (np : Nat) : List Int := (List.range np).map fun r => (cs r : Int)

theorem sharesI_take_sum (cs : Nat → Nat) (np r : Nat) (hr : r ≤ np) :
    ((sharesI cs np).take r).sum = (prefSum cs r : Int) := by
  unfold sharesI
  rw [← List.map_take, List.take_range, Nat.min_eq_left hr, sum_range_cast]

theorem findDestination_iff (cs : Nat → Nat) (np : Nat) (k r : Nat) (hk : k < prefSum cs np) (hr : r < np) :
    findDestination np (sharesI cs np) (k : Int) = (r : Int)
      ↔ prefSum cs r ≤ k ∧ k < prefSum cs (r + 1) := by
  unfold findDestination
  have htake : (sharesI cs np).take np = sharesI cs np := by
    apply List.take_of_length_le; simp [sharesI]
  rw [htake]
  have h0 : ∀ s ∈ sharesI cs np, 0 ≤ s := by
    intro s hs
    simp only [sharesI, List.mem_map] at hs
    obtain ⟨_, _, rfl⟩ := hs; omega
  have hsum : (sharesI cs np).sum = (prefSum cs np : Int) := by
    have := sharesI_take_sum cs np np (Nat.le_refl _)
    rwa [List.take_of_length_le (by simp [sharesI])] at this
  have := findDest_iff (np : Int) (sharesI cs np) 0 (k : Int) r h0 (by omega) (by rw [hsum]; omega)
    (by simpa [sharesI] using hr)
  rw [Int.zero_add] at this
  rw [this, sharesI_take_sum cs np r (by omega), sharesI_take_sum cs np (r + 1) (by omega)]
  omega

theorem findDestination_range (cs : Nat → Nat) (np : Nat) (k : Nat) (hk : k < prefSum cs np) :
    0 ≤ findDestination np (sharesI cs np) (k : Int) ∧ findDestination np (sharesI cs np) (k : Int) < np := by
  unfold findDestination
  have htake : (sharesI cs np).take np = sharesI cs np := by
    apply List.take_of_length_le; simp [sharesI]
  rw [htake]
  have h0 : ∀ s ∈ sharesI cs np, 0 ≤ s := by
    intro s hs
    simp only [sharesI, List.mem_map] at hs
    obtain ⟨_, _, rfl⟩ := hs; omega
  have hsum : (sharesI cs np).sum = (prefSum cs np : Int) := by
    have := sharesI_take_sum cs np np (Nat.le_refl _)
    rwa [List.take_of_length_le (by simp [sharesI])] at this
  have := findDest_bounds (np : Int) (sharesI cs np) 0 (k : Int) h0 (by omega) (by rw [hsum]; omega)
  simp only [sharesI, List.length_map, List.length_range] at this ⊢
  omega

/-! ### global numbering of the items of `ref_mpi_balance` -/

/-- the elements whose index lies in `[a, b)` form a contiguous run -/
theorem filter_interval {β : Type} (G : List β) (j0 a b : Nat) :
    ((G.zipIdx j0).filter (fun x => decide (a ≤ x.2 ∧ x.2 < b))).map (·.1)
      = (G.drop (a - j0)).take (b - max a j0) := by
  induction G generalizing j0 with
  | nil => simp
  | cons x xs ih =>
    rw [List.zipIdx_cons, List.filter_cons]
    by_cases hin : a ≤ j0 ∧ j0 < b
    · simp only [hin, and_self, decide_true, if_true, List.map_cons]
      rw [ih (j0 + 1)]
      have e1 : a - j0 = 0 := by omega
      have e2 : a - (j0 + 1) = 0 := by omega
      have e3 : b - max a j0 = (b - max a (j0 + 1)) + 1 := by omega
      rw [e1, e2, e3]
      simp
    · simp only [hin, decide_false, Bool.false_eq_true, if_false]
      rw [ih (j0 + 1)]
      by_cases hlt : j0 < a
      · have e1 : a - j0 = (a - (j0 + 1)) + 1 := by omega
        have e2 : max a (j0 + 1) = max a j0 := by omega
        rw [e1, e2, List.drop_succ_cons]
      · have e1 : b - max a j0 = 0 := by omega
        have e2 : b - max a (j0 + 1) = 0 := by omega
        rw [e1, e2]; simp

theorem bucket_flatMap (r : Nat) (w : List (List (Nat × List α))) : w.flatMap (bucket r) = bucket r w.flatten := by
  induction w with
  | nil => simp [bucket]
  | cons x xs ih =>
    simp only [List.flatMap_cons, List.flatten_cons, ih]
    simp [bucket, List.filter_append]

/-- numbering the items rank by rank, each rank starting at the number of items before it, is numbering the
    concatenation -/
theorem flatten_mapIdx_zipIdx {β γ : Type} (g : β × Nat → γ) (L : List (List β)) (j0 : Nat) :
    (L.mapIdx (fun r l => (l.zipIdx (j0 + ((L.take r).flatten).length)).map g)).flatten
      = ((L.flatten).zipIdx j0).map g := by
  induction L generalizing j0 with
  | nil => simp
  | cons l L ih =>
    rw [List.mapIdx_cons]
    have hcongr : (List.mapIdx (fun i l' => (l'.zipIdx (j0 + (((l :: L).take (i + 1)).flatten).length)).map g) L)
        = (List.mapIdx (fun i l' => (l'.zipIdx ((j0 + l.length) + ((L.take i).flatten).length)).map g) L) := by
      apply List.ext_getElem
      · simp
      · intro i h1 h2
        simp only [List.getElem_mapIdx, List.take_succ_cons, List.flatten_cons, List.length_append]
        rw [Nat.add_assoc]
    rw [hcongr, List.flatten_cons, ih (j0 + l.length)]
    simp [List.zipIdx_append]

/-! ### `ref_mpi_balance`, world level -/

/-- the `ref_mpi_balance` arguments of a world in which rank `r` holds the items `ws[r]` -/
def balanceIn (ws : World (List (List α))) : World (Nat × List α) :=
  ws.map fun its => (its.length, its.flatten)

/-- what rank `r` holds afterwards: the `r`-th run of the concatenation, runs as long as the shares -/
def balanced (first last : Nat) (ws : World (List (List α))) (r : Nat) : List (List α) :=
  slice ws.flatten (prefSum (shareNat ws.flatten.length first last) r) (shareNat ws.flatten.length first last r)

/-- destination (as a natural number) of the item with global number `k` -/
def fdN (first last : Nat) (ws : World (List (List α))) (k : Nat) : Nat :=
  (findDestination ws.length (sharesI (shareNat ws.flatten.length first last) ws.length) (k : Int)).toNat

/-- the `(destination, item)` pairs rank by rank -/
def balancePairs (first last : Nat) (ws : World (List (List α))) : World (List (Nat × List α)) :=
  ws.mapIdx fun r its =>
    (its.zipIdx (0 + ((ws.take r).flatten).length)).map fun x => (fdN first last ws x.2, x.1)

theorem take_flatten_le {β : Type} (L : List (List β)) (r : Nat) (hr : r < L.length) :
    ((L.take r).flatten).length + L[r].length ≤ L.flatten.length := by
  have h1 : L.take (r + 1) = L.take r ++ [L[r]] := List.take_succ_eq_append_getElem hr
  have h2 : L = L.take (r + 1) ++ L.drop (r + 1) := (List.take_append_drop _ _).symm
  have h3 : L.flatten.length = ((L.take (r + 1)).flatten).length + ((L.drop (r + 1)).flatten).length := by
    conv => lhs; rw [h2]
    rw [List.flatten_append, List.length_append]
  rw [h3, h1, List.flatten_append, List.length_append]
  simp only [List.flatten_cons, List.flatten_nil, List.append_nil]
  omega

theorem balanced_length (first last : Nat) (ws : World (List (List α))) (hfl : first ≤ last) (hl : last < ws.length)
    (r : Nat) (hr : r < ws.length) :
    (balanced first last ws r).length = shareNat ws.flatten.length first last r := by
  unfold balanced slice
  rw [List.length_take, List.length_drop]
  have h1 := prefSum_mono (shareNat ws.flatten.length first last) (r + 1) ws.length (by omega)
  rw [prefSum_succ, prefSum_shareNat_total _ first last ws.length hfl hl] at h1
  omega

theorem balancePairs_delivered (first last : Nat) (ws : World (List (List α))) (hfl : first ≤ last)
    (hl : last < ws.length) (r : Nat) (hr : r < ws.length) :
    delivered r (balancePairs first last ws) = balanced first last ws r := by
  unfold delivered balancePairs
  rw [bucket_flatMap, flatten_mapIdx_zipIdx (fun x => (fdN first last ws x.2, x.1)) ws 0]
  unfold bucket
  rw [List.filter_map, List.map_map]
  have hpred : (ws.flatten.zipIdx 0).filter ((fun x => x.1 == r) ∘ fun x => (fdN first last ws x.2, x.1))
      = (ws.flatten.zipIdx 0).filter (fun x => decide
          (prefSum (shareNat ws.flatten.length first last) r ≤ x.2
            ∧ x.2 < prefSum (shareNat ws.flatten.length first last) (r + 1))) := by
    apply List.filter_congr
    intro x hx
    obtain ⟨it, k⟩ := x
    have hk := (List.mem_zipIdx hx).2.1
    have hk' : k < prefSum (shareNat ws.flatten.length first last) ws.length := by
      rw [prefSum_shareNat_total _ first last ws.length hfl hl]; omega
    have hiff := findDestination_iff (shareNat ws.flatten.length first last) ws.length k r hk' hr
    have hrg := findDestination_range (shareNat ws.flatten.length first last) ws.length k hk'
    simp only [Function.comp, fdN]
    by_cases hc : prefSum (shareNat ws.flatten.length first last) r ≤ k
        ∧ k < prefSum (shareNat ws.flatten.length first last) (r + 1)
    · have := hiff.mpr hc
      have e : (findDestination ws.length (sharesI (shareNat ws.flatten.length first last) ws.length)
          (k : Int)).toNat = r := by omega
      rw [e, beq_self_eq_true, decide_eq_true hc]
    · have hne : findDestination ws.length (sharesI (shareNat ws.flatten.length first last) ws.length) (k : Int)
          ≠ (r : Int) := fun h => hc (hiff.mp h)
      have : ¬ ((findDestination ws.length (sharesI (shareNat ws.flatten.length first last) ws.length)
          (k : Int)).toNat = r) := by omega
      rw [decide_eq_false hc]
      exact beq_eq_false_iff_ne.mpr this
  rw [hpred]
  have := filter_interval ws.flatten 0 (prefSum (shareNat ws.flatten.length first last) r)
    (prefSum (shareNat ws.flatten.length first last) (r + 1))
  simp only [Function.comp_def]
  rw [this, prefSum_succ]
  unfold balanced slice
  congr 1 <;> omega

theorem balance_blind_world (first last : Nat) (ws : World (List (List α))) (hfl : first ≤ last)
    (hl : last < ws.length) :
    (balanceIn ws).mapIdx (fun r x =>
        (⟨destinations (balanceIn ws).length
            ((balanceIn ws).mapIdx fun r _ =>
              shareOf (isum ((balanceIn ws).map fun x => (x.1 : Int))) (first : Int) (last : Int) (r : Int))
            (isum (((balanceIn ws).map fun x => (x.1 : Int)).take r)) x.1, x.2⟩ : Blind α))
      = (balancePairs first last ws).map blindOf := by
  have hhaves : ((balanceIn ws).map fun x => (x.1 : Int)) = countsI ws := by
    simp [balanceIn, countsI, List.map_map, Function.comp_def]
  have htotal : isum (countsI ws) = (ws.flatten.length : Int) := by
    rw [isum_eq_sum, countsI_sum_eq_length]
  have hlen : (balanceIn ws).length = ws.length := by simp [balanceIn]
  have hshares : ((balanceIn ws).mapIdx fun r _ =>
        shareOf (isum ((balanceIn ws).map fun x => (x.1 : Int))) (first : Int) (last : Int) (r : Int))
      = sharesI (shareNat ws.flatten.length first last) ws.length := by
    rw [hhaves, htotal]
    apply List.ext_getElem
    · simp [sharesI, balanceIn]
    · intro r h1 h2
      simp only [List.getElem_mapIdx, sharesI, List.getElem_map, List.getElem_range]
      exact shareOf_eq ws.flatten.length first last r hfl
  rw [hshares, hhaves, hlen]
  apply List.ext_getElem
  · simp [balanceIn, balancePairs]
  · intro r h1 h2
    have hr : r < ws.length := by simpa [balanceIn] using h1
    simp only [List.getElem_mapIdx, List.getElem_map, balanceIn, balancePairs, blindOf, List.map_map,
      Function.comp_def]
    have hoff : isum ((countsI ws).take r) = (((ws.take r).flatten).length : Int) := by
      rw [isum_eq_sum]
      have : (countsI ws).take r = countsI (ws.take r) := by simp [countsI, List.map_take]
      rw [this, countsI_sum_eq_length]
    have hle := take_flatten_le ws r hr
    have htot := prefSum_shareNat_total ws.flatten.length first last ws.length hfl hl
    congr 1
    · -- destinations
      unfold destinations
      apply List.ext_getElem
      · simp
      · intro i hi1 hi2
        have hi : i < ws[r].length := by simpa using hi1
        simp only [List.getElem_map, List.getElem_range, List.getElem_zipIdx, hoff, fdN]
        have hk : ((ws.take r).flatten).length + i < prefSum (shareNat ws.flatten.length first last) ws.length := by
          rw [htot]; omega
        have hrg := findDestination_range (shareNat ws.flatten.length first last) ws.length
          (((ws.take r).flatten).length + i) hk
        have e : (((ws.take r).flatten).length : Int) + (i : Int)
            = ((((ws.take r).flatten).length + i : Nat) : Int) := by push_cast; rfl
        rw [e, Nat.zero_add]
        omega
    · -- the flat item buffer
      have : (ws[r].zipIdx (0 + ((ws.take r).flatten).length)).map (fun x => x.1) = ws[r] :=
        List.zipIdx_map_fst _ _
      rw [this]

theorem length_le_flatten_of_mem {β : Type} (L : List (List β)) (l : List β) (h : l ∈ L) :
    l.length ≤ L.flatten.length := by
  obtain ⟨i, hi, rfl⟩ := List.mem_iff_getElem.mp h
  have := take_flatten_le L i hi
  omega

theorem balance_eq [Inhabited α] (native : Bool) (ty : RefType) (hty : ty.ild = true) (maxTag : Int)
    (ldim : Nat) (first last : Nat) (ws : World (List (List α)))
    (hfl : first ≤ last) (hl : last < ws.length)
    (hi : ∀ its ∈ ws, ∀ it ∈ its, it.length = ldim)
    (hnat : native = true → (ws.length : Int) * ws.length ≤ maxTag)
    (hrange : native = false → (ldim : Int) * ws.flatten.length ≤ INT_MAX) :
    balance native ty maxTag ldim (first : Int) (last : Int) (balanceIn ws)
      = some ((List.range ws.length).map fun r =>
          (Status.ok, ((balanced first last ws r).length : Int), (balanced first last ws r).flatten)) := by
  unfold balance
  simp only []
  rw [balance_blind_world first last ws hfl hl]
  have hplen : (balancePairs first last ws).length = ws.length := by simp [balancePairs]
  have htot := prefSum_shareNat_total ws.flatten.length first last ws.length hfl hl
  have hmem : ∀ pairs ∈ balancePairs first last ws, ∃ r, ∃ hr : r < ws.length,
      pairs = (ws[r].zipIdx (0 + ((ws.take r).flatten).length)).map fun x => (fdN first last ws x.2, x.1) := by
    intro pairs hp
    obtain ⟨r, hr, rfl⟩ := List.mem_iff_getElem.mp hp
    have hr' : r < ws.length := by simpa [balancePairs] using hr
    exact ⟨r, hr', by simp [balancePairs]⟩
  have hspec := blindsend_spec native ty hty maxTag ldim (balancePairs first last ws)
    (by
      intro pairs hp x hx
      obtain ⟨r, hr, rfl⟩ := hmem pairs hp
      simp only [List.mem_map] at hx
      obtain ⟨⟨it, k⟩, hk, rfl⟩ := hx
      have hk2 := (List.mem_zipIdx hk).2.1
      have hle := take_flatten_le ws r hr
      have hk' : k < prefSum (shareNat ws.flatten.length first last) ws.length := by rw [htot]; omega
      have := findDestination_range (shareNat ws.flatten.length first last) ws.length k hk'
      simp only [fdN, hplen]
      omega)
    (by
      intro pairs hp x hx
      obtain ⟨r, hr, rfl⟩ := hmem pairs hp
      simp only [List.mem_map] at hx
      obtain ⟨⟨it, k⟩, hk, rfl⟩ := hx
      have hit := (List.mem_zipIdx hk).2.2
      simp only
      rw [hit]
      exact hi ws[r] (List.getElem_mem hr) _ (List.getElem_mem _))
    (by rw [hplen]; exact hnat)
    (by
      intro hn pairs hp
      obtain ⟨r, hr, rfl⟩ := hmem pairs hp
      have h1 := length_le_flatten_of_mem ws ws[r] (List.getElem_mem hr)
      have h2 := hrange hn
      simp only [List.length_map, List.length_zipIdx]
      have h3 : (ldim : Int) * (ws[r].length : Int) ≤ (ldim : Int) * (ws.flatten.length : Int) :=
        Int.mul_le_mul_of_nonneg_left (by omega) (by omega)
      omega)
    (by
      intro hn r hr
      rw [hplen] at hr
      rw [balancePairs_delivered first last ws hfl hl r hr, balanced_length first last ws hfl hl r hr]
      have h2 := hrange hn
      have h1 : shareNat ws.flatten.length first last r ≤ ws.flatten.length := by
        have := prefSum_mono (shareNat ws.flatten.length first last) (r + 1) ws.length (by omega)
        rw [prefSum_succ, htot] at this
        omega
      have h3 : (ldim : Int) * (shareNat ws.flatten.length first last r : Int) ≤ (ldim : Int) * (ws.flatten.length : Int) :=
        Int.mul_le_mul_of_nonneg_left (by omega) (by omega)
      omega)
  have hblen : (balanceIn ws).length = ws.length := by simp [balanceIn]
  rw [hblen] at *
  rw [hspec, hplen]
  have hhaves : ((balanceIn ws).map fun x => (x.1 : Int)) = countsI ws := by
    simp [balanceIn, countsI, List.map_map, Function.comp_def]
  have htotal : isum (countsI ws) = (ws.flatten.length : Int) := by
    rw [isum_eq_sum, countsI_sum_eq_length]
  have hshares : ((balanceIn ws).mapIdx fun r _ =>
        shareOf (isum ((balanceIn ws).map fun x => (x.1 : Int))) (first : Int) (last : Int) (r : Int))
      = (List.range ws.length).map fun r => (shareNat ws.flatten.length first last r : Int) := by
    rw [hhaves, htotal]
    apply List.ext_getElem
    · simp [balanceIn]
    · intro r h1 h2
      simp only [List.getElem_mapIdx, List.getElem_map, List.getElem_range]
      exact shareOf_eq ws.flatten.length first last r hfl
  rw [hshares]
  simp only [Option.map_some]
  rw [List.zip_map']
  simp only [List.map_map, Function.comp_def]
  congr 1
  apply List.map_congr_left
  intro r hr
  have hr' := List.mem_range.mp hr
  rw [balancePairs_delivered first last ws hfl hl r hr', balanced_length first last ws hfl hl r hr']
  simp

/-! ### `ref_mpi_allgatherv`, `ref_mpi_allconcat` -/

theorem gathervLoop_spec (C : List Int) (srcs : List (GatherV α)) (hC : ∀ src ∈ srcs, src.counts = C) (s : Nat)
    (hlen : lensI (srcs.map (·.localArr)) = C.drop s) (pre rest : List α) (acc : Int)
    (hacc : acc = (pre.length : Int)) (hrest : (rest.length : Int) = (C.drop s).sum) :
    gathervLoop s srcs (C.drop s) (displsFrom acc (C.drop s)) (pre ++ rest)
      = some (pre ++ (srcs.map (·.localArr)).flatten) := by
  induction srcs generalizing s pre rest acc with
  | nil =>
    simp only [List.map_nil, lensI] at hlen
    rw [← hlen] at hrest
    simp only [List.sum_nil] at hrest
    have : rest = [] := List.eq_nil_of_length_eq_zero (by omega)
    simp [gathervLoop, this]
  | cons src srcs ih =>
    simp only [lensI, List.map_cons] at hlen
    have hs : s < C.length := by
      have h := congrArg List.length hlen
      simp only [List.length_cons, List.length_drop] at h
      omega
    have hdrop := List.drop_eq_getElem_cons hs
    rw [hdrop] at hlen hrest ⊢
    simp only [List.cons.injEq] at hlen
    obtain ⟨hl1, hl2⟩ := hlen
    have hcs : src.counts = C := hC src List.mem_cons_self
    have hget : src.counts.getD s 0 = C[s] := by
      rw [hcs, List.getD_eq_getElem?_getD, List.getElem?_eq_getElem hs]; rfl
    simp only [List.sum_cons] at hrest
    have hsum0 : 0 ≤ (C.drop (s + 1)).sum := by
      rw [← hl2]; apply sum_nonneg_int; intro x hx
      simp only [List.mem_map] at hx
      obtain ⟨_, _, rfl⟩ := hx; omega
    simp only [displsFrom, gathervLoop, hget, Int.le_refl, if_true]
    have htake : src.localArr.take (C[s]).toNat = src.localArr := by
      apply List.take_of_length_le; omega
    rw [htake]
    have hsplit : rest = rest.take src.localArr.length ++ rest.drop src.localArr.length :=
      (List.take_append_drop _ _).symm
    have htl : (rest.take src.localArr.length).length = src.localArr.length := by
      rw [List.length_take]; omega
    have hw : writeAt (pre ++ rest) acc.toNat src.localArr
        = pre ++ src.localArr ++ rest.drop src.localArr.length := by
      conv => lhs; rw [hsplit, ← List.append_assoc]
      exact writeAt_mid pre _ _ _ _ (by omega) htl
    rw [hw, ih (fun x hx => hC x (List.mem_cons_of_mem _ hx)) (s + 1) hl2 (pre ++ src.localArr)
      (rest.drop src.localArr.length) (acc + C[s]) (by simp only [List.length_append]; omega)
      (by rw [List.length_drop]; omega)]
    simp [List.append_assoc]

/-- the world in which rank `r` contributes `locals[r]`, every rank passes the same (true) counts and a receive
    buffer `recv0 r` -/
def gathervWorld (locals : World (List α)) (recv0 : Nat → List α) : World (GatherV α) :=
  locals.mapIdx fun r l => ⟨l, lensI locals, recv0 r⟩

theorem lensI_sum (L : List (List α)) : (lensI L).sum = (L.flatten.length : Int) := by
  induction L with
  | nil => simp [lensI]
  | cons l L ih =>
    simp only [lensI, List.map_cons, List.sum_cons, List.flatten_cons, List.length_append] at ih ⊢
    rw [ih]; push_cast; rfl

theorem allgatherv_eq (ty : RefType) (hty : ty.ild = true) (locals : World (List α)) (recv0 : Nat → List α)
    (hrecv : ∀ r, r < locals.length → (recv0 r).length = locals.flatten.length) :
    allgatherv ty (gathervWorld locals recv0) = some (locals.map fun _ => (Status.ok, locals.flatten)) := by
  have hmpi : ty.mpiOk = true := by cases ty <;> simp_all [RefType.ild, RefType.mpiOk]
  unfold allgatherv
  simp only [hmpi, Bool.not_true, Bool.false_eq_true, if_false, hty, if_true]
  have hwl : (gathervWorld locals recv0).length = locals.length := by simp [gathervWorld]
  by_cases h1 : locals.length ≤ 1
  · simp only [hwl, h1, if_true]
    match locals, h1, hrecv with
    | [], _, _ => rfl
    | [l], _, hrecv =>
      have hr := hrecv 0 (by simp)
      simp only [List.flatten_cons, List.flatten_nil, List.append_nil] at hr
      simp only [gathervWorld, List.mapIdx_cons, List.mapIdx_nil, List.map_cons, List.map_nil, lensI,
        List.getD_cons_zero, Int.toNat_natCast, List.take_length, List.flatten_cons, List.flatten_nil,
        List.append_nil]
      have : writeAt (recv0 0) 0 l = l := by
        have := writeAt_mid [] (recv0 0) [] l 0 rfl hr
        simpa using this
      rw [this]
    | _ :: _ :: _, h1, _ => simp at h1
  · simp only [hwl, h1, if_false]
    have hloop : (gathervWorld locals recv0).map
          (fun me => gathervLoop 0 (gathervWorld locals recv0) me.counts (displs me.counts) me.recv)
        = (locals.map fun _ => locals.flatten).map some := by
      apply List.ext_getElem
      · simp [gathervWorld]
      · intro r h1 h2
        have hr : r < locals.length := by simpa [gathervWorld] using h1
        simp only [List.getElem_map, gathervWorld, List.getElem_mapIdx]
        have hloc : (locals.mapIdx fun r l => (⟨l, lensI locals, recv0 r⟩ : GatherV α)).map (·.localArr) = locals := by
          apply List.ext_getElem
          · simp
          · intro i _ _; simp
        have := gathervLoop_spec (lensI locals) (locals.mapIdx fun r l => (⟨l, lensI locals, recv0 r⟩ : GatherV α))
          (by intro src hsrc
              obtain ⟨i, hi, rfl⟩ := List.mem_iff_getElem.mp hsrc
              simp)
          0 (by rw [hloc]; rfl) [] (recv0 r) 0 (by simp)
          (by rw [List.drop_zero, lensI_sum, hrecv r hr])
        simp only [List.drop_zero, List.nil_append, hloc] at this
        unfold displs
        rw [this]
    rw [hloop, allSome_map_some]
    simp [List.map_map, Function.comp_def]

theorem sourceOf_eq {β : Type} (p : Int) (ws : List (List β)) :
    sourceOf p (countsI ws) = (ws.mapIdx fun r its => List.replicate its.length (p + (r : Int))).flatten := by
  induction ws generalizing p with
  | nil => simp [countsI, sourceOf]
  | cons its ws ih =>
    simp only [countsI, List.map_cons, sourceOf, Int.toNat_natCast, List.mapIdx_cons, List.flatten_cons,
      Int.natCast_zero, Int.add_zero]
    have := ih (p + 1)
    simp only [countsI] at this
    rw [this]
    congr 2
    apply List.ext_getElem
    · simp
    · intro i _ _
      simp only [List.getElem_mapIdx]
      congr 1
      push_cast; omega

theorem allconcat_eq [Inhabited α] (ty : RefType) (hty : ty.id = true) (ldim : Nat) (ws : World (List (List α)))
    (hi : ∀ its ∈ ws, ∀ it ∈ its, it.length = ldim) :
    allconcat ty ldim (balanceIn ws)
      = some (ws.map fun _ =>
          (Status.ok, (ws.flatten.length : Int),
            (ws.mapIdx fun r its => List.replicate its.length (r : Int)).flatten, ws.flatten.flatten)) := by
  have hild : ty.ild = true := by cases ty <;> simp_all [RefType.ild, RefType.id]
  unfold allconcat
  have hcounts : ((balanceIn ws).map fun x => (x.1 : Int)) = countsI ws := by
    simp [balanceIn, countsI, List.map_map, Function.comp_def]
  have htotal : isum (countsI ws) = (ws.flatten.length : Int) := by
    rw [isum_eq_sum, countsI_sum_eq_length]
  simp only [hcounts, htotal, hty, Bool.not_true, Bool.false_eq_true, if_false, Int.toNat_natCast]
  have hargs : (balanceIn ws).map (fun x =>
        (⟨x.2, (countsI ws).map (fun c => c * (ldim : Int)),
          List.replicate (ldim * ws.flatten.length) default⟩ : GatherV α))
      = gathervWorld (ws.map List.flatten) (fun _ => List.replicate (ldim * ws.flatten.length) default) := by
    have hl : (countsI ws).map (fun c => c * (ldim : Int)) = lensI (ws.map List.flatten) := by
      simp only [countsI, lensI, List.map_map, Function.comp_def]
      apply List.map_congr_left
      intro its hits
      rw [length_flatten_uniform ldim its (hi its hits)]
      push_cast; rw [Int.mul_comm]
    rw [hl]
    apply List.ext_getElem
    · simp [balanceIn, gathervWorld]
    · intro r _ _
      simp [balanceIn, gathervWorld]
  rw [hargs]
  have hflat : (ws.map List.flatten).flatten = ws.flatten.flatten := List.flatten_flatten.symm
  have hGitems : ∀ it ∈ ws.flatten, it.length = ldim := by
    intro it hit
    obtain ⟨its, hits, hmem⟩ := List.mem_flatten.mp hit
    exact hi its hits it hmem
  rw [allgatherv_eq ty hild _ _ (by
    intro r _
    rw [hflat, length_flatten_uniform ldim _ hGitems]
    simp)]
  rw [hflat]
  have hsrc := sourceOf_eq 0 ws
  simp only [Int.zero_add] at hsrc
  simp [hsrc, List.map_map, Function.comp_def]

/-! ### exact characterisation of the guards of `ref_mpi_alltoallv` -/

/-- a value outside the `int` range -/
def OutOfInt (v : Int) : Prop := v > INT_MAX ∨ v < INT_MIN

theorem intMultipliable_false_iff (a b : Int) : intMultipliable a b = false ↔ OutOfInt (a * b) := by
  unfold intMultipliable OutOfInt
  by_cases h1 : a * b ≤ INT_MAX <;> by_cases h2 : INT_MIN ≤ a * b <;> simp [h1, h2] <;> omega

theorem intAddable_false_iff (a b : Int) : intAddable a b = false ↔ OutOfInt (a + b) := by
  unfold intAddable OutOfInt
  by_cases h1 : a + b ≤ INT_MAX <;> by_cases h2 : INT_MIN ≤ a + b <;> simp [h1, h2] <;> omega

/-- the size loop returns `REF_FAILURE` exactly when a size is negative or `n * size` leaves the `int` range -/
theorem sizeN_eq_none_iff (n : Int) (xs : List Int) :
    sizeN n xs = none ↔ ∃ x ∈ xs, x < 0 ∨ OutOfInt (n * x) := by
  induction xs with
  | nil => simp [sizeN]
  | cons x xs ih =>
    unfold sizeN
    by_cases hx : 0 ≤ x
    · cases hm : intMultipliable n x with
      | true =>
        have hnot : ¬ OutOfInt (n * x) := by
          intro h; rw [← intMultipliable_false_iff] at h; rw [hm] at h; cases h
        simp only [hx, decide_true, Bool.and_self, if_true, Option.map_eq_none_iff, ih, List.mem_cons,
          exists_eq_or_imp]
        constructor
        · intro h; exact Or.inr h
        · rintro (h | h)
          · rcases h with h | h
            · omega
            · exact absurd h hnot
          · exact h
      | false =>
        have := (intMultipliable_false_iff n x).mp hm
        simp only [hx, decide_true, Bool.and_false, Bool.false_eq_true, if_false, List.mem_cons, exists_eq_or_imp,
          true_iff]
        exact Or.inl (Or.inr this)
    · simp only [hx, decide_false, Bool.false_and, Bool.false_eq_true, if_false, List.mem_cons, exists_eq_or_imp,
        true_iff]
      exact Or.inl (Or.inl (by omega))

/-- the displacement loop returns `REF_FAILURE` exactly when one of the partial sums it forms
    (`disp[k+1] = acc + size[0] + … + size[k]`, `k + 1 < np`: the last size is never added) leaves the `int` range -/
theorem dispGuard_eq_none_iff (acc : Int) (xs : List Int) :
    dispGuard acc xs = none ↔ ∃ k, k + 1 < xs.length ∧ OutOfInt (acc + (xs.take (k + 1)).sum) := by
  induction xs generalizing acc with
  | nil => simp [dispGuard]
  | cons x xs ih =>
    cases xs with
    | nil => simp [dispGuard]
    | cons y ys =>
      unfold dispGuard
      cases ha : intAddable acc x with
      | false =>
        have := (intAddable_false_iff acc x).mp ha
        simp only [Bool.false_eq_true, if_false, true_iff]
        exact ⟨0, by simp, by simpa using this⟩
      | true =>
        have hnot : ¬ OutOfInt (acc + x) := by
          intro h; rw [← intAddable_false_iff] at h; rw [ha] at h; cases h
        simp only [if_true, Option.map_eq_none_iff, ih (acc + x)]
        constructor
        · rintro ⟨k, hk, ho⟩
          refine ⟨k + 1, by simpa using hk, ?_⟩
          simp only [List.take_succ_cons, List.sum_cons] at ho ⊢
          rw [← Int.add_assoc]; exact ho
        · rintro ⟨k, hk, ho⟩
          cases k with
          | zero =>
            simp only [Nat.zero_add, List.take_succ_cons, List.take_zero, List.sum_cons, List.sum_nil,
              Int.add_zero] at ho
            exact absurd ho hnot
          | succ k =>
            refine ⟨k, by simpa using hk, ?_⟩
            simp only [List.take_succ_cons, List.sum_cons] at ho ⊢
            rw [Int.add_assoc]; exact ho

/-- the tag scheme `n * receiver + sender` of the native variant names every (receiver, sender) pair once -/
theorem native_tag_injective (np r s r' s' : Nat) (hs : s < np) (hs' : s' < np)
    (h : np * r + s = np * r' + s') : r = r' ∧ s = s' := by
  have hpos : 0 < np := by omega
  have h1 : (np * r + s) / np = r := by
    rw [Nat.mul_add_div hpos, Nat.div_eq_of_lt hs]; rfl
  have h2 : (np * r' + s') / np = r' := by
    rw [Nat.mul_add_div hpos, Nat.div_eq_of_lt hs']; rfl
  have h3 : (np * r + s) % np = s := by rw [Nat.mul_add_mod, Nat.mod_eq_of_lt hs]
  have h4 : (np * r' + s') % np = s' := by rw [Nat.mul_add_mod, Nat.mod_eq_of_lt hs']
  constructor
  · rw [← h1, ← h2, h]
  · rw [← h3, ← h4, h]

end Refine.Lemmas.Comm
