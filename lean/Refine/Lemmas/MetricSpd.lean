import Refine.Lemmas.MetricScale
import Refine.Lemmas.MatrixFun
import Refine.Lemmas.MatrixQL
import Mathlib.Analysis.SpecialFunctions.Pow.Real
import Mathlib.Tactic.Ring
import Mathlib.Tactic.Linarith
import Mathlib.Tactic.Positivity

/-!
  Positive definiteness through the stages of the multiscale metric, in exact arithmetic.
  `SPD m` is the quadratic-form statement `xᵀ m x > 0` for every non-zero `x`.
-/
namespace Refine.Model.Metric
open Refine Refine.Scalar Refine.ScalarReal Refine.Model.Matrix

/-- `xᵀ m x > 0` for every non-zero x -/
def SPD (m : M6 ℝ) : Prop := ∀ x : Vec3 ℝ, (x.x ≠ 0 ∨ x.y ≠ 0 ∨ x.z ≠ 0) → 0 < vtMv m x

/-- `xᵀ m x ≥ 0` for every x -/
def PSD (m : M6 ℝ) : Prop := ∀ x : Vec3 ℝ, 0 ≤ vtMv m x

theorem vtMv_scaleM (m : M6 ℝ) (s : ℝ) (x : Vec3 ℝ) : vtMv (scaleM m s) x = s * vtMv m x := by
  simp only [vtMv, scaleM, mul_eq, add_eq]; ring

theorem scaleM_spd {m : M6 ℝ} {s : ℝ} (hs : 0 < s) (h : SPD m) : SPD (scaleM m s) := by
  intro x hx; rw [vtMv_scaleM]; exact mul_pos hs (h x hx)

theorem vtMv_twodM (m : M6 ℝ) (x : Vec3 ℝ) :
    vtMv (twodM m) x = vtMv m ⟨x.x, x.y, 0⟩ + x.z * x.z := by
  simp only [vtMv, twodM, mul_eq, add_eq, ofInt_eq, Int.cast_zero, Int.cast_one]; ring

/-- the planar embedding of a metric whose 2x2 block is positive definite is positive definite -/
theorem twodM_spd_of_block {m : M6 ℝ}
    (h : ∀ x y : ℝ, (x ≠ 0 ∨ y ≠ 0) → 0 < vtMv m ⟨x, y, 0⟩) : SPD (twodM m) := by
  intro x hx
  rw [vtMv_twodM]
  by_cases hxy : x.x ≠ 0 ∨ x.y ≠ 0
  · have := h x.x x.y hxy
    nlinarith [mul_self_nonneg x.z]
  · rw [not_or, not_not, not_not] at hxy
    have hz : x.z ≠ 0 := by
      rcases hx with h | h | h
      · exact absurd hxy.1 h
      · exact absurd hxy.2 h
      · exact h
    have h0 : vtMv m ⟨x.x, x.y, 0⟩ = 0 := by
      rw [hxy.1, hxy.2]; simp only [vtMv, mul_eq, add_eq]; ring
    rw [h0, zero_add]
    exact mul_self_pos.mpr hz

theorem twodM_spd {m : M6 ℝ} (h : SPD m) : SPD (twodM m) :=
  twodM_spd_of_block (fun x y hxy => h ⟨x, y, 0⟩ (by
    rcases hxy with h | h
    · exact Or.inl h
    · exact Or.inr (Or.inl h)))

theorem twodM_embedded (m : M6 ℝ) : IsEmbedded (twodM m) := by
  unfold IsEmbedded twodM
  simp only [ofInt_eq, Int.cast_zero, Int.cast_one, and_self]

theorem rescaleNode_true_embedded (s : ℝ) (m : M6 ℝ) : IsEmbedded (rescaleNode true s m) := by
  unfold rescaleNode embed2d
  simp only [if_true]
  exact twodM_embedded _

/-- the rescale step of `ref_metric_set_complexity` keeps SPD (3-D and 2-D) -/
theorem rescaleNode_spd (twod : Bool) {s : ℝ} (hs : 0 < s) {m : M6 ℝ} (h : SPD m) : SPD (rescaleNode twod s m) := by
  unfold rescaleNode embed2d
  cases twod
  · simp only [Bool.false_eq_true, if_false]; exact scaleM_spd hs h
  · simp only [if_true]; exact twodM_spd (scaleM_spd hs h)

/-- the Lp normalisation keeps SPD: the factor `det^(-1/(2p+d))` is a positive real, or the tensor is left alone -/
theorem localScaleNode_spd (e : ℝ) {m : M6 ℝ} (h : SPD m) : SPD (localScaleNode e m) := by
  unfold localScaleNode
  simp only [zero_eq, pow_eq]
  by_cases hd : 0 < detM m
  · rw [if_pos ((lt_iff _ _).mpr hd)]
    exact scaleM_spd (Real.rpow_pos_of_pos hd e) h
  · rw [if_neg (fun hh => hd ((lt_iff _ _).mp hh))]
    exact h

/-- an orthonormal frame with positive eigenvalues forms an SPD matrix -/
theorem formM_spd {d : Eig12 ℝ} (ho : Orthonormal d) (hpos : 0 < d.l0 ∧ 0 < d.l1 ∧ 0 < d.l2) : SPD (formM d) :=
  fun x hx => vtMv_formM_pos d ho hpos x hx

theorem formM_psd (d : Eig12 ℝ) (hpos : 0 ≤ d.l0 ∧ 0 ≤ d.l1 ∧ 0 ≤ d.l2) : PSD (formM d) := by
  intro x
  have hq : vtMv (formM d) x =
      d.l0 * (d.x0 * x.x + d.y0 * x.y + d.z0 * x.z) ^ 2 +
      d.l1 * (d.x1 * x.x + d.y1 * x.y + d.z1 * x.z) ^ 2 +
      d.l2 * (d.x2 * x.x + d.y2 * x.y + d.z2 * x.z) ^ 2 := by
    simp only [vtMv, formM, mul_eq, add_eq]; ring
  rw [hq]
  have t0 := mul_nonneg hpos.1 (sq_nonneg (d.x0 * x.x + d.y0 * x.y + d.z0 * x.z))
  have t1 := mul_nonneg hpos.2.1 (sq_nonneg (d.x1 * x.x + d.y1 * x.y + d.z1 * x.z))
  have t2 := mul_nonneg hpos.2.2 (sq_nonneg (d.x2 * x.x + d.y2 * x.y + d.z2 * x.z))
  linarith

/-- eigenvalue floor: `diag_m; eig = MAX(eig, floor); form_m` with `floor > 0` returns an SPD tensor — for ANY
    input (indefinite, singular, zero), needing only the orthonormality of the returned frame, which is proved
    for every successful `ref_matrix_diag_m` (no exact-decomposition hypothesis) -/
theorem floorEigNode_spd {floor : ℝ} (hf : 0 < floor) {m out : M6 ℝ} (h : floorEigNode floor m = .ok out) : SPD out := by
  unfold floorEigNode at h
  cases hd : diagM m with
  | error e => rw [hd] at h; cases h
  | ok d =>
    rw [hd] at h
    injection h with h
    subst h
    have ho : Orthonormal (mapEig (fun l => cmax l floor) d) := orthonormal_mapEig _ (diagM_orthonormal' m d hd)
    apply formM_spd ho
    simp only [mapEig, cmax_eq]
    exact ⟨lt_of_lt_of_le hf (le_max_right _ _), lt_of_lt_of_le hf (le_max_right _ _),
           lt_of_lt_of_le hf (le_max_right _ _)⟩

/-- `ref_recon_roundoff_limit`, one vertex: a passed `ref_math_divisible` guard makes the floor
    `4e-12 / radius²` positive, so the result is SPD whatever the reconstructed Hessian was -/
theorem roundoffNode_spd {radius : ℝ} {m out : M6 ℝ} (h : roundoffNode radius m = .ok out) : SPD out := by
  unfold roundoffNode at h
  simp only [mul_eq, div_eq, ofInt_eq, ofDec_eq] at h
  split_ifs at h with hg
  have hr : radius * radius ≠ 0 := by
    rw [Bool.not_eq_true', Bool.not_eq_false] at hg
    exact divisible_ne_zero hg
  have hpos : 0 < radius * radius := lt_of_le_of_ne (mul_self_nonneg _) (Ne.symm hr)
  refine floorEigNode_spd ?_ h
  apply div_pos _ hpos
  norm_num

/-- absolute-value step: the result is positive semi-definite, and definite when no eigenvalue vanished -/
theorem absHessianNode_psd {m out : M6 ℝ} (h : absHessianNode m = .ok out) : PSD out := by
  unfold absHessianNode at h
  cases hd : diagM m with
  | error e => rw [hd] at h; cases h
  | ok d =>
    rw [hd] at h
    injection h with h
    subst h
    apply formM_psd
    simp only [mapEig, cabs_eq]
    exact ⟨abs_nonneg _, abs_nonneg _, abs_nonneg _⟩

theorem absHessianNode_spd {m out : M6 ℝ} {d : Eig12 ℝ} (hd : diagM m = .ok d)
    (hne : d.l0 ≠ 0 ∧ d.l1 ≠ 0 ∧ d.l2 ≠ 0) (h : absHessianNode m = .ok out) : SPD out := by
  unfold absHessianNode at h
  rw [hd] at h
  injection h with h
  subst h
  apply formM_spd (orthonormal_mapEig _ (diagM_orthonormal' m d hd))
  simp only [mapEig, cabs_eq]
  exact ⟨abs_pos.mpr hne.1, abs_pos.mpr hne.2.1, abs_pos.mpr hne.2.2⟩

/-- aspect-ratio limit (3-D): when the largest eigenvalue returned by `diag_m` is positive the result is SPD
    (every eigenvalue is raised to at least `max/ar²`) -/
theorem limitArNode3_spd {ar2 : ℝ} (har : 0 < ar2) {m out : M6 ℝ} {d : Eig12 ℝ} (hd : diagM m = .ok d)
    (hmax : 0 < max d.l2 (max d.l1 d.l0)) (h : limitArNode3 ar2 m = .ok out) : SPD out := by
  unfold limitArNode3 at h
  rw [hd] at h
  simp only [cmax_eq, div_eq] at h
  split_ifs at h
  injection h with h
  subst h
  apply formM_spd (orthonormal_mapEig _ (diagM_orthonormal' m d hd))
  have hl : 0 < max d.l2 (max d.l1 d.l0) / ar2 := div_pos hmax har
  simp only [mapEig]
  exact ⟨lt_of_lt_of_le hl (le_max_right _ _), lt_of_lt_of_le hl (le_max_right _ _),
         lt_of_lt_of_le hl (le_max_right _ _)⟩

end Refine.Model.Metric
