import Refine.Lemmas.ContainersAdj

/-!
  `REF_ADJ` under arbitrary operation sequences: the concrete state machine refines the abstract
  map `node ↦ list of references` (add = cons, remove = erase first occurrence).
-/
namespace Refine.Model.RAdj
open Refine.Model

/-- the mutating public operations of `ref_adj.c` -/
inductive Op where
  | add (node reference : Int)
  | remove (node reference : Int)
  | addUniquely (node reference : Int)
  deriving Repr, DecidableEq

def Op.node : Op → Int
  | .add n _ | .remove n _ | .addUniquely n _ => n

/-- concrete step -/
def step (s : RAdj) : Op → RAdj × Status
  | .add n r => s.add n r
  | .remove n r => s.remove n r
  | .addUniquely n r => s.addUniquely n r

/-- abstract state: every node (any integer) has a list of references, most recent first -/
abbrev Spec := Int → List Int

def Spec.set (m : Spec) (n : Int) (l : List Int) : Spec := fun k => if k = n then l else m k

/-- abstract step: `add` conses (negative node: `invalid`), `remove` erases the first occurrence
    (`invalid` when absent), `add_uniquely` adds unless present -/
def specStep (m : Spec) : Op → Spec × Status
  | .add n r => if n < 0 then (m, .invalid) else (m.set n (r :: m n), .ok)
  | .remove n r => if r ∈ m n then (m.set n ((m n).erase r), .ok) else (m, .invalid)
  | .addUniquely n r =>
    if r ∈ m n then (m, .ok) else if n < 0 then (m, .invalid) else (m.set n (r :: m n), .ok)

def run : List Op → RAdj → RAdj × List Status
  | [], s => (s, [])
  | op :: ops, s => ((run ops (step s op).1).1, (step s op).2 :: (run ops (step s op).1).2)

def specRun : List Op → Spec → Spec × List Status
  | [], m => (m, [])
  | op :: ops, m => ((specRun ops (specStep m op).1).1, (specStep m op).2 :: (specRun ops (specStep m op).1).2)

private theorem add_case {s : RAdj} {m : Spec} (h : Inv s) (hm : ∀ n, s.refsOf n = m n) (n r : Int)
    (hnode : n < (INT_MAX : Int)) (hnf : (s.add n r).2 ≠ Status.failure) :
    Inv (s.add n r).1 ∧
      (∀ k, (s.add n r).1.refsOf k = (if n < 0 then (m, Status.invalid) else (m.set n (r :: m n), Status.ok)).1 k) ∧
      (s.add n r).2 = (if n < 0 then (m, Status.invalid) else (m.set n (r :: m n), Status.ok)).2 := by
  by_cases hneg : n < 0
  · rw [add_negative n r hneg, if_pos hneg]; exact ⟨h, hm, rfl⟩
  · rw [if_neg hneg]
    obtain ⟨hI, hst, hrefs⟩ := add_spec h n r (by omega) hnode
    have hok : (s.add n r).2 = Status.ok := by
      rcases hst with h1 | ⟨h1, -⟩
      · exact h1
      · exact absurd h1 hnf
    obtain ⟨h1, h2⟩ := hrefs hok
    refine ⟨hI, fun k => ?_, hok⟩
    simp only [Spec.set]
    by_cases hk : k = n
    · rw [if_pos hk, hk, h1, hm]
    · rw [if_neg hk, h2 k hk, hm]

theorem step_refines {s : RAdj} {m : Spec} (h : Inv s) (hm : ∀ n, s.refsOf n = m n) (op : Op)
    (hnode : op.node < (INT_MAX : Int)) (hnf : (step s op).2 ≠ Status.failure) :
    Inv (step s op).1 ∧ (∀ n, (step s op).1.refsOf n = (specStep m op).1 n) ∧
      (step s op).2 = (specStep m op).2 := by
  cases op with
  | add n r => exact add_case h hm n r hnode hnf
  | remove n r =>
    simp only [step, specStep]
    by_cases hmem : r ∈ m n
    · rw [if_pos hmem]
      obtain ⟨h1, h2, h3, h4⟩ := remove_spec_present h n r (by rw [hm]; exact hmem)
      refine ⟨h2, fun k => ?_, h1⟩
      simp only [Spec.set]
      by_cases hk : k = n
      · rw [if_pos hk, hk, h3, hm]
      · rw [if_neg hk, h4 k hk, hm]
    · rw [if_neg hmem, remove_spec_absent h n r (by rw [hm]; exact hmem)]
      exact ⟨h, hm, rfl⟩
  | addUniquely n r =>
    simp only [step, specStep] at hnf ⊢
    rw [addUniquely_spec h n r] at hnf ⊢
    rw [hm]
    by_cases hmem : r ∈ m n
    · rw [if_pos hmem, if_pos hmem]; exact ⟨h, hm, rfl⟩
    · rw [hm, if_neg hmem] at hnf
      rw [if_neg hmem, if_neg hmem]
      exact add_case h hm n r hnode hnf

theorem run_refines_from (ops : List Op) (s : RAdj) (m : Spec) (h : Inv s) (hm : ∀ n, s.refsOf n = m n)
    (hnode : ∀ op ∈ ops, op.node < (INT_MAX : Int)) (hnf : Status.failure ∉ (run ops s).2) :
    Inv (run ops s).1 ∧ (∀ n, (run ops s).1.refsOf n = (specRun ops m).1 n) ∧
      (run ops s).2 = (specRun ops m).2 := by
  induction ops generalizing s m with
  | nil => exact ⟨h, hm, rfl⟩
  | cons op ops ih =>
    simp only [run, specRun] at hnf ⊢
    rw [List.mem_cons, not_or] at hnf
    obtain ⟨h1, h2, h3⟩ := step_refines h hm op (hnode op List.mem_cons_self) (fun e => hnf.1 e.symm)
    obtain ⟨h4, h5, h6⟩ := ih (step s op).1 (specStep m op).1 h1 h2
      (fun o ho => hnode o (List.mem_cons_of_mem _ ho)) hnf.2
    exact ⟨h4, h5, by rw [h3, h6]⟩

theorem create_firstOf (n : Int) : create.firstOf n = EMPTY := by
  unfold firstOf create
  simp only
  split_ifs
  · exact getD_replicate _ _ _
  · rfl

theorem create_refsOf (n : Int) : create.refsOf n = [] := by
  simp only [refsOf, itemsOf, create_firstOf, walk_empty, List.map_nil]

/-- every operation sequence from `ref_adj_create` -/
theorem run_refines (ops : List Op) (hnode : ∀ op ∈ ops, op.node < (INT_MAX : Int))
    (hnf : Status.failure ∉ (run ops create).2) :
    Inv (run ops create).1 ∧ (∀ n, (run ops create).1.refsOf n = (specRun ops (fun _ => [])).1 n) ∧
      (run ops create).2 = (specRun ops (fun _ => [])).2 :=
  run_refines_from ops create (fun _ => []) inv_create create_refsOf hnode hnf

open Refine.Model

/-- the fold of `ref_adj_min_degree_node` over nodes `0..n-1` for a degree function `D` -/
def minFold (D : Nat → Int) (acc : Int × Int) (node : Nat) : Int × Int :=
  if D node > 0 then
    if acc.2 = EMPTY ∨ D node < acc.1 then (D node, (node : Int)) else acc
  else acc

/-- nothing seen yet, or the first node of minimal positive degree among `0..n-1` -/
def MinSpec (D : Nat → Int) (n : Nat) (acc : Int × Int) : Prop :=
  (acc = (EMPTY, EMPTY) ∧ ∀ w, w < n → ¬ D w > 0) ∨
  (∃ v, v < n ∧ acc = (D v, (v : Int)) ∧ D v > 0 ∧
    ∀ w, w < n → D w > 0 → D v ≤ D w ∧ (w < v → D v < D w))

theorem minFold_spec (D : Nat → Int) (n : Nat) :
    MinSpec D n ((List.range n).foldl (minFold D) (EMPTY, EMPTY)) := by
  induction n with
  | zero => exact Or.inl ⟨rfl, fun w hw => by omega⟩
  | succ n ih =>
    rw [List.range_succ, List.foldl_append, List.foldl_cons, List.foldl_nil]
    generalize (List.range n).foldl (minFold D) (EMPTY, EMPTY) = acc at ih
    unfold minFold
    rcases ih with ⟨hacc, hz⟩ | ⟨v, hv, hacc, hpos, hmin⟩
    · by_cases hd : D n > 0
      · rw [if_pos hd, if_pos (Or.inl (by rw [hacc]))]
        refine Or.inr ⟨n, by omega, rfl, hd, fun w hw hwp => ?_⟩
        by_cases hwn : w = n
        · subst hwn; exact ⟨Int.le_refl _, fun h => by omega⟩
        · exact absurd hwp (hz w (by omega))
      · rw [if_neg hd]
        refine Or.inl ⟨hacc, fun w hw => ?_⟩
        by_cases hwn : w = n
        · subst hwn; exact hd
        · exact hz w (by omega)
    · have hne : ¬ acc.2 = EMPTY := by rw [hacc]; unfold EMPTY; simp only; omega
      by_cases hd : D n > 0
      · rw [if_pos hd]
        by_cases hlt : D n < acc.1
        · rw [if_pos (Or.inr hlt)]
          rw [hacc] at hlt
          simp only at hlt
          refine Or.inr ⟨n, by omega, rfl, hd, fun w hw hwp => ?_⟩
          by_cases hwn : w = n
          · subst hwn; exact ⟨Int.le_refl _, fun h => by omega⟩
          · have := (hmin w (by omega) hwp).1
            exact ⟨by omega, fun _ => by omega⟩
        · rw [if_neg (by rintro (h | h); exact hne h; exact hlt h)]
          rw [hacc] at hlt
          simp only at hlt
          refine Or.inr ⟨v, by omega, hacc, hpos, fun w hw hwp => ?_⟩
          by_cases hwn : w = n
          · subst hwn; exact ⟨by omega, fun h => by omega⟩
          · exact hmin w (by omega) hwp
      · rw [if_neg hd]
        refine Or.inr ⟨v, by omega, hacc, hpos, fun w hw hwp => ?_⟩
        by_cases hwn : w = n
        · subst hwn; exact absurd hwp hd
        · exact hmin w (by omega) hwp

/-- `ref_adj_min_degree_node`: `REF_EMPTY, REF_EMPTY` when every node list is empty, else the FIRST node
    whose list has the minimal positive length, with that length -/
theorem minDegreeNode_spec (s : RAdj) :
    (s.minDegreeNode).1 = Status.ok ∧
    MinSpec (fun v => (((s.refsOf (v : Int)).length : Nat) : Int)) s.nnode
      ((s.minDegreeNode).2.1, (s.minDegreeNode).2.2) := by
  refine ⟨rfl, ?_⟩
  have h := minFold_spec (fun v => (((s.refsOf (v : Int)).length : Nat) : Int)) s.nnode
  have e : (s.minDegreeNode).2 = (List.range s.nnode).foldl
      (minFold (fun v => (((s.refsOf (v : Int)).length : Nat) : Int))) (EMPTY, EMPTY) := by
    unfold minDegreeNode
    simp only [degree, refsOf, List.length_map]
    rfl
  rw [← e] at h
  exact h

end Refine.Model.RAdj
