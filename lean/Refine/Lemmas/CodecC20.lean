import Refine.Lemmas.CodecBytes
import Refine.Model.Solb

/-! lemmas behind Props/C20: header scan progress, index range under `Cfg.fixed`, counts fit -/
namespace Refine.Lemmas.Codec
open Refine.Model.Meshb Refine.Model.Solb

/-! ### errors of the primitive readers are `REF_FAILURE` -/

theorem rdU_error {k : Nat} {s : Bytes} {e : Status} (h : rdU k s = .error e) : e = .failure := by
  unfold rdU at h
  cases h' : takeN k s with
  | error e' => simp [h'] at h; subst h; exact takeN_error h'
  | ok p => simp [h'] at h

theorem rdI32_error {s : Bytes} {e : Status} (h : rdI32 s = .error e) : e = .failure := by
  unfold rdI32 at h
  cases h' : rdU 4 s with
  | error e' => simp [h'] at h; subst h; exact rdU_error h'
  | ok p => simp [h'] at h

theorem rdPos_error {v : Nat} {s : Bytes} {e : Status} (h : rdPos v s = .error e) : e = .failure := by
  unfold rdPos at h
  split at h
  · cases h' : rdU 8 s with
    | error e' => simp [h'] at h; subst h; exact rdU_error h'
    | ok p => simp [h'] at h
  · exact rdI32_error h

/-! ### header scan -/

theorem headerScan_zero (cfg : Cfg) (v : Nat) (bs : Bytes) (fuel : Nat) (kp : KeyPos) :
    headerScan cfg v bs fuel 0 kp = .ok kp := by
  cases fuel <;> simp [headerScan]

theorem headerScan_fixed_ne_diverge (v : Nat) (bs : Bytes) (fuel : Nat) (next : Int) (kp : KeyPos)
    (h0 : 0 ≤ next) (hf : bs.length + 1 ≤ fuel + next.toNat) :
    headerScan Cfg.fixed v bs fuel next kp ≠ .error .diverge := by
  induction fuel generalizing next kp with
  | zero =>
    have : ¬ (next ≤ (bs.length : Int)) := by omega
    simp [headerScan, this]
  | succ fuel ih =>
    unfold headerScan
    by_cases hc : next ≤ (bs.length : Int) ∧ next ≠ 0
    · rw [if_pos hc]
      have hn : ¬ next < 0 := by omega
      rw [if_neg hn]
      dsimp only
      cases h1 : rdI32 (bs.drop next.toNat) with
      | error e => simp [rdI32_error h1]
      | ok p =>
        obtain ⟨kw, r⟩ := p
        dsimp only
        cases h2 : rdPos v r with
        | error e => simp [rdPos_error h2]
        | ok q =>
          obtain ⟨next', r'⟩ := q
          dsimp only
          by_cases hp : next' = 0 ∨ next' > (next.toNat : Int)
          · have : ¬ ((Cfg.fixed.checkProgress = true) ∧ ¬(next' = 0 ∨ next' > (next.toNat : Int))) :=
              fun hh => hh.2 hp
            rw [if_neg this]
            rcases hp with rfl | hgt
            · rw [headerScan_zero]; simp
            · exact ih next' _ (by omega) (by omega)
          · have : ((Cfg.fixed.checkProgress = true) ∧ ¬(next' = 0 ∨ next' > (next.toNat : Int))) := by
              exact ⟨rfl, hp⟩
            rw [if_pos this]; simp
    · rw [if_neg hc]; simp

theorem header_fixed_ne_diverge (bs : Bytes) : header Cfg.fixed bs ≠ .error .diverge := by
  unfold header
  cases h1 : rdI32 bs with
  | error e => simp [rdI32_error h1]
  | ok p =>
    obtain ⟨code, r⟩ := p
    simp only []
    split
    · simp
    · cases h2 : rdI32 r with
      | error e => simp [rdI32_error h2]
      | ok q =>
        obtain ⟨ver, r'⟩ := q
        simp only []
        split
        · simp
        · have := headerScan_fixed_ne_diverge ver.toNat bs (bs.length + 1) 8 [] (by omega) (by simp)
          cases h3 : headerScan Cfg.fixed ver.toNat bs (bs.length + 1) 8 [] with
          | error e => simp; intro he; exact this (by rw [h3, he])
          | ok kp => simp

theorem headerHops_fixed_ge (v : Nat) (bs : Bytes) (fuel : Nat) (start : Int) :
    ∀ x ∈ headerHops Cfg.fixed v bs fuel start, start ≤ x ∧
    (headerHops Cfg.fixed v bs fuel start).Pairwise (· < ·) := by
  induction fuel generalizing start with
  | zero => simp [headerHops]
  | succ fuel ih =>
    unfold headerHops
    by_cases hc : start ≤ (bs.length : Int) ∧ start ≠ 0
    · rw [if_pos hc]
      by_cases hn : start < 0
      · rw [if_pos hn]; simp
      · rw [if_neg hn]
        cases h1 : rdI32 (bs.drop start.toNat) with
        | error e => simp
        | ok p =>
          obtain ⟨kw, r⟩ := p
          dsimp only
          cases h2 : rdPos v r with
          | error e => simp
          | ok q =>
            obtain ⟨next', r'⟩ := q
            dsimp only
            by_cases hp : next' = 0 ∨ next' > start
            · have : ¬ ((Cfg.fixed.checkProgress = true) ∧ ¬(next' = 0 ∨ next' > start)) := fun hh => hh.2 hp
              rw [if_neg this]
              intro x hx
              have key : ∀ y ∈ headerHops Cfg.fixed v bs fuel next', start < y := by
                intro y hy
                rcases hp with rfl | hgt
                · cases fuel <;> simp [headerHops] at hy
                · have := (ih next' y hy).1; omega
              have pw : (headerHops Cfg.fixed v bs fuel next').Pairwise (· < ·) := by
                cases hl : headerHops Cfg.fixed v bs fuel next' with
                | nil => simp
                | cons y ys => rw [← hl]; exact (ih next' y (by rw [hl]; simp)).2
              refine ⟨?_, List.pairwise_cons.2 ⟨key, pw⟩⟩
              rcases List.mem_cons.1 hx with rfl | hx'
              · omega
              · have := key x hx'; omega
            · have : ((Cfg.fixed.checkProgress = true) ∧ ¬(next' = 0 ∨ next' > start)) := ⟨rfl, hp⟩
              rw [if_pos this]; simp
    · rw [if_neg hc]; simp

theorem headerHops_fixed_chain (v : Nat) (bs : Bytes) (fuel : Nat) (start : Int) :
    (headerHops Cfg.fixed v bs fuel start).Pairwise (· < ·) := by
  cases hl : headerHops Cfg.fixed v bs fuel start with
  | nil => simp
  | cons y ys => rw [← hl]; exact (headerHops_fixed_ge v bs fuel start y (by rw [hl]; simp)).2

/-! ### inversion of `decodeMeshbWith` -/

theorem decode_inv {cfg : Cfg} {bs : Bytes} {m : MeshFile} (h : decodeMeshbWith cfg bs = .ok m) :
    ∃ v kp next s0 nnode s s', header cfg bs = .ok (v, kp) ∧ jump v bs kp 4 = .ok (some (next, s0)) ∧
      rdInt v s0 = .ok (nnode, s) ∧ rdVerts v m.twod nnode.toNat s = .ok (m.nodes, s') ∧
      rdCellGroups cfg v bs kp nnode cellInfos = .ok m.cells ∧
      rdGeomTypes cfg v bs kp nnode [0, 1, 2] [] = .ok m.geoms ∧ rdCad cfg v bs kp = .ok m.cad := by
  unfold decodeMeshbWith at h
  cases h1 : header cfg bs with
  | error e => simp [h1] at h
  | ok p1 =>
  obtain ⟨v, kp⟩ := p1
  simp only [h1] at h
  cases h2 : jump v bs kp 3 with
  | error e => simp [h2] at h
  | ok o2 =>
  cases o2 with
  | none => simp [h2] at h
  | some p2 =>
  obtain ⟨n2, s2⟩ := p2
  simp only [h2] at h
  cases h3 : rdI32 s2 with
  | error e => simp [h3] at h
  | ok p3 =>
  obtain ⟨dim, s3⟩ := p3
  simp only [h3] at h
  split at h
  · simp at h
  · cases h4 : jump v bs kp 4 with
    | error e => simp [h4] at h
    | ok o4 =>
    cases o4 with
    | none => simp [h4] at h
    | some p4 =>
    obtain ⟨next, s0⟩ := p4
    simp only [h4] at h
    cases h5 : rdInt v s0 with
    | error e => simp [h5] at h
    | ok p5 =>
    obtain ⟨nnode, s⟩ := p5
    simp only [h5] at h
    cases h6 : rdVerts v (decide (dim = 2)) nnode.toNat s with
    | error e => simp [h6] at h
    | ok p6 =>
    obtain ⟨nodes, s'⟩ := p6
    simp only [h6] at h
    split at h
    · simp at h
    · cases h7 : rdCellGroups cfg v bs kp nnode cellInfos with
      | error e => simp [h7] at h
      | ok cells =>
      simp only [h7] at h
      cases h8 : rdGeomTypes cfg v bs kp nnode [0, 1, 2] [] with
      | error e => simp [h8] at h
      | ok geoms =>
      simp only [h8] at h
      cases h9 : rdCad cfg v bs kp with
      | error e => simp [h9] at h
      | ok cad =>
      simp only [h9] at h
      injection h with h
      subst h
      exact ⟨v, kp, next, s0, nnode, s, s', rfl, h4, h5, h6, h7, h8, h9⟩

/-! ### consumption and lengths -/

theorem rdVerts_len {v : Nat} {twod : Bool} {n : Nat} {s r : Bytes} {vs : List Vertex}
    (h : rdVerts v twod n s = .ok (vs, r)) : vs.length = n ∧ r.length + n * 12 ≤ s.length := by
  induction n generalizing s vs with
  | zero => simp [rdVerts] at h; obtain ⟨rfl, rfl⟩ := h; simp
  | succ n ih =>
    unfold rdVerts at h
    cases h1 : rdReal v s with
    | error e => simp [h1] at h
    | ok p1 =>
    obtain ⟨x, s1⟩ := p1
    simp only [h1] at h
    cases h2 : rdReal v s1 with
    | error e => simp [h2] at h
    | ok p2 =>
    obtain ⟨y, s2⟩ := p2
    simp only [h2] at h
    cases h3 : (if twod then (.ok (0, s2) : Except Status (UInt64 × Bytes)) else rdReal v s2) with
    | error e => simp [h3] at h
    | ok p3 =>
    obtain ⟨z, s3⟩ := p3
    simp only [h3] at h
    cases h4 : rdInt v s3 with
    | error e => simp [h4] at h
    | ok p4 =>
    obtain ⟨id, s4⟩ := p4
    simp only [h4] at h
    cases h5 : rdVerts v twod n s4 with
    | error e => simp [h5] at h
    | ok p5 =>
    obtain ⟨vs', s5⟩ := p5
    simp only [h5] at h
    injection h with h
    injection h with hv hr
    subst hv hr
    obtain ⟨hl, hc⟩ := ih h5
    have l1 := rdReal_len h1
    have l2 := rdReal_len h2
    have l4 := rdInt_len h4
    have l3 : s3.length ≤ s2.length := by
      by_cases ht : twod
      · simp [ht] at h3; rw [h3.2]
      · simp [ht] at h3; have := rdReal_len h3; omega
    have : 4 ≤ intSize v := by unfold intSize; split <;> omega
    simp [hl]; omega

theorem rdInts_len {v n : Nat} {s r : Bytes} {xs : List Int} (h : rdInts v n s = .ok (xs, r)) :
    xs.length = n ∧ s.length = n * intSize v + r.length := by
  induction n generalizing s xs with
  | zero => simp [rdInts] at h; obtain ⟨rfl, rfl⟩ := h; simp
  | succ n ih =>
    unfold rdInts at h
    cases h1 : rdInt v s with
    | error e => simp [h1] at h
    | ok p1 =>
    obtain ⟨x, s1⟩ := p1
    simp only [h1] at h
    cases h2 : rdInts v n s1 with
    | error e => simp [h2] at h
    | ok p2 =>
    obtain ⟨xs', s2⟩ := p2
    simp only [h2] at h
    injection h with h
    injection h with hx hr
    subst hx hr
    obtain ⟨hl, hc⟩ := ih h2
    have := rdInt_len h1
    simp [hl]; rw [this, hc]; ring

theorem rdCells_len {cfg : Cfg} {v : Nat} {ci : CellInfo} {nnode : Int} {n : Nat} {s r : Bytes}
    {cs : List (List Int)} (h : rdCells cfg v ci nnode n s = .ok (cs, r)) :
    cs.length = n ∧ r.length + n * (4 * (ci.nodePer + 1)) ≤ s.length := by
  induction n generalizing s cs with
  | zero => simp [rdCells] at h; obtain ⟨rfl, rfl⟩ := h; simp
  | succ n ih =>
    unfold rdCells at h
    cases h1 : rdInts v (ci.nodePer + 1) s with
    | error e => simp [h1] at h
    | ok p1 =>
    obtain ⟨raw, s1⟩ := p1
    simp only [h1] at h
    cases h2 : cellOfRecord cfg ci nnode raw with
    | error e => simp [h2] at h
    | ok c =>
    simp only [h2] at h
    cases h3 : rdCells cfg v ci nnode n s1 with
    | error e => simp [h3] at h
    | ok p3 =>
    obtain ⟨cs', s3⟩ := p3
    simp only [h3] at h
    injection h with h
    injection h with hx hr
    subst hx hr
    obtain ⟨hl, hc⟩ := ih h3
    obtain ⟨_, l1⟩ := rdInts_len h1
    have : 4 ≤ intSize v := by unfold intSize; split <;> omega
    have : (ci.nodePer + 1) * 4 ≤ (ci.nodePer + 1) * intSize v := Nat.mul_le_mul_left _ this
    simp [hl]; nlinarith

theorem jump_len {v : Nat} {bs : Bytes} {kp : KeyPos} {kw : Nat} {next : Int} {r : Bytes}
    (h : jump v bs kp kw = .ok (some (next, r))) : r.length ≤ bs.length := by
  unfold jump at h
  cases hk : kp.get kw with
  | none => simp [hk] at h
  | some pos =>
    simp only [hk] at h
    cases h1 : rdI32 (bs.drop pos) with
    | error e => simp [h1] at h
    | ok p1 =>
    obtain ⟨code, s1⟩ := p1
    simp only [h1] at h
    split at h
    · simp at h
    · cases h2 : rdPos v s1 with
      | error e => simp [h2] at h
      | ok p2 =>
      obtain ⟨nx, s2⟩ := p2
      simp only [h2] at h
      injection h with h
      injection h with h
      injection h with _ hr
      subst hr
      have l1 := rdI32_len h1
      have l2 := rdPos_len h2
      have : (bs.drop pos).length ≤ bs.length := by simp
      omega

theorem kwSection_cases {α : Type} {v : Nat} {bs : Bytes} {kp : KeyPos} {kw : Nat} {dflt a : α}
    {body : Int → P α} (h : kwSection v bs kp kw dflt body = .ok a) :
    a = dflt ∨ ∃ next s0 n s r, jump v bs kp kw = .ok (some (next, s0)) ∧ rdInt v s0 = .ok (n, s) ∧
      body n s = .ok (a, r) := by
  unfold kwSection at h
  cases h1 : jump v bs kp kw with
  | error e => simp [h1] at h
  | ok o =>
    cases o with
    | none => simp [h1] at h; exact .inl h.symm
    | some p =>
      obtain ⟨next, s0⟩ := p
      simp only [h1] at h
      cases h2 : rdInt v s0 with
      | error e => simp [h2] at h
      | ok p2 =>
      obtain ⟨n, s⟩ := p2
      simp only [h2] at h
      cases h3 : body n s with
      | error e => simp [h3] at h
      | ok p3 =>
      obtain ⟨a', r⟩ := p3
      simp only [h3] at h
      split at h
      · injection h with h; subst h
        exact .inr ⟨next, s0, n, s, r, rfl, h2, h3⟩
      · simp at h

theorem rdCellGroups_zip {cfg : Cfg} {v : Nat} {bs : Bytes} {kp : KeyPos} {nnode : Int}
    {cis : List CellInfo} {gs : List (List (List Int))}
    (h : rdCellGroups cfg v bs kp nnode cis = .ok gs) (Q : CellInfo → List (List Int) → Prop)
    (hQ0 : ∀ ci, Q ci [])
    (hQ : ∀ ci ∈ cis, ∀ n s cs r, rdCells cfg v ci nnode n s = .ok (cs, r) → s.length ≤ bs.length → Q ci cs) :
    ∀ p ∈ cis.zip gs, Q p.1 p.2 := by
  induction cis generalizing gs with
  | nil => simp
  | cons ci cis ih =>
    have hQ' : ∀ c ∈ cis, ∀ n s cs r, rdCells cfg v c nnode n s = .ok (cs, r) → s.length ≤ bs.length → Q c cs :=
      fun c hc => hQ c (List.mem_cons_of_mem _ hc)
    unfold rdCellGroups at h
    cases h1 : kwSection v bs kp ci.kw [] (fun n => rdCells cfg v ci nnode n.toNat) with
    | error e => simp [h1] at h
    | ok g =>
    simp only [h1] at h
    cases h2 : rdCellGroups cfg v bs kp nnode cis with
    | error e => simp [h2] at h
    | ok gs' =>
    simp only [h2] at h
    injection h with h
    subst h
    intro p hp
    simp only [List.zip_cons_cons, List.mem_cons] at hp
    rcases hp with rfl | hp
    · rcases kwSection_cases h1 with rfl | ⟨next, s0, n, s, r, hj, hi, hb⟩
      · exact hQ0 _
      · have := jump_len hj
        have := rdInt_len hi
        exact hQ ci (List.mem_cons_self ..) n.toNat s g r hb (by omega)
    · exact ih h2 hQ' p hp


/-! ### accepted files contain what they declare -/

theorem rdCad_len {cfg : Cfg} {v : Nat} {bs : Bytes} {kp : KeyPos} {cad : Bytes}
    (h : rdCad cfg v bs kp = .ok cad) : cad.length ≤ bs.length := by
  unfold rdCad at h
  cases h1 : jump v bs kp 126 with
  | error e => simp [h1] at h
  | ok o =>
    cases o with
    | none => simp [h1] at h; subst h; simp
    | some p =>
      obtain ⟨next, s0⟩ := p
      simp only [h1] at h
      cases h2 : rdSize v s0 with
      | error e => simp [h2] at h
      | ok p2 =>
      obtain ⟨size, s⟩ := p2
      simp only [h2] at h
      split at h
      · simp at h
      · cases h3 : takeN size s with
        | error e => simp [h3] at h
        | ok p3 =>
        obtain ⟨data, r⟩ := p3
        simp only [h3] at h
        split at h
        · injection h with h; subst h
          obtain ⟨hs, hl⟩ := takeN_ok h3
          have l0 := jump_len h1
          have l2 : s.length ≤ s0.length := by
            unfold rdSize at h2
            split at h2 <;> (have := rdU_len h2; omega)
          have : s.length = data.length + r.length := by rw [hs]; simp
          omega
        · simp at h

theorem meshb_counts_fit (cfg : Cfg) (bs : Bytes) (m : MeshFile) (h : decodeMeshbWith cfg bs = .ok m) :
    m.nodes.length * 12 ≤ bs.length ∧
    (∀ p ∈ cellInfos.zip m.cells, p.2.length * (4 * (p.1.nodePer + 1)) ≤ bs.length) ∧
    m.cad.length ≤ bs.length := by
  obtain ⟨v, kp, next, s0, nnode, s, s', _, hj, hi, hv, hc, _, hcad⟩ := decode_inv h
  have l0 := jump_len hj
  have l1 := rdInt_len hi
  obtain ⟨hl, hcons⟩ := rdVerts_len hv
  refine ⟨by rw [hl]; omega, ?_, rdCad_len hcad⟩
  apply rdCellGroups_zip hc (fun ci cs => cs.length * (4 * (ci.nodePer + 1)) ≤ bs.length)
  · intro ci; simp
  · intro ci _ n s cs r hr hs
    obtain ⟨hl, hcons⟩ := rdCells_len hr
    rw [hl]; omega

/-! ### vertex indices under `Cfg.fixed` -/

theorem cellInfos_pyr : ∀ ci ∈ cellInfos, ci.isPyr = true → ci.nodePer = 5 := by decide

theorem recordNodes_length {ci : CellInfo} {raw : List Int}
    (hp : ci.isPyr = true → ci.nodePer = 5) (hraw : raw.length = ci.nodePer + 1) :
    (recordNodes ci raw).length = ci.nodePer := by
  unfold recordNodes
  by_cases hpy : ci.isPyr = true
  · simp [hpy, permute, hp hpy, Refine.Gen.PyrPerm.importMeshb]
  · simp [hpy, hraw]

theorem cellOfRecord_fixed_range {ci : CellInfo} {nnode : Int} {raw c : List Int}
    (hp : ci.isPyr = true → ci.nodePer = 5) (hraw : raw.length = ci.nodePer + 1)
    (h : cellOfRecord Cfg.fixed ci nnode raw = .ok c) :
    ∀ x ∈ c.take ci.nodePer, 0 ≤ x ∧ x < nnode := by
  unfold cellOfRecord at h
  split at h
  · simp at h
  · split at h
    · simp at h
    · rename_i hany
      cases h2 : adjAddAll Cfg.fixed (recordNodes ci raw) with
      | error e => simp [h2] at h
      | ok u =>
        simp only [h2] at h
        injection h with h
        subst h
        rw [List.take_left' (recordNodes_length hp hraw)]
        intro x hx
        have hall : ¬ ((recordNodes ci raw).any (fun x => decide (x < 0 ∨ nnode ≤ x)) = true) := by
          intro hh; exact hany ⟨rfl, hh⟩
        rw [List.any_eq_true] at hall
        have hnot : ¬ (x < 0 ∨ nnode ≤ x) := fun hbad => hall ⟨x, hx, by simpa using hbad⟩
        omega

theorem rdCells_fixed_range {v : Nat} {ci : CellInfo} {nnode : Int} {n : Nat} {s r : Bytes}
    {cs : List (List Int)} (hp : ci.isPyr = true → ci.nodePer = 5)
    (h : rdCells Cfg.fixed v ci nnode n s = .ok (cs, r)) :
    ∀ c ∈ cs, ∀ x ∈ c.take ci.nodePer, 0 ≤ x ∧ x < nnode := by
  induction n generalizing s cs with
  | zero => simp [rdCells] at h; obtain ⟨rfl, rfl⟩ := h; simp
  | succ n ih =>
    unfold rdCells at h
    cases h1 : rdInts v (ci.nodePer + 1) s with
    | error e => simp [h1] at h
    | ok p1 =>
    obtain ⟨raw, s1⟩ := p1
    simp only [h1] at h
    cases h2 : cellOfRecord Cfg.fixed ci nnode raw with
    | error e => simp [h2] at h
    | ok c =>
    simp only [h2] at h
    cases h3 : rdCells Cfg.fixed v ci nnode n s1 with
    | error e => simp [h3] at h
    | ok p3 =>
    obtain ⟨cs', s3⟩ := p3
    simp only [h3] at h
    injection h with h
    injection h with hx hr
    subst hx hr
    intro c' hc'
    rcases List.mem_cons.1 hc' with rfl | hc'
    · exact cellOfRecord_fixed_range hp (rdInts_len h1).1 h2
    · exact ih h3 c' hc'

theorem geomAdd_nodes {cfg : Cfg} {gs gs' : List GeomRec} {node : Int} {t : Nat} {id : Int} {p0 p1 : UInt64}
    (Pn : Int → Prop) (hn : Pn node) (hgs : ∀ g ∈ gs, Pn g.node)
    (h : geomAdd cfg gs node t id p0 p1 = .ok gs') : ∀ g ∈ gs', Pn g.node := by
  unfold geomAdd at h
  split at h
  · injection h with h; subst h
    intro g hg
    rw [List.mem_map] at hg
    obtain ⟨g0, hg0, rfl⟩ := hg
    split <;> simp [hgs g0 hg0]
  · cases h2 : adjAdd cfg node with
    | error e => simp [h2] at h
    | ok u =>
      simp only [h2] at h
      injection h with h; subst h
      intro g hg
      rcases List.mem_append.1 hg with hg | hg
      · exact hgs g hg
      · simp at hg; subst hg; exact hn

theorem geomSetGref_nodes {gs : List GeomRec} {node : Int} {t : Nat} {id gref : Int}
    (Pn : Int → Prop) (hgs : ∀ g ∈ gs, Pn g.node) : ∀ g ∈ geomSetGref gs node t id gref, Pn g.node := by
  intro g hg
  unfold geomSetGref at hg
  rw [List.mem_map] at hg
  obtain ⟨g0, hg0, rfl⟩ := hg
  split <;> simp [hgs g0 hg0]

theorem rdGeoms_fixed_range {v t : Nat} {nnode : Int} {n : Nat} {gs gs' : List GeomRec} {s r : Bytes}
    (hgs : ∀ g ∈ gs, 0 ≤ g.node ∧ g.node < nnode)
    (h : rdGeoms Cfg.fixed v t nnode n gs s = .ok (gs', r)) : ∀ g ∈ gs', 0 ≤ g.node ∧ g.node < nnode := by
  induction n generalizing gs s with
  | zero => simp [rdGeoms] at h; obtain ⟨rfl, rfl⟩ := h; exact hgs
  | succ n ih =>
    unfold rdGeoms at h
    cases h1 : rdInt v s with
    | error e => simp [h1] at h
    | ok p1 =>
    obtain ⟨node, s1⟩ := p1
    simp only [h1] at h
    cases h2 : rdInt v s1 with
    | error e => simp [h2] at h
    | ok p2 =>
    obtain ⟨id, s2⟩ := p2
    simp only [h2] at h
    cases h3 : (if 0 < t then rdF64 s2 else (.ok (0, s2) : Except Status (UInt64 × Bytes))) with
    | error e => simp [h3] at h
    | ok p3 =>
    obtain ⟨p0, s3⟩ := p3
    simp only [h3] at h
    cases h4 : (if 1 < t then rdF64 s3 else (.ok (0, s3) : Except Status (UInt64 × Bytes))) with
    | error e => simp [h4] at h
    | ok p4 =>
    obtain ⟨p1, s4⟩ := p4
    simp only [h4] at h
    split at h
    · simp at h
    · split at h
      · simp at h
      · rename_i hchk
        have hnode : 0 ≤ node - 1 ∧ node - 1 < nnode := by
          by_contra hc
          apply hchk
          refine ⟨rfl, ?_⟩
          omega
        cases h5 : geomAdd Cfg.fixed gs (node - 1) t id p0 p1 with
        | error e => simp [h5] at h
        | ok gs1 =>
        simp only [h5] at h
        have hgs1 := geomAdd_nodes (fun x => 0 ≤ x ∧ x < nnode) hnode hgs h5
        cases h6 : (if 0 < t then rdF64 s4 else (.ok (0, s4) : Except Status (UInt64 × Bytes))) with
        | error e => simp [h6] at h
        | ok p6 =>
        obtain ⟨gref, s6⟩ := p6
        simp only [h6] at h
        refine ih ?_ h
        split
        · exact geomSetGref_nodes (fun x => 0 ≤ x ∧ x < nnode) hgs1
        · exact hgs1

theorem rdGeomTypes_fixed_range {v : Nat} {bs : Bytes} {kp : KeyPos} {nnode : Int} {ts : List Nat}
    {gs gs' : List GeomRec} (hgs : ∀ g ∈ gs, 0 ≤ g.node ∧ g.node < nnode)
    (h : rdGeomTypes Cfg.fixed v bs kp nnode ts gs = .ok gs') : ∀ g ∈ gs', 0 ≤ g.node ∧ g.node < nnode := by
  induction ts generalizing gs with
  | nil => simp [rdGeomTypes] at h; subst h; exact hgs
  | cons t ts ih =>
    unfold rdGeomTypes at h
    cases h1 : kwSection v bs kp (40 + t) gs (fun n => rdGeoms Cfg.fixed v t nnode n.toNat gs) with
    | error e => simp [h1] at h
    | ok gs1 =>
    simp only [h1] at h
    refine ih ?_ h
    rcases kwSection_cases h1 with rfl | ⟨next, s0, n, s, r, _, _, hb⟩
    · exact hgs
    · exact rdGeoms_fixed_range hgs hb

theorem fixed_indices_in_range (bs : Bytes) (m : MeshFile) (h : decodeMeshbFixed bs = .ok m) :
    indicesInRange m = true := by
  obtain ⟨v, kp, next, s0, nnode, s, s', _, hj, hi, hv, hc, hg, _⟩ := decode_inv h
  obtain ⟨hl, _⟩ := rdVerts_len hv
  have conv : ∀ x : Int, 0 ≤ x ∧ x < nnode → 0 ≤ x ∧ x < (m.nodes.length : Int) := by
    intro x hx; rw [hl]; omega
  unfold indicesInRange
  rw [Bool.and_eq_true, List.all_eq_true, List.all_eq_true]
  constructor
  · intro p hp
    have := rdCellGroups_zip hc
      (fun ci cs => ∀ c ∈ cs, ∀ x ∈ c.take ci.nodePer, 0 ≤ x ∧ x < nnode)
      (by intro ci; simp)
      (by intro ci hci n s cs r hr _; exact rdCells_fixed_range (cellInfos_pyr ci hci) hr) p hp
    rw [List.all_eq_true]
    intro c hc'
    rw [List.all_eq_true]
    intro x hx
    simp only [decide_eq_true_eq]
    exact conv x (this c hc' x hx)
  · intro g hg'
    simp only [decide_eq_true_eq]
    exact conv _ (rdGeomTypes_fixed_range (by simp) hg g hg')


/-! ### .solb: the fixed reader sizes nothing beyond the bytes present -/

theorem rdLong_len {v : Nat} {s r : Bytes} {n : Int} (h : rdLong v s = .ok (n, r)) : r.length ≤ s.length := by
  unfold rdLong at h
  split at h
  · have := rdI32_len h; omega
  · cases h' : rdU 8 s with
    | error e => simp [h'] at h
    | ok p => obtain ⟨m, r'⟩ := p; simp [h'] at h; obtain ⟨_, rfl⟩ := h; have := rdU_len h'; omega

theorem rdTypes_len {w : Int → Option Nat} {n l0 l : Nat} {s r : Bytes}
    (h : rdTypes w n l0 s = .ok (l, r)) : r.length ≤ s.length := by
  induction n generalizing l0 s with
  | zero => simp [rdTypes] at h; rw [h.2]
  | succ n ih =>
    unfold rdTypes at h
    cases h1 : rdI32 s with
    | error e => simp [h1] at h
    | ok p1 =>
    obtain ⟨t, s1⟩ := p1
    simp only [h1] at h
    cases hw : w t with
    | none => simp [hw] at h
    | some k =>
      simp only [hw] at h
      have := ih h
      have := rdI32_len h1
      omega

theorem solPrefix_len {cfg : Cfg} {bs : Bytes} {v dim : Nat} {next nnode ntype : Int} {s : Bytes}
    (h : solPrefix cfg bs = .ok (v, dim, next, nnode, ntype, s)) : s.length ≤ bs.length := by
  unfold solPrefix at h
  cases h1 : header cfg bs with
  | error e => simp [h1] at h
  | ok p1 =>
  obtain ⟨v', kp⟩ := p1
  simp only [h1] at h
  split at h
  · simp at h
  · cases h2 : jump v' bs kp 3 with
    | error e => simp [h2] at h
    | ok o2 =>
    cases o2 with
    | none => simp [h2] at h
    | some p2 =>
    obtain ⟨n2, s2⟩ := p2
    simp only [h2] at h
    cases h3 : rdI32 s2 with
    | error e => simp [h3] at h
    | ok p3 =>
    obtain ⟨dim', s3⟩ := p3
    simp only [h3] at h
    split at h
    · simp at h
    · cases h4 : jump v' bs kp 62 with
      | error e => simp [h4] at h
      | ok o4 =>
      cases o4 with
      | none => simp [h4] at h
      | some p4 =>
      obtain ⟨nx, s4⟩ := p4
      simp only [h4] at h
      cases h5 : rdLong v' s4 with
      | error e => simp [h5] at h
      | ok p5 =>
      obtain ⟨nn, s5⟩ := p5
      simp only [h5] at h
      cases h6 : rdI32 s5 with
      | error e => simp [h6] at h
      | ok p6 =>
      obtain ⟨nt, s6⟩ := p6
      simp only [h6] at h
      injection h with h
      simp only [Prod.mk.injEq] at h
      obtain ⟨_, _, _, _, _, rfl⟩ := h
      have := jump_len h4
      have := rdLong_len h5
      have := rdI32_len h6
      omega

theorem chunkOf_small {nnode : Int} (h0 : 0 ≤ nnode) (h1 : nnode < 2 ^ 31) : chunkOf nnode = nnode := by
  unfold chunkOf
  have hm : int32 (max 100000 nnode) := by unfold int32; constructor <;> omega
  rw [wrap32_of_int32 hm]
  have : min (max 100000 nnode) nnode = nnode := by omega
  rw [this]
  exact wrap32_of_int32 (by unfold int32; constructor <;> omega)

theorem scalarPlan_fixed_ok {n : Nat} {bs : Bytes} {dim : Nat} {next nnode : Int} {ldim : Nat} {s : Bytes}
    (hp : scalarPlan Cfg.fixed n bs = .ok (dim, next, nnode, ldim, s)) :
    0 ≤ nnode ∧ nnode < 2 ^ 31 ∧ nnode * ldim * 8 ≤ (s.length : Int) ∧ s.length ≤ bs.length := by
  unfold scalarPlan at hp
  cases h1 : solPrefix Cfg.fixed bs with
  | error e => simp [h1] at hp
  | ok p1 =>
  obtain ⟨v, dim', next', nnode', ntype, s1⟩ := p1
  simp only [h1] at hp
  cases h2 : rdTypes (fun t => if t = 1 then some 1 else if t = 2 then some dim' else none) ntype.toNat 0 s1 with
  | error e => simp [h2] at hp
  | ok p2 =>
  obtain ⟨ldim', s2⟩ := p2
  simp only [h2] at hp
  split at hp
  · simp at hp
  · split at hp
    · simp at hp
    · rename_i hchk
      injection hp with hp
      simp only [Prod.mk.injEq] at hp
      obtain ⟨_, _, rfl, rfl, rfl⟩ := hp
      have hc : 0 ≤ nnode' ∧ nnode' < 2 ^ 31 ∧ nnode' * ldim' * 8 ≤ (s2.length : Int) := by
        by_contra hc; exact hchk ⟨rfl, hc⟩
      have l1 := solPrefix_len h1
      have l2 := rdTypes_len h2
      exact ⟨hc.1, hc.2.1, hc.2.2, by omega⟩

theorem scalarAlloc_fixed_le (n : Nat) (bs : Bytes) : scalarAlloc Cfg.fixed n bs ≤ (bs.length : Int) := by
  unfold scalarAlloc
  cases hp : scalarPlan Cfg.fixed n bs with
  | error e => simp
  | ok p =>
    obtain ⟨dim, next, nnode, ldim, s⟩ := p
    dsimp only
    obtain ⟨c0, c1, c2, l⟩ := scalarPlan_fixed_ok hp
    unfold scalarAllocRequest
    rw [chunkOf_small c0 c1]
    split
    · omega
    · nlinarith

/-- FIXED reader: the vertex loop never runs without data behind it (skipped when `ldim = 0`) -/
theorem scalarIdle_fixed_zero (n : Nat) (bs : Bytes) : scalarIdleIterations Cfg.fixed n bs = 0 := by
  unfold scalarIdleIterations
  cases hp : scalarPlan Cfg.fixed n bs with
  | error e => rfl
  | ok p =>
    obtain ⟨dim, next, nnode, ldim, s⟩ := p
    simp [Cfg.fixed]

/-- FIXED reader: with data behind it the loop runs at most `file size / 8` times -/
theorem scalarLoop_fixed_le {n : Nat} {bs : Bytes} {dim : Nat} {next nnode : Int} {ldim : Nat} {s : Bytes}
    (hp : scalarPlan Cfg.fixed n bs = .ok (dim, next, nnode, ldim, s)) (hl : 0 < ldim) :
    nnode * 8 ≤ (bs.length : Int) := by
  obtain ⟨c0, _, c2, l⟩ := scalarPlan_fixed_ok hp
  have : nnode * 8 ≤ nnode * ldim * 8 := by
    have : (1 : Int) ≤ ldim := by exact_mod_cast hl
    nlinarith
  omega

end Refine.Lemmas.Codec
