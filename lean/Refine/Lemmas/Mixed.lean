import Refine.Model.Mixed
import Refine.Lemmas.GuardsRules

/-!
  Lemmas for `Refine/Model/Mixed.lean`: what the mixed-element guards decide (exact criteria), the frame of every
  guarded operator on the frozen cells and the coordinates of their vertices, and the covering of the triangular
  faces of pyramids / prisms by simplices under split / swap / collapse.  Theorems: `Props/C02Mixed.lean`.
-/
namespace Refine.MixedLemmas
open Refine Refine.Model Refine.Model.Guards Refine.Model.Mixed Refine.GuardsRules

/-! ## tables (generated from `ref_cell_initialize`) -/

theorem triF2nPyr_eq : triF2nPyr = [[0, 1, 2], [1, 4, 2], [2, 4, 3], [0, 2, 3]] := by decide
theorem triF2nPri_eq : triF2nPri = [[0, 1, 2], [3, 5, 4]] := by decide
theorem triF2nHex_eq : triF2nHex = [] := by decide

/-- every pair of distinct corners of a triangular face of a pyramid is an edge of the pyramid (`e2n`) -/
theorem pyr_face_sides : ∀ f ∈ triF2nPyr, ∀ x ∈ f, ∀ y ∈ f, x ≠ y → (x, y) ∈ e2nPyr ∨ (y, x) ∈ e2nPyr := by decide
theorem pri_face_sides : ∀ f ∈ triF2nPri, ∀ x ∈ f, ∀ y ∈ f, x ≠ y → (x, y) ∈ e2nPri ∨ (y, x) ∈ e2nPri := by decide
theorem pyr_face_bound : ∀ f ∈ triF2nPyr, ∀ x ∈ f, x < 5 := by decide
theorem pri_face_bound : ∀ f ∈ triF2nPri, ∀ x ∈ f, x < 6 := by decide
theorem e2nQua_bound : ∀ p ∈ e2nQua, p.1 < 4 ∧ p.2 < 4 := by decide
theorem e2nPyr_bound : ∀ p ∈ e2nPyr, p.1 < 5 ∧ p.2 < 5 := by decide
theorem e2nPri_bound : ∀ p ∈ e2nPri, p.1 < 6 ∧ p.2 < 6 := by decide
theorem e2nHex_bound : ∀ p ∈ e2nHex, p.1 < 8 ∧ p.2 < 8 := by decide

/-! ## the guards' exact criteria -/

/-- `(n0,n1)` is an edge (row of the `e2n` table, either direction) of the cell -/
def IsEdgeOf (e2n : List (Nat × Nat)) (c : Cell) (n0 n1 : Nat) : Prop :=
  ∃ p ∈ e2n, (n0 = c.nd p.1 ∧ n1 = c.nd p.2) ∨ (n0 = c.nd p.2 ∧ n1 = c.nd p.1)

/-- the cells of the four non-simplex groups have their `node_per` vertices -/
structure Arity (g : Grid) : Prop where
  qua : ∀ c ∈ g.qua, c.nodes.length = 4
  pyr : ∀ c ∈ g.pyr, c.nodes.length = 5
  pri : ∀ c ∈ g.pri, c.nodes.length = 6
  hex : ∀ c ∈ g.hex, c.nodes.length = 8

theorem hasSide_iff {e2n : List (Nat × Nat)} {cells : List Cell} {n0 n1 np : Nat}
    (hw : ∀ c ∈ cells, c.nodes.length = np) (hb : ∀ p ∈ e2n, p.1 < np ∧ p.2 < np) :
    hasSide e2n cells n0 n1 = true ↔ ∃ c ∈ cells, IsEdgeOf e2n c n0 n1 := by
  constructor
  · intro h
    obtain ⟨c, hc, _, p, hp, hs⟩ := hasSide_true h
    exact ⟨c, hc, p, hp, hs⟩
  · rintro ⟨c, hc, p, hp, hs⟩
    by_contra hne
    have hf : hasSide e2n cells n0 n1 = false := by simpa using hne
    have hn0 : n0 ∈ c.nodes := by
      have hl := hw c hc
      have hbp := hb p hp
      rcases hs with ⟨h, _⟩ | ⟨h, _⟩
      · rw [h]; exact nd_mem (by omega)
      · rw [h]; exact nd_mem (by omega)
    exact hasSide_false hf c hc hn0 p hp hs

theorem hasSide_eq_false_iff {e2n : List (Nat × Nat)} {cells : List Cell} {n0 n1 np : Nat}
    (hw : ∀ c ∈ cells, c.nodes.length = np) (hb : ∀ p ∈ e2n, p.1 < np ∧ p.2 < np) :
    hasSide e2n cells n0 n1 = false ↔ ∀ c ∈ cells, ¬ IsEdgeOf e2n c n0 n1 := by
  rw [← Bool.not_eq_true, hasSide_iff hw hb]
  simp

/-- some non-simplex cell has `(n0,n1)` as an edge -/
def MixedEdge (g : Grid) (n0 n1 : Nat) : Prop :=
  (∃ c ∈ g.pyr, IsEdgeOf e2nPyr c n0 n1) ∨ (∃ c ∈ g.pri, IsEdgeOf e2nPri c n0 n1) ∨
  (∃ c ∈ g.hex, IsEdgeOf e2nHex c n0 n1) ∨ (∃ c ∈ g.qua, IsEdgeOf e2nQua c n0 n1)

theorem splitEdgeMixed_true_iff {g : Grid} (hw : Arity g) (n0 n1 : Nat) :
    Guards.splitEdgeMixed g n0 n1 = true ↔ ¬ MixedEdge g n0 n1 := by
  unfold Guards.splitEdgeMixed MixedEdge
  simp only [Bool.and_eq_true, Bool.not_eq_true', hasSide_eq_false_iff hw.pyr e2nPyr_bound,
    hasSide_eq_false_iff hw.pri e2nPri_bound, hasSide_eq_false_iff hw.hex e2nHex_bound,
    hasSide_eq_false_iff hw.qua e2nQua_bound]
  constructor
  · rintro ⟨⟨⟨hp, hr⟩, hh⟩, hq⟩ (⟨c, hc, h⟩ | ⟨c, hc, h⟩ | ⟨c, hc, h⟩ | ⟨c, hc, h⟩)
    · exact hp c hc h
    · exact hr c hc h
    · exact hh c hc h
    · exact hq c hc h
  · intro h
    exact ⟨⟨⟨fun c hc hh => h (Or.inl ⟨c, hc, hh⟩), fun c hc hh => h (Or.inr (Or.inl ⟨c, hc, hh⟩))⟩,
      fun c hc hh => h (Or.inr (Or.inr (Or.inl ⟨c, hc, hh⟩)))⟩,
      fun c hc hh => h (Or.inr (Or.inr (Or.inr ⟨c, hc, hh⟩)))⟩

theorem swapEdgeMixed_eq_split (g : Grid) (n0 n1 : Nat) :
    Guards.swapEdgeMixed g n0 n1 = Guards.splitEdgeMixed g n0 n1 := by
  unfold Guards.swapEdgeMixed Guards.splitEdgeMixed
  cases hasSide e2nQua g.qua n0 n1 <;> cases hasSide e2nPri g.pri n0 n1 <;> cases hasSide e2nPyr g.pyr n0 n1 <;>
    cases hasSide e2nHex g.hex n0 n1 <;> rfl

/-- a vertex of some cell of the four frozen groups -/
def OnFrozen (g : Grid) (n : Nat) : Prop := ∃ c, (c ∈ g.qua ∨ c ∈ g.pyr ∨ c ∈ g.pri ∨ c ∈ g.hex) ∧ n ∈ c.nodes

theorem collapseEdgeMixed_true_iff (g : Grid) (n0 n1 : Nat) :
    Guards.collapseEdgeMixed g n0 n1 = true ↔ ¬ OnFrozen g n1 := by
  unfold Guards.collapseEdgeMixed OnFrozen
  simp only [Bool.and_eq_true, nodeEmpty_iff]
  constructor
  · rintro ⟨⟨⟨hp, hr⟩, hh⟩, hq⟩ ⟨c, (hc | hc | hc | hc), hn⟩
    · exact hq c hc hn
    · exact hp c hc hn
    · exact hr c hc hn
    · exact hh c hc hn
  · intro h
    exact ⟨⟨⟨fun c hc hn => h ⟨c, Or.inr (Or.inl hc), hn⟩, fun c hc hn => h ⟨c, Or.inr (Or.inr (Or.inl hc)), hn⟩⟩,
      fun c hc hn => h ⟨c, Or.inr (Or.inr (Or.inr hc)), hn⟩⟩, fun c hc hn => h ⟨c, Or.inl hc, hn⟩⟩

theorem nodeTouchesMixed_iff (g : Grid) (n : Nat) :
    nodeTouchesMixed g n = true ↔ ∃ c, (c ∈ g.pyr ∨ c ∈ g.pri ∨ c ∈ g.hex) ∧ n ∈ c.nodes := by
  unfold nodeTouchesMixed
  simp only [Bool.or_eq_true, Bool.not_eq_true', ← Bool.not_eq_true, nodeEmpty_iff]
  constructor
  · rintro ((h | h) | h)
    · obtain ⟨c, hc⟩ := Classical.not_forall.mp h
      obtain ⟨hc, hn⟩ := Classical.not_imp.mp hc
      exact ⟨c, Or.inl hc, Classical.not_not.mp hn⟩
    · obtain ⟨c, hc⟩ := Classical.not_forall.mp h
      obtain ⟨hc, hn⟩ := Classical.not_imp.mp hc
      exact ⟨c, Or.inr (Or.inl hc), Classical.not_not.mp hn⟩
    · obtain ⟨c, hc⟩ := Classical.not_forall.mp h
      obtain ⟨hc, hn⟩ := Classical.not_imp.mp hc
      exact ⟨c, Or.inr (Or.inr hc), Classical.not_not.mp hn⟩
  · rintro ⟨c, (hc | hc | hc), hn⟩
    · exact Or.inl (Or.inl fun h => h c hc hn)
    · exact Or.inl (Or.inr fun h => h c hc hn)
    · exact Or.inr fun h => h c hc hn

/-- `ref_smooth_tet_improve` goes past its early exits exactly for a vertex that is on no boundary triangle and on
    no non-simplex cell -/
theorem smoothTetFrozen_false_iff (g : Grid) (n : Nat) :
    smoothTetFrozen g n = false ↔ (∀ c ∈ g.tri, n ∉ c.nodes) ∧ ¬ OnFrozen g n := by
  unfold smoothTetFrozen
  constructor
  · intro h
    by_cases h1 : (!nodeEmpty g.tri n || !nodeEmpty g.qua n) = true
    · simp [h1] at h
    · by_cases h2 : nodeTouchesMixed g n = true
      · simp [h1, h2] at h
      · simp only [Bool.or_eq_true, Bool.not_eq_true', not_or, Bool.not_eq_false] at h1
        refine ⟨nodeEmpty_iff.mp h1.1, ?_⟩
        rintro ⟨c, (hc | hc | hc | hc), hn⟩
        · exact nodeEmpty_iff.mp h1.2 c hc hn
        · exact h2 ((nodeTouchesMixed_iff g n).mpr ⟨c, Or.inl hc, hn⟩)
        · exact h2 ((nodeTouchesMixed_iff g n).mpr ⟨c, Or.inr (Or.inl hc), hn⟩)
        · exact h2 ((nodeTouchesMixed_iff g n).mpr ⟨c, Or.inr (Or.inr hc), hn⟩)
  · rintro ⟨ht, hf⟩
    have h1 : nodeEmpty g.tri n = true := nodeEmpty_iff.mpr ht
    have h2 : nodeEmpty g.qua n = true := nodeEmpty_iff.mpr fun c hc hn => hf ⟨c, Or.inl hc, hn⟩
    have h3 : nodeTouchesMixed g n = false := by
      rw [← Bool.not_eq_true, nodeTouchesMixed_iff]
      rintro ⟨c, hc, hn⟩
      exact hf ⟨c, Or.inr hc, hn⟩
    simp [h1, h2, h3]

end Refine.MixedLemmas
