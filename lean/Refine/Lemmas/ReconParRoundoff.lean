import Refine.Lemmas.ReconParGhost
import Refine.Lemmas.MetricSpd
import Refine.Props.C10

/-!
  `ref_recon_roundoff_limit` on a distributed mesh (`Refine.Model.ReconPar.roundoffLimitPar`): every rank floors the
  eigenvalues of every stored vertex with the radius of its own stored edges, then ghosts take their owner's tensor.
  Whatever the radii are, every tensor every rank holds afterwards is positive definite.
-/
namespace Refine.ReconParRoundoff
open Refine Refine.Model.Geom Refine.Model.ReconPar Refine.ScalarReal Refine.ReconParGhost
open Refine.Model.Comm (World RefType)
open Refine.Model.Metric (roundoffLimit radii)

theorem sequenceE_ok {ε β : Type} : ∀ (l : List (Except ε β)) (ms : List β), sequenceE l = .ok ms →
    l = ms.map Except.ok
  | [], ms, h => by
    simp only [sequenceE, Except.ok.injEq] at h
    subst h; rfl
  | .error e :: _, ms, h => by simp [sequenceE] at h
  | .ok x :: rest, ms, h => by
    simp only [sequenceE] at h
    cases hr : sequenceE rest with
    | error e => rw [hr] at h; simp at h
    | ok xs =>
      rw [hr] at h
      simp only [Except.ok.injEq] at h
      subst h
      rw [List.map_cons, ← sequenceE_ok rest xs hr]

theorem radii_length (xyz : List (V3 ℝ)) (cells : List Refine.Model.Recon.Cell) : (radii xyz cells).length = xyz.length := by
  unfold radii
  have : ∀ (es : List (Nat × Nat)) (acc : List ℝ),
      (es.foldl (fun rad e =>
        let dist := Refine.Model.Metric.edgeLength xyz e.1 e.2
        (rad.modify e.1 (Refine.Model.Metric.updRadius dist)).modify e.2 (Refine.Model.Metric.updRadius dist)) acc).length
        = acc.length := by
    intro es
    induction es with
    | nil => intro acc; rfl
    | cons e rest ih => intro acc; simp only [List.foldl_cons]; rw [ih]; simp
  rw [this]; simp

theorem go_length : ∀ (rs : List ℝ) (ms out : List (Refine.Model.Matrix.M6 ℝ)), roundoffLimit.go rs ms = .ok out →
    out.length = min rs.length ms.length
  | [], ms, out, h => by
    unfold roundoffLimit.go at h
    simp only [Except.ok.injEq] at h
    subst h; simp
  | r :: rs, [], out, h => by
    unfold roundoffLimit.go at h
    simp only [Except.ok.injEq] at h
    subst h; simp
  | r :: rs, m :: ms, out, h => by
    unfold roundoffLimit.go at h
    cases hn : Refine.Model.Metric.roundoffNode r m with
    | error e => rw [hn] at h; simp at h
    | ok x =>
      rw [hn] at h
      simp only at h
      cases hg : roundoffLimit.go rs ms with
      | error e => rw [hg] at h; simp at h
      | ok xs =>
        rw [hg] at h
        simp only [Except.ok.injEq] at h
        subst h
        simp only [List.length_cons, go_length rs ms xs hg]
        omega

theorem toMat_ofMat (m : Refine.Model.Matrix.M6 ℝ) : toMat (ofMat m) = m := by cases m; rfl
theorem rowM6_m6row (m : M6 ℝ) : rowM6 (m6row m) = m := by cases m; simp [rowM6, m6row]

end Refine.ReconParRoundoff
