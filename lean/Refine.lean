-- root of the `Refine` library: models, generated tables, lemmas and property theorems
-- one import per line (union-merged)
import Refine.Scalar
import Refine.Gen.CellTables
import Refine.Gen.PartMacros
import Refine.Model.CellTopo
import Refine.Model.Geom
import Refine.Model.NodeIds
import Refine.Model.CellStore
import Refine.Lemmas.ScalarReal
import Refine.Lemmas.NodeIds
import Refine.Lemmas.CellStore
import Refine.Props.C15
import Refine.Props.C14NodeCell
