-- root of the `Refine` library: models, generated tables, lemmas and property theorems
-- one import per line (union-merged)
import Refine.Scalar
import Refine.Gen.CellTables
import Refine.Gen.PartMacros
import Refine.Model.CellTopo
import Refine.Model.Geom
import Refine.Model.Matrix
import Refine.Lemmas.ScalarReal
import Refine.Props.C15
import Refine.Lemmas.MatrixReal
import Refine.Lemmas.MatrixDiag2
import Refine.Lemmas.MatrixRot0
import Refine.Lemmas.MatrixFun
import Refine.Lemmas.MatrixInv
import Refine.Lemmas.MatrixQL
import Refine.Lemmas.MatrixBlock2
import Refine.Props.C16
