-- root of the `Refine` library: models, generated tables, lemmas and property theorems
-- one import per line (union-merged)
import Refine.Scalar
import Refine.Gen.CellTables
import Refine.Gen.PartMacros
import Refine.Model.CellTopo
import Refine.Model.Geom
import Refine.Model.Status
import Refine.Model.ContainersSort
import Refine.Model.Containers
import Refine.Model.ContainersAdj
import Refine.Model.ContainersAdjCheck
import Refine.Model.ContainersCheck
import Refine.Lemmas.ScalarReal
import Refine.Lemmas.ContainersSort
import Refine.Lemmas.ContainersHeap
import Refine.Lemmas.ContainersSortDbl
import Refine.Lemmas.ContainersListDict
import Refine.Lemmas.ContainersAdj
import Refine.Lemmas.ContainersAdjSeq
import Refine.Lemmas.ContainersAdjCheck
import Refine.Lemmas.ContainersCheck
import Refine.Props.C15
import Refine.Props.C14
