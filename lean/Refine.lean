-- root of the `Refine` library: models, generated tables, lemmas and property theorems
import Refine.Gen.CellTables
import Refine.Gen.PartMacros
import Refine.Model.CellTopo
import Refine.Props.C15
