-- root of the `Refine` library: models, generated tables, lemmas and property theorems
-- one import per line (union-merged)
import Refine.Scalar
import Refine.Gen.CellTables
import Refine.Gen.PartMacros
import Refine.Gen.MeshbKeywords
import Refine.Gen.PyrPerm
import Refine.Gen.MetricOrder
import Refine.Gen.CodecConsts
import Refine.Model.CellTopo
import Refine.Model.Geom
import Refine.Model.Meshb
import Refine.Model.Solb
import Refine.Lemmas.ScalarReal
import Refine.Lemmas.CodecBytes
import Refine.Lemmas.CodecC20
import Refine.Lemmas.CodecLayout
import Refine.Lemmas.CodecGref
import Refine.Lemmas.CodecBodies
import Refine.Lemmas.CodecRoundtrip
import Refine.Lemmas.SolbRoundtrip
import Refine.Props.C15
import Refine.Props.C08
import Refine.Props.C09
import Refine.Props.C20
