-- root of the `Refine` library: models, generated tables, lemmas and property theorems
-- one import per line (union-merged)
import Refine.Scalar
import Refine.Gen.CellTables
import Refine.Gen.PartMacros
import Refine.Gen.MeshbKeywords
import Refine.Gen.PyrPerm
import Refine.Gen.MetricOrder
import Refine.Gen.CodecConsts
import Refine.Model.CellTopo
import Refine.Model.Geom
import Refine.Model.Meshb
import Refine.Model.Solb
import Refine.Lemmas.ScalarReal
import Refine.Props.C15
