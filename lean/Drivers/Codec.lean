import Drivers.Proto
import Refine.Model.Meshb
import Refine.Model.Solb

/-! driver `codec`: `.meshb` / `.solb` encoders and decoders of the model, same op lines as harness/h_codec.c -/
namespace Drivers.Codec
open Drivers.Proto Refine.Model.Meshb Refine.Model.Solb

def hexOfBytes (b : Bytes) : String :=
  if b.isEmpty then "-" else
  String.ofList (b.flatMap fun x => [hexChar (x.toNat / 16), hexChar (x.toNat % 16)])

def bytesOfHex? (s : String) : Option Bytes :=
  if s == "-" then some [] else
  let rec go : List Char → List UInt8 → Option (List UInt8)
    | [], acc => some acc.reverse
    | [_], _ => none
    | a :: b :: r, acc =>
      match hexDigit? a, hexDigit? b with
      | some x, some y => go r (UInt8.ofNat (16 * x + y) :: acc)
      | _, _ => none
  go s.toList []

def bits? (s : String) : Option UInt64 :=
  if s.length ≠ 16 then none else (parseHex? s).map UInt64.ofNat

/-- as `h_pf`/`ob_dbl`: every NaN prints `nan` -/
def fmtBits (u : UInt64) : String :=
  let n := u.toNat
  if (n / 2 ^ 52) % 2048 = 2047 ∧ n % 2 ^ 52 ≠ 0 then "nan" else fmtHex64 u

def isInt (s : String) : Bool :=
  let cs := s.toList
  let ds := match cs with | '-' :: r => r | r => r
  !ds.isEmpty && ds.all Char.isDigit

def int? (s : String) : Option Int := if isInt s then s.toInt? else none
def inI32 (x : Int) : Bool := decide (-(2 ^ 31 : Int) ≤ x ∧ x < 2 ^ 31)

/-! ### write_meshb -/

structure WState where
  live : Array Bool
  o2n : Array Int
  cells : List (List (List Int))
  geoms : List GeomRec
  cad : Bytes

def o2nOf (live : List Bool) : Array Int :=
  (live.foldl (fun (acc : Array Int × Int) l => if l then (acc.1.push acc.2, acc.2 + 1) else (acc.1.push (-1), acc.2))
    (#[], 0)).1

partial def parseSlots : Nat → List String → List (Option Vertex) → Option (List (Option Vertex) × List String)
  | 0, ws, acc => some (acc.reverse, ws)
  | n + 1, "-" :: ws, acc => parseSlots n ws (none :: acc)
  | n + 1, x :: y :: z :: ws, acc =>
    match bits? x, bits? y, bits? z with
    | some x, some y, some z => parseSlots n ws (some ⟨x, y, z⟩ :: acc)
    | _, _, _ => none
  | _, _, _ => none

def liveNode (st : WState) (x : Int) : Bool :=
  decide (0 ≤ x) && st.live.getD x.toNat false

partial def parseCells (st : WState) (ci : CellInfo) : Nat → List String → List (List Int) →
    Option (List (List Int) × List String)
  | 0, ws, acc => some (acc.reverse, ws)
  | n + 1, ws, acc =>
    if ws.length < ci.sizePer then none else
    match (ws.take ci.sizePer).mapM int? with
    | none => none
    | some xs =>
      if !xs.all inI32 then none
      else if !(xs.take ci.nodePer).all (liveNode st) then none
      else
        let c := (xs.take ci.nodePer).map (fun x => st.o2n.getD x.toNat (-1)) ++ xs.drop ci.nodePer
        parseCells st ci n (ws.drop ci.sizePer) (c :: acc)

partial def parseGeoms (st : WState) : Nat → List String → List GeomRec → Option (List GeomRec × List String)
  | 0, ws, gs => some (gs, ws)
  | n + 1, t :: id :: gref :: nd :: p0 :: p1 :: ws, gs =>
    match int? t, int? id, int? gref, int? nd, bits? p0, bits? p1 with
    | some t, some id, some gref, some nd, some p0, some p1 =>
      if t < 0 ∨ 2 < t then none
      else if !liveNode st nd then none
      else if !(inI32 id && inI32 gref) then none
      else
        match geomAdd Cfg.current gs nd t.toNat id p0 p1 with
        | .error _ => none
        | .ok gs =>
          let gs := if 0 < t then geomSetGref gs nd t.toNat id gref else gs
          parseGeoms st n ws gs
    | _, _, _, _, _, _ => none
  | _, _, _ => none

partial def parseSections (st : WState) : List String → Option WState
  | [] => some st
  | "c" :: g :: nc :: ws =>
    match (cellInfos.zipIdx.find? (fun p => p.1.name == g)), int? nc with
    | some (ci, gi), some nc =>
      if nc < 0 then none else
      match parseCells st ci nc.toNat ws [] with
      | none => none
      | some (cs, ws) =>
        parseSections { st with cells := st.cells.zipIdx.map fun (old, i) => if i == gi then old ++ cs else old } ws
    | _, _ => none
  | "g" :: ng :: ws =>
    match int? ng with
    | some ng =>
      if ng < 0 ∨ ws.length < 6 * ng.toNat then none else
      match parseGeoms st ng.toNat ws st.geoms with
      | none => none
      | some (gs, ws) => parseSections { st with geoms := gs } ws
    | none => none
  | "b" :: h :: ws =>
    match bytesOfHex? h with
    | some b => parseSections { st with cad := b } ws
    | none => none
  | _ => none



def dumpMesh (m : MeshFile) : String :=
  let nodes := m.nodes.foldl (fun acc p => acc ++ " " ++ fmtBits p.x ++ " " ++ fmtBits p.y ++ " " ++ fmtBits p.z) ""
  let cells := (cellInfos.zip m.cells).foldl (fun acc (ci, cs) =>
    if cs.isEmpty then acc else
      acc ++ " c " ++ ci.name ++ " " ++ toString cs.length ++
        cs.foldl (fun a c => c.foldl (fun a x => a ++ " " ++ toString x) a) "") ""
  let geoms := if m.geoms.isEmpty then "" else
    " g " ++ toString m.geoms.length ++ m.geoms.foldl (fun a g =>
      a ++ s!" {g.type} {g.id} {g.gref} {g.node} " ++ fmtBits g.p0 ++ " " ++ fmtBits g.p1) ""
  let cad := if m.cad.isEmpty then "" else " b " ++ hexOfBytes m.cad
  s!"ok d {if m.twod then 2 else 3} n {m.nodes.length}" ++ nodes ++ cells ++ geoms ++ cad

def opWriteMeshb (roundtrip : Bool) (ws : List String) : String :=
  match ws with
  | v :: twod :: "n" :: ns :: rest =>
    match int? v, int? twod, int? ns with
    | some v, some twod, some ns =>
      if v < 0 ∨ 6 < v ∨ twod < 0 ∨ 1 < twod ∨ ns < 0 ∨ 60000 < ns then "bad-op" else
      match parseSlots ns.toNat rest [] with
      | none => "bad-op"
      | some (slots, rest) =>
        let live := slots.map Option.isSome
        let st : WState := { live := live.toArray, o2n := o2nOf live, cells := List.replicate 16 [], geoms := [], cad := [] }
        match parseSections st rest with
        | none => "bad-op"
        | some st =>
          let m : MeshFile :=
            { twod := twod == 1, nodes := slots.filterMap id, cells := st.cells,
              geoms := st.geoms.map (fun g => { g with node := st.o2n.getD g.node.toNat (-1) }), cad := st.cad }
          let ver := if 1 < v then v.toNat else 2
          if roundtrip then
            match decodeMeshbWith Cfg.current (encodeMeshb ver m) with
            | .ok m' => dumpMesh m'
            | .error e => e.name
          else "ok " ++ hexOfBytes (encodeMeshb ver m)
    | _, _, _ => "bad-op"
  | _ => "bad-op"

def opReadMeshb (ws : List String) : String :=
  match ws with
  | [h] =>
    match bytesOfHex? h with
    | none => "bad-op"
    | some bs =>
      match decodeMeshbWith Cfg.current bs with
      | .ok m => dumpMesh m
      | .error e => e.name
  | _ => "bad-op"

/-- generator support: which of the known hazards does the currently selected reader model (`Cfg.current`) run into?
    `hang` header scan does not return; `index K` accepted with a vertex index ≥ nnode (largest K);
    otherwise `clean` -/
def opClassifyMeshb (ws : List String) : String :=
  match ws with
  | [h] =>
    match bytesOfHex? h with
    | none => "bad-op"
    | some bs =>
      -- a second run with a 4 MB allocator: a different outcome means some `ref_adj_add` (or the CAD blob)
      -- asked for more than that on the way, whatever the final status is
      let small := decodeMeshbWith { Cfg.current with allocCap := 4000400 } bs
      match decodeMeshbWith Cfg.current bs with
      | .error .diverge => "hang"
      | .error .undefined => "index 2147483647"
      | .error e => if small != .error e then "index 1000000" else "clean"
      | .ok m =>
        if small != .ok m then "index 1000000"
        else if indicesInRange m then "clean" else
          let idx := ((cellInfos.zip m.cells).flatMap fun p => p.2.flatMap fun c => c.take p.1.nodePer) ++
                     m.geoms.map (·.node)
          s!"index {idx.foldl max 0}"
  | _ => "bad-op"

/-! ### solb -/

def perm? (nn : Nat) (ws : List String) : Option (List Nat) :=
  match (ws.take nn).mapM String.toNat? with
  | some p => if ws.length ≥ nn ∧ p.all (· < nn) ∧ p.eraseDups.length = nn ∧ (ws.take nn).all isInt then some p else none
  | none => none

def chunks (k : Nat) : Nat → List UInt64 → List (List UInt64)
  | 0, _ => []
  | n + 1, xs => xs.take k :: chunks k n (xs.drop k)

/-- rows by local index → rows by global index (`global[local i] = p[i]`) -/
def byGlobal (p : List Nat) (rows : List (List UInt64)) : List (List UInt64) :=
  (List.range p.length).map fun g => rows.getD (p.idxOf g) []

def opWriteField (metric : Bool) (ws : List String) : String :=
  match ws with
  | v :: twod :: nn :: rest =>
    match int? v, int? twod, int? nn with
    | some v, some twod, some nn =>
      if v < 0 ∨ 6 < v ∨ twod < 0 ∨ 1 < twod ∨ nn < 1 ∨ 60000 < nn then "bad-op" else
      let nn := nn.toNat
      match perm? nn rest with
      | none => "bad-op"
      | some p =>
        let rest := rest.drop nn
        let ver := if 1 < v then v.toNat else 2
        if metric then
          match rest.mapM bits? with
          | some xs =>
            if xs.length ≠ nn * 6 then "bad-op" else
            "ok " ++ hexOfBytes (encodeMetricSolb ver (twod == 1) (byGlobal p (chunks 6 nn xs)))
          | none => "bad-op"
        else
          match rest with
          | l :: rest =>
            match int? l, rest.mapM bits? with
            | some l, some xs =>
              if l < 0 ∨ 64 < l ∨ xs.length ≠ nn * l.toNat then "bad-op" else
              "ok " ++ hexOfBytes (encodeSolb ver
                { twod := twod == 1, ldim := l.toNat, rows := byGlobal p (chunks l.toNat nn xs) })
            | _, _ => "bad-op"
          | [] => "bad-op"
    | _, _, _ => "bad-op"
  | _ => "bad-op"

def fmtRows (rows : List (List UInt64)) : String :=
  rows.foldl (fun a r => r.foldl (fun a x => a ++ " " ++ fmtBits x) a) ""

def opReadField (metric : Bool) (ws : List String) : String :=
  match ws with
  | [nn, h] =>
    match int? nn, bytesOfHex? h with
    | some nn, some bs =>
      if nn < 1 ∨ 60000 < nn then "bad-op" else
      if metric then
        match decodeMetricSolbWith Cfg.current nn.toNat bs with
        | .ok ms => "ok" ++ fmtRows ms
        | .error e => e.name
      else
        match decodeSolbWith Cfg.current nn.toNat bs with
        | .ok (ldim, rows) => s!"ok {ldim}" ++ fmtRows rows
        | .error e => e.name
    | _, _ => "bad-op"
  | _ => "bad-op"

def opClassifyField (metric : Bool) (ws : List String) : String :=
  match ws with
  | [nn, h] =>
    match int? nn, bytesOfHex? h with
    | some nn, some bs =>
      if nn < 1 ∨ 60000 < nn then "bad-op" else
      let r : Except Status Unit :=
        if metric then (decodeMetricSolbWith Cfg.current nn.toNat bs).map (fun _ => ())
        else (decodeSolbWith Cfg.current nn.toNat bs).map (fun _ => ())
      match r with
      | .error .diverge => "hang"
      | .error .undefined => "ub"
      | _ =>
        -- the scalar reader sizes (and initialises) its block by the declared count before reading
        if !metric ∧ scalarAlloc Cfg.current nn.toNat bs > 2 ^ 26 then "alloc"
        else if !metric ∧ scalarIdleIterations Cfg.current nn.toNat bs > 10 ^ 6 then "slow"
        else "clean"
    | _, _ => "bad-op"
  | _ => "bad-op"

/-- `robust_*`: the property itself — the reader returns (with whatever status) -/
def opRobust (nargs : Nat) (ws : List String) : String :=
  if ws.length ≠ nargs then "bad-op" else
  match ws.getLast? >>= bytesOfHex? with
  | none => "bad-op"
  | some _ =>
    if nargs = 2 then
      match ws.head? >>= int? with
      | some nn => if nn < 1 ∨ 60000 < nn then "bad-op" else "returned"
      | none => "bad-op"
    else "returned"

/-- `robust_name W NAME`: the suffix dispatch returns for every name -/
def opRobustName (ws : List String) : String :=
  match ws with
  | [w, name] =>
    match int? w with
    | some w =>
      if w < 0 ∨ 2 < w ∨ name.length > 40 then "bad-op"
      else if !name.toList.all (fun c => c.isLower || c.isDigit || c == '.' || c == '_') then "bad-op"
      else if !name.startsWith "hcn_" then "bad-op"
      else "returned"
    | none => "bad-op"
  | _ => "bad-op"

def step (_ : Unit) (line : String) : Unit × String :=
  let r : String := match words line with
    | "write_meshb" :: ws => opWriteMeshb false ws
    | "rt_meshb" :: ws => opWriteMeshb true ws
    | "read_meshb" :: ws => opReadMeshb ws
    | "classify_meshb" :: ws => opClassifyMeshb ws
    | "write_solb" :: ws => opWriteField false ws
    | "write_metric" :: ws => opWriteField true ws
    | "read_solb" :: ws => opReadField false ws
    | "read_metric" :: ws => opReadField true ws
    | "classify_solb" :: ws => opClassifyField false ws
    | "classify_metric" :: ws => opClassifyField true ws
    | "robust_meshb" :: ws => opRobust 1 ws
    | "robust_translate" :: ws => opRobust 1 ws
    | "robust_solb" :: ws => opRobust 2 ws
    | "robust_metric" :: ws => opRobust 2 ws
    | "robust_name" :: ws => opRobustName ws
    | _ => "bad-op"
  ((), r)

def run (_ : List String) : IO UInt32 := do
  runLoop () step
  return 0

end Drivers.Codec
