import Drivers.Proto
import Refine.Model.Shufflin
import Refine.Model.DistIds
import Refine.Gen.CellTables

/-!
  driver `dist2`: `Refine.Model.Shufflin` behind the line protocol of `harness/h_dist2.c`.

      shufflin np N naux nround | node… C cell… | … (np rank groups) [| part…]*(nround-1)
          node = g,p,h1,…,h(15+naux)    cell = grp,id,g1,…,gk
          -> per rank `ok old new nunused N node… C cell…` (nodes by global, cells by (group, vertices, id)),
             rounds joined by ` ## `, ranks by ` | `; `bad-op` when the world is refused (see `worldOk`)
      idhist np | ev… | … (np rank groups)
          ev = N<n> | a<g> (set-up: `initNGlobal`, `add`) | F | T | R<g> | W<g> (`Refine.Model.DistIds.LocalOp` through
          `stepWorld`) | S (`stepWorld · .sync`)
          -> per rank the id state `newN oldN nUnused T local:global … U unused…` before and after every S and at the end
-/
namespace Drivers.Dist2
open Drivers.Proto Refine.Model.Dist Refine.Model.Shufflin
open Refine.Model.Comm (World)

def splitBar (ws : List String) : List (List String) :=
  let r := ws.foldr (fun t (acc : List String × List (List String)) =>
    if t == "|" then ([], acc.1 :: acc.2) else (t :: acc.1, acc.2)) ([], [])
  r.1 :: r.2

def join (ws : List String) : String := " ".intercalate ws
def fmtWorld (rs : List String) : String := " | ".intercalate rs

def LIMN : Nat := 100000
def MAXNODE : Nat := 2000
def MAXCELL : Nat := 4000
def NREAL : Nat := 15

/-- digits only, at most 10 of them (`is_nat_tok`) -/
def natTok (s : String) : Option Nat :=
  if s.length ≥ 1 && s.length ≤ 10 && s.toList.all (fun c => '0' ≤ c && c ≤ '9') then s.toNat? else none

/-- optional `-`, then digits (`is_int_tok`) -/
def intTok (s : String) : Option Int :=
  match s.toList with
  | '-' :: rest => (natTok (String.ofList rest)).map fun n => -(n : Int)
  | _ => (natTok s).map fun n => (n : Int)

/-- 16 lower-case hex digits -/
def hexTok (s : String) : Option Nat :=
  if s.length == 16 && s.toList.all (fun c => ('0' ≤ c && c ≤ '9') || ('a' ≤ c && c ≤ 'f')) then parseHex? s else none

def parseNode (n np nval : Nat) (t : String) : Option DNode :=
  match t.splitOn "," with
  | a :: b :: vs => match natTok a, natTok b, vs.mapM hexTok with
    | some g, some p, some pl =>
      if g < n && p < np && pl.length == nval then some ⟨(g : Int), (p : Int), pl⟩ else none
    | _, _, _ => none
  | _ => none

def parseCell (n : Nat) (t : String) : Option DCell :=
  match t.splitOn "," with
  | a :: b :: vs => match natTok a, intTok b, vs.mapM natTok with
    | some grp, some id, some ns =>
      match Refine.Gen.CellTables.all[grp]? with
      | some ct =>
        if grp < NGROUP && ct.nodePer == ns.length && (ct.lastNodeIsId || id == 0) && ns.all (· < n) then
          some ⟨grp, ns.map fun (v : Nat) => (v : Int), id⟩
        else none
      | none => none
    | _, _, _ => none
  | _ => none

def parseRank (n np nval : Nat) (g : List String) : Option RankState :=
  let nt := g.takeWhile (· != "C")
  let rest := g.dropWhile (· != "C")
  match rest with
  | "C" :: ct =>
    if ct.contains "C" || nt.length > MAXNODE || ct.length > MAXCELL then none else
    match nt.mapM (parseNode n np nval), ct.mapM (parseCell n) with
    | some nodes, some cells => some ⟨nodes, cells, (n : Int), (n : Int), 0⟩
    | _, _ => none
  | _ => none

def parseRound (n np : Nat) (g : List String) : Option (List Int) :=
  if g.length != n then none else
  g.mapM fun t => match natTok t with
    | some p => if p < np then some (p : Int) else none
    | none => none

/-- lexicographic `<` on keys of equal length -/
def lexLt : List Int → List Int → Bool
  | a :: as, b :: bs => if a < b then true else if b < a then false else lexLt as bs
  | _, _ => false

def cellKey (c : DCell) : List Int :=
  [(c.group : Int), (c.nodes.length : Int)] ++ c.nodes ++ List.replicate (9 - c.nodes.length) (-1) ++ [c.id]

def fmtNode (nd : DNode) : String :=
  s!"{nd.glob},{nd.part}" ++ String.join (nd.payload.map fun v => "," ++ fmtHex64 v.toUInt64)

def fmtCell (c : DCell) : String :=
  s!"{c.group},{c.id}" ++ String.join (c.nodes.map fun v => s!",{v}")

def fmtRank (s : RankState) : String :=
  let nodes := s.nodes.mergeSort fun a b => decide (a.glob ≤ b.glob)
  let cells := s.cells.mergeSort fun a b => !lexLt (cellKey b) (cellKey a)
  join (["ok", toString s.oldN, toString s.newN, toString s.nUnused, "N"] ++ nodes.map fmtNode ++ ["C"] ++ cells.map fmtCell)

/-- the rounds: round 0 on the world as given, round `k ≥ 1` after `setParts` with the k-th part array -/
def runRounds (ldim : Nat) : World RankState → List (Option (List Int)) → List (Option (World RankState))
  | _, [] => []
  | w, r :: rest =>
    let w0 := match r with
      | some arr => setParts (fun g => arr.getD g.toNat (-1)) w
      | none => w
    match shufflin ldim w0 with
    | some w' => some w' :: runRounds ldim w' rest
    | none => [none]

def opShufflin (np : Nat) (rest : List String) : String :=
  match splitBar rest with
  | [nS, auxS, rS] :: gs =>
    match natTok nS, natTok auxS, natTok rS with
    | some n, some naux, some nround =>
      if n > LIMN || naux > 4 || nround < 1 || nround > 8 || np < 1 || gs.length != np + nround - 1 then "bad-op" else
      let nval := NREAL + naux
      match (gs.take np).mapM (parseRank n np nval), (gs.drop np).mapM (parseRound n np) with
      | some w, some rounds =>
        if !worldOk w then "bad-op" else
        let outs := runRounds nval w (none :: rounds.map some)
        let perRank : List String := (List.range np).map fun r =>
          " ## ".intercalate (outs.map fun o => match o with
            | some w' => match w'[r]? with
              | some s => fmtRank s
              | none => "hang"
            | none => "hang")
        fmtWorld perRank
      | _, _ => "bad-op"
    | _, _, _ => "bad-op"
  | _ => "bad-op"

/-! ### id histories -/
open Refine.Model.NodeIds Refine.Model.DistIds

inductive Ev
  | initN (n : Int) | addG (g : Int) | fresh | trial | rem (g : Int) | remW (g : Int) | sync

def parseEv (first : Bool) (t : String) : Option Ev :=
  if t == "S" then some .sync else if t == "F" then some .fresh else if t == "T" then some .trial else
  match t.toList with
  | c :: rest =>
    match natTok (String.ofList rest) with
    | some n =>
      if n ≥ LIMN then none
      else if c == 'a' then some (.addG n) else if c == 'R' then some (.rem n) else if c == 'W' then some (.remW n)
      else if c == 'N' && first then some (.initN n) else none
    | none => none
  | [] => none

def parseEvs : List String → Bool → Option (List Ev)
  | [], _ => some []
  | t :: rest, first => match parseEv first t, parseEvs rest false with
    | some e, some es => some (e :: es)
    | _, _ => none

def fmtIdState (s : NodeIds) : String :=
  join ([toString s.newN, toString s.oldN, toString s.nUnused, "T"] ++
    (liveTable s).map (fun lg => s!"{lg.1}:{lg.2}") ++ ["U"] ++ (unusedArr s).map toString)

/-- the events of rank `r` up to (not including) its next `S`; what is left after that `S` -/
def segment : List Ev → List Ev × List Ev
  | [] => ([], [])
  | .sync :: rest => ([], rest)
  | e :: rest => let p := segment rest; (e :: p.1, p.2)

/-- one non-sync event of rank `r`: the set-up events act on the rank directly, the four local operations go through
    `Refine.Model.DistIds.stepWorld` (`R<g>` / `W<g>`: `ref_node_local` first; a global that is not stored: nothing) -/
def applyEv (w : World NodeIds) (r : Nat) (e : Ev) : World NodeIds :=
  match w[r]? with
  | none => w
  | some s =>
    match e with
    | .initN n => w.set r (s.initNGlobal n)
    | .addG g => w.set r (s.add g).2.2
    | .fresh => stepWorld w (.op r .addFresh)
    | .trial => stepWorld w (.op r .trial)
    | .rem g => match s.localOf g with
      | (.ok, node) => stepWorld w (.op r (.remove node))
      | _ => w
    | .remW g => match s.localOf g with
      | (.ok, node) => stepWorld w (.op r (.removeWithoutGlobal node))
      | _ => w
    | .sync => w

/-- `nsync` synchronisations; between two of them the ranks act independently: rank-major order -/
def runHist : Nat → World NodeIds → List (List Ev) → List (List String) → List (List String)
  | 0, w, evs, acc =>
    let segs := evs.map segment
    let w1 := (segs.zipIdx).foldl (fun w sr => sr.1.1.foldl (fun w e => applyEv w sr.2 e) w) w
    (acc.zip w1).map fun x => x.1 ++ [fmtIdState x.2]
  | k + 1, w, evs, acc =>
    let segs := evs.map segment
    let w1 := (segs.zipIdx).foldl (fun w sr => sr.1.1.foldl (fun w e => applyEv w sr.2 e) w) w
    let w2 := stepWorld w1 .sync
    let acc' := (acc.zip (w1.zip w2)).map fun x => x.1 ++ [fmtIdState x.2.1, fmtIdState x.2.2]
    runHist k w2 (segs.map (·.2)) acc'

def opIdHist (np : Nat) (rest : List String) : String :=
  match splitBar rest with
  | [] :: gs =>
    if gs.length != np || np < 1 || gs.any (fun g => g.length > 4000) then "bad-op" else
    match gs.mapM fun g => parseEvs g true with
    | none => "bad-op"
    | some evs =>
      let nsyncs := evs.map fun es => (es.filter fun e => match e with | .sync => true | _ => false).length
      match nsyncs with
      | [] => "bad-op"
      | n0 :: _ =>
        if nsyncs.any (· != n0) then "bad-op" else
        let outs := runHist n0 (List.replicate np NodeIds.create) evs (List.replicate np [])
        fmtWorld (outs.map fun ds => " ## ".intercalate ds)
  | _ => "bad-op"

def step (_ : Unit) (line : String) : Unit × String :=
  match words line with
  | "shufflin" :: np :: rest => match natTok np with
    | some np => ((), opShufflin np rest)
    | none => ((), "bad-op")
  | "idhist" :: np :: rest => match natTok np with
    | some np => ((), opIdHist np rest)
    | none => ((), "bad-op")
  | _ => ((), "bad-op")

def run (_ : List String) : IO UInt32 := do
  runLoop () step
  return 0

end Drivers.Dist2
