import Drivers.Proto
import Refine.Model.Interp

/-! driver `interp`: the donor-cell search of `ref_interp.c` (Float instance of `Refine.Model.Interp`, bit-compared
    with `harness/h_interp.c`) -/
namespace Drivers.Interp
open Drivers.Proto Refine Refine.Model.Geom Refine.Model.Search Refine.Model.Interp

abbrev F := Float

structure St where
  active : Bool := false
  twod : Bool := false
  xyz : Array (V3 F) := #[]
  cells : List (Int × CellN) := []      -- increasing id
  free : List Int := []                 -- `ref_cell` blank chain of removed ids (LIFO)
  hi : Nat := 0                         -- ids handed out so far from the untouched part of the blank chain
  btris : List (Nat × Nat × Nat) := []
  scale : F := 2.0
  fuzz : F := floatOfDec 1 (-12)
  tree : Option (Search F) := none

def v3 (a b c : F) : V3 F := ⟨a, b, c⟩

def donor (s : St) : Donor F := ⟨s.twod, s.xyz.toList, s.cells, s.btris⟩

def insertSorted (c : Int) (n : CellN) : List (Int × CellN) → List (Int × CellN)
  | [] => [(c, n)]
  | (c', n') :: rest => if c < c' then (c, n) :: (c', n') :: rest else (c', n') :: insertSorted c n rest

def distinctIn (nn : Nat) (ids : List Int) : Bool :=
  ids.all (fun i => decide (0 ≤ i ∧ i < Int.ofNat nn)) && ids.eraseDups.length == ids.length

/-- the harness accepts integers of at most 9 digits -/
def smallInt? (w : String) : Option Int :=
  match w.toInt? with
  | some i => if i.natAbs < 1000000000 && !(w.startsWith "+") then some i else none
  | none => none

def fmtB (b : B4 F) : String := s!" {fmtF b.b0} {fmtF b.b1} {fmtF b.b2} {fmtF b.b3}"

def ptsOf : List F → List (V3 F)
  | a :: b :: c :: rest => v3 a b c :: ptsOf rest
  | _ => []

def dump (s : Search F) : String :=
  let n := s.n
  let rows := s.root.rows
  let item := rows.foldl (fun (a : Array Int) r => a.setIfInBounds r.1 r.2.1) (Array.replicate n (-1))
  let left := rows.foldl (fun (a : Array Int) r => a.setIfInBounds r.1 r.2.2.1) (Array.replicate n (-1))
  let right := rows.foldl (fun (a : Array Int) r => a.setIfInBounds r.1 r.2.2.2.1) (Array.replicate n (-1))
  let ball := rows.foldl (fun (a : Array F) r => a.setIfInBounds r.1 r.2.2.2.2.1) (Array.replicate n 0.0)
  let ints (a : Array Int) := String.join (a.toList.map fun i => " " ++ toString i)
  let fs (a : Array F) := String.join (a.toList.map fun f => " " ++ fmtF f)
  s!"ok {n} {s.empty} I{ints item} L{ints left} R{ints right} B{fs ball}"

/-- `ref_interp_scalar` over the located receptor nodes: all clips first (first non-ok status wins), then the sums,
    then the `isfinite` assertions -/
def interpAll (nodePer : Nat) (d : Donor F) (a gx gy gz : F) (ts : List (V3 F × Int × B4 F)) : String × List (Option F) :=
  let field (i : Nat) : F := let p := d.pt i; a + gx * p.x + gy * p.y + gz * p.z
  let clips := ts.map fun t => clipBary4 t.2.2
  match clips.find? (fun c => c.1 != Refine.Model.Geom.St.ok) with
  | some c => (c.1.name, ts.map fun _ => none)
  | none =>
    let vals := ts.map fun t =>
      match d.cellAt t.2.1 with
      | some n => (interpScalar nodePer t.2.2 ⟨field n.n0, field n.n1, field n.n2, field n.n3⟩).2
      | none => 0.0
    if vals.all Float.isFinite then ("ok", vals.map some) else ("failure", ts.map fun _ => none)

def step (st : St) (line : String) : St × String :=
  match words line with
  | ["reset", t] =>
      if t == "0" || t == "1" then ({ active := true, twod := t == "1" }, "ok") else (st, "bad-op")
  | ws =>
  if !st.active then (st, "bad-op") else
  let built := st.tree.isSome
  match ws with
  | ["node", x, y, z] => match parseFs? [x, y, z] with
      | some [x, y, z] =>
          if built || st.xyz.size ≥ 100000 then (st, "bad-op") else ({ st with xyz := st.xyz.push (v3 x y z) }, "ok")
      | _ => (st, "bad-op")
  | "cell" :: ids => match ids.mapM smallInt? with
      | some is =>
          if built || is.length != (if st.twod then 3 else 4) || !distinctIn st.xyz.size is then (st, "bad-op") else
          let ns := is.map Int.toNat
          let n : CellN := ⟨ns.getD 0 0, ns.getD 1 0, ns.getD 2 0, ns.getD 3 0⟩
          match st.free with
          | c :: rest => ({ st with cells := insertSorted c n st.cells, free := rest }, s!"ok {c}")
          | [] =>
            let c : Int := Int.ofNat st.hi
            ({ st with cells := insertSorted c n st.cells, hi := st.hi + 1 }, s!"ok {c}")
      | none => (st, "bad-op")
  | ["rmcell", c] => match smallInt? c with
      | some c =>
          if built || !(st.cells.any fun p => p.1 == c) then (st, "bad-op") else
          ({ st with cells := st.cells.filter (fun p => p.1 != c), free := c :: st.free }, "ok")
      | none => (st, "bad-op")
  | ["btri", a, b, c, id] => match [a, b, c, id].mapM smallInt? with
      | some [a, b, c, id] =>
          if built || st.twod || !distinctIn st.xyz.size [a, b, c] || id < 1 || id > 100 then (st, "bad-op") else
          ({ st with btris := st.btris ++ [(a.toNat, b.toNat, c.toNat)] }, "ok")
      | _ => (st, "bad-op")
  | ["bedg", a, b, id] => match [a, b, id].mapM smallInt? with
      | some [a, b, id] =>
          if built || !st.twod || !distinctIn st.xyz.size [a, b] || id < 1 || id > 100 then (st, "bad-op") else (st, "ok")
      | _ => (st, "bad-op")
  | "build" :: rest =>
      let sc : Option F := match rest with
        | [] => some st.scale
        | [w] => parseF? w
        | _ => none
      match sc with
      | some sc =>
          if built || st.cells.isEmpty then (st, "bad-op") else
          let st := { st with scale := sc }
          match createSearch (donor st) sc with
          | (.ok, some s) => ({ st with tree := some s }, s!"ok {s.n} {s.empty}")
          | (e, _) => (st, (ISt.ofSearch e).name)
      | none => (st, "bad-op")
  | _ =>
  match st.tree with
  | none => (st, "bad-op")
  | some s =>
  let d := donor st
  let inside : F := insideDefault
  match ws with
  | ["dump"] => (st, dump s)
  | ["sphere", c] => match smallInt? c with
      | some c => match s.root.pre.find? (fun e => e.item == c) with
          | some e => (st, s!"ok {fmtF e.pos.x} {fmtF e.pos.y} {fmtF e.pos.z} {fmtF e.rad}")
          | none => (st, "bad-op")
      | none => (st, "bad-op")
  | ["fuzz", f] => match parseF? f with
      | some f => ({ st with fuzz := f }, "ok")
      | none => (st, "bad-op")
  | ["touch", x, y, z, r] => match parseFs? [x, y, z, r] with
      | some [x, y, z, r] =>
          let l := s.touching (v3 x y z) r
          (st, "ok " ++ toString l.length ++ String.join (l.map fun i => " " ++ toString i))
      | _ => (st, "bad-op")
  | "inlist" :: x :: y :: z :: cs => match parseFs? [x, y, z], cs.mapM smallInt? with
      | some [x, y, z], some cs =>
          match enclosingInList d cs (v3 x y z) with
          | (.ok, c, b) => (st, s!"ok {c}" ++ fmtB b)
          | (e, _, _) => (st, e.name)
      | _, _ => (st, "bad-op")
  | ["tree", x, y, z] => match parseFs? [x, y, z] with
      | some [x, y, z] =>
          match treeOne d s st.fuzz (v3 x y z) with
          | (.ok, c, b) => (st, if c == refEmpty then "ok 1 -1" else s!"ok 0 {c}" ++ fmtB b)
          | (e, _, _) => (st, e.name)
      | _ => (st, "bad-op")
  | ["walk", seed, step0, x, y, z] => match smallInt? seed, smallInt? step0, parseFs? [x, y, z] with
      | some seed, some step0, some [x, y, z] =>
          if step0 < 0 || step0 > 300 then (st, "bad-op") else
          match walkAgent d inside (v3 x y z) ⟨.walking, seed, step0.toNat, zeroB4⟩ with
          | (.ok, a) =>
              (st, s!"ok {a.mode.name} {a.seed} {a.step}" ++ (if a.mode == .enclosing then fmtB a.bary else ""))
          | (e, _) => (st, e.name)
      | _, _, _ => (st, "bad-op")
  | ["locnode", seed, x, y, z] => match smallInt? seed, parseFs? [x, y, z] with
      | some seed, some [x, y, z] =>
          if seed < 0 then (st, "bad-op") else
          match locateNode d s inside st.fuzz seed (v3 x y z) with
          | (.ok, c, b) => (st, s!"ok {c}" ++ fmtB b)
          | (e, _, _) => (st, e.name)
      | _, _ => (st, "bad-op")
  | "locate" :: a :: gx :: gy :: gz :: ps => match parseFs? [a, gx, gy, gz], parseFs? ps with
      | some [a, gx, gy, gz], some fs =>
          if fs.length % 3 != 0 || fs.length > 6000 then (st, "bad-op") else
          let (e, fuzz, ts) := locateTree d s st.fuzz (ptsOf fs)
          if e != .ok then (st, s!"{e.name} {fmtF fuzz}") else
          let (ie, vals) := interpAll (if st.twod then 3 else 4) d a gx gy gz ts
          let body := String.join ((ts.zip vals).map fun (t, v) =>
            s!" | {t.2.1}" ++ fmtB t.2.2 ++ (match v with | some v => " " ++ fmtF v | none => ""))
          (st, s!"ok {fmtF fuzz} {ie}" ++ body)
      | _, _ => (st, "bad-op")
  | _ => (st, "bad-op")

def run (_args : List String) : IO UInt32 := do
  runLoop ({} : St) step
  return 0

end Drivers.Interp
