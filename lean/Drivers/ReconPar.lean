import Drivers.Proto
import Drivers.Geom
import Refine.Model.ReconPar

/-! driver `reconpar`: the SPMD model of the parallel reconstruction paths (`Refine.Model.ReconPar`) at the `Float`
    instance.  Stateless; one op line carries the global mesh data, the owner of every global vertex and, per rank,
    the stored vertices (local → global) and cells (local indices) — see `harness/h_reconpar.c`:

      <op> np twod nn tag <3*nn xyz> <ns field> <nn part> | nl g.. nc (kind n..)* ne (a b)* | ...

    ops: l2grad l2hess signed_hess kx_grad kx_hess cloud1 roundoff extrap
    output: `<status> | <values of rank 0, every stored vertex in local order> | <rank 1> | ...` -/
namespace Drivers.ReconPar
open Drivers.Proto Refine Refine.Model.Geom Refine.Model.Recon Refine.Model.ReconPar

abbrev F := Float

/-- split at the `|` words -/
def splitBars (ws : List String) : List (List String) :=
  (ws.foldr (fun w acc =>
      match acc with
      | [] => if w == "|" then [[], []] else [[w]]
      | cur :: rest => if w == "|" then [] :: cur :: rest else (w :: cur) :: rest) [[]])

def isNatTok (s : String) : Bool := !s.isEmpty && s.length ≤ 8 && s.all Char.isDigit

def natTok? (s : String) : Option Nat := if isNatTok s then s.toNat? else none

def distinct (l : List Nat) : Bool :=
  match l with
  | [] => true
  | x :: xs => !xs.contains x && distinct xs

/-- `nc` cells: kind + local nodes; 3-D grids also take tri/qua (boundary faces) -/
def parseCellsN (twod : Bool) (nl : Nat) : Nat → List String → List Cell → Option (List Cell × List String)
  | 0, ws, acc => some (acc.reverse, ws)
  | k + 1, ws, acc =>
    match ws with
    | [] => none
    | kd :: rest =>
      match Drivers.Geom.kindOf kd with
      | none => none
      | some kind =>
        let sz := Drivers.Geom.kindSize kind
        if (twod && !Drivers.Geom.is2d kind) || rest.length < sz then none else
        match (rest.take sz).mapM natTok? with
        | none => none
        | some ns =>
          if ns.all (· < nl) && distinct ns then parseCellsN twod nl k (rest.drop sz) (⟨kind, ns⟩ :: acc) else none

def pairs : List Nat → List (Nat × Nat)
  | a :: b :: rest => (a, b) :: pairs rest
  | _ => []

/-- one rank group -/
def parseRank (twod : Bool) (nn : Nat) (part : List Nat) (ws : List String) : Option Rank :=
  match ws with
  | [] => none
  | nls :: rest =>
    match natTok? nls with
    | none => none
    | some nl =>
      if nl > nn || rest.length < nl then none else
      match (rest.take nl).mapM natTok? with
      | none => none
      | some gs =>
        if !(gs.all (· < nn)) || !distinct gs then none else
        match rest.drop nl with
        | [] => none
        | ncs :: rest2 =>
          match natTok? ncs with
          | none => none
          | some nc =>
            match parseCellsN twod nl nc rest2 [] with
            | none => none
            | some (cells, rest3) =>
              match rest3 with
              | [] => none
              | nes :: rest4 =>
                match natTok? nes, rest4.mapM natTok? with
                | some ne, some es =>
                  if (ne > 0 && !twod) || es.length != 2 * ne || !(es.all (· < nl)) then none else
                  let ed := pairs es
                  if ed.any (fun e => e.1 == e.2) then none else
                  some ⟨gs, gs.map (fun g => part.getD g 0), cells, ed⟩
                | _, _ => none

structure Op where
  tag : String
  twod : Bool
  nn : Nat
  xyz : List (V3 F)
  fld : List F
  w : List Rank

def parseOp (tensor : Bool) (ws : List String) : Option Op :=
  match splitBars ws with
  | [] => none
  | hd :: groups =>
    match hd with
    | nps :: tws :: nns :: tag :: rest =>
      match natTok? nps, natTok? tws, natTok? nns with
      | some np, some tw, some nn =>
        let ns := if tensor then 6 * nn else nn
        if tw > 1 || nn == 0 || nn > 4000 || np > 64 || np == 0 || groups.length != np
           || rest.length != 3 * nn + ns + nn then none else
        match parseFs? (rest.take (3 * nn)), parseFs? ((rest.drop (3 * nn)).take ns),
              ((rest.drop (3 * nn + ns)).mapM natTok?) with
        | some xs, some fs, some part =>
          if !(part.all (· < np)) then none else
          match groups.mapM (parseRank (tw == 1) nn part) with
          | some w => some ⟨tag, tw == 1, nn, Drivers.Geom.v3s xs, fs, w⟩
          | none => none
        | _, _, _ => none
      | _, _, _ => none
    | _ => none

def fmtRanks (rows : List (List F)) : String :=
  String.join (rows.map fun vals => " |" ++ String.join (vals.map fun v => " " ++ fmtF v))

def v3vals (l : List (V3 F)) : List F := l.flatMap fun v => [v.x, v.y, v.z]
def m6vals (l : List (M6 F)) : List F := l.flatMap fun m => [m.m0, m.m1, m.m2, m.m3, m.m4, m.m5]

def m6s : List F → List (M6 F)
  | a :: b :: c :: d :: e :: f :: rest => ⟨a, b, c, d, e, f⟩ :: m6s rest
  | _ => []

def fmtCloud (c : List (Refine.Model.Kexact.Item F)) : String :=
  " " ++ toString c.length ++ String.join (c.map fun it =>
    " " ++ toString it.g ++ " " ++ fmtFs [it.x, it.y, it.z, it.s])

def step (_ : Unit) (line : String) : Unit × String :=
  let ws := words line
  let r : String :=
    match ws with
    | [] => "bad-op"
    | op :: rest =>
      if !(["l2grad", "l2hess", "signed_hess", "kx_grad", "kx_hess", "cloud1", "roundoff", "extrap"].contains op) then "bad-op" else
      match parseOp (op == "roundoff" || op == "extrap") rest with
      | none => "bad-op"
      | some o =>
        let s : List (List F) := o.w.map fun r => r.restrict 0.0 o.fld
        match op with
        | "l2grad" =>
          (match l2gradPar o.twod o.xyz o.w s with
           | some (st, g) => st.name ++ fmtRanks (g.map v3vals)
           | none => "hang")
        | "l2hess" =>
          (match l2hessianPar o.twod o.xyz o.w s with
           | some h => "ok" ++ fmtRanks (h.map m6vals)
           | none => "hang")
        | "signed_hess" =>
          (match signedHessianL2Par o.twod o.xyz o.w s with
           | some h => "ok" ++ fmtRanks (h.map m6vals)
           | none => "hang")
        | "kx_grad" =>
          (match kexactGradPar o.twod o.xyz o.w s with
           | some g => "ok" ++ fmtRanks (g.map v3vals)
           | none => "hang")
        | "kx_hess" =>
          (match kexactHessPar o.twod o.xyz o.w s with
           | some h => "ok" ++ fmtRanks (h.map m6vals)
           | none => "hang")
        | "cloud1" =>
          let cl0 := (o.w.zip s).mapIdx fun me x => localClouds o.twod o.xyz me x.1 x.2
          (match ghostCloud o.w cl0 with
           | some cl => "ok" ++ String.join (cl.map fun rk => " |" ++ String.join (rk.map fmtCloud))
           | none => "hang")
        | "extrap" =>
          let cs := o.tag.toList
          if cs.head? != some 'm' || cs.length != o.nn + 1 || !(cs.tail.all fun c => c == '0' || c == '1') then "bad-op" else
          let mask : List Bool := cs.tail.map (· == '1')
          let rows : List (List (List F)) := o.w.map fun r =>
            (r.restrict ⟨0.0, 0.0, 0.0, 0.0, 0.0, 0.0⟩ (m6s o.fld)).map m6row
          let rep : List (List (List Bool)) := o.w.map fun r => (r.restrict false mask).map (List.replicate 6)
          (match extrapolateZeroth o.w 6 rows rep with
           | some x => "ok" ++ fmtRanks (x.1.map List.flatten)
           | none => "hang")
        | _ =>
          let ms : List (List (M6 F)) := o.w.map fun r => r.restrict ⟨0.0, 0.0, 0.0, 0.0, 0.0, 0.0⟩ (m6s o.fld)
          (match roundoffLimitPar o.xyz o.w ms with
           | .error e => e.name ++ fmtRanks (o.w.map fun _ => [])
           | .ok none => "hang"
           | .ok (some h) => "ok" ++ fmtRanks (h.map m6vals))
  ((), r)

def run (_ : List String) : IO UInt32 := do
  runLoop () step
  return 0

end Drivers.ReconPar
