import Drivers.Proto
import Drivers.Cavity
import Refine.Model.Cavity2

/-! driver `cavity2`: the parts of `ref_cavity.c` around the insert / verify / replace core (`Model/Cavity2.lean`) at the
    `Float` instance.  Same op lines as `harness/h_cavity2.c`, byte-identical output lines (the vocabulary of
    `Drivers/Cavity.lean` plus form_swap / form_ball / form_insert / form_insert_tet / add_tet_wo / enlarge_face /
    enlarge_seg / visible_face / manifold / enlarge_visible / enlarge_conforming / enlarge_combined / ratio / change /
    normdev / ledger / node23 / metric / limits).

    `refdrv cavity2 replay` reads the records a hooked real `ref_cavity_pass` / `ref_collapse_pass` / `ref_adapt_pass`
    printed at every `cavity_replace` begin / accept: it rebuilds the local grid and the cavity, requires the state
    `visible`, both manifold verifications, the certificate `certOk` (listed cells live, faces non-degenerate, conformity ledger) and `faceVisible` on every face that gets a tet, runs
    `Cavity.replace` and compares the resulting stars with the accept record. -/
namespace Drivers.Cavity2
open Drivers.Proto Refine Refine.Model.Cavity Refine.Model.Cavity2 Refine.Model.Geom
open Drivers.Cavity (nodeLimit stLine cavDump gridDump distinct freshCav dumpRows lexLe)

abbrev F := Float

structure DSt where
  g : Grid F
  c : Cav
  met : Met F
  pmin : F
  pmax : F

def identM : M6 F := ⟨1.0, 0.0, 0.0, 1.0, 0.0, 1.0⟩
def zeroM : M6 F := ⟨0.0, 0.0, 0.0, 0.0, 0.0, 0.0⟩

/-- `post_min_ratio = 1.0e-3`, `post_max_ratio = 3.0` of `ref_adapt_create`, as bit patterns -/
def pminDefault : F := Float.ofBits 0x3f50624dd2f1a9fc
def pmaxDefault : F := Float.ofBits 0x4008000000000000

def initSt (twod : Bool) : DSt :=
  ⟨{ (Grid.create : Grid F) with twod := twod }, freshCav, ⟨[], []⟩, pminDefault, pmaxDefault⟩

def nodeOk (s : DSt) (v : Int) : Bool := decide (0 ≤ v) && decide (v < nodeLimit) && s.g.nodeValid v

def setAt {β : Type} (l : List β) (i : Nat) (x d : β) : List β :=
  if i < l.length then l.set i x else l ++ List.replicate (i - l.length) d ++ [x]

def setMet (s : DSt) (i : Nat) (m l : M6 F) : DSt :=
  { s with met := ⟨setAt s.met.met i m identM, setAt s.met.logm i l zeroM⟩ }

/-- every node the cavity refers to is a valid node of the grid (`ref_cavity_validate`) -/
def cavNodesOk (s : DSt) : Bool :=
  nodeOk s s.c.node && (s.c.surfNode == -1 || nodeOk s s.c.surfNode) &&
  s.c.validFaces.all (fun f => nodeOk s f.n0 && nodeOk s f.n1 && nodeOk s f.n2) &&
  s.c.validSegs.all (fun g => nodeOk s g.n0 && nodeOk s g.n1)

def b01 (b : Bool) : String := if b then "1" else "0"

/-- `ref_cavity_conforming` without a CAD model -/
def noConf : Cav → Seg → Bool := fun _ _ => false

def resLine (s : DSt) (r : Res) : DSt × String :=
  match r with
  | .ret st c => ({ s with c := c }, stLine st c)
  | .hang c => ({ s with c := c }, "hang")
  | .fuel c => ({ s with c := c }, "fuel")

def xyzOf (g : Grid F) (v : Int) : V3 F :=
  match g.nodes.get? v with | some r => r.xyz | none => V3.zero

/-- the status of `ref_geom_tri_norm_deviation` (+ `ref_geom_uv_area`) on the tri `(a,b,c)` of valid nodes without a
    CAD model: `REF_NOT_FOUND` from `ref_geom_cell_tuv`, unless `ref_math_normalize` of the normal fails its unit-length
    assertion; `zero` = the normal is not normalisable (`REF_DIV_ZERO`: the C then goes on with `-2.0`) -/
def normdevProbe (g : Grid F) (a b c : Int) : Refine.Model.Cavity.St × Bool :=
  match (normalize (triNormal (xyzOf g a) (xyzOf g b) (xyzOf g c))).1 with
  | .ok => (.not_found, false)
  | .divZero => (.not_found, true)
  | _ => (.failure, false)

/-- `ref_cavity_normdev` without CAD: `cavNormdevNoGeom` with the status pinned to what the C returns for the first
    listed tri; the zero-area corner of the seg loop (empty `tri_list`, first unattached seg spans a zero-area tri: the C
    falls through to `ref_geom_uv_area` and returns `REF_NOT_FOUND` with `improved` still true) is outside the model -/
def normdevOp (s : DSt) : String :=
  let c := s.c
  match c.triList with
  | cell :: _ =>
    let st : Refine.Model.Cavity.St := match s.g.tris.get? cell with
      | none => .invalid
      | some t => (normdevProbe s.g t.n0 t.n1 t.n2).1
    let r := cavNormdevNoGeom st c
    s!"{r.1.name} {b01 r.2}"
  | [] =>
    match c.validSegs.find? (fun g => !(c.segNode == g.n0 || c.segNode == g.n1)) with
    | some g =>
      if (normdevProbe s.g g.n0 g.n1 c.segNode).2 then "not_found 1" else
      let r := cavNormdevNoGeom .ok c
      s!"{r.1.name} {b01 r.2}"
    | none =>
      let r := cavNormdevNoGeom .ok c
      s!"{r.1.name} {b01 r.2}"

def inId (d : Int) : Bool := decide (-1000 ≤ d) && decide (d ≤ 1000)

def step (s : DSt) (line : String) : DSt × String :=
  let viaCavity : Unit → DSt × String := fun _ =>
    -- the ops shared with driver `cavity` (grid building, insert_*, add_*, verify, visible, replace, dumps)
    let r := Drivers.Cavity.step ⟨s.g, s.c⟩ line
    ({ s with g := r.1.g, c := r.1.c }, r.2)
  match words line with
  | ["reset"] => (initSt false, "ok")
  | ["reset", t] => (initSt (t == "twod"), "ok")
  | ["note", _] => (s, "ok")
  | ["node", x, y, z] =>
    match parseF? x, parseF? y, parseF? z with
    | some x, some y, some z =>
      let r := s.g.addNode ⟨⟨x, y, z⟩, true⟩
      (setMet { s with g := r.1 } r.2 identM zeroM, s!"ok {r.2}")
    | _, _, _ => (s, "bad-op")
  | "metric" :: v :: rest =>
    if rest.length ≠ 12 then (s, "bad-op") else
    match v.toInt?, parseFs? rest with
    | some v, some [a0, a1, a2, a3, a4, a5, l0, l1, l2, l3, l4, l5] =>
      if !(nodeOk s v) then (s, "bad-op") else
      (setMet s v.toNat ⟨a0, a1, a2, a3, a4, a5⟩ ⟨l0, l1, l2, l3, l4, l5⟩, "ok")
    | _, _ => (s, "bad-op")
  | ["limits", a, b] =>
    match parseF? a, parseF? b with
    | some a, some b => ({ s with pmin := a, pmax := b }, "ok")
    | _, _ => (s, "bad-op")
  | ["form_split", a, b, c] =>
    match parseInts? [a, b, c] with
    | some [a, b, _] => if a == b then (s, "bad-op") else viaCavity ()
    | _ => (s, "bad-op")
  | ["form_swap", a, b, c] =>
    match parseInts? [a, b, c] with
    | some [a, b, c] =>
      if !([a, b, c].all (nodeOk s)) || a == b then (s, "bad-op") else
      let r := formEdgeSwap s.g freshCav a b c
      ({ s with c := r.2 }, stLine r.1 r.2)
    | _ => (s, "bad-op")
  | ["form_ball", a] =>
    match a.toInt? with
    | some a =>
      if !(nodeOk s a) then (s, "bad-op") else
      let r := formBall s.g freshCav a
      ({ s with c := r.2 }, stLine r.1 r.2)
    | none => (s, "bad-op")
  | ["form_insert", a, b, c, d] =>
    match parseInts? [a, b, c, d] with
    | some [a, b, c, d] =>
      if !(nodeOk s a) || !(nodeOk s b) || c < -1 || c ≥ nodeLimit || !(inId d) then (s, "bad-op") else
      let r := formInsert s.g freshCav a b c d
      ({ s with c := r.2 }, stLine r.1 r.2)
    | _ => (s, "bad-op")
  | ["form_insert_tet", a, b, c] =>
    match parseInts? [a, b, c] with
    | some [a, b, c] =>
      if !(nodeOk s a) || !(nodeOk s b) || c < -1 || c ≥ nodeLimit then (s, "bad-op") else
      let r := formInsertTet s.g freshCav a b c
      ({ s with c := r.2 }, stLine r.1 r.2)
    | _ => (s, "bad-op")
  | ["add_tet_wo", a, d] =>
    match parseInts? [a, d] with
    | some [a, d] =>
      if a < -1 || a > nodeLimit || !(inId d) then (s, "bad-op") else
      let r := addTetWithoutFaceid s.g s.c a d
      ({ s with c := r.2 }, stLine r.1 r.2)
    | _ => (s, "bad-op")
  | ["enlarge_face", i] =>
    match i.toInt? with
    | some i =>
      if i < -1 || i > nodeLimit || !(cavNodesOk s) then (s, "bad-op") else
      let r := if i < 0 then (Refine.Model.Cavity.St.failure, s.c) else enlargeFace s.g s.c i.toNat
      ({ s with c := r.2 }, stLine r.1 r.2)
    | none => (s, "bad-op")
  | ["enlarge_seg", i] =>
    match i.toInt? with
    | some i =>
      if i < -1 || i > nodeLimit || !(cavNodesOk s) then (s, "bad-op") else
      let r := if i < 0 then (Refine.Model.Cavity.St.failure, s.c) else enlargeSeg s.g s.c i.toNat
      ({ s with c := r.2 }, stLine r.1 r.2)
    | none => (s, "bad-op")
  | ["visible_face", i] =>
    match i.toInt? with
    | some i =>
      if i < 0 || i > nodeLimit || !(cavNodesOk s) then (s, "bad-op") else
      match s.c.faces.rows.getD i.toNat none with
      | none => (s, "bad-op")
      | some f =>
        match faceVisible s.g s.c f with
        | some b => (s, s!"ok {b01 b}")
        | none => (s, "invalid")
    | none => (s, "bad-op")
  | ["manifold"] =>
    if !(cavNodesOk s) then (s, "bad-op") else (s, s!"ok {b01 (cavManifold s.g s.c)}")
  | ["enlarge_visible"] =>
    if !(cavNodesOk s) then (s, "bad-op") else resLine s (enlargeVisible s.g s.c)
  | ["enlarge_conforming"] =>
    if !(cavNodesOk s) then (s, "bad-op") else resLine s (enlargeConforming s.g noConf s.c)
  | ["enlarge_combined"] =>
    if !(cavNodesOk s) then (s, "bad-op") else resLine s (enlargeCombined s.g noConf s.c)
  | ["ratio"] =>
    if !(cavNodesOk s) then (s, "bad-op") else
    (s, s!"ok {b01 (cavRatio (nodesOf s.g s.met) s.pmin s.pmax s.c)}")
  | ["change"] =>
    if !(cavNodesOk s) then (s, "bad-op") else
    let r := cavChange s.g (nodesOf s.g s.met) (minVolume : F) s.c
    (s, s!"{r.1.name} {fmtF r.2.1} {fmtF r.2.2}")
  | ["normdev"] =>
    if !(cavNodesOk s) then (s, "bad-op") else (s, normdevOp s)
  | ["ledger"] => (s, s!"ok {b01 (ledgerOkAt s.g s.c)} {b01 (certOk s.g s.c)} {b01 (segIdsOk s.g s.c)}")
  | ["node23", a, b] =>
    match parseInts? [a, b] with
    | some [a, b] =>
      if a < 0 || b < 0 || a ≥ nodeLimit || b ≥ nodeLimit || a == b then (s, "bad-op") else
      let r := swapNode23 s.g a b
      (s, s!"{r.1.name} {r.2.1} {r.2.2}")
    | _ => (s, "bad-op")
  | "valid3" :: _ => (s, "bad-op")
  | "valid2" :: _ => (s, "bad-op")
  | "find_face" :: _ => (s, "bad-op")
  | _ => viaCavity ()

/-! ### replay of the run-level records -/

def mkSlots {β : Type} (entries : List (Nat × β)) : Slots β :=
  let n := entries.foldl (fun m e => Nat.max m (e.1 + 1)) 0
  ⟨entries.foldl (fun rows e => rows.set e.1 (some e.2)) (List.replicate n none), []⟩

def mkCells {β : Type} (entries : List (Nat × β)) : Cells β := ⟨mkSlots entries, entries.map (·.1)⟩

def liveSlots {β : Type} (xs : List β) : Slots β := ⟨xs.map some, []⟩

/-- the items of the section that starts with the tag word `tag` -/
def section? (secs : List String) (tag : String) : Option (List String) :=
  (secs.map words).findSome? fun ws => match ws with
    | t :: rest => if t == tag then some rest else none
    | [] => none

def splitInts (sep : String) (w : String) : Option (List Int) := (w.splitOn sep).mapM String.toInt?

def kv (ws : List String) (key : String) : Option String :=
  ws.findSome? fun w => if w.startsWith (key ++ "=") then some ((w.drop (key.length + 1)).toString) else none

structure Rec where
  node : Int
  surf : Int
  state : Nat
  sc : List Int
  centres : List Int
  faces : List Face
  segs : List Seg
  tl : List Int
  rl : List Int
  tets : List (Nat × Tet)
  tris : List (Nat × Tri)
  edgs : List (Nat × Edg)
  nodes : List (Nat × NodeRec F)
  /-- metric and log-metric of the dumped nodes (begin records) -/
  mets : List (Nat × M6 F × M6 F)
  /-- post_min_ratio, post_max_ratio, swap_min_quality, collapse_quality_absolute, split_quality_absolute -/
  adapt : List F
  smd : Nat
  /-- the dumped cells are in an order that agrees with the adjacency order around every dumped node -/
  exactOrder : Bool

def parseCells (items : List String) (per : Nat) : Option (List (Nat × List Int)) :=
  items.mapM fun w => match splitInts ":" w with
    | some (c :: rest) => if c < 0 ∨ rest.length ≠ per then none else some (c.toNat, rest)
    | _ => none

def parseNode (w : String) : Option ((Nat × NodeRec F) × Option (M6 F × M6 F)) :=
  match w.splitOn ":" with
  | v :: o :: x :: y :: z :: rest =>
    match v.toNat?, o.toNat?, parseF? x, parseF? y, parseF? z with
    | some v, some o, some x, some y, some z =>
      match rest with
      | [] => some ((v, ⟨⟨x, y, z⟩, o == 1⟩), none)
      | _ =>
        match parseFs? rest with
        | some [a0, a1, a2, a3, a4, a5, l0, l1, l2, l3, l4, l5] =>
          some ((v, ⟨⟨x, y, z⟩, o == 1⟩), some (⟨a0, a1, a2, a3, a4, a5⟩, ⟨l0, l1, l2, l3, l4, l5⟩))
        | _ => none
    | _, _, _, _, _ => none
  | _ => none

def parseRec (begin : Bool) (line : String) : Option Rec := do
  let secs := line.splitOn " | "
  let head := words (secs.getD 0 "")
  let node ← (← kv head "node").toInt?
  let surf ← (← kv head "surf").toInt?
  let state ← (← kv head "state").toNat?
  let sc ← splitInts "," (← kv head "sc")
  let centres ← (← section? secs "C").mapM String.toInt?
  let tri3 (w : String) : Option (List Int) := match splitInts "," w with
    | some l => if l.length == 3 then some l else none
    | none => none
  let faces ← if begin then (← section? secs "F").mapM tri3 else some []
  let segs ← if begin then (← section? secs "S").mapM tri3 else some []
  let tl ← if begin then (← section? secs "TL").mapM String.toInt? else some []
  let rl ← if begin then (← section? secs "RL").mapM String.toInt? else some []
  let tets ← parseCells (← section? secs "T") 4
  let tris ← parseCells (← section? secs "R") 4
  let edgs ← parseCells (← section? secs "E") 3
  let nodes ← (← section? secs "N").mapM parseNode
  let adapt ← if begin then ((← kv head "adapt").splitOn ",").mapM parseF? else some []
  let smd ← if begin then (← kv head "smd").toNat? else some 0
  let approx := (section? secs "XT").isSome || (section? secs "XR").isSome || (section? secs "XE").isSome
  let g3 (l : List Int) (k : Nat) : Int := l.getD k (-1)
  pure { node, surf, state, sc, centres,
         faces := faces.map fun l => ⟨g3 l 0, g3 l 1, g3 l 2⟩,
         segs := segs.map fun l => ⟨g3 l 0, g3 l 1, g3 l 2⟩,
         tl, rl,
         tets := tets.map fun p => (p.1, ⟨g3 p.2 0, g3 p.2 1, g3 p.2 2, g3 p.2 3⟩),
         tris := tris.map fun p => (p.1, ⟨g3 p.2 0, g3 p.2 1, g3 p.2 2, g3 p.2 3⟩),
         edgs := edgs.map fun p => (p.1, ⟨g3 p.2 0, g3 p.2 1, g3 p.2 2⟩),
         nodes := nodes.map (·.1),
         mets := nodes.filterMap fun p => p.2.map fun m => (p.1.1, m.1, m.2),
         adapt, smd, exactOrder := !approx }

def rowsT (ts : List Tet) : List (List Int) := (ts.map Tet.nodes).mergeSort lexLe
def rowsR (ts : List Tri) : List (List Int) := (ts.map fun t => t.nodes ++ [t.id]).mergeSort lexLe
def rowsE (ts : List Edg) : List (List Int) := (ts.map fun t => t.nodes ++ [t.id]).mergeSort lexLe

structure Expect where
  node : Int
  ok : Bool
  t : List (List Int)
  r : List (List Int)
  e : List (List Int)

def gridRows (g : Grid F) : List (List Int) × List (List Int) × List (List Int) :=
  (rowsT g.tets.valid, rowsR g.tris.valid, rowsE g.edgs.valid)

/-- a cavity up to the order of its lists (the order of the C's lists depends on the adjacency order, which the record
    reproduces only when `exactOrder`): state, node, surf node, live faces and segs as sorted rows, tet / tri lists sorted -/
def cavKey (c : Cav) : Nat × Int × Int × List (List Int) × List (List Int) × List (List Int) × List (List Int) :=
  (c.state.code, c.node, c.surfNode,
   (c.validFaces.map fun f => [f.n0, f.n1, f.n2]).mergeSort lexLe,
   (c.validSegs.map fun f => [f.n0, f.n1, f.id]).mergeSort lexLe,
   (c.tetList.map fun x => [x]).mergeSort lexLe, (c.triList.map fun x => [x]).mergeSort lexLe)

def listOf {β : Type} (entries : List (Nat × β)) (d : β) : List β :=
  let n := entries.foldl (fun m e => Nat.max m (e.1 + 1)) 0
  entries.foldl (fun l e => l.set e.1 e.2) (List.replicate n d)

/-- the caller the record comes from, executed on the local grid: `none` = agrees with the record;
    `some (soft, msg)`: `soft` = attributable to the adjacency order not being reproducible (counted, not a failure) -/
def callerPath (r : Rec) (g : Grid F) (c : Cav) (plain : List (List Int) × List (List Int) × List (List Int)) :
    String × Option String :=
  let nd := nodesOf g (⟨listOf (r.mets.map fun m => (m.1, m.2.1)) identM, listOf (r.mets.map fun m => (m.1, m.2.2)) zeroM⟩ : Met F)
  let a : Adapt F := { postMin := r.adapt.getD 0 0.0, postMax := r.adapt.getD 1 0.0, swapMinQuality := r.adapt.getD 2 0.0,
                       swapMaxDegree := r.smd, collapseQualityAbsolute := r.adapt.getD 3 0.0,
                       splitQualityAbsolute := r.adapt.getD 4 0.0 }
  if c.collapse0 ≠ -1 ∧ c.collapse1 ≠ -1 then
    -- ref_collapse_to_remove_node1, the `!allowed` branch
    let formed : Option Cav := match formEdgeCollapse g Cav.create c.collapse0 c.collapse1 with
      | (.ok, cf) => if cf.state = .inconsistent then none else
          match enlargeVisible g cf with
          | .ret .ok cv => some cv
          | _ => none
      | _ => none
    match formed with
    | none => ("collapse", some "form_edge_collapse + enlarge_visible do not reach an accepted cavity in the model")
    | some cv =>
      if cavKey cv != cavKey c then ("collapse", some "form_edge_collapse + enlarge_visible give a different cavity than the C replaced") else
      match collapseCavityPath g nd a c.collapse0 c.collapse1 with
      | (.ok, true, g') =>
        if gridRows g' != plain then ("collapse", some "collapseCavityPath gives a different grid than replace of the dumped cavity")
        else ("collapse", none)
      | (st, rep, _) => ("collapse", some s!"collapseCavityPath = ({st.name}, replaced={rep}): the model would not have replaced")
  else if c.split0 ≠ -1 ∧ c.split1 ≠ -1 then ("split-not-replayed", none)
  else
    -- ref_cavity_swap_tet_pass: the edge is a pair of nodes common to all listed tets
    let common : List Int := match listedTets g c with
      | [] => []
      | t :: rest => t.nodes.filter fun v => v ≠ c.node && rest.all fun u => u.nodes.contains v
    let pairs := common.flatMap fun x => (common.filter (· ≠ x)).map fun y => (x, y)
    let hit := pairs.find? fun p =>
      match formEdgeSwap g Cav.create p.1 p.2 c.node with
      | (.ok, cs) => (match checkVisible g cs with
          | (.ok, cv) => cavKey cv == cavKey c
          | _ => false)
      | _ => false
    match hit with
    | none => ("swap", some "no edge (n0,n1) common to the listed tets reproduces the dumped cavity by form_edge_swap + check_visible")
    | some p =>
      match swapTetTrial g nd a p.1 p.2 c.node with
      | (.ok, some _) => ("swap", none)
      | (st, q) => ("swap", some s!"swapTetTrial {p.1} {p.2} {c.node} = ({st.name}, {if q.isSome then "some" else "none"}): the change test does not accept this candidate")

/-- the checks on a `begin` record: `(verdict line, what the accept record must show)` -/
def replayBegin (r : Rec) : String × Option Expect :=
  let g : Grid F := { nodes := mkSlots r.nodes, tets := mkCells r.tets, tris := mkCells r.tris, edgs := mkCells r.edgs,
                      twod := false }
  match CState.ofCode r.state with
  | none => (s!"bad begin node={r.node}: state code {r.state}", none)
  | some st =>
    let c : Cav := { state := st, node := r.node, surfNode := r.surf, faces := liveSlots r.faces, segs := liveSlots r.segs,
                     tetList := r.tl, triList := r.rl, split0 := r.sc.getD 0 (-1), split1 := r.sc.getD 1 (-1),
                     collapse0 := r.sc.getD 2 (-1), collapse1 := r.sc.getD 3 (-1) }
    let tag := s!"node={r.node} faces={r.faces.length} segs={r.segs.length} tets={r.tl.length} tris={r.rl.length}"
    if st ≠ .visible then (s!"bad begin {tag}: state {st.code} is not visible", none) else
    let vf := verifyFaceManifold c
    if vf.1 ≠ .ok ∨ vf.2.state ≠ .visible then (s!"bad begin {tag}: verify_face_manifold {vf.1.name} {vf.2.state.code}", none) else
    let vs := verifySegManifold c
    if vs.1 ≠ .ok ∨ vs.2.state ≠ .visible then (s!"bad begin {tag}: verify_seg_manifold {vs.1.name} {vs.2.state.code}", none) else
    if (listedTets g c).length ≠ c.tetList.length ∨ (listedTris g c).length ≠ c.triList.length then
      (s!"bad begin {tag}: a listed cell is not in the dumped stars", none) else
    let ledger := certOk g c
    let notVis := (c.validFaces.filter fun f => !(f.has c.node)).filter fun f => faceVisible g c f != some true
    let rep := replace g c
    let ex : Expect := ⟨r.node, rep.1 == .ok, rowsT rep.2.2.tets.valid, rowsR rep.2.2.tris.valid, rowsE rep.2.2.edgs.valid⟩
    if !ledger then (s!"bad begin {tag}: certificate certOk fails (ledgerOkAt = {b01 (ledgerOkAt g c)})", some ex) else
    if !(segIdsOk g c) then (s!"bad begin {tag}: segIdsOk fails (a live seg carries a face id of no listed tri)", some ex) else
    match notVis with
    | f :: _ => (s!"bad begin {tag}: new tet on face {f.n0},{f.n1},{f.n2} has volume <= min_volume", some ex)
    | [] =>
      if rep.1 ≠ .ok then (s!"bad begin {tag}: model replace returns {rep.1.name}", some ex) else
      let cp := callerPath r g c (gridRows rep.2.2)
      let ord := if r.exactOrder then "exact" else "approx"
      match cp.2 with
      | none => (s!"ok begin {tag} new_tets={(newTets c).length} new_tris={(newTris c).length} caller={cp.1} order={ord}", some ex)
      | some msg =>
        if r.exactOrder then (s!"bad begin {tag} caller={cp.1}: {msg}", some ex) else
        -- ref_cell_replace_node re-registered a cell at one node only: the loops of the C over the star are not those of
        -- one registration order, the caller path is not replayed (counted)
        (s!"ok begin {tag} new_tets={(newTets c).length} new_tris={(newTris c).length} caller={cp.1}-unreplayed order=approx ({msg})", some ex)

def replayAccept (r : Rec) (e : Option Expect) : String :=
  match e with
  | none => s!"bad accept node={r.node}: no begin record"
  | some e =>
    if e.node ≠ r.node then s!"bad accept node={r.node}: begin was for node {e.node}" else
    if !e.ok then s!"bad accept node={r.node}: the model did not accept this cavity" else
    let t := rowsT (r.tets.map (·.2)); let rr := rowsR (r.tris.map (·.2)); let ee := rowsE (r.edgs.map (·.2))
    if t ≠ e.t then s!"bad accept node={r.node}: tets differ: C {dumpRows t} model {dumpRows e.t}" else
    if rr ≠ e.r then s!"bad accept node={r.node}: tris differ: C {dumpRows rr} model {dumpRows e.r}" else
    if ee ≠ e.e then s!"bad accept node={r.node}: edgs differ: C {dumpRows ee} model {dumpRows e.e}" else
    s!"ok accept node={r.node} tets={t.length} tris={rr.length}"

def rstep (pend : Option Expect) (line : String) : Option Expect × String :=
  match words line with
  | "rec" :: "begin" :: _ =>
    (match parseRec true line with
     | none => (none, "bad begin: record does not parse")
     | some r => let x := replayBegin r; (x.2, x.1))
  | "rec" :: "accept" :: _ =>
    (match parseRec false line with
     | none => (none, "bad accept: record does not parse")
     | some r => (none, replayAccept r pend))
  | ["free", "replaced=0", "same=0"] => (pend, "bad free: a cavity that was not replaced changed the grid hash")
  | "free" :: _ => (pend, "ok free")
  | "rec" :: _ => (pend, "bad rec: unknown phase")
  | _ => (pend, "ok skip")

def run (args : List String) : IO UInt32 := do
  match args with
  | ["replay"] => runLoop (none : Option Expect) rstep
  | _ => runLoop (initSt false) step
  return 0

end Drivers.Cavity2
