import Drivers.Proto
import Drivers.Guards
import Refine.Model.Collapse

/-! driver `collapse`: the collapse guards, `ref_collapse_edge` and `ref_collapse_to_remove_node1` at the `Float`
    instance.  Stateless: every op line carries its own local configuration

      `<op> n0 n1 twod <cqa> <pmin> <pmax> <minvol> nn { <x> <y> <z> flags <m0..m5> <l0..l5> }*nn nc <cells>`

    (see `harness/h_collapse.c`).  `refdrv collapse validate` re-evaluates the guard chain on the `rec judge ...`
    records a real `ref_collapse_pass` emitted through the hook: every accepted collapse must be one the model
    accepts. -/
namespace Drivers.Collapse
open Drivers.Proto Refine Refine.Model Refine.Model.Geom Refine.Model.Guards Refine.Model.Collapse

abbrev F := Float

def b01 (b : Bool) : String := if b then "1" else "0"

def nat? (s : String) : Option Nat :=
  if s.length > 0 && s.length < 9 && s.all Char.isDigit then s.toNat? else none

def hex16? (s : String) : Option F := if s.length == 16 then parseF? s else none

structure Op where
  n0 : Nat
  n1 : Nat
  p : Params F
  nn : Nat
  nd : Nodes F
  flags : List Nat
  g : Grid

partial def parseNodes (ws : List String) (k : Nat) (nd : Nodes F) (fl : List Nat) : Option (Nodes F × List Nat × List String) :=
  if k == 0 then some (nd, fl, ws) else
  match ws with
  | x :: y :: z :: f :: rest =>
    match hex16? x, hex16? y, hex16? z, nat? f, (rest.take 12).mapM hex16? with
    | some x, some y, some z, some f, some [a0, a1, a2, a3, a4, a5, b0, b1, b2, b3, b4, b5] =>
      if f > 3 then none else
      parseNodes (rest.drop 12) (k - 1)
        { xyz := nd.xyz ++ [⟨x, y, z⟩], met := nd.met ++ [⟨a0, a1, a2, a3, a4, a5⟩],
          logm := nd.logm ++ [⟨b0, b1, b2, b3, b4, b5⟩], owned := nd.owned ++ [f % 2 == 0] } (fl ++ [f])
    | _, _, _, _, _ => none
  | _ => none

def simplexOk (cs : List Cell) : Bool := cs.all fun c => decide c.nodes.Nodup

def parseOp (ws : List String) : Option Op :=
  match ws with
  | a :: b :: t :: q :: pmin :: pmax :: mv :: nns :: rest =>
    match nat? a, nat? b, nat? t, hex16? q, hex16? pmin, hex16? pmax, hex16? mv, nat? nns with
    | some n0, some n1, some twod, some cqa, some pmin, some pmax, some mv, some nn =>
      if twod > 1 || nn == 0 || nn > 400 then none else
      match parseNodes rest nn ⟨[], [], [], []⟩ [] with
      | some (nd, fl, ncs :: cw) =>
        if !(cw.all fun w => w.length < 9) then none else
        match nat? ncs, Drivers.Guards.parseCells nn cw {} 0 with
        | some nc, some (g, count) =>
          if count != nc || n0 ≥ nn || n1 ≥ nn then none else
          if !(simplexOk g.edg && simplexOk g.tri && simplexOk g.qua && simplexOk g.tet) then none else
          some ⟨n0, n1, ⟨twod == 1, cqa, pmin, pmax, mv⟩, nn, nd, fl, g⟩
        | _, _ => none
      | _ => none
    | _, _, _, _, _, _, _, _ => none
  | _ => none

def stB (r : Status × Bool) : String := if r.1 = Status.ok then "ok " ++ b01 r.2 else r.1.name
def stF (r : Status × F) : String := if r.1 = Status.ok then "ok " ++ fmtF r.2 else r.1.name

def ltRow : List Int → List Int → Bool
  | [], [] => false
  | [], _ => true
  | _, [] => false
  | a :: as, b :: bs => if a < b then true else if b < a then false else ltRow as bs

def insRow (r : List Int) : List (List Int) → List (List Int)
  | [] => [r]
  | x :: xs => if ltRow x r then x :: insRow r xs else r :: x :: xs

def sortRows (l : List (List Int)) : List (List Int) := l.foldr insRow []

def rowOf (withId : Bool) (c : Cell) : List Int := (c.nodes.map Int.ofNat) ++ (if withId then [c.id] else [])

def fmtGroup (name : String) (withId : Bool) (cs : List Cell) : String :=
  " | " ++ name ++ String.join ((sortRows (cs.map (rowOf withId))).map fun r => " " ++ ",".intercalate (r.map toString))

def fmtAfter (st : Status) (actual : Int) (valid1 : Bool) (cav : List Nat) (age : Nat) (g : Grid) : String :=
  st.name ++ s!" a={actual} v={b01 valid1} cav=" ++ ",".intercalate (cav.map toString) ++ s!" age={age}" ++
  fmtGroup "T" false g.tet ++ fmtGroup "R" true g.tri ++ fmtGroup "E" true g.edg

def ltF (a b : F) : Bool := decide (a < b)

def verdictName : Verdict → String
  | .refused s => "refused:" ++ s
  | .notLocal a => "not_local:" ++ b01 a
  | .cavity => "cavity"
  | .collapse => "collapse"
  | .error st => "error:" ++ st.name

def step (_ : Unit) (line : String) : Unit × String :=
  let r : String :=
    match words line with
    | [] => "bad-op"
    | op :: rest =>
      match parseOp rest with
      | none => "bad-op"
      | some o =>
        let n0 := o.n0
        let n1 := o.n1
        match op with
        | "manifold" => stB (collapseEdgeManifold o.g n0 n1)
        | "local" => "ok " ++ b01 (collapseEdgeLocalCell o.g o.nd.owned n0 n1)
        | "cad" => "ok " ++ b01 (collapseEdgeCadConstrained o.g (fun n => (o.flags.getD n 0) / 2 % 2 == 1) n0 n1)
        | "tetq" => stB (collapseEdgeTetQuality o.g o.nd o.p n0 n1)
        | "triq" => stB (collapseEdgeTriQuality o.g o.nd o.p n0 n1)
        | "ratio" => "ok " ++ b01 (collapseEdgeRatio o.g o.nd o.p n0 n1)
        | "normdev" => "ok " ++ b01 (collapseEdgeNormdev o.g n0 n1)
        | "twodo" => stB (collapseEdgeTwodOrientation o.g o.nd n0 n1)
        | "qtet" =>
          (match o.g.tet with
           | c :: _ => stF (tetJacQuality o.nd o.p.minVol c.nodes)
           | [] => "bad-op")
        | "qtri" =>
          (match o.g.tri with
           | c :: _ => stF (triJacQuality o.nd c.nodes)
           | [] => "bad-op")
        | "nratio" => "ok " ++ fmtF (nodeRatio o.nd n0 n1)
        | "collapse" =>
          if n0 == n1 then "bad-op" else
          let r := collapseEdge o.g n0 n1
          fmtAfter r.1 n0 (r.1 != Status.ok) [] 0 r.2
        | "remove" =>
          let r := toRemoveNode1 ltF o.g o.nd o.p n1
          let cav := r.trace.filterMap fun (n, v) => if v = Verdict.cavity then some n else none
          -- the harness sums the ages of the vertices that are still valid: node1's share is gone after a collapse
          let bumps := (r.trace.filter fun (_, v) => v = Verdict.notLocal true).length
          let gone := r.actual.isSome && r.status = Status.ok
          let age := if gone then bumps else 2 * bumps
          let act : Int := match r.actual with | some a => a | none => -1
          fmtAfter r.status act (!gone) cav age r.grid
        | _ => "bad-op"
  ((), r)

/-- validate mode: `rec judge <op line>`: a `collapse_edge begin` record of a real `ref_collapse_pass`; the modelled
    guard chain, evaluated on the stars of node0 and node1 before the collapse, must accept it -/
def vstep (_ : Unit) (line : String) : Unit × String :=
  let r : String :=
    match words line with
    | "rec" :: "judge" :: rest =>
      (match parseOp rest with
       | none => "bad rec parse"
       | some o =>
         match judge o.g o.nd o.p o.n0 o.n1 with
         | .collapse => "ok collapse"
         | v => s!"bad accepted collapse {o.n0} {o.n1} but the modelled guards say " ++ verdictName v)
    | "skip" :: _ => "ok skip"
    | _ => "bad line"
  ((), r)

def run (args : List String) : IO UInt32 := do
  match args with
  | ["validate"] => runLoop () vstep
  | _ => runLoop () step
  return 0

end Drivers.Collapse
