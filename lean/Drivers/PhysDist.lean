import Drivers.Proto
import Refine.Model.PhysDist

/-! driver `physdist`: the parallel wall distance of `ref_phys.c`, the wall selection and the bc-tag parsers
    (Float instance of `Refine.Model.PhysDist`, bit-compared with `harness/h_physdist.c`; op formats there).
    The trees are built in index order (`perms rank chunk = 0 .. ncell-1`); the C inserts in `rand()` order. -/
namespace Drivers.PhysDist
open Drivers.Proto Refine Refine.Model Refine.Model.Geom Refine.Model.PhysDist

abbrev F := Float

def splitBar (ws : List String) : List (List String) :=
  let r := ws.foldl (fun (acc : List (List String) × List String) w =>
    if w == "|" then (acc.2.reverse :: acc.1, []) else (acc.1, w :: acc.2)) ([], [])
  (r.2.reverse :: r.1).reverse

def isNatTok (s : String) : Bool := s.length ≤ 9 && !s.isEmpty && s.toList.all Char.isDigit
def isSintTok (s : String) : Bool :=
  let t := if s.startsWith "-" then (s.drop 1).toString else s
  t.length ≤ 9 && !t.isEmpty && t.toList.all Char.isDigit

def nat? (s : String) : Option Nat := if isNatTok s then s.toNat? else none
def sint? (s : String) : Option Int := if isSintTok s then s.toInt? else none

/-- `n` records of `width` tokens -/
def takeRecs (width : Nat) : Nat → List String → Option (List (List String) × List String)
  | 0, ws => some ([], ws)
  | n + 1, ws =>
    if ws.length < width then none else
    (takeRecs width n (ws.drop width)).map fun r => (ws.take width :: r.1, r.2)

def section? (width : Nat) (ws : List String) : Option (List (List String) × List String) :=
  match ws with
  | c :: rest => match nat? c with
    | some n => if n > 100000 then none else takeRecs width n rest
    | none => none
  | [] => none

def node? (rec : List String) : Option (PNode F) :=
  match rec with
  | [g, p, x, y, z] => match nat? g, nat? p, parseFs? [x, y, z] with
    | some g, some p, some [x, y, z] => some ⟨(g : Int), (p : Int), ⟨x, y, z⟩⟩
    | _, _, _ => none
  | _ => none

def cell? (per : Nat) (rec : List String) : Option PCell :=
  match (rec.take per).mapM nat?, sint? (rec.getD per "") with
  | some ns, some id => if rec.length == per + 1 then some ⟨ns, id⟩ else none
  | _, _ => none

def group? (ws : List String) : Option (PRank F) := do
  let (kn, r1) ← section? 5 ws
  let (kt, r2) ← section? 4 r1
  let (kq, r3) ← section? 5 r2
  let (ke, r4) ← section? 3 r3
  if !r4.isEmpty then none
  let nodes ← kn.mapM node?
  let tri ← kt.mapM (cell? 3)
  let qua ← kq.mapM (cell? 4)
  let edg ← ke.mapM (cell? 2)
  some ⟨nodes, tri, qua, edg⟩

/-- `dim nsel (id bc)*nsel` -/
def header? (ws : List String) : Option (Bool × RDict) :=
  match ws with
  | d :: n :: rest => match nat? d, nat? n, rest.mapM sint? with
    | some d, some n, some vs =>
      if (d != 2 && d != 3) || n > 10000 || vs.length != 2 * n then none else
      let rec fill : List Int → RDict → RDict
        | k :: v :: r, dd => fill r (dd.store k v).1
        | _, dd => dd
      some (d == 2, fill vs RDict.create)
    | _, _, _ => none
  | _ => none

/-- index order for a chunk of `n` elements -/
def seqPerm (n : Nat) : List Int := (List.range n).map Int.ofNat

def fmtWorld (w : List (PRank F)) (res : List (List F)) : String :=
  "ok" ++ String.join ((w.zip res).map fun x =>
    " |" ++ String.join ((x.1.nodes.zip x.2).map fun nd => " " ++ toString nd.1.glob ++ " " ++ fmtF nd.2))

def hexVal? (c : Char) : Option Nat :=
  if '0' ≤ c ∧ c ≤ '9' then some (c.toNat - '0'.toNat)
  else if 'a' ≤ c ∧ c ≤ 'f' then some (c.toNat - 'a'.toNat + 10)
  else none

/-- `x<hex>` → characters (1..127 only, no run of 10 digits) -/
def unhex? (t : String) : Option (List Char) :=
  match t.toList with
  | 'x' :: hs =>
    let rec go : List Char → Nat → Option (List Char)
      | [], _ => some []
      | [_], _ => none
      | a :: b :: r, run => match hexVal? a, hexVal? b with
        | some x, some y =>
          let v := 16 * x + y
          if v == 0 || v > 127 then none else
          let c := Char.ofNat v
          let run' := if c.isDigit then run + 1 else 0
          if run' ≥ 10 then none else (go r run').map (c :: ·)
        | _, _ => none
    go hs 0
  | _ => none

def preDict? (ws : List String) : Option RDict :=
  if ws.length % 2 != 0 then none else
  match ws.mapM sint? with
  | some vs =>
    let rec fill : List Int → RDict → RDict
      | k :: v :: r, dd => fill r (dd.store k v).1
      | _, dd => dd
    some (fill vs RDict.create)
  | none => none

def fmtDict (r : RDict × Status) : String :=
  r.2.name ++ " " ++ toString r.1.n ++ String.join ((r.1.key.zip r.1.value).map fun kv =>
    " " ++ toString kv.1 ++ " " ++ toString kv.2)

/-- the insertion orders handed to the model: index order in every chunk on every rank -/
def seqPerms (maxN : Int) (twod : Bool) (dict : RDict) (w : List (PRank F)) : Nat → Nat → List Int :=
  let sizes := ((wallChunks maxN (w.map (localWall twod dict))).map List.length).toArray
  fun _ c => seqPerm (sizes.getD c 0)

def step (_ : Unit) (line : String) : Unit × String :=
  let ws := words line
  let out : String :=
    match ws with
    | op :: k :: rest =>
      if op == "walldist_par" || op == "walldist_static" then
        match nat? k, splitBar rest with
        | some k, hdr :: groups =>
          if k < 1 || k > 64 || groups.length != k then "bad-op" else
          match header? hdr, groups.mapM group? with
          | some (twod, dict), some w =>
            if !wellFormed w then "bad-op" else
            let r :=
              if op == "walldist_par" then
                wallDistPar (seqPerms Refine.Gen.PhysBc.maxNcell twod dict w) twod dict w
              else wallDistStatic (seqPerms Refine.Gen.PhysBc.maxNcellStatic twod dict w) twod dict w
            match r with
            | some res => fmtWorld w res
            | none => "bad-op"
          | _, _ => "bad-op"
        | _, _ => "bad-op"
      else if op == "local_wall" then
        match splitBar (k :: rest) with
        | [hdr, g] =>
          match header? hdr, group? g with
          | some (twod, dict), some r =>
            if !wellFormed (List.replicate 1001 r) then "bad-op" else
            let el := localWall twod dict r
            "ok " ++ (if twod then "2" else "3") ++ " " ++ toString el.length ++
              String.join (el.map fun e => String.join (e.map fun p => " " ++ fmtF p.x ++ " " ++ fmtF p.y ++ " " ++ fmtF p.z))
          | _, _ => "bad-op"
        | _ => "bad-op"
      else if op == "mapbc" then
        match preDict? rest with
        | some d =>
          if k == "nofile" then fmtDict (readMapbc d none) else
          match unhex? k with
          | some cs => fmtDict (readMapbc d (some cs))
          | none => "bad-op"
        | none => "bad-op"
      else if op == "mapbc_token" then
        match rest with
        | t :: rest2 =>
          match preDict? rest2, unhex? t with
          | some d, some tok =>
            if k == "nofile" then fmtDict (readMapbcToken d none tok) else
            match unhex? k with
            | some cs => if cs.getLast? != some '\n' then "bad-op" else fmtDict (readMapbcToken d (some cs) tok)
            | none => "bad-op"
          | _, _ => "bad-op"
        | [] => "bad-op"
      else if op == "viscous_tags" then
        match preDict? rest, unhex? k with
        | some d, some cs => fmtDict (parseTags d cs)
        | _, _ => "bad-op"
      else if op == "wall_bc" then
        match (k :: rest).mapM sint? with
        | some cs => "ok" ++ String.join (cs.map fun c => if Refine.Gen.PhysBc.wallDistanceBc c then " 1" else " 0")
        | none => "bad-op"
      else "bad-op"
    | ["wall_bc"] => "ok"
    | _ => "bad-op"
  ((), out)

def run (_args : List String) : IO UInt32 := do
  runLoop () step
  return 0

end Drivers.PhysDist
