import Drivers.Proto
import Drivers.Codec
import Drivers.Par
import Refine.Model.Ugrid
import Refine.Model.Par

/-! driver `ugrid`: the binary UGRID encoders/decoders of `Refine.Model.Ugrid`, same op lines as harness/h_ugrid.c -/
namespace Drivers.Ugrid
open Drivers.Proto Drivers.Codec Refine.Model.Meshb Refine.Model.Ugrid Refine.Gen

def sufOk (s : String) : Bool :=
  ["lb8.ugrid", "b8.ugrid", "lb8l.ugrid", "b8l.ugrid", "lb8.ugrid64", "b8.ugrid64"].contains s

/-- flavour of a suffix token according to one of the four generated dispatcher tables -/
def flavorOf (table : List (String × Bool × Bool)) (suf : String) : Option Flavor :=
  if sufOk suf then flavorIn table ("." ++ suf) else none

/-! ### MESH -/

structure MState where
  live : Array Bool
  o2n : Array Int

def liveNode (st : MState) (x : Int) : Bool := decide (0 ≤ x) && st.live.getD x.toNat false

partial def parseCells (st : MState) (k : Kind) : Nat → List String → List (List Int) →
    Option (List (List Int) × List String)
  | 0, ws, acc => some (acc.reverse, ws)
  | n + 1, ws, acc =>
    if ws.length < k.sizePer then none else
    match (ws.take k.sizePer).mapM int? with
    | none => none
    | some xs =>
      if !xs.all inI32 then none
      else if !(xs.take k.nodePer).all (liveNode st) then none
      else
        let c := (xs.take k.nodePer).map (fun x => st.o2n.getD x.toNat (-1)) ++ xs.drop k.nodePer
        parseCells st k n (ws.drop k.sizePer) (c :: acc)

def parseKinds (st : MState) : List Kind → List String → Option (List (List (List Int)) × List String)
  | [], ws => some ([], ws)
  | k :: ks, name :: nc :: ws =>
    if name != k.name || (ws.length > 65536) then none else
    match int? nc with
    | some nc =>
      if nc < 0 then none else
      match parseCells st k nc.toNat ws [] with
      | some (cs, ws) =>
        match parseKinds st ks ws with
        | some (css, ws) => some (cs :: css, ws)
        | none => none
      | none => none
    | none => none
  | _, _ => none

/-- `n NS slots… tri N … hex N …` → the mesh as the writer sees it (nodes compacted) -/
def parseMesh (ws : List String) : Option UMesh :=
  match ws with
  | "n" :: ns :: rest =>
    match int? ns with
    | some ns =>
      if ns < 0 ∨ 60000 < ns then none else
      match parseSlots ns.toNat rest [] with
      | none => none
      | some (slots, rest) =>
        let live := slots.map Option.isSome
        let st : MState := { live := live.toArray, o2n := o2nOf live }
        match parseKinds st Kind.all rest with
        | some (css, []) =>
          some { nodes := slots.filterMap id, tri := css.getD 0 [], qua := css.getD 1 [], tet := css.getD 2 [],
                 pyr := css.getD 3 [], pri := css.getD 4 [], hex := css.getD 5 [] }
        | _ => none
    | none => none
  | _ => none

def fmtCells (name : String) (cs : List (List Int)) : String :=
  " " ++ name ++ " " ++ toString cs.length ++ cs.foldl (fun a c => c.foldl (fun a x => a ++ " " ++ toString x) a) ""

def fmtNodes (ns : List Vertex) : String :=
  ns.foldl (fun acc p => acc ++ " " ++ fmtBits p.x ++ " " ++ fmtBits p.y ++ " " ++ fmtBits p.z) ""

def dumpMesh (m : UMesh) : String :=
  s!"ok n {m.nodes.length}" ++ fmtNodes m.nodes ++
    Kind.all.foldl (fun acc k => acc ++ fmtCells k.name (m.get k)) ""

def opWrite (roundtrip : Bool) (ws : List String) : String :=
  match ws with
  | suf :: rest =>
    match flavorOf UgridFlavours.exportTable suf, flavorOf UgridFlavours.importTable suf, parseMesh rest with
    | some fw, some fr, some m =>
      if roundtrip then
        match decodeUgrid fr (encodeUgrid fw m) with
        | .ok m' => dumpMesh m'
        | .error e => e.name
      else "ok " ++ hexOfBytes (encodeUgrid fw m)
    | _, _, _ => "bad-op"
  | _ => "bad-op"

def opRead (ws : List String) : String :=
  match ws with
  | [suf, h] =>
    match flavorOf UgridFlavours.importTable suf, bytesOfHex? h with
    | some fl, some bs =>
      match decodeUgrid fl bs with
      | .ok m => dumpMesh m
      | .error e => e.name
    | _, _ => "bad-op"
  | _ => "bad-op"

def opReadRaw (ws : List String) : String :=
  match ws with
  | [sw, ft, h] =>
    match int? sw, int? ft, bytesOfHex? h with
    | some sw, some ft, some bs =>
      if sw < 0 ∨ 1 < sw ∨ ft < 0 ∨ 1 < ft then "bad-op" else
      match decodeUgrid ⟨sw == 1, ft == 1⟩ bs with
      | .ok m => dumpMesh m
      | .error e => e.name
    | _, _, _ => "bad-op"
  | _ => "bad-op"

/-! ### parallel reader -/

def sortRows (rs : List (List Int)) : List (List Int) :=
  rs.mergeSort fun a b => decide (a ≤ b)

/-- distinct nodes a rank stores: the ones it owns and the ones of its cells -/
def nlocOf (pm : PartMesh) (r : Nat) : Nat :=
  let own : List Nat := (List.range pm.nnode.toNat).filter fun (g : Nat) => pm.partOf (Int.ofNat g) == r
  let ghosts := (Kind.all.zip pm.cells).flatMap fun (k, cs) =>
    (cs.filter (pm.storedOn k r)).flatMap fun c => (c.take k.nodePer).map Int.toNat
  (own ++ ghosts).eraseDups.length

def dumpPart (pm : PartMesh) : String :=
  let cells := (Kind.all.zip pm.cells).foldl (fun acc (k, cs) => acc ++ fmtCells k.name (sortRows cs)) ""
  let loc := (List.range pm.np).foldl (fun acc r =>
    (Kind.all.zip pm.cells).foldl (fun acc (k, cs) => acc ++ " " ++ toString (cs.filter (pm.storedOn k r)).length) acc) ""
  let nloc := (List.range pm.np).foldl (fun acc r => acc ++ " " ++ toString (nlocOf pm r)) ""
  s!"ok n {pm.nodes.length}" ++ fmtNodes pm.nodes ++ cells ++ " loc" ++ loc ++ " nloc" ++ nloc

def opPart (suf : String) (np : Nat) (h : String) : String :=
  match flavorOf UgridFlavours.partTable suf, bytesOfHex? h with
  | some fl, some bs =>
    if np = 0 ∨ 64 < np then "bad-op" else
    match partRead fl np none bs with
    | .ok pm => dumpPart pm
    | .error e => e.name
  | _, _ => "bad-op"

/-- generator support: `clean` | `hazard` (the model predicts no status: UB / out-of-bounds in the C) for the three
    readers of a byte string: serial, serial + consumers (an accepted index ≥ nnode: legacy reader only), parallel at
    one rank -/
def opClassify (ws : List String) : String :=
  match ws with
  | [suf, h] =>
    match flavorOf UgridFlavours.importTable suf, flavorOf UgridFlavours.partTable suf, bytesOfHex? h with
    | some fi, some fp, some bs =>
      -- a second run with a 4 MB allocator: `null` there (or a different outcome) means some `ref_adj_add` asked for
      -- more than that on the way, whatever the final status is
      let small := decodeUgridWith { ugridCfg with allocCap := 4000400 } fi bs
      let ser := match decodeUgrid fi bs with
        | .error .undefined => "ub"
        | .error e => if small != .error e || small == .error .null then "big" else "clean"
        | .ok m => if small != .ok m then "big" else if indicesInRange m then "clean" else "index"
      -- ref_grid_inward_boundary_orientation (outside the model) looks at boundary faces that lie in a volume cell
      let orient := fun (m : UMesh) =>
        let vols := m.tet ++ m.pyr ++ m.pri ++ m.hex
        (m.tri.any fun f => vols.any fun c => (f.take 3).all fun x => c.contains x) ||
        (m.qua.any fun f => vols.any fun c => (f.take 4).all fun x => c.contains x)
      let par := match partRead fp 1 none bs with
        | .error .undefined =>
          match rdHeaderPart fp bs with
          | .ok (hdr, _) => if partCountHazard 1 hdr then "count" else "hazard"
          | .error _ => "hazard"
        | .ok pm => if orient pm.toMesh then "orient" else "clean"
        | _ => "clean"
      ser ++ " " ++ par
    | _, _, _ => "bad-op"
  | _ => "bad-op"

def opRobust (ws : List String) : String :=
  match ws with
  | [suf, h] => if sufOk suf && (bytesOfHex? h).isSome then "returned" else "bad-op"
  | _ => "bad-op"

/-! ### parallel writer -/

open Refine.Model.Par Drivers.Par in
/-- `K (g part x y z)*K tri C rows qua C rows … hex C rows` → the rank's nodes and its six cell lists -/
def gatherGroup (np N : Nat) (g : List String) : Option (RankView P3 × List (RankView Unit)) :=
  match g with
  | k :: rest =>
    match k.toNat? with
    | some k =>
      if rest.length < 5 * k then none else
      match parseNodes k (rest.take (5 * k)) with
      | some nds =>
        if !(distinctGlobals nds) || !(nds.all fun nd => nd.global < N && nd.part < np) then none else
        let unds : List (Node Unit) := nds.map fun nd => ⟨nd.global, nd.part, ()⟩
        let rec kinds : List Kind → List String → Option (List (RankView Unit) × List String)
          | [], ws => some ([], ws)
          | kd :: ks, name :: nc :: ws =>
            if name != kd.name then none else
            match nc.toNat? with
            | some nc =>
              if ws.length < nc * kd.sizePer then none else
              match (ws.take (nc * kd.sizePer)).mapM Drivers.Codec.int? with
              | some flat =>
                if !flat.all inI32 then none else
                let rowsL := Drivers.Par.chunks kd.sizePer nc flat
                if !(rowsL.all fun r => (r.take kd.nodePer).all fun x =>
                      decide (0 ≤ x) && unds.any fun nd => nd.global == x.toNat) then none else
                let cells : List GCell := rowsL.map fun r =>
                  ⟨(r.take kd.nodePer).map Int.toNat, (r.drop kd.nodePer).headD 0⟩
                match kinds ks (ws.drop (nc * kd.sizePer)) with
                | some (vs, ws) => some (⟨unds, cells⟩ :: vs, ws)
                | none => none
              | none => none
            | none => none
          | _, _ => none
        match kinds Kind.all (rest.drop (5 * k)) with
        | some (vs, []) => some (⟨nds, []⟩, vs)
        | _ => none
      | none => none
    | none => none
  | [] => none

open Refine.Model.Par Drivers.Par in
def opGather (ws : List String) : String :=
  let bad := "bad-op"
  match ws with
  | suf :: nps :: ns :: rest =>
    match flavorOf UgridFlavours.gatherTable suf, nps.toNat?, ns.toNat? with
    | some fl, some np, some N =>
      if np == 0 || N > 100000 then bad else
      match Drivers.Comm.groupsOf np rest with
      | some gs =>
        match gs.mapM (gatherGroup np N) with
        | some ws6 =>
          -- ref_mpi_create: reduce_byte_limit = 1000000
          match gatherNode P3.add P3.zero 1000000 N (ws6.map (·.1)) with
          | .hang => "hang"
          | .done st written =>
            if st != Refine.Model.Comm.Status.ok then st.name else
            let cellsOf := fun (i : Nat) (k : Kind) =>
              (gatherCell (ws6.map fun p => p.2.getD i ⟨[], []⟩)).map fun c =>
                c.nodes.map (fun (g : Nat) => (g : Int)) ++ (if k.hasTag then [c.id] else [])
            let m : UMesh :=
              { nodes := written.map fun p => ⟨p.x.toBits, p.y.toBits, p.z.toBits⟩,
                tri := cellsOf 0 .tri, qua := cellsOf 1 .qua, tet := cellsOf 2 .tet, pyr := cellsOf 3 .pyr,
                pri := cellsOf 4 .pri, hex := cellsOf 5 .hex }
            "ok " ++ hexOfBytes (gatherUgrid fl m)
        | none => bad
      | none => bad
    | _, _, _ => bad
  | _ => bad

def step (_ : Unit) (line : String) : Unit × String :=
  let r : String := match words line with
    | "write" :: ws => opWrite false ws
    | "rt" :: ws => opWrite true ws
    | "read" :: ws => opRead ws
    | "readraw" :: ws => opReadRaw ws
    | ["partraw", suf, h] => opPart suf 1 h
    | ["part", suf, nps, h] => match nps.toNat? with | some np => opPart suf np h | none => "bad-op"
    | "classify" :: ws => opClassify ws
    | "robust_import" :: ws => opRobust ws
    | "robust_translate" :: ws => opRobust ws
    | "robust_part" :: ws => opRobust ws
    | ["ascii_import", e, h] =>
      -- no model of the ASCII reader: the op carries the verdict of the generator's own parse, checked by the oracle
      if (e == "ok" || e == "refused") && (bytesOfHex? h).isSome then e else "bad-op"
    | "gather" :: ws => opGather ws
    | _ => "bad-op"
  ((), r)

def run (_ : List String) : IO UInt32 := do
  runLoop () step
  return 0

end Drivers.Ugrid
