import Drivers.Proto
import Drivers.Codec
import Drivers.Sol
import Refine.Model.Formats
import Refine.Model.FormatsBin
import Refine.Model.FormatsMapbc

/-! driver `formats`: the text mesh formats, the remaining binary readers and the mapbc readers of
    `Refine.Model.Formats*`; same op lines as harness/h_formats.c, plus the `rd_scalar` op of harness/h_sol.c for the
    `.rst` / `.snap` readers on several ranks -/
namespace Drivers.Formats
open Drivers.Proto Drivers.Codec
open Refine.Model.Meshb (Bytes Vertex Status)
open Refine.Model.Formats Refine.Model.FormatsBin Refine.Model.FormatsMapbc

def exts : List String := ["ugrid", "tri", "surf", "fgrid", "r8.ugrid", "su2", "msh", "grid"]

def printable (b : UInt8) : Bool := b > 32 && b < 127

def strOfBytes (bs : Bytes) : String := String.ofList (bs.map fun b => Char.ofNat b.toNat)

def isIntTok (s : String) : Bool :=
  let t := if s.startsWith "-" then (s.drop 1).toString else s
  !t.isEmpty && t.length ≤ 18 && t.all Char.isDigit

/-- one FILE token of the op line -/
def tok? (t : String) : Option Tok :=
  if t == "n:" then some .nl
  else if t == "r:" then some .crlf
  else if t.startsWith "w:" then
    let p := (t.drop 2).toString
    if p.isEmpty then none else some (.word p)
  else if t.startsWith "i:" then
    let p := (t.drop 2).toString
    if isIntTok p then p.toInt?.map Tok.int else none
  else if t.startsWith "f:" then (bits? (t.drop 2).toString).map Tok.num
  else if t.startsWith "x:" then
    match bytesOfHex? (t.drop 2).toString with
    | some bs => if bs.isEmpty || !bs.all printable then none else some (.word (strOfBytes bs))
    | none => none
  else if t.startsWith "g:" then
    match ((t.drop 2).toString.splitOn ":") with
    | [h, b] =>
      match bytesOfHex? h, bits? b with
      | some bs, some v => if bs.isEmpty || !bs.all printable then none else some (.lit (strOfBytes bs) v)
      | _, _ => none
    | _ => none
  else none

inductive FileArg
  | text (ts : List Tok)
  | bin (bs : Bytes)

def file? (ws : List String) : Option FileArg :=
  match ws with
  | [] => none
  | [t] =>
    if t.startsWith "b:" then
      let p := (t.drop 2).toString
      if p == "-" then some (.bin []) else (bytesOfHex? p).map FileArg.bin
    else (ws.mapM tok?).map FileArg.text
  | _ => (ws.mapM tok?).map FileArg.text

/-! ### dumps -/

def fmtCells (name : String) (cs : List (List Int)) : String :=
  " " ++ name ++ " " ++ toString cs.length ++ cs.foldl (fun a c => c.foldl (fun a x => a ++ " " ++ toString x) a) ""

def dumpMesh (m : TMesh) : String :=
  s!"ok twod {if m.twod then 1 else 0} n {m.nodes.length}" ++
  m.nodes.foldl (fun acc p => acc ++ " " ++ fmtBits p.x ++ " " ++ fmtBits p.y ++ " " ++ fmtBits p.z) "" ++
  fmtCells "edg" m.edg ++ fmtCells "tri" m.tri ++ fmtCells "qua" m.qua ++ fmtCells "tet" m.tet ++
  fmtCells "pyr" m.pyr ++ fmtCells "pri" m.pri ++ fmtCells "hex" m.hex

def fmtTok : Tok → String
  | .word s => " w:" ++ s
  | .int n => " i:" ++ toString n
  | .num b => " f:" ++ fmtBits b
  | .lit s _ => " w:" ++ s
  | .nl => " n:"
  | .crlf => " n:"

def showR (r : R TMesh) : String :=
  match r with
  | .ok m => dumpMesh m
  | .error e => e.name

def showS (r : Except Status TMesh) : String :=
  match r with
  | .ok m => dumpMesh m
  | .error e => e.name

/-- which reader / writer variants the driver runs: /repo as it is, or (argument `fixed`) with every proposed repair -/
structure Sel where
  fx : Fix
  bfx : BFix

/-- the static reader of an extension on a file -/
def decodeExt (sel : Sel) (ext : String) (f : FileArg) : String :=
  match ext, f with
  | "ugrid", .text ts => showR (decodeUgridTxt ts)
  | "tri", .text ts => showR (decodeTri sel.fx ts)
  | "surf", .text ts => showR (decodeSurf sel.fx ts)
  | "fgrid", .text ts => showR (decodeFgrid sel.fx ts)
  | "su2", .text ts => showR (decodeSu2 sel.fx ts)
  | "msh", .text ts => showR (decodeMsh sel.fx ts)
  | "grid", .text ts => showR (decodeGrid sel.fx ts)
  | "r8.ugrid", .bin bs => showS (decodeR8 sel.bfx bs)
  | _, _ => "bad-op"

/-! ### MESH -/

structure MState where
  live : Array Bool
  o2n : Array Int

def liveNode (st : MState) (x : Int) : Bool := decide (0 ≤ x) && st.live.getD x.toNat false

partial def parseCells (raw : Bool) (st : MState) (per size : Nat) : Nat → List String → List (List Int) →
    Option (List (List Int) × List String)
  | 0, ws, acc => some (acc.reverse, ws)
  | n + 1, ws, acc =>
    if ws.length < size then none else
    match (ws.take size).mapM int? with
    | none => none
    | some xs =>
      if !xs.all inI32 then none
      else if !(xs.take per).all (liveNode st) then none
      else
        let c := (xs.take per).map (fun x => if raw then x else st.o2n.getD x.toNat (-1)) ++ xs.drop per
        parseCells raw st per size n (ws.drop size) (c :: acc)

def kinds : List (String × Nat × Nat) :=
  [("edg", 2, 3), ("tri", 3, 4), ("qua", 4, 5), ("tet", 4, 4), ("pyr", 5, 5), ("pri", 6, 6), ("hex", 8, 8)]

def parseKinds (raw : Bool) (st : MState) : List (String × Nat × Nat) → List String → Option (List (List (List Int)) × List String)
  | [], ws => some ([], ws)
  | (name, per, size) :: ks, nm :: nc :: ws =>
    if nm != name || ws.length > 65536 then none else
    match int? nc with
    | some nc =>
      if nc < 0 then none else
      match parseCells raw st per size nc.toNat ws [] with
      | some (cs, ws) =>
        match parseKinds raw st ks ws with
        | some (css, ws) => some (cs :: css, ws)
        | none => none
      | none => none
    | none => none
  | _, _ => none

/-- `twod T n NS slots… edg N … hex N …` → the mesh as the writer sees it (vertices compacted; `raw`: the cells keep
    their slot numbers, which is what ref_export_msh writes); also: were there removed slots -/
def parseMesh (raw : Bool) (ws : List String) : Option (TMesh × Bool) :=
  match ws with
  | "twod" :: t :: "n" :: ns :: rest =>
    match int? t, int? ns with
    | some t, some ns =>
      if t < 0 ∨ 1 < t ∨ ns < 0 ∨ 60000 < ns then none else
      match parseSlots ns.toNat rest [] with
      | none => none
      | some (slots, rest) =>
        let live := slots.map Option.isSome
        let st : MState := { live := live.toArray, o2n := o2nOf live }
        match parseKinds raw st kinds rest with
        | some (css, []) =>
          some ({ twod := t == 1, nodes := slots.filterMap id, edg := css.getD 0 [], tri := css.getD 1 [],
                  qua := css.getD 2 [], tet := css.getD 3 [], pyr := css.getD 4 [], pri := css.getD 5 [],
                  hex := css.getD 6 [] }, live.any (!·))
        | _ => none
    | _, _ => none
  | _ => none

def encodeExt (ext : String) (m : TMesh) : Option (List Tok) :=
  match ext with
  | "ugrid" => some (encodeUgridTxt m)
  | "tri" => some (encodeTri m)
  | "fgrid" => some (encodeFgrid m)
  | "su2" => some (encodeSu2 m)
  | "msh" => some (encodeMsh m)
  | _ => none

def opExp (sel : Sel) (roundtrip : Bool) (ws : List String) : String :=
  match ws with
  | ext :: rest =>
    if !exts.contains ext then "bad-op" else
    match parseMesh (ext == "msh" && !sel.fx.mshRenumber) rest with
    | none => "bad-op"
    | some (m, _) =>
      match encodeExt ext m with
      | none => "unmodelled"
      | some ts =>
        if roundtrip then decodeExt sel ext (.text ts)
        else "ok |" ++ String.join (ts.map fmtTok)
  | _ => "bad-op"

/-- `hazard_exp`: ref_export_su2 forms `max_faceid - min_faceid + 1` from `INT_MIN - INT_MAX` when the mesh has no
    marker element -/
def opHazardExp (sel : Sel) (ws : List String) : String :=
  match ws with
  | ext :: rest =>
    if !exts.contains ext then "bad-op" else
    match parseMesh false rest with
    | none => "bad-op"
    | some (m, _) => if ext == "su2" && (su2Ids m).isEmpty && !sel.fx.su2NoMarker then "hazard" else "clean"
  | _ => "bad-op"

/-! ### readers -/

def splitBar (ws : List String) : List String × List String :=
  (ws.takeWhile (· != "|"), (ws.dropWhile (· != "|")).drop 1)

def opImp (sel : Sel) (robust : Bool) (ws : List String) : String :=
  let (hdr, fl) := splitBar ws
  match hdr with
  | [ext] =>
    if !exts.contains ext then "bad-op" else
    match file? fl with
    | none => "bad-op"
    | some f =>
      match ext, f with
      | "r8.ugrid", .text _ => "bad-op"
      | _, _ => if robust then "returned" else decodeExt sel ext f
  | _ => "bad-op"

/-- `hazard_imp` / `hazard`: does the model predict that the C does not come back cleanly?  `translate`: an accepted
    vertex index far outside every array (the exporters index their renumbering tables with it) counts too -/
def opHazard (sel : Sel) (translate : Bool) (ws : List String) : String :=
  let (hdr, fl) := splitBar ws
  match hdr with
  | [ext] =>
    if !exts.contains ext then "bad-op" else
    match file? fl with
    | none => "bad-op"
    | some f =>
      let far (m : TMesh) : Bool :=
        let big (per : Nat) (cs : List (List Int)) : Bool := cs.any fun c => (c.take per).any fun x => decide (1000000 ≤ x)
        big 2 m.edg || big 3 m.tri || big 4 m.qua || big 4 m.tet || big 5 m.pyr || big 6 m.pri || big 8 m.hex
      let r : Option Bool := match ext, f with
        | "ugrid", .text ts => some (match decodeUgridTxt ts with
            | .ok m => translate && far m | .error e => e == .st .undefined || e == .st .diverge || e == .bloat)
        | "r8.ugrid", .bin bs => some (match decodeR8 sel.bfx bs with
            | .ok m => translate && far m | .error e => e == .undefined || e == .diverge)
        | "r8.ugrid", _ => none
        | _, .text ts =>
          let d : Option (R TMesh) := match ext with
            | "tri" => some (decodeTri sel.fx ts) | "surf" => some (decodeSurf sel.fx ts)
            | "fgrid" => some (decodeFgrid sel.fx ts) | "su2" => some (decodeSu2 sel.fx ts)
            | "msh" => some (decodeMsh sel.fx ts) | "grid" => some (decodeGrid sel.fx ts) | _ => none
          d.map fun d => match d with
            | .ok m => translate && (far m || (ext == "su2" && (su2Ids m).isEmpty && !sel.fx.su2NoMarker)) | .error e => e == .st .undefined || e == .st .diverge || e == .bloat
        | _, _ => none
      match r with
      | none => "bad-op"
      | some true => "hazard"
      | some false => "clean"
  | _ => "bad-op"

def fmtRow (acc : String) (r : List UInt64) : String := r.foldl (fun a v => a ++ " " ++ fmtBits v) acc

def saneExt (s : String) : Bool :=
  1 ≤ s.length && s.length ≤ 12 && s.all fun c => c.isLower || c.isDigit || c == '_' || c == '.'

def opScalar (sel : Sel) (ws : List String) : String :=
  let (hdr, fl) := splitBar ws
  match hdr with
  | [ext, n, twod] =>
    match n.toNat?, twod.toNat?, file? fl with
    | some N, some t, some f =>
      if !saneExt ext || N > 100000 || t > 1 || !isIntTok n || !isIntTok twod then "bad-op" else
      let ranks := [List.range N]
      let show2 (r : B (Int × List (List Refine.Model.Sol.Row))) : String :=
        match r with
        | .error e => e.name
        | .ok (ldim, arrs) => (arrs.headD []).foldl fmtRow ("ok " ++ toString ldim)
      match ext, f with
      | "rst", .bin bs => show2 (partScalarRst sel.bfx 100000 N (nodeMaxOf N) ranks bs)
      | "snap", .bin bs => show2 (partScalarSnap sel.bfx 100000 N (nodeMaxOf N) ranks bs)
      | "plt", .bin bs =>
        match partScalarPlt sel.bfx (nodeMaxOf N) bs with
        | .error e => e.name
        | .ok ldim => "ok " ++ toString ldim
      | _, _ => "unmodelled"
    | _, _, _ => "bad-op"
  | _ => "bad-op"

def opHazardScalar (sel : Sel) (ws : List String) : String :=
  let r := opScalar sel ws
  if r == "bad-op" || r == "unmodelled" then r
  else if r == "ub" || r == "hang" || r == "bloat" then "hazard" else "clean"

def fmtDict (d : List (Int × Int)) : String :=
  d.foldl (fun a e => a ++ " " ++ toString e.1 ++ " " ++ toString e.2) ("ok " ++ toString d.length)

def opMapbc (ws : List String) : String :=
  let (hdr, fl) := splitBar ws
  match hdr, file? fl with
  | [], some (.text ts) =>
    match readMapbc ts with
    | .error e => e.name
    | .ok d => (walls d).foldl (fun a i => a ++ " " ++ toString i) (fmtDict d ++ " wall")
  | [tok], some (.text ts) =>
    if tok.length > 200 then "bad-op" else
    match readMapbcToken tok ts with
    | .error e => e.name
    | .ok d => fmtDict d
  | _, _ => "bad-op"

/-! ### `rd_scalar` of harness/h_sol.c for `.rst` / `.snap` on several ranks -/

def opRdScalar (sel : Sel) (np : Nat) (hdr : List String) (gs : List (List String)) : String :=
  match hdr with
  | [ext, fl, n] =>
    if gs.length ≠ np + 1 || !Drivers.Sol.extOk ext then "bad-op" else
    match Drivers.Sol.nat? fl, Drivers.Sol.nat? n with
    | some fl, some N =>
      if fl < 1 || N < 1 || N > 100000 then "bad-op" else
      match Drivers.Sol.file? (gs.headD []), (gs.drop 1).mapM (Drivers.Sol.readGroup? N) with
      | some (.bin bs), some ranks =>
        let nodeMax := nodeMaxOf ((ranks.map List.length).foldl max 0)
        let r := if ext == ".rst" then some (partScalarRst sel.bfx fl N nodeMax ranks bs)
                 else if ext == ".snap" then some (partScalarSnap sel.bfx fl N nodeMax ranks bs) else none
        match r with
        | none => "unmodelled"
        | some (.error e) => e.name
        | some (.ok (ldim, arrs)) => "ok " ++ toString ldim ++ Drivers.Sol.fmtRows arrs
      | some _, some _ => "unmodelled"
      | _, _ => "bad-op"
    | _, _ => "bad-op"
  | _ => "bad-op"

def step (sel : Sel) (_ : Unit) (line : String) : Unit × String :=
  let r : String := match words line with
    | "imp" :: ws => opImp sel false ws
    | "robust_imp" :: ws => opImp sel true ws
    | "robust" :: ws => opImp sel true ws
    | "exp" :: ws => opExp sel false ws
    | "rt" :: ws => opExp sel true ws
    | "scalar" :: ws => opScalar sel ws
    | "hazard_imp" :: ws => opHazard sel false ws
    | "hazard" :: ws => opHazard sel true ws
    | "hazard_scalar" :: ws => opHazardScalar sel ws
    | "hazard_exp" :: ws => opHazardExp sel ws
    | "mapbc" :: ws => opMapbc ws
    | "mapbc_token" :: ws => opMapbc ws
    | "rd_scalar" :: npS :: rest =>
      match Drivers.Sol.nat? npS with
      | none => "bad-op"
      | some np =>
        if np = 0 then "bad-op" else
        let (hdr, gs) := Drivers.Sol.splitGroups rest
        if gs.length > 64 then "bad-op" else opRdScalar sel np hdr gs
    | _ => "bad-op"
  ((), r)

def run (args : List String) : IO UInt32 := do
  let sel : Sel := if args.contains "fixed" then ⟨Fix.all, BFix.all⟩ else ⟨Fix.current, BFix.current⟩
  runLoop () (step sel)
  return 0

end Drivers.Formats
