import Drivers.Proto
import Refine.Model.Metric

/-! driver `metric`: the metric-field kernels at the `Float` instance (bit-compared with `h_metric.c`).
    Stateless: every op carries its own mesh block

      MESH := twod nn <3*nn xyz> <6*nn metric> <nn owned 0|1> ncell <cells: kind n0 n1 …>

    Diff ops print `ok <hex doubles…>` or the REF_STATUS name.  Validate ops (`gacdump`, `interpdump`) take a
    state dumped by the harness after a real `ref_metric_gradation_at_complexity` /
    `ref_metric_interpolate_node|between` and print `ok …` / `bad …`. -/
namespace Drivers.Metric
open Drivers.Proto Refine Refine.Model.Matrix Refine.Model.Metric
open Refine.Model.Recon (Cell CellKind)
open Refine.Model.Geom (V3 B4)

abbrev F := Float

structure Mesh where
  twod : Bool
  xyz : List (V3 F)
  metric : List (M6 F)
  owned : List Bool
  cells : List Cell

def Mesh.own (m : Mesh) (i : Nat) : Bool := m.owned.getD i false

def v3s : List F → List (V3 F)
  | x :: y :: z :: rest => ⟨x, y, z⟩ :: v3s rest
  | _ => []

def m6s : List F → List (M6 F)
  | a :: b :: c :: d :: e :: f :: rest => ⟨a, b, c, d, e, f⟩ :: m6s rest
  | _ => []

def kindOf : String → Option CellKind
  | "tri" => some .tri | "qua" => some .qua | "tet" => some .tet
  | "pyr" => some .pyr | "pri" => some .pri | "hex" => some .hex
  | _ => none

def kindSize : CellKind → Nat
  | .tri => 3 | .qua => 4 | .tet => 4 | .pyr => 5 | .pri => 6 | .hex => 8

partial def parseCells (nn : Nat) (ws : List String) (acc : List Cell) : Option (List Cell) :=
  match ws with
  | [] => some acc.reverse
  | k :: rest =>
    match kindOf k with
    | none => none
    | some kind =>
      let sz := kindSize kind
      if rest.length < sz then none else
      match parseNats? (rest.take sz) with
      | none => none
      | some ns => if ns.all (· < nn) then parseCells nn (rest.drop sz) (⟨kind, ns⟩ :: acc) else none

def parseMesh (ws : List String) : Option Mesh :=
  match ws with
  | tw :: nns :: rest =>
    match tw.toNat?, nns.toNat? with
    | some t, some nn =>
      if t > 1 || nn == 0 || nn > 4000 || rest.length < 10 * nn + 1 then none else
      match parseFs? (rest.take (3 * nn)), parseFs? ((rest.drop (3 * nn)).take (6 * nn)),
            parseNats? ((rest.drop (9 * nn)).take nn) with
      | some xs, some ms, some os =>
        if !(os.all (· ≤ 1)) then none else
        match rest.drop (10 * nn) with
        | ncs :: cw =>
          match ncs.toNat?, parseCells nn cw [] with
          | some nc, some cells =>
            if cells.length == nc then some ⟨t == 1, v3s xs, m6s ms, os.map (· == 1), cells⟩ else none
          | _, _ => none
        | [] => none
      | _, _, _ => none
    | _, _ => none
  | _ => none

def okLine (xs : List F) : String :=
  if xs.isEmpty then "ok" else "ok " ++ fmtFs xs

def fField (ms : List (M6 F)) : List F := ms.flatMap M6.toList

def resField (r : Except Err (List (M6 F))) : String :=
  match r with
  | .ok ms => okLine (fField ms)
  | .error e => e.name

def resPair (r : Except Err (M6 F × M6 F)) : String :=
  match r with
  | .ok (m, lg) => okLine (m.toList ++ lg.toList)
  | .error e => e.name

def m6? : List F → Option (M6 F)
  | [a, b, c, d, e, f] => some ⟨a, b, c, d, e, f⟩
  | _ => none

/-- `|a-b| <= tol * |b|` -/
def relClose (a b tol : F) : Bool := (a - b).abs ≤ tol * b.abs

/-- leading principal minors positive and all entries finite -/
def spdFinite (m : M6 F) : Bool :=
  m.toList.all Float.isFinite && m.m11 > 0 && m.m11 * m.m22 - m.m12 * m.m12 > 0 &&
  (m.m11 * (m.m22 * m.m33 - m.m23 * m.m23) - m.m12 * (m.m12 * m.m33 - m.m23 * m.m13)
     + m.m13 * (m.m12 * m.m23 - m.m22 * m.m13)) > 0

/-- model invariants on the state left by a real `ref_metric_gradation_at_complexity`:
    the modelled `complexity` of the output equals the target (the final rescale is `setComplexity`, whose
    exactness is `Props/C10.setComplexity_exact`), every tensor finite SPD, the 2-D embedding in place -/
def checkGac (target : F) (m : Mesh) : String :=
  let c : F := complexity m.own m.xyz m.metric m.cells
  if !(relClose c target 1.0e-10) then s!"bad complexity {fmtF c} target {fmtF target}"
  else if !(m.metric.all spdFinite) then "bad not-spd-or-not-finite"
  else if m.twod && !(m.metric.all (fun x => x.m13 == 0.0 && x.m23 == 0.0 && x.m33 == 1.0)) then "bad embedding"
  else "ok gac"

def evalOp (ws : List String) : String :=
  let bad := "bad-op"
  match ws with
  | "complexity" :: rest =>
    (match parseMesh rest with
     | some m => okLine [complexity m.own m.xyz m.metric m.cells]
     | none => bad)
  | "set_complexity" :: t :: rest =>
    (match parseF? t, parseMesh rest with
     | some target, some m => resField (setComplexity m.twod m.own m.xyz m.metric m.cells target)
     | _, _ => bad)
  | "local_scale" :: p :: rest =>
    (match p.toInt?, parseMesh rest with
     | some p, some m => if p < -1000 || p > 1000 then bad else okLine (fField (localScale m.twod p m.metric))
     | _, _ => bad)
  | "limit_ar" :: a :: rest =>
    (match parseF? a, parseMesh rest with
     | some ar, some m => resField (limitAspectRatio m.twod ar m.metric)
     | _, _ => bad)
  | "abs_hessian" :: rest =>
    (match parseMesh rest with
     | some m => resField (absHessian m.own m.metric)
     | none => bad)
  | "roundoff" :: rest =>
    (match parseMesh rest with
     | some m => resField (roundoffLimit m.xyz m.cells m.metric)
     | none => bad)
  | "gacdump" :: t :: rest =>
    (match parseF? t, parseMesh rest with
     | some target, some m => checkGac target m
     | _, _ => "bad malformed-dump")
  | "gacfail" :: _ => "ok gacfail"
  | "node_metric_set" :: rest =>
    (match (parseFs? rest).bind m6? with
     | some m => resPair (nodeMetricSet m)
     | none => bad)
  | "node_metric_set_log" :: rest =>
    (match (parseFs? rest).bind m6? with
     | some m => resPair (nodeMetricSetLog m)
     | none => bad)
  | "interp_kernel" :: nps :: rest =>
    (match nps.toNat?, parseFs? rest with
     | some np, some xs =>
       if (np != 3 && np != 4) || xs.length != 28 then bad else
       match xs.take 4, m6s (xs.drop 4) with
       | [b0, b1, b2, b3], [l0, l1, l2, l3] => resPair (interpolateNode np ⟨b0, b1, b2, b3⟩ l0 l1 l2 l3)
       | _, _ => bad
     | _, _ => bad)
  | "interp_edge" :: rest =>
    (match parseFs? rest with
     | some xs =>
       if xs.length != 13 then bad else
       match m6s (xs.take 12), xs.drop 12 with
       | [l0, l1], [w] => resPair (interpolateEdgeMetric l0 l1 w)
       | _, _ => bad
     | none => bad)
  | "interpdump" :: nps :: _ :: _ :: _ :: _ :: rest =>
    -- nodePer, donor node ids (4, for the oracle), stored bary (4), donor logs (4x6), stored m (6) and
    -- stored log (6) of the receptor, its position (3, for the oracle)
    (match nps.toNat?, parseFs? rest with
     | some np, some xs =>
       if (np != 3 && np != 4) || xs.length != 43 then "bad malformed-dump" else
       match xs.take 4, m6s ((xs.drop 4).take 24) with
       | [b0, b1, b2, b3], [l0, l1, l2, l3] =>
         let want := resPair (interpolateNode np ⟨b0, b1, b2, b3⟩ l0 l1 l2 l3)
         let got := okLine ((xs.drop 28).take 12)
         if want == got then "ok interp" else "bad interp model " ++ want
       | _, _ => "bad malformed-dump"
     | _, _ => "bad malformed-dump")
  | "interpfdump" :: nps :: _ :: _ :: _ :: _ :: rest =>
    -- the same dump after a real `ref_metric_interpolate` (whole-field transfer): donor-side combination over 4 rows
    (match nps.toNat?, parseFs? rest with
     | some np, some xs =>
       if (np != 3 && np != 4) || xs.length != 43 then "bad malformed-dump" else
       match xs.take 4, m6s ((xs.drop 4).take 24) with
       | [b0, b1, b2, b3], [l0, l1, l2, l3] =>
         let want := resPair (interpolateDonor np ⟨b0, b1, b2, b3⟩ l0 l1 l2 l3)
         let got := okLine ((xs.drop 28).take 12)
         if want == got then "ok interpf" else "bad interpf model " ++ want
       | _, _ => "bad malformed-dump"
     | _, _ => "bad malformed-dump")
  | "interpskip" :: _ => "ok interpskip"
  | _ => bad

def step (_ : Unit) (line : String) : Unit × String := ((), evalOp (words line))

def run (_ : List String) : IO UInt32 := do
  runLoop () step
  return 0

end Drivers.Metric
