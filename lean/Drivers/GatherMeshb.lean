import Drivers.Proto
import Drivers.Comm
import Drivers.Codec
import Refine.Model.GatherMeshb

/-!
  driver `gathermeshb`: `Refine.Model.GatherMeshb.gatherMeshb` behind the line protocol of `harness/h_gathermeshb.c`.

    gather_meshb np rbl mv twod N | <rank 0> | <rank 1> | …
      <rank> = K (global part x y z)*K                      vertices held (owned and ghost); x y z = 16 hex digits
               NG (group nc (g*node_per [id])*nc)*NG         cell groups, `group` = index in each_ref_grid_all_ref_cell
                                                             order, strictly increasing; id only for edg/tri/qua kinds
               M (type node id gref p0 p1)*M                 geometry associations in ref_geom index order (node = global)
               CAD                                           `-` or hex bytes (ref_geom_cad_data of that rank)
      → `ok HEX` (the bytes of the file) | `<status>` | `hang` | `bad-op`
    export_meshb <same arguments>, np = 1, vertices listed as global 0..N-1 in this order, all of part 0, rbl ≤ 0 or ≥ 32:
      the harness runs the SERIAL writer ref_export_by_extension on that grid.  The model side is the same `gatherMeshb`:
      by `Props.C08Gather.gatherMeshb_eq_encode` it equals `encodeMeshb v (globalMesh d)`, and for this world `globalMesh d`
      is the grid itself (local index = global id, every cell and record owned by the one rank), whose serial file is
      `encodeMeshb` (tied to ref_export_meshb by the stream `meshb_write`).  So this op compares the serial C writer with
      the parallel writer's model directly: "serial and parallel writers produce the same file".
-/
namespace Drivers.GatherMeshb
open Drivers.Proto Refine.Model.Meshb Refine.Model.Par Refine.Model.GatherMeshb

/-- `x + y` on IEEE-754 binary64 bit patterns (what `MPI_SUM` on `REF_DBL` does per slot) -/
def addBits (a b : UInt64) : UInt64 := (Float.ofBits a + Float.ofBits b).toBits

def parseBits? (s : String) : Option UInt64 :=
  if s.length ≠ 16 then none else (parseHex? s).map fun n => n.toUInt64

def int32? (s : String) : Option Int :=
  if s.length > 11 then none else
  match s.toInt? with
  | some x => if x ≤ 2147483647 ∧ -2147483648 ≤ x then some x else none
  | none => none

def nat9? (s : String) : Option Nat := if s.length > 9 then none else s.toNat?

def parseNodes : Nat → List String → Option (List (Node Vertex) × List String)
  | 0, rest => some ([], rest)
  | k + 1, g :: p :: x :: y :: z :: rest =>
    match nat9? g, nat9? p, parseBits? x, parseBits? y, parseBits? z with
    | some g, some p, some x, some y, some z =>
      match parseNodes k rest with
      | some (tl, rest) => some (⟨g, p, ⟨x, y, z⟩⟩ :: tl, rest)
      | none => none
    | _, _, _, _, _ => none
  | _, _ => none

def parseCells (ci : CellInfo) (stored : Nat → Bool) : Nat → List String → Option (List GCell × List String)
  | 0, rest => some ([], rest)
  | k + 1, rest =>
    if rest.length < ci.sizePer then none else
    match (rest.take ci.nodePer).mapM nat9? with
    | none => none
    | some nodes =>
      if !(nodes.all stored) then none else
      let idTok := if ci.lastId then int32? (rest.getD ci.nodePer "") else some 0
      match idTok with
      | none => none
      | some id =>
        match parseCells ci stored k (rest.drop ci.sizePer) with
        | some (tl, rest) => some (⟨nodes, id⟩ :: tl, rest)
        | none => none

/-- `NG` blocks `group nc cells…`, groups strictly increasing; result: the 16 groups -/
def parseGroups (stored : Nat → Bool) : Nat → Int → List String → List (List GCell) →
    Option (List (List GCell) × List String)
  | 0, _, rest, acc => some (acc, rest)
  | n + 1, last, k :: nc :: rest, acc =>
    match nat9? k, nat9? nc with
    | some k, some nc =>
      if (k : Int) ≤ last || k ≥ 16 then none else
      match cellInfos[k]? with
      | none => none
      | some ci =>
        match parseCells ci stored nc rest with
        | some (cells, rest) => parseGroups stored n k rest (acc.set k cells)
        | none => none
    | _, _ => none
  | _, _, _, _ => none

def parseGeoms (stored : Nat → Bool) : Nat → List String → Option (List LGeom × List String)
  | 0, rest => some ([], rest)
  | k + 1, t :: nd :: id :: gref :: p0 :: p1 :: rest =>
    match nat9? t, nat9? nd, int32? id, int32? gref, parseBits? p0, parseBits? p1 with
    | some t, some nd, some id, some gref, some p0, some p1 =>
      if t > 2 || !(stored nd) then none else
      match parseGeoms stored k rest with
      | some (tl, rest) => some (⟨t, nd, id, gref, p0, p1⟩ :: tl, rest)
      | none => none
    | _, _, _, _, _, _ => none
  | _, _ => none

def distinct {β : Type} [BEq β] (xs : List β) : Bool := xs.eraseDups.length == xs.length

def parseRank (N : Nat) (g : List String) : Option Rank :=
  match g with
  | k :: rest =>
    match nat9? k with
    | none => none
    | some k =>
      match parseNodes k rest with
      | none => none
      | some (nodes, rest) =>
        let gs := nodes.map (·.global)
        if !(distinct gs) || !(gs.all (· < N)) then none else
        let stored := fun (n : Nat) => gs.contains n
        match rest with
        | ng :: rest =>
          match nat9? ng with
          | none => none
          | some ng =>
            match parseGroups stored ng (-1) rest (List.replicate 16 []) with
            | none => none
            | some (cells, rest) =>
              match rest with
              | m :: rest =>
                match nat9? m with
                | none => none
                | some m =>
                  match parseGeoms stored m rest with
                  | none => none
                  | some (geoms, rest) =>
                    if !(distinct (geoms.map fun x => (x.node, x.type, x.id))) then none else
                    match rest with
                    | [cad] =>
                      match Drivers.Codec.bytesOfHex? cad with
                      | some cad => some ⟨nodes, cells, geoms, cad⟩
                      | none => none
                    | _ => none
              | [] => none
        | [] => none
  | [] => none

/-- `export_meshb`: one rank holding the vertices `0..N-1` in this order, all of part 0 -/
def identityWorld (N : Nat) (ranks : List Rank) : Bool :=
  match ranks with
  | [rk] => rk.nodes.map (fun nd => (nd.global, nd.part)) == (List.range N).map fun g => (g, 0)
  | _ => false

def gatherOp (serial : Bool) (ws : List String) : String :=
  let bad := "bad-op"
  match ws with
  | nps :: rbls :: mvs :: twods :: ns :: rest =>
    match nat9? nps, int32? rbls, nat9? mvs, nat9? twods, nat9? ns with
    | some np, some rbl, some mv, some twod, some N =>
      if np == 0 || N > 100000 || mv > 4 || twod > 1 then bad else
      match Drivers.Comm.groupsOf np rest with
      | none => bad
      | some gs =>
        match gs.mapM (parseRank N) with
        | none => bad
        | some ranks =>
          if serial && (!(identityWorld N ranks) || (0 < rbl && rbl < 32) || N < 1) then bad else
          match gatherMeshb addBits rbl (mv : Int) ⟨twod == 1, N, ranks⟩ with
          | .hang => "hang"
          | .fail st => st.name
          | .ok bytes => "ok " ++ Drivers.Codec.hexOfBytes bytes
    | _, _, _, _, _ => bad
  | _ => bad

def step (_ : Unit) (line : String) : Unit × String :=
  match words line with
  | "gather_meshb" :: rest => ((), gatherOp false rest)
  | "export_meshb" :: rest => ((), gatherOp true rest)
  | _ => ((), "bad-op")

def run (_ : List String) : IO UInt32 := do
  runLoop () step
  return 0

end Drivers.GatherMeshb
