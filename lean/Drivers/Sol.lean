import Drivers.Proto
import Drivers.Codec
import Refine.Model.Sol

/-! driver `sol`: the text/binary field and metric readers and writers of `Refine.Model.Sol` on one or several ranks;
    same op lines as harness/h_sol.c (see there for the formats) -/
namespace Drivers.Sol
open Drivers.Proto Drivers.Codec Refine.Model.Meshb Refine.Model.Sol
open Refine.Model

def isNatTok (s : String) : Bool := !s.isEmpty && s.all Char.isDigit && s.length ≤ 9
def nat? (s : String) : Option Nat := if isNatTok s then s.toNat? else none
def isHex16 (s : String) : Bool :=
  s.length == 16 && s.all fun c => ('0' ≤ c ∧ c ≤ '9') ∨ ('a' ≤ c ∧ c ≤ 'f')
def hex16? (s : String) : Option UInt64 := if isHex16 s then (parseHex? s).map UInt64.ofNat else none

/-- split at the `|` tokens: header words, groups -/
def splitGroups (ws : List String) : List String × List (List String) :=
  let rec go : List String → List String → List (List String) → List (List String)
    | [], cur, acc => (cur.reverse :: acc).reverse
    | "|" :: r, cur, acc => go r [] (cur.reverse :: acc)
    | x :: r, cur, acc => go r (x :: cur) acc
  match go ws [] [] with
  | [] => ([], [])
  | h :: gs => (h, gs)

def finite (u : UInt64) : Bool := (u.toNat / 2 ^ 52) % 2048 ≠ 2047

def lower (s : String) : String := s.map Char.toLower

def tok? (t : String) : Option Tok :=
  if t.startsWith "w:" then
    let p := (t.drop 2).toString
    if p.isEmpty || p.length > 100 || !(p.all Char.isAlpha) then none
    else if (lower p).startsWith "nan" || (lower p).startsWith "inf" then none
    else some (.word p)
  else if t.startsWith "i:" then
    let p := (t.drop 2).toString
    if isInt p && p.length ≤ 9 then p.toInt?.map Tok.int else none
  else if t.startsWith "f:" then
    match hex16? (t.drop 2).toString with
    | some u => if finite u then some (.num u) else none
    | none => none
  else none

def hexLower (s : String) : Bool := s.all fun c => ('0' ≤ c ∧ c ≤ '9') ∨ ('a' ≤ c ∧ c ≤ 'f')

def file? (g : List String) : Option File :=
  match g with
  | [t] =>
    if t.startsWith "x:" then
      let p := (t.drop 2).toString
      if p == "-" then some (.bin [])
      else if p.length % 2 = 1 || !hexLower p then none
      else (bytesOfHex? p).map File.bin
    else (g.mapM tok?).map File.text
  | _ => (g.mapM tok?).map File.text

def distinct (xs : List Nat) : Bool := xs.eraseDups.length == xs.length

/-- `K g*K`, globals `< N`, distinct -/
def readGroup? (N : Nat) (g : List String) : Option (List Nat) :=
  match g with
  | [] => none
  | k :: rest =>
    match nat? k, rest.mapM nat? with
    | some k, some gl =>
      if k > 5000 || gl.length ≠ k || gl.any (· ≥ N) || !distinct gl then none else some gl
    | _, _ => none

def chunksOf {α : Type} (n : Nat) (xs : List α) : List (List α) :=
  if n = 0 then [] else
  (List.range (xs.length / n)).map fun i => (xs.drop (i * n)).take n

/-- `K (g part v*w)*K` -/
def writeGroup? (N w : Nat) (g : List String) : Option (Par.RankView Row) :=
  match g with
  | [] => none
  | k :: rest =>
    match nat? k with
    | none => none
    | some k =>
      let rec_ := 2 + w
      if k > 5000 || rest.length ≠ rec_ * k then none else
      let recs := chunksOf rec_ rest
      match recs.mapM (fun r =>
        match r with
        | a :: b :: vs =>
          match nat? a, nat? b, vs.mapM hex16? with
          | some a, some b, some vs => if a < N ∧ b < 64 then some (a, b, vs) else none
          | _, _, _ => none
        | _ => none) with
      | none => none
      | some ns =>
        if !distinct (ns.map (·.1)) then none else
        some { nodes := ns.map fun (a, b, vs) => { global := a, part := b, payload := vs }, cells := [] }

def fmtTok : Tok → String
  | .word s => "w:" ++ s
  | .int n => "i:" ++ toString n
  | .num b => "f:" ++ fmtBits b

def fmtRows (arrs : List (List Row)) : String :=
  String.join (arrs.map fun a => " |" ++ String.join (a.map fun r => String.join (r.map fun v => " " ++ fmtBits v)))

def extOk (e : String) : Bool := e.length ≤ 40 && !(e.any (· == '/'))

/-- kind: 0 metric, 1 scalar, 2 bamg -/
def opRead (kind : Nat) (np : Nat) (hdr : List String) (gs : List (List String)) : String :=
  let hdr := if kind == 2 then ".met" :: hdr else hdr
  match hdr with
  | [ext, fl, n] =>
    if gs.length ≠ np + 1 || !extOk ext then "bad-op" else
    match nat? fl, nat? n with
    | some fl, some N =>
      if fl < 1 || N < 1 || N > 100000 then "bad-op" else
      match file? (gs.headD []), (gs.drop 1).mapM (readGroup? N) with
      | some f, some ranks =>
        let name := "h" ++ ext
        let st (e : Status) := e.name
        match kind with
        | 0 =>
          match partMetric name fl N ranks f with
          | none => "unmodelled"
          | some (.error e) => st e
          | some (.ok arrs) => "ok" ++ fmtRows arrs
        | 1 =>
          match partScalar Cfg.fixed name fl N ranks f with
          | none => "unmodelled"
          | some (.error e) => st e
          | some (.ok (ldim, arrs)) => "ok " ++ toString ldim ++ fmtRows arrs
        | _ =>
          match f with
          | .text ts =>
            match partBamgMetric fl N ranks ts with
            | .error e => st e
            | .ok arrs => "ok" ++ fmtRows arrs
          | _ => "unmodelled"
      | _, _ => "bad-op"
    | _, _ => "bad-op"
  | _ => "bad-op"

def fmtOut : WResult → String
  | .hang => "hang"
  | .done (.error e) => e.name
  | .done (.ok (.toks ts)) => "ok" ++ String.join (ts.map fun t => " " ++ fmtTok t)
  | .done (.ok (.bytes bs)) => "ok x:" ++ hexOfBytes bs

def opWrite (metric : Bool) (np : Nat) (hdr : List String) (gs : List (List String)) : String :=
  let hdr := if metric then hdr ++ ["6"] else hdr
  match hdr with
  | [ext, twod, ver, rbl, n, ldim] =>
    if gs.length ≠ np || !extOk ext then "bad-op" else
    match nat? twod, nat? ver, (if isInt rbl && rbl.length ≤ 10 then rbl.toInt? else none), nat? n, nat? ldim with
    | some twod, some ver, some rbl, some N, some ldim =>
      if twod > 1 || ver > 4 || N < 1 || N > 100000 || ldim > 40 || rbl > 2147483647 || rbl < -2147483648 then "bad-op"
      else
      match gs.mapM (writeGroup? N ldim) with
      | none => "bad-op"
      | some w =>
        let name := "h" ++ ext
        if metric then fmtOut (gatherMetric name (twod == 1) ver rbl N w)
        else
          match gatherScalar name (twod == 1) ver rbl N ldim w with
          | none => "unmodelled"
          | some r => fmtOut r
    | _, _, _, _, _ => "bad-op"
  | _ => "bad-op"

def step (line : String) : String :=
  match words line with
  | op :: npS :: rest =>
    match nat? npS with
    | none => "bad-op"
    | some np =>
      if np = 0 then "bad-op" else
      let (hdr, gs) := splitGroups rest
      if gs.length > 64 then "bad-op" else
      match op with
      | "rd_metric" => opRead 0 np hdr gs
      | "rd_scalar" => opRead 1 np hdr gs
      | "rd_bamg" => opRead 2 np hdr gs
      | "wr_metric" => opWrite true np hdr gs
      | "wr_scalar" => opWrite false np hdr gs
      | _ => "bad-op"
  | _ => "bad-op"

def run (_args : List String) : IO UInt32 := do
  runLoop () fun _ line => ((), step line)
  return 0

end Drivers.Sol
