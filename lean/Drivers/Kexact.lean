import Drivers.Proto
import Drivers.Geom
import Refine.Model.Kexact

/-! driver `kexact`: `ref_matrix_qr`, `ref_matrix_solve_ab`, `ref_recon_kexact_with_aux`,
    `ref_recon_kexact_center` and the k-exact branches of `ref_recon_gradient` / `ref_recon_signed_hessian` /
    `ref_recon_hessian` at the `Float` instance.  Stateless; doubles as 16 hex digits.

    ops
      qr m n <m*n column-major>                 -> ok <q m*n> <r n*n> | div_zero
      solve_ab n <n*(n+1) column-major>          -> ok|ill_conditioned <x n> | div_zero
      kexact_aux twod center n (g x y z s)*n     -> <status> <grad 3> <hess 6>
      kexact_center x y z n (g x y z s)*n        -> ok <value> | <status>
      kx_grad|kx_shess|kx_hess <mesh as in driver geom>  -> ok <3|6 per vertex> | <status> -/
namespace Drivers.Kexact
open Drivers.Proto Refine Refine.Model.Geom Refine.Model.Kexact

abbrev F := Float

def chunks (m : Nat) : Nat → List F → List (List F)
  | 0, _ => []
  | k + 1, xs => xs.take m :: chunks m k (xs.drop m)

/-- full `n×n` `R`, column-major, from the rows-from-the-diagonal form -/
def rFlat (n : Nat) (R : List (List F)) : List F :=
  (List.range n).flatMap fun j => (List.range n).map fun i =>
    if i ≤ j then (R.getD i []).getD (j - i) 0.0 else 0.0

def parseItems : List String → Option (List (Item F))
  | [] => some []
  | g :: x :: y :: z :: s :: rest =>
    match g.toInt?, parseF? x, parseF? y, parseF? z, parseF? s, parseItems rest with
    | some g, some x, some y, some z, some s, some t => some (⟨g, x, y, z, s⟩ :: t)
    | _, _, _, _, _, _ => none
  | _ => none

def fV (v : V3 F) : String := fmtFs [v.x, v.y, v.z]
def fM6 (m : M6 F) : String := fmtFs [m.m0, m.m1, m.m2, m.m3, m.m4, m.m5]

/-- the cells `ref_recon_kexact_gradient_hessian` looks at: tets, or triangles when `twod` -/
def kxCells (twod : Bool) (cells : List Refine.Model.Recon.Cell) : List (List Nat) :=
  (cells.filter (fun c => if twod then c.kind = .tri else c.kind = .tet)).map (·.nodes)

def step (_ : Unit) (line : String) : Unit × String :=
  let ws := words line
  let r : String :=
    match ws with
    | "qr" :: ms :: ns :: rest =>
      (match ms.toNat?, ns.toNat?, parseFs? rest with
       | some m, some n, some a =>
         if m == 0 || n == 0 || m > 400 || n > 12 || a.length != m * n then "bad-op" else
         match qr (chunks m n a) with
         | none => "div_zero"
         | some (Q, R) => "ok " ++ fmtFs (Q.flatMap id) ++ " " ++ fmtFs (rFlat n R)
       | _, _, _ => "bad-op")
    | "solve_ab" :: ns :: rest =>
      (match ns.toNat?, parseFs? rest with
       | some n, some ab =>
         if n == 0 || n > 12 || ab.length != n * (n + 1) then "bad-op" else
         let rows := (List.range n).map fun i => (List.range (n + 1)).map fun j => ab.getD (i + n * j) 0.0
         match solveAb rows with
         | none => "div_zero"
         | some (ill, x) => (if ill then "ill_conditioned " else "ok ") ++ fmtFs x
       | _, _ => "bad-op")
    | "kexact_aux" :: tw :: cs :: ns :: rest =>
      (match tw.toNat?, cs.toInt?, ns.toNat?, parseItems rest with
       | some t, some c, some n, some items =>
         if t > 1 || n > 400 || items.length != n then "bad-op" else
         let (st, g, h) := kexactWithAux c (storeAll [] items) (t == 1)
         st.name ++ " " ++ fV g ++ " " ++ fM6 h
       | _, _, _, _ => "bad-op")
    | "kexact_center" :: x :: y :: z :: ns :: rest =>
      (match parseF? x, parseF? y, parseF? z, ns.toNat?, parseItems rest with
       | some x, some y, some z, some n, some items =>
         if n > 400 || items.length != n then "bad-op" else
         let (st, v) := kexactCenter x y z (storeAll [] items)
         if st = KSt.ok then "ok " ++ fmtF v else st.name
       | _, _, _, _, _ => "bad-op")
    | op :: rest =>
      if op != "kx_grad" && op != "kx_shess" && op != "kx_hess" then "bad-op" else
      (match Drivers.Geom.parseMesh rest with
       | some (twod, xyz, s, cells) =>
         let gh := kexactGradHess twod xyz s (kxCells twod cells)
         if op == "kx_grad" then "ok " ++ " ".intercalate (gh.map (fun p => fV p.1))
         else if op == "kx_shess" then "ok " ++ " ".intercalate (gh.map (fun p => fM6 p.2))
         else
           match gh.mapM (fun p => absHessian p.2) with
           | .error e => e.name
           | .ok hs => "ok " ++ " ".intercalate (hs.map fM6)
       | none => "bad-op")
    | [] => "bad-op"
  ((), r)

def run (_ : List String) : IO UInt32 := do
  runLoop () step
  return 0

end Drivers.Kexact
