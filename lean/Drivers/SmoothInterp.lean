import Drivers.Proto
import Refine.Model.SmoothInterp
import Refine.Model.Metric

/-! driver `smoothinterp` (validate): replays the bookkeeping model of `Refine/Model/SmoothInterp.lean` on the records
    printed by `harness/h_smoothinterp.c` from real runs of the smoothers / split insertion.

    Per record the search OUTCOMES the C observed (walk results per `(part, seed, position)`, sequential fall-back per
    position — the `P`/`R`/`T` events) become the oracle `Bg.walk` / `Bg.seq`; `Bg.interp` is the kernel of
    `Model/Metric.lean` (`interpolateNode`) on the background dumped by the `BG` line; the acceptance decisions are
    the ones implied by the number of interpolation calls.  The model must reproduce status, every intermediate
    vertex state and the final state `(xyz, cell, part, bary, m, log m)` bit for bit.

      BG mode twod rank para nn <6*nn logs> ncell {cell n0 n1 n2 n3}
      C <node> <hasinterp> <cont> <status> STATE STATE <nev> EV*
      I <kind> <node> <hasinterp> <cont> STATE <ncall> { <status> STATE STATE <nev> EV* }* STATE
      B <new> <n0> <n1> <hasinterp> <cont> <status> <fresh> <c0> <p0> <c1> <p1> STATE STATE <nev> EV*
      STATE := x y z cell part b0..b3 m0..m5 l0..l5 ;  EV := P part seed | R enclosing seed part b0..b3 | T n
      PA <0|1>   (the harness switched `ref_mpi_para` for the following records)
    every other line (`N`, `done`, `ok`, `A`, `X`, `skip`, `bad-op`, `. <op>`) is echoed as `ok <tag>`. -/
namespace Drivers.SmoothInterp
open Drivers.Proto Refine Refine.Model.Matrix Refine.Model.SmoothInterp
open Refine.Model.Geom (V3 B4)

abbrev F := Float
abbrev Met := M6 F × M6 F
abbrev NS := NodeSt (V3 F) (B4 F) Met

structure Sess where
  twod : Bool := false
  rank : Int := 0
  para : Bool := false
  logs : Array (M6 F) := #[]
  cells : Array (Option (List Int)) := #[]

/-! ### parsing -/
abbrev Parser := StateT (List String) Option

def word : Parser String := do
  match (← get) with
  | [] => failure
  | w :: rest => set rest; pure w

def pInt : Parser Int := do
  match (← word).toInt? with
  | some i => pure i
  | none => failure

def pNat : Parser Nat := do
  match (← word).toNat? with
  | some i => pure i
  | none => failure

def pF : Parser F := do
  match parseF? (← word) with
  | some x => pure x
  | none => if false then pure 0.0 else failure

/-- `nan` is printed for NaN -/
def pFn : Parser F := do
  let w ← word
  if w == "nan" then pure (0.0 / 0.0) else
  match parseF? w with
  | some x => pure x
  | none => failure

def pM6 : Parser (M6 F) := do
  let a ← pFn; let b ← pFn; let c ← pFn; let d ← pFn; let e ← pFn; let f ← pFn
  pure ⟨a, b, c, d, e, f⟩

def pState : Parser NS := do
  let x ← pFn; let y ← pFn; let z ← pFn
  let cell ← pInt; let part ← pInt
  let b0 ← pFn; let b1 ← pFn; let b2 ← pFn; let b3 ← pFn
  let m ← pM6; let l ← pM6
  pure { xyz := ⟨x, y, z⟩, cell := cell, part := part, bary := ⟨b0, b1, b2, b3⟩, met := (m, l) }

inductive Ev where
  | push (part seed : Int)
  | remove (enclosing : Bool) (seed part : Int) (bary : B4 F)
  | touch (n : Int)

def pEv : Parser Ev := do
  match (← word) with
  | "P" => do let p ← pInt; let s ← pInt; pure (.push p s)
  | "R" => do
    let m ← pInt; let s ← pInt; let p ← pInt
    let b0 ← pFn; let b1 ← pFn; let b2 ← pFn; let b3 ← pFn
    pure (.remove (m == 1) s p ⟨b0, b1, b2, b3⟩)
  | "T" => do let n ← pInt; pure (.touch n)
  | _ => failure

def pMany {α : Type} (p : Parser α) : Nat → Parser (List α)
  | 0 => pure []
  | n + 1 => do let a ← p; let rest ← pMany p n; pure (a :: rest)

def pEvs : Parser (List Ev) := do
  let n ← pNat
  if n > 64 then failure else pMany pEv n

def pStatus : Parser Status := do
  match (← word) with
  | "ok" => pure .ok
  | "not_found" => pure .notFound
  | _ => pure .failure

structure Call where
  status : Status
  pre : NS
  post : NS
  evs : List Ev

def pCall : Parser Call := do
  let st ← pStatus; let pre ← pState; let post ← pState; let evs ← pEvs
  pure ⟨st, pre, post, evs⟩

/-! ### comparison by bit pattern -/
def fEq (a b : F) : Bool := fmtF a == fmtF b
def v3Eq (a b : V3 F) : Bool := fEq a.x b.x && fEq a.y b.y && fEq a.z b.z
def b4Eq (a b : B4 F) : Bool := fEq a.b0 b.b0 && fEq a.b1 b.b1 && fEq a.b2 b.b2 && fEq a.b3 b.b3
def m6Eq (a b : M6 F) : Bool := (a.toList.zip b.toList).all (fun p => fEq p.1 p.2)
def stEq (a b : NS) : Bool :=
  v3Eq a.xyz b.xyz && a.cell == b.cell && a.part == b.part && b4Eq a.bary b.bary && m6Eq a.met.1 b.met.1 &&
    m6Eq a.met.2 b.met.2
/-- a freshly (re)allocated slot that was not located: `part`/`bary` are whatever `realloc` left -/
def stEqFresh (a b : NS) : Bool :=
  if a.cell == EMPTY && b.cell == EMPTY then
    v3Eq a.xyz b.xyz && m6Eq a.met.1 b.met.1 && m6Eq a.met.2 b.met.2
  else stEq a b

def showSt (s : NS) : String :=
  s!"[{fmtF s.xyz.x} {fmtF s.xyz.y} {fmtF s.xyz.z} c={s.cell} p={s.part} b={fmtF s.bary.b0},{fmtF s.bary.b1},{fmtF s.bary.b2},{fmtF s.bary.b3} l={fmtFs s.met.2.toList}]"

/-! ### the oracle of one record -/
structure WalkKey where
  part : Int
  seed : Int
  xyz : V3 F

structure Tables where
  walks : List (WalkKey × WalkOut (B4 F)) := []
  seqs : List (V3 F × SeqOut (B4 F)) := []
  conflict : Bool := false

def walkOutEq : WalkOut (B4 F) → WalkOut (B4 F) → Bool
  | .enclosing c p b, .enclosing c' p' b' => c == c' && p == p' && b4Eq b b'
  | .lost, .lost => true
  | .abort, .abort => true
  | _, _ => false

def seqOutEq : SeqOut (B4 F) → SeqOut (B4 F) → Bool
  | .found c b, .found c' b' => c == c' && b4Eq b b'
  | .none, .none => true
  | .abort, .abort => true
  | _, _ => false

def Tables.findWalk (t : Tables) (part seed : Int) (xyz : V3 F) : Option (WalkOut (B4 F)) :=
  (t.walks.find? (fun e => e.1.part == part && e.1.seed == seed && v3Eq e.1.xyz xyz)).map (·.2)

def Tables.findSeq (t : Tables) (xyz : V3 F) : Option (SeqOut (B4 F)) :=
  (t.seqs.find? (fun e => v3Eq e.1 xyz)).map (·.2)

def Tables.addWalk (t : Tables) (part seed : Int) (xyz : V3 F) (o : WalkOut (B4 F)) : Tables :=
  match t.findWalk part seed xyz with
  | some o' => if walkOutEq o o' then t else { t with conflict := true }
  | none => { t with walks := (⟨part, seed, xyz⟩, o) :: t.walks }

def Tables.addSeq (t : Tables) (xyz : V3 F) (o : SeqOut (B4 F)) : Tables :=
  match t.findSeq xyz with
  | some o' => if seqOutEq o o' then t else { t with conflict := true }
  | none => { t with seqs := (xyz, o) :: t.seqs }

/-- events of one locate call made at position `xyz`; `post`/`status` give the result of a non-empty touching list -/
def addEvents (t : Tables) (xyz : V3 F) (status : Status) (post : NS) : List Ev → Tables
  | .push p s :: .remove enc s' p' b :: rest =>
    addEvents (t.addWalk p s xyz (if enc then .enclosing s' p' b else .lost)) xyz status post rest
  | .push p s :: rest => addEvents (t.addWalk p s xyz .abort) xyz status post rest
  | .touch n :: rest =>
    let o : SeqOut (B4 F) :=
      if n == 0 then .none
      else if n < 0 || status == .failure || post.cell == EMPTY then .abort
      else .found post.cell post.bary
    addEvents (t.addSeq xyz o) xyz status post rest
  | .remove .. :: rest => addEvents { t with conflict := true } xyz status post rest
  | [] => t

def zeroM6 : M6 F := ⟨0, 0, 0, 0, 0, 0⟩

def Sess.cellNodes (S : Sess) (c : Int) : Option (List Int) :=
  if c < 0 then none else (S.cells.getD c.toNat none)

def Sess.logAt (S : Sess) (n : Int) : M6 F := if n < 0 then zeroM6 else S.logs.getD n.toNat zeroM6

/-- `ref_cell_nodes`, then the kernel of `Model/Metric.lean` -/
def Sess.interp (S : Sess) (c : Int) (b : B4 F) : Option Met :=
  match S.cellNodes c with
  | some [n0, n1, n2, n3] =>
    match Refine.Model.Metric.interpolateNode (if S.twod then 3 else 4) b (S.logAt n0) (S.logAt n1) (S.logAt n2)
        (S.logAt n3) with
    | .ok p => some p
    | .error _ => none
  | _ => none

def Sess.bg (S : Sess) (t : Tables) : Bg (V3 F) (B4 F) Met where
  rank := S.rank
  para := S.para
  valid := fun c => (S.cellNodes c).isSome
  walk := fun p s x => (t.findWalk p s x).getD .abort
  seq := fun x => (t.findSeq x).getD .abort
  interp := S.interp

def cfgOf (hasInterp cont : Nat) : Cfg := ⟨hasInterp == 1, cont == 1⟩

/-! ### records -/
def checkC (S : Sess) : Parser String := do
  let _node ← pInt; let hi ← pNat; let ct ← pNat
  let c ← pCall
  let t := addEvents {} c.pre.xyz c.status c.post c.evs
  if t.conflict then return "bad C oracle-not-functional"
  let (st, s) := metricInterpolateNode (cfgOf hi ct) (S.bg t) c.pre
  if st == c.status && stEq s c.post then return s!"ok C {st.name}"
  return s!"bad C model {st.name} {showSt s} impl {c.status.name} {showSt c.post}"

def kindOf? : String → Option Kind
  | "edge" => some .edge | "tri" => some .tri | "tet" => some .tet | _ => none

/-- decisions of the edge improver implied by the calls: a second call at the same position right after a
    successful first one is the `RSS(ref_metric_interpolate_node)` behind `allowed` -/
def edgeDecisions (orig : V3 F) (calls : List Call) : List Bool × Nat :=
  let rec go (fuel : Nat) (k : Nat) (cs : List Call) (acc : List Bool) : List Bool × Nat :=
    match fuel with
    | 0 => (acc.reverse, k)
    | fuel + 1 =>
      match cs with
      | [] => (acc.reverse, k)
      | c :: rest =>
        if k ≥ cTries then (acc.reverse, k) else
        match rest with
        | c2 :: rest2 =>
          if c.status == .ok && v3Eq c2.pre.xyz c.post.xyz && !(k + 1 == cTries && rest2.isEmpty && v3Eq c2.pre.xyz orig) then
            go fuel (k + 1) rest2 (true :: acc)
          else go fuel (k + 1) rest (false :: acc)
        | [] => (acc.reverse ++ [false], k + 1)
  go (calls.length + 1) 0 calls []

def checkI (S : Sess) : Parser String := do
  let kw ← word
  let some kind := kindOf? kw | failure
  let _node ← pInt; let hi ← pNat; let ct ← pNat
  let pre ← pState
  let ncall ← pNat
  if ncall > 64 then failure
  let calls ← pMany pCall ncall
  let post ← pState
  if ncall == 0 then
    return (if stEq pre post then s!"ok I {kw} frozen" else s!"bad I {kw} no-call-but-state-changed")
  let cfg := cfgOf hi ct
  -- function-level replay of every single call, and the oracle tables
  let mut t : Tables := {}
  for c in calls do
    t := addEvents t c.pre.xyz c.status c.post c.evs
  if t.conflict then return s!"bad I {kw} oracle-not-functional"
  let bg := S.bg t
  for c in calls do
    let (st, s) := metricInterpolateNode cfg bg c.pre
    if !(st == c.status && stEq s c.post) then
      return s!"bad I {kw} call model {st.name} {showSt s} impl {c.status.name} {showSt c.post}"
  let orig := pre.xyz
  let ideal := (calls.headD ⟨.ok, pre, pre, []⟩).pre.xyz
  -- decisions
  let (allowedL, ntries) :=
    if kind == .edge then edgeDecisions orig calls else ((List.replicate ncall true), ncall)
  -- accepted at the last try made iff no roll-back call followed
  let callsUsed : Nat :=
    if kind == .edge then
      -- calls consumed by the tries: 1 + (second call) per try
      allowedL.foldl (fun a b => a + (if b then 2 else 1)) 0
    else min ncall cTries
  let rolled := ncall > callsUsed
  let acceptAt : Option Nat := if rolled || ntries == 0 then none else some (ntries - 1)
  let g : Guards (V3 F) (B4 F) Met :=
    { allowed := fun k _ => allowedL.getD k false
      accept := fun k _ => acceptAt == some k }
  let r := improve kind cfg bg g cTries (trialPos ideal orig) pre
  let outc := match r.outcome with
    | .accepted k => s!"accepted {k}"
    | .rolledBack => "rolledback"
    | .aborted => "aborted"
  if r.calls.length != ncall then
    return s!"bad I {kw} model makes {r.calls.length} interpolation calls ({outc}), implementation {ncall}"
  for (mc, c) in r.calls.zip calls do
    if !(mc.1 == c.status && stEq mc.2 c.post) then
      return s!"bad I {kw} trace model {mc.1.name} {showSt mc.2} impl {c.status.name} {showSt c.post} ({outc})"
  if !(stEq r.st post) then
    return s!"bad I {kw} post model {showSt r.st} impl {showSt post} ({outc})"
  let sts := String.intercalate "" (calls.map (fun c => match c.status with | .ok => "o" | .notFound => "n" | .failure => "f"))
  return s!"ok I {kw} {outc} {sts}"

def checkB (S : Sess) : Parser String := do
  let _new ← pInt; let n0 ← pInt; let n1 ← pInt; let hi ← pNat; let ct ← pNat
  let status ← pStatus
  let fresh ← pNat
  let c0 ← pInt; let p0 ← pInt; let c1 ← pInt; let p1 ← pInt
  let pre ← pState; let post ← pState
  let evs ← pEvs
  let t := addEvents {} pre.xyz status post evs
  if t.conflict then return "bad B oracle-not-functional"
  let e0 : Option (Int × Int) := if n0 == EMPTY then none else some (c0, p0)
  let e1 : Option (Int × Int) := if n1 == EMPTY then none else some (c1, p1)
  let (st, s) := metricInterpolateBetween (cfgOf hi ct) (S.bg t) e0 e1 pre
  let same := if fresh == 1 then stEqFresh s post else stEq s post
  if st == status && same then
    return s!"ok B {st.name} {if s.cell == EMPTY then "unlocated" else if evs.any (fun e => match e with | .touch _ => true | _ => false) then "seq" else "walk"}"
  return s!"bad B model {st.name} {showSt s} impl {status.name} {showSt post}"

def parseBG : Parser Sess := do
  let _mode ← pNat; let twod ← pNat; let rank ← pInt; let para ← pNat
  let nn ← pNat
  if nn > 100000 then failure
  let logs ← pMany pM6 nn
  let nc ← pNat
  if nc > 400000 then failure
  let rows ← pMany (do let c ← pInt; let a ← pInt; let b ← pInt; let d ← pInt; let e ← pInt; pure (c, [a, b, d, e])) nc
  let mx := rows.foldl (fun m r => max m (r.1.toNat + 1)) 0
  let mut cells : Array (Option (List Int)) := Array.replicate mx none
  for (c, ns) in rows do
    if c ≥ 0 then cells := cells.set! c.toNat (some ns)
  pure { twod := twod == 1, rank := rank, para := para == 1, logs := logs.toArray, cells := cells }

def step (S : Sess) (line : String) : Sess × String :=
  match words line with
  | "BG" :: rest =>
    (match parseBG.run rest with
     | some (S', _) => (S', "ok BG")
     | none => (S, "bad BG malformed"))
  | "C" :: rest => (S, ((checkC S).run rest).elim "bad C malformed" (·.1))
  | "I" :: rest => (S, ((checkI S).run rest).elim "bad I malformed" (·.1))
  | "B" :: rest => (S, ((checkB S).run rest).elim "bad B malformed" (·.1))
  | "PA" :: v :: _ => ({ S with para := v == "1" }, "ok PA")
  | "X" :: _ => (S, "ok X")
  | w :: _ => (S, "ok " ++ w)
  | [] => (S, "ok")

def run (_ : List String) : IO UInt32 := do
  runLoop ({} : Sess) step
  return 0

end Drivers.SmoothInterp
