import Drivers.Proto
import Refine.Model.Geom
import Refine.Model.Recon

/-! driver `geom`: the geometric kernels and the L2-projection reconstruction at the `Float` instance.
    Stateless: every op line carries its own coordinates (16-hex-digit doubles). -/
namespace Drivers.Geom
open Drivers.Proto Refine Refine.Model.Geom Refine.Model.Recon

abbrev F := Float

def v3s : List F → List (V3 F)
  | x :: y :: z :: rest => ⟨x, y, z⟩ :: v3s rest
  | _ => []

def fV (v : V3 F) : String := fmtFs [v.x, v.y, v.z]
def fB4 (b : B4 F) : String := fmtFs [b.b0, b.b1, b.b2, b.b3]
def fB3 (b : B3 F) : String := fmtFs [b.b0, b.b1, b.b2]
def fB2 (b : B2 F) : String := fmtFs [b.b0, b.b1]
def fM6 (m : M6 F) : String := fmtFs [m.m0, m.m1, m.m2, m.m3, m.m4, m.m5]

def mkM6 : List F → Option (M6 F)
  | [a, b, c, d, e, f] => some ⟨a, b, c, d, e, f⟩
  | _ => none

/-- status, then the payload only for `ok` / `div_zero` (the C leaves outputs unspecified otherwise) -/
def stLine (st : St) (payload : String) : String :=
  if st = St.ok ∨ st = St.divZero then st.name ++ " " ++ payload else st.name

def kindOf : String → Option CellKind
  | "tri" => some .tri | "qua" => some .qua | "tet" => some .tet
  | "pyr" => some .pyr | "pri" => some .pri | "hex" => some .hex
  | _ => none

def kindSize : CellKind → Nat
  | .tri => 3 | .qua => 4 | .tet => 4 | .pyr => 5 | .pri => 6 | .hex => 8

def is2d : CellKind → Bool
  | .tri => true | .qua => true | _ => false

/-- cells: `kind n0 n1 ...` repeated; `none` on a malformed list / node out of range / wrong dimension -/
partial def parseCells (twod : Bool) (nn : Nat) (ws : List String) (acc : List Cell) : Option (List Cell) :=
  match ws with
  | [] => some acc.reverse
  | k :: rest =>
    match kindOf k with
    | none => none
    | some kind =>
      let sz := kindSize kind
      if rest.length < sz || is2d kind != twod then none else
      match parseNats? (rest.take sz) with
      | none => none
      | some ns => if ns.all (· < nn) then parseCells twod nn (rest.drop sz) (⟨kind, ns⟩ :: acc) else none

/-- mesh ops: `<op> twod nn <3*nn xyz> <nn scalar> ncell <cells>` -/
def parseMesh (ws : List String) : Option (Bool × List (V3 F) × List F × List Cell) :=
  match ws with
  | tw :: nns :: rest =>
    match tw.toNat?, nns.toNat? with
    | some t, some nn =>
      if t > 1 || nn == 0 || nn > 4000 || rest.length < 4 * nn + 1 then none else
      match parseFs? (rest.take (3 * nn)), parseFs? ((rest.drop (3 * nn)).take nn) with
      | some xs, some ss =>
        let rest2 := rest.drop (4 * nn)
        match rest2 with
        | ncs :: cw =>
          match ncs.toNat?, parseCells (t == 1) nn cw [] with
          | some nc, some cells => if cells.length == nc then some (t == 1, v3s xs, ss, cells) else none
          | _, _ => none
        | [] => none
      | _, _ => none
    | _, _ => none
  | _ => none

def step (_ : Unit) (line : String) : Unit × String :=
  let ws := words line
  let r : String :=
    match ws with
    | [] => "bad-op"
    | "l2grad" :: rest =>
      (match parseMesh rest with
       | some (twod, xyz, s, cells) =>
         let (st, g) := l2grad twod xyz s cells
         st.name ++ " " ++ " ".intercalate (g.map fV)
       | none => "bad-op")
    | "l2hess" :: rest =>
      (match parseMesh rest with
       | some (twod, xyz, s, cells) =>
         "ok " ++ " ".intercalate ((l2hessian twod xyz s cells).map fM6)
       | none => "bad-op")
    | "interp" :: nps :: rest =>
      (match nps.toNat?, parseFs? rest with
       | some np, some [b0, b1, b2, b3, f0, f1, f2, f3] =>
         if np != 3 && np != 4 then "bad-op" else
         let (st, v) := interpScalar np (⟨b0, b1, b2, b3⟩ : B4 F) ⟨f0, f1, f2, f3⟩
         if st = St.ok then "ok " ++ fmtF v else st.name
       | _, _ => "bad-op")
    | op :: rest =>
      match parseFs? rest with
      | none => "bad-op"
      | some fs =>
        match op, fs with
        | "tet_vol", [ax, ay, az, bx, by', bz, cx, cy, cz, dx, dy, dz] =>
          let v := tetVol (⟨ax, ay, az⟩ : V3 F) ⟨bx, by', bz⟩ ⟨cx, cy, cz⟩ ⟨dx, dy, dz⟩
          "ok " ++ fmtFs [v, v]
        | "dvol", [ax, ay, az, bx, by', bz, cx, cy, cz, dx, dy, dz] =>
          let (v, d) := tetDvolDnode0 (⟨ax, ay, az⟩ : V3 F) ⟨bx, by', bz⟩ ⟨cx, cy, cz⟩ ⟨dx, dy, dz⟩
          "ok " ++ fmtF v ++ " " ++ fV d
        | "tri_normal", [ax, ay, az, bx, by', bz, cx, cy, cz] =>
          "ok " ++ fV (triNormal (⟨ax, ay, az⟩ : V3 F) ⟨bx, by', bz⟩ ⟨cx, cy, cz⟩)
        | "tri_area", [ax, ay, az, bx, by', bz, cx, cy, cz] =>
          "ok " ++ fmtF (triArea (⟨ax, ay, az⟩ : V3 F) ⟨bx, by', bz⟩ ⟨cx, cy, cz⟩)
        | "tri_orient", [ax, ay, az, bx, by', bz, cx, cy, cz] =>
          "ok " ++ (if triTwodOrientation (⟨ax, ay, az⟩ : V3 F) ⟨bx, by', bz⟩ ⟨cx, cy, cz⟩ then "1" else "0")
        | "tri_darea", [ax, ay, az, bx, by', bz, cx, cy, cz] =>
          let (a, d) := triDareaDnode0 (⟨ax, ay, az⟩ : V3 F) ⟨bx, by', bz⟩ ⟨cx, cy, cz⟩
          "ok " ++ fmtF a ++ " " ++ fV d
        | "normalize", [ax, ay, az] =>
          let (st, n) := normalize (⟨ax, ay, az⟩ : V3 F)
          st.name ++ " " ++ fV n
        | "bary4", [ax, ay, az, bx, by', bz, cx, cy, cz, dx, dy, dz, px, py, pz] =>
          let (st, b) := bary4 (⟨ax, ay, az⟩ : V3 F) ⟨bx, by', bz⟩ ⟨cx, cy, cz⟩ ⟨dx, dy, dz⟩ ⟨px, py, pz⟩
          stLine st (fB4 b)
        | "bary3", [ax, ay, az, bx, by', bz, cx, cy, cz, px, py, pz] =>
          let (st, b) := bary3 (⟨ax, ay, az⟩ : V3 F) ⟨bx, by', bz⟩ ⟨cx, cy, cz⟩ ⟨px, py, pz⟩
          stLine st (fB3 b)
        | "bary3d", [ax, ay, az, bx, by', bz, cx, cy, cz, px, py, pz] =>
          let (st, b) := bary3d (⟨ax, ay, az⟩ : V3 F) ⟨bx, by', bz⟩ ⟨cx, cy, cz⟩ ⟨px, py, pz⟩
          stLine st (fB3 b)
        | "clip4", [b0, b1, b2, b3] =>
          let (st, b) := clipBary4 (⟨b0, b1, b2, b3⟩ : B4 F)
          stLine st (fB4 b)
        | "clip3", [b0, b1, b2] =>
          let (st, b) := clipBary3 (⟨b0, b1, b2⟩ : B3 F)
          stLine st (fB3 b)
        | "clip2", [b0, b1] =>
          let (st, b) := clipBary2 (⟨b0, b1⟩ : B2 F)
          stLine st (fB2 b)
        | "tet_grad", [ax, ay, az, bx, by', bz, cx, cy, cz, dx, dy, dz, s0, s1, s2, s3] =>
          let (st, g) := tetGradNodes (⟨ax, ay, az⟩ : V3 F) ⟨bx, by', bz⟩ ⟨cx, cy, cz⟩ ⟨dx, dy, dz⟩ s0 s1 s2 s3
          -- the harness prints ref_node_tet_grad_nodes and ref_node_xyz_grad (same code twice in the C)
          st.name ++ " " ++ fV g ++ " " ++ st.name ++ " " ++ fV g
        | "tri_grad", [ax, ay, az, bx, by', bz, cx, cy, cz, s0, s1, s2] =>
          let (st, g) := triGradNodes (⟨ax, ay, az⟩ : V3 F) ⟨bx, by', bz⟩ ⟨cx, cy, cz⟩ s0 s1 s2
          st.name ++ " " ++ fV g
        | "vtmv", [m0, m1, m2, m3, m4, m5, vx, vy, vz] =>
          let m : M6 F := ⟨m0, m1, m2, m3, m4, m5⟩
          let v : V3 F := ⟨vx, vy, vz⟩
          let (f, d) := vtMvDeriv m v
          let (sf, sd) := sqrtVtMvDeriv m v
          "ok " ++ fmtFs [vtMv m v, sqrtVtMv m v, f] ++ " " ++ fV d ++ " " ++ fmtF sf ++ " " ++ fV sd
        | "ratio", [ax, ay, az, bx, by', bz, m0, m1, m2, m3, m4, m5, n0, n1, n2, n3, n4, n5] =>
          let x0 : V3 F := ⟨ax, ay, az⟩
          let x1 : V3 F := ⟨bx, by', bz⟩
          let ma : M6 F := ⟨m0, m1, m2, m3, m4, m5⟩
          let mb : M6 F := ⟨n0, n1, n2, n3, n4, n5⟩
          let (r, d) := dratioGeometric x0 x1 ma mb
          "ok " ++ fmtFs [ratioGeometric x0 x1 ma mb, ratioNode0 x0 x1 ma, r] ++ " " ++ fV d
        | "interp_edge", [ax, ay, az, bx, by', bz, w] =>
          "ok " ++ fV (interpolateEdgeXyz (⟨ax, ay, az⟩ : V3 F) ⟨bx, by', bz⟩ w)
        | "interp_xyz", [ax, ay, az, bx, by', bz, cx, cy, cz, dx, dy, dz, px, py, pz, f0, f1, f2, f3] =>
          let (st, b) := bary4 (⟨ax, ay, az⟩ : V3 F) ⟨bx, by', bz⟩ ⟨cx, cy, cz⟩ ⟨dx, dy, dz⟩ ⟨px, py, pz⟩
          let (st2, v) := interpScalar 4 b ⟨f0, f1, f2, f3⟩
          st.name ++ " " ++ fB4 b ++ " " ++ (if st2 = St.ok then "ok " ++ fmtF v else st2.name)
        | _, _ => "bad-op"
  ((), r)

/-- validate mode (`refdrv geom validate`): the harness dumps, for the quadrature edge length,
    `rq <x0 x1> <log m0> <log m1> <its own exp_m of the mid-point mix> <ratio> <dratio value> <d/dnode0>`;
    `ref_matrix_exp_m` is an uninterpreted input here (matrix package), everything around it is recomputed -/
def vstep (_ : Unit) (line : String) : Unit × String :=
  let r : String :=
    match words line with
    | "rq" :: rest =>
      (match parseFs? rest with
       | some fs =>
         if fs.length != 35 then "bad rq parse" else
         let g (i : Nat) : F := fs.getD i 0.0
         let x0 : V3 F := ⟨g 0, g 1, g 2⟩
         let x1 : V3 F := ⟨g 3, g 4, g 5⟩
         let mix := quadratureMix (⟨g 6, g 7, g 8, g 9, g 10, g 11⟩ : M6 F) ⟨g 12, g 13, g 14, g 15, g 16, g 17⟩
         let mm : M6 F := ⟨g 24, g 25, g 26, g 27, g 28, g 29⟩
         let (r, d) := dratioQuadratureMid x0 x1 mm
         let mine := fM6 mix ++ " " ++ fmtFs [ratioQuadratureMid x0 x1 mm, r] ++ " " ++ fV d
         let theirs := fmtFs ((fs.drop 18).take 6 ++ fs.drop 30)
         if mine == theirs then "ok rq" else "bad rq model " ++ mine ++ " impl " ++ theirs
       | none => "bad rq parse")
    | "skip" :: _ => "ok skip"
    | _ => "bad line"
  ((), r)

def run (args : List String) : IO UInt32 := do
  match args with
  | ["validate"] => runLoop () vstep
  | _ => runLoop () step
  return 0

end Drivers.Geom
