import Drivers.Proto
import Refine.Model.Cavity

/-! driver `cavity`: the cavity machine (`ref_cavity.c`) and the C01 validity predicate.
    Same op lines as `harness/h_cavity.c`, byte-identical output lines. -/
namespace Drivers.Cavity
open Drivers.Proto Refine.Model.Cavity Refine.Model.Geom

structure DSt where
  g : Grid Float
  c : Cav

def freshCav : Cav := Cav.create

def initSt (twod : Bool) : DSt := ⟨{ (Grid.create : Grid Float) with twod := twod }, freshCav⟩

def nodeLimit : Int := 200000

def nodeOk (s : DSt) (v : Int) : Bool := decide (0 ≤ v) && decide (v < nodeLimit) && s.g.nodeValid v

def stLine (s : Refine.Model.Cavity.St) (c : Cav) : String := s!"{s.name} {c.state.code}"

def commaI (xs : List Int) : String := if xs.isEmpty then "-" else ",".intercalate (xs.map toString)
def commaN (xs : List Nat) : String := if xs.isEmpty then "-" else ",".intercalate (xs.map toString)

def cavDump (c : Cav) : String :=
  let fr := c.faces.rows.map fun r => match r with
    | none => "-" | some f => s!"{f.n0},{f.n1},{f.n2}"
  let sr := c.segs.rows.map fun r => match r with
    | none => "-" | some f => s!"{f.n0},{f.n1},{f.id}"
  s!"{c.state.code} {c.node} {c.surfNode} {c.faces.n} {c.faces.max} | {" ".intercalate fr} | {commaN c.faces.blank}" ++
  s!" | {c.segs.n} {c.segs.max} | {" ".intercalate sr} | {commaN c.segs.blank} | {commaI c.tetList} | {commaI c.triList}" ++
  s!" | {c.split0} {c.split1} {c.collapse0} {c.collapse1}"

def lexLe : List Int → List Int → Bool
  | [], _ => true
  | _ :: _, [] => false
  | a :: s, b :: t => if a < b then true else if b < a then false else lexLe s t

def dumpRows (rows : List (List Int)) : String :=
  if rows.isEmpty then "-" else
  " ".intercalate ((rows.mergeSort lexLe).map fun r => ",".intercalate (r.map toString))

def gridDump (g : Grid Float) : String :=
  let nodes := (g.nodes.validIdx.map fun p => (p.1 : Int))
  s!"{dumpRows (g.tets.valid.map Tet.nodes)} | {dumpRows (g.tris.valid.map fun t => t.nodes ++ [t.id])} | " ++
  s!"{dumpRows (g.edgs.valid.map fun t => t.nodes ++ [t.id])} | {commaI nodes}"

def distinct : List Int → Bool
  | [] => true
  | a :: t => !(t.contains a) && distinct t

/-! #### the `valid3` / `valid2` ops -/

def chunks4 : List Int → List (List Int)
  | a :: b :: c :: d :: t => [a, b, c, d] :: chunks4 t
  | _ => []
def chunks3 : List Int → List (List Int)
  | a :: b :: c :: t => [a, b, c] :: chunks3 t
  | _ => []
def xyzOf : List Float → List (V3 Float)
  | a :: b :: c :: t => ⟨a, b, c⟩ :: xyzOf t
  | _ => []

def okBad (b : Bool) : String := if b then "ok" else "bad"

def validOp (dim : Nat) (ws : List String) : String :=
  match ws with
  | nn :: nc :: nb :: rest =>
    match nn.toNat?, nc.toNat?, nb.toNat? with
    | some nn, some nc, some nb =>
      let per := if dim == 3 then 4 else 3
      if rest.length ≠ 3 * nn + 4 * nc + per * nb ∨ (nn : Int) > nodeLimit then "bad-op" else
      match parseFs? (rest.take (3 * nn)), parseInts? (rest.drop (3 * nn)) with
      | some fs, some is =>
        let xyz := xyzOf fs
        let cells := chunks4 (is.take (4 * nc))
        let bnd := if dim == 3 then chunks4 (is.drop (4 * nc)) else chunks3 (is.drop (4 * nc))
        if dim == 3 then
          let m : Mesh3 Float := ⟨xyz, cells.map fun r => ⟨r.getD 0 0, r.getD 1 0, r.getD 2 0, r.getD 3 0⟩,
                                  bnd.map fun r => ⟨r.getD 0 0, r.getD 1 0, r.getD 2 0, r.getD 3 0⟩⟩
          if !(valid3Range m) then "range=bad" else
          s!"range=ok vol={okBad (valid3Vol m)} face={okBad (valid3Face m)} bnd={okBad (valid3Bnd m)} used={okBad (valid3Used m)} orient={okBad (valid3Orient m)}"
        else
          let m : Mesh2 Float := ⟨xyz, cells.map fun r => ⟨r.getD 0 0, r.getD 1 0, r.getD 2 0, r.getD 3 0⟩,
                                  bnd.map fun r => ⟨r.getD 0 0, r.getD 1 0, r.getD 2 0⟩⟩
          if !(valid2Range m) then "range=bad" else
          s!"range=ok vol={okBad (valid2Vol m)}"
      | _, _ => "bad-op"
    | _, _, _ => "bad-op"
  | _ => "bad-op"

def step (s : DSt) (line : String) : DSt × String :=
  match words line with
  | ["reset"] => (initSt false, "ok")
  | ["reset", t] => (initSt (t == "twod"), "ok")
  | ["node", x, y, z] =>
    match parseF? x, parseF? y, parseF? z with
    | some x, some y, some z =>
      let r := s.g.addNode ⟨⟨x, y, z⟩, true⟩
      ({ s with g := r.1 }, s!"ok {r.2}")
    | _, _, _ => (s, "bad-op")
  | ["ghost", v] =>
    match v.toInt? with
    | some v =>
      if !(nodeOk s v) then (s, "bad-op") else
      let rows := s.g.nodes.rows.set v.toNat ((s.g.nodes.rows.getD v.toNat none).map fun r => { r with owned := false })
      ({ s with g := { s.g with nodes := { s.g.nodes with rows := rows } } }, "ok")
    | none => (s, "bad-op")
  | ["tet", a, b, c, d] =>
    match parseInts? [a, b, c, d] with
    | some [a, b, c, d] =>
      if !([a, b, c, d].all (nodeOk s)) || !(distinct [a, b, c, d]) then (s, "bad-op") else
      let r := s.g.tets.add ⟨a, b, c, d⟩
      ({ s with g := { s.g with tets := r.1 } }, s!"ok {r.2}")
    | _ => (s, "bad-op")
  | ["tri", a, b, c, d] =>
    match parseInts? [a, b, c, d] with
    | some [a, b, c, d] =>
      if !([a, b, c].all (nodeOk s)) || !(distinct [a, b, c]) then (s, "bad-op") else
      let r := s.g.tris.add ⟨a, b, c, d⟩
      ({ s with g := { s.g with tris := r.1 } }, s!"ok {r.2}")
    | _ => (s, "bad-op")
  | ["edg", a, b, d] =>
    match parseInts? [a, b, d] with
    | some [a, b, d] =>
      if !([a, b].all (nodeOk s)) || !(distinct [a, b]) then (s, "bad-op") else
      let r := s.g.edgs.add ⟨a, b, d⟩
      ({ s with g := { s.g with edgs := r.1 } }, s!"ok {r.2}")
    | _ => (s, "bad-op")
  | ["new"] => ({ s with c := freshCav }, "ok")
  | ["form", v] =>
    match v.toInt? with
    | some v => if v < -1 ∨ v ≥ nodeLimit then (s, "bad-op") else
      let c := { s.c with node := v }
      ({ s with c := c }, stLine .ok c)
    | none => (s, "bad-op")
  | ["surf_node", v] =>
    match v.toInt? with
    | some v => if v < -1 ∨ v ≥ nodeLimit then (s, "bad-op") else ({ s with c := { s.c with surfNode := v } }, "ok")
    | none => (s, "bad-op")
  | ["set_state", v] =>
    match v.toNat? with
    | some v => match CState.ofCode v with
      | some st => ({ s with c := { s.c with state := st } }, "ok")
      | none => (s, "bad-op")
    | none => (s, "bad-op")
  | ["form_split", a, b, c] =>
    match parseInts? [a, b, c] with
    | some [a, b, c] =>
      if !([a, b, c].all (nodeOk s)) then (s, "bad-op") else
      let r := formEdgeSplit s.g freshCav a b c
      ({ s with c := r.2 }, stLine r.1 r.2)
    | _ => (s, "bad-op")
  | ["form_collapse", a, b] =>
    match parseInts? [a, b] with
    | some [a, b] =>
      if !([a, b].all (nodeOk s)) then (s, "bad-op") else
      let r := formEdgeCollapse s.g freshCav a b
      ({ s with c := r.2 }, stLine r.1 r.2)
    | _ => (s, "bad-op")
  | ["add_tet", v] =>
    match v.toInt? with
    | some v => if v < -1 ∨ v > nodeLimit then (s, "bad-op") else
      let r := addTet s.g s.c v
      ({ s with c := r.2 }, stLine r.1 r.2)
    | none => (s, "bad-op")
  | ["add_tri", v] =>
    match v.toInt? with
    | some v => if v < -1 ∨ v > nodeLimit then (s, "bad-op") else
      let r := addTri s.g s.c v
      ({ s with c := r.2 }, stLine r.1 r.2)
    | none => (s, "bad-op")
  | ["insert_face", a, b, c] =>
    match parseInts? [a, b, c] with
    | some [a, b, c] =>
      if !([a, b, c].all fun v => decide (0 ≤ v) && decide (v < nodeLimit)) then (s, "bad-op") else
      let r := insertFace s.c ⟨a, b, c⟩
      ({ s with c := r.2 }, stLine r.1 r.2)
    | _ => (s, "bad-op")
  | ["insert_seg", a, b, c] =>
    match parseInts? [a, b, c] with
    | some [a, b, c] =>
      if !([a, b].all fun v => decide (0 ≤ v) && decide (v < nodeLimit)) || c < -1000 || c > 1000 then (s, "bad-op") else
      let r := insertSeg s.g s.c ⟨a, b, c⟩
      ({ s with c := r.2 }, stLine r.1 r.2)
    | _ => (s, "bad-op")
  | ["find_face", a, b, c] =>
    match parseInts? [a, b, c] with
    | some [a, b, c] =>
      match findFace s.c.faces ⟨a, b, c⟩ with
      | some (i, r) => (s, s!"ok {i} {if r then 1 else 0}")
      | none => (s, "not_found")
    | _ => (s, "bad-op")
  | ["verify"] =>
    let r0 := verifyFaceManifold s.c
    let r1 := verifySegManifold r0.2
    ({ s with c := r1.2 }, s!"{r0.1.name} {r0.2.state.code} {r1.1.name} {r1.2.state.code}")
  | ["visible"] =>
    if !(nodeOk s s.c.node) then (s, "bad-op") else
    let r := checkVisible s.g s.c
    ({ s with c := r.2 }, stLine r.1 r.2)
  | ["replace"] =>
    let r := replace s.g s.c
    (⟨r.2.2, r.2.1⟩, stLine r.1 r.2.1)
  | ["dump"] => (s, cavDump s.c)
  | ["grid"] => (s, gridDump s.g)
  | "valid3" :: rest => (s, validOp 3 rest)
  | "valid2" :: rest => (s, validOp 2 rest)
  | _ => (s, "bad-op")

def run (_args : List String) : IO UInt32 := do
  runLoop (initSt false) step
  return 0

end Drivers.Cavity
