import Drivers.Proto
import Refine.Model.InterpLocate

/-! driver `interplocate`: the staged donor search `ref_interp_locate` on distributed donor / receptor pairs (Float
    instance of `Refine.Model.InterpLocate`, bit-compared with `harness/h_interplocate.c` at np = 1, 2, 3) -/
namespace Drivers.InterpLocate
open Drivers.Proto Refine Refine.Model.Geom Refine.Model.Search Refine.Model.Interp Refine.Model.InterpLocate

abbrev F := Float

/-- one rank's part of a grid as the op lines built it -/
structure GridR where
  nodes : Array (Int × Int × V3 F) := #[]        -- global, owner, xyz
  cells : Array (List Nat × Int) := #[]          -- tri + id (2-D) / tet: the cell id is the index
  bnd : Array (List Nat × Int) := #[]            -- edg (2-D) / tri (3-D) + id

structure St where
  active : Bool := false
  np : Nat := 1
  twod : Bool := false
  seed : Nat := 1
  donors : Array GridR := #[]
  recvs : Array GridR := #[]

/-- the harness accepts non-negative integers of at most 8 digits -/
def nat8? (w : String) : Option Nat :=
  if w.length > 0 && w.length < 9 && w.all Char.isDigit then w.toNat? else none

def hex16? (w : String) : Option F :=
  if w.length == 16 && w.all (fun c => c.isDigit || ('a' ≤ c && c ≤ 'f')) then parseF? w else none

def distinctBelow (limit : Nat) (ids : List Nat) : Bool :=
  ids.all (· < limit) && ids.eraseDups.length == ids.length

def fmtSlot : Option F → String
  | none => "nan"
  | some x => fmtF x

/-- cells around a local node in `each_ref_cell_having_node` order (latest added first) -/
def aroundNode (g : GridR) (node : Nat) : List Int :=
  (((g.cells.toList.zipIdx).filter fun c => c.1.1.contains node).map fun c => (c.2 : Int)).reverse

/-- the cell groups `ref_grid_node_list_around` walks: tri then tet -/
def groupsOf (twod : Bool) (g : GridR) : List (List (List Nat)) :=
  if twod then [g.cells.toList.map (·.1)] else [g.bnd.toList.map (·.1), g.cells.toList.map (·.1)]

def geomOf (twod : Bool) (r : Nat) (g : GridR) : List Nat :=
  let part := g.nodes.toList.map (·.2.1)
  if twod then geomNodeList r part g.cells.toList g.bnd.toList
  else geomNodeList r part g.bnd.toList []

def donorView (twod : Bool) (r : Nat) (g : GridR) : DonorR F :=
  let cells : List (Int × CellN) := (g.cells.toList.zipIdx).map fun c =>
    ((c.2 : Int), ⟨c.1.1.getD 0 0, c.1.1.getD 1 0, c.1.1.getD 2 0, c.1.1.getD 3 0⟩)
  let btris := if twod then [] else g.bnd.toList.map fun b => (b.1.getD 0 0, b.1.getD 1 0, b.1.getD 2 0)
  let nn := g.nodes.size
  let around := aroundOfCells nn ((g.cells.toList.zipIdx).map fun c => ((c.2 : Int), c.1.1))
  { d := ⟨twod, g.nodes.toList.map (·.2.2), cells, btris⟩, glob := g.nodes.toList.map (·.1),
    part := g.nodes.toList.map (·.2.1), around := around, geom := geomOf twod r g }

def recvView (twod : Bool) (r : Nat) (g : GridR) : RecvR F :=
  let groups := groupsOf twod g
  { xyz := g.nodes.toList.map (·.2.2), glob := g.nodes.toList.map (·.1), part := g.nodes.toList.map (·.2.1),
    nbrs := (List.range g.nodes.size).map (nodeListAround groups), geom := geomOf twod r g }

def fmtRank (r : Nat) (rc : RecvR F) (st : RankSt F) : String :=
  let head := s!"R {r} {st.nGeom} {st.nGeomFail} {st.nWalk} {st.nTerminated} {st.walkSteps} {st.nTree} {st.treeCells} {st.rnd}"
  let nodes := (List.range rc.xyz.length).map fun i =>
    let b := st.baryOf i
    s!" N {rc.glob.getD i (-1)} {st.cellOf i} {st.part.getD i (-1)} {fmtSlot b.s0} {fmtSlot b.s1} {fmtSlot b.s2} {fmtSlot b.s3} {st.stage.getD i 0}"
  head ++ String.join nodes

def runLocate (st : St) : String :=
  let dw := (st.donors.toList.zipIdx).map fun g => donorView st.twod g.2 g.1
  let rw := (st.recvs.toList.zipIdx).map fun g => recvView st.twod g.2 g.1
  let trees := dw.map fun dr => createSearch dr.d (lit Refine.Gen.InterpConsts.donorScale : F)
  match trees.find? (fun t => t.1 != Refine.Model.Search.Status.ok) with
  | some t => (ISt.ofSearch t.1).name
  | none =>
    let ss := trees.filterMap (·.2)
    let w0 : List (RankSt F) := (rw.zipIdx).map fun rc => RankSt.create rc.1.xyz.length (st.seed + 7919 * rc.2)
    match locate dw ss rw (lit Refine.Gen.InterpConsts.searchFuzz : F) w0 with
    | .error e => e.name
    | .ok (w, fuzz) =>
      s!"ok {fmtF fuzz} 1 " ++ " ".intercalate (((rw.zip w).zipIdx).map fun q => fmtRank q.2 q.1.1 q.1.2)

def addNode (st : St) (donor : Bool) (ws : List String) : St × String :=
  match ws with
  | [r, g, p, x, y, z] =>
    match nat8? r, nat8? g, nat8? p, hex16? x, hex16? y, hex16? z with
    | some r, some g, some p, some x, some y, some z =>
      let grids := if donor then st.donors else st.recvs
      if r ≥ st.np || p ≥ st.np || (grids.getD r {}).nodes.size ≥ 200000 then (st, "bad-op") else
      let gr := grids.getD r {}
      if gr.nodes.any (fun nd => nd.1 == (g : Int)) then (st, "bad-op") else
      let grids := grids.setIfInBounds r { gr with nodes := gr.nodes.push ((g : Int), (p : Int), ⟨x, y, z⟩) }
      (if donor then { st with donors := grids } else { st with recvs := grids }, "ok")
    | _, _, _, _, _, _ => (st, "bad-op")
  | _ => (st, "bad-op")

def addCell (st : St) (donor bnd : Bool) (ws : List String) : St × String :=
  let k := if bnd then (if st.twod then 2 else 3) else (if st.twod then 3 else 4)
  if ws.length != k + 2 then (st, "bad-op") else
  match ws.mapM nat8? with
  | some vs =>
    let r := vs.getD 0 0
    if r ≥ st.np then (st, "bad-op") else
    let nodes := (vs.drop 1).take k
    let id := vs.getD (k + 1) 0
    let grids := if donor then st.donors else st.recvs
    let gr := grids.getD r {}
    if !distinctBelow gr.nodes.size nodes || id > 1000 then (st, "bad-op") else
    if bnd then
      let grids := grids.setIfInBounds r { gr with bnd := gr.bnd.push (nodes, (id : Int)) }
      (if donor then { st with donors := grids } else { st with recvs := grids }, "ok")
    else
      let cid := gr.cells.size
      let grids := grids.setIfInBounds r { gr with cells := gr.cells.push (nodes, (id : Int)) }
      (if donor then { st with donors := grids } else { st with recvs := grids }, s!"ok {cid}")
  | none => (st, "bad-op")

def step (st : St) (line : String) : St × String :=
  match words line with
  | "reset" :: rest =>
    match rest with
    | [n, t, s] =>
      match nat8? n, nat8? t, nat8? s with
      | some n, some t, some s =>
        if t ≤ 1 && n == st.np then
          ({ active := true, np := n, twod := t == 1, seed := s, donors := Array.replicate n {}, recvs := Array.replicate n {} },
           "ok")
        else ({ np := st.np }, "bad-op")
      | _, _, _ => ({ np := st.np }, "bad-op")
    | _ => ({ np := st.np }, "bad-op")
  | ws =>
  if !st.active then (st, "bad-op") else
  match ws with
  | "dnode" :: rest => addNode st true rest
  | "rnode" :: rest => addNode st false rest
  | "dcell" :: rest => addCell st true false rest
  | "rcell" :: rest => addCell st false false rest
  | "dbnd" :: rest => addCell st true true rest
  | "rbnd" :: rest => addCell st false true rest
  | ["dadj", r, n] =>
    match nat8? r, nat8? n with
    | some r, some n =>
      let g := st.donors.getD r {}
      if r ≥ st.np || n ≥ g.nodes.size then (st, "bad-op") else
      (st, "ok" ++ String.join ((aroundNode g n).map fun c => s!" {c}"))
    | _, _ => (st, "bad-op")
  | ["radj", r, n] =>
    match nat8? r, nat8? n with
    | some r, some n =>
      let g := st.recvs.getD r {}
      if r ≥ st.np || n ≥ g.nodes.size then (st, "bad-op") else
      (st, "ok" ++ String.join ((nodeListAround (groupsOf st.twod g) n).map fun c => s!" {c}"))
    | _, _ => (st, "bad-op")
  | ["geomlist", r] =>
    match nat8? r with
    | some r =>
      if r ≥ st.np then (st, "bad-op") else
      let d := geomOf st.twod r (st.donors.getD r {})
      let t := geomOf st.twod r (st.recvs.getD r {})
      (st, "ok D" ++ String.join (d.map fun c => s!" {c}") ++ " T" ++ String.join (t.map fun c => s!" {c}"))
    | none => (st, "bad-op")
  | "locate" :: counts =>
    -- the counts of node / cell / boundary lines of every rank, donor then receptor
    match counts.mapM nat8? with
    | some cs =>
      let expect := (List.range st.np).flatMap fun r =>
        let d := st.donors.getD r {}
        let t := st.recvs.getD r {}
        [d.nodes.size, d.cells.size, d.bnd.size, t.nodes.size, t.cells.size, t.bnd.size]
      if cs == expect then (st, runLocate st) else (st, "bad-op")
    | none => (st, "bad-op")
  | _ => (st, "bad-op")

/-- `refdrv interplocate NP`: the rank count the harness runs on (a `reset` with another count is `bad-op`) -/
def run (args : List String) : IO UInt32 := do
  let np := (args.head?.bind String.toNat?).getD 1
  runLoop ({ np := np } : St) step
  return 0

end Drivers.InterpLocate
