import Drivers.Proto
import Drivers.Metric
import Refine.Model.Gradation

/-! driver `gradation`: the gradation sweeps and `ref_metric_gradation_at_complexity` at the `Float` instance
    (bit-compared with `h_gradation.c`).  Stateless; mesh block as in driver `metric`:

      MESH := twod nn <3*nn xyz> <6*nn metric> <nn owned 0|1> ncell <cells: kind n0 n1 …>

    diff ops:
      edges MESH                          -> `ok n a0 b0 a1 b1 …` the `ref_edge` list
      ms <r> <k> MESH                     -> `ok` + the field after each of k calls of ref_metric_metric_space_gradation
      mixed <r> <t> <k> MESH              -> the same for ref_metric_mixed_space_gradation, or the REF_STATUS name
      gac <gradation> <target> MESH       -> `ok` + the field left by ref_metric_gradation_at_complexity, or the status
      lpchain <p> <gradation> <ar> <target> MESH -> roundoff_limit, local_scale, limit_aspect_ratio, gradation_at_complexity
    validate op (dump printed by the harness after the real `ref_metric_lp`):
      lpdump <status> <p> <gradation> <ar> <target> <6*nn out> MESH(with the reconstructed Hessian as metric) -/
namespace Drivers.Gradation
open Drivers.Proto Drivers.Metric Refine Refine.Model.Matrix Refine.Model.Metric Refine.Model.Gradation

def sweepsMs (m : Mesh) (r : F) : Nat → List (M6 F) → List F → List F
  | 0, _, acc => acc
  | k + 1, metric, acc =>
    let next := metricSpaceGradation m.xyz m.cells metric r
    sweepsMs m r k next (acc ++ fField next)

def sweepsMixed (m : Mesh) (r t : F) : Nat → List (M6 F) → List F → Except Err (List F)
  | 0, _, acc => .ok acc
  | k + 1, metric, acc =>
    match mixedSpaceGradation m.xyz m.cells metric r t with
    | .error e => .error e
    | .ok next => sweepsMixed m r t k next (acc ++ fField next)

def kOk (k : Nat) : Bool := 1 ≤ k && k ≤ 8

def evalOp (ws : List String) : String :=
  let bad := "bad-op"
  match ws with
  | "edges" :: rest =>
    (match parseMesh rest with
     | some m =>
       let es := edgeList m.cells
       "ok " ++ fmtNats (es.length :: es.flatMap (fun e => [e.1, e.2]))
     | none => bad)
  | "ms" :: r :: k :: rest =>
    (match parseF? r, k.toNat?, parseMesh rest with
     | some r, some k, some m => if !kOk k then bad else okLine (sweepsMs m r k m.metric [])
     | _, _, _ => bad)
  | "mixed" :: r :: t :: k :: rest =>
    (match parseF? r, parseF? t, k.toNat?, parseMesh rest with
     | some r, some t, some k, some m =>
       if !kOk k then bad else
       (match sweepsMixed m r t k m.metric [] with
        | .ok xs => okLine xs
        | .error e => e.name)
     | _, _, _, _ => bad)
  | "gac" :: g :: t :: rest =>
    (match parseF? g, parseF? t, parseMesh rest with
     | some g, some target, some m => resField (gradationAtComplexity m.twod m.own m.xyz m.cells g target m.metric)
     | _, _, _ => bad)
  | "lpchain" :: p :: g :: a :: t :: rest =>
    (match p.toInt?, parseF? g, parseF? a, parseF? t, parseMesh rest with
     | some p, some g, some ar, some target, some m =>
       if p < -1000 || p > 1000 then bad else
       resField (lpChain m.twod m.own m.xyz m.cells p g ar target m.metric)
     | _, _, _, _, _ => bad)
  | "lpdump" :: st :: p :: g :: a :: t :: rest =>
    (match p.toInt?, parseF? g, parseF? a, parseF? t with
     | some p, some g, some ar, some target =>
       -- the mesh block starts after the 6*nn output words; nn is the second word of the mesh block
       (match (rest.dropWhile (fun w => w.length == 16 || w == "nan")) with
        | mw =>
          match parseMesh mw with
          | none => "bad malformed-dump"
          | some m =>
            let outWords := rest.take (rest.length - mw.length)
            let want := resField (lpChain m.twod m.own m.xyz m.cells p g ar target m.metric)
            let got := if st == "ok" then (if outWords.isEmpty then "ok" else "ok " ++ " ".intercalate outWords) else st
            if want == got then "ok lp" else "bad lp model " ++ (want.take 80).toString)
     | _, _, _, _ => "bad malformed-dump")
  | "lpskip" :: _ => "ok lpskip"
  | _ => bad

def step (_ : Unit) (line : String) : Unit × String := ((), evalOp (words line))

def run (_ : List String) : IO UInt32 := do
  runLoop () step
  return 0

end Drivers.Gradation
