import Drivers.Proto
import Refine.Model.Comm

/-!
  driver `comm`: the SPMD collectives of `Refine.Model.Comm` behind the line protocol of
  `harness/h_comm.c`.  One op line carries the arguments of *all* ranks:

    op np header… | rank-0 group | rank-1 group | …

  and the output line is the per-rank results joined by ` | ` (or `hang` / `bad-op`).
  Data-movement ops treat values as opaque tokens; reductions parse them by type.
-/
namespace Drivers.Comm
open Drivers.Proto Refine.Model.Comm

/-- split a token list on `|`; the tokens before the first bar are the first element -/
def splitBar (ws : List String) : List (List String) :=
  let r := ws.foldr (fun t (acc : List String × List (List String)) =>
    if t == "|" then ([], acc.1 :: acc.2) else (t :: acc.1, acc.2)) ([], [])
  r.1 :: r.2

def splitColon (ws : List String) : List String × List String :=
  (ws.takeWhile (· != ":"), (ws.dropWhile (· != ":")).drop 1)

def parseType : String → Option RefType
  | "int" => some .int | "long" => some .long | "dbl" => some .dbl | "byte" => some .byte
  | "unk" => some .unknown | _ => none

def zeroTok : RefType → String
  | .dbl => "0000000000000000" | _ => "0"

def fmtWorld (rs : List String) : String := " | ".intercalate rs

def join (ws : List String) : String := " ".intercalate ws

/-- `<status>` alone when not ok, else `<status> <payload>` -/
def fmtSt (st : Status) (payload : List String) : String :=
  if st == Status.ok then join (st.name :: payload) else st.name

def groupsOf (np : Nat) (rest : List String) : Option (List (List String)) :=
  match splitBar rest with
  | [] :: gs => if gs.length == np && np ≥ 1 then some gs else none
  | _ => none

def maxTagOf (mt : Int) : Int := if mt < 0 then INT_MAX else mt

def CAP : Int := 200000

/-! numeric values for the reductions -/
inductive Val
  | i (v : Int)
  | f (v : Float)
  | b (v : Nat)
  deriving Inhabited

def Val.add : Val → Val → Val
  | .i x, .i y => .i (x + y)
  | .f x, .f y => .f (x + y)
  | .b x, .b y => .b ((x + y) % 256)
  | x, _ => x

def Val.lt : Val → Val → Bool
  | .i x, .i y => decide (x < y)
  | .f x, .f y => x < y
  | .b x, .b y => decide (x < y)
  | _, _ => false

def Val.fmt : Val → String
  | .i a => toString a
  | .f a => fmtF a
  | .b a => toString a

def parseVal (ty : RefType) (s : String) : Option Val :=
  match ty with
  | .dbl => (parseF? s).map Val.f
  | .byte => match s.toNat? with
    | some n => if n < 256 then some (Val.b n) else none
    | none => none
  | _ => (s.toInt?).map Val.i

def zeroVal : RefType → Val
  | .dbl => .f 0.0 | .byte => .b 0 | _ => .i 0

def parseVals (ty : RefType) (ws : List String) : Option (List Val) := ws.mapM (parseVal ty)

def transposeI (m : List (List Int)) : List (List Int) :=
  (List.range m.length).map fun r => m.map fun row => row.getD r 0

/-! ### ops -/

def opAlltoallv (np : Nat) (ty : RefType) (native : Bool) (mt ldim : Int) (gs : List (List String)) : String :=
  let parsed := gs.mapM fun g =>
    let (cs, vs) := splitColon g
    match parseInts? cs with
    | some c => if c.length == np then some (c, vs) else none
    | none => none
  match parsed with
  | none => "bad-op"
  | some pv =>
    if ldim < 0 then "bad-op" else
    let sendSizes := pv.map (·.1)
    let recvSizes := transposeI sendSizes
    -- guards first (they do not look at the buffers); receive buffers are built only when small
    let w0 : World (A2A String) := (pv.zip recvSizes).map fun (p, rs) => ⟨p.2, p.1, [], rs⟩
    let bad := w0.map fun a => (a2avArgs ldim a).isNone
    let anyBad := bad.any id
    let allBad := bad.all id
    if ldim > INT_MAX then "bad-op"
    else if native && anyBad then "bad-op"
    else if anyBad && !allBad then "hang"
    else if !anyBad && (w0.any fun a =>
        decide ((a.send.length : Int) ≠ ldim * isum a.sendSize) || decide (ldim * isum a.sendSize > CAP)
          || decide (ldim * isum a.recvSize > CAP)) then "bad-op"
    else
      let w : World (A2A String) :=
        if anyBad then w0.map fun a => { a with send := [] }
        else w0.map fun a => { a with recv := List.replicate (ldim * isum a.recvSize).toNat (zeroTok ty) }
      match alltoallv native ty (maxTagOf mt) ldim w with
      | none => "hang"
      | some res => fmtWorld (res.map fun sb => fmtSt sb.1 sb.2)

def opAlltoall (np : Nat) (ty : RefType) (gs : List (List String)) : String :=
  if gs.any (·.length != np) then "bad-op" else
  if !ty.mpiOk then fmtWorld (gs.map fun _ => Status.implement.name) else
  fmtWorld ((mpiAlltoall gs).map fun r => fmtSt Status.ok r)

/-- `nsend d v*ldim d v*ldim …` -/
def parseBlind (np ldim : Nat) (g : List String) : Option (Blind String) :=
  match g with
  | [] => none
  | ns :: rest =>
    match ns.toNat? with
    | none => none
    | some nsend =>
      if rest.length != nsend * (ldim + 1) then none else
      let rec go (k : Nat) (ws : List String) (procs : List Int) (vals : List String) : Option (Blind String) :=
        match k with
        | 0 => some ⟨procs.reverse, vals⟩
        | k + 1 =>
          match ws with
          | [] => none
          | d :: ws' =>
            match d.toInt? with
            | none => none
            | some di =>
              if di < 0 || di ≥ (np : Int) then none
              else go k (ws'.drop ldim) (di :: procs) (vals ++ ws'.take ldim)
      go nsend rest [] []

def fmtBlindRes (res : World (Status × Int × List String)) : String :=
  fmtWorld (res.map fun x => fmtSt x.1 (toString x.2.1 :: x.2.2))

def opBlindsend (np : Nat) (ty : RefType) (native : Bool) (mt : Int) (ldim : Nat) (gs : List (List String)) : String :=
  if ldim < 1 then "bad-op" else
  match gs.mapM (parseBlind np ldim) with
  | none => "bad-op"
  | some w =>
    match blindsend native ty (maxTagOf mt) ldim w with
    | none => "hang"
    | some res => fmtBlindRes res

/-- `nitem v*(ldim*nitem)` -/
def parseCounted (ldim : Nat) (g : List String) : Option (Nat × List String) :=
  match g with
  | [] => none
  | ns :: rest =>
    match ns.toNat? with
    | none => none
    | some n => if rest.length == n * ldim then some (n, rest) else none

def opBalance (ty : RefType) (native : Bool) (ldim : Nat) (first last : Int) (gs : List (List String)) : String :=
  if ldim < 1 then "bad-op" else
  match gs.mapM (parseCounted ldim) with
  | none => "bad-op"
  | some w =>
    match balance native ty INT_MAX ldim first last w with
    | none => "hang"
    | some res => fmtBlindRes res

def opAllgather (ty : RefType) (gs : List (List String)) : String :=
  match gs.mapM fun g => match g with | [v] => some v | _ => none with
  | none => "bad-op"
  | some w => fmtWorld ((allgather ty w).map fun sb => fmtSt sb.1 sb.2)

def opAllgatherv (ty : RefType) (gs : List (List String)) : String :=
  let counts : List Int := gs.map fun g => (g.length : Int)
  let total := (isum counts).toNat
  let w : World (GatherV String) := gs.map fun g => ⟨g, counts, List.replicate total (zeroTok ty)⟩
  match allgatherv ty w with
  | none => "hang"
  | some res => fmtWorld (res.map fun sb => fmtSt sb.1 sb.2)

def opAllconcat (ty : RefType) (ldim : Nat) (gs : List (List String)) : String :=
  if ldim < 1 then "bad-op" else
  match gs.mapM (parseCounted ldim) with
  | none => "bad-op"
  | some w =>
    match allconcat ty ldim w with
    | none => "hang"
    | some res => fmtWorld (res.map fun x =>
        fmtSt x.1 ([toString x.2.1] ++ x.2.2.1.map toString ++ [";"] ++ x.2.2.2))

def opSum (ty : RefType) (n : Nat) (gs : List (List String)) (all : Bool) : String :=
  match gs.mapM (parseVals ty) with
  | none => "bad-op"
  | some w =>
    if w.any (·.length != n) then "bad-op" else
    let res := if all then allsum Val.add ty n w
               else sum Val.add ty n (w.map fun v => (v, List.replicate n (zeroVal ty)))
    fmtWorld (res.map fun sb => fmtSt sb.1 (sb.2.map Val.fmt))

def opMinMax (ty : RefType) (gs : List (List String)) (isMin : Bool) : String :=
  match gs.mapM fun g => match g with | [v] => parseVal ty v | _ => none with
  | none => "bad-op"
  | some w =>
    let pick := if isMin then pickMin Val.lt else pickMax Val.lt
    let res := reduce1 pick ty (w.map fun v => (v, zeroVal ty))
    fmtWorld (res.map fun sb => fmtSt sb.1 [sb.2.fmt])

def opAllminwho (n : Nat) (gs : List (List String)) : String :=
  match gs.mapM (parseFs?) with
  | none => "bad-op"
  | some w =>
    if w.any (·.length != n) then "bad-op" else
    let res := allminwho (fun (a b : Float) => a < b) n w
    fmtWorld (res.map fun vw => fmtSt Status.ok (vw.1.map fmtF ++ [";"] ++ vw.2.map toString))

def opBcast (ty : RefType) (n : Nat) (gs : List (List String)) : String :=
  if gs.any (·.length < n) then "bad-op" else
  fmtWorld ((bcast ty n gs).map fun sb => fmtSt sb.1 sb.2)

def opScatter (ty : RefType) (gs : List (List String)) : String :=
  match scatter ty INT_MAX gs with
  | none => "hang"
  | some res => fmtWorld (res.map fun sb => fmtSt sb.1 sb.2)

def opGather (ty : RefType) (gs : List (List String)) : String :=
  match gather ty INT_MAX gs with
  | none => "hang"
  | some res => fmtWorld (res.map fun sb => fmtSt sb.1 sb.2)

def opSelection (position : Int) (gs : List (List String)) : String :=
  match gs.mapM parseFs? with
  | none => "bad-op"
  | some w =>
    let v : Float := selection w position
    fmtWorld (w.map fun _ => fmtSt Status.ok [fmtF v])

def step (_ : Unit) (line : String) : Unit × String :=
  let ws := words line
  let r : String :=
    match ws with
    | "finddest" :: n :: gid :: shares =>
      match n.toNat?, gid.toInt?, parseInts? shares with
      | some n, some gid, some sh =>
        if sh.length == n && n ≥ 1 then toString (findDestination n sh gid) else "bad-op"
      | _, _, _ => "bad-op"
    | op :: nps :: rest =>
      match nps.toNat? with
      | none => "bad-op"
      | some np =>
        let hdr := rest.takeWhile (· != "|")
        let body := rest.dropWhile (· != "|")
        match groupsOf np body with
        | none => "bad-op"
        | some gs =>
          match op, hdr with
          | "alltoallv", [ty, nat, mt, ldim] =>
            match parseType ty, nat.toNat?, mt.toInt?, ldim.toInt? with
            | some ty, some nat, some mt, some ldim => opAlltoallv np ty (nat != 0) mt ldim gs
            | _, _, _, _ => "bad-op"
          | "alltoall", [ty] =>
            match parseType ty with
            | some ty => opAlltoall np ty gs
            | none => "bad-op"
          | "blindsend", [ty, nat, mt, ldim] =>
            match parseType ty, nat.toNat?, mt.toInt?, ldim.toNat? with
            | some ty, some nat, some mt, some ldim => opBlindsend np ty (nat != 0) mt ldim gs
            | _, _, _, _ => "bad-op"
          | "balance", [ty, nat, ldim, first, last] =>
            match parseType ty, nat.toNat?, ldim.toNat?, first.toInt?, last.toInt? with
            | some ty, some nat, some ldim, some first, some last => opBalance ty (nat != 0) ldim first last gs
            | _, _, _, _, _ => "bad-op"
          | "allgather", [ty] =>
            match parseType ty with
            | some ty => opAllgather ty gs
            | none => "bad-op"
          | "allgatherv", [ty] =>
            match parseType ty with
            | some ty => opAllgatherv ty gs
            | none => "bad-op"
          | "allconcat", [ty, ldim] =>
            match parseType ty, ldim.toNat? with
            | some ty, some ldim => opAllconcat ty ldim gs
            | _, _ => "bad-op"
          | "sum", [ty, n] =>
            match parseType ty, n.toNat? with
            | some ty, some n => opSum ty n gs false
            | _, _ => "bad-op"
          | "allsum", [ty, n] =>
            match parseType ty, n.toNat? with
            | some ty, some n => opSum ty n gs true
            | _, _ => "bad-op"
          | "min", [ty] =>
            match parseType ty with
            | some ty => opMinMax ty gs true
            | none => "bad-op"
          | "max", [ty] =>
            match parseType ty with
            | some ty => opMinMax ty gs false
            | none => "bad-op"
          | "allminwho", [n] =>
            match n.toNat? with
            | some n => opAllminwho n gs
            | none => "bad-op"
          | "bcast", [ty, n] =>
            match parseType ty, n.toNat? with
            | some ty, some n => opBcast ty n gs
            | _, _ => "bad-op"
          | "scatter", [ty] =>
            match parseType ty with
            | some ty => opScatter ty gs
            | none => "bad-op"
          | "gather", [ty] =>
            match parseType ty with
            | some ty => opGather ty gs
            | none => "bad-op"
          | "selection", [pos] =>
            match pos.toInt? with
            | some pos => opSelection pos gs
            | none => "bad-op"
          | _, _ => "bad-op"
    | _ => "bad-op"
  ((), r)

def run (_ : List String) : IO UInt32 := do
  runLoop () step
  return 0

end Drivers.Comm
