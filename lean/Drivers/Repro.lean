import Drivers.Proto
import Drivers.Comm
import Refine.Model.ReproEdge
import Refine.Model.ReproSched

/-! driver `repro` (C18): `ref_edge_create` on cell stores built through add/remove histories (same op lines as
    `harness/h_repro.c`), and — with the op lines of `harness/h_comm.c` — the native all-to-all, blind send and
    rank-0 scatter / gather loops executed by the SCHEDULED operational model of `Refine.Model.ReproSched`
    under a pseudo-random delivery / completion order derived from the op line. -/
namespace Drivers.Repro
open Drivers.Proto Refine.Model.CellStore Refine.Model.ReproEdge

abbrev St := List CellStore

def initSt : St := Refine.Gen.CellTables.all.map CellStore.create

def nodeLimit : Int := 100000

def stName (s : Refine.Model.NodeIds.Status) : String := s.name

def commaI (xs : List Int) : String := ",".intercalate (xs.map toString)

def liveLine (st : St) : String :=
  let parts := st.zipIdx.flatMap fun (sg : CellStore × Nat) =>
    ((List.range sg.1.max).filter fun (c : Nat) => sg.1.validCell (c : Int)).map fun (c : Nat) =>
      s!"{sg.2}:{c}:{commaI ((sg.1.row c).take sg.1.nodePer)}"
  " ".intercalate ("ok" :: parts)

def edgesLine (st : St) : String :=
  let r := edgeCreate st
  if r.1 ≠ .ok then stName r.1
  else " ".intercalate ("ok" :: toString r.2.e2n.length :: r.2.e2n.flatMap fun p => [toString p.1, toString p.2])

def stepEdge (st : St) (ws : List String) : Option (St × String) :=
  match ws with
  | ["reset"] => some (initSt, "ok")
  | "add" :: g :: ns =>
    match g.toNat?, parseInts? ns with
    | some g, some ns =>
      if g ≥ 16 then some (st, "bad-op") else
      match st[g]? with
      | none => some (st, "bad-op")
      | some cs =>
        if ns.length ≠ cs.sizePer || ns.any (fun v => v < -3 || v ≥ nodeLimit) then some (st, "bad-op") else
        let r := cs.add ns
        some (st.set g r.2.2, if r.1 = .ok then s!"ok {r.2.1}" else stName r.1)
    | _, _ => some (st, "bad-op")
  | ["remove", g, c] =>
    match g.toNat?, c.toInt? with
    | some g, some c =>
      match st[g]? with
      | none => some (st, "bad-op")
      | some cs =>
        let r := cs.remove c
        some (st.set g r.2, stName r.1)
    | _, _ => some (st, "bad-op")
  | ["live"] => some (st, liveLine st)
  | ["edges"] => some (st, edgesLine st)
  | _ => none

/-! ### scheduled communication (op lines of `h_comm`) -/
open Refine.Model.Comm Refine.Model.ReproSched Drivers.Comm

/-- a 31-bit hash of the op line: the seed of the pseudo-random schedule -/
def lineSeed (line : String) : Nat :=
  line.toList.foldl (fun h c => (h * 131 + c.toNat) % 2147483629) 7

def opAlltoallvS (seed : Nat) (np : Nat) (ty : RefType) (mt ldim : Int) (gs : List (List String)) : String :=
  let parsed := gs.mapM fun g =>
    let (cs, vs) := splitColon g
    match parseInts? cs with
    | some c => if c.length == np then some (c, vs) else none
    | none => none
  match parsed with
  | none => "bad-op"
  | some pv =>
    if ldim < 0 then "bad-op" else
    let sendSizes := pv.map (·.1)
    let recvSizes := transposeI sendSizes
    let w0 : World (A2A String) := (pv.zip recvSizes).map fun (p, rs) => ⟨p.2, p.1, [], rs⟩
    let bad := w0.map fun a => (a2avArgs ldim a).isNone
    let anyBad := bad.any id
    if ldim > INT_MAX then "bad-op"
    else if anyBad then "bad-op"
    else if (w0.any fun a =>
        decide ((a.send.length : Int) ≠ ldim * isum a.sendSize) || decide (ldim * isum a.sendSize > CAP)
          || decide (ldim * isum a.recvSize > CAP)) then "bad-op"
    else
      let w : World (A2A String) :=
        w0.map fun a => { a with recv := List.replicate (ldim * isum a.recvSize).toNat (zeroTok ty) }
      match alltoallvNativeSched seed ty (maxTagOf mt) ldim w with
      | none => "hang"
      | some res => fmtWorld (res.map fun sb => fmtSt sb.1 sb.2)

def stepSched (line : String) (ws : List String) : String :=
  let seed := lineSeed line
  match ws with
  | op :: nps :: rest =>
    match nps.toNat? with
    | none => "bad-op"
    | some np =>
      let hdr := rest.takeWhile (· != "|")
      let body := rest.dropWhile (· != "|")
      match groupsOf np body with
      | none => "bad-op"
      | some gs =>
        match op, hdr with
        | "alltoallv", [ty, nat, mt, ldim] =>
          match parseType ty, nat.toNat?, mt.toInt?, ldim.toInt? with
          | some ty, some nat, some mt, some ldim =>
            if nat = 0 then "bad-op" else opAlltoallvS seed np ty mt ldim gs
          | _, _, _, _ => "bad-op"
        | "scatter", [ty] =>
          match parseType ty with
          | some ty =>
            match scatterSched seed ty INT_MAX gs with
            | none => "hang"
            | some res => fmtWorld (res.map fun sb => fmtSt sb.1 sb.2)
          | none => "bad-op"
        | "gather", [ty] =>
          match parseType ty with
          | some ty =>
            match gatherSched seed ty INT_MAX gs with
            | none => "hang"
            | some res => fmtWorld (res.map fun sb => fmtSt sb.1 sb.2)
          | none => "bad-op"
        | _, _ => "bad-op"
  | _ => "bad-op"

def step (st : St) (line : String) : St × String :=
  let ws := words line
  match stepEdge st ws with
  | some r => r
  | none => (st, stepSched line ws)

def run (_ : List String) : IO UInt32 := do
  runLoop initSt step
  return 0

end Drivers.Repro
