import Drivers.Proto
import Drivers.Metric
import Refine.Model.MetricPipe

/-! driver `metricpipe`: the pipeline of `ref multiscale` at the `Float` instance (bit-compared with
    `h_metricpipe.c`).  Stateless; mesh block as in driver `metric`:

      MESH := twod nn <3*nn xyz> <6*nn metric> <nn owned 0|1> ncell <cells: kind n0 n1 …>

    diff ops:
      stages <p> <gradation> <ar> <target> MESH  -> `stages ok <f> ok <f> ok <f> ok <f>` the field after each stage of
                                                    ref_metric_lp, stopping at the first status that is not ok
      lp <p> <gradation> <ar> <target> MESH      -> `metricLp` on MESH.metric as the Hessian
      buffer MESH | bac <target> MESH            -> `buffer`, `bufferAtComplexity`
      bacsteps <target> MESH                     -> the field after each relaxation of `bufLoop`
    validate op (dump printed by the harness after the real subcommand ran on an argv vector):
      msdump <status> <na> <a1..a_na> <nout> <nout words> MESH(as imported; metric := the Hessian) -/
namespace Drivers.MetricPipe
open Drivers.Proto Drivers.Metric Refine Refine.Model.Matrix Refine.Model.Metric Refine.Model.Gradation
open Refine.Model.MetricPipe

def stagesLine (m : Mesh) (p : Int) (g ar target : F) : String :=
  match roundoffLimit m.xyz m.cells m.metric with
  | .error e => "stages " ++ e.name
  | .ok f1 =>
    let s1 := "stages ok " ++ fmtFs (fField f1)
    let f2 := localScale m.twod p f1
    let s2 := s1 ++ " ok " ++ fmtFs (fField f2)
    match limitAspectRatio m.twod ar f2 with
    | .error e => s2 ++ " " ++ e.name
    | .ok f3 =>
      let s3 := s2 ++ " ok " ++ fmtFs (fField f3)
      match gradationAtComplexity m.twod m.own m.xyz m.cells g target f3 with
      | .error e => s3 ++ " " ++ e.name
      | .ok f4 => s3 ++ " ok " ++ fmtFs (fField f4)

def bacSteps (m : Mesh) (target : F) : Nat → List (M6 F) → String → String
  | 0, _, acc => acc
  | k + 1, metric, acc =>
    match bufRelax m.twod m.own m.xyz m.cells target metric with
    | .error e => acc ++ " " ++ e.name
    | .ok next => bacSteps m target k next (acc ++ " ok " ++ fmtFs (fField next))

def evalOp (ws : List String) : String :=
  let bad := "bad-op"
  match ws with
  | "stages" :: p :: g :: a :: t :: rest =>
    (match p.toInt?, parseF? g, parseF? a, parseF? t, parseMesh rest with
     | some p, some g, some ar, some target, some m =>
       if p < -1000 || p > 1000 then bad else stagesLine m p g ar target
     | _, _, _, _, _ => bad)
  | "lp" :: p :: g :: a :: t :: rest =>
    (match p.toInt?, parseF? g, parseF? a, parseF? t, parseMesh rest with
     | some p, some g, some ar, some target, some m =>
       if p < -1000 || p > 1000 then bad else
       resField (metricLp m.twod m.own m.xyz m.cells p g ar target m.metric)
     | _, _, _, _, _ => bad)
  | "buffer" :: rest =>
    (match parseMesh rest with
     | some m => resField (buffer m.xyz m.metric)
     | none => bad)
  | "bac" :: t :: rest =>
    (match parseF? t, parseMesh rest with
     | some target, some m => resField (bufferAtComplexity m.twod m.own m.xyz m.cells target m.metric)
     | _, _ => bad)
  | "bacsteps" :: t :: rest =>
    (match parseF? t, parseMesh rest with
     | some target, some m => bacSteps m target Refine.Gen.MultiscaleOpts.bufRelaxations m.metric "bacsteps"
     | _, _ => bad)
  | "msdump" :: st :: nas :: rest =>
    (match nas.toNat? with
     | none => "bad malformed-dump"
     | some na =>
       let args := rest.take na
       match (rest.drop na) with
       | nouts :: rest2 =>
         (match nouts.toNat? with
          | none => "bad malformed-dump"
          | some nout =>
            let outWords := rest2.take nout
            match parseMesh (rest2.drop nout) with
            | none => "bad malformed-dump"
            | some m =>
              let argv := "ref" :: "multiscale" :: args
              let want :=
                match multiscaleOptions argv with
                | none => "failure"
                | some o =>
                  if o.fixedPoint || o.uniform then "unmodelled" else
                  -- positional words that are not the placeholders name files that do not exist: the import fails
                  if o.inMesh != "@mesh" || o.inScalar != "@scalar" || o.outMetric != "@out" then "not-ok" else
                  resField (multiscaleMetric o m.twod m.own m.xyz m.cells m.metric)
              let got := if st == "ok" then (if outWords.isEmpty then "ok" else "ok " ++ " ".intercalate outWords) else st
              if want == "not-ok" then (if st != "ok" then "ok ms refused" else "bad ms accepted missing files") else
              if want == got then "ok ms " ++ st else "bad ms model " ++ (want.take 100).toString)
       | [] => "bad malformed-dump")
  | "msskip" :: _ => "ok msskip"
  | "bad-op" :: _ => "ok bad-op"
  | _ => bad

def step (_ : Unit) (line : String) : Unit × String := ((), evalOp (words line))

def run (_ : List String) : IO UInt32 := do
  runLoop () step
  return 0

end Drivers.MetricPipe
