import Drivers.Proto
import Refine.Model.PartMeshb

/-! driver `partmeshb`: the parallel `.meshb` reader model, same op lines as harness/h_partmeshb.c -/
namespace Drivers.PartMeshb
open Drivers.Proto Refine.Model.Meshb Refine.Model.PartMeshb

def bytesOfHex? (s : String) : Option Bytes :=
  if s == "-" then some [] else
  let rec go : List Char → List UInt8 → Option (List UInt8)
    | [], acc => some acc.reverse
    | [_], _ => none
    | a :: b :: r, acc =>
      match a, b with
      | a, b =>
        let hv (c : Char) : Option Nat :=
          if '0' ≤ c ∧ c ≤ '9' then some (c.toNat - '0'.toNat)
          else if 'a' ≤ c ∧ c ≤ 'f' then some (c.toNat - 'a'.toNat + 10) else none
        match hv a, hv b with
        | some x, some y => go r (UInt8.ofNat (16 * x + y) :: acc)
        | _, _ => none
  go s.toList []

def hexOfBytes (b : Bytes) : String :=
  String.ofList (b.flatMap fun x => [hexChar (x.toNat / 16), hexChar (x.toNat % 16)])

def isNat (s : String) : Bool := !s.isEmpty && s.length ≤ 9 && s.toList.all Char.isDigit

def fmtNode (n : PNode) : String :=
  match n.xyz with
  | some v => s!"{n.glob},{n.part},{fmtHex64 v.x},{fmtHex64 v.y},{fmtHex64 v.z}"
  | none => s!"{n.glob},{n.part},uninit"

def fmtCell (k : Nat) (nodePer : Nat) (c : Cell) : String :=
  s!"{k}:" ++ ",".intercalate ((c.take nodePer).map toString) ++ s!":{(c.drop nodePer).headD 0}"

def geomLe (a b : PGeom) : Bool :=
  if a.type != b.type then a.type < b.type
  else if a.id != b.id then a.id < b.id
  else a.node ≤ b.node

def fmtGeom (g : PGeom) : String :=
  s!"{g.type},{g.id},{g.gref},{g.node},{fmtHex64 g.p0},{fmtHex64 g.p1}"

/-- lexicographic `<` on integer lists -/
def lexLt : List Int → List Int → Bool
  | [], _ => false
  | _, [] => false
  | a :: as, b :: bs => if a < b then true else if b < a then false else lexLt as bs

def canon (nodes : List Int) : List Int := if lexLt nodes.reverse nodes then nodes.reverse else nodes

def fmtRank (st : PRank) : String :=
  let nodes := st.nodes.mergeSort fun a b => decide (a.glob ≤ b.glob)
  let groups := cellInfos.zipIdx.zip st.cells
  let cells := groups.flatMap fun x => x.2.map (fmtCell x.1.2 x.1.1.nodePer)
  let geoms := st.geoms.mergeSort geomLe
  let fin := groups.flatMap fun x =>
    if x.1.1.name == "tri" || x.1.1.name == "qua" then
      x.2.map fun c => fmtCell x.1.2 x.1.1.nodePer (canon (c.take x.1.1.nodePer) ++ c.drop x.1.1.nodePer)
    else []
  " ".intercalate (["n", toString st.nGlobal, toString st.nGlobal, "N"] ++ nodes.map fmtNode ++ ["C"] ++ cells ++
    ["G"] ++ geoms.map fmtGeom ++ ["B", if st.cad.isEmpty then "-" else hexOfBytes st.cad] ++ ["F"] ++ fin)

def fmtResult : Except Status (List PRank) → String
  | .error e => e.name
  | .ok w => "ok" ++ String.join (w.map fun st => " | " ++ fmtRank st)

/-- the generated edge file of op `big` (harness/h_partmeshb.c `op_big`) -/
def bigFile (ver B ncell seed : Nat) (pos : List Nat) : Bytes :=
  let M := pos.length
  let nnode := B + M
  let isz := intSize ver
  let psz := fpSize ver
  let at1 := 8 + 4 + psz + 4
  let at2 := at1 + 4 + psz + isz + nnode * (24 + isz)
  let at3 := at2 + 4 + psz + isz + ncell * 3 * isz
  let verts : Bytes := (List.range nnode).flatMap fun i =>
    let f := Float.ofNat i
    encF64 (f * 0.5).toBits ++ encF64 (f * 0.25).toBits ++ encF64 (-f).toBits ++ encInt ver 1
  -- the distinct background records, encoded once: index a * B + b
  let table : Array Bytes := ((List.range (B * B)).map fun k =>
    let a := k / B
    let b := k % B
    encInt ver (a + 1) ++ encInt ver (b + 1) ++ encInt ver (1 + (a * B + b) % 7)).toArray
  let bg (x : Nat) : Nat × Bytes :=
    let x := (x * 1103515245 + 12345) % 2147483648
    let a0 := (x / 256) % B
    let b0 := (x / 65536) % B
    let b0 := if a0 == b0 then (a0 + 1) % B else b0
    (x, table.getD (min a0 b0 * B + max a0 b0) [])
  -- records, built in reverse
  let step (st : Nat × List Nat × Nat × List Bytes) (i : Nat) : Nat × List Nat × Nat × List Bytes :=
    let (x, ps, j, acc) := st
    match ps with
    | p :: rest =>
      if p == i then
        (x, rest, j + 1, (encInt ver (B + j + 1) ++ encInt ver ((7 * j) % B + 1) ++ encInt ver (100 + j)) :: acc)
      else
        let (x, r) := bg x
        (x, ps, j, r :: acc)
    | [] =>
      let (x, r) := bg x
      (x, ps, j, r :: acc)
  let recs := ((List.range ncell).foldl step (seed % 2147483648, pos, 0, [])).2.2.2
  le32 1 ++ le32 ver ++
  le32 3 ++ encPos ver at1 ++ le32 3 ++
  le32 4 ++ encPos ver at2 ++ encInt ver nnode ++ verts ++
  le32 5 ++ encPos ver at3 ++ encInt ver ncell ++ recs.reverse.flatten ++
  le32 54 ++ encPos ver 0

def strictlyIncreasing : List Nat → Bool
  | a :: b :: r => a < b && strictlyIncreasing (b :: r)
  | _ => true

def step (line : String) : String :=
  match words line with
  | "part" :: np :: hex :: tag =>
    if !isNat np || tag.length > 1 then "bad-op" else
    match bytesOfHex? hex with
    | none => "bad-op"
    | some bs =>
      let n := np.toNat!
      if n == 0 then "bad-op" else fmtResult (partRead n bs)
  | "big" :: np :: ver :: b :: ncell :: seed :: pos =>
    if !([np, ver, b, ncell, seed] ++ pos).all isNat || pos.length > 64 then "bad-op" else
    let n := np.toNat!; let v := ver.toNat!; let bb := b.toNat!; let nc := ncell.toNat!
    let ps := pos.map String.toNat!
    if n == 0 || v < 2 || v > 4 || bb < 2 || bb > 1000 || nc < 1 || nc > 3000000 then "bad-op"
    else if !strictlyIncreasing ps || ps.any (· ≥ nc) then "bad-op"
    else fmtResult (partRead n (bigFile v bb nc seed.toNat! ps))
  | _ => "bad-op"

def run (_args : List String) : IO UInt32 := do
  runLoop () fun _ line => ((), step line)
  return 0

end Drivers.PartMeshb
