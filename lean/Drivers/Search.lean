import Drivers.Proto
import Refine.Model.Search

/-! driver `search`: `ref_search.c`, `ref_node_bounding_sphere_xyz`, the `ref_phys_wall_distance` tree loop
    (Float instance of `Refine.Model.Search`, bit-compared with `harness/h_search.c`) -/
namespace Drivers.Search
open Drivers.Proto Refine Refine.Model.Geom Refine.Model.Search

abbrev F := Float

structure St where
  tree : Option (Search F) := none
  segs : Array (V3 F × V3 F) := #[]
  tris : Array (V3 F × V3 F × V3 F) := #[]

def v3 (a b c : F) : V3 F := ⟨a, b, c⟩
def zero3 : V3 F := ⟨0.0, 0.0, 0.0⟩

def statusName : Status → String
  | .ok => "ok" | .failure => "failure" | .invalid => "invalid" | .increaseLimit => "increase_limit"

def fmtList (xs : List Int) : String :=
  "ok " ++ toString xs.length ++ String.join (xs.map fun i => " " ++ toString i)

/-- the C arrays, rebuilt from the tree rows -/
def dump (s : Search F) : String :=
  let n := s.n
  let rows := s.root.rows
  let item := rows.foldl (fun (a : Array Int) r => a.setIfInBounds r.1 r.2.1) (Array.replicate n (-1))
  let left := rows.foldl (fun (a : Array Int) r => a.setIfInBounds r.1 r.2.2.1) (Array.replicate n (-1))
  let right := rows.foldl (fun (a : Array Int) r => a.setIfInBounds r.1 r.2.2.2.1) (Array.replicate n (-1))
  let ball := rows.foldl (fun (a : Array F) r => a.setIfInBounds r.1 r.2.2.2.2.1) (Array.replicate n 0.0)
  let pos := rows.foldl (fun (a : Array (V3 F)) r => a.setIfInBounds r.1 r.2.2.2.2.2.1) (Array.replicate s.empty zero3)
  let rad := rows.foldl (fun (a : Array F) r => a.setIfInBounds r.1 r.2.2.2.2.2.2) (Array.replicate s.empty 0.0)
  let ints (a : Array Int) := String.join (a.toList.map fun i => " " ++ toString i)
  let fs (a : Array F) := String.join (a.toList.map fun f => " " ++ fmtF f)
  let ps := String.join (pos.toList.map fun p => " " ++ fmtF p.x ++ " " ++ fmtF p.y ++ " " ++ fmtF p.z)
  s!"ok {n} {s.empty} I{ints item} L{ints left} R{ints right} B{fs ball} P{ps} Q{fs rad}"

def itemsBelow (s : Search F) (k : Nat) : Bool :=
  s.root.pre.all fun e => decide (e.item < Int.ofNat k)

def segAt (a : Array (V3 F × V3 F)) (i : Int) : V3 F × V3 F := a.getD i.toNat (zero3, zero3)
def triAt (a : Array (V3 F × V3 F × V3 F)) (i : Int) : V3 F × V3 F × V3 F := a.getD i.toNat (zero3, zero3, zero3)

def ptsOf : List F → List (V3 F)
  | a :: b :: c :: rest => v3 a b c :: ptsOf rest
  | _ => []

def step (st : St) (line : String) : St × String :=
  match words line with
  | ["reset"] => ({}, "ok")
  | ["create", n] => match n.toInt? with
      | some n => if n.natAbs > 1000000 then (st, "bad-op") else match (Search.create n : Except Status (Search F)) with
          | .ok s => ({ st with tree := some s }, "ok")
          | .error e => ({ st with tree := none }, statusName e)
      | none => (st, "bad-op")
  | ["insert", i, x, y, z, r] => match st.tree, i.toInt?, parseFs? [x, y, z, r] with
      | some s, some i, some [x, y, z, r] =>
          if i.natAbs > 2000000000 then (st, "bad-op") else
          let (e, s') := s.insert i (v3 x y z) r
          ({ st with tree := some s' }, statusName e)
      | _, _, _ => (st, "bad-op")
  | ["dump"] => match st.tree with
      | some s => (st, dump s)
      | none => (st, "bad-op")
  | ["touching", x, y, z, r] => match st.tree, parseFs? [x, y, z, r] with
      | some s, some [x, y, z, r] => (st, fmtList (s.touching (v3 x y z) r))
      | _, _ => (st, "bad-op")
  | ["trim", x, y, z] => match st.tree, parseFs? [x, y, z] with
      | some s, some [x, y, z] => (st, "ok " ++ fmtF (s.trimRadius (v3 x y z)))
      | _, _ => (st, "bad-op")
  | ["cand", x, y, z] => match st.tree, parseFs? [x, y, z] with
      | some s, some [x, y, z] => (st, fmtList (s.nearestCandidates (v3 x y z)))
      | _, _ => (st, "bad-op")
  | ["candlt", x, y, z, d] => match st.tree, parseFs? [x, y, z, d] with
      | some s, some [x, y, z, d] => (st, fmtList (s.nearestCandidatesCloserThan (v3 x y z) d))
      | _, _ => (st, "bad-op")
  | "seg" :: ws => match parseFs? ws with
      | some [a, b, c, d, e, f] => ({ st with segs := st.segs.push (v3 a b c, v3 d e f) }, "ok")
      | _ => (st, "bad-op")
  | "tri" :: ws => match parseFs? ws with
      | some [a, b, c, d, e, f, g, h, i] =>
          ({ st with tris := st.tris.push (v3 a b c, v3 d e f, v3 g h i) }, "ok")
      | _ => (st, "bad-op")
  | ["nearest2", x, y, z, d] => match st.tree, parseFs? [x, y, z, d] with
      | some s, some [x, y, z, d] =>
          if itemsBelow s st.segs.size then (st, "ok " ++ fmtF (s.nearestSeg (segAt st.segs) (v3 x y z) d))
          else (st, "bad-op")
      | _, _ => (st, "bad-op")
  | ["nearest3", x, y, z, d] => match st.tree, parseFs? [x, y, z, d] with
      | some s, some [x, y, z, d] =>
          if itemsBelow s st.tris.size then (st, "ok " ++ fmtF (s.nearestTri (triAt st.tris) (v3 x y z) d))
          else (st, "bad-op")
      | _, _ => (st, "bad-op")
  | "wallbuild" :: k :: ws => match parseInts? ws with
      | some perm =>
          let go (ncell : Nat) (verts : Int → List (V3 F)) : St × String :=
            if perm.all (fun c => decide (0 ≤ c ∧ c < Int.ofNat ncell)) then
              match wallBuild (Int.ofNat ncell) verts perm with
              | (e, some s) => ({ st with tree := some s }, statusName e)
              | (e, none) => ({ st with tree := none }, statusName e)
            else (st, "bad-op")
          if k == "2" then go st.segs.size (fun c => let s := segAt st.segs c; [s.1, s.2])
          else if k == "3" then go st.tris.size (fun c => let t := triAt st.tris c; [t.1, t.2.1, t.2.2])
          else (st, "bad-op")
      | none => (st, "bad-op")
  | "walldist" :: k :: m :: ws => match m.toNat?, parseFs? ws with
      | some mask, some fs =>
          if mask < 1 || mask > 7 || fs.length % 3 != 0 || !(k == "2" || k == "3") then (st, "bad-op") else
          -- element i carries face id 1 + i%3; id j is a wall iff bit j-1 of mask is set
          let isWall (i : Nat) : Bool := (mask >>> (i % 3)) % 2 == 1
          let qs := ptsOf fs
          let fmt (ds : List F) := "ok" ++ String.join (ds.map fun d => " " ++ fmtF d)
          if k == "2" then
            let walls := ((List.range st.segs.size).filter isWall).map fun i => st.segs.getD i (zero3, zero3)
            let wa := walls.toArray
            match wallBuild (Int.ofNat wa.size) (fun c => let s := segAt wa c; [s.1, s.2])
                ((List.range wa.size).map Int.ofNat) with
            | (.ok, some s) => (st, fmt (qs.map fun x => s.nearestSeg (segAt wa) x dblMax))
            | (e, _) => (st, statusName e)
          else
            let walls := ((List.range st.tris.size).filter isWall).map fun i => st.tris.getD i (zero3, zero3, zero3)
            let wa := walls.toArray
            match wallBuild (Int.ofNat wa.size) (fun c => let t := triAt wa c; [t.1, t.2.1, t.2.2])
                ((List.range wa.size).map Int.ofNat) with
            | (.ok, some s) => (st, fmt (qs.map fun x => s.nearestTri (triAt wa) x dblMax))
            | (e, _) => (st, statusName e)
      | _, _ => (st, "bad-op")
  | "walldistq" :: m :: nqd :: ws => match m.toNat?, nqd.toNat?, parseFs? ws with
      | some mask, some nquad, some fs =>
          if mask < 1 || mask > 7 || nquad > 1000 || fs.length < 12 * nquad || (fs.length - 12 * nquad) % 3 != 0 then
            (st, "bad-op") else
          let isWall (i : Nat) : Bool := (mask >>> (i % 3)) % 2 == 1
          let qpts := (ptsOf (fs.take (12 * nquad))).toArray
          let quadAt (j : Nat) : V3 F × V3 F × V3 F × V3 F :=
            (qpts.getD (4 * j) zero3, qpts.getD (4 * j + 1) zero3, qpts.getD (4 * j + 2) zero3, qpts.getD (4 * j + 3) zero3)
          let qs := ptsOf (fs.drop (12 * nquad))
          let wtris := ((List.range st.tris.size).filter isWall).map fun i => st.tris.getD i (zero3, zero3, zero3)
          let wquads := ((List.range nquad).filter isWall).map quadAt
          let wa := (localWall3 wtris wquads).toArray
          let fmt (ds : List F) := "ok" ++ String.join (ds.map fun d => " " ++ fmtF d)
          match wallBuild (Int.ofNat wa.size) (fun c => let t := triAt wa c; [t.1, t.2.1, t.2.2])
              ((List.range wa.size).map Int.ofNat) with
          | (.ok, some s) => (st, fmt (qs.map fun x => s.nearestTri (triAt wa) x dblMax))
          | (e, _) => (st, statusName e)
      | _, _, _ => (st, "bad-op")
  | "d2" :: ws => match parseFs? ws with
      | some [a, b, c, d, e, f, x, y, z] => (st, fmtF (dist2seg (v3 a b c) (v3 d e f) (v3 x y z)))
      | _ => (st, "bad-op")
  | "d3" :: ws => match parseFs? ws with
      | some [a, b, c, d, e, f, g, h, i, x, y, z] =>
          (st, fmtF (dist2tri (v3 a b c) (v3 d e f) (v3 g h i) (v3 x y z)))
      | _ => (st, "bad-op")
  | "d3fixed" :: ws => match parseFs? ws with
      | some [a, b, c, d, e, f, g, h, i, x, y, z] =>
          (st, fmtF (dist2triFixed (v3 a b c) (v3 d e f) (v3 g h i) (v3 x y z)))
      | _ => (st, "bad-op")
  | "bspheren" :: ws => match parseFs? ws with
      | some fs =>
          if fs.length % 3 == 0 && fs.length ≥ 3 && fs.length ≤ 81 then
            -- the harness passes the node index list in reverse order of creation
            let (c, r) := boundingSphere (ptsOf fs).reverse
            (st, fmtFs [c.x, c.y, c.z, r])
          else (st, "bad-op")
      | none => (st, "bad-op")
  | "bsphere" :: ws => match parseFs? ws with
      | some fs =>
          if fs.length % 3 == 0 && fs.length ≥ 3 then
            let (c, r) := boundingSphere (ptsOf fs)
            (st, fmtFs [c.x, c.y, c.z, r])
          else (st, "bad-op")
      | none => (st, "bad-op")
  | _ => (st, "bad-op")

def run (_args : List String) : IO UInt32 := do
  runLoop ({} : St) step
  return 0

end Drivers.Search
