import Drivers.Proto
import Refine.Model.Containers
import Refine.Model.ContainersAdj
import Refine.Model.ContainersAdjCheck
import Refine.Model.ContainersCheck

/-! driver `containers`: ref_list / ref_dict / ref_adj / ref_sort models behind the line protocol
    (same op lines as `harness/h_containers.c`) -/
namespace Drivers.Containers
open Drivers.Proto Refine.Model Refine.Model.Sort

structure St where
  l : RList := RList.create
  d : RDict := RDict.create
  a : RAdj := RAdj.create

/-- decimal `REF_INT` (32-bit) / `REF_GLOB` (64-bit) literals; anything else is `bad-op` on both sides -/
def pI (w : String) : Option Int :=
  match w.toInt? with
  | some v => if -2147483648 ≤ v ∧ v ≤ 2147483647 then some v else none
  | none => none
def pG (w : String) : Option Int :=
  match w.toInt? with
  | some v => if -9223372036854775808 ≤ v ∧ v ≤ 9223372036854775807 then some v else none
  | none => none
def pIs (ws : List String) : Option (List Int) := ws.mapM pI
def pGs (ws : List String) : Option (List Int) := ws.mapM pG
/-- `rand()` values: 0 .. RAND_MAX -/
def pR (w : String) : Option Nat :=
  match w.toNat? with
  | some v => if v ≤ 2147483647 then some v else none
  | none => none

def b01 (b : Bool) : String := if b then "1" else "0"

def sp (xs : List String) : String := " ".intercalate xs

def fmtIntsPre (pre : String) (xs : List Int) : String :=
  if xs.isEmpty then pre else pre ++ " " ++ fmtInts xs

def fmtNatsPre (pre : String) (xs : List Nat) : String :=
  if xs.isEmpty then pre else pre ++ " " ++ fmtNats xs

/-- NaN-free lists are the inputs on which `ref_sort_search_dbl` is exercised (it may hang otherwise) -/
def nanFree (xs : List Float) : Bool := xs.all fun x => !x.isNaN

def interleave : List Int → List Int → List Int
  | k :: ks, v :: vs => k :: v :: interleave ks vs
  | _, _ => []

def stepSort (op : String) (args : List String) : Option String :=
  match op with
  | "isort" => (pIs args).map fun xs => fmtIntsPre "ok" (sortInsertion xs)
  | "hsort_int" => (pIs args).map fun xs => fmtNatsPre "ok" (sortHeapInt xs)
  | "hsort_glob" => (pGs args).map fun xs => fmtNatsPre "ok" (sortHeapGlob xs)
  | "hsort_dbl" => (parseFs? args).map fun xs => fmtNatsPre "ok" (sortHeapDbl xs)
  | "inplace_glob" => (pGs args).map fun xs => fmtIntsPre "ok" (sortInPlaceGlob xs)
  | "unique" => (pIs args).map fun xs =>
      let (nu, u) := uniqueInt xs
      fmtIntsPre s!"ok {nu}" (u.take (min nu xs.length))
  | "same" => match args with
      | n :: rest => match n.toNat?, pIs rest with
        | some n, some xs =>
          if xs.length ≠ 2 * n then some "bad-op"
          else some s!"ok {b01 (sortSame (xs.take n) (xs.drop n))}"
        | _, _ => none
      | _ => none
  | "search_int" | "search_glob" => match (if op = "search_int" then pIs args else pGs args) with
      | some (t :: xs) =>
        let (st, p) := if op = "search_int" then searchInt xs t else searchGlob xs t
        some s!"{st} {p}"
      | _ => none
  | "search_dbl" => match parseFs? args with
      | some (t :: xs) =>
        if !nanFree xs then some "nan-list"
        else match searchDbl leFloat ltFloat xs t with
          | some (st, p) => some s!"{st} {p}"
          | none => some "hang"
      | _ => none
  | "shuffle" => match args with
      | n :: rs => match n.toNat?, rs.mapM pR with
        | some n, some rs => if n > 100000 then none else some (fmtNatsPre "ok" (shuffle n rs))
        | _, _ => none
      | _ => none
  | "rand_in_range" => match args with
      | [lo, hi, r] => match pI lo, pI hi, pR r with
        | some lo, some hi, some r =>
          if hi - lo + 1 ≤ 0 ∨ hi - lo + 1 > 2147483647 then some "bad-op" else some (toString (randInRange lo hi r))
        | _, _, _ => none
      | _ => none
  | _ => none

def step (s : St) (line : String) : St × String :=
  match words line with
  | ["reset"] => ({}, "ok")
  -- list
  | ["lpush", x] => match pI x with
    | some x => let (l, st) := s.l.push x; ({ s with l }, st.name)
    | none => (s, "bad-op")
  | ["lpop"] => let (l, st, v) := s.l.pop; ({ s with l }, s!"{st} {v}")
  | ["lshift"] => let (l, st, v) := s.l.shift; ({ s with l }, s!"{st} {v}")
  | ["ldelete", x] => match pI x with
    | some x => let (l, st) := s.l.delete x; ({ s with l }, st.name)
    | none => (s, "bad-op")
  | ["lerase"] => let (l, st) := s.l.erase; ({ s with l }, st.name)
  | ["lcontains", x] => match pI x with
    | some x => let (st, b) := s.l.contains x; (s, s!"{st} {b01 b}")
    | none => (s, "bad-op")
  | ["lvalue", i] => match pI i with
    | some i => if 0 ≤ i ∧ i < s.l.n then (s, toString (s.l.value.getD i.toNat 0)) else (s, "range")
    | none => (s, "bad-op")
  | ["lcopy"] => ({ s with l := s.l.deepCopy }, "ok")
  | ["ldump"] => (s, fmtIntsPre s!"list {s.l.n} {s.l.max}" s.l.value)
  -- dict
  | ["dstore", k, v] => match pI k, pI v with
    | some k, some v => let (d, st) := s.d.store k v; ({ s with d }, st.name)
    | _, _ => (s, "bad-op")
  | ["dloc", k] => match pI k with
    | some k => let (st, p) := s.d.location k; (s, s!"{st} {p}")
    | none => (s, "bad-op")
  | ["dremove", k] => match pI k with
    | some k => let (d, st) := s.d.remove k; ({ s with d }, st.name)
    | none => (s, "bad-op")
  | ["dvalue", k] => match pI k with
    | some k => match s.d.valueOf k with
      | (st, some v) => (s, s!"{st} {v}")
      | (st, none) => (s, st.name)
    | none => (s, "bad-op")
  | ["dhaskey", k] => match pI k with
    | some k => (s, b01 (s.d.hasKey k))
    | none => (s, "bad-op")
  | ["dhasvalue", v] => match pI v with
    | some v => (s, b01 (s.d.hasValue v))
    | none => (s, "bad-op")
  | ["dkey", i] => match pI i with
    | some i => (s, toString (s.d.safeKey i))
    | none => (s, "bad-op")
  | ["dkeyvalue", i] => match pI i with
    | some i => (s, toString (s.d.safeKeyValue i))
    | none => (s, "bad-op")
  | ["dcopy"] => ({ s with d := s.d.deepCopy }, "ok")
  | ["ddump"] => (s, fmtIntsPre s!"dict {s.d.n} {s.d.max}" (interleave s.d.key s.d.value))
  -- adj
  | ["aadd", n, r] => match pI n, pI r with
    | some n, some r => let (a, st) := s.a.add n r; ({ s with a }, st.name)
    | _, _ => (s, "bad-op")
  | ["aremove", n, r] => match pI n, pI r with
    | some n, some r => let (a, st) := s.a.remove n r; ({ s with a }, st.name)
    | _, _ => (s, "bad-op")
  | ["aaddu", n, r] => match pI n, pI r with
    | some n, some r => let (a, st) := s.a.addUniquely n r; ({ s with a }, st.name)
    | _, _ => (s, "bad-op")
  | ["adegree", n] => match pI n with
    | some n => let (st, d) := s.a.degree n; (s, s!"{st} {d}")
    | none => (s, "bad-op")
  | ["aempty", n] => match pI n with
    | some n => (s, b01 (s.a.isEmpty n))
    | none => (s, "bad-op")
  | ["alist", n] => match pI n with
    | some n => (s, fmtIntsPre "refs" (s.a.refsOf n))
    | none => (s, "bad-op")
  | ["aitems", n] => match pI n with
    | some n => (s, fmtIntsPre "items" (s.a.itemsOf n))
    | none => (s, "bad-op")
  | ["amindeg"] => let (st, d, n) := s.a.minDegreeNode; (s, s!"{st} {d} {n}")
  | ["acopy"] => ({ s with a := s.a.deepCopy }, "ok")
  | ["adump"] =>
    (s, sp [s!"adj {s.a.nnode} {s.a.nitem} {s.a.blank}", fmtIntsPre "F" s.a.first,
            fmtIntsPre "N" s.a.next, fmtIntsPre "R" s.a.ref])
  | op :: args => match stepSort op args with
    | some r => (s, r)
    | none => (s, "bad-op")
  | [] => (s, "bad-op")

/-! ### `validate` mode: the model invariants evaluated on state dumps printed by the C harness -/

def splitAt? (ws : List String) (sep : String) : Option (List String × List String) :=
  match ws.span (· ≠ sep) with
  | (a, _ :: b) => some (a, b)
  | _ => none

def deinterleave : List Int → List Int × List Int
  | k :: v :: r => let (ks, vs) := deinterleave r; (k :: ks, v :: vs)
  | _ => ([], [])

/-- verdict for one dump line (`none`: not a dump line, no output) -/
def validateLine (line : String) : Option String :=
  match words line with
  | "adj" :: nnode :: nitem :: blank :: "F" :: rest =>
    match nnode.toNat?, nitem.toNat?, pI blank, splitAt? rest "N" with
    | some nnode, some nitem, some blank, some (f, rest2) =>
      match splitAt? rest2 "R" with
      | some (nx, rf) =>
        match pIs f, pIs nx, pIs rf with
        | some first, some next, some ref =>
          let s : RAdj := { first, next, ref, blank }
          if s.nnode ≠ nnode ∨ s.nitem ≠ nitem then some "bad adj nnode/nitem do not match the arrays"
          else if s.invCheck then some s!"ok adj {nnode} {nitem}"
          else some "bad adj RAdj.Inv is false on this state"
        | _, _, _ => some "bad adj unparsable"
      | none => some "bad adj unparsable"
    | _, _, _, _ => some "bad adj unparsable"
  | "dict" :: n :: max :: rest =>
    match n.toNat?, max.toNat?, pIs rest with
    | some n, some max, some kv =>
      let (key, value) := deinterleave kv
      let d : RDict := { max, key, value }
      if kv.length ≠ 2 * n then some "bad dict n does not match the arrays"
      else if d.invCheck then some s!"ok dict {n}"
      else some "bad dict RDict.Inv is false on this state"
    | _, _, _ => some "bad dict unparsable"
  | "list" :: n :: max :: rest =>
    match n.toNat?, max.toNat?, pIs rest with
    | some n, some max, some value =>
      let l : RList := { max, value }
      if l.n ≠ n then some "bad list n does not match the array"
      else if l.invCheck then some s!"ok list {n}"
      else some "bad list RList.Inv is false on this state"
    | _, _, _ => some "bad list unparsable"
  | _ => none

partial def validateLoop (h out : IO.FS.Stream) : IO Unit := do
  let line ← h.getLine
  if line.isEmpty then
    out.flush
    return ()
  match validateLine line with
  | some v => out.putStrLn v
  | none => pure ()
  validateLoop h out

def run (args : List String) : IO UInt32 := do
  match args with
  | ["validate"] =>
    validateLoop (← IO.getStdin) (← IO.getStdout)
    return 0
  | _ =>
    runLoop ({} : St) step
    return 0

end Drivers.Containers
