import Drivers.Proto
-- one import line per driver (union-merged)
import Drivers.Tables
import Drivers.Containers
import Drivers.Geom
import Drivers.Search
import Drivers.Matrix
import Drivers.Comm
import Drivers.NodeCell
import Drivers.Codec
import Drivers.Sol
import Drivers.Dist
import Drivers.Dist2
import Drivers.MeshOps
import Drivers.Cavity
import Drivers.Guards
import Drivers.Metric
import Drivers.Par
import Drivers.Interp
import Drivers.Gradation
import Drivers.Subdiv
import Drivers.Collapse
import Drivers.Quality
import Drivers.Unit
import Drivers.Kexact
import Drivers.SmoothInterp
import Drivers.InterpPack
import Drivers.Rcb
import Drivers.Ugrid
import Drivers.GatherMeshb
import Drivers.Repro
import Drivers.Mixed
import Drivers.ReconPar
import Drivers.PartMeshb
import Drivers.InterpLocate
import Drivers.PhysDist
import Drivers.MetricPipe
import Drivers.Formats
import Drivers.Cavity2

/-! `refdrv <driver> [args]` : dispatch to a line-protocol driver. One match arm per driver, on one line. -/

def main (args : List String) : IO UInt32 := do
  match args with
  | "tables" :: rest => Drivers.Tables.run rest
  | "containers" :: rest => Drivers.Containers.run rest
  | "geom" :: rest => Drivers.Geom.run rest
  | "search" :: rest => Drivers.Search.run rest
  | "matrix" :: rest => Drivers.Matrix.run rest
  | "comm" :: rest => Drivers.Comm.run rest
  | "nodecell" :: rest => Drivers.NodeCell.run rest
  | "codec" :: rest => Drivers.Codec.run rest
  | "sol" :: rest => Drivers.Sol.run rest
  | "dist" :: rest => Drivers.Dist.run rest
  | "dist2" :: rest => Drivers.Dist2.run rest
  | "meshops" :: rest => Drivers.MeshOps.run rest
  | "cavity" :: rest => Drivers.Cavity.run rest
  | "guards" :: rest => Drivers.Guards.run rest
  | "metric" :: rest => Drivers.Metric.run rest
  | "par" :: rest => Drivers.Par.run rest
  | "interp" :: rest => Drivers.Interp.run rest
  | "gradation" :: rest => Drivers.Gradation.run rest
  | "subdiv" :: rest => Drivers.Subdiv.run rest
  | "collapse" :: rest => Drivers.Collapse.run rest
  | "quality" :: rest => Drivers.Quality.run rest
  | "unit" :: rest => Drivers.Unit.run rest
  | "kexact" :: rest => Drivers.Kexact.run rest
  | "smoothinterp" :: rest => Drivers.SmoothInterp.run rest
  | "interppack" :: rest => Drivers.InterpPack.run rest
  | "rcb" :: rest => Drivers.Rcb.run rest
  | "ugrid" :: rest => Drivers.Ugrid.run rest
  | "gathermeshb" :: rest => Drivers.GatherMeshb.run rest
  | "repro" :: rest => Drivers.Repro.run rest
  | "mixed" :: rest => Drivers.Mixed.run rest
  | "reconpar" :: rest => Drivers.ReconPar.run rest
  | "partmeshb" :: rest => Drivers.PartMeshb.run rest
  | "interplocate" :: rest => Drivers.InterpLocate.run rest
  | "physdist" :: rest => Drivers.PhysDist.run rest
  | "metricpipe" :: rest => Drivers.MetricPipe.run rest
  | "formats" :: rest => Drivers.Formats.run rest
  | "cavity2" :: rest => Drivers.Cavity2.run rest
  | _ =>
    IO.eprintln s!"refdrv: unknown driver {args}"
    return 2
