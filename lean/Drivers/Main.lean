import Drivers.Proto
-- one import line per driver (union-merged)
import Drivers.Tables
import Drivers.Codec

/-! `refdrv <driver> [args]` : dispatch to a line-protocol driver. One match arm per driver, on one line. -/

def main (args : List String) : IO UInt32 := do
  match args with
  | "tables" :: rest => Drivers.Tables.run rest
  | "codec" :: rest => Drivers.Codec.run rest
  | _ =>
    IO.eprintln s!"refdrv: unknown driver {args}"
    return 2
