import Drivers.Proto
import Drivers.Comm
import Refine.Model.Par

/-!
  driver `par`: ownership guards and the gather of `Refine.Model.Par` behind the line protocol of
  `harness/h_par.c`.

  guards (one local configuration per line; `P` parts, cells flattened, node_per = 4 for tet, 3 for tri):
    local_gem      tet|tri me n0 n1 P p*P C node*(per*C)
    smooth_local   tet|tri me n     P p*P C node*(per*C)
    swap_local     me n0 n1 P p*P C node*(3*C)
    collapse_local me n0 n1 P p*P CT node*(4*CT) CR node*(3*CR)
  output `0|1` (or `bad-op`).

  gather (one World per line, one group per rank):
    gather_node np rbl N | K (global part x y z)*K | …       → `hang` | `<status> x y z …` (N records)
    gather_cell np per   | K (global part)*K C (g*per id)*C | … → `ok ncell rec…`
    gather_file np rbl N | K (global part x y z)*K CT (g g g id)*CT CQ (g g g g id)*CQ | …
                         → `hang` | `<status>` | `ok N xyz… ntri rec… ntet rec…`   (ref_gather_by_extension, .meshb)
-/
namespace Drivers.Par
open Drivers.Proto Refine.Model.Comm Refine.Model.Par

structure P3 where
  x : Float
  y : Float
  z : Float

def P3.add (a b : P3) : P3 := ⟨a.x + b.x, a.y + b.y, a.z + b.z⟩
def P3.zero : P3 := ⟨0.0, 0.0, 0.0⟩

def partFn (ps : List Nat) : Nat → Nat := fun n => ps.getD n 0

/-- split a flat list into tuples of `per` -/
def chunks {β : Type} (per : Nat) : Nat → List β → List (List β)
  | 0, _ => []
  | k + 1, xs => xs.take per :: chunks per k (xs.drop per)

def bit (b : Bool) : String := if b then "1" else "0"

/-- parse `P p*P rest…` -/
def takeCounted (ws : List Nat) : Option (List Nat × List Nat) :=
  match ws with
  | k :: rest => if rest.length < k then none else some (rest.take k, rest.drop k)
  | [] => none

def cellsOk (np : Nat) (cs : List (List Nat)) : Bool := cs.all fun c => c.all fun n => decide (n < np)

def perOf : String → Option Nat
  | "tet" => some 4
  | "tri" => some 3
  | _ => none

def guardOp (op : String) (ws : List String) : String :=
  let bad := "bad-op"
  match op, ws with
  | "local_gem", g :: rest | "smooth_local", g :: rest =>
    match perOf g, parseNats? rest with
    | some per, some xs =>
      let nfix := if op == "local_gem" then 3 else 2
      if xs.length < nfix then bad else
      let me := xs.getD 0 0
      let n0 := xs.getD 1 0
      let n1 := xs.getD 2 0
      match takeCounted (xs.drop nfix) with
      | some (ps, r1) =>
        match r1 with
        | c :: flat =>
          if flat.length != per * c then bad else
          let cells := chunks per c flat
          if !(cellsOk ps.length cells) || n0 ≥ ps.length || (op == "local_gem" && n1 ≥ ps.length) then bad else
          if op == "local_gem" then bit (cellLocalGem cells (partFn ps) me n0 n1)
          else bit (smoothLocalCellAbout cells (partFn ps) me n0)
        | [] => bad
      | none => bad
    | _, _ => bad
  | "swap_local", rest =>
    match parseNats? rest with
    | some (me :: n0 :: n1 :: r0) =>
      match takeCounted r0 with
      | some (ps, c :: flat) =>
        if flat.length != 3 * c then bad else
        let cells := chunks 3 c flat
        if !(cellsOk ps.length cells) || n0 ≥ ps.length || n1 ≥ ps.length then bad else
        bit (swapLocalCell cells (partFn ps) me n0 n1)
      | _ => bad
    | _ => bad
  | "collapse_local", rest =>
    match parseNats? rest with
    | some (me :: n0 :: n1 :: r0) =>
      match takeCounted r0 with
      | some (ps, ct :: r1) =>
        if r1.length < 4 * ct then bad else
        let tets := chunks 4 ct (r1.take (4 * ct))
        match r1.drop (4 * ct) with
        | cr :: flat =>
          if flat.length != 3 * cr then bad else
          let tris := chunks 3 cr flat
          if !(cellsOk ps.length tets) || !(cellsOk ps.length tris) || n0 ≥ ps.length || n1 ≥ ps.length then bad else
          bit (collapseEdgeLocalCell tets tris (partFn ps) me n0 n1)
        | [] => bad
      | _ => bad
    | _ => bad
  | _, _ => bad

/-! gather -/

def parseNodes : Nat → List String → Option (List (Node P3))
  | 0, [] => some []
  | 0, _ => none
  | k + 1, g :: p :: x :: y :: z :: rest =>
    match g.toNat?, p.toNat?, parseF? x, parseF? y, parseF? z, parseNodes k rest with
    | some g, some p, some x, some y, some z, some tl => some (⟨g, p, ⟨x, y, z⟩⟩ :: tl)
    | _, _, _, _, _, _ => none
  | _, _ => none

def distinctGlobals {α : Type} (nds : List (Node α)) : Bool :=
  let gs := nds.map (·.global)
  gs.eraseDups.length == gs.length

def nodeGroup (g : List String) : Option (RankView P3) :=
  match g with
  | k :: rest =>
    match k.toNat? with
    | some k =>
      if rest.length != 5 * k then none else
      match parseNodes k rest with
      | some nds => if distinctGlobals nds then some ⟨nds, []⟩ else none
      | none => none
    | none => none
  | [] => none

def INT_MAX_N : Nat := 2147483647

def gatherNodeOp (ws : List String) : String :=
  let bad := "bad-op"
  match ws with
  | nps :: rbls :: ns :: rest =>
    match nps.toNat?, rbls.toInt?, ns.toNat? with
    | some np, some rbl, some N =>
      if np == 0 || N > 100000 || rbl > 2147483647 || rbl < -2147483648 then bad else
      match Drivers.Comm.groupsOf np rest with
      | some gs =>
        match gs.mapM nodeGroup with
        | some w =>
          match gatherNode P3.add P3.zero rbl N w with
          | .hang => "hang"
          | .done st written =>
            Drivers.Comm.join (st.name :: written.flatMap fun p => [fmtF p.x, fmtF p.y, fmtF p.z])
        | none => bad
      | none => bad
    | _, _, _ => bad
  | _ => bad

def parsePairs : Nat → List Nat → List (Node Unit)
  | 0, _ => []
  | k + 1, g :: p :: rest => ⟨g, p, ()⟩ :: parsePairs k rest
  | _ + 1, _ => []

def parseCells (per : Nat) : Nat → List Int → List GCell
  | 0, _ => []
  | k + 1, xs => ⟨(xs.take per).map Int.toNat, (xs.drop per).headD 0⟩ :: parseCells per k (xs.drop (per + 1))

def cellGroup (per : Nat) (g : List String) : Option (RankView Unit) :=
  match parseInts? g with
  | some (k :: rest) =>
    if k < 0 || rest.length < 2 * k.toNat + 1 then none else
    let k := k.toNat
    let pairs := rest.take (2 * k)
    if pairs.any (· < 0) then none else
    let nds := parsePairs k (pairs.map Int.toNat)
    if !(distinctGlobals nds) then none else
    match rest.drop (2 * k) with
    | c :: flat =>
      if c < 0 || flat.length != (per + 1) * c.toNat then none else
      let cells := parseCells per c.toNat flat
      -- every cell node must be stored on the rank, globals non-negative, ids in REF_INT range
      let ok := cells.all fun cl => cl.nodes.all fun n => nds.any fun nd => nd.global == n
      let nonneg := (chunks (per + 1) c.toNat flat).all fun r => (r.take per).all (· ≥ 0)
      let idok := cells.all fun cl => decide (cl.id ≤ 2147483647 ∧ -2147483648 ≤ cl.id)
      if ok && nonneg && idok then some ⟨nds, cells⟩ else none
    | [] => none
  | _ => none

def gatherCellOp (ws : List String) : String :=
  let bad := "bad-op"
  match ws with
  | nps :: pers :: rest =>
    match nps.toNat?, pers.toNat? with
    | some np, some per =>
      if np == 0 || !(per == 2 || per == 3 || per == 4) then bad else
      match Drivers.Comm.groupsOf np rest with
      | some gs =>
        match gs.mapM (cellGroup per) with
        | some w =>
          let out := gatherCell w
          Drivers.Comm.join ("ok" :: toString (ncell w) :: (out.flatMap emit).map toString)
        | none => bad
      | none => bad
    | _, _ => bad
  | _ => bad


/-- `K (global part x y z)*K CT (g g g id)*CT CQ (g g g g id)*CQ` → the rank's nodes, triangles, tets -/
def fileGroup (g : List String) : Option (RankView P3 × RankView Unit × RankView Unit) :=
  match g with
  | k :: rest =>
    match k.toNat? with
    | some k =>
      if rest.length < 5 * k then none else
      match parseNodes k (rest.take (5 * k)) with
      | some nds =>
        if !(distinctGlobals nds) then none else
        let unds : List (Node Unit) := nds.map fun nd => ⟨nd.global, nd.part, ()⟩
        match parseInts? (rest.drop (5 * k)) with
        | some (ct :: r1) =>
          if ct < 0 || r1.length < 4 * ct.toNat + 1 then none else
          let triFlat := r1.take (4 * ct.toNat)
          match r1.drop (4 * ct.toNat) with
          | cq :: tetFlat =>
            if cq < 0 || tetFlat.length != 5 * cq.toNat then none else
            let tris := parseCells 3 ct.toNat triFlat
            let tets := (parseCells 4 cq.toNat tetFlat).map fun c => { c with id := 0 }
            let stored := fun (cl : GCell) => cl.nodes.all fun n => unds.any fun nd => nd.global == n
            let nonneg := (chunks 4 ct.toNat triFlat).all (fun r => (r.take 3).all (· ≥ 0)) &&
              (chunks 5 cq.toNat tetFlat).all (fun r => (r.take 4).all (· ≥ 0))
            let idok := (chunks 4 ct.toNat triFlat ++ chunks 5 cq.toNat tetFlat).all fun r =>
              decide (r.getLastD 0 ≤ 2147483647 ∧ -2147483648 ≤ r.getLastD 0)
            if tris.all stored && tets.all stored && nonneg && idok then
              some (⟨nds, []⟩, ⟨unds, tris⟩, ⟨unds, tets⟩)
            else none
          | [] => none
        | _ => none
      | none => none
    | none => none
  | [] => none

/-- ref_gather_by_extension(grid, "x.meshb"): vertices (ref_gather_node), then per non-empty group its cells
    (ref_cell_ncell, ref_gather_cell): triangles before tets -/
def gatherFileOp (ws : List String) : String :=
  let bad := "bad-op"
  match ws with
  | nps :: rbls :: ns :: rest =>
    match nps.toNat?, rbls.toInt?, ns.toNat? with
    | some np, some rbl, some N =>
      if np == 0 || N > 100000 || rbl > 2147483647 || rbl < -2147483648 then bad else
      match Drivers.Comm.groupsOf np rest with
      | some gs =>
        match gs.mapM fileGroup with
        | some ws3 =>
          match gatherNode P3.add P3.zero rbl N (ws3.map (·.1)) with
          | .hang => "hang"
          | .done st written =>
            if st != Status.ok then st.name else
            let tris := gatherCell (ws3.map (·.2.1))
            let tets := gatherCell (ws3.map (·.2.2))
            Drivers.Comm.join (["ok", toString N] ++ (written.flatMap fun p => [fmtF p.x, fmtF p.y, fmtF p.z])
              ++ [toString tris.length] ++ (tris.flatMap emit).map toString
              ++ [toString tets.length] ++ (tets.flatMap emit).map toString)
        | none => bad
      | none => bad
    | _, _, _ => bad
  | _ => bad

def step (_ : Unit) (line : String) : Unit × String :=
  match words line with
  | [] => ((), "bad-op")
  | "gather_node" :: rest => ((), gatherNodeOp rest)
  | "gather_cell" :: rest => ((), gatherCellOp rest)
  | "gather_file" :: rest => ((), gatherFileOp rest)
  | op :: rest => ((), guardOp op rest)

def run (_ : List String) : IO UInt32 := do
  runLoop () step
  return 0

end Drivers.Par
