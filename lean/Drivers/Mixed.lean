import Drivers.Proto
import Drivers.Guards
import Refine.Model.Mixed

/-! driver `mixed`: the mixed-element guards, the guarded simplex kernels on a grid with all cell groups, the cavity
    gates and the smoother's freeze test (`Refine/Model/Mixed.lean`) against `harness/h_mixed.c`.

    Function level (stateless, the op-line format of driver `guards`):
      `<op> i0 i1 i2 i3 <w:hex> nn <3*nn hex xyz> ncell <cells>`
      `smixed|cmixed|wmixed|vmixed` -> `ok 0|1`;  `split|collapse|swap` -> `ok blocked` | `ok done <status> | <dump>`;
      `cform` (i3 = which `ref_cavity_form_*`) / `cenl` (face i0 i1 i2) -> `ok gate 0|1`.
    `refdrv mixed validate` judges the records of the real smoother (`sm`, `sp`) and of hooked real passes (`rec`,
    `done`) with the model's predicates (see `vstep`). -/
namespace Drivers.Mixed
open Drivers.Proto Drivers.Guards Refine Refine.Model Refine.Model.Geom Refine.Model.Guards Refine.Model.Mixed

abbrev Pt := V3 Float

def mkMesh (o : Op) : Mesh Pt := ⟨o.g, (List.range o.nn).zip o.xyz⟩

def allCells (g : Grid) : List Cell := g.edg ++ g.tri ++ g.qua ++ g.tet ++ g.pyr ++ g.pri ++ g.hex

/-- the harness refuses a cell that repeats a vertex -/
def nondegenerate (g : Grid) : Bool := (allCells g).all fun c => decide c.nodes.Nodup

/-- lexicographic `<` on rows -/
def rowLt : List Int → List Int → Bool
  | [], [] => false
  | [], _ :: _ => true
  | _ :: _, [] => false
  | a :: as, b :: bs => if a < b then true else if b < a then false else rowLt as bs

def insertRow (r : List Int) : List (List Int) → List (List Int)
  | [] => [r]
  | x :: xs => if rowLt x r then x :: insertRow r xs else r :: x :: xs

def sortRows (rs : List (List Int)) : List (List Int) := rs.foldr insertRow []

def rowOf (withId : Bool) (c : Cell) : List Int :=
  (c.nodes.map Int.ofNat) ++ (if withId then [c.id] else [])

def fmtRow (r : List Int) : String := ",".intercalate (r.map toString)

def fmtGroup (name : String) (withId sorted : Bool) (cs : List Cell) : String :=
  let rows := cs.map (rowOf withId)
  let rows := if sorted then sortRows rows else rows
  " | " ++ name ++ String.join (rows.map fun r => " " ++ fmtRow r)

def fmtDump (m : Mesh Pt) : String :=
  " | N" ++ String.join (m.pts.map fun q => s!" {q.1}:" ++ fmtF q.2.x ++ ":" ++ fmtF q.2.y ++ ":" ++ fmtF q.2.z) ++
  fmtGroup "edg" true true m.g.edg ++ fmtGroup "tri" true true m.g.tri ++ fmtGroup "qua" true false m.g.qua ++
  fmtGroup "tet" false true m.g.tet ++ fmtGroup "pyr" false false m.g.pyr ++ fmtGroup "pri" false false m.g.pri ++
  fmtGroup "hex" false false m.g.hex

def midpoint (o : Op) (n0 n1 : Nat) : Pt :=
  let a := pt o.xyz n0
  let b := pt o.xyz n1
  ⟨0.5 * (a.x + b.x), 0.5 * (a.y + b.y), 0.5 * (a.z + b.z)⟩

def fmtKernel (r : Bool × Status × Mesh Pt) : String :=
  if !r.1 then "ok blocked" else "ok done " ++ r.2.1.name ++ fmtDump r.2.2

def step (_ : Unit) (line : String) : Unit × String :=
  let r : String :=
    match words line with
    | [] => "bad-op"
    | op :: rest =>
      match parseOp rest with
      | none => "bad-op"
      | some o =>
        if !nondegenerate o.g then "bad-op" else
        let n0 := o.i0
        let n1 := o.i1
        if n0 ≥ o.nn || n1 ≥ o.nn || o.i2 ≥ o.nn || o.i3 ≥ o.nn + 8 then "bad-op" else
        let m := mkMesh o
        match op with
        | "cmixed" => "ok " ++ b01 (collapseEdgeMixed o.g n0 n1)
        | "smixed" => "ok " ++ b01 (splitEdgeMixed o.g n0 n1)
        | "wmixed" => "ok " ++ b01 (swapEdgeMixed o.g n0 n1)
        | "vmixed" => "ok " ++ b01 (cavityMixed o.g n0 n1)
        | "split" => fmtKernel (guardedSplit m n0 n1 o.nn (midpoint o n0 n1))
        | "collapse" => fmtKernel (guardedCollapse m n0 n1)
        | "swap" => fmtKernel (guardedSwap m n0 n1)
        | "cform" => if o.i3 > 6 then "bad-op" else "ok gate " ++ b01 (cavityFormGate o.g)
        | "cenl" =>
          if n0 == n1 || n0 == o.i2 || n1 == o.i2 then "bad-op"
          else "ok gate " ++ b01 (cavityFaceGate o.g [n0, n1, o.i2])
        | _ => "bad-op"
  ((), r)

/-! ## validate mode -/

/-- split a word list at the `|` separators -/
def sections (ws : List String) : List (List String) :=
  let r := ws.foldl (fun (acc : List (List String) × List String) w =>
    if w == "|" then (acc.1 ++ [acc.2], []) else (acc.1, acc.2 ++ [w])) ([], [])
  r.1 ++ [r.2]

def parseNatList (s : String) (sep : String) : Option (List Nat) := (s.splitOn sep).mapM String.toNat?

/-- `n:e:m` -/
def parseVisit (s : String) : Option (Nat × Bool × Bool) :=
  match parseNatList s ":" with
  | some [n, e, m] => some (n, e != 0, m != 0)
  | _ => none

/-- `a,b,c,d:low` -/
def parseLow (s : String) : Option (List Nat × Bool) :=
  match s.splitOn ":" with
  | [ns, f] =>
    match parseNatList ns ",", f.toNat? with
    | some l, some k => some (l, k != 0)
    | _, _ => none
  | _ => none

def touchesFrozen (g : Grid) (n : Nat) : Bool := !nodeEmpty g.qua n || nodeTouchesMixed g n

def judgeVisit (g : Grid) (v : Nat × Bool × Bool) : Option String :=
  let frozen := smoothTetFrozen g v.1
  if frozen && v.2.1 then some s!"ref_smooth_tet_improve went past its early exits on the frozen vertex {v.1}"
  else if frozen && v.2.2 then some s!"frozen vertex {v.1} moved"
  else if !frozen && !nodeEmpty g.tet v.1 && !v.2.1 then some s!"ref_smooth_tet_improve returned early on the free vertex {v.1}"
  else none

def vSm (e m : String) (opw : List String) : String :=
  match parseOp opw with
  | none => "bad sm parse"
  | some o =>
    if o.i0 ≥ o.nn then "bad sm parse" else
    match judgeVisit o.g (o.i0, e != "0", m != "0") with
    | some msg => "bad sm " ++ msg
    | none => if smoothTetFrozen o.g o.i0 then "ok sm frozen" else "ok sm free " ++ m

def vSp (vis bnd low opw : List String) : String :=
  match parseOp opw, vis.mapM parseVisit, bnd.mapM String.toNat?, low.mapM parseLow with
  | some o, some vs, some bs, some ls =>
    let g := o.g
    -- the quality loop visits the tets in cell order
    if ls.map (·.1) != g.tet.map (·.nodes) then "bad sp the low-quality loop did not visit the tets in cell order" else
    let expect := passInterior g (List.range o.nn) ++ passLowQuality g (ls.map (·.2))
    if vs.map (·.1) != expect then
      "bad sp vertices offered to ref_smooth_tet_improve: " ++ fmtNats (vs.map (·.1)) ++ " model: " ++ fmtNats expect
    else
      match vs.findSome? (judgeVisit g) with
      | some msg => "bad sp " ++ msg
      | none =>
        match bs.find? (touchesFrozen g) with
        | some b => s!"bad sp boundary smoother moved vertex {b} of a non-simplex cell"
        | none => s!"ok sp {vs.length} visits {(ls.filter (·.2)).length} low"
  | _, _, _, _ => "bad sp parse"

/-- `rows` of one star group: `a,b,c[,id]` -/
def parseRows (withId : Bool) (ws : List String) : Option (List Cell) :=
  ws.mapM fun w =>
    match (w.splitOn ",").mapM String.toInt? with
    | some r =>
      if withId then
        match r.reverse with
        | i :: ns => some ⟨ns.reverse.map Int.toNat, i⟩
        | [] => none
      else some ⟨r.map Int.toNat, 0⟩
    | none => none

def starOf (secs : List (List String)) : Option Grid :=
  secs.foldlM (fun (g : Grid) sec =>
    match sec with
    | "edg" :: ws => (parseRows true ws).map fun cs => { g with edg := cs }
    | "tri" :: ws => (parseRows true ws).map fun cs => { g with tri := cs }
    | "qua" :: ws => (parseRows true ws).map fun cs => { g with qua := cs }
    | "tet" :: ws => (parseRows false ws).map fun cs => { g with tet := cs }
    | "pyr" :: ws => (parseRows false ws).map fun cs => { g with pyr := cs }
    | "pri" :: ws => (parseRows false ws).map fun cs => { g with pri := cs }
    | "hex" :: ws => (parseRows false ws).map fun cs => { g with hex := cs }
    | _ => none) {}

def kvOf (ws : List String) (k : String) : String :=
  match ws.find? fun w => w.startsWith (k ++ "=") with
  | some w => (w.drop (k.length + 1)).toString
  | none => ""

def vRec (head : List String) (secs : List (List String)) : String :=
  match head, starOf secs with
  | phase :: kind :: a :: b :: c :: kvs, some g =>
    match a.toInt?, b.toInt?, c.toInt? with
    | some i0, some i1, some i2 =>
      let n0 := i0.toNat
      let n1 := i1.toNat
      let valid := (kvOf kvs "valid").toList
      let touched := ([i0, i1, i2].zip valid).filterMap fun (v, ok) => if ok == '1' && v ≥ 0 then some v.toNat else none
      if kvOf kvs "frozen" != "1" then "bad rec non-simplex cells or their vertex coordinates changed" else
      if phase == "begin" && kind == "split_edge" && !splitEdgeMixed g n0 n1 then
        "bad rec ref_split_edge on an edge the model's ref_split_edge_mixed refuses"
      else if phase == "begin" && kind == "collapse_edge" && !collapseEdgeMixed g n0 n1 then
        "bad rec ref_collapse_edge removes a vertex the model's ref_collapse_edge_mixed protects"
      else if phase == "begin" && kind == "swap_tri_edge" && !swapEdgeMixed g n0 n1 then
        "bad rec ref_swap_tri_edge on an edge the model's ref_swap_edge_mixed refuses"
      else if phase == "begin" && kind == "cavity_replace" && (kvOf kvs "npyr" != "0" || kvOf kvs "npri" != "0") then
        "bad rec cavity replacement although the form gate (pyramids / prisms present) holds"
      else if phase == "end" && kind == "smooth_tet" then
        (match judgeVisit g (n0, kvOf kvs "entered" == "1", kvOf kvs "moved" == "1") with
         | some msg => "bad rec " ++ msg
         | none => "ok rec smooth_tet")
      else if phase == "end" && kvOf kvs "moved" == "1" && touchesFrozen g n0 then
        "bad rec boundary smoother moved a vertex of a non-simplex cell"
      else if phase == "accept" && kvOf kvs "twod" != "1" && !conformingAt g touched then
        "bad rec star of an accepted operation not conforming to a triangular face of a pyramid / prism"
      else if phase == "accept" && kvOf kvs "twod" == "1" && !conformingAt2 g touched then
        "bad rec star of an accepted 2-D operation not conforming to a side of a quadrilateral"
      else "ok rec " ++ phase ++ " " ++ kind
    | _, _, _ => "bad rec parse"
  | _, _ => "bad rec parse"

def vstep (_ : Unit) (line : String) : Unit × String :=
  let secs := sections (words line)
  let r : String :=
    match secs with
    | ["sm", e, m] :: opw :: [] => vSm e m opw
    | ["sp"] :: ("V" :: vis) :: ("B" :: bnd) :: ("Q" :: low) :: opw :: [] => vSp vis bnd low opw
    | ("rec" :: head) :: rest => vRec head rest
    | ("skip" :: _) :: _ => "ok skip"
    | ("done" :: st :: kvs) :: _ =>
      if st == "bad-op" then "ok done bad-op"
      else if st != "ok" then "bad done a pass failed with " ++ st
      else if kvOf kvs "frozen_bad" != "0" || kvOf kvs "frozen_end" != "1" then
        "bad done non-simplex cells changed during the run"
      else "ok done"
    | _ => "bad line"
  ((), r)

def run (args : List String) : IO UInt32 := do
  match args with
  | ["validate"] => runLoop () vstep
  | _ => runLoop () step
  return 0

end Drivers.Mixed
