import Drivers.Proto
import Refine.Model.Rcb

/-!
  driver `rcb`: `Refine.Model.Rcb` behind the line protocol of `harness/h_rcb.c` (see the op list there).
  One op line carries the data of all ranks: `op np header… | rank-0 group | rank-1 group | …`; the output is
  the per-rank results joined by ` | `.
-/
namespace Drivers.Rcb
open Drivers.Proto Refine Refine.Model.Comm Refine.Model.Geom Refine.Model.Rcb

def splitBar (ws : List String) : List (List String) :=
  let r := ws.foldr (fun t (acc : List String × List (List String)) =>
    if t == "|" then ([], acc.1 :: acc.2) else (t :: acc.1, acc.2)) ([], [])
  r.1 :: r.2

def groupsOf (np : Nat) (rest : List String) : Option (List (List String)) :=
  match splitBar rest with
  | [] :: gs => if gs.length == np && np ≥ 1 then some gs else none
  | _ => none

def fmtWorld (rs : List String) : String := " | ".intercalate rs
def join (ws : List String) : String := " ".intercalate ws

def natTok (maxLen : Nat) (s : String) : Option Nat :=
  if s.length == 0 || s.length > maxLen || !s.all Char.isDigit then none else s.toNat?

def intTok (maxLen : Nat) (s : String) : Option Int :=
  if s.length == 0 || s.length > maxLen then none else
  let body : String := if s.startsWith "-" then (s.drop 1).toString else s
  if body.length == 0 || !body.all Char.isDigit then none else s.toInt?

def LIM : Nat := 1000000000

/-- `glob,part[,age],x,y,z` -/
def parseNode (np : Nat) (withAge : Bool) (tok : String) : Option (PNode Float × Int) :=
  let f := tok.splitOn ","
  let nf := if withAge then 6 else 5
  if f.length != nf then none else
  match natTok 9 (f.getD 0 ""), natTok 6 (f.getD 1 "") with
  | some g, some p =>
    if g ≥ LIM || p ≥ np then none else
    let age? : Option Nat := if withAge then natTok 6 (f.getD 2 "") else some 0
    match age?, parseF? (f.getD (nf - 3) ""), parseF? (f.getD (nf - 2) ""), parseF? (f.getD (nf - 1) "") with
    | some a, some x, some y, some z => some (⟨(g : Int), (p : Int), ⟨x, y, z⟩⟩, (a : Int))
    | _, _, _, _ => none
  | _, _ => none

def sortedNodup (xs : List Int) : Bool :=
  let s := xs.mergeSort (fun a b => decide (a ≤ b))
  (s.zip (s.drop 1)).all fun ab => ab.1 != ab.2

/-- the world checks of `parse_world` in the harness -/
def validWorld (w : World (List (PNode Float))) : Bool :=
  let owned : List Int := (w.zipIdx.map fun x => (x.1.filter fun nd => nd.part == (x.2 : Int)).map (·.glob)).flatten
  (w.all fun nodes => sortedNodup (nodes.map (·.glob)))
  && sortedNodup owned
  && (w.zipIdx.all fun x => x.1.all fun nd =>
        nd.part == (x.2 : Int) ||
        ((w.getD nd.part.toNat []).any fun o => o.glob == nd.glob && o.part == nd.part))

def parseWorld (np : Nat) (withAge : Bool) (gs : List (List String)) : Option (World (List (PNode Float × Int))) :=
  match gs.mapM fun g => g.mapM (parseNode np withAge) with
  | none => none
  | some w => if validWorld (w.map fun l => l.map (·.1)) then some w else none

/-- `nr r1 … rnr` = the whole remaining header -/
def parseRands (hdr : List String) : Option (List Nat) :=
  match hdr with
  | [] => none
  | n :: rest =>
    match natTok 3 n with
    | none => none
    | some nr =>
      if nr > 16 || rest.length != nr then none else
      rest.mapM fun t => match natTok 10 t with
        | some v => if v > 2147483647 then none else some v
        | none => none

def opRatio (ws : List String) : String :=
  match ws with
  | [n] =>
    match intTok 9 n with
    | some n =>
      let r : Status × Float := splitRatio n
      join [r.1.name, fmtF r.2]
    | none => "bad-op"
  | _ => "bad-op"

def opSplitdir (hdr : List String) (gs : List (List String)) : String :=
  if hdr.length != 9 then "bad-op" else
  match hdr.mapM parseF? with
  | none => "bad-op"
  | some t =>
    let pts? : Option (World (List (V3 Float))) := gs.mapM fun g => g.mapM fun tok =>
      match tok.splitOn "," with
      | [a, b, c] =>
        match parseF? a, parseF? b, parseF? c with
        | some x, some y, some z => some (⟨x, y, z⟩ : V3 Float)
        | _, _, _ => none
      | _ => none
    match pts? with
    | none => "bad-op"
    | some pts =>
      let m : M9 Float := ⟨t.getD 0 0, t.getD 1 0, t.getD 2 0, t.getD 3 0, t.getD 4 0, t.getD 5 0, t.getD 6 0,
        t.getD 7 0, t.getD 8 0⟩
      let d := splitDir m pts
      fmtWorld (pts.map fun _ => join ["ok", toString d])

def opNewpart (np : Nat) (hdr : List String) (gs : List (List String)) : String :=
  match hdr with
  | m :: npart :: seed :: twod :: _kind :: rest =>
    match natTok 2 m, intTok 6 npart, natTok 10 seed, natTok 1 twod, parseRands rest with
    | some method, some npart, some seed, some twod, some rands =>
      if twod > 1 || npart > (np : Int) || seed > 2000000000 then "bad-op" else
      match parseWorld np false gs with
      | none => "bad-op"
      | some wa =>
        let w : World (List (PNode Float)) := wa.map fun l => l.map (·.1)
        let isRcb : Bool := !(decide (w.length ≤ 1) || decide (npart < 2)) && method != 1 && method < 6
        match newPartGhost (α := Float) method npart (seed : Int) (twod == 1) rands w with
        | none => "hang"
        | some (st, parts) =>
          let seed' : Int := if isRcb then nextSeed (seed : Int) else (seed : Int)
          fmtWorld (parts.zipIdx.map fun x =>
            let used : Nat := if isRcb && x.2 == 0 then randsUsed (twod == 1) else 0
            if st == Status.ok then join ([st.name, toString seed', toString used] ++ x.1.map toString)
            else join [st.name, toString seed', toString used])
    | _, _, _, _, _ => "bad-op"
  | _ => "bad-op"

/-- `max_age` of `ref_migrate_to_balance` after `ref_node_collect_ghost_age` (ghost ages are added to the owner's
    and zeroed): `MAX(0, …)` over the stored vertices of all ranks -/
def maxAge (wa : World (List (PNode Float × Int))) : Int :=
  let all : List (PNode Float × Int) := wa.flatten
  let ownedAges : List Int := (wa.zipIdx.map fun x =>
    (x.1.filter fun na => na.1.part == (x.2 : Int)).map fun na =>
      isum ((all.filter fun o => o.1.glob == na.1.glob).map (·.2))).flatten
  ownedAges.foldl (fun a b => if a > b then a else b) 0

def opBalance (np : Nat) (hdr : List String) (gs : List (List String)) : String :=
  match hdr with
  | m :: full :: nglobal :: seed :: twod :: _kind :: rest =>
    match natTok 2 m, natTok 1 full, natTok 9 nglobal, natTok 10 seed, natTok 1 twod, parseRands rest with
    | some method, some full, some nglobal, some seed, some twod, some rands =>
      if twod > 1 || full > 1 || method > 5 || seed > 2000000000 then "bad-op" else
      match parseWorld np true gs with
      | none => "bad-op"
      | some wa =>
        if wa.any (fun l => l.any fun na => na.1.glob ≥ (nglobal : Int)) then "bad-op" else
        let w : World (List (PNode Float)) := wa.map fun l => l.map (·.1)
        let npart := balanceNpart (full == 1) np (nglobal : Int) (maxAge wa)
        match newPartGhost (α := Float) method npart (seed : Int) (twod == 1) rands w with
        | none => "hang"
        | some (st, parts) =>
          if st != Status.ok then fmtWorld (w.map fun _ => st.name) else
          -- `ref_migrate_shufflin` on a grid without cells: rank r ends up with exactly the vertices whose new
          -- part is r (ghost copies have no cell to keep them)
          let owned : List (Int × Int) := ((w.zip parts).zipIdx.map fun x =>
            ((x.1.1.zip x.1.2).filter fun np' => np'.1.part == (x.2 : Int)).map fun np' => (np'.1.glob, np'.2)).flatten
          let sorted := owned.mergeSort (fun a b => decide (a.1 ≤ b.1))
          fmtWorld ((List.range np).map fun (r : Nat) =>
            join ("ok" :: (sorted.filter fun gp => gp.2 == (r : Int)).map fun gp => s!"{gp.1}:{gp.2}"))
    | _, _, _, _, _, _ => "bad-op"
  | _ => "bad-op"

def step (_ : Unit) (line : String) : Unit × String :=
  let ws := words line
  let r : String :=
    match ws with
    | "ratio" :: rest => opRatio rest
    | op :: nps :: rest =>
      match natTok 6 nps with
      | none => "bad-op"
      | some np =>
        let hdr := rest.takeWhile (· != "|")
        let body := rest.dropWhile (· != "|")
        match groupsOf np body with
        | none => "bad-op"
        | some gs =>
          match op with
          | "splitdir" => opSplitdir hdr gs
          | "newpart" => opNewpart np hdr gs
          | "balance" => opBalance np hdr gs
          | _ => "bad-op"
    | _ => "bad-op"
  ((), r)

def run (_ : List String) : IO UInt32 := do
  runLoop () step
  return 0

end Drivers.Rcb
