import Drivers.Proto
import Refine.Model.Matrix

/-! driver `matrix`: the symmetric-matrix kernel at the `Float` instance (bit-compared with `h_matrix.c`).
    Every op prints `ok <hex doubles…>` or the REF_STATUS name of the error branch. -/
namespace Drivers.Matrix
open Drivers.Proto Refine Refine.Model.Matrix

def m6? : List Float → Option (M6 Float)
  | [a, b, c, d, e, f] => some ⟨a, b, c, d, e, f⟩
  | _ => none

def m3? : List Float → Option (M3 Float)
  | [a, b, c] => some ⟨a, b, c⟩
  | _ => none

def v3? : List Float → Option (Vec3 Float)
  | [a, b, c] => some ⟨a, b, c⟩
  | _ => none

def eig12? : List Float → Option (Eig12 Float)
  | [a, b, c, d, e, f, g, h, i, j, k, l] => some ⟨a, b, c, d, e, f, g, h, i, j, k, l⟩
  | _ => none

def eig6? : List Float → Option (Eig6 Float)
  | [a, b, c, d, e, f] => some ⟨a, b, c, d, e, f⟩
  | _ => none

/-- flat C order `a[i+3k]` -/
def m33? : List Float → Option (M33 Float)
  | [a0, a1, a2, a3, a4, a5, a6, a7, a8] => some ⟨⟨a0, a3, a6⟩, ⟨a1, a4, a7⟩, ⟨a2, a5, a8⟩⟩
  | _ => none

def okLine (xs : List Float) : String :=
  if xs.isEmpty then "ok" else "ok " ++ fmtFs xs

def res {β : Type} (r : Except Err β) (f : β → List Float) : String :=
  match r with
  | .ok b => okLine (f b)
  | .error e => e.name

def evalOp (op : String) (xs : List Float) : String :=
  let bad := "bad-op"
  match op with
  | "diag_m" => match m6? xs with
      | some m => res (diagM m) Eig12.toList | none => bad
  | "diag_m2" => match m3? xs with
      | some m => res (diagM2 m) Eig6.toList | none => bad
  | "descending_eig" => match eig12? xs with
      | some d => okLine (descendingEig d).toList | none => bad
  | "descending_eig_twod" => match eig12? xs with
      | some d => res (descendingEigTwod d) Eig12.toList | none => bad
  | "form_m" => match eig12? xs with
      | some d => okLine (formM d).toList | none => bad
  | "form_m2" => match eig6? xs with
      | some d => okLine (formM2 d).toList | none => bad
  | "jacob_m" => match m6? xs with
      | some m => res (jacobM m) M33.toFlat | none => bad
  | "inv_m" => match m6? xs with
      | some m => res (invM m) M6.toList | none => bad
  | "inv_gen3" => match m33? xs with
      | some a => res (invGen3 a) M33.toFlat | none => bad
  | "det_m" => match m6? xs with
      | some m => okLine [detM m] | none => bad
  | "det_gen3" => match m33? xs with
      | some a => okLine [detGen3 a] | none => bad
  | "det_m2" => match m3? xs with
      | some m => okLine [detM2 m] | none => bad
  | "log_m" => match m6? xs with
      | some m => res (logM m) M6.toList | none => bad
  | "exp_m" => match m6? xs with
      | some m => res (expM m) M6.toList | none => bad
  | "sqrt_m" => match m6? xs with
      | some m => res (sqrtM m) (fun p => p.1.toList ++ p.2.toList) | none => bad
  | "healthy_m" => match m6? xs with
      | some m => res (healthyM m) (fun _ => []) | none => bad
  | "twod_m" => match m6? xs with
      | some m => okLine (twodM m).toList | none => bad
  | "mult_m0m1m0" => match m6? (xs.take 6), m6? (xs.drop 6) with
      | some a, some b => okLine (multM0M1M0 a b).toList | _, _ => bad
  | "mult_m" => match m6? (xs.take 6), m6? (xs.drop 6) with
      | some a, some b => okLine (multM a b).toFlat | _, _ => bad
  | "weight_m" => match m6? (xs.take 6), m6? ((xs.drop 6).take 6), xs.drop 12 with
      | some a, some b, [w] => okLine (weightM a b w).toList | _, _, _ => bad
  | "intersect" => match m6? (xs.take 6), m6? (xs.drop 6) with
      | some a, some b => res (intersect a b) M6.toList | _, _ => bad
  | "bound" => match m6? (xs.take 6), m6? (xs.drop 6) with
      | some a, some b => res (bound a b) M6.toList | _, _ => bad
  | "vt_m_v" => match m6? (xs.take 6), v3? (xs.drop 6) with
      | some m, some v => okLine [vtMv m v] | _, _ => bad
  | "sqrt_vt_m_v" => match m6? (xs.take 6), v3? (xs.drop 6) with
      | some m, some v => okLine [sqrtVtMv m v] | _, _ => bad
  | "vt_m_v_deriv" => match m6? (xs.take 6), v3? (xs.drop 6) with
      | some m, some v => let r := vtMvDeriv m v; okLine [r.1, r.2.x, r.2.y, r.2.z] | _, _ => bad
  | "sqrt_vt_m_v_deriv" => match m6? (xs.take 6), v3? (xs.drop 6) with
      | some m, some v => let r := sqrtVtMvDeriv m v; okLine [r.1, r.2.x, r.2.y, r.2.z] | _, _ => bad
  | _ => bad

def step (_ : Unit) (line : String) : Unit × String :=
  match words line with
  | op :: args => match parseFs? args with
      | some xs => ((), evalOp op xs)
      | none => ((), "bad-op")
  | [] => ((), "bad-op")

def run (_ : List String) : IO UInt32 := do
  runLoop () step
  return 0

end Drivers.Matrix
