import Drivers.Proto
import Refine.Model.Quality

/-! driver `quality`: cell quality in the metric and its node-0 derivative at the `Float` instance.
    Stateless ops (16-hex-digit doubles):
    * `tet <epic|jac|other> <min_volume> <x0 m0 x1 m1 x2 m2 x3 m3>`  (3 + 6 words per vertex)
    * `tri <epic|jac|other> <d0 d1 d2> <x0 m0 x1 m1 x2 m2>`         (`d*`: prior content of `d_quality`)
    Output: `set <status>` when `ref_node_metric_set` fails for a vertex, else the six results
    dispatching quality, dispatching dquality, static epic quality, static jac quality, static epic dquality,
    static jac dquality, each as `<status> [payload]`. -/
namespace Drivers.Quality
open Drivers.Proto Refine Refine.Model.Geom Refine.Model.Quality

abbrev F := Float

def selOf : String → Option QSel
  | "epic" => some .epic | "jac" => some .jac | "other" => some .other | _ => none

/-- 9 floats → (xyz, metric) -/
def nodes : List F → List (V3 F × M6 F)
  | x :: y :: z :: a :: b :: c :: d :: e :: f :: rest => (⟨x, y, z⟩, ⟨a, b, c, d, e, f⟩) :: nodes rest
  | _ => []

def setAll : List (V3 F × M6 F) → Except Err (List (QNode F))
  | [] => .ok []
  | (x, m) :: rest =>
    match QNode.set x m with
    | .error e => .error e
    | .ok n => match setAll rest with
      | .error e => .error e
      | .ok ns => .ok (n :: ns)

def fQ : Except Err F → String
  | .ok q => "ok " ++ fmtF q
  | .error e => e.name

def fD : Except Err (F × V3 F) → String
  | .ok (q, d) => "ok " ++ fmtFs [q, d.x, d.y, d.z]
  | .error e => e.name

def step (_ : Unit) (line : String) : Unit × String :=
  let r : String :=
    match words line with
    | "tet" :: sel :: rest =>
      (match selOf sel, parseFs? rest with
       | some s, some (mv :: fs) =>
         if fs.length != 36 then "bad-op" else
         (match setAll (nodes fs) with
          | .error e => "set " ++ e.name
          | .ok [n0, n1, n2, n3] =>
            " ".intercalate
              [fQ (tetQuality s mv n0 n1 n2 n3), fD (tetDquality s mv n0 n1 n2 n3),
               fQ (.ok (tetEpicQuality mv n0 n1 n2 n3)), fQ (tetJacQuality mv n0 n1 n2 n3),
               fD (.ok (tetEpicDquality mv n0 n1 n2 n3)), fD (tetJacDquality mv n0 n1 n2 n3)]
          | .ok _ => "bad-op")
       | _, _ => "bad-op")
    | "tri" :: sel :: rest =>
      (match selOf sel, parseFs? rest with
       | some s, some (d0 :: d1 :: d2 :: fs) =>
         if fs.length != 27 then "bad-op" else
         let dq0 : V3 F := ⟨d0, d1, d2⟩
         (match setAll (nodes fs) with
          | .error e => "set " ++ e.name
          | .ok [n0, n1, n2] =>
            " ".intercalate
              [fQ (triQuality s n0 n1 n2), fD (triDquality s dq0 n0 n1 n2),
               fQ (.ok (triEpicQuality n0 n1 n2)), fQ (triJacQuality n0 n1 n2),
               fD (.ok (triEpicDquality n0 n1 n2)), fD (triJacDquality dq0 n0 n1 n2)]
          | .ok _ => "bad-op")
       | _, _ => "bad-op")
    | _ => "bad-op"
  ((), r)

def run (_ : List String) : IO UInt32 := do
  runLoop () step
  return 0

end Drivers.Quality
