import Drivers.Proto
import Refine.Model.Unit

/-! driver `unit` (property C03), `Float` instance of `Refine.Model.Unit`.

    `refdrv unit`           function level, same op lines as `harness/h_unit.c fn`:
        `<op> n0 n1 nw <pmin> <pmax> nn <9*nn hex> <cells: tri a b c | tet a b c d>`
    `refdrv unit validate`  consumes the dump lines of `h_unit param` and `h_unit run` and prints `ok …` / `bad …`:
        P  … parameters before / measured / after: `adaptParameter` must reproduce `after` bit for bit
        QS / QC … quality values seen by the real quality guards + their decision
        T SB SA CB CA MB ME W V … records of hooked real passes (selection, guard on the pre-state, band after) -/
namespace Drivers.Unit
open Drivers.Proto Refine Refine.Model.Geom Refine.Model.Unit

abbrev F := Float

def b01 (b : Bool) : String := if b then "1" else "0"

def isNat6 (s : String) : Bool := s.length ≥ 1 && s.length < 7 && s.all Char.isDigit

def zeroVert : Vert F := (⟨0, 0, 0⟩, ⟨0, 0, 0, 0, 0, 0⟩)

def mkVert : List F → Vert F
  | [x, y, z, a, b, c, d, e, f] => (⟨x, y, z⟩, ⟨a, b, c, d, e, f⟩)
  | _ => zeroVert

def lookup (tbl : List (Nat × Vert F)) (i : Nat) : Vert F :=
  match tbl.find? (·.1 == i) with
  | some p => p.2
  | none => zeroVert

structure Cfg where
  n0 : Nat
  n1 : Nat
  nw : Nat
  pmin : F
  pmax : F
  nn : Nat
  verts : Array (Vert F)
  cells : List Cell
  hasTet : Bool

def Cfg.vs (c : Cfg) : Nat → Vert F := fun i => c.verts.getD i zeroVert
def Cfg.adapt (c : Cfg) : Adapt F := { (adaptCreate : Adapt F) with postMin := c.pmin, postMax := c.pmax }

partial def parseCells (nn : Nat) (ws : List String) (acc : List Cell) : Option (List Cell) :=
  match ws with
  | [] => some acc.reverse
  | k :: rest =>
    let np := if k == "tri" then 3 else if k == "tet" then 4 else 0
    if np == 0 || rest.length < np then none else
    let ns := rest.take np
    if !ns.all isNat6 then none else
    let nodes := ns.map String.toNat!
    if !nodes.all (· < nn) || !nodes.Nodup then none else
    parseCells nn (rest.drop np) (nodes :: acc)

def parseVerts : List F → List (Vert F)
  | x :: y :: z :: a :: b :: c :: d :: e :: f :: rest => mkVert [x, y, z, a, b, c, d, e, f] :: parseVerts rest
  | _ => []

def parseCfg (ws : List String) : Option Cfg :=
  match ws with
  | _ :: a :: b :: c :: p :: q :: n :: rest =>
    if !(isNat6 a && isNat6 b && isNat6 c && isNat6 n) then none else
    match parseF? p, parseF? q with
    | some pmin, some pmax =>
      let nn := n.toNat!
      let n0 := a.toNat!
      let n1 := b.toNat!
      let nw := c.toNat!
      if nn < 1 || nn > 200 || n0 ≥ nn || n1 ≥ nn || nw ≥ nn then none else
      if rest.length < 9 * nn then none else
      match parseFs? (rest.take (9 * nn)) with
      | none => none
      | some fs =>
        match parseCells nn (rest.drop (9 * nn)) [] with
        | none => none
        | some cells =>
          some { n0 := n0, n1 := n1, nw := nw, pmin := pmin, pmax := pmax, nn := nn,
                 verts := (parseVerts fs).toArray, cells := cells, hasTet := cells.any (·.length == 4) }
    | _, _ => none
  | _ => none

/-- unique undirected edges of the cells, as `ref_edge_create` collects them -/
def allEdges (cells : List Cell) : List (Nat × Nat) :=
  let ps := cells.flatMap fun c => c.flatMap fun x => (c.filter (x < ·)).map fun y => (x, y)
  ps.foldl (fun acc e => if acc.contains e then acc else acc ++ [e]) []

def cyc (x y : Nat) : Cell → Bool
  | [a, b, c] => (a == x && b == y) || (b == x && c == y) || (c == x && a == y)
  | _ => false

def third (x y : Nat) (c : Cell) : Nat := (c.filter fun z => z != x && z != y).headD 0

def fnStep (line : String) : String :=
  let ws := words line
  match parseCfg ws with
  | none => "bad-op"
  | some c =>
    let a := c.adapt
    let rat := nodeRatio c.vs
    -- the real functions look at the tets of a 3-D configuration and at the triangles of a planar one
    let cells := c.cells.filter fun x => x.length == (if c.hasTet then 4 else 3)
    match ws.headD "" with
    | "split" => "ok " ++ b01 (splitEdgeRatio a rat cells c.n0 c.n1 c.nw)
    | "collapse" => "ok " ++ b01 (collapseEdgeRatio a rat cells c.n0 c.n1)
    | "around" =>
      match ratioAround rat cells c.n0 with
      | none => "failure"
      | some (mn, mx) => "ok " ++ fmtFs [mn, mx]
    | "swap" =>
      let tris := c.cells.filter (·.length == 3)
      let both := tris.filter (onEdge c.n0 c.n1)
      let f01 := tris.filter (cyc c.n0 c.n1)
      let f10 := tris.filter (cyc c.n1 c.n0)
      if c.hasTet || both.length != 2 || c.n0 == c.n1 || f01.length != 1 || f10.length != 1 then "bad-op" else
      let n2 := third c.n0 c.n1 (f01.headD [])
      let n3 := third c.n0 c.n1 (f10.headD [])
      "ok " ++ b01 (swapRatio a (rat n2 n3))
    | "ratio" => "ok " ++ fmtF (rat c.n0 c.n1)
    | "selsplit" =>
      let a' := { a with splitRatio := c.pmax }
      let cand := splitCandidates a' rat (allEdges cells)
      let sorted := cand.mergeSort fun e f => e.1 < f.1 || (e.1 == f.1 && e.2 ≤ f.2)
      String.intercalate " " ("ok" :: sorted.map fun e => s!"{e.1}-{e.2}")
    | _ => "bad-op"

/-! ### validate -/

def parseAdapt : List F → Option (Adapt F)
  | [a, b, c, d, e, f, g, h, i, j, k] =>
    some { splitRatio := a, splitQualityAbs := b, splitQualityRel := c, collapseRatio := d,
           collapseQualityAbs := e, smoothMinQuality := f, postMinNormdev := g, postMin := h, postMax := i,
           lastMin := j, lastMax := k }
  | _ => none

def adaptBits (a : Adapt F) : String :=
  fmtFs [a.splitRatio, a.splitQualityAbs, a.splitQualityRel, a.collapseRatio, a.collapseQualityAbs,
         a.smoothMinQuality, a.postMinNormdev, a.postMin, a.postMax, a.lastMin, a.lastMax]

/-- `P <11> M <minr maxr minq minnd npc> mixed age A <11> status done` -/
def checkParam (ws : List String) : String :=
  if ws.length != 34 then "bad param: malformed record" else
  match parseFs? ((ws.drop 1).take 11), parseFs? ((ws.drop 13).take 5), parseFs? ((ws.drop 21).take 11) with
  | some bf, some ms, some af =>
    match parseAdapt bf, ms, parseAdapt af with
    | some before, [minr, maxr, minq, minnd, npc], some after =>
      let m : Measured F := { minRatio := minr, maxRatio := maxr, minQuality := minq, minNormdev := minnd,
                              nodesPerComplexity := npc, mixed := ws.getD 18 "" == "1",
                              maxAge := (ws.getD 19 "0").toInt?.getD 0 }
      let (model, done) := adaptParameter before m
      if ws.getD 32 "" != "ok" then "bad param: ref_adapt_parameter returned " ++ ws.getD 32 "" else
      if adaptBits model != adaptBits after then
        "bad param: derived parameters differ: model " ++ adaptBits model ++ " impl " ++ adaptBits after
      else if b01 done != ws.getD 33 "" then "bad param: all_done model " ++ b01 done ++ " impl " ++ ws.getD 33 ""
      else
        -- the order relations proved in Props/C03 (`adaptParameter_band`), evaluated on the implementation's values
        let ok := after.postMin ≤ after.collapseRatio && after.collapseRatio < after.splitRatio &&
                  after.postMin ≤ minr && maxr ≤ after.postMax &&
                  (1.0e-3 : F) ≤ after.collapseQualityAbs && after.collapseQualityAbs ≤ 0.1
        if ok then "ok param" else "bad param: parameter order relations violated: " ++ adaptBits after
    | _, _, _ => "bad param: malformed record"
  | _, _, _ => "bad param: malformed record"

def splitOn (sep : String) (ws : List String) : List (List String) :=
  ws.foldr (fun w acc => if w == sep then [] :: acc else
    match acc with
    | h :: t => (w :: h) :: t
    | [] => [[w]]) [[]]

/-- `QS allowed abs rel minvol minExisting | q0 q1 v0 v1 | …` -/
def checkQS (ws : List String) : String :=
  match splitOn "|" ws with
  | hd :: groups =>
    match parseFs? (hd.drop 2) with
    | some [abs, rel, minvol, me] =>
      let a : Adapt F := { (adaptCreate : Adapt F) with splitQualityAbs := abs, splitQualityRel := rel }
      let oks := groups.map fun g =>
        match parseFs? g with
        | some [q0, q1, v0, v1] => some (splitQualityOk a me q0 q1 v0 v1 minvol)
        | _ => none
      if oks.any (· == none) then "bad qsplit: malformed record" else
      let model := oks.all (· == some true)
      if b01 model == hd.getD 1 "" then "ok qsplit " ++ b01 model
      else "bad qsplit: decision model " ++ b01 model ++ " impl " ++ hd.getD 1 ""
    | _ => "bad qsplit: malformed record"
  | [] => "bad qsplit: malformed record"

/-- `QC allowed thr | veto q | …` -/
def checkQC (ws : List String) : String :=
  match splitOn "|" ws with
  | hd :: groups =>
    match parseFs? (hd.drop 2) with
    | some [thr] =>
      let a : Adapt F := { (adaptCreate : Adapt F) with collapseQualityAbs := thr }
      let oks := groups.map fun g =>
        match g with
        | [veto, q] => (parseF? q).map fun qv => collapseQualityOk a qv && veto == "0"
        | _ => none
      if oks.any (· == none) then "bad qcollapse: malformed record" else
      let model := oks.all (· == some true)
      if b01 model == hd.getD 1 "" then "ok qcollapse " ++ b01 model
      else "bad qcollapse: decision model " ++ b01 model ++ " impl " ++ hd.getD 1 ""
    | _ => "bad qcollapse: malformed record"
  | [] => "bad qcollapse: malformed record"

/-- ` V k (id 9hex)… C m (tri a b c | tet a b c d)…` -/
partial def parseIdVerts (k : Nat) (ws : List String) (acc : List (Nat × Vert F)) :
    Option (List (Nat × Vert F) × List String) :=
  if k == 0 then some (acc, ws) else
  match ws with
  | i :: rest =>
    match i.toNat?, parseFs? (rest.take 9) with
    | some id, some fs => if fs.length != 9 then none else parseIdVerts (k - 1) (rest.drop 9) ((id, mkVert fs) :: acc)
    | _, _ => none
  | [] => none

partial def parseRunCells (ws : List String) (acc : List Cell) : Option (List Cell) :=
  match ws with
  | [] => some acc.reverse
  | k :: rest =>
    let np := if k == "tri" then 3 else if k == "tet" then 4 else 0
    if np == 0 || rest.length < np then none else
    match parseNats? (rest.take np) with
    | some ns => parseRunCells (rest.drop np) (ns :: acc)
    | none => none

def parseConfig (ws : List String) : Option (List (Nat × Vert F) × List Cell) :=
  match ws with
  | "V" :: k :: rest =>
    match k.toNat? with
    | none => none
    | some kk =>
      match parseIdVerts kk rest [] with
      | some (tbl, "C" :: _ :: cellWs) => (parseRunCells cellWs []).map fun cs => (tbl, cs)
      | _ => none
  | _ => none

/-- ` R k r…` groups -/
def parseRs (ws : List String) : Option (List F × List String) :=
  match ws with
  | "R" :: k :: rest =>
    match k.toNat? with
    | some kk => (parseFs? (rest.take kk)).bind fun fs => if fs.length == kk then some (fs, rest.drop kk) else none
    | none => none
  | _ => none

structure VState where
  /-- `old_min`, `old_max` of the last `CB` record as the model computes them -/
  oldMin : F := 0
  oldMax : F := 0
  /-- last `MB` record: kind, q0tri mn mx q0tet mn mx -/
  mb : List F := []

def band (pmin pmax : F) : Adapt F := { (adaptCreate : Adapt F) with postMin := pmin, postMax := pmax }

def vstep (st : VState) (line : String) : VState × String :=
  -- `QM` prefixes the two records of a function-level smoother call (`qsmooth`)
  let ws := match words line with
    | "QM" :: r => r
    | w => w
  match ws with
  | "ok" :: _ => (st, "ok")
  | "bad-op" :: _ => (st, "ok bad-op")
  | "done" :: s :: _ => (st, if s == "ok" then "ok done" else "bad run: pass returned " ++ s)
  | "P" :: _ => (st, checkParam ws)
  | "QS" :: _ => (st, checkQS ws)
  | "QC" :: _ => (st, checkQC ws)
  | "QX" :: _ => (st, "ok quality kernel status")
  | ["T", r, s] =>
    match parseF? r, parseF? s with
    | some rv, some sv =>
      let a : Adapt F := { (adaptCreate : Adapt F) with splitRatio := sv }
      (st, if splitSelected a rv then "ok trial" else "bad selection: split trial on an edge of ratio " ++ toString rv ++
        " <= split_ratio " ++ toString sv)
    | _, _ => (st, "bad T: malformed")
  | ["CT", dim, r, cr] =>
    match parseF? r, parseF? cr with
    | some rv, some crv =>
      let a : Adapt F := { (adaptCreate : Adapt F) with collapseRatio := crv }
      -- planar grids: a target can be stale (see the `CB` record); 3-D: the work list is kept current
      (st, if collapseSelected a rv then "ok target" else if dim == "2" then "ok target stale-2d"
           else "bad selection: ref_collapse_pass tries to remove a vertex whose shortest edge " ++ toString rv ++
                " is not shorter than collapse_ratio " ++ toString crv)
    | _, _ => (st, "bad CT: malformed")
  | "SB" :: n0 :: n1 :: nw :: p :: q :: rest =>
    match n0.toNat?, n1.toNat?, nw.toNat?, parseF? p, parseF? q, parseConfig rest with
    | some a0, some a1, some aw, some pmin, some pmax, some (tbl, cells) =>
      let ok := splitEdgeRatio (band pmin pmax) (nodeRatio (lookup tbl)) cells a0 a1 aw
      (st, if ok then "ok split guard" else "bad split: ref_split_edge called although the modelled ref_split_edge_ratio refuses")
    | _, _, _, _, _, _ => (st, "bad SB: malformed")
  | "SA" :: p :: q :: rest =>
    match parseF? p, parseF? q, parseRs rest with
    | some pmin, some pmax, some (rs, _) =>
      let a := band pmin pmax
      (st, if rs.all (inBand a) then s!"ok split band {rs.length}" else
        "bad split: an edge at the new vertex is outside [post_min_ratio, post_max_ratio] after an accepted split")
    | _, _, _ => (st, "bad SA: malformed")
  | "CB" :: n0 :: n1 :: p :: q :: cr :: rest =>
    match n0.toNat?, n1.toNat?, parseF? p, parseF? q, parseF? cr, parseConfig rest with
    | some a0, some a1, some pmin, some pmax, some crv, some (tbl, cells) =>
      let a := { band pmin pmax with collapseRatio := crv }
      let rat := nodeRatio (lookup tbl)
      let olds := (collapseOld cells a1).map fun e => rat e.1 e.2
      let st' := { st with oldMin := foldMin dblMax olds, oldMax := foldMax (-1.0) olds }
      let guard := collapseEdgeRatio a rat cells a0 a1
      let sel := collapseSelected a (nodeMinRatio a rat (collapseOld cells a1) a1)
      (st', if !guard then "bad collapse: ref_collapse_edge called although the modelled ref_collapse_edge_ratio refuses"
            else if !sel && cells.any (·.length == 4) then
              "bad selection: collapsed vertex has no incident edge shorter than collapse_ratio"
            -- planar grids: ref_collapse_pass resets the work list of the neighbours of a collapse through
            -- `ref_grid_tet` (empty when `ref_grid_twod`), so a target chosen at the start of the pass can have lost
            -- its short edge by the time it is processed (stale target; every guard still applies)
            else if !sel then "ok collapse guard stale-target-2d"
            else "ok collapse guard")
    | _, _, _, _, _, _ => (st, "bad CB: malformed")
  | "CA" :: p :: q :: rest =>
    match parseF? p, parseF? q, parseRs rest with
    | some pmin, some pmax, some (rs, _) =>
      -- `collapse_accept_band`: inside the band widened by the old extremes at the removed vertex
      let lo := if st.oldMin < pmin then st.oldMin else pmin
      let hi := if st.oldMax > pmax then st.oldMax else pmax
      (st, if rs.all (inBand (band lo hi)) then s!"ok collapse band {rs.length}" else
        "bad collapse: a new edge at the surviving vertex is outside the (widened) band after an accepted collapse")
    | _, _, _ => (st, "bad CA: malformed")
  | "MB" :: _ :: _ :: _ :: rest =>
    match parseFs? rest with
    | some fs => ({ st with mb := fs }, "ok")
    | none => (st, "bad MB: malformed")
  | "ME" :: kind :: moved :: hasTri :: hasTet :: p :: q :: smq :: qtri :: qtet :: rest =>
    if moved == "0" then (st, "ok unmoved") else
    match parseF? p, parseF? q, parseF? smq, parseF? qtri, parseF? qtet, parseRs rest with
    | some pmin, some pmax, some smqv, some qt, some qT, some (rtri, rest2) =>
      match parseRs rest2, st.mb with
      | some (rtet, _), [q0tri, mn0tri, mx0tri, q0tet, mn0tet, mx0tet] =>
        let a := { band pmin pmax with smoothMinQuality := smqv }
        let bandAll (rs : List F) : Bool :=
          match minMax rs with
          | none => false
          | some (mn, mx) => bandOk a mn mx
        let triBand := hasTri == "0" || bandAll rtri
        let tetBand := hasTet == "0" || bandAll rtet
        let tetFloor := hasTet == "0" || smoothQualityOk a .floor q0tet qT
        let res :=
          if kind == "smooth_edge" then
            triBand && smoothQualityOk a .floor q0tri qt && tetBand && tetFloor
          else if kind == "smooth_tri" then
            triBand && smoothQualityOk a (.improve (pliant q0tri mn0tri mx0tri)) q0tri qt && tetBand && tetFloor
          else
            tetBand && smoothQualityOk a (.improve (pliant q0tet mn0tet mx0tet)) q0tet qT
        (st, if res then "ok moved " ++ kind else
          "bad smooth: vertex moved by " ++ kind ++ " although the modelled acceptance test (ratio band / quality) fails")
      | _, _ => (st, "bad ME: malformed")
    | _, _, _, _, _, _ => (st, "bad ME: malformed")
  | ["W", r, p, q] =>
    match parseF? r, parseF? p, parseF? q with
    | some rv, some pmin, some pmax =>
      (st, if swapRatio (band pmin pmax) rv then "ok swap" else
        "bad swap: ref_swap_tri_edge called although the new edge is not strictly inside the band")
    | _, _, _ => (st, "bad W: malformed")
  | "V" :: al :: p :: q :: rest =>
    match parseF? p, parseF? q, parseRs rest with
    | some pmin, some pmax, some (rs, _) =>
      let model := cavityRatio (band pmin pmax) rs
      (st, if b01 model != al then "bad cavity: ref_cavity_ratio says " ++ al ++ ", model " ++ b01 model
           else if al != "1" then "bad cavity: ref_cavity_replace on a cavity whose new edges leave the band"
           else "ok cavity " ++ al)
    | _, _, _ => (st, "bad V: malformed")
  | _ => (st, "bad record: unknown line")

def run (args : List String) : IO UInt32 := do
  if args.contains "validate" then
    runLoop ({} : VState) vstep
  else
    runLoop () fun _ line => ((), fnStep line)
  return 0

end Drivers.Unit
