import Drivers.Proto
import Refine.Model.MeshOps

/-! driver `meshops` (C13).
    * `refdrv meshops`          : diff mode, same op lines as `harness/h_meshops.c`, byte-identical output lines.
    * `refdrv meshops validate` : reads the `rec …` lines printed by the hooked real passes (run-level part of
      `h_meshops.c`) and prints `ok …` / `bad …` per record: the accepted operation is replayed on the star of the
      `begin` record and compared with the star of the `accept` record, `localValid` is evaluated on the star
      after every accept, and a `reject` record must carry the structural hash of its `begin` record. -/
namespace Drivers.MeshOps
open Drivers.Proto Refine Refine.Model.NodeIds Refine.Model.MeshOps Refine.Model.Geom

/-- harness guard: vertex slots in op lines are in `[0, nodeLimit)` -/
def nodeLimit : Int := 100000

structure St where
  m : Mesh
  xyz : List (Nat × V3 Float)

def emptyGroups : Groups := ⟨[], [], []⟩
def initSt : St := ⟨⟨NodeIds.create, emptyGroups⟩, []⟩

def xyzOf (l : List (Nat × V3 Float)) (v : Int) : V3 Float :=
  match l.find? (fun p => (p.1 : Int) == v) with
  | some p => p.2
  | none => ⟨0.0, 0.0, 0.0⟩

def setXyz (l : List (Nat × V3 Float)) (v : Nat) (x : V3 Float) : List (Nat × V3 Float) :=
  (v, x) :: l.filter (fun p => p.1 != v)

def commaI (xs : List Int) : String := ",".intercalate (xs.map toString)

def lexLe : List Int → List Int → Bool
  | [], _ => true
  | _ :: _, [] => false
  | a :: as, b :: bs => if a < b then true else if b < a then false else lexLe as bs

def sortCells (cs : List Cell) : List Cell := cs.mergeSort lexLe

def fmtCells (cs : List Cell) : String := String.join ((sortCells cs).map fun c => " " ++ commaI c)

def okRange (vs : List Int) : Bool := vs.all fun v => decide (0 ≤ v) && decide (v < nodeLimit)

def dump (st : St) : String :=
  let s := st.m.ids
  let live := s.global.zipIdx.filter fun gv => decide (gv.1 ≥ 0)
  let nodes := live.map fun gv =>
    let x := xyzOf st.xyz (gv.2 : Int)
    s!"{gv.2}:{gv.1}:{fmtF x.x}:{fmtF x.y}:{fmtF x.z}"
  s!"nodes {s.n} | {" ".intercalate nodes} | unused {fmtInts s.unusedStk.reverse} | {s.oldN} {s.newN} | " ++
  s!"tet{fmtCells st.m.g.tet} | tri{fmtCells st.m.g.tri} | edg{fmtCells st.m.g.edg}"

/-- harness guard for `tet/tri/edg`: all vertices are valid slots and pairwise distinct -/
def cellOk (st : St) (ns : List Int) : Bool :=
  okRange ns && ns.all (fun v => st.m.ids.validSlot v) && decide ns.Nodup

def addCell (st : St) (np : Nat) (ws : List String) (put : Groups → Cell → Groups) : St × String :=
  match parseInts? ws with
  | some row =>
    if row.length ≠ np + (if np = 4 then 0 else 1) then (st, "bad-op") else
    if !cellOk st (row.take np) then (st, "bad-op") else
    ({ st with m := { st.m with g := put st.m.g row } }, "ok")
  | none => (st, "bad-op")

/-- `ref_node_interpolate_edge` (coordinates): `REF_INVALID` when an end point is not a valid slot -/
def interpolate (st : St) (n0 n1 : Int) (w : Float) (new : Int) : Status × St :=
  if !st.m.ids.validSlot n0 || !st.m.ids.validSlot n1 then (.invalid, st) else
  (.ok, { st with xyz := setXyz st.xyz new.toNat (interpolateEdgeXyz (xyzOf st.xyz n0) (xyzOf st.xyz n1) w) })

def step (st : St) (line : String) : St × String :=
  match words line with
  | ["reset"] => (initSt, "ok")
  | ["initg", k] => match k.toInt? with
      | some k => ({ st with m := { st.m with ids := st.m.ids.initNGlobal k } }, "ok")
      | none => (st, "bad-op")
  | ["node", g, x, y, z] => match g.toInt?, parseF? x, parseF? y, parseF? z with
      | some g, some x, some y, some z =>
        if g > 1000000000 then (st, "bad-op") else
        let r := st.m.ids.add g
        if r.1 ≠ .ok then (st, r.1.name) else
        ({ m := { st.m with ids := r.2.2 }, xyz := setXyz st.xyz r.2.1 ⟨x, y, z⟩ }, s!"ok {r.2.1}")
      | _, _, _, _ => (st, "bad-op")
  | "tet" :: ws => addCell st 4 ws fun g c => { g with tet := c :: g.tet }
  | "tri" :: ws => addCell st 3 ws fun g c => { g with tri := c :: g.tri }
  | "edg" :: ws => addCell st 2 ws fun g c => { g with edg := c :: g.edg }
  | ["split", a, b, w] => match a.toInt?, b.toInt?, parseF? w with
      | some n0, some n1, some w =>
        if !okRange [n0, n1] then (st, "bad-op") else
        if !st.m.ids.validSlot n0 || !st.m.ids.validSlot n1 then (st, "invalid-end") else
        let b := trialBegin st.m
        if b.1 ≠ .ok then ({ st with m := b.2.2 }, b.1.name) else
        let new := b.2.1
        let g := b.2.2.ids.globalOf new
        let st1 : St := { st with m := b.2.2 }
        let i := interpolate st1 n0 n1 w new
        if i.1 ≠ .ok then
          let wd := trialWithdraw i.2.m new
          ({ i.2 with m := wd.2 }, i.1.name)
        else
        let st2 := i.2
        let s := splitEdge st2.m.g n0 n1 new
        if s.1 = .increase_limit then
          let wd := trialWithdraw { st2.m with g := s.2 } new
          ({ st2 with m := wd.2 }, "increase_limit")
        else if s.1 ≠ .ok then ({ st2 with m := { st2.m with g := s.2 } }, s.1.name)
        else ({ st2 with m := { st2.m with g := s.2 } }, s!"ok {new} {g}")
      | _, _, _ => (st, "bad-op")
  | ["trial_reject", a, b, w] => match a.toInt?, b.toInt?, parseF? w with
      | some n0, some n1, some w =>
        if !okRange [n0, n1] then (st, "bad-op") else
        if !st.m.ids.validSlot n0 || !st.m.ids.validSlot n1 then (st, "invalid-end") else
        let b := trialBegin st.m
        if b.1 ≠ .ok then ({ st with m := b.2.2 }, b.1.name) else
        let new := b.2.1
        let g := b.2.2.ids.globalOf new
        let i := interpolate { st with m := b.2.2 } n0 n1 w new
        let wd := trialWithdraw i.2.m new
        ({ i.2 with m := wd.2 }, if wd.1 = .ok then s!"ok {new} {g} {i.1.name}" else wd.1.name)
      | _, _, _ => (st, "bad-op")
  | ["collapse", a, b] => match a.toInt?, b.toInt? with
      | some n0, some n1 =>
        if !okRange [n0, n1] then (st, "bad-op") else
        let r := collapseEdge st.m n0 n1
        ({ st with m := r.2 }, r.1.name)
      | _, _ => (st, "bad-op")
  | ["swap", a, b] => match a.toInt?, b.toInt? with
      | some n0, some n1 =>
        if !okRange [n0, n1] then (st, "bad-op") else
        let f := sameFaceid st.m.g n0 n1
        if f.1 ≠ .ok then (st, f.1.name) else
        if !f.2 then (st, "not-allowed") else
        let mf := swapManifold st.m.g n0 n1
        if mf.1 ≠ .ok then (st, mf.1.name) else
        if !mf.2 then (st, "not-manifold") else
        let p := swapNode23 st.m.g.tri n0 n1
        if p.1 ≠ .ok then (st, p.1.name) else
        if p.2.1 = p.2.2 then (st, "degenerate") else
        let r := swapTriEdge st.m.g n0 n1
        ({ st with m := { st.m with g := r.2 } }, r.1.name)
      | _, _ => (st, "bad-op")
  | ["node23", a, b] => match a.toInt?, b.toInt? with
      | some n0, some n1 =>
        if !okRange [n0, n1] then (st, "bad-op") else
        let p := swapNode23 st.m.g.tri n0 n1
        (st, if p.1 = .ok then s!"ok {p.2.1} {p.2.2}" else p.1.name)
      | _, _ => (st, "bad-op")
  | ["dump"] => (st, dump st)
  | _ => (st, "bad-op")

/-! ### validate mode -/

structure Rec where
  phase : String
  kind : String
  ints : List Int
  twod : Bool
  hash : String
  hashs : String
  valid : List Bool
  nu : Int
  utop : Int
  oldN : Int
  newN : Int
  nodes : List (Int × Int × List Float)   -- slot, global, 15 reals
  g : Groups

def kv (ws : List String) (key : String) : Option String :=
  (ws.find? (·.startsWith (key ++ "="))).map fun w => (w.drop (key.length + 1)).toString

def parseCells (s : String) : Option (List Cell) :=
  (words s).drop 1 |>.mapM fun w => (w.splitOn ",").mapM String.toInt?

def parseNode (w : String) : Option (Int × Int × List Float) :=
  match w.splitOn ":" with
  | v :: g :: fs => match v.toInt?, g.toInt?, fs.mapM parseF? with
    | some v, some g, some fs => some (v, g, fs)
    | _, _, _ => none
  | _ => none

def parseRec (line : String) : Option Rec :=
  match line.splitOn " | " with
  | [head, ns, t, r, e] =>
    let hw := words head
    match hw with
    | "rec" :: phase :: kind :: i0 :: i1 :: i2 :: rest =>
      match parseInts? [i0, i1, i2], kv rest "twod", kv rest "hash", kv rest "hashs", kv rest "valid", kv rest "nu", kv rest "utop",
            kv rest "oldN", kv rest "newN", (words ns).drop 1 |>.mapM parseNode, parseCells t, parseCells r,
            parseCells e with
      | some ints, some twod, some hash, some hashs, some valid, some nu, some utop, some oldN, some newN, some nodes, some t,
        some r, some e =>
        match nu.toInt?, utop.toInt?, oldN.toInt?, newN.toInt? with
        | some nu, some utop, some oldN, some newN =>
          some { phase, kind, ints, twod := twod == "1", hash, hashs, valid := valid.toList.map (· == '1'), nu, utop,
                 oldN, newN, nodes, g := ⟨t, r, e⟩ }
        | _, _, _, _ => none
      | _, _, _, _, _, _, _, _, _, _, _, _, _ => none
    | _ => none
  | _ => none

def recXyz (r : Rec) (v : Int) : V3 Float :=
  match r.nodes.find? (fun p => p.1 == v) with
  | some p => ⟨p.2.2.getD 0 0.0, p.2.2.getD 1 0.0, p.2.2.getD 2 0.0⟩
  | none => ⟨Float.ofBits 0x7ff8000000000000, 0.0, 0.0⟩

def recReals (r : Rec) (v : Int) : List String :=
  match r.nodes.find? (fun p => p.1 == v) with
  | some p => p.2.2.map fmtF
  | none => []

def recFloats (r : Rec) (v : Int) : List Float :=
  match r.nodes.find? (fun p => p.1 == v) with
  | some p => p.2.2
  | none => []

/-- metric entries (reals 3..14) equal up to a relative 1e-9 -/
def metricClose (a b : List Float) : Bool :=
  a.length == b.length && ((a.zip b).drop 3).all fun p =>
    p.1 == p.2 || Float.abs (p.1 - p.2) ≤ 1.0e-9 * (if Float.abs p.1 < Float.abs p.2 then Float.abs p.2 else Float.abs p.1)

def sameGroups (a b : Groups) : Bool :=
  sortCells a.tet == sortCells b.tet && sortCells a.tri == sortCells b.tri && sortCells a.edg == sortCells b.edg

/-- vertices of the record that are valid after the operation -/
def touched (r : Rec) : List Int :=
  ((r.ints.zip r.valid).filter fun p => p.2 && decide (p.1 ≥ 0)).map (·.1)

def lvalid (r : Rec) (removed : List Int) : String :=
  let c := localValidComb r.twod r.g (touched r) removed
  let gm := localValidGeom r.twod (recXyz r) r.g
  if c && gm then "" else s!" localValid comb={c} geom={gm}"

/-- the global id the trial vertex of a `split_trial begin` record will get -/
def nextIssued (b : Rec) : Int :=
  if b.nu > 0 then b.utop else if b.newN = -1 then -2 else b.newN

def judge (pend : List Rec) (r : Rec) : String :=
  let begin? := pend.find? fun b => b.kind == r.kind
  let n0 := r.ints.getD 0 (-1); let n1 := r.ints.getD 1 (-1); let n2 := r.ints.getD 2 (-1)
  match r.phase, begin? with
  | "begin", _ => "ok begin"
  | _, none => s!"bad {r.phase} {r.kind} without begin"
  | "accept", some b =>
    if r.kind == "split_edge" then
      let s := splitEdge b.g n0 n1 n2
      let e1 := if s.1 = .ok && sameGroups s.2 r.g then "" else " replay-differs"
      let e2 := lvalid r []
      if e1 ++ e2 == "" then s!"ok accept split_edge {b.g.tet.length}->{r.g.tet.length}" else "bad split_edge" ++ e1 ++ e2
    else if r.kind == "collapse_edge" then
      let s := collapseGroup 4 b.g.tet n0 n1
      let t := collapseGroup 3 b.g.tri n0 n1
      let e := collapseGroup 2 b.g.edg n0 n1
      let e1 := if s.1 = .ok && t.1 = .ok && e.1 = .ok && sameGroups ⟨s.2, t.2, e.2⟩ r.g then "" else " replay-differs"
      let g1 := (b.nodes.find? (fun p => p.1 == n1)).map (·.2.1)
      let e2 := if r.valid.getD 1 true then " node1-still-valid" else ""
      let e3 := if some r.utop == g1 && r.nu == b.nu + 1 then "" else " global-not-pushed"
      let e4 := lvalid r [n1]
      if e1 ++ e2 ++ e3 ++ e4 == "" then s!"ok accept collapse_edge {b.g.tet.length}->{r.g.tet.length}"
      else "bad collapse_edge" ++ e1 ++ e2 ++ e3 ++ e4
    else if r.kind == "swap_tri_edge" then
      let s := swapTriEdge b.g n0 n1
      let e1 := if s.1 = .ok && sameGroups s.2 r.g then "" else " replay-differs"
      let e2 := lvalid r []
      if e1 ++ e2 == "" then "ok accept swap_tri_edge" else "bad swap_tri_edge" ++ e1 ++ e2
    else
      -- split_trial (direct or by cavity), cavity_replace: run-level local validity only
      let e2 := lvalid r []
      if e2 == "" then s!"ok accept {r.kind}" else s!"bad {r.kind}" ++ e2
  | "reject", some b =>
    let e1 := if r.hash == b.hash then "" else " hash-differs"
    let e2 := if sameGroups r.g b.g then "" else " star-differs"
    let e3 := if r.valid.getD 2 true then " trial-vertex-still-valid" else ""
    let e4 := if r.utop == nextIssued b || nextIssued b == -2 then "" else " issued-global-not-on-unused-stack"
    let e5 := if unreferenced r.g [n2] then "" else " trial-vertex-referenced"
    if e1 ++ e2 ++ e3 ++ e4 ++ e5 == "" then s!"ok reject {r.kind}" else s!"bad reject {r.kind}" ++ e1 ++ e2 ++ e3 ++ e4 ++ e5
  | "end", some b =>
    -- smooth_*: moved or restored is decided here
    let moved := (recReals r n0).take 3 != (recReals b n0).take 3
    if !moved then
      -- the C restores xyz and re-interpolates the metric from the background grid: equal up to rounding
      let e1 := if metricClose (recFloats r n0) (recFloats b n0) then "" else " metric-not-restored"
      let e2 := if r.hashs == b.hashs then "" else " hash-differs"
      if e1 ++ e2 == "" then s!"ok end {r.kind} restored" else s!"bad {r.kind} restored" ++ e1 ++ e2
    else
      let e1 := if sameGroups r.g b.g then "" else " cells-changed"
      let e2 := lvalid r []
      if e1 ++ e2 == "" then s!"ok end {r.kind} moved" else s!"bad {r.kind} moved" ++ e1 ++ e2
  | p, _ => s!"bad unknown phase {p}"

def vstep (pend : List Rec) (line : String) : List Rec × String :=
  if !line.startsWith "rec " then (pend, "ok " ++ (line.take 40).toString) else
  match parseRec line with
  | none => (pend, "bad unparsable record")
  | some r =>
    let out := judge pend r
    let pend' := if r.phase == "begin" then r :: pend.filter (fun b => b.kind != r.kind)
                 else pend.filter (fun b => b.kind != r.kind)
    (pend', out)

def run (args : List String) : IO UInt32 := do
  match args with
  | ["validate"] => runLoop ([] : List Rec) vstep
  | _ => runLoop initSt step
  return 0

end Drivers.MeshOps
