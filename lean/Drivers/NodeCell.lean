import Drivers.Proto
import Refine.Model.NodeIds
import Refine.Model.CellStore

/-! driver `nodecell`: the vertex-id state machine (`ref_node.c`) and the cell store (`ref_cell.c`).
    Same op lines as `harness/h_nodecell.c`, byte-identical output lines. -/
namespace Drivers.NodeCell
open Drivers.Proto Refine.Model.NodeIds Refine.Model.CellStore

structure St where
  node : NodeIds
  cell : CellStore

def initSt : St := ⟨NodeIds.create, CellStore.create Refine.Gen.CellTables.tet⟩

def findType (n : String) : Option Refine.Gen.CellTables.CellType :=
  Refine.Gen.CellTables.all.find? (·.name == n)

def joinI (xs : List Int) : String := " ".intercalate (xs.map toString)
def joinN (xs : List Nat) : String := " ".intercalate (xs.map toString)
def commaI (xs : List Int) : String := ",".intercalate (xs.map toString)

def nodeDump (s : NodeIds) : String :=
  s!"{s.n} {s.max} {s.blank} {s.nUnused} {s.maxUnused} {s.oldN} {s.newN} | {joinI s.global} | " ++
  s!"{joinI s.keys} | {joinN (s.sorted.map (·.2))} | {joinI s.unusedStk.reverse} | " ++
  joinI (((s.global.zip s.part).filter fun gp => decide (gp.1 ≥ 0)).map (·.2))

def cellDump (s : CellStore) : String :=
  let rows := s.c2n.map fun r =>
    if r.getD 0 (-1) = -1 then commaI (r.take 2) else commaI r
  let adj := s.adj.lists.zipIdx.filterMap fun lv =>
    if lv.1.isEmpty then none else some s!"{lv.2}:{commaI lv.1}"
  s!"{s.n} {s.max} {s.blank} {s.adj.nnode} | {" ".intercalate rows} | {" ".intercalate adj}"

def stName (s : Status) : String := s.name

def removeOp (st : St) (f : NodeIds → Int → Status × NodeIds) (v : String) : St × String :=
  match v.toInt? with
  | some v => let r := f st.node v; ({ st with node := r.2 }, stName r.1)
  | none => (st, "bad-op")

def packOp (st : St) (c : Status × List Int × List Int) : St × String :=
  if c.1 ≠ .ok then (st, stName c.1)
  else ({ st with node := st.node.pack c.2.1 c.2.2 }, "ok")

/-- all nodes of all valid cells lie in `[0,k)` -/
def cellNodesBelow (s : CellStore) (k : Int) : Bool :=
  s.c2n.all fun r =>
    r.getD 0 (-1) == -1 || (r.take s.nodePer).all fun v => decide (0 ≤ v) && decide (v < k)

/-- harness guard: larger cell node ids would make `ref_adj` allocate GBs -/
def nodeLimit : Int := 100000

def step (st : St) (line : String) : St × String :=
  match words line with
  | ["reset", t] => match findType t with
      | some t => (⟨NodeIds.create, CellStore.create t⟩, "ok")
      | none => (st, "bad-op")
  -- ---------------- ref_node ----------------
  | ["add", g] => match g.toInt? with
      | some g =>
        let r := st.node.add g
        ({ st with node := r.2.2 }, if r.1 = .ok then s!"ok {r.2.1}" else stName r.1)
      | none => (st, "bad-op")
  | "add_many" :: gs => match parseInts? gs with
      | some gs =>
        let ok := NodeIds.heapOk (gs.filter fun x => (NodeIds.searchGlob st.node.keys x).isNone)
        let r := st.node.addMany gs
        let ok2 := NodeIds.heapOk (r.2.livePairs.map (·.1))
        let s' := if r.1 = .ok then r.2 else r.2.rebuild
        ({ st with node := s' }, stName r.1 ++ (if ok && ok2 then "" else " fallback"))
      | none => (st, "bad-op")
  | ["remove", v] => removeOp st NodeIds.remove v
  | ["remove_inv", v] => removeOp st NodeIds.removeInvalidatesSorted v
  | ["remove_wog", v] => removeOp st NodeIds.removeWithoutGlobal v
  | ["remove_wog_inv", v] => removeOp st NodeIds.removeWithoutGlobalInvalidatesSorted v
  | ["rebuild"] =>
      let ok := NodeIds.heapOk (st.node.livePairs.map (·.1))
      ({ st with node := st.node.rebuild }, if ok then "ok" else "ok fallback")
  | ["init_n_global", k] => match k.toInt? with
      | some k => ({ st with node := st.node.initNGlobal k }, "ok")
      | none => (st, "bad-op")
  | ["next_global"] =>
      let r := st.node.nextGlobal
      ({ st with node := r.2.2 }, s!"{stName r.1} {r.2.1}")
  | ["push_unused", g] => match g.toInt? with
      | some g => ({ st with node := st.node.pushUnused g }, "ok")
      | none => (st, "bad-op")
  | ["pop_unused"] =>
      let r := st.node.popUnused
      ({ st with node := r.2.2 }, s!"{stName r.1} {r.2.1}")
  | ["local", g] => match g.toInt? with
      | some g => let r := st.node.localOf g; (st, s!"{stName r.1} {r.2}")
      | none => (st, "bad-op")
  | ["valid", v] => match v.toInt? with
      | some v => (st, if st.node.validSlot v then "1" else "0")
      | none => (st, "bad-op")
  | ["glob", v] => match v.toInt? with
      | some v => (st, toString (st.node.globalOf v))
      | none => (st, "bad-op")
  | ["set_part", v, p] => match v.toInt?, p.toInt? with
      | some v, some p =>
        if st.node.validSlot v then ({ st with node := { st.node with part := st.node.part.set v.toNat p } }, "ok")
        else (st, "invalid")
      | _, _ => (st, "bad-op")
  | ["nn"] => let s := st.node; (st, s!"{s.n} {s.max} {s.nUnused} {s.oldN} {s.newN}")
  | ["stable_compact"] =>
      let r := st.node.stableCompact
      (st, if r.1 = .ok then s!"ok | {joinI r.2.1} | {joinI r.2.2}" else stName r.1)
  | ["compact"] =>
      let r := st.node.compact 0
      (st, if r.1 = .ok then s!"ok | {joinI r.2.1} | {joinI r.2.2}" else stName r.1)
  | ["pack"] => packOp st (st.node.compact 0)
  | ["stable_pack"] => packOp st st.node.stableCompact
  | ["ndump"] => (st, nodeDump st.node)
  -- ---------------- ref_cell ----------------
  | "cadd" :: ns => match parseInts? ns with
      | some ns =>
        if ns.length ≠ st.cell.sizePer ∨ ns.any (· > nodeLimit) then (st, "bad-op") else
        let r := st.cell.add ns
        ({ st with cell := r.2.2 }, if r.1 = .ok then s!"ok {r.2.1}" else stName r.1)
      | none => (st, "bad-op")
  | ["cremove", c] => match c.toInt? with
      | some c => let r := st.cell.remove c; ({ st with cell := r.2 }, stName r.1)
      | none => (st, "bad-op")
  | "creplace_whole" :: c :: ns => match c.toInt?, parseInts? ns with
      | some c, some ns =>
        if ns.length ≠ st.cell.sizePer ∨ ns.any (· > nodeLimit) then (st, "bad-op") else
        let r := st.cell.replaceWhole c ns
        ({ st with cell := r.2 }, stName r.1)
      | _, _ => (st, "bad-op")
  | ["creplace_node", o, n] => match o.toInt?, n.toInt? with
      | some o, some n =>
        if n > nodeLimit then (st, "bad-op") else
        -- harness guard (see h_nodecell.c): a cell registered around `o` that does not contain `o`
        if o ≠ n ∧ (st.cell.adj.first o).any (fun cell =>
            !((st.cell.row cell.toNat).take st.cell.nodePer).contains o) then (st, "hang") else
        match st.cell.replaceNode o n with
        | some r => ({ st with cell := r.2 }, stName r.1)
        | none => (st, "hang-unexpected")
      | _, _ => (st, "bad-op")
  | "cwith" :: ns => match parseInts? ns with
      | some ns =>
        if ns.length ≠ st.cell.nodePer then (st, "bad-op") else
        let r := st.cell.withNodes ns
        (st, s!"{stName r.1} {r.2}")
      | none => (st, "bad-op")
  | ["chas_side", a, b] => match a.toInt?, b.toInt? with
      | some a, some b => (st, if st.cell.hasSide a b then "1" else "0")
      | _, _ => (st, "bad-op")
  | ["cdegree_with2", a, b] => match a.toInt?, b.toInt? with
      | some a, some b => (st, toString (st.cell.degreeWith2 a b))
      | _, _ => (st, "bad-op")
  | ["clist_with2", a, b, m] => match a.toInt?, b.toInt?, m.toInt? with
      | some a, some b, some m =>
        if m < 0 ∨ m > 1024 then (st, "bad-op") else
        let r := st.cell.listWith2 a b m
        (st, if r.1 = .ok then s!"ok {r.2.length} {joinI r.2}" else stName r.1)
      | _, _, _ => (st, "bad-op")
  | ["cnode_list_around", v, m] => match v.toInt?, m.toInt? with
      | some v, some m =>
        if m < 0 ∨ m > 1024 then (st, "bad-op") else
        let r := st.cell.nodeListAround v m
        (st, if r.1 = .ok then s!"ok {r.2.length} {joinI r.2}" else stName r.1)
      | _, _ => (st, "bad-op")
  | ["cid_list_around", v, m] => match v.toInt?, m.toInt? with
      | some v, some m =>
        if m < 0 ∨ m > 1024 ∨ st.cell.sizePer = st.cell.nodePer then (st, "bad-op") else
        let r := st.cell.idListAround v m
        (st, if r.1 = .ok then s!"ok {r.2.length} {joinI r.2}" else stName r.1)
      | _, _ => (st, "bad-op")
  | ["cnodes", c] => match c.toInt? with
      | some c => let r := st.cell.nodes c; (st, if r.1 = .ok then s!"ok {joinI r.2}" else stName r.1)
      | none => (st, "bad-op")
  | ["cvalid", c] => match c.toInt? with
      | some c => (st, if st.cell.validCell c then "1" else "0")
      | none => (st, "bad-op")
  | ["cn"] => (st, s!"{st.cell.n} {st.cell.max}")
  | ["ccompact"] =>
      let r := st.cell.compact
      (st, if r.1 = .ok then s!"ok | {joinI r.2.1} | {joinI r.2.2}" else stName r.1)
  | ["cpack", k] => match k.toInt? with
      | some k =>
        if k < 1 ∨ k > 100000 ∨ !cellNodesBelow st.cell k then (st, "bad-op") else
        let o2n := (List.range k.toNat).map fun (i : Nat) => k - 1 - (i : Int)
        let r := st.cell.pack o2n
        ({ st with cell := r.2 }, stName r.1)
      | none => (st, "bad-op")
  | ["cdump"] => (st, cellDump st.cell)
  | _ => (st, "bad-op")

def run (_ : List String) : IO UInt32 := do
  runLoop initSt step
  return 0

end Drivers.NodeCell
