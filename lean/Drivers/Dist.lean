import Drivers.Proto
import Refine.Model.Dist

/-!
  driver `dist`: the distributed-mesh model `Refine.Model.Dist` behind the line protocol of `harness/h_dist.c`.

  `refdrv dist`            function-level ops (kind `diff`), one output line per op:
      sync np | old new S slot… U unused… | …      slot = `x` (hole) | `g` | `g:h` (globals g..h-1); unused = `g` | `g:h`
          -> per rank `newN oldN nUnused T local:global …` joined by ` | `
      elimoff g… ; u…                               -> `ref_node_eliminate_unused_offset`
      active chunk a0 counts…                       -> `ref_node_eliminate_active_parts`: `active1 nactive`
      cellpart g,p g,p …                            -> `ok cell_node part`
      ghost np ty ldim | g,p,v,… … | …              -> per rank `g:v,… …`
  `refdrv dist validate`   state dumps of real runs (kind `validate`): `state …` lines are judged by `distInv`,
      `syncpair …` lines re-run `syncGlobals` on the dumped pre-state and compare with the dumped post-state.
-/
namespace Drivers.Dist
open Drivers.Proto Refine.Model.NodeIds Refine.Model.Dist
open Refine.Model.Comm (RefType)

def splitBar (ws : List String) : List (List String) :=
  let r := ws.foldr (fun t (acc : List String × List (List String)) =>
    if t == "|" then ([], acc.1 :: acc.2) else (t :: acc.1, acc.2)) ([], [])
  r.1 :: r.2

def groupsOf (np : Nat) (rest : List String) : Option (List (List String)) :=
  match splitBar rest with
  | [] :: gs => if gs.length == np && np ≥ 1 then some gs else none
  | _ => none

def join (ws : List String) : String := " ".intercalate ws
def fmtWorld (rs : List String) : String := " | ".intercalate rs

def LIM : Int := 1000000000
def MAXSLOT : Nat := 3000
def MAXUNUSED : Nat := 300000

def inLim (g : Int) : Bool := decide (0 ≤ g) && decide (g < LIM)

/-- `g` or `g:h` -> the globals it stands for (`none` when malformed / out of range / too long) -/
def rangeTok (t : String) (cap : Nat) : Option (List Int) :=
  match t.splitOn ":" with
  | [a] => match a.toInt? with
    | some g => if inLim g then some [g] else none
    | none => none
  | [a, b] => match a.toInt?, b.toInt? with
    | some g, some h =>
      if inLim g && inLim h && decide (g ≤ h) && decide ((h - g).toNat ≤ cap) then
        some ((List.range (h - g).toNat).map fun (i : Nat) => g + (i : Int))
      else none
    | _, _ => none
  | _ => none

/-- slots: `none` = hole -/
def parseSlots : List String → Option (List (Option Int))
  | [] => some []
  | "x" :: rest => (parseSlots rest).map (none :: ·)
  | t :: rest => match rangeTok t MAXSLOT, parseSlots rest with
    | some gs, some r => some (gs.map some ++ r)
    | _, _ => none

def parseUnused : List String → Option (List Int)
  | [] => some []
  | t :: rest => match rangeTok t MAXUNUSED, parseUnused rest with
    | some gs, some r => some (gs ++ r)
    | _, _ => none

def hasAdjDup : List Int → Bool
  | a :: b :: rest => a == b || hasAdjDup (b :: rest)
  | _ => false

structure SyncIn where
  oldN : Int
  newN : Int
  slots : List (Option Int)
  unused : List Int

def parseSyncGroup (g : List String) : Option SyncIn :=
  match g with
  | o :: n :: "S" :: rest =>
    let slotToks := rest.takeWhile (· != "U")
    let tail := rest.dropWhile (· != "U")
    match o.toInt?, n.toInt?, tail with
    | some o, some n, "U" :: utoks =>
      match parseSlots slotToks, parseUnused utoks with
      | some sl, some un =>
        let live := sl.filterMap id
        if decide (-1 ≤ o) && decide (o < LIM) && decide (-1 ≤ n) && decide (n < LIM) &&
           decide (sl.length ≤ MAXSLOT) && decide (un.length ≤ MAXUNUSED) && !hasAdjDup (sortGlob live) then
          some ⟨o, n, sl, un⟩
        else none
      | _, _ => none
    | _, _, _ => none
  | _ => none

/-- the harness recipe: `ref_node_create`; `ref_node_add` of every slot's global (holes get a dummy id);
    `ref_node_remove_without_global` of the holes; `ref_node_push_unused` in order; the two counters -/
def buildIds (i : SyncIn) : NodeIds :=
  let s0 := i.slots.zipIdx.foldl (fun (s : NodeIds) (gv : Option Int × Nat) =>
    (s.add (gv.1.getD (LIM + (gv.2 : Int)))).2.2) NodeIds.create
  let s1 := i.slots.zipIdx.foldl (fun (s : NodeIds) (gv : Option Int × Nat) =>
    if gv.1.isNone then (s.removeWithoutGlobal (gv.2 : Int)).2 else s) s0
  -- `pushUnused` one by one (its `maxUnused` bookkeeping is irrelevant here and makes it quadratic)
  { s1 with unusedStk := i.unused.reverse, oldN := i.oldN, newN := i.newN }

def fmtTable (s : NodeIds) : String :=
  join ((liveTable s).map fun lg => s!"{lg.1}:{lg.2}")

def fmtIds (s : NodeIds) : String :=
  s!"{s.newN} {s.oldN} {s.nUnused} T " ++ fmtTable s

def opSync (np : Nat) (rest : List String) : String :=
  match groupsOf np rest with
  | none => "bad-op"
  | some gs => match gs.mapM parseSyncGroup with
    | none => "bad-op"
    | some ins => fmtWorld ((syncGlobals (ins.map buildIds)).map fun s => (fmtIds s).trimAscii.toString)

/-! ### real-run pre/post pairs -/

def parseGlobalArr : List String → Option (List Int)
  | [] => some []
  | "x" :: rest => (parseGlobalArr rest).map ((-1) :: ·)
  | t :: rest => match t.toInt?, parseGlobalArr rest with
    | some g, some r => some (g :: r)
    | _, _ => none

def parsePairTok (t : String) : Option (Int × Nat) :=
  match t.splitOn ":" with
  | [a, b] => match a.toInt?, b.toNat? with
    | some g, some l => some (g, l)
    | _, _ => none
  | _ => none

/-- `old new G global… S sg:sl… U unused… R <expected rendering>` -/
def parsePairGroup (g : List String) : Option (NodeIds × String) :=
  match g with
  | o :: n :: "G" :: rest =>
    let gt := rest.takeWhile (· != "S")
    let r1 := (rest.dropWhile (· != "S")).drop 1
    let st := r1.takeWhile (· != "U")
    let r2 := (r1.dropWhile (· != "U")).drop 1
    let ut := r2.takeWhile (· != "R")
    let r3 := (r2.dropWhile (· != "R")).drop 1
    match o.toInt?, n.toInt?, parseGlobalArr gt, st.mapM parsePairTok, ut.mapM String.toInt? with
    | some o, some n, some ga, some so, some un =>
      some ({ n := so.length, blank := -1, global := ga, part := [], sorted := so, unusedStk := un.reverse,
              maxUnused := 0, oldN := o, newN := n }, join r3)
    | _, _, _, _, _ => none
  | _ => none

def opSyncPair (np : Nat) (rest : List String) : String :=
  match groupsOf np rest with
  | none => "bad syncpair parse"
  | some gs => match gs.mapM parsePairGroup with
    | none => "bad syncpair parse"
    | some prs =>
      let post := syncGlobals (prs.map (·.1))
      let got := post.map fun s => (fmtIds s).trimAscii.toString
      let exp := prs.map (·.2)
      match (got.zip exp).zipIdx.find? fun x => x.1.1 != x.1.2 with
      | some x => s!"bad syncpair rank {x.2} model [{(x.1.1.take 200).toString}] impl [{(x.1.2.take 200).toString}]"
      | none =>
        let live := (post.map fun s => (liveTable s).length).foldl (· + ·) 0
        let unused := (prs.map fun p => p.1.nUnused).foldl (· + ·) 0
        let fresh := (prs.map fun p => (newNodes p.1).toNat).foldl (· + ·) 0
        s!"ok syncpair np={np} live={live} unused={unused} fresh={fresh}"

/-! ### small function-level ops -/

def opElimOff (rest : List String) : String :=
  let gt := rest.takeWhile (· != ";")
  let ut := (rest.dropWhile (· != ";")).drop 1
  match gt.mapM String.toInt?, ut.mapM String.toInt? with
  | some gs, some us =>
    if rest.contains ";" && gs.all inLim && us.all inLim then join ("ok" :: (elimOffset gs us).map toString) else "bad-op"
  | _, _ => "bad-op"

def opActive (rest : List String) : String :=
  match rest with
  | c :: a :: cs => match c.toInt?, a.toNat?, cs.mapM String.toInt? with
    | some chunk, some a0, some counts =>
      if decide (a0 < counts.length) && counts.all inLim && inLim chunk then
        let r := activeParts counts chunk a0
        s!"ok {r.1} {r.2}"
      else "bad-op"
    | _, _, _ => "bad-op"
  | _ => "bad-op"

def parseGP (t : String) : Option (Int × Int) :=
  match t.splitOn "," with
  | [a, b] => match a.toInt?, b.toInt? with
    | some g, some p => if inLim g && decide (-1 ≤ p) && decide (p < 1000) then some (g, p) else none
    | _, _ => none
  | _ => none

def opCellPart (rest : List String) : String :=
  match rest.mapM parseGP with
  | some vs =>
    let n := vs.length
    if (n == 2 || n == 3 || n == 4 || n == 5 || n == 6 || n == 8) && !hasAdjDup (sortGlob (vs.map (·.1))) then
      s!"ok {cellPartNode (vs.map (·.1))} {cellOwner vs}"
    else "bad-op"
  | none => "bad-op"

def isHex16 (s : String) : Bool := s.length == 16 && (parseHex? s).isSome

def parseGhostNode (ty : RefType) (ldim np : Nat) (t : String) : Option (GNode String) :=
  match t.splitOn "," with
  | a :: b :: vs => match a.toInt?, b.toInt? with
    | some g, some p =>
      let okv := if ty == RefType.dbl then vs.all isHex16
                 else vs.all fun v => match v.toInt? with
                   | some x => decide (-LIM < x) && decide (x < LIM)
                   | none => false
      if inLim g && decide (0 ≤ p) && decide (p < (np : Int)) && vs.length == ldim && okv then some ⟨g, p, vs⟩ else none
    | _, _ => none
  | _ => none

/-- the harness refuses (bad-op) worlds in which some ghost is not stored on the rank named by its part
    (a failing `ref_node_local` on one rank would leave the others blocked) or a rank lists a global twice -/
def ghostWorldOk (w : List (List (GNode String))) : Bool :=
  w.zipIdx.all fun nr =>
    !hasAdjDup (sortGlob (nr.1.map (·.glob))) && decide (nr.1.length ≤ MAXSLOT) &&
    nr.1.all fun nd => nd.part == (nr.2 : Int) ||
      match w[nd.part.toNat]? with
      | some o => o.any fun od => od.glob == nd.glob
      | none => false

def opGhost (np : Nat) (rest : List String) : String :=
  match splitBar rest with
  | [tyS, ldS] :: gs =>
    let ty? : Option RefType := match tyS with
      | "int" => some RefType.int | "glob" => some RefType.long | "dbl" => some RefType.dbl | _ => none
    match ty?, ldS.toNat? with
    | some ty, some ldim =>
      if gs.length != np || np < 1 || ldim < 1 || ldim > 16 then "bad-op" else
      match gs.mapM fun g => g.mapM (parseGhostNode ty ldim np) with
      | none => "bad-op"
      | some w =>
        if !ghostWorldOk w then "bad-op" else
        match ghost ty ldim w with
        | none => "hang"
        | some w' => fmtWorld (w'.map fun nodes =>
            join ("ok" :: nodes.map fun nd => s!"{nd.glob}:{",".intercalate nd.vals}"))
    | _, _ => "bad-op"
  | _ => "bad-op"

def step (_ : Unit) (line : String) : Unit × String :=
  match words line with
  | "sync" :: np :: rest => match np.toNat? with
    | some np => ((), opSync np rest)
    | none => ((), "bad-op")
  | "ghost" :: np :: rest => match np.toNat? with
    | some np => ((), opGhost np rest)
    | none => ((), "bad-op")
  | "elimoff" :: rest => ((), opElimOff rest)
  | "active" :: rest => ((), opActive rest)
  | "cellpart" :: rest => ((), opCellPart rest)
  | _ => ((), "bad-op")

/-! ### validate mode -/

def parseDNode (t : String) : Option DNode :=
  match t.splitOn "," with
  | a :: b :: vs => match a.toInt?, b.toInt?, vs.mapM parseHex? with
    | some g, some p, some pl => some ⟨g, p, pl⟩
    | _, _, _ => none
  | _ => none

def parseDCell (t : String) : Option DCell :=
  match t.splitOn "," with
  | a :: b :: vs => match a.toNat?, b.toInt?, vs.mapM String.toInt? with
    | some grp, some id, some ns => some ⟨grp, ns, id⟩
    | _, _, _ => none
  | _ => none

/-- `old new nunused N node… C cell…` -/
def parseRankState (g : List String) : Option RankState :=
  match g with
  | o :: n :: u :: "N" :: rest =>
    let nt := rest.takeWhile (· != "C")
    let ct := (rest.dropWhile (· != "C")).drop 1
    match o.toInt?, n.toInt?, u.toNat?, nt.mapM parseDNode, ct.mapM parseDCell with
    | some o, some n, some u, some nodes, some cells => some ⟨nodes, cells, o, n, u⟩
    | _, _, _, _, _ => none
  | _ => none

def opState (label : String) (np : Nat) (rest : List String) : String :=
  match groupsOf np rest with
  | none => s!"bad parse {label}"
  | some gs => match gs.mapM parseRankState with
    | none => s!"bad parse {label}"
    | some w =>
      match distCheck w with
      | some clause => s!"bad {clause} {label} np={np}"
      | none =>
        s!"ok {label} np={np} owned={(ownedGlobals w).length} cells={(allCells w).length} synced={synced w}"

def stepValidate (_ : Unit) (line : String) : Unit × String :=
  match words line with
  | "state" :: label :: np :: rest => match np.toNat? with
    | some np => ((), opState label np rest)
    | none => ((), "bad parse")
  | "syncpair" :: np :: rest => match np.toNat? with
    | some np => ((), opSyncPair np rest)
    | none => ((), "bad parse")
  | "note" :: rest => ((), "ok note " ++ join rest)
  | _ => ((), "bad parse")

def run (args : List String) : IO UInt32 := do
  match args with
  | ["validate"] => runLoop () stepValidate
  | _ => runLoop () step
  return 0

end Drivers.Dist
