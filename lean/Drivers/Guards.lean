import Drivers.Proto
import Refine.Model.Guards

/-! driver `guards`: the adaptation guards of C02 at the `Float` instance.
    Stateless: every op line carries its own local configuration

      `<op> i0 i1 i2 i3 <w:hex> nn <3*nn hex xyz> ncell <cells>`

    cells: `edg a b id | tri a b c id | qua a b c d id | tet a b c d | pyr ×5 | pri ×6 | hex ×8`, in the order
    they are handed to `ref_cell_add`.  Output: `<status> [payload]`, payload only for `ok`.
    `refdrv guards validate` checks the trial-vertex dumps of a real `ref_split_pass` / the moved-or-not
    records of the real boundary smoothers against the model (see `vstep`). -/
namespace Drivers.Guards
open Drivers.Proto Refine Refine.Model Refine.Model.Geom Refine.Model.Guards

abbrev F := Float

def v3s : List F → List (V3 F)
  | x :: y :: z :: rest => ⟨x, y, z⟩ :: v3s rest
  | _ => []

def fV (v : V3 F) : String := fmtFs [v.x, v.y, v.z]
def b01 (b : Bool) : String := if b then "1" else "0"

/-- `(number of nodes, has a face id)` -/
def kindShape : String → Option (Nat × Bool)
  | "edg" => some (2, true) | "tri" => some (3, true) | "qua" => some (4, true)
  | "tet" => some (4, false) | "pyr" => some (5, false) | "pri" => some (6, false) | "hex" => some (8, false)
  | _ => none

def addCell (g : Grid) (k : String) (c : Cell) : Grid :=
  match k with
  | "edg" => { g with edg := g.edg ++ [c] }
  | "tri" => { g with tri := g.tri ++ [c] }
  | "qua" => { g with qua := g.qua ++ [c] }
  | "tet" => { g with tet := g.tet ++ [c] }
  | "pyr" => { g with pyr := g.pyr ++ [c] }
  | "pri" => { g with pri := g.pri ++ [c] }
  | _ => { g with hex := g.hex ++ [c] }

/-- `none` on a malformed list / node out of range -/
partial def parseCells (nn : Nat) (ws : List String) (g : Grid) (count : Nat) : Option (Grid × Nat) :=
  match ws with
  | [] => some (g, count)
  | k :: rest =>
    match kindShape k with
    | none => none
    | some (sz, hasId) =>
      let need := if hasId then sz + 1 else sz
      if rest.length < need then none else
      match parseNats? (rest.take sz) with
      | none => none
      | some ns =>
        if !ns.all (· < nn) then none else
        let idv : Option Int := if hasId then (rest.getD sz "").toInt? else some 0
        match idv with
        | none => none
        | some i =>
          if i < -1000000 || i > 1000000 then none else
          parseCells nn (rest.drop need) (addCell g k ⟨ns, i⟩) (count + 1)

structure Op where
  i0 : Nat
  i1 : Nat
  i2 : Nat
  i3 : Nat
  w : F
  nn : Nat
  xyz : List (V3 F)
  g : Grid

def parseOp (ws : List String) : Option Op :=
  match ws with
  | a :: b :: c :: d :: wf :: nns :: rest =>
    match a.toNat?, b.toNat?, c.toNat?, d.toNat?, parseF? wf, nns.toNat? with
    | some i0, some i1, some i2, some i3, some w, some nn =>
      if nn == 0 || nn > 400 || rest.length < 3 * nn + 1 then none else
      match parseFs? (rest.take (3 * nn)) with
      | none => none
      | some xs =>
        match rest.drop (3 * nn) with
        | ncs :: cw =>
          match ncs.toNat?, parseCells nn cw {} 0 with
          | some nc, some (g, count) =>
            if count == nc then some ⟨i0, i1, i2, i3, w, nn, v3s xs, g⟩ else none
          | _, _ => none
        | [] => none
    | _, _, _, _, _, _ => none
  | _ => none

def stB (r : Status × Bool) : String :=
  if r.1 = Status.ok then "ok " ++ b01 r.2 else r.1.name

def optNode : Option Nat → String
  | some n => toString n
  | none => "-1"

def finiteXyz (o : Op) : Bool := o.xyz.all fun p => p.x.isFinite && p.y.isFinite && p.z.isFinite

def step (_ : Unit) (line : String) : Unit × String :=
  let r : String :=
    match words line with
    | [] => "bad-op"
    | op :: rest =>
      match parseOp rest with
      | none => "bad-op"
      | some o =>
        let n0 := o.i0
        let n1 := o.i1
        if n0 ≥ o.nn || n1 ≥ o.nn || o.i2 ≥ o.nn + 2 || o.i3 ≥ o.nn + 2 then "bad-op" else
        match op with
        | "cgeom" => if o.i2 > 1 || o.i3 > 1 then "bad-op" else
                     stB (collapseEdgeGeometry o.g (o.i2 == 1) (o.i3 == 1) n0 n1)
        | "cmixed" => "ok " ++ b01 (collapseEdgeMixed o.g n0 n1)
        | "smixed" => "ok " ++ b01 (splitEdgeMixed o.g n0 n1)
        | "wmixed" => "ok " ++ b01 (swapEdgeMixed o.g n0 n1)
        | "vmixed" => "ok " ++ b01 (cavityMixed o.g n0 n1)
        | "wsame" => stB (swapSameFaceid o.g n0 n1)
        | "wnode23" =>
          (match swapNode23 o.g n0 n1 with
           | (Status.ok, n2, n3) => s!"ok {n2} {n3}"
           | (st, _, _) => st.name)
        | "wmanifold" => stB (swapManifold o.g n0 n1)
        | "wconf" => stB (swapConforming o.g o.xyz n0 n1)
        | "cnormal" => stB (collapseEdgeSameNormal o.g o.xyz n0 n1)
        | "ctangent" => stB (collapseEdgeSameTangent o.g o.xyz n0 n1)
        | "cchord" => stB (collapseEdgeChordHeight o.g o.xyz n0 n1)
        | "snormal" => stB (smoothNodeSameNormal o.g o.xyz n0)
        | "stangent" => if o.i2 ≥ o.nn then "bad-op" else stB (smoothNodeSameTangent o.xyz n0 n1 o.i2)
        | "sneigh" =>
          (match smoothEdgeNeighbors o.g n0 with
           | (Status.ok, a, b) => "ok " ++ optNode a ++ " " ++ optNode b
           | (st, _, _) => st.name)
        | "interp" => "ok " ++ fV (interpolateEdge o.xyz n0 n1 o.w)
        | "clamp" => "ok " ++ fmtF (clampWeight o.w)
        | _ => "bad-op"
  ((), r)

/-- validate mode.
    `trial <raw> <w> <x0 y0 z0> <x1 y1 z1> <xn yn zn>`: one call of `ref_node_interpolate_edge` made by the real
    `ref_split_pass`: the weight it passed must be the clamp of the raw weight and the new vertex the
    interpolation.
    `sm <tri|edg> <moved 0|1> i0 i1 i2 i3 w nn xyz.. nc cells..`: the real `ref_smooth_no_geom_*_improve` ran on
    node i0; if the model's guard chain says frozen the vertex must not have moved. -/
def vstep (_ : Unit) (line : String) : Unit × String :=
  let r : String :=
    match words line with
    | "trial" :: rest =>
      (match parseFs? rest with
       | some [raw, w, x0, y0, z0, x1, y1, z1, xn, yn, zn] =>
         let wc := clampWeight raw
         let p := interpolateEdgeXyz (⟨x0, y0, z0⟩ : V3 F) ⟨x1, y1, z1⟩ w
         if fmtF wc != fmtF w then "bad trial weight " ++ fmtF w ++ " is not the clamp " ++ fmtF wc ++ " of " ++ fmtF raw
         else if fV p != fV ⟨xn, yn, zn⟩ then "bad trial vertex " ++ fV ⟨xn, yn, zn⟩ ++ " model " ++ fV p
         else "ok trial"
       | _ => "bad trial parse")
    | "sm" :: kind :: moved :: rest =>
      (match parseOp rest with
       | none => "bad sm parse"
       | some o =>
         if o.i0 ≥ o.nn then "bad sm parse" else
         let fr : Status × Bool :=
           if kind == "tri" then smoothTriFrozen o.g false o.xyz o.i0 else smoothEdgeFrozen o.g false o.xyz o.i0
         if fr.1 = Status.ok && fr.2 && moved != "0" then "bad sm moved a frozen vertex"
         else if fr.1 = Status.ok && fr.2 then "ok sm frozen"
         else if fr.1 = Status.ok then "ok sm free " ++ moved
         else "ok sm status " ++ fr.1.name)
    | "skip" :: _ => "ok skip"
    | _ => "bad line"
  ((), r)

def run (args : List String) : IO UInt32 := do
  match args with
  | ["validate"] => runLoop () vstep
  | _ => runLoop () step
  return 0

end Drivers.Guards
