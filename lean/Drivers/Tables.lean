import Drivers.Proto
import Refine.Model.CellTopo

/-! driver `tables`: cell-type tables and partition macros (ties the translator output to the compiled C) -/
namespace Drivers.Tables
open Drivers.Proto Refine.Gen.CellTables Refine.Gen.PartMacros Refine.Model.CellTopo

def findType (n : String) : Option CellType := all.find? (·.name == n)

def step (_ : Unit) (line : String) : Unit × String :=
  let r : String := match words line with
    | ["per", t] => match findType t with
        | some c => s!"{c.nodePer} {c.edgePer} {c.facePer} {if c.lastNodeIsId then 1 else 0}"
        | none => "bad-op"
    | ["e2n", t, e, i] => match findType t, e.toNat?, i.toNat? with
        | some c, some e, some i => match c.e2n[e]? >>= (·[i]?) with
            | some v => toString v | none => "range"
        | _, _, _ => "bad-op"
    | ["f2n", t, f, i] => match findType t, f.toNat?, i.toNat? with
        | some c, some f, some i => match c.f2n[f]? >>= (·[i]?) with
            | some v => toString v | none => "range"
        | _, _, _ => "bad-op"
    | ["first", n, p, k] => match n.toInt?, p.toInt?, k.toInt? with
        | some n, some p, some k => toString (ref_part_first n p k)
        | _, _, _ => "bad-op"
    | ["implicit", n, p, g] => match n.toInt?, p.toInt?, g.toInt? with
        | some n, some p, some g => toString (ref_part_implicit n p g)
        | _, _, _ => "bad-op"
    | _ => "bad-op"
  ((), r)

def run (args : List String) : IO UInt32 := do
  match args with
  | ["witness"] =>
    for c in volumeTypes do
      for w in witnesses c do IO.println w
    return 0
  | _ =>
    runLoop () step
    return 0

end Drivers.Tables
