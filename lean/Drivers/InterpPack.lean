import Drivers.Proto
import Refine.Model.InterpPack

/-! driver `interppack`: replays one `pack …` op of `harness/h_interppack.c` on the model — `NodeIds.add` / `remove`
    (slot recycling), `NodeIds.stableCompact` / `compact` / `pack`, `InterpPack.interpRemove` / `interpResize` /
    `interpPack` / `packSlots` — and prints the same line. -/
namespace Drivers.InterpPack
open Drivers.Proto Refine.Model Refine.Model.NodeIds Refine.Model.InterpPack
open Refine.Model.Geom (V3)

abbrev F := Float

def junk : F := 0.0 / 0.0

structure St where
  ids : NodeIds
  xyz : List (V3 F)
  it : Interp F

/-- `cnt x1 .. xcnt` off the front -/
def takeList : List Int → Option (List Int × List Int)
  | [] => none
  | c :: rest => if c < 0 ∨ rest.length < c.toNat then none else some (rest.take c.toNat, rest.drop c.toNat)

def padXyz (xyz : List (V3 F)) (max : Nat) : List (V3 F) :=
  xyz ++ List.replicate (max - xyz.length) ⟨0.0, 0.0, 0.0⟩

/-- `ref_node_add` + the coordinates written by the caller -/
def addNode (st : St) (g : Int) (p : V3 F) : Option St :=
  match st.ids.add g with
  | (.ok, slot, ids) => some { st with ids := ids, xyz := (padXyz st.xyz ids.max).set slot p }
  | _ => none

def brick (l m n : Nat) : Option St :=
  let dx : F := (1.0 - 0.0) / Float.ofNat (l - 1)
  let dy : F := (1.0 - 0.0) / Float.ofNat (m - 1)
  let dz : F := (1.0 - 0.0) / Float.ofNat (n - 1)
  let st0 : St := { ids := NodeIds.create, xyz := padXyz [] 20, it := ⟨0, [], [], [], []⟩ }
  (List.range (l * m * n)).foldlM (fun st g =>
    let i := g % l
    let j := (g / l) % m
    let k := g / (l * m)
    addNode st g ⟨0.0 + dx * Float.ofNat i, 0.0 + dy * Float.ofNat j, 0.0 + dz * Float.ofNat k⟩) st0

def payload (seed max : Nat) : Interp F :=
  { max := max,
    hired := List.replicate max false,
    cell := (List.range max).map fun i => ((1000 * seed + 7 * i + 1 : Nat) : Int),
    part := (List.range max).map fun i => (((i + seed) % 4 : Nat) : Int),
    bary := (List.range (4 * max)).map fun q => 0.25 * Float.ofNat q + Float.ofNat seed }

def kill (rm : Bool) (st : St) (node : Int) : Option St :=
  if !st.ids.validSlot node then none else
  let it? := if rm ∧ node.toNat < st.it.max then interpRemove st.it node.toNat else some st.it
  match it?, st.ids.remove node with
  | some it, (.ok, ids) => some { st with ids := ids, it := it }
  | _, _ => none

def addNew (st : St) (g : Int) : Option St :=
  if g < 0 ∨ g > 1000000 ∨ (st.ids.localOf g).1 = .ok then none else
  let x : F := Float.ofInt g
  addNode st g ⟨x, x + 0.5, -x⟩

def ghost (st : St) (node : Int) : Option St :=
  if !st.ids.validSlot node then none
  else some { st with ids := { st.ids with part := st.ids.part.set node.toNat 1 } }

def hire (st : St) (node : Int) : Option St :=
  if node < 0 ∨ node.toNat ≥ st.it.max then none
  else some { st with it := { st.it with hired := st.it.hired.set node.toNat true } }

/-- valid slots sorted by global -/
def liveSorted (ids : NodeIds) : List (Int × Nat) :=
  (((List.range ids.max).filter ids.liveAt).map fun v => (ids.global.getD v (-1), v)).mergeSort
    (fun a b => decide (a.1 ≤ b.1))

def dump (tag : String) (st : St) : String :=
  let ls := liveSorted st.ids
  let recs := ls.map fun (g, v) =>
    let p := st.xyz.getD v ⟨0.0, 0.0, 0.0⟩
    let head := s!"{g} {fmtFs [p.x, p.y, p.z]}"
    if v < st.it.max then
      let b := baryAt junk st.it v
      s!"{head} {cellAt st.it v} {partAt st.it v} {fmtFs [b.b0, b.b1, b.b2, b.b3]}"
    else s!"{head} -1 -1 nan nan nan nan"
  " ".intercalate (s!"{tag} {ls.length}" :: recs)

def runPack (mode : String) (st : St) : String :=
  let r := if mode = "compact" then st.ids.compact 0 else st.ids.stableCompact
  match r with
  | (.ok, o2n, n2o) =>
    let n := st.ids.n
    let ids' := st.ids.pack o2n n2o
    let z : V3 F := ⟨0.0, 0.0, 0.0⟩
    (match interpPack junk n 0 n2o st.it with
     | .error .oob => s!"oob n {n} max {st.it.max}"
     | .error .failure => s!"failure n {n} max {st.it.max}"
     | .ok it' =>
       let st' : St := { ids := ids', xyz := packSlots n n2o st.xyz z, it := it' }
       let dead := ((List.range it'.max).filter fun i =>
         decide (n ≤ i) && (cellAt it' i != -1 || partAt it' i != -1)).length
       s!"ok n {n} max {it'.max} {dump "pre" st} {dump "post" st'} dead {dead}")
  | (s, _, _) => s!"{s.name} n {st.ids.n} max {st.it.max}"

def doOp (ws : List String) : String :=
  match ws with
  | "pack" :: mode :: rest =>
    (match parseInts? rest with
     | some (l :: m :: n :: seed :: rm :: resize :: lists) =>
       if (mode ≠ "stable" ∧ mode ≠ "compact" ∧ mode ≠ "gstable" ∧ mode ≠ "grid") ∨ l < 2 ∨ m < 2 ∨ n < 2 ∨ l * m * n > 200
          ∨ seed < 0 ∨ seed > 1000 ∨ resize < 0 ∨ resize > 20000 then "bad-op" else
       (match takeList lists with
        | some (ks, r1) => match takeList r1 with
          | some (as, r2) => match takeList r2 with
            | some (gs, r3) => match takeList r3 with
              | some (hs, []) =>
                if mode = "gstable" ∨ mode = "grid" then "skip" else
                let st? : Option St := do
                  let st ← brick l.toNat m.toNat n.toNat
                  let st := { st with it := payload seed.toNat st.ids.max }
                  let st ← ks.foldlM (kill (rm != 0)) st
                  let st ← as.foldlM addNew st
                  let st := if resize > 0 then { st with it := interpResize junk st.it resize.toNat } else st
                  let st ← gs.foldlM ghost st
                  hs.foldlM hire st
                (match st? with
                 | none => "bad-op"
                 | some st => runPack mode st)
              | _ => "bad-op"
            | none => "bad-op"
          | none => "bad-op"
        | none => "bad-op")
     | _ => "bad-op")
  | _ => "bad-op"

def step (_ : Unit) (line : String) : Unit × String := ((), doOp (words line))

def run (_ : List String) : IO UInt32 := do
  runLoop () step
  return 0

end Drivers.InterpPack
