/-
  Line protocol shared by all drivers (DESIGN.md 3.4).
  One op per input line, exactly one output line per op.  Lines starting
  with `#` are comments: skipped, no output.  Doubles travel as 16 hex digits
  (IEEE-754 bit pattern), integers in decimal.
-/
namespace Drivers.Proto

def hexDigit? (c : Char) : Option Nat :=
  if '0' ≤ c ∧ c ≤ '9' then some (c.toNat - '0'.toNat)
  else if 'a' ≤ c ∧ c ≤ 'f' then some (c.toNat - 'a'.toNat + 10)
  else if 'A' ≤ c ∧ c ≤ 'F' then some (c.toNat - 'A'.toNat + 10)
  else none

def parseHex? (s : String) : Option Nat :=
  if s.isEmpty then none else
  s.toList.foldl (fun acc c => match acc, hexDigit? c with
    | some a, some d => some (a * 16 + d)
    | _, _ => none) (some 0)

/-- 16 hex digits -> Float (bit pattern) -/
def parseF? (s : String) : Option Float :=
  if s.length ≠ 16 then none else (parseHex? s).map fun n => Float.ofBits n.toUInt64

def hexChar (n : Nat) : Char :=
  if n < 10 then Char.ofNat ('0'.toNat + n) else Char.ofNat ('a'.toNat + n - 10)

def fmtHex64 (u : UInt64) : String :=
  String.ofList ((List.range 16).map fun i => hexChar ((u.toNat >>> (4 * (15 - i))) % 16))

/-- canonical NaN so that sign/payload of NaN never causes a spurious difference -/
def fmtF (x : Float) : String :=
  if x.isNaN then "nan" else fmtHex64 x.toBits

def words (line : String) : List String :=
  (line.trimAscii.toString.splitOn " ").filter (· ≠ "")

def parseInt? (s : String) : Option Int := s.toInt?

def parseInts? (ws : List String) : Option (List Int) := ws.mapM parseInt?
def parseNats? (ws : List String) : Option (List Nat) := ws.mapM String.toNat?
def parseFs? (ws : List String) : Option (List Float) := ws.mapM parseF?

def fmtInts (xs : List Int) : String := " ".intercalate (xs.map toString)
def fmtNats (xs : List Nat) : String := " ".intercalate (xs.map toString)
def fmtFs (xs : List Float) : String := " ".intercalate (xs.map fmtF)

/-- generic stateful line loop -/
partial def lineLoop {σ : Type} (h : IO.FS.Stream) (out : IO.FS.Stream) (s : σ)
    (step : σ → String → σ × String) : IO Unit := do
  let line ← h.getLine
  if line.isEmpty then
    out.flush
    return ()
  let t := line.trimAscii.toString
  if t.isEmpty || t.startsWith "#" then
    lineLoop h out s step
  else
    let (s', o) := step s t
    out.putStrLn o
    lineLoop h out s' step

def runLoop {σ : Type} (init : σ) (step : σ → String → σ × String) : IO Unit := do
  let stdin ← IO.getStdin
  let stdout ← IO.getStdout
  lineLoop stdin stdout init step

end Drivers.Proto
