import Drivers.Proto
import Refine.Model.Subdiv

/-! driver `subdiv` (C13/C04): same op lines as `harness/h_subdiv.c`, byte-identical output lines.
    New vertices are named by the code `1000000 + 1000*min(a,b) + max(a,b)` of their edge on both sides. -/
namespace Drivers.Subdiv
open Drivers.Proto Refine Refine.Model Refine.Model.Geom Refine.Model.Subdiv
open Refine.Model.Cavity (Tet Tri Edg)

def nodeLimit : Int := 1000

/-- the vertex `ref_subdiv_node_between` returns, as the dump code of `h_subdiv.c` -/
def codeBtw (a b : Int) : Int := 1000000 + 1000 * (if a < b then a else b) + (if a < b then b else a)

structure St where
  glob : List Int
  xyz : List (V3 Float)
  tets : List Tet
  tris : List Tri
  edgs : List Edg
  sub : Option (EdgeTab × List Nat)
  done : Bool

def initSt : St := ⟨[], [], [], [], [], none, false⟩

def isInt (s : String) : Bool :=
  let cs := s.toList
  let ds := match cs with | '-' :: r => r | r => r
  !ds.isEmpty && s.length ≤ 9 && ds.all fun c => '0' ≤ c && c ≤ '9'

def isHex16 (s : String) : Bool :=
  s.length == 16 && s.toList.all fun c => ('0' ≤ c && c ≤ '9') || ('a' ≤ c && c ≤ 'f')

def ints? (ws : List String) : Option (List Int) :=
  if ws.all isInt then ws.mapM String.toInt? else none

def fmtMarks (m : List Nat) : String := "marks" ++ String.join (m.map fun x => s!" {x}")

def lexLe : List Int → List Int → Bool
  | [], _ => true
  | _ :: _, [] => false
  | a :: as, b :: bs => if a < b then true else if b < a then false else lexLe as bs

def fmtRows (name : String) (rows : List (List Int)) : String :=
  " | " ++ name ++ String.join ((rows.mergeSort lexLe).map fun r => " " ++ ",".intercalate (r.map toString))

def sdOf (st : St) (E : EdgeTab) (m : List Nat) : SD Float :=
  ⟨st.glob, st.xyz, st.tets, st.tris, st.edgs, E, m⟩

def fmtOut (st : St) (E : EdgeTab) (m : List Nat) (o : Out) : String :=
  let pos := posOf codeBtw st.xyz E
  let news := (E.zipIdx.filter fun p => on m p.2).map fun p => codeBtw p.1.1 p.1.2
  let news := news.mergeSort (fun a b => decide (a ≤ b))
  " | " ++ fmtMarks m ++
  fmtRows "tet" (o.tets.map fun t => [t.n0, t.n1, t.n2, t.n3]) ++
  fmtRows "tri" (o.tris.map fun t => [t.n0, t.n1, t.n2, t.id]) ++
  fmtRows "qua" (o.quas.map fun t => [t.n0, t.n1, t.n2, t.n3, t.id]) ++
  fmtRows "edg" (o.edgs.map fun t => [t.n0, t.n1, t.id]) ++
  " | new" ++ String.join (news.map fun c =>
    let x := pos c
    s!" {c}:{fmtF x.x}:{fmtF x.y}:{fmtF x.z}")

def cellOk (st : St) (ns : List Int) : Bool :=
  ns.all (fun v => decide (0 ≤ v) && decide (v < nodeLimit) && decide (v.toNat < st.xyz.length)) && decide ns.Nodup

def finish (st : St) (name : String) (E : EdgeTab) (r : Status × List Nat × Out) : St × String :=
  let line := s!"{name} {r.1.name}" ++ (if r.1 == .ok then fmtOut st E r.2.1 r.2.2 else "")
  ({ st with done := true }, line)

def step (st : St) (line : String) : St × String :=
  let ws := words line
  let bad := (st, "bad-op")
  match ws with
  | ["reset"] => (initSt, "ok")
  | _ =>
  if st.done then bad else
  match ws with
  | ["node", g, x, y, z] =>
    if !(isInt g && isHex16 x && isHex16 y && isHex16 z) then bad else
    match g.toInt?, parseF? x, parseF? y, parseF? z with
    | some g, some x, some y, some z =>
      if st.sub.isSome || g < 0 || g ≥ 1000000 || st.xyz.length ≥ 1000 || st.glob.contains g then bad
      else ({ st with glob := st.glob ++ [g], xyz := st.xyz ++ [⟨x, y, z⟩] }, s!"node {st.xyz.length}")
    | _, _, _, _ => bad
  | ["tet", a, b, c, d] =>
    match ints? [a, b, c, d] with
    | some [a, b, c, d] =>
      if st.sub.isSome || !cellOk st [a, b, c, d] then bad
      else ({ st with tets := st.tets ++ [⟨a, b, c, d⟩] }, "ok")
    | _ => bad
  | ["tri", a, b, c, id] =>
    match ints? [a, b, c, id] with
    | some [a, b, c, id] =>
      if st.sub.isSome || !cellOk st [a, b, c] then bad
      else ({ st with tris := st.tris ++ [⟨a, b, c, id⟩] }, "ok")
    | _ => bad
  | ["edg", a, b, id] =>
    match ints? [a, b, id] with
    | some [a, b, id] =>
      if st.sub.isSome || !cellOk st [a, b] then bad
      else ({ st with edgs := st.edgs ++ [⟨a, b, id⟩] }, "ok")
    | _ => bad
  | ["begin"] =>
    if st.sub.isSome then bad else
    let E := buildEdges st.tets st.tris
    ({ st with sub := some (E, List.replicate E.length 0) },
      "edges" ++ String.join (E.map fun e => s!" {e.1}-{e.2}"))
  | _ =>
  match st.sub with
  | none => bad
  | some (E, m) =>
    let setM (m' : List Nat) : St := { st with sub := some (E, m') }
    match ws with
    | ["mark", a, b] =>
      match ints? [a, b] with
      | some [a, b] =>
        if a < 0 || a ≥ nodeLimit || b < 0 || b ≥ nodeLimit then bad else
        match edgeWith E a b with
        | some e => (setM (m.set e 1), "ok")
        | none => (st, "not_found")
      | _ => bad
    | ["markall"] =>
      let m' := m.map fun _ => 1
      (setM m', fmtMarks m')
    | ["relax"] =>
      let m' := markRelax E st.tets m
      (setM m', fmtMarks m')
    | ["unrelax"] =>
      let r := unmarkRelax st.glob E st.tets m
      (setM r.2, s!"{r.1.name} " ++ fmtMarks r.2)
    | ["unmark_tet", c] =>
      match ints? [c] with
      | some [c] =>
        if c < 0 || c ≥ 100000 || c.toNat ≥ st.tets.length then bad else
        match st.tets[c.toNat]? with
        | some t =>
          let r := unmarkTet st.glob E (cellEdges E t) (m, false)
          (setM r.1, s!"again {if r.2 then 1 else 0} " ++ fmtMarks r.1)
        | none => bad
      | _ => bad
    | ["negcheck"] =>
      let r := negTetGeomSupport codeBtw (posOf codeBtw st.xyz E) E st.tets m
      (setM r.1, s!"again {if r.2 then 1 else 0} " ++ fmtMarks r.1)
    | ["tmap", c] =>
      match ints? [c] with
      | some [c] =>
        if c < 0 || c ≥ 100000 then bad else
        match st.tets[c.toNat]? with
        | some t => (st, s!"tetmap{tetMap E m t}")
        | none => bad
      | _ => bad
    | ["fmap", c] =>
      match ints? [c] with
      | some [c] =>
        if c < 0 || c ≥ 100000 then bad else
        match st.tris[c.toNat]? with
        | some t =>
          let bit (a b : Int) (w : Nat) : Nat :=
            match edgeWith E a b with | some e => w * mk m e | none => 100
          (st, s!"trimap{bit t.n0 t.n1 1 + bit t.n1 t.n2 2 + bit t.n2 t.n0 4}")
        | none => bad
      | _ => bad
    | ["emap", c] =>
      match ints? [c] with
      | some [c] =>
        if c < 0 || c ≥ 100000 then bad else
        match st.edgs[c.toNat]? with
        | some t =>
          (st, s!"edgmap{match edgeWith E t.n0 t.n1 with | some e => mk m e | none => 100}")
        | none => bad
      | _ => bad
    | ["split", ag, nm] =>
      match ints? [ag, nm] with
      | some [ag, nm] => finish st "split" E (split codeBtw (sdOf st E m) (ag != 0) (nm != 0))
      | _ => bad
    | ["rawsplit"] =>
      if !(st.tets.all fun t => supported (tetMap E m t)) then bad else
      let o := splitCells codeBtw st.xyz.length (sdOf st E m) m
      finish st "rawsplit" E (o.1, m, o.2)
    | _ => bad

def run (_args : List String) : IO UInt32 := do
  runLoop initSt step
  return 0

end Drivers.Subdiv
