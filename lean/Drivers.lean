import Drivers.Main
