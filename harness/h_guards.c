/* harness `guards` (property C02): builds the local configuration of an op line in a real REF_GRID
   (ref_node_add / ref_cell_add on the edg/tri/qua/tet/pyr/pri/hex groups, coordinates set) and calls the REAL
   guard of refine on it.  Public guards are called through their headers; the `static` ones
   (ref_swap_edge_mixed, ref_cavity_mixed, ref_smooth_node_same_normal, ref_smooth_node_same_tangent,
   ref_smooth_no_geom_tri_improve, ref_smooth_no_geom_edge_improve) are reached white-box by including
   ref_swap.c / ref_cavity.c / ref_smooth.c (Stream(..., whitebox=[...])).  ref_split.c is included with
   ref_node_interpolate_edge redirected to a recording wrapper so that the weight ref_split_pass really passes
   (after its MIN(0.95,MAX(0.05,w)) clamp) is observable.

   op line:  <op> i0 i1 i2 i3 <w:hex> nn <3*nn hex xyz> ncell <cells>
   cells:    edg a b id | tri a b c id | qua a b c d id | tet a b c d | pyr x5 | pri x6 | hex x8
   output:   <status> [payload]   (payload only for ok)

   The library prints diagnostics on stdout: stdout is redirected to /dev/null and the protocol lines go to a
   dup of the original descriptor.  Failure branches of ref_swap_* export a .tec file into the cwd (the
   check's scratch directory). */
#include <unistd.h>

#include "h_proto.h"
/* */
#include "ref_node.h"
/* every call of ref_node_interpolate_edge made by ref_split.c goes through the recorder */
static REF_STATUS h_spy_interpolate_edge(REF_NODE ref_node, REF_INT node0, REF_INT node1, REF_DBL node1_weight,
                                         REF_INT new_node);
#define ref_node_interpolate_edge h_spy_interpolate_edge
#include "ref_split.c"
#undef ref_node_interpolate_edge
/* */
#include "ref_swap.c"
/* */
#include "ref_cavity.c"
/* */
#include "ref_smooth.c"
/* */
#include "ref_collapse.h"
#include "ref_geom.h"
#include "ref_grid.h"
#include "ref_math.h"
#include "ref_mpi.h"

static FILE *out;
static REF_MPI ref_mpi;

static void pf(double d) {
  fputc(' ', out);
  h_pf(out, d);
}

/* ---- recorder for ref_split_pass trial vertices ------------------------------------------------------ */
static int spy_on = 0;
static int spy_count = 0;
static REF_GRID spy_grid = NULL;
static REF_STATUS h_spy_interpolate_edge(REF_NODE ref_node, REF_INT node0, REF_INT node1, REF_DBL node1_weight,
                                         REF_INT new_node) {
  REF_STATUS st = ref_node_interpolate_edge(ref_node, node0, node1, node1_weight, new_node);
  if (spy_on && REF_SUCCESS == st) {
    /* the raw weight, recomputed with the statements of ref_split_pass (twod/surf branch) */
    REF_DBL ratio01 = 0, ratio0 = 0, ratio1 = 0, raw = 0.5;
    int i;
    int flat = (NULL != spy_grid) && (ref_grid_twod(spy_grid) || ref_grid_surf(spy_grid));
    if (!flat || (REF_SUCCESS == ref_node_ratio(ref_node, node0, node1, &ratio01) &&
        REF_SUCCESS == ref_node_ratio_node0(ref_node, node0, node1, &ratio0) &&
        REF_SUCCESS == ref_node_ratio_node0(ref_node, node1, node0, &ratio1))) {
      if (flat && ref_math_divisible(ratio0, ratio1 + ratio0)) {
        if (0.25 < ratio0 / (ratio0 + ratio1) && ratio0 / (ratio0 + ratio1) < 0.75) {
          raw = 1.0 - ratio0 / (ratio0 + ratio1);
        } else {
          if (ratio0 < ratio1) {
            if (ref_math_divisible(ratio0, ratio01)) raw = 1.0 - ratio0 / ratio01;
          } else {
            if (ref_math_divisible(ratio1, ratio01)) raw = ratio1 / ratio01;
          }
        }
      }
      spy_count++;
      fputs("trial", out);
      pf(raw);
      pf(node1_weight);
      for (i = 0; i < 3; i++) pf(ref_node_xyz(ref_node, i, node0));
      for (i = 0; i < 3; i++) pf(ref_node_xyz(ref_node, i, node1));
      for (i = 0; i < 3; i++) pf(ref_node_xyz(ref_node, i, new_node));
      fputc('\n', out);
    }
  }
  return st;
}

/* ---- parsing ------------------------------------------------------------------------------------------ */
static int is_hex16(const char *s) { return 16 == strlen(s) && 16 == strspn(s, "0123456789abcdefABCDEF"); }
static int is_nat(const char *s) { return 0 < strlen(s) && strlen(s) < 9 && strlen(s) == strspn(s, "0123456789"); }
static int is_int(const char *s) {
  if ('-' == s[0]) s++;
  return is_nat(s);
}
static int kind_of(const char *s, int *size, int *has_id) {
  if (0 == strcmp(s, "edg")) { *size = 2; *has_id = 1; return REF_CELL_EDG; }
  if (0 == strcmp(s, "tri")) { *size = 3; *has_id = 1; return REF_CELL_TRI; }
  if (0 == strcmp(s, "qua")) { *size = 4; *has_id = 1; return REF_CELL_QUA; }
  if (0 == strcmp(s, "tet")) { *size = 4; *has_id = 0; return REF_CELL_TET; }
  if (0 == strcmp(s, "pyr")) { *size = 5; *has_id = 0; return REF_CELL_PYR; }
  if (0 == strcmp(s, "pri")) { *size = 6; *has_id = 0; return REF_CELL_PRI; }
  if (0 == strcmp(s, "hex")) { *size = 8; *has_id = 0; return REF_CELL_HEX; }
  return -1;
}

static long long I[4];
static double W;
static int NN;

/* words from `w0` on: i0 i1 i2 i3 w nn xyz.. nc cells..  -> grid; returns 0 when malformed */
static int build(int w0, REF_GRID *grid_ptr) {
  REF_GRID ref_grid;
  REF_NODE ref_node;
  int i, c, k, w, ncells;
  long long nn, nc;
  if (h_nw < w0 + 7) return 0;
  for (i = 0; i < 4; i++) {
    if (!is_nat(h_w[w0 + i])) return 0;
    I[i] = h_i(h_w[w0 + i]);
  }
  if (!is_hex16(h_w[w0 + 4]) || !is_nat(h_w[w0 + 5])) return 0;
  W = h_f(h_w[w0 + 4]);
  nn = h_i(h_w[w0 + 5]);
  if (nn == 0 || nn > 400) return 0;
  w = w0 + 6;
  if (h_nw - w < 3 * nn + 1) return 0;
  for (i = 0; i < 3 * nn; i++)
    if (!is_hex16(h_w[w + i])) return 0;
  k = w + 3 * (int)nn;
  if (!is_nat(h_w[k])) return 0;
  nc = h_i(h_w[k]);
  k++;
  ncells = 0;
  c = k;
  while (c < h_nw) {
    int size, has_id, kind = kind_of(h_w[c], &size, &has_id);
    if (kind < 0 || h_nw - (c + 1) < size + has_id) return 0;
    for (i = 0; i < size; i++)
      if (!is_nat(h_w[c + 1 + i]) || h_i(h_w[c + 1 + i]) >= nn) return 0;
    if (has_id) {
      if (!is_int(h_w[c + 1 + size])) return 0;
      if (h_i(h_w[c + 1 + size]) < -1000000 || h_i(h_w[c + 1 + size]) > 1000000) return 0;
    }
    c += 1 + size + has_id;
    ncells++;
  }
  if (ncells != nc) return 0;
  NN = (int)nn;
  if (REF_SUCCESS != ref_grid_create(&ref_grid, ref_mpi)) exit(4);
  ref_node = ref_grid_node(ref_grid);
  for (i = 0; i < nn; i++) {
    REF_INT node;
    if (REF_SUCCESS != ref_node_add(ref_node, i, &node) || node != i) exit(5);
    for (c = 0; c < 3; c++) ref_node_xyz(ref_node, c, node) = h_f(h_w[w + 3 * i + c]);
    for (c = 3; c < REF_NODE_REAL_PER; c++) ref_node_real(ref_node, c, node) = 0.0;
  }
  c = k;
  while (c < h_nw) {
    int size, has_id, kind = kind_of(h_w[c], &size, &has_id);
    REF_INT nodes[REF_CELL_MAX_SIZE_PER], cell;
    for (i = 0; i < size; i++) nodes[i] = (REF_INT)h_i(h_w[c + 1 + i]);
    if (has_id) nodes[size] = (REF_INT)h_i(h_w[c + 1 + size]);
    if (REF_SUCCESS != ref_cell_add(ref_grid_cell(ref_grid, kind), nodes, &cell)) exit(6);
    c += 1 + size + has_id;
  }
  *grid_ptr = ref_grid;
  return 1;
}

static void st_bool(REF_STATUS st, REF_BOOL b) {
  if (REF_SUCCESS == st)
    fprintf(out, "ok %d\n", b ? 1 : 0);
  else
    fprintf(out, "%s\n", h_status(st));
}

/* identity metric on every node, M and log M */
static void set_identity_metric(REF_GRID ref_grid) {
  REF_NODE ref_node = ref_grid_node(ref_grid);
  REF_INT node;
  each_ref_node_valid_node(ref_node, node) {
    if (REF_SUCCESS != ref_node_metric_form(ref_node, node, 1, 0, 0, 1, 0, 1)) exit(7);
  }
}

int main(void) {
  {
    int fd = dup(1);
    if (fd < 0) return 3;
    out = fdopen(fd, "w");
    if (!out) return 3;
    if (!freopen("/dev/null", "w", stdout)) return 3;
  }
  if (REF_SUCCESS != ref_mpi_create(&ref_mpi)) return 4;
  while (h_next(stdin)) {
    const char *op = h_w[0];
    REF_GRID ref_grid = NULL;
    REF_BOOL allowed = REF_FALSE;
    REF_STATUS st;
    REF_INT n0, n1;
    int is_validate = (0 == strcmp(op, "vsm") || 0 == strcmp(op, "vsplit"));
    if (!build(is_validate ? 2 : 1, &ref_grid)) {
      fputs(is_validate ? "skip bad-op\n" : "bad-op\n", out);
      continue;
    }
    n0 = (REF_INT)I[0];
    n1 = (REF_INT)I[1];
    if (I[0] >= NN || I[1] >= NN || (!is_validate && (I[2] >= NN + 2 || I[3] >= NN + 2))) {
      fputs(is_validate ? "skip bad-op\n" : "bad-op\n", out);
    } else if (0 == strcmp(op, "cgeom")) {
      if (I[2] > 1 || I[3] > 1) {
        fputs("bad-op\n", out);
      } else {
        REF_DBL param[2] = {0.5, 0.5};
        if (I[2] && REF_SUCCESS != ref_geom_add(ref_grid_geom(ref_grid), n1, REF_GEOM_NODE, 1, NULL)) exit(8);
        if (I[3] && REF_SUCCESS != ref_geom_add(ref_grid_geom(ref_grid), n1, REF_GEOM_EDGE, 1, param)) exit(8);
        st = ref_collapse_edge_geometry(ref_grid, n0, n1, &allowed);
        st_bool(st, allowed);
      }
    } else if (0 == strcmp(op, "cmixed")) {
      st = ref_collapse_edge_mixed(ref_grid, n0, n1, &allowed);
      st_bool(st, allowed);
    } else if (0 == strcmp(op, "smixed")) {
      st = ref_split_edge_mixed(ref_grid, n0, n1, &allowed);
      st_bool(st, allowed);
    } else if (0 == strcmp(op, "wmixed")) {
      st = ref_swap_edge_mixed(ref_grid, n0, n1, &allowed);
      st_bool(st, allowed);
    } else if (0 == strcmp(op, "vmixed")) {
      st = ref_cavity_mixed(ref_grid, n0, n1, &allowed);
      st_bool(st, allowed);
    } else if (0 == strcmp(op, "wsame")) {
      st = ref_swap_same_faceid(ref_grid, n0, n1, &allowed);
      st_bool(st, allowed);
    } else if (0 == strcmp(op, "wnode23")) {
      REF_INT n2 = REF_EMPTY, n3 = REF_EMPTY;
      st = ref_swap_node23(ref_grid, n0, n1, &n2, &n3);
      if (REF_SUCCESS == st)
        fprintf(out, "ok %d %d\n", n2, n3);
      else
        fprintf(out, "%s\n", h_status(st));
    } else if (0 == strcmp(op, "wmanifold")) {
      st = ref_swap_manifold(ref_grid, n0, n1, &allowed);
      st_bool(st, allowed);
    } else if (0 == strcmp(op, "wconf")) {
      st = ref_swap_conforming(ref_grid, n0, n1, &allowed);
      st_bool(st, allowed);
    } else if (0 == strcmp(op, "cnormal")) {
      st = ref_collapse_edge_same_normal(ref_grid, n0, n1, &allowed);
      st_bool(st, allowed);
    } else if (0 == strcmp(op, "ctangent")) {
      st = ref_collapse_edge_same_tangent(ref_grid, n0, n1, &allowed);
      st_bool(st, allowed);
    } else if (0 == strcmp(op, "cchord")) {
      st = ref_collapse_edge_chord_height(ref_grid, n0, n1, &allowed);
      st_bool(st, allowed);
    } else if (0 == strcmp(op, "snormal")) {
      st = ref_smooth_node_same_normal(ref_grid, n0, &allowed);
      st_bool(st, allowed);
    } else if (0 == strcmp(op, "stangent")) {
      if (I[2] >= NN) {
        fputs("bad-op\n", out);
      } else {
        st = ref_smooth_node_same_tangent(ref_grid, n0, n1, (REF_INT)I[2], &allowed);
        st_bool(st, allowed);
      }
    } else if (0 == strcmp(op, "sneigh")) {
      REF_INT a = REF_EMPTY, b = REF_EMPTY;
      st = ref_smooth_edge_neighbors(ref_grid, n0, &a, &b);
      if (REF_SUCCESS == st)
        fprintf(out, "ok %d %d\n", a, b);
      else
        fprintf(out, "%s\n", h_status(st));
    } else if (0 == strcmp(op, "interp")) {
      REF_NODE ref_node = ref_grid_node(ref_grid);
      REF_INT new_node;
      int i;
      set_identity_metric(ref_grid);
      if (REF_SUCCESS != ref_node_add(ref_node, NN, &new_node)) exit(9);
      st = ref_node_interpolate_edge(ref_node, n0, n1, W, new_node);
      if (REF_SUCCESS == st) {
        fputs("ok", out);
        for (i = 0; i < 3; i++) pf(ref_node_xyz(ref_node, i, new_node));
        fputc('\n', out);
      } else {
        fprintf(out, "%s\n", h_status(st));
      }
    } else if (0 == strcmp(op, "clamp")) {
      /* the statement of ref_split_pass itself is tied by the `vsplit` validate stream (recorded calls of the
         real pass); this op only documents the expected value so that the diff stream exercises the model */
      REF_DBL weight_node1 = W;
      weight_node1 = MIN(0.95, MAX(0.05, weight_node1));
      fputs("ok", out);
      pf(weight_node1);
      fputc('\n', out);
    } else if (0 == strcmp(op, "vsm")) {
      /* vsm <tri|edg> i0 ...: run the real boundary smoother on node i0, report whether the vertex moved */
      REF_NODE ref_node = ref_grid_node(ref_grid);
      REF_DBL before[3];
      int i, moved = 0, w;
      set_identity_metric(ref_grid);
      for (i = 0; i < 3; i++) before[i] = ref_node_xyz(ref_node, i, n0);
      if (0 == strcmp(h_w[1], "tri")) {
        st = ref_smooth_no_geom_tri_improve(ref_grid, n0);
      } else {
        st = ref_smooth_no_geom_edge_improve(ref_grid, n0);
      }
      for (i = 0; i < 3; i++)
        if (memcmp(&before[i], &ref_node_xyz(ref_node, i, n0), sizeof(REF_DBL))) moved = 1;
      if (REF_SUCCESS != st) {
        fprintf(out, "skip %s\n", h_status(st));
      } else {
        fprintf(out, "sm %s %d", 0 == strcmp(h_w[1], "tri") ? "tri" : "edg", moved);
        for (w = 2; w < h_nw; w++) fprintf(out, " %s", h_w[w]);
        fputc('\n', out);
      }
    } else if (0 == strcmp(op, "vsplit")) {
      /* vsplit <x> i0 i1 twod h0pct w ...: the REAL ref_split_pass on the grid; node k carries the isotropic
         metric of size h = (h0pct/100) * w^((k mod 3) - 1); every ref_node_interpolate_edge call made by the pass
         is recorded by the spy as a `trial` line; this op's own line is the summary `skip <status> <ntrials>` */
      REF_NODE ref_node = ref_grid_node(ref_grid);
      REF_INT node;
      double h0 = (double)I[3] / 100.0;
      if (!(W > 0.0) || !(W < 1.0e6) || I[3] < 1 || I[2] > 1) {
        fputs("skip bad-op\n", out);
      } else {
        ref_grid_twod(ref_grid) = (REF_BOOL)I[2];
        each_ref_node_valid_node(ref_node, node) {
          double h = h0 * pow(W, (double)((node % 3) - 1));
          if (REF_SUCCESS != ref_node_metric_form(ref_node, node, 1.0 / (h * h), 0, 0, 1.0 / (h * h), 0,
                                                  I[2] ? 1.0 : 1.0 / (h * h)))
            exit(7);
        }
        if (REF_SUCCESS != ref_node_initialize_n_global(ref_node, NN)) exit(11);
        spy_on = 1;
        spy_count = 0;
        spy_grid = ref_grid;
        st = ref_split_pass(ref_grid);
        spy_on = 0;
        spy_grid = NULL;
        fprintf(out, "skip %s %d\n", h_status(st), spy_count);
      }
    } else {
      fputs("bad-op\n", out);
    }
    if (REF_SUCCESS != ref_grid_free(ref_grid)) exit(10);
  }
  fflush(out);
  return 0;
}
