/* harness `metric`: the metric-field kernels behind C10 / C05, called in process on a grid built from the op line.

   MESH := twod nn <3*nn xyz> <6*nn metric> <nn owned 0|1> ncell <cells: kind n0 n1 ...>   (doubles as 16 hex digits)

   diff ops (one line each, `ok <hex doubles>` or the REF_STATUS name):
     complexity MESH                 ref_metric_complexity
     set_complexity <target> MESH    ref_metric_set_complexity           -> the rescaled field
     local_scale <p> MESH            ref_metric_local_scale
     limit_ar <ar> MESH              ref_metric_limit_aspect_ratio
     abs_hessian MESH                ref_recon_abs_value_hessian
     roundoff MESH                   ref_recon_roundoff_limit
     node_metric_set <m6>            ref_node_metric_set, then _get and _get_log        -> m, log m
     node_metric_set_log <l6>        ref_node_metric_set_log, then _get and _get_log    -> m, log m
     interp_kernel np <b4> <4 x l6>  the statements of ref_metric_interpolate_node after the donor is known:
                                     ref_node_clip_bary4, the += loop over np donors, ref_node_metric_set_log
     interp_edge <l6> <l6> <w>       ref_node_interpolate_edge on two nodes carrying these stored logs
   dump ops (validate streams; the line printed is fed to `refdrv metric`):
     gac <gradation> <target> MESH   real ref_metric_gradation_at_complexity  -> `gacdump <target> MESHout` | `gacfail <status>`
     interp_move <tag> <node> <x y z> MESH real ref_metric_interpolate_node on a grid whose background is cached as the CLI does
                                     (ref_grid_cache_background; vertex metrics stored with ref_node_metric_set)
     interp_between <tag> <n0> <n1> <t> MESH  (tag: a word for the oracle, ignored here) new vertex by ref_node_interpolate_edge, then real ref_metric_interpolate_between
     interp_field <tag> <node> <x y z> MESH  same set-up, ref_interp_locate_node, then the real whole-field transfer
                                     ref_metric_interpolate (the parallel path, run on one rank) -> `interpfdump ...`
                                     -> `interpdump np d0 d1 d2 d3 <bary4> <4 x donor log6> <m6> <log6> <xyz3>` | `interpskip <why>`

   refine prints diagnostics on stdout: the protocol goes to a dup of the original descriptor. */
#include <unistd.h>

#include "h_proto.h"
#include "ref_cell.h"
#include "ref_grid.h"
#include "ref_interp.h"
#include "ref_malloc.h"
#include "ref_math.h"
#include "ref_matrix.h"
#include "ref_metric.h"
#include "ref_mpi.h"
#include "ref_node.h"
#include "ref_recon.h"

static FILE *out;
static REF_MPI ref_mpi;

static void pf(double d) {
  fputc(' ', out);
  h_pf(out, d);
}
static void pv(const double *v, int n) {
  int i;
  for (i = 0; i < n; i++) pf(v[i]);
}
static void put(REF_STATUS s, int n, const double *x) {
  if (REF_SUCCESS != s) {
    fputs(h_status(s), out);
    fputc('\n', out);
    return;
  }
  fputs("ok", out);
  pv(x, n);
  fputc('\n', out);
}
static int is_hex(const char *s) { return 16 == strlen(s) && 16 == strspn(s, "0123456789abcdefABCDEF"); }
static int all_hex(int from, int to) {
  int i;
  if (to > h_nw) return 0;
  for (i = from; i < to; i++)
    if (!is_hex(h_w[i])) return 0;
  return 1;
}
static int is_nat(const char *s) { return 0 < strlen(s) && strlen(s) < 9 && strlen(s) == strspn(s, "0123456789"); }
static int is_int(const char *s) { return ('-' == s[0]) ? is_nat(s + 1) : is_nat(s); }

static int kind_of(const char *s, int *size, int *has_id) {
  if (0 == strcmp(s, "tri")) { *size = 3; *has_id = 1; return REF_CELL_TRI; }
  if (0 == strcmp(s, "qua")) { *size = 4; *has_id = 1; return REF_CELL_QUA; }
  if (0 == strcmp(s, "tet")) { *size = 4; *has_id = 0; return REF_CELL_TET; }
  if (0 == strcmp(s, "pyr")) { *size = 5; *has_id = 0; return REF_CELL_PYR; }
  if (0 == strcmp(s, "pri")) { *size = 6; *has_id = 0; return REF_CELL_PRI; }
  if (0 == strcmp(s, "hex")) { *size = 8; *has_id = 0; return REF_CELL_HEX; }
  return -1;
}

typedef struct {
  REF_GRID grid;
  REF_DBL *metric;
  int nn, twod;
  int w_cells; /* word index of `ncell` */
} MESH;

/* MESH starting at word w0; returns 0 when malformed (nothing allocated) */
static int build_mesh(int w0, MESH *m) {
  REF_GRID ref_grid;
  REF_NODE ref_node;
  long long twod, nn, nc;
  int w, i, k, c, ncells;
  if (h_nw < w0 + 3 || !is_nat(h_w[w0]) || !is_nat(h_w[w0 + 1])) return 0;
  twod = h_i(h_w[w0]);
  nn = h_i(h_w[w0 + 1]);
  if (twod > 1 || nn == 0 || nn > 4000) return 0;
  w = w0 + 2;
  if (h_nw - w < 10 * nn + 1) return 0;
  if (!all_hex(w, w + 9 * (int)nn)) return 0;
  for (i = 0; i < nn; i++)
    if (0 != strcmp(h_w[w + 9 * nn + i], "0") && 0 != strcmp(h_w[w + 9 * nn + i], "1")) return 0;
  k = w + 10 * (int)nn;
  if (!is_nat(h_w[k])) return 0;
  nc = h_i(h_w[k]);
  m->w_cells = k;
  k++;
  ncells = 0;
  while (k < h_nw) {
    int size, has_id, kind = kind_of(h_w[k], &size, &has_id);
    if (kind < 0 || h_nw - (k + 1) < size) return 0;
    for (i = 0; i < size; i++)
      if (!is_nat(h_w[k + 1 + i]) || h_i(h_w[k + 1 + i]) >= nn) return 0;
    k += 1 + size;
    ncells++;
  }
  if (ncells != nc) return 0;
  if (REF_SUCCESS != ref_grid_create(&ref_grid, ref_mpi)) exit(4);
  ref_grid_twod(ref_grid) = (REF_BOOL)twod;
  ref_node = ref_grid_node(ref_grid);
  m->metric = (REF_DBL *)malloc(sizeof(REF_DBL) * 6 * (size_t)(nn + 8));
  for (i = 0; i < nn; i++) {
    REF_INT node;
    if (REF_SUCCESS != ref_node_add(ref_node, (REF_GLOB)(3 * i + 5), &node) || node != i) exit(5);
    for (c = 0; c < 3; c++) ref_node_xyz(ref_node, c, node) = h_f(h_w[w + 3 * i + c]);
    for (c = 3; c < REF_NODE_REAL_PER; c++) ref_node_real(ref_node, c, node) = 0.0;
    for (c = 0; c < 6; c++) m->metric[6 * i + c] = h_f(h_w[w + 3 * nn + 6 * i + c]);
    ref_node_part(ref_node, node) = ('1' == h_w[w + 9 * nn + i][0]) ? ref_mpi_rank(ref_mpi) : ref_mpi_rank(ref_mpi) + 1;
  }
  k = m->w_cells + 1;
  while (k < h_nw) {
    int size, has_id, kind = kind_of(h_w[k], &size, &has_id);
    REF_INT nodes[REF_CELL_MAX_SIZE_PER], cell;
    for (i = 0; i < size; i++) nodes[i] = (REF_INT)h_i(h_w[k + 1 + i]);
    if (has_id) nodes[size] = 1;
    if (REF_SUCCESS != ref_cell_add(ref_grid_cell(ref_grid, kind), nodes, &cell)) exit(6);
    k += 1 + size;
  }
  m->grid = ref_grid;
  m->nn = (int)nn;
  m->twod = (int)twod;
  return 1;
}
static void free_mesh(MESH *m) {
  free(m->metric);
  ref_grid_free(m->grid);
}
static void put_field(REF_STATUS s, MESH *m) { put(s, 6 * m->nn, m->metric); }

/* words of the mesh block with the metric replaced by the current array */
static void dump_mesh(int w0, MESH *m) {
  int i, w = w0 + 2;
  fprintf(out, " %d %d", m->twod, m->nn);
  for (i = 0; i < 3 * m->nn; i++) fprintf(out, " %s", h_w[w + i]);
  pv(m->metric, 6 * m->nn);
  for (i = w + 9 * m->nn; i < h_nw; i++) fprintf(out, " %s", h_w[i]);
}

/* store the field on the vertices (ref_node_metric_set) and cache the grid as its own background, as `ref adapt` does */
static REF_STATUS cache_background(MESH *m) {
  int i;
  REF_NODE ref_node = ref_grid_node(m->grid);
  for (i = 0; i < m->nn; i++) RSS(ref_node_metric_set(ref_node, i, &(m->metric[6 * i])), "set");
  RSS(ref_grid_cache_background(m->grid), "cache");
  ref_interp_continuously(ref_grid_interp(m->grid)) = REF_TRUE;
  return REF_SUCCESS;
}

static void dump_interp(MESH *m, REF_INT node, const char *word) {
  REF_INTERP ref_interp = ref_grid_interp(m->grid);
  REF_GRID from_grid = ref_interp_from_grid(ref_interp);
  REF_CELL from_cell = m->twod ? ref_grid_tri(from_grid) : ref_grid_tet(from_grid);
  REF_INT nodes[REF_CELL_MAX_SIZE_PER], i, np = ref_cell_node_per(from_cell);
  REF_DBL lg[6], mm[6], zero[6] = {0, 0, 0, 0, 0, 0};
  if (REF_EMPTY == ref_interp_cell(ref_interp, node)) {
    fputs("interpskip not-located\n", out);
    return;
  }
  if (ref_mpi_rank(ref_mpi) != ref_interp_part(ref_interp, node)) {
    /* the gate of ref_metric_interpolate_node/_between: "off-part don't interpolate".  Seen in serial for a vertex
       located by the exhaustive fallback of ref_interp_locate_between, which sets cell and bary but not part */
    fputs("interpskip located-but-part-unset\n", out);
    return;
  }
  if (REF_SUCCESS != ref_cell_nodes(from_cell, ref_interp_cell(ref_interp, node), nodes)) {
    fputs("interpskip donor-cell-invalid\n", out);
    return;
  }
  fprintf(out, "%s %d", word, np);
  for (i = 0; i < 4; i++) fprintf(out, " %d", i < np ? nodes[i] : -1);
  for (i = 0; i < 4; i++) pf(ref_interp_bary(ref_interp, i, node));
  for (i = 0; i < 4; i++) {
    if (i < np) {
      ref_node_metric_get_log(ref_grid_node(from_grid), nodes[i], lg);
      pv(lg, 6);
    } else {
      pv(zero, 6);
    }
  }
  ref_node_metric_get(ref_grid_node(m->grid), node, mm);
  ref_node_metric_get_log(ref_grid_node(m->grid), node, lg);
  pv(mm, 6);
  pv(lg, 6);
  pv(ref_node_xyz_ptr(ref_grid_node(m->grid), node), 3);
  fputc('\n', out);
}

int main(int argc, char *argv[]) {
  int fd = dup(1);
  REF_NODE kn;
  if (fd < 0) return 3;
  out = fdopen(fd, "w");
  if (!out) return 3;
  if (!freopen("/dev/null", "w", stdout)) return 3;
  if (REF_SUCCESS != ref_mpi_start(argc, argv)) return 3;
  if (REF_SUCCESS != ref_mpi_create(&ref_mpi)) return 3;
  if (REF_SUCCESS != ref_node_create(&kn, ref_mpi)) return 3;
  {
    REF_INT node, i;
    for (i = 0; i < 3; i++)
      if (REF_SUCCESS != ref_node_add(kn, (REF_GLOB)(3 * i + 5), &node) || node != i) return 3;
  }
  while (h_next(stdin)) {
    const char *op = h_w[0];
    MESH m;
    if (0 == strcmp(op, "complexity")) {
      REF_DBL c = 0.0;
      REF_STATUS s;
      if (!build_mesh(1, &m)) { fputs("bad-op\n", out); continue; }
      s = ref_metric_complexity(m.metric, m.grid, &c);
      put(s, 1, &c);
      free_mesh(&m);
    } else if (0 == strcmp(op, "set_complexity")) {
      if (h_nw < 2 || !is_hex(h_w[1]) || !build_mesh(2, &m)) { fputs("bad-op\n", out); continue; }
      put_field(ref_metric_set_complexity(m.metric, m.grid, h_f(h_w[1])), &m);
      free_mesh(&m);
    } else if (0 == strcmp(op, "local_scale")) {
      if (h_nw < 2 || !is_int(h_w[1]) || h_i(h_w[1]) < -1000 || h_i(h_w[1]) > 1000 || !build_mesh(2, &m)) {
        fputs("bad-op\n", out);
        continue;
      }
      put_field(ref_metric_local_scale(m.metric, m.grid, (REF_INT)h_i(h_w[1])), &m);
      free_mesh(&m);
    } else if (0 == strcmp(op, "limit_ar")) {
      if (h_nw < 2 || !is_hex(h_w[1]) || !build_mesh(2, &m)) { fputs("bad-op\n", out); continue; }
      put_field(ref_metric_limit_aspect_ratio(m.metric, m.grid, h_f(h_w[1])), &m);
      free_mesh(&m);
    } else if (0 == strcmp(op, "abs_hessian")) {
      if (!build_mesh(1, &m)) { fputs("bad-op\n", out); continue; }
      put_field(ref_recon_abs_value_hessian(m.grid, m.metric), &m);
      free_mesh(&m);
    } else if (0 == strcmp(op, "roundoff")) {
      if (!build_mesh(1, &m)) { fputs("bad-op\n", out); continue; }
      put_field(ref_recon_roundoff_limit(m.metric, m.grid), &m);
      free_mesh(&m);
    } else if (0 == strcmp(op, "gac")) {
      REF_STATUS s;
      if (h_nw < 3 || !is_hex(h_w[1]) || !is_hex(h_w[2]) || !build_mesh(3, &m)) { fputs("bad-op\n", out); continue; }
      s = ref_metric_gradation_at_complexity(m.metric, m.grid, h_f(h_w[1]), h_f(h_w[2]));
      if (REF_SUCCESS == s) {
        fprintf(out, "gacdump %s", h_w[2]);
        dump_mesh(3, &m);
        fputc('\n', out);
      } else {
        fprintf(out, "gacfail %s\n", h_status(s));
      }
      free_mesh(&m);
    } else if (0 == strcmp(op, "node_metric_set") || 0 == strcmp(op, "node_metric_set_log")) {
      REF_DBL a[6], r[12];
      REF_STATUS s;
      int i;
      if (h_nw != 7 || !all_hex(1, 7)) { fputs("bad-op\n", out); continue; }
      for (i = 0; i < 6; i++) a[i] = h_f(h_w[1 + i]);
      for (i = 3; i < REF_NODE_REAL_PER; i++) ref_node_real(kn, i, 0) = 0.0;
      s = ('l' == op[strlen(op) - 3]) ? ref_node_metric_set_log(kn, 0, a) : ref_node_metric_set(kn, 0, a);
      if (REF_SUCCESS == s) {
        ref_node_metric_get(kn, 0, r);
        ref_node_metric_get_log(kn, 0, r + 6);
      }
      put(s, 12, r);
    } else if (0 == strcmp(op, "interp_kernel")) {
      /* the statements of ref_metric_interpolate_node between the donor look-up and the return */
      REF_DBL orig[4], bary[4], log_parent_m[4][6], log_m[6], r[12];
      REF_STATUS s;
      int i, ibary, im, np;
      if (h_nw != 30 || !is_nat(h_w[1]) || !all_hex(2, 30)) { fputs("bad-op\n", out); continue; }
      np = (int)h_i(h_w[1]);
      if (3 != np && 4 != np) { fputs("bad-op\n", out); continue; }
      for (i = 0; i < 4; i++) orig[i] = h_f(h_w[2 + i]);
      for (ibary = 0; ibary < 4; ibary++)
        for (im = 0; im < 6; im++) log_parent_m[ibary][im] = h_f(h_w[6 + 6 * ibary + im]);
      s = ref_node_clip_bary4(orig, bary);
      if (REF_SUCCESS == s) {
        for (im = 0; im < 6; im++) log_m[im] = 0.0;
        for (im = 0; im < 6; im++) {
          for (ibary = 0; ibary < np; ibary++) {
            log_m[im] += bary[ibary] * log_parent_m[ibary][im];
          }
        }
        s = ref_node_metric_set_log(kn, 0, log_m);
      }
      if (REF_SUCCESS == s) {
        ref_node_metric_get(kn, 0, r);
        ref_node_metric_get_log(kn, 0, r + 6);
      }
      put(s, 12, r);
    } else if (0 == strcmp(op, "interp_edge")) {
      REF_DBL r[12];
      REF_STATUS s;
      int i;
      if (h_nw != 14 || !all_hex(1, 14)) { fputs("bad-op\n", out); continue; }
      for (i = 0; i < 3; i++) {
        ref_node_xyz(kn, i, 0) = 0.0;
        ref_node_xyz(kn, i, 1) = 1.0;
      }
      for (i = 0; i < 6; i++) {
        ref_node_real(kn, 9 + i, 0) = h_f(h_w[1 + i]);
        ref_node_real(kn, 9 + i, 1) = h_f(h_w[7 + i]);
      }
      s = ref_node_interpolate_edge(kn, 0, 1, h_f(h_w[13]), 2);
      if (REF_SUCCESS == s) {
        ref_node_metric_get(kn, 2, r);
        ref_node_metric_get_log(kn, 2, r + 6);
      }
      put(s, 12, r);
    } else if (0 == strcmp(op, "interp_move")) {
      REF_INT node;
      REF_STATUS s;
      int i;
      if (h_nw < 7 || !is_nat(h_w[2]) || !all_hex(3, 6) || !build_mesh(6, &m)) { fputs("bad-op\n", out); continue; }
      node = (REF_INT)h_i(h_w[2]);
      if (node >= m.nn) { fputs("bad-op\n", out); free_mesh(&m); continue; }
      s = cache_background(&m);
      if (REF_SUCCESS != s) {
        fprintf(out, "interpskip background-%s\n", h_status(s));
      } else {
        for (i = 0; i < 3; i++) ref_node_xyz(ref_grid_node(m.grid), i, node) = h_f(h_w[3 + i]);
        s = ref_metric_interpolate_node(m.grid, node);
        if (REF_SUCCESS != s)
          fprintf(out, "interpskip interpolate-%s\n", h_status(s));
        else
          dump_interp(&m, node, "interpdump");
      }
      free_mesh(&m);
    } else if (0 == strcmp(op, "interp_field")) {
      /* move one vertex, relocate it (ref_interp_locate_node), then the REAL whole-field transfer ref_metric_interpolate */
      REF_INT node;
      REF_STATUS s;
      int i;
      if (h_nw < 7 || !is_nat(h_w[2]) || !all_hex(3, 6) || !build_mesh(6, &m)) { fputs("bad-op\n", out); continue; }
      node = (REF_INT)h_i(h_w[2]);
      if (node >= m.nn) { fputs("bad-op\n", out); free_mesh(&m); continue; }
      s = cache_background(&m);
      if (REF_SUCCESS != s) {
        fprintf(out, "interpskip background-%s\n", h_status(s));
      } else {
        for (i = 0; i < 3; i++) ref_node_xyz(ref_grid_node(m.grid), i, node) = h_f(h_w[3 + i]);
        s = ref_interp_locate_node(ref_grid_interp(m.grid), node);
        if (REF_SUCCESS == s) s = ref_metric_interpolate(ref_grid_interp(m.grid));
        if (REF_SUCCESS != s)
          fprintf(out, "interpskip interpolate-%s\n", h_status(s));
        else
          dump_interp(&m, node, "interpfdump");
      }
      free_mesh(&m);
    } else if (0 == strcmp(op, "interp_between")) {
      REF_INT node0, node1, new_node;
      REF_GLOB global;
      REF_STATUS s;
      if (h_nw < 6 || !is_nat(h_w[2]) || !is_nat(h_w[3]) || !is_hex(h_w[4]) || !build_mesh(5, &m)) {
        fputs("bad-op\n", out);
        continue;
      }
      node0 = (REF_INT)h_i(h_w[2]);
      node1 = (REF_INT)h_i(h_w[3]);
      if (node0 >= m.nn || node1 >= m.nn || node0 == node1) { fputs("bad-op\n", out); free_mesh(&m); continue; }
      s = cache_background(&m);
      if (REF_SUCCESS == s) s = ref_node_next_global(ref_grid_node(m.grid), &global);
      if (REF_SUCCESS == s) s = ref_node_add(ref_grid_node(m.grid), global, &new_node);
      if (REF_SUCCESS == s) s = ref_node_interpolate_edge(ref_grid_node(m.grid), node0, node1, h_f(h_w[4]), new_node);
      if (REF_SUCCESS != s) {
        fprintf(out, "interpskip setup-%s\n", h_status(s));
      } else {
        s = ref_metric_interpolate_between(m.grid, node0, node1, new_node);
        if (REF_SUCCESS != s)
          fprintf(out, "interpskip interpolate-%s\n", h_status(s));
        else
          dump_interp(&m, new_node, "interpdump");
      }
      free_mesh(&m);
    } else {
      fputs("bad-op\n", out);
    }
  }
  fflush(out);
  ref_node_free(kn);
  ref_mpi_free(ref_mpi);
  ref_mpi_stop();
  return 0;
}
