/* harness `interplocate`: the staged donor search ref_interp_locate (ref_interp.c) with the walking agents of
 * ref_agents.c, on donor / receptor grid PAIRS built rank by rank from the op lines (serial build, or mpicc -DHAVE_MPI
 * under mpiexec -n NP: only rank 0 reads the op lines and broadcasts them; only rank 0 prints).
 *
 *   reset NP TWOD SEED         drop both grids; NP must be the number of ranks; rank r's rand() state becomes
 *                              SEED + 7919 * r                                                         -> ok
 *   dnode R G P x y z          donor node on rank R: global G, owner P                                 -> ok
 *   dcell R a b c [d] ID       donor cell (local node indices of rank R): tri + id (2-D) / tet (3-D; ID unused: 0) -> ok CELL
 *   dbnd  R a b [c] ID         donor boundary: edg (2-D) / tri (3-D)                                   -> ok
 *   rnode / rcell / rbnd       the same for the receptor grid
 *   dadj R N                   each_ref_cell_having_node order of the donor cells around local node N  -> ok c c ...
 *   radj R N                   ref_grid_node_list_around of the receptor                               -> ok n n ...
 *   geomlist R                 ref_interp_geom_node_list of both grids                                 -> ok D d d .. T t t ..
 *   locate (dn dc db rn rc rb)*NP   the counts of node / cell / boundary lines of every rank, donor then receptor (else
 *                              bad-op); then ref_interp_create (twice), every slot of ref_interp->bary pre-filled with NaN, then
 *                              (A) the stage functions in the order ref_interp_locate calls them, white box, with a
 *                                  snapshot of ref_interp->cell between the stages, and
 *                              (B) the real ref_interp_locate on a second, identically prepared REF_INTERP;
 *      -> ok FUZZ SAME { R rank nGeom nGeomFail nWalk nTerminated walkSteps nTree treeCells rnd { N glob cell part b0 b1 b2 b3 stage }* }*
 *         FUZZ = final search_fuzz (A); SAME = 1 iff (B) ended with the same status, fuzz, cell, part and weight bits;
 *         stage = 1 geom, 2 walk, 3 tree, 0 not located; a never-written weight slot prints `nan`.
 *         A failing status prints its name only.
 *
 * rand() inside ref_interp.c (which off-rank face node a walk hops to) is replaced by the generator h_rand below, the
 * same one `Refine.Model.InterpLocate.nextRand` is.
 * refine's RSS/RAS macros print to stdout on error branches: protocol lines go to a private copy of fd 1. */
#include "h_proto.h"
#include <signal.h>
#include <unistd.h>
#ifdef HAVE_MPI
#include <mpi.h>
#endif

static unsigned long h_rand_state = 1;
static int h_rand(void) {
  h_rand_state = (h_rand_state * 1103515245UL + 12345UL) % 2147483648UL;
  return (int)(h_rand_state / 65536UL);
}
#define rand h_rand
#include "ref_interp.c"
#undef rand

#include "ref_agents.h"
#include "ref_cell.h"
#include "ref_grid.h"
#include "ref_list.h"
#include "ref_mpi.h"
#include "ref_node.h"
#include "ref_search.h"

#define MAXR 16
static FILE *out;
static int me = 0, np = 1;
static REF_MPI h_mpi = NULL;
static REF_GRID from = NULL, to = NULL;
static int active = 0, twod = 0;
static long seed0 = 1;
static int dn[MAXR], rn[MAXR], dc[MAXR], rc[MAXR], db[MAXR], rb[MAXR];

/* ---- result string of this rank ---- */
static char *res;
static size_t res_n, res_cap;
static void r_reset(void) {
  res_n = 0;
  if (!res) {
    res_cap = 256;
    res = (char *)malloc(res_cap);
  }
  res[0] = 0;
}
static void r_put(const char *s) {
  size_t l = strlen(s);
  if (res_n + l + 2 > res_cap) {
    res_cap = 2 * (res_n + l + 2) + 64;
    res = (char *)realloc(res, res_cap);
  }
  if (res_n > 0) res[res_n++] = ' ';
  memcpy(res + res_n, s, l + 1);
  res_n += l;
}
static void r_ll(long long v) {
  char b[32];
  snprintf(b, sizeof b, "%lld", v);
  r_put(b);
}
static void r_bits(double d) {
  char b[40];
  uint64_t u;
  memcpy(&u, &d, 8);
  if (d != d) snprintf(b, sizeof b, "nan");
  else snprintf(b, sizeof b, "%016llx", (unsigned long long)u);
  r_put(b);
}

/* print the string of rank `owner` (owner < 0: the strings of all ranks, in rank order, after `head`) */
static void emit(int owner, const char *head) {
#ifdef HAVE_MPI
  if (owner >= 0) {
    if (owner == 0) {
      if (0 == me) fprintf(out, "%s\n", res);
    } else if (me == owner) {
      int len = (int)res_n;
      MPI_Send(&len, 1, MPI_INT, 0, 7, MPI_COMM_WORLD);
      MPI_Send(res, len + 1, MPI_CHAR, 0, 8, MPI_COMM_WORLD);
    } else if (0 == me) {
      int len;
      char *b;
      MPI_Recv(&len, 1, MPI_INT, owner, 7, MPI_COMM_WORLD, MPI_STATUS_IGNORE);
      b = (char *)malloc((size_t)len + 1);
      MPI_Recv(b, len + 1, MPI_CHAR, owner, 8, MPI_COMM_WORLD, MPI_STATUS_IGNORE);
      fprintf(out, "%s\n", b);
      free(b);
    }
  } else {
    int r;
    if (0 == me) {
      fprintf(out, "%s %s", head, res);
      for (r = 1; r < np; r++) {
        int len;
        char *b;
        MPI_Recv(&len, 1, MPI_INT, r, 7, MPI_COMM_WORLD, MPI_STATUS_IGNORE);
        b = (char *)malloc((size_t)len + 1);
        MPI_Recv(b, len + 1, MPI_CHAR, r, 8, MPI_COMM_WORLD, MPI_STATUS_IGNORE);
        fprintf(out, " %s", b);
        free(b);
      }
      fputc('\n', out);
    } else {
      int len = (int)res_n;
      MPI_Send(&len, 1, MPI_INT, 0, 7, MPI_COMM_WORLD);
      MPI_Send(res, len + 1, MPI_CHAR, 0, 8, MPI_COMM_WORLD);
    }
  }
#else
  if (owner >= 0) fprintf(out, "%s\n", res);
  else fprintf(out, "%s %s\n", head, res);
#endif
  if (0 == me) fflush(out);
}

static void say(const char *s) {
  if (0 == me) {
    fprintf(out, "%s\n", s);
    fflush(out);
  }
}

static int valid_f(const char *s) {
  int i;
  for (i = 0; i < 16; i++) {
    char c = s[i];
    if (!((c >= '0' && c <= '9') || (c >= 'a' && c <= 'f'))) return 0;
  }
  return s[16] == 0;
}
static int valid_i(const char *s) {
  int n = 0;
  while (*s >= '0' && *s <= '9') { s++; n++; }
  return *s == 0 && n > 0 && n < 9;
}
static int valid_is(int fromw, int count) {
  int i;
  if (h_nw < fromw + count) return 0;
  for (i = fromw; i < fromw + count; i++)
    if (!valid_i(h_w[i])) return 0;
  return 1;
}

static void drop_all(void) {
  int r;
  if (to) ref_grid_free(to);
  to = NULL;
  if (from) ref_grid_free(from);
  from = NULL;
  for (r = 0; r < MAXR; r++) dn[r] = rn[r] = dc[r] = rc[r] = db[r] = rb[r] = 0;
  active = 0;
}

static int distinct(long long *n, int k, int limit) {
  int i, j;
  for (i = 0; i < k; i++) {
    if (n[i] < 0 || n[i] >= limit) return 0;
    for (j = 0; j < i; j++)
      if (n[i] == n[j]) return 0;
  }
  return 1;
}

static int all_max(int v) {
#ifdef HAVE_MPI
  int g = v;
  MPI_Allreduce(&v, &g, 1, MPI_INT, MPI_MAX, MPI_COMM_WORLD);
  return g;
#else
  return v;
#endif
}
static int all_min(int v) {
#ifdef HAVE_MPI
  int g = v;
  MPI_Allreduce(&v, &g, 1, MPI_INT, MPI_MIN, MPI_COMM_WORLD);
  return g;
#else
  return v;
#endif
}

/* the status the model reports: the one of the lowest failing rank */
static int first_status(int st) {
#ifdef HAVE_MPI
  int key = (REF_SUCCESS == st) ? 1000000 : me * 100 + st, g = key;
  MPI_Allreduce(&key, &g, 1, MPI_INT, MPI_MIN, MPI_COMM_WORLD);
  return g == 1000000 ? 0 : g % 100;
#else
  return st;
#endif
}

static void nan_fill(REF_INTERP ri) {
  REF_INT i;
  for (i = 0; i < 4 * ref_interp_max(ri); i++) ri->bary[i] = NAN;
}

/* the body of ref_interp_locate with the stage functions called white box */
static REF_STATUS staged(REF_INTERP ri, REF_INT *after1, REF_INT *after2, int *stop) {
  REF_BOOL increase_fuzz;
  REF_INT tries, i, n = ref_interp_max(ri);
  REF_STATUS st;
  st = ref_interp_geom_nodes(ri);
  *stop = first_status((int)st);
  if (*stop) return st;
  for (i = 0; i < n; i++) after1[i] = ri->cell[i];
  st = ref_interp_process_agents(ri);
  *stop = first_status((int)st);
  if (*stop) return st;
  for (i = 0; i < n; i++) after2[i] = ri->cell[i];
  increase_fuzz = REF_FALSE;
  for (tries = 0; tries < 12; tries++) {
    if (increase_fuzz) ref_interp_search_fuzz(ri) *= 10.0;
    st = ref_interp_tree(ri, &increase_fuzz);
    *stop = first_status((int)st);
    if (*stop) return st;
    if (!increase_fuzz) break;
  }
  st = increase_fuzz ? REF_FAILURE : REF_SUCCESS;
  *stop = first_status((int)st);
  return st;
}

static void op_locate(void) {
  REF_INTERP a = NULL, b = NULL;
  REF_STATUS st, stb;
  REF_INT *after1 = NULL, *after2 = NULL, node, n;
  int stop = 0, same = 1, i;
  unsigned long rnd_a;
  char head[64];
  r_reset();
  st = ref_interp_create(&a, from, to);
  stop = first_status((int)st);
  if (stop) { say(h_status(stop)); if (a) ref_interp_free(a); return; }
  nan_fill(a);
  n = ref_interp_max(a);
  after1 = (REF_INT *)malloc(sizeof(REF_INT) * (size_t)(n + 1));
  after2 = (REF_INT *)malloc(sizeof(REF_INT) * (size_t)(n + 1));
  h_rand_state = (unsigned long)(seed0 + 7919L * me);
  st = staged(a, after1, after2, &stop);
  rnd_a = h_rand_state;
  if (stop) {
    say(h_status(stop));
    ref_interp_free(a);
    free(after1);
    free(after2);
    return;
  }
  /* (B) the real ref_interp_locate */
  stb = ref_interp_create(&b, from, to);
  if (first_status((int)stb)) same = 0;
  else {
    nan_fill(b);
    h_rand_state = (unsigned long)(seed0 + 7919L * me);
    stb = ref_interp_locate(b);
    if (first_status((int)stb)) same = 0;
    else {
      if (ref_interp_search_fuzz(a) != ref_interp_search_fuzz(b)) same = 0;
      for (i = 0; i < n; i++) {
        if (a->cell[i] != b->cell[i] || a->part[i] != b->part[i]) same = 0;
      }
      if (0 != memcmp(a->bary, b->bary, sizeof(REF_DBL) * 4 * (size_t)n)) same = 0;
    }
  }
  same = all_min(same);
  r_put("R");
  r_ll(me);
  r_ll(a->n_geom);
  r_ll(a->n_geom_fail);
  r_ll(a->n_walk);
  r_ll(a->n_terminated);
  r_ll(a->walk_steps);
  r_ll(a->n_tree);
  r_ll(a->tree_cells);
  r_ll((long long)rnd_a);
  each_ref_node_valid_node(ref_grid_node(to), node) {
    int stage = 0;
    if (REF_EMPTY != a->cell[node]) stage = (REF_EMPTY != after1[node]) ? 1 : ((REF_EMPTY != after2[node]) ? 2 : 3);
    r_put("N");
    r_ll((long long)ref_node_global(ref_grid_node(to), node));
    r_ll(a->cell[node]);
    r_ll(a->part[node]);
    for (i = 0; i < 4; i++) r_bits(a->bary[i + 4 * node]);
    r_ll(stage);
  }
  {
    uint64_t u;
    double f = ref_interp_search_fuzz(a);
    memcpy(&u, &f, 8);
    snprintf(head, sizeof head, "ok %016llx %d", (unsigned long long)u, same);
  }
  emit(-1, head);
  if (b) ref_interp_free(b);
  ref_interp_free(a);
  free(after1);
  free(after2);
}

static void tokenise(void) {
  char *p;
  h_nw = 0;
  for (p = strtok(h_line, " \t\r\n"); p && h_nw < H_MAXW; p = strtok(NULL, " \t\r\n")) h_w[h_nw++] = p;
}

static void on_alarm(int sig) {
  (void)sig;
  _exit(97);
}

/* node ops: `dnode R G P x y z` / `rnode ...` */
static void op_node(int donor) {
  long long r, g, p;
  int *cnt = donor ? dn : rn;
  if (!(h_nw == 7 && valid_is(1, 3) && valid_f(h_w[4]) && valid_f(h_w[5]) && valid_f(h_w[6]))) { say("bad-op"); return; }
  r = h_i(h_w[1]); g = h_i(h_w[2]); p = h_i(h_w[3]);
  if (r >= np || p >= np || cnt[r] >= 200000) { say("bad-op"); return; }
  {
    int dup = 0;
    if (me == r) {
      REF_NODE ref_node = ref_grid_node(donor ? from : to);
      REF_INT node;
      int c;
      if (REF_SUCCESS == ref_node_local(ref_node, (REF_GLOB)g, &node)) dup = 1; /* repeated global on this rank */
      else {
        if (REF_SUCCESS != ref_node_add(ref_node, (REF_GLOB)g, &node)) _exit(5);
        if (node != cnt[r]) _exit(6);
        ref_node_part(ref_node, node) = (REF_INT)p;
        for (c = 0; c < 3; c++) ref_node_xyz(ref_node, c, node) = h_f(h_w[4 + c]);
        for (c = 3; c < REF_NODE_REAL_PER; c++) ref_node_real(ref_node, c, node) = 0.0;
      }
    }
#ifdef HAVE_MPI
    MPI_Bcast(&dup, 1, MPI_INT, (int)r, MPI_COMM_WORLD);
#endif
    if (dup) { say("bad-op"); return; }
  }
  cnt[r]++;
  say("ok");
}

/* cell ops: kind 0 = volume cell of the grid (tri in 2-D, tet in 3-D), 1 = boundary (edg in 2-D, tri in 3-D) */
static void op_cell(int donor, int bnd) {
  int k = bnd ? (twod ? 2 : 3) : (twod ? 3 : 4), i;
  long long r, v[5], id;
  REF_INT nodes[REF_CELL_MAX_SIZE_PER], cell;
  REF_GRID g = donor ? from : to;
  REF_CELL ref_cell;
  if (!(h_nw == k + 3 && valid_is(1, k + 2))) { say("bad-op"); return; }
  r = h_i(h_w[1]);
  if (r >= np) { say("bad-op"); return; }
  for (i = 0; i < k; i++) v[i] = h_i(h_w[2 + i]);
  id = h_i(h_w[2 + k]);
  if (!distinct(v, k, donor ? dn[r] : rn[r]) || id > 1000) { say("bad-op"); return; }
  if (bnd) ref_cell = twod ? ref_grid_edg(g) : ref_grid_tri(g);
  else ref_cell = twod ? ref_grid_tri(g) : ref_grid_tet(g);
  if (me == r) {
    for (i = 0; i < k; i++) nodes[i] = (REF_INT)v[i];
    nodes[k] = (REF_INT)id; /* ignored for tets */
    if (REF_SUCCESS != ref_cell_add(ref_cell, nodes, &cell)) _exit(7);
    if (!bnd && cell != (donor ? dc[r] : rc[r])) _exit(8);
  }
  if (bnd) {
    if (donor) db[r]++;
    else rb[r]++;
    say("ok");
  } else {
    char b[32];
    snprintf(b, sizeof b, "ok %d", donor ? dc[r] : rc[r]);
    if (donor) dc[r]++;
    else rc[r]++;
    say(b);
  }
}

static void op_adj(int donor) {
  long long r, n;
  if (!(h_nw == 3 && valid_is(1, 2))) { say("bad-op"); return; }
  r = h_i(h_w[1]); n = h_i(h_w[2]);
  if (r >= np || n >= (donor ? dn[r] : rn[r])) { say("bad-op"); return; }
  r_reset();
  if (me == r) {
    r_put("ok");
    if (donor) {
      REF_CELL ref_cell = twod ? ref_grid_tri(from) : ref_grid_tet(from);
      REF_INT item, cell;
      each_ref_cell_having_node(ref_cell, (REF_INT)n, item, cell) r_ll(cell);
    } else {
      REF_INT nn = 0, list[MAX_NODE_LIST], i;
      REF_STATUS st = ref_grid_node_list_around(to, (REF_INT)n, MAX_NODE_LIST, &nn, list);
      if (REF_SUCCESS != st && REF_INCREASE_LIMIT != st) _exit(9);
      for (i = 0; i < nn; i++) r_ll(list[i]);
    }
  }
  emit((int)r, "");
}

static void op_geomlist(void) {
  long long r;
  if (!(h_nw == 2 && valid_is(1, 1))) { say("bad-op"); return; }
  r = h_i(h_w[1]);
  if (r >= np) { say("bad-op"); return; }
  r_reset();
  if (me == r) {
    REF_LIST l;
    REF_INT i;
    r_put("ok");
    r_put("D");
    if (REF_SUCCESS != ref_list_create(&l)) _exit(10);
    if (REF_SUCCESS != ref_interp_geom_node_list(from, l)) _exit(10);
    for (i = 0; i < ref_list_n(l); i++) r_ll(ref_list_value(l, i));
    ref_list_free(l);
    r_put("T");
    if (REF_SUCCESS != ref_list_create(&l)) _exit(10);
    if (REF_SUCCESS != ref_interp_geom_node_list(to, l)) _exit(10);
    for (i = 0; i < ref_list_n(l); i++) r_ll(ref_list_value(l, i));
    ref_list_free(l);
  }
  emit((int)r, "");
}

int main(int argc, char *argv[]) {
  FILE *in = stdin;
#ifdef HAVE_MPI
  MPI_Init(&argc, &argv);
#else
  if (REF_SUCCESS != ref_mpi_start(argc, argv)) return 3;
#endif
  if (REF_SUCCESS != ref_mpi_create(&h_mpi)) return 3;
  me = ref_mpi_rank(h_mpi);
  np = ref_mpi_n(h_mpi);
  if (np > MAXR) return 3;
  if (argc >= 3 && 0 == strcmp(argv[1], "--ops") && 0 == me) {
    in = fopen(argv[2], "r");
    if (!in) return 4;
  }
  out = fdopen(dup(1), "w");
  if (!out || !freopen("/dev/null", "w", stdout)) return 3;
  signal(SIGALRM, on_alarm);
  for (;;) {
    int len = -1;
    const char *op;
    if (0 == me) {
      for (;;) {
        char *p;
        if (!fgets(h_line, sizeof(h_line), in)) { len = -1; break; }
        p = h_line;
        while (*p == ' ' || *p == '\t') p++;
        if (*p == '#' || *p == '\n' || *p == '\r' || *p == 0) continue;
        len = (int)strlen(h_line);
        break;
      }
    }
#ifdef HAVE_MPI
    MPI_Bcast(&len, 1, MPI_INT, 0, MPI_COMM_WORLD);
    if (len < 0) break;
    MPI_Bcast(h_line, len + 1, MPI_CHAR, 0, MPI_COMM_WORLD);
#else
    if (len < 0) break;
#endif
    tokenise();
    if (h_nw == 0) continue;
    op = h_w[0];
    alarm(20); /* a shrunk (inconsistent) distributed grid may leave ranks waiting for each other: give up quickly */
    if (0 == strcmp(op, "reset")) {
      if (h_nw == 4 && valid_is(1, 3) && h_i(h_w[1]) == np && h_i(h_w[2]) <= 1) {
        drop_all();
        twod = (int)h_i(h_w[2]);
        seed0 = (long)h_i(h_w[3]);
        if (REF_SUCCESS != ref_grid_create(&from, h_mpi)) return 4;
        if (REF_SUCCESS != ref_grid_create(&to, h_mpi)) return 4;
        ref_grid_twod(from) = (REF_BOOL)twod;
        ref_grid_twod(to) = (REF_BOOL)twod;
        active = 1;
        say("ok");
      } else {
        drop_all();
        say("bad-op");
      }
    } else if (!active) say("bad-op");
    else if (0 == strcmp(op, "dnode")) op_node(1);
    else if (0 == strcmp(op, "rnode")) op_node(0);
    else if (0 == strcmp(op, "dcell")) op_cell(1, 0);
    else if (0 == strcmp(op, "rcell")) op_cell(0, 0);
    else if (0 == strcmp(op, "dbnd")) op_cell(1, 1);
    else if (0 == strcmp(op, "rbnd")) op_cell(0, 1);
    else if (0 == strcmp(op, "dadj")) op_adj(1);
    else if (0 == strcmp(op, "radj")) op_adj(0);
    else if (0 == strcmp(op, "geomlist")) op_geomlist();
    else if (0 == strcmp(op, "locate") && h_nw == 1 + 6 * np && valid_is(1, 6 * np)) {
      /* `locate` names the number of node / cell / boundary lines of every rank (donor, then receptor): a session that
       * lost a line (a shrunk replay) is not a consistent distributed grid any more and is answered `bad-op` */
      int r, okc = 1;
      for (r = 0; r < np; r++) {
        if (h_i(h_w[1 + 6 * r]) != dn[r] || h_i(h_w[2 + 6 * r]) != dc[r] || h_i(h_w[3 + 6 * r]) != db[r] ||
            h_i(h_w[4 + 6 * r]) != rn[r] || h_i(h_w[5 + 6 * r]) != rc[r] || h_i(h_w[6 + 6 * r]) != rb[r])
          okc = 0;
      }
      if (okc) op_locate();
      else say("bad-op");
    } else say("bad-op");
    alarm(0);
  }
  drop_all();
  fclose(out);
  ref_mpi_free(h_mpi);
#ifdef HAVE_MPI
  MPI_Finalize();
#else
  ref_mpi_stop();
#endif
  (void)all_max;
  return 0;
}
