/* harness `unit` (property C03): the band logic of refine's adaptation.
   mode (argv[1]):
     fn     function level, one output line per op (diff against `refdrv unit`):
              <op> n0 n1 nw <pmin> <pmax> nn <9*nn hex: xyz m11 m12 m13 m22 m23 m33> <cells: tri a b c | tet a b c d>
              op = split    -> ref_split_edge_ratio(n0,n1,nw)          "ok 0|1"
                   collapse -> ref_collapse_edge_ratio(n0,n1)          "ok 0|1"
                   around   -> ref_smooth_{tri,tet}_ratio_around(n0)    "ok <min> <max>" | "failure"
                   swap     -> ref_swap_ratio(n0,n1)                    "ok 0|1"
                   ratio    -> ref_node_ratio(n0,n1)                    "ok <ratio>"
                   selsplit -> ref_split_pass with split_ratio = pmax(word 5), empty band: the edges that reach
                               a split trial, sorted                    "ok a-b a-b ..."
     param  white-box ref_adapt_parameter (static, ref_adapt.c included) on small real grids; the harness measures
            the grid itself through the public API and dumps  before / measured / after / all_done  (validated by
            `refdrv unit validate`);  qsplit / qcollapse dump the quality values the real quality guards saw
            together with their decision
              reset <dim 2|3>
              param <s0> <s1> <s2> <s3> <a> <b> <c> age mixed      vertex k gets diag(a,b,c)*s[k%4]
              qsplit / qcollapse  (configuration as in fn mode)
     run    hooked real passes (ref_adapt_pass, ...): one record line per hook event, see my_op
   The library prints diagnostics on stdout: stdout goes to /dev/null, protocol lines to a dup of fd 1. */
#include <unistd.h>

#include "h_proto.h"
#include "ref_adapt.c" /* white box: static ref_adapt_parameter */
/* white box ref_collapse.c with ref_cell_node_list_around redirected: its only caller there is
   ref_collapse_to_remove_node1, so every call is one removal ATTEMPT of ref_collapse_pass (accepted or not) */
static REF_STATUS h_spy_node_list_around(REF_CELL ref_cell, REF_INT node, REF_INT max_node, REF_INT *nnode,
                                         REF_INT *node_list);
#define ref_cell_node_list_around h_spy_node_list_around
#include "ref_collapse.c"
#undef ref_cell_node_list_around

#include "ref_fixture.h"
#include "ref_swap.h"
#include "ref_verif.h"

static FILE *out;
static REF_MPI ref_mpi;

static void pf(double d) {
  fputc(' ', out);
  h_pf(out, d);
}

static REF_GRID spy_grid = NULL;
static int spy_count = 0;
static REF_STATUS h_spy_node_list_around(REF_CELL ref_cell, REF_INT node, REF_INT max_node, REF_INT *nnode,
                                         REF_INT *node_list) {
  REF_STATUS st = ref_cell_node_list_around(ref_cell, node, max_node, nnode, node_list);
  /* 3-D only: there the attempt is the one call on the tet group (ref_collapse_edge_manifold asks the tri group);
     on planar grids the work list can be stale (see Drivers/Unit.lean, record CB) and nothing is recorded */
  if (NULL != spy_grid && REF_SUCCESS == st && spy_count < 4000 && !ref_grid_twod(spy_grid) &&
      !ref_grid_surf(spy_grid) && ref_cell == ref_grid_tet(spy_grid)) {
    REF_INT i;
    REF_DBL r, mn = 2.0 * ref_grid_adapt(spy_grid, collapse_ratio);
    for (i = 0; i < *nnode; i++)
      if (REF_SUCCESS == ref_node_ratio(ref_grid_node(spy_grid), node_list[i], node, &r)) mn = MIN(mn, r);
    spy_count++;
    fprintf(out, "CT %d", ref_grid_twod(spy_grid) ? 2 : 3);
    pf(mn);
    pf(ref_grid_adapt(spy_grid, collapse_ratio));
    fprintf(out, "\n");
  }
  return st;
}

static int is_hex16(const char *s) { return 16 == strlen(s) && 16 == strspn(s, "0123456789abcdefABCDEF"); }
static int is_nat(const char *s) { return 0 < strlen(s) && strlen(s) < 7 && strlen(s) == strspn(s, "0123456789"); }

/* ------------------------------------------------------------------ configuration -> grid */
static int N0, N1, NW, NN, HAS_TET, NTRI2, CYC01, CYC10;
static double PMIN, PMAX;

/* words 1.. : n0 n1 nw pmin pmax nn verts cells ; returns 0 when malformed */
static int build(REF_GRID *grid_ptr) {
  REF_GRID g;
  REF_NODE ref_node;
  int i, k, w, c;
  *grid_ptr = NULL;
  if (h_nw < 7) return 0;
  for (i = 1; i <= 3; i++)
    if (!is_nat(h_w[i])) return 0;
  if (!is_hex16(h_w[4]) || !is_hex16(h_w[5]) || !is_nat(h_w[6])) return 0;
  N0 = (int)h_i(h_w[1]);
  N1 = (int)h_i(h_w[2]);
  NW = (int)h_i(h_w[3]);
  PMIN = h_f(h_w[4]);
  PMAX = h_f(h_w[5]);
  NN = (int)h_i(h_w[6]);
  if (NN < 1 || NN > 200 || N0 >= NN || N1 >= NN || NW >= NN) return 0;
  w = 7;
  if (h_nw < w + 9 * NN) return 0;
  for (i = 0; i < 9 * NN; i++)
    if (!is_hex16(h_w[w + i])) return 0;
  c = w + 9 * NN;
  HAS_TET = 0;
  while (c < h_nw) { /* validate cells */
    int np = 0 == strcmp(h_w[c], "tri") ? 3 : (0 == strcmp(h_w[c], "tet") ? 4 : 0);
    if (0 == np || h_nw - (c + 1) < np) return 0;
    for (i = 0; i < np; i++) {
      if (!is_nat(h_w[c + 1 + i]) || h_i(h_w[c + 1 + i]) >= NN) return 0;
      for (k = 0; k < i; k++)
        if (h_i(h_w[c + 1 + i]) == h_i(h_w[c + 1 + k])) return 0;
    }
    if (4 == np) HAS_TET = 1;
    c += 1 + np;
  }
  if (REF_SUCCESS != ref_grid_create(&g, ref_mpi)) exit(3);
  ref_node = ref_grid_node(g);
  for (i = 0; i < NN; i++) {
    REF_INT node;
    REF_DBL m[6];
    if (REF_SUCCESS != ref_node_add(ref_node, (REF_GLOB)i, &node) || node != i) exit(3);
    for (k = 0; k < 3; k++) ref_node_xyz(ref_node, k, node) = h_f(h_w[w + 9 * i + k]);
    for (k = 0; k < 6; k++) m[k] = h_f(h_w[w + 9 * i + 3 + k]);
    /* the ratio kernels read the metric itself (real[3..8]); the log-metric is not needed here */
    for (k = 0; k < 6; k++) ref_node->real[(k + 3) + REF_NODE_REAL_PER * node] = m[k];
    for (k = 0; k < 6; k++) ref_node->real[(k + 9) + REF_NODE_REAL_PER * node] = 0.0;
  }
  c = w + 9 * NN;
  NTRI2 = CYC01 = CYC10 = 0;
  while (c < h_nw) {
    int np = 0 == strcmp(h_w[c], "tri") ? 3 : 4;
    REF_INT nodes[5], cell, has0 = 0, has1 = 0;
    for (i = 0; i < np; i++) {
      nodes[i] = (REF_INT)h_i(h_w[c + 1 + i]);
      if (nodes[i] == N0) has0 = 1;
      if (nodes[i] == N1) has1 = 1;
    }
    if (3 == np) {
      nodes[3] = 1;
      if (has0 && has1) NTRI2++;
      for (i = 0; i < 3; i++) {
        if (nodes[i] == N0 && nodes[(i + 1) % 3] == N1) CYC01++;
        if (nodes[i] == N1 && nodes[(i + 1) % 3] == N0) CYC10++;
      }
      if (REF_SUCCESS != ref_cell_add(ref_grid_tri(g), nodes, &cell)) exit(3);
    } else {
      if (REF_SUCCESS != ref_cell_add(ref_grid_tet(g), nodes, &cell)) exit(3);
    }
    c += 1 + np;
  }
  if (!HAS_TET) ref_grid_twod(g) = REF_TRUE;
  ref_grid_adapt(g, post_min_ratio) = PMIN;
  ref_grid_adapt(g, post_max_ratio) = PMAX;
  *grid_ptr = g;
  return 1;
}

/* ------------------------------------------------------------------ hook recorder used by selsplit */
static int sel_n, sel_e[4096][2];
static void sel_op(const char *phase, const char *kind, void *object, int n, const int *ints) {
  (void)object;
  (void)n;
  if (0 == strcmp(kind, "split_trial") && 0 == strcmp(phase, "begin") && sel_n < 4096) {
    sel_e[sel_n][0] = ints[0] < ints[1] ? ints[0] : ints[1];
    sel_e[sel_n][1] = ints[0] < ints[1] ? ints[1] : ints[0];
    sel_n++;
  }
}
static int sel_cmp(const void *a, const void *b) {
  const int *x = (const int *)a, *y = (const int *)b;
  if (x[0] != y[0]) return x[0] < y[0] ? -1 : 1;
  if (x[1] != y[1]) return x[1] < y[1] ? -1 : 1;
  return 0;
}

static void function_level(void) {
  while (h_next(stdin)) {
    REF_GRID g = NULL;
    REF_BOOL allowed = REF_FALSE;
    REF_STATUS s;
    const char *op = h_w[0];
    if (!build(&g)) {
      fprintf(out, "bad-op\n");
      continue;
    }
    if (0 == strcmp(op, "split")) {
      s = ref_split_edge_ratio(g, N0, N1, NW, &allowed);
      if (REF_SUCCESS == s)
        fprintf(out, "ok %d\n", allowed ? 1 : 0);
      else
        fprintf(out, "%s\n", h_status(s));
    } else if (0 == strcmp(op, "collapse")) {
      s = ref_collapse_edge_ratio(g, N0, N1, &allowed);
      if (REF_SUCCESS == s)
        fprintf(out, "ok %d\n", allowed ? 1 : 0);
      else
        fprintf(out, "%s\n", h_status(s));
    } else if (0 == strcmp(op, "around")) {
      REF_DBL mn = 0, mx = 0;
      s = HAS_TET ? ref_smooth_tet_ratio_around(g, N0, &mn, &mx) : ref_smooth_tri_ratio_around(g, N0, &mn, &mx);
      if (REF_SUCCESS == s) {
        fprintf(out, "ok");
        pf(mn);
        pf(mx);
        fprintf(out, "\n");
      } else {
        fprintf(out, "%s\n", h_status(s));
      }
    } else if (0 == strcmp(op, "swap")) {
      if (HAS_TET || 2 != NTRI2 || N0 == N1 || 1 != CYC01 || 1 != CYC10) {
        fprintf(out, "bad-op\n");
      } else {
        s = ref_swap_ratio(g, N0, N1, &allowed);
        if (REF_SUCCESS == s)
          fprintf(out, "ok %d\n", allowed ? 1 : 0);
        else
          fprintf(out, "%s\n", h_status(s));
      }
    } else if (0 == strcmp(op, "ratio")) {
      REF_DBL r = 0;
      s = ref_node_ratio(ref_grid_node(g), N0, N1, &r);
      if (REF_SUCCESS == s) {
        fprintf(out, "ok");
        pf(r);
        fprintf(out, "\n");
      } else {
        fprintf(out, "%s\n", h_status(s));
      }
    } else if (0 == strcmp(op, "selsplit")) {
      int i;
      ref_grid_adapt(g, split_ratio) = PMAX;
      /* empty band: every trial is rejected by ref_split_edge_ratio, so the grid never changes and every
         candidate reaches its trial */
      ref_grid_adapt(g, post_min_ratio) = 1.0e9;
      ref_grid_adapt(g, post_max_ratio) = 1.0e-9;
      sel_n = 0;
      ref_verif_op_fcn = sel_op;
      s = ref_split_pass(g);
      ref_verif_op_fcn = NULL;
      qsort(sel_e, (size_t)sel_n, sizeof(sel_e[0]), sel_cmp);
      fprintf(out, "%s", h_status(s));
      if (REF_SUCCESS == s)
        for (i = 0; i < sel_n; i++) fprintf(out, " %d-%d", sel_e[i][0], sel_e[i][1]);
      fprintf(out, "\n");
    } else {
      fprintf(out, "bad-op\n");
    }
    ref_grid_free(g);
  }
}

/* ------------------------------------------------------------------ param level */
static void print_adapt(REF_ADAPT a) {
  pf(a->split_ratio);
  pf(a->split_quality_absolute);
  pf(a->split_quality_relative);
  pf(a->collapse_ratio);
  pf(a->collapse_quality_absolute);
  pf(a->smooth_min_quality);
  pf(a->post_min_normdev);
  pf(a->post_min_ratio);
  pf(a->post_max_ratio);
  pf(a->last_min_ratio);
  pf(a->last_max_ratio);
}

/* the measurements of ref_adapt_parameter, taken by the harness through the public API */
static REF_STATUS measure(REF_GRID g, REF_DBL *min_ratio, REF_DBL *max_ratio, REF_DBL *min_quality, REF_DBL *npc,
                          int *mixed, int *max_age) {
  REF_NODE ref_node = ref_grid_node(g);
  REF_CELL ref_cell = (ref_grid_twod(g) || ref_grid_surf(g)) ? ref_grid_tri(g) : ref_grid_tet(g);
  REF_INT cell, nodes[REF_CELL_MAX_SIZE_PER], cell_node, node, nnode, edge;
  REF_DBL quality, volume, det, complexity, m[6], ratio;
  REF_EDGE ref_edge;
  *mixed = (ref_cell_n(ref_grid_qua(g)) > 0 || ref_cell_n(ref_grid_pyr(g)) > 0 || ref_cell_n(ref_grid_pri(g)) > 0 ||
            ref_cell_n(ref_grid_hex(g)) > 0);
  *min_quality = 1.0;
  complexity = 0.0;
  each_ref_cell_valid_cell_with_nodes(ref_cell, cell, nodes) {
    if (ref_grid_twod(g) || ref_grid_surf(g)) {
      RSS(ref_node_tri_quality(ref_node, nodes, &quality), "qual");
      RSS(ref_node_tri_area(ref_node, nodes, &volume), "vol");
    } else {
      RSS(ref_node_tet_quality(ref_node, nodes, &quality), "qual");
      RSS(ref_node_tet_vol(ref_node, nodes, &volume), "vol");
    }
    *min_quality = MIN(*min_quality, quality);
    for (cell_node = 0; cell_node < ref_cell_node_per(ref_cell); cell_node++) {
      RSS(ref_node_metric_get(ref_node, nodes[cell_node], m), "get");
      RSS(ref_matrix_det_m(m, &det), "det");
      if (det > 0.0) complexity += sqrt(det) * volume / ((REF_DBL)ref_cell_node_per(ref_cell));
    }
  }
  nnode = 0;
  *max_age = 0;
  each_ref_node_valid_node(ref_node, node) {
    nnode++;
    *max_age = MAX(*max_age, ref_node_age(ref_node, node));
  }
  *npc = (REF_DBL)nnode / complexity;
  *min_ratio = REF_DBL_MAX;
  *max_ratio = REF_DBL_MIN;
  RSS(ref_edge_create(&ref_edge, g), "edges");
  for (edge = 0; edge < ref_edge_n(ref_edge); edge++) {
    RSS(ref_node_ratio(ref_node, ref_edge_e2n(ref_edge, 0, edge), ref_edge_e2n(ref_edge, 1, edge), &ratio), "rat");
    *min_ratio = MIN(*min_ratio, ratio);
    *max_ratio = MAX(*max_ratio, ratio);
  }
  RSS(ref_edge_free(ref_edge), "free");
  return REF_SUCCESS;
}

static void quality_dump(const char *op) {
  REF_GRID g = NULL;
  REF_NODE ref_node;
  REF_CELL ref_cell;
  REF_INT item, cell_node, cell, nodes[REF_CELL_MAX_SIZE_PER], node;
  REF_BOOL allowed = REF_FALSE;
  REF_STATUS s;
  REF_DBL q, q0, q1, v0, v1, me;
  int tet;
  if (!build(&g)) {
    fprintf(out, "bad-op\n");
    return;
  }
  ref_node = ref_grid_node(g);
  tet = HAS_TET;
  ref_cell = tet ? ref_grid_tet(g) : ref_grid_tri(g);
  { /* the quality kernels need the log-metric too */
    REF_INT i;
    REF_DBL m[6];
    for (i = 0; i < NN; i++) {
      if (REF_SUCCESS != ref_node_metric_get(ref_node, i, m) || REF_SUCCESS != ref_node_metric_set(ref_node, i, m)) {
        fprintf(out, "bad-op\n");
        ref_grid_free(g);
        return;
      }
    }
  }
  ref_node->min_volume = 1.0e-15;
  ref_grid_adapt(g, collapse_quality_absolute) = PMIN; /* word 4 doubles as the quality threshold */
  ref_grid_adapt(g, split_quality_absolute) = PMIN;
  ref_grid_adapt(g, split_quality_relative) = PMAX;
  if (0 == strcmp(op, "qsplit")) {
    s = tet ? ref_split_edge_tet_quality(g, N0, N1, NW, &allowed) : ref_split_edge_tri_quality(g, N0, N1, NW, &allowed);
    if (REF_SUCCESS != s) {
      fprintf(out, "QX %s\n", h_status(s));
      ref_grid_free(g);
      return;
    }
    me = 1.0;
    each_ref_cell_having_node2(ref_cell, N0, N1, item, cell_node, cell) {
      if (REF_SUCCESS != ref_cell_nodes(ref_cell, cell, nodes)) exit(3);
      s = tet ? ref_node_tet_quality(ref_node, nodes, &q) : ref_node_tri_quality(ref_node, nodes, &q);
      if (REF_SUCCESS != s) exit(3);
      me = MIN(me, q);
    }
    fprintf(out, "QS %d", allowed ? 1 : 0);
    pf(ref_grid_adapt(g, split_quality_absolute));
    pf(ref_grid_adapt(g, split_quality_relative));
    pf(ref_node_min_volume(ref_node));
    pf(me);
    each_ref_cell_having_node2(ref_cell, N0, N1, item, cell_node, cell) {
      if (REF_SUCCESS != ref_cell_nodes(ref_cell, cell, nodes)) exit(3);
      for (node = 0; node < ref_cell_node_per(ref_cell); node++)
        if (N0 == nodes[node]) nodes[node] = NW;
      s = tet ? ref_node_tet_quality(ref_node, nodes, &q0) : ref_node_tri_quality(ref_node, nodes, &q0);
      if (REF_SUCCESS == s) s = tet ? ref_node_tet_vol(ref_node, nodes, &v0) : ref_node_tri_area(ref_node, nodes, &v0);
      if (REF_SUCCESS != s) exit(3);
      for (node = 0; node < ref_cell_node_per(ref_cell); node++)
        if (NW == nodes[node]) nodes[node] = N0;
      for (node = 0; node < ref_cell_node_per(ref_cell); node++)
        if (N1 == nodes[node]) nodes[node] = NW;
      s = tet ? ref_node_tet_quality(ref_node, nodes, &q1) : ref_node_tri_quality(ref_node, nodes, &q1);
      if (REF_SUCCESS == s) s = tet ? ref_node_tet_vol(ref_node, nodes, &v1) : ref_node_tri_area(ref_node, nodes, &v1);
      if (REF_SUCCESS != s) exit(3);
      fprintf(out, " |");
      pf(q0);
      pf(q1);
      pf(v0);
      pf(v1);
    }
    fprintf(out, "\n");
  } else {
    s = tet ? ref_collapse_edge_tet_quality(g, N0, N1, &allowed) : ref_collapse_edge_tri_quality(g, N0, N1, &allowed);
    if (REF_SUCCESS != s) {
      fprintf(out, "QX %s\n", h_status(s));
      ref_grid_free(g);
      return;
    }
    fprintf(out, "QC %d", allowed ? 1 : 0);
    pf(ref_grid_adapt(g, collapse_quality_absolute));
    each_ref_cell_having_node(ref_cell, N1, item, cell) {
      int gone = 0, veto = 0;
      if (REF_SUCCESS != ref_cell_nodes(ref_cell, cell, nodes)) exit(3);
      for (node = 0; node < ref_cell_node_per(ref_cell); node++)
        if (N0 == nodes[node]) gone = 1;
      if (gone) continue;
      for (node = 0; node < ref_cell_node_per(ref_cell); node++)
        if (N1 == nodes[node]) nodes[node] = N0;
      s = tet ? ref_node_tet_quality(ref_node, nodes, &q) : ref_node_tri_quality(ref_node, nodes, &q);
      if (REF_SUCCESS != s) exit(3);
      if (tet) {
        REF_INT ntri;
        if (REF_SUCCESS != ref_cell_ntri_with_tet_nodes(ref_grid_tri(g), nodes, &ntri)) exit(3);
        veto = ntri > 1;
      } else {
        REF_DBL area;
        if (REF_SUCCESS != ref_node_tri_area(ref_node, nodes, &area)) exit(3);
        veto = area <= ref_node_min_volume(ref_node);
      }
      fprintf(out, " | %d", veto);
      pf(q);
    }
    fprintf(out, "\n");
  }
  ref_grid_free(g);
}

static void my_op(const char *phase, const char *kind, void *object, int n, const int *ints);

/* qsmooth: the real ref_smooth_tet_improve on the interior vertex n1 of a 3-D configuration under the band of
   words 4,5; prints the two records of the run-level hook (MB ... / ME ...) on ONE line, separated by " ; " */
static void smooth_dump(void) {
  REF_GRID g = NULL;
  REF_NODE ref_node;
  REF_INT i;
  REF_DBL m[6];
  int ints[3];
  if (!build(&g)) {
    fprintf(out, "bad-op\n");
    return;
  }
  ref_node = ref_grid_node(g);
  if (!HAS_TET || ref_cell_node_empty(ref_grid_tet(g), N1) || !ref_cell_node_empty(ref_grid_tri(g), N1)) {
    fprintf(out, "bad-op\n");
    ref_grid_free(g);
    return;
  }
  for (i = 0; i < NN; i++) {
    if (REF_SUCCESS != ref_node_metric_get(ref_node, i, m) || REF_SUCCESS != ref_node_metric_set(ref_node, i, m)) {
      fprintf(out, "bad-op\n");
      ref_grid_free(g);
      return;
    }
  }
  ref_node->min_volume = 1.0e-15;
  ints[0] = N1;
  ints[1] = ints[2] = -1;
  fprintf(out, "QM ");
  my_op("begin", "smooth_tet", g, 3, ints);
  fflush(out);
  if (REF_SUCCESS != ref_smooth_tet_improve(g, N1)) {
    fprintf(out, "QX smoother-status\n");
    ref_grid_free(g);
    return;
  }
  fprintf(out, "QM ");
  my_op("end", "smooth_tet", g, 3, ints);
  ref_grid_free(g);
}

static void param_level(void) {
  REF_GRID g = NULL;
  while (h_next(stdin)) {
    const char *op = h_w[0];
    if (0 == strcmp(op, "reset") && 2 == h_nw && is_nat(h_w[1])) {
      REF_STATUS s;
      if (g) ref_grid_free(g);
      g = NULL;
      s = (2 == h_i(h_w[1])) ? ref_fixture_twod_brick_grid(&g, ref_mpi, 3) : ref_fixture_tet_grid(&g, ref_mpi);
      if (REF_SUCCESS != s) exit(3);
      fprintf(out, "ok\n");
    } else if (0 == strcmp(op, "param") && 10 == h_nw && NULL != g) {
      REF_NODE ref_node = ref_grid_node(g);
      REF_INT node;
      REF_BOOL all_done = REF_FALSE;
      REF_STATUS s;
      REF_DBL sc[4], abc[3], minr, maxr, minq, npc;
      int i, ok = 1, mixed, age;
      for (i = 1; i <= 7; i++) ok = ok && is_hex16(h_w[i]);
      ok = ok && is_nat(h_w[8]) && is_nat(h_w[9]);
      if (ok) {
        for (i = 0; i < 4; i++) sc[i] = h_f(h_w[1 + i]);
        for (i = 0; i < 3; i++) abc[i] = h_f(h_w[5 + i]);
        for (i = 0; i < 4; i++) ok = ok && sc[i] > 1e-6 && sc[i] < 1e6;
        for (i = 0; i < 3; i++) ok = ok && abc[i] > 1e-6 && abc[i] < 1e6;
      }
      if (!ok) {
        fprintf(out, "bad-op\n");
        continue;
      }
      each_ref_node_valid_node(ref_node, node) {
        REF_DBL s4 = sc[node % 4];
        if (REF_SUCCESS != ref_node_metric_form(ref_node, node, abc[0] * s4, 0, 0, abc[1] * s4, 0,
                                                ref_grid_twod(g) ? 1.0 : abc[2] * s4))
          exit(3);
        ref_node_age(ref_node, node) = (REF_INT)h_i(h_w[8]);
      }
      if (1 == h_i(h_w[9]) && 0 == ref_cell_n(ref_grid_qua(g)) && !ref_grid_twod(g)) {
        REF_INT nodes[5] = {0, 1, 2, 3, 7}, cell;
        if (REF_SUCCESS != ref_cell_add(ref_grid_qua(g), nodes, &cell)) exit(3);
      }
      if (REF_SUCCESS != measure(g, &minr, &maxr, &minq, &npc, &mixed, &age)) {
        fprintf(out, "P measure-failed\n");
        continue;
      }
      fprintf(out, "P");
      print_adapt((g)->adapt);
      s = ref_adapt_parameter(g, &all_done);
      fprintf(out, " M");
      pf(minr);
      pf(maxr);
      pf(minq);
      pf(2.0); /* min_normdev without a geometry model */
      pf(npc);
      fprintf(out, " %d %d A", mixed, age);
      print_adapt((g)->adapt);
      fprintf(out, " %s %d\n", h_status(s), all_done ? 1 : 0);
    } else if (0 == strcmp(op, "qsplit") || 0 == strcmp(op, "qcollapse")) {
      quality_dump(op);
    } else if (0 == strcmp(op, "qsmooth")) {
      smooth_dump();
    } else {
      fprintf(out, "bad-op\n");
    }
  }
  if (g) ref_grid_free(g);
}

/* ------------------------------------------------------------------ run level */
#define REC_CAP 4000
static int rec_count[16], rec_on[16], rec_total;
static const char *kinds[] = {"split_trial", "split_edge",  "collapse_edge", "swap_tri_edge",
                              "smooth_edge", "smooth_tri",  "smooth_tet",    "cavity_replace"};
static REF_INT cb_new[2000], cb_nnew;
static REF_DBL mb_xyz[3];

static REF_CELL main_cell(REF_GRID g) { return (ref_grid_twod(g) || ref_grid_surf(g)) ? ref_grid_tri(g) : ref_grid_tet(g); }

static void print_band(REF_GRID g) {
  pf(ref_grid_adapt(g, post_min_ratio));
  pf(ref_grid_adapt(g, post_max_ratio));
}

/* vertices (xyz + metric) and cells of the main group that contain `a` (and `b` when b >= 0); `extra` is added */
static void print_config(REF_GRID g, REF_INT a, REF_INT b, REF_INT extra) {
  REF_NODE ref_node = ref_grid_node(g);
  REF_CELL ref_cell = main_cell(g);
  REF_INT item, cell, nodes[REF_CELL_MAX_SIZE_PER], list[4000], nl = 0, i, k, np = ref_cell_node_per(ref_cell);
  REF_INT cells[1000], nc = 0;
  each_ref_cell_having_node(ref_cell, a, item, cell) {
    int has = (b < 0);
    if (REF_SUCCESS != ref_cell_nodes(ref_cell, cell, nodes)) exit(3);
    for (i = 0; i < np; i++)
      if (nodes[i] == b) has = 1;
    if (!has || nc >= 1000) continue;
    cells[nc++] = cell;
    for (i = 0; i < np; i++) {
      int have = 0;
      for (k = 0; k < nl; k++)
        if (list[k] == nodes[i]) have = 1;
      if (!have && nl < 3999) list[nl++] = nodes[i];
    }
  }
  if (extra >= 0) {
    int have = 0;
    for (k = 0; k < nl; k++)
      if (list[k] == extra) have = 1;
    if (!have) list[nl++] = extra;
  }
  fprintf(out, " V %d", nl);
  for (k = 0; k < nl; k++) {
    fprintf(out, " %d", list[k]);
    for (i = 0; i < 9; i++) pf(ref_node->real[i + REF_NODE_REAL_PER * list[k]]);
  }
  fprintf(out, " C %d", nc);
  for (k = 0; k < nc; k++) {
    fprintf(out, " %s", 3 == np ? "tri" : "tet");
    for (i = 0; i < np; i++) fprintf(out, " %d", ref_cell_c2n(ref_cell, i, cells[k]));
  }
}

static void print_ratios_at(REF_GRID g, REF_CELL ref_cell, REF_INT node) {
  REF_INT nn = 0, list[2000], i;
  REF_DBL r;
  if (REF_SUCCESS != ref_cell_node_list_around(ref_cell, node, 2000, &nn, list)) nn = 0;
  fprintf(out, " R %d", nn);
  for (i = 0; i < nn; i++) {
    if (REF_SUCCESS != ref_node_ratio(ref_grid_node(g), node, list[i], &r)) r = -1.0;
    pf(r);
  }
}

static void my_op(const char *phase, const char *kind, void *object, int n, const int *ints) {
  REF_GRID g;
  REF_NODE ref_node;
  int kk, begin = (0 == strcmp(phase, "begin"));
  (void)n;
  for (kk = 0; kk < 8; kk++)
    if (0 == strcmp(kind, kinds[kk])) break;
  if (8 == kk) return;
  if (begin) {
    rec_on[kk] = (rec_count[kk] < REC_CAP);
    if (rec_on[kk]) rec_count[kk]++;
  }
  if (!rec_on[kk]) return;
  g = (7 == kk) ? ref_cavity_grid((REF_CAVITY)object) : (REF_GRID)object;
  ref_node = ref_grid_node(g);
  if (0 == kk) { /* split_trial */
    if (begin) {
      REF_DBL r = -1.0;
      if (REF_SUCCESS != ref_node_ratio(ref_node, ints[0], ints[1], &r)) r = -1.0;
      fprintf(out, "T");
      pf(r);
      pf(ref_grid_adapt(g, split_ratio));
      fprintf(out, "\n");
      rec_total++;
    }
  } else if (1 == kk) { /* split_edge */
    if (begin) {
      fprintf(out, "SB %d %d %d", ints[0], ints[1], ints[2]);
      print_band(g);
      print_config(g, ints[0], ints[1], ints[2]);
      fprintf(out, "\n");
      rec_total++;
    } else if (0 == strcmp(phase, "accept")) {
      fprintf(out, "SA");
      print_band(g);
      print_ratios_at(g, main_cell(g), ints[2]);
      fprintf(out, "\n");
      rec_total++;
    }
  } else if (2 == kk) { /* collapse_edge */
    if (begin) {
      REF_CELL ref_cell = main_cell(g);
      REF_INT item, cell, nodes[REF_CELL_MAX_SIZE_PER], i, k, np = ref_cell_node_per(ref_cell);
      cb_nnew = 0;
      each_ref_cell_having_node(ref_cell, ints[1], item, cell) {
        int gone = 0;
        if (REF_SUCCESS != ref_cell_nodes(ref_cell, cell, nodes)) exit(3);
        for (i = 0; i < np; i++)
          if (nodes[i] == ints[0]) gone = 1;
        if (gone) continue;
        for (i = 0; i < np; i++) {
          int have = (nodes[i] == ints[1]);
          for (k = 0; k < cb_nnew; k++)
            if (cb_new[k] == nodes[i]) have = 1;
          if (!have && cb_nnew < 2000) cb_new[cb_nnew++] = nodes[i];
        }
      }
      fprintf(out, "CB %d %d", ints[0], ints[1]);
      print_band(g);
      pf(ref_grid_adapt(g, collapse_ratio));
      print_config(g, ints[1], -1, ints[0]);
      fprintf(out, "\n");
      rec_total++;
    } else if (0 == strcmp(phase, "accept")) {
      REF_INT k;
      REF_DBL r;
      fprintf(out, "CA");
      print_band(g);
      fprintf(out, " R %d", cb_nnew);
      for (k = 0; k < cb_nnew; k++) {
        if (REF_SUCCESS != ref_node_ratio(ref_node, ints[0], cb_new[k], &r)) r = -1.0;
        pf(r);
      }
      fprintf(out, "\n");
      rec_total++;
    }
  } else if (3 == kk) { /* swap_tri_edge */
    if (begin) {
      REF_INT n2 = REF_EMPTY, n3 = REF_EMPTY;
      REF_DBL r = -1.0;
      if (REF_SUCCESS == ref_swap_node23(g, ints[0], ints[1], &n2, &n3))
        if (REF_SUCCESS != ref_node_ratio(ref_node, n2, n3, &r)) r = -1.0;
      fprintf(out, "W");
      pf(r);
      print_band(g);
      fprintf(out, "\n");
      rec_total++;
    }
  } else if (kk >= 4 && kk <= 6) { /* smoothers */
    REF_INT node = ints[0];
    int has_tri = !ref_cell_node_empty(ref_grid_tri(g), node), has_tet = !ref_cell_node_empty(ref_grid_tet(g), node);
    REF_DBL qtri = -2, qtet = -2, mn = 0, mx = 0;
    if (has_tri && REF_SUCCESS != ref_smooth_tri_quality_around(g, node, &qtri)) qtri = -2;
    if (has_tet && REF_SUCCESS != ref_smooth_tet_quality_around(g, node, &qtet)) qtet = -2;
    if (begin) {
      int i;
      for (i = 0; i < 3; i++) mb_xyz[i] = ref_node_xyz(ref_node, i, node);
      fprintf(out, "MB %s %d %d", kind, has_tri, has_tet);
      pf(qtri);
      if (has_tri && REF_SUCCESS == ref_smooth_tri_ratio_around(g, node, &mn, &mx)) {
        pf(mn);
        pf(mx);
      } else {
        pf(0.0);
        pf(0.0);
      }
      pf(qtet);
      if (has_tet && REF_SUCCESS == ref_smooth_tet_ratio_around(g, node, &mn, &mx)) {
        pf(mn);
        pf(mx);
      } else {
        pf(0.0);
        pf(0.0);
      }
      fprintf(out, "\n");
      rec_total++;
    } else {
      int moved = (mb_xyz[0] != ref_node_xyz(ref_node, 0, node) || mb_xyz[1] != ref_node_xyz(ref_node, 1, node) ||
                   mb_xyz[2] != ref_node_xyz(ref_node, 2, node));
      fprintf(out, "ME %s %d %d %d", kind, moved, has_tri, has_tet);
      print_band(g);
      pf(ref_grid_adapt(g, smooth_min_quality));
      pf(qtri);
      pf(qtet);
      if (has_tri)
        print_ratios_at(g, ref_grid_tri(g), node);
      else
        fprintf(out, " R 0");
      if (has_tet)
        print_ratios_at(g, ref_grid_tet(g), node);
      else
        fprintf(out, " R 0");
      fprintf(out, "\n");
      rec_total++;
    }
  } else if (7 == kk) { /* cavity_replace */
    if (begin) {
      REF_CAVITY cav = (REF_CAVITY)object;
      REF_INT node = ref_cavity_node(cav), face, face_node;
      REF_BOOL allowed = REF_FALSE;
      REF_DBL r;
      int cnt = 0;
      if (REF_SUCCESS != ref_cavity_ratio(cav, &allowed)) allowed = REF_FALSE;
      each_ref_cavity_valid_face(cav, face) {
        int skip = 0;
        each_ref_cavity_face_node(cav, face_node) if (node == ref_cavity_f2n(cav, face_node, face)) skip = 1;
        if (!skip) cnt += 3;
      }
      fprintf(out, "V %d", allowed ? 1 : 0);
      print_band(g);
      fprintf(out, " R %d", cnt);
      each_ref_cavity_valid_face(cav, face) {
        int skip = 0;
        each_ref_cavity_face_node(cav, face_node) if (node == ref_cavity_f2n(cav, face_node, face)) skip = 1;
        if (skip) continue;
        each_ref_cavity_face_node(cav, face_node) {
          if (REF_SUCCESS != ref_node_ratio(ref_node, node, ref_cavity_f2n(cav, face_node, face), &r)) r = -1.0;
          pf(r);
        }
      }
      fprintf(out, "\n");
      rec_total++;
    }
  }
}

static unsigned long long lcg_state;
static double lcg(void) {
  lcg_state = lcg_state * 6364136223846793005ULL + 1442695040888963407ULL;
  return ((double)((lcg_state >> 33) & 0xffffff) / (double)0x800000) - 1.0;
}

/* run <dim 2|3> <n> <jitter seed> <metric iso|aniso|lin|bl> <h hex> <passes e.g. aascm> */
static void run_level(void) {
  while (h_next(stdin)) {
    REF_GRID g = NULL;
    REF_NODE ref_node;
    REF_INT node, nn;
    REF_STATUS s = REF_SUCCESS;
    REF_BOOL all_done;
    double h, dx;
    const char *p;
    int dim, k;
    if (!(0 == strcmp(h_w[0], "run") && 7 == h_nw && is_nat(h_w[1]) && is_nat(h_w[2]) && is_nat(h_w[3]) &&
          is_hex16(h_w[5]))) {
      fprintf(out, "bad-op\n");
      continue;
    }
    dim = (int)h_i(h_w[1]);
    nn = (REF_INT)h_i(h_w[2]);
    h = h_f(h_w[5]);
    if ((dim != 2 && dim != 3) || nn < 2 || nn > 12 || !(h > 1e-3 && h < 1e3) || strlen(h_w[6]) > 24) {
      fprintf(out, "bad-op\n");
      continue;
    }
    if (3 == dim)
      s = ref_fixture_tet_brick_args_grid(&g, ref_mpi, 0.0, 1.0, 0.0, 1.0, 0.0, 1.0, nn, nn, nn);
    else
      s = ref_fixture_twod_brick_grid(&g, ref_mpi, nn);
    if (REF_SUCCESS != s) {
      fprintf(out, "done fixture %s\n", h_status(s));
      continue;
    }
    ref_node = ref_grid_node(g);
    lcg_state = (unsigned long long)h_i(h_w[3]) * 2654435761ULL + 12345ULL;
    dx = 1.0 / (double)(nn - 1);
    each_ref_node_valid_node(ref_node, node) {
      double x = ref_node_xyz(ref_node, 0, node), y = ref_node_xyz(ref_node, 1, node),
             z = ref_node_xyz(ref_node, 2, node);
      double hx = h, hy = h, hz = h;
      int interior = x > 1e-9 && x < 1 - 1e-9 && y > 1e-9 && y < 1 - 1e-9 && (2 == dim || (z > 1e-9 && z < 1 - 1e-9));
      if (interior && 0 != h_i(h_w[3])) {
        ref_node_xyz(ref_node, 0, node) += 0.2 * dx * lcg();
        ref_node_xyz(ref_node, 1, node) += 0.2 * dx * lcg();
        if (3 == dim) ref_node_xyz(ref_node, 2, node) += 0.2 * dx * lcg();
      }
      if (0 == strcmp(h_w[4], "aniso")) {
        hy = 4.0 * h;
        hz = 2.0 * h;
      } else if (0 == strcmp(h_w[4], "lin")) {
        hx = hy = hz = h * (0.3 + 1.4 * x);
      } else if (0 == strcmp(h_w[4], "bl")) {
        hy = h * (0.1 + 2.0 * y);
      }
      if (2 == dim) hz = 1.0;
      if (REF_SUCCESS != ref_node_metric_form(ref_node, node, 1.0 / (hx * hx), 0, 0, 1.0 / (hy * hy), 0, 1.0 / (hz * hz)))
        exit(3);
    }
    if (1 == h_i(h_w[3]) % 2) {
      if (REF_SUCCESS == ref_grid_cache_background(g)) ref_interp_continuously(ref_grid_interp(g)) = REF_TRUE;
    }
    for (k = 0; k < 16; k++) rec_count[k] = rec_on[k] = 0;
    rec_total = 0;
    ref_verif_op_fcn = my_op;
    spy_grid = g;
    spy_count = 0;
    for (p = h_w[6]; *p && REF_SUCCESS == s; p++) {
      switch (*p) {
        case 'a': s = ref_adapt_pass(g, &all_done); break;
        case 's': s = ref_split_pass(g); break;
        case 'c': s = ref_collapse_pass(g); break;
        case 'w': s = (2 == dim) ? ref_swap_tri_pass(g) : REF_SUCCESS; break;
        case 'm': s = ref_smooth_pass(g); break;
        default: break;
      }
    }
    ref_verif_op_fcn = NULL;
    spy_grid = NULL;
    fprintf(out, "done %s nrec=%d nnode=%d split=%d collapse=%d swap=%d smooth=%d cavity=%d\n", h_status(s), rec_total,
            ref_node_n(ref_node), rec_count[1], rec_count[2], rec_count[3], rec_count[4] + rec_count[5] + rec_count[6],
            rec_count[7]);
    ref_grid_free(g);
  }
}

int main(int argc, char **argv) {
  out = fdopen(dup(1), "w");
  if (!out || !freopen("/dev/null", "w", stdout)) return 3;
  if (REF_SUCCESS != ref_mpi_create(&ref_mpi)) return 3;
  {
    char tmpl[] = "/tmp/h_unit_XXXXXX";
    char *d = mkdtemp(tmpl);
    if (d && 0 == chdir(d)) {
    }
  }
  if (argc > 1 && 0 == strcmp(argv[1], "run"))
    run_level();
  else if (argc > 1 && 0 == strcmp(argv[1], "param"))
    param_level();
  else
    function_level();
  fflush(out);
  {
    char cwd[256];
    if (getcwd(cwd, sizeof(cwd)) && 0 == strncmp(cwd, "/tmp/h_unit_", 12)) {
      remove("ref_swap_node23.tec");
      remove("ref_swap_same_faceid.tec");
      if (0 == chdir("/")) rmdir(cwd);
    }
  }
  return 0;
}
