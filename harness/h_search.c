/* harness `search`: ref_search.c (sphere tree + distance kernels), ref_node_bounding_sphere_xyz,
 * and the tree construction loop of ref_phys_wall_distance (bounding sphere, scale = 1+1e-8, insert).
 * refine's RSS/RAS macros print diagnostics to stdout on error branches, so the protocol lines go to a
 * private copy of fd 1 and stdout itself is pointed at /dev/null. */
#include "h_proto.h"
#include <unistd.h>
#include "ref_dict.h"
#include "ref_grid.h"
#include "ref_list.h"
#include "ref_mpi.h"
#include "ref_node.h"
#include "ref_phys.h"
#include "ref_search.h"

static FILE *out;
static REF_SEARCH tree = NULL;
static double *segs = NULL, *tris = NULL;
static int nseg = 0, ntri = 0, cseg = 0, ctri = 0;

static REF_MPI h_mpi = NULL;

/* `walldist per mask q...`: the real ref_phys_wall_distance (serial) on a grid made of the session's elements.
 * element i carries face id 1 + i%3; id j is a viscous wall (bc 4000) iff bit j-1 of mask is set, id 2 is stored
 * with a non-wall bc otherwise, ids 1 and 3 are then absent from the dict.  Prints the distance of the query nodes. */
static void wall_distance_q(int per, int mask, int nquad, char **quadw, int nq, char **qw);
static void wall_distance(int per, int mask, int nq, char **qw) { wall_distance_q(per, mask, 0, NULL, nq, qw); }
/* `walldistq mask nquad <12 doubles per quad> q...`: additionally nquad wall-candidate QUADS (3-D only) taken from
 * the op line; quad j carries face id 1 + j%3.  ref_phys_local_wall splits each wall quad into two triangles. */
static void wall_distance_q(int per, int mask, int nquad, char **quadw, int nq, char **qw) {
  REF_GRID grid = NULL;
  REF_DICT dict = NULL;
  REF_NODE ref_node;
  REF_DBL *distance = NULL;
  REF_STATUS st = REF_SUCCESS;
  int ncell = per == 2 ? nseg : ntri, e, v, i, node, cell, first_q;
  double *xyz = per == 2 ? segs : tris;
  REF_GLOB g = 0;
  REF_INT nodes[REF_CELL_MAX_SIZE_PER];
  if (!h_mpi) st = ref_mpi_create(&h_mpi);
  if (REF_SUCCESS == st) st = ref_grid_create(&grid, h_mpi);
  if (REF_SUCCESS != st) { fprintf(out, "%s\n", h_status(st)); return; }
  if (2 == per) ref_grid_twod(grid) = REF_TRUE;
  ref_node = ref_grid_node(grid);
  for (e = 0; REF_SUCCESS == st && e < ncell; e++) {
    for (v = 0; REF_SUCCESS == st && v < per; v++) {
      st = ref_node_add(ref_node, g++, &node);
      if (REF_SUCCESS != st) break;
      for (i = 0; i < 3; i++) ref_node_xyz(ref_node, i, node) = xyz[i + 3 * v + 3 * per * e];
      nodes[v] = node;
    }
    nodes[per] = 1 + e % 3;
    if (REF_SUCCESS == st) st = ref_cell_add(2 == per ? ref_grid_edg(grid) : ref_grid_tri(grid), nodes, &cell);
  }
  for (e = 0; REF_SUCCESS == st && e < nquad; e++) {
    for (v = 0; REF_SUCCESS == st && v < 4; v++) {
      st = ref_node_add(ref_node, g++, &node);
      if (REF_SUCCESS != st) break;
      for (i = 0; i < 3; i++) ref_node_xyz(ref_node, i, node) = h_f(quadw[i + 3 * v + 12 * e]);
      nodes[v] = node;
    }
    nodes[4] = 1 + e % 3;
    if (REF_SUCCESS == st) st = ref_cell_add(ref_grid_qua(grid), nodes, &cell);
  }
  first_q = (int)g;
  for (e = 0; REF_SUCCESS == st && e < nq; e++) {
    st = ref_node_add(ref_node, g++, &node);
    if (REF_SUCCESS != st) break;
    for (i = 0; i < 3; i++) ref_node_xyz(ref_node, i, node) = h_f(qw[3 * e + i]);
  }
  if (REF_SUCCESS == st) st = ref_dict_create(&dict);
  for (i = 1; REF_SUCCESS == st && i <= 3; i++) {
    if (mask & (1 << (i - 1))) st = ref_dict_store(dict, i, 4000);
    else if (2 == i) st = ref_dict_store(dict, i, 5000);
  }
  if (REF_SUCCESS == st) {
    distance = (REF_DBL *)malloc(sizeof(REF_DBL) * (size_t)(ref_node_max(ref_node) + 1));
    for (i = 0; i < ref_node_max(ref_node); i++) distance[i] = -1.0;
    st = ref_phys_wall_distance(grid, dict, distance);
  }
  fprintf(out, "%s", h_status(st));
  if (REF_SUCCESS == st)
    for (e = 0; e < nq; e++) { /* nodes were added with ascending globals into an empty node list: local == global */
      fputc(' ', out);
      h_pf(out, distance[first_q + e]);
    }
  fputc('\n', out);
  free(distance);
  if (dict) ref_dict_free(dict);
  if (grid) ref_grid_free(grid);
}

static int valid_f(const char *s) {
  int i;
  for (i = 0; i < 16; i++) {
    char c = s[i];
    if (!((c >= '0' && c <= '9') || (c >= 'a' && c <= 'f') || (c >= 'A' && c <= 'F'))) return 0;
  }
  return s[16] == 0;
}
static int valid_fs(int from, int count) {
  int i;
  if (h_nw != from + count) return 0;
  for (i = from; i < from + count; i++)
    if (!valid_f(h_w[i])) return 0;
  return 1;
}
static int valid_i(const char *s) {
  int n = 0;
  if (*s == '-') s++;
  while (*s >= '0' && *s <= '9') { s++; n++; }
  return *s == 0 && n > 0 && n < 12;
}

static void drop_tree(void) {
  if (tree) ref_search_free(tree);
  tree = NULL;
}

static void print_list(REF_STATUS st, REF_LIST l) {
  int i;
  if (REF_SUCCESS != st) { fprintf(out, "%s\n", h_status(st)); return; }
  fprintf(out, "ok %d", ref_list_n(l));
  for (i = 0; i < ref_list_n(l); i++) fprintf(out, " %d", ref_list_value(l, i));
  fputc('\n', out);
}

static int items_below(int k) {
  int i;
  for (i = 0; i < tree->empty; i++)
    if (tree->item[i] >= k) return 0;
  return 1;
}

int main(void) {
  out = fdopen(dup(1), "w");
  if (!out || !freopen("/dev/null", "w", stdout)) return 3;
  while (h_next(stdin)) {
    const char *op = h_w[0];
    if (0 == strcmp(op, "reset") && h_nw == 1) {
      drop_tree();
      nseg = ntri = 0;
      fputs("ok\n", out);
    } else if (0 == strcmp(op, "create") && h_nw == 2 && valid_i(h_w[1])) {
      long long n = h_i(h_w[1]);
      REF_STATUS st;
      if (n > 1000000 || n < -1000000) { fputs("bad-op\n", out); continue; }
      drop_tree();
      st = ref_search_create(&tree, (REF_INT)n);
      if (REF_SUCCESS != st) { /* negative n: the struct was allocated, the arrays were not */
        free(tree);
        tree = NULL;
      }
      fprintf(out, "%s\n", h_status(st));
    } else if (0 == strcmp(op, "insert") && h_nw == 6 && tree && valid_i(h_w[1]) && valid_fs(2, 4)) {
      long long item = h_i(h_w[1]);
      double p[3];
      if (item > 2000000000LL || item < -2000000000LL) { fputs("bad-op\n", out); continue; }
      p[0] = h_f(h_w[2]); p[1] = h_f(h_w[3]); p[2] = h_f(h_w[4]);
      fprintf(out, "%s\n", h_status(ref_search_insert(tree, (REF_INT)item, p, h_f(h_w[5]))));
    } else if (0 == strcmp(op, "dump") && h_nw == 1 && tree) {
      int i;
      fprintf(out, "ok %d %d I", tree->n, tree->empty);
      for (i = 0; i < tree->n; i++) fprintf(out, " %d", tree->item[i]);
      fputs(" L", out);
      for (i = 0; i < tree->n; i++) fprintf(out, " %d", tree->left[i]);
      fputs(" R", out);
      for (i = 0; i < tree->n; i++) fprintf(out, " %d", tree->right[i]);
      fputs(" B", out);
      for (i = 0; i < tree->n; i++) { fputc(' ', out); h_pf(out, tree->children_ball[i]); }
      fputs(" P", out); /* pos/radius are not initialised beyond `empty` */
      for (i = 0; i < 3 * tree->empty; i++) { fputc(' ', out); h_pf(out, tree->pos[i]); }
      fputs(" Q", out);
      for (i = 0; i < tree->empty; i++) { fputc(' ', out); h_pf(out, tree->radius[i]); }
      fputc('\n', out);
    } else if (0 == strcmp(op, "touching") && tree && valid_fs(1, 4)) {
      REF_LIST l;
      double p[3];
      REF_STATUS st;
      p[0] = h_f(h_w[1]); p[1] = h_f(h_w[2]); p[2] = h_f(h_w[3]);
      ref_list_create(&l);
      st = ref_search_touching(tree, l, p, h_f(h_w[4]));
      print_list(st, l);
      ref_list_free(l);
    } else if (0 == strcmp(op, "trim") && tree && valid_fs(1, 3)) {
      double p[3], t;
      REF_STATUS st;
      p[0] = h_f(h_w[1]); p[1] = h_f(h_w[2]); p[2] = h_f(h_w[3]);
      st = ref_search_trim_radius(tree, p, &t);
      fprintf(out, "%s ", h_status(st));
      h_pf(out, t);
      fputc('\n', out);
    } else if (0 == strcmp(op, "cand") && tree && valid_fs(1, 3)) {
      REF_LIST l;
      double p[3];
      REF_STATUS st;
      p[0] = h_f(h_w[1]); p[1] = h_f(h_w[2]); p[2] = h_f(h_w[3]);
      ref_list_create(&l);
      st = ref_search_nearest_candidates(tree, l, p);
      print_list(st, l);
      ref_list_free(l);
    } else if (0 == strcmp(op, "candlt") && tree && valid_fs(1, 4)) {
      REF_LIST l;
      double p[3];
      REF_STATUS st;
      p[0] = h_f(h_w[1]); p[1] = h_f(h_w[2]); p[2] = h_f(h_w[3]);
      ref_list_create(&l);
      st = ref_search_nearest_candidates_closer_than(tree, l, p, h_f(h_w[4]));
      print_list(st, l);
      ref_list_free(l);
    } else if (0 == strcmp(op, "seg") && valid_fs(1, 6)) {
      int i;
      if (nseg == cseg) { cseg = 2 * cseg + 16; segs = (double *)realloc(segs, sizeof(double) * 6 * (size_t)cseg); }
      for (i = 0; i < 6; i++) segs[6 * nseg + i] = h_f(h_w[1 + i]);
      nseg++;
      fputs("ok\n", out);
    } else if (0 == strcmp(op, "tri") && valid_fs(1, 9)) {
      int i;
      if (ntri == ctri) { ctri = 2 * ctri + 16; tris = (double *)realloc(tris, sizeof(double) * 9 * (size_t)ctri); }
      for (i = 0; i < 9; i++) tris[9 * ntri + i] = h_f(h_w[1 + i]);
      ntri++;
      fputs("ok\n", out);
    } else if ((0 == strcmp(op, "nearest2") || 0 == strcmp(op, "nearest3")) && tree && valid_fs(1, 4)) {
      int per = op[7] - '0';
      double p[3], d = h_f(h_w[4]);
      REF_STATUS st;
      if (!items_below(per == 2 ? nseg : ntri)) { fputs("bad-op\n", out); continue; }
      p[0] = h_f(h_w[1]); p[1] = h_f(h_w[2]); p[2] = h_f(h_w[3]);
      st = ref_search_nearest_element(tree, per, per == 2 ? segs : tris, p, &d);
      fprintf(out, "%s ", h_status(st));
      h_pf(out, d);
      fputc('\n', out);
    } else if (0 == strcmp(op, "wallbuild") && h_nw >= 2 && (0 == strcmp(h_w[1], "2") || 0 == strcmp(h_w[1], "3"))) {
      /* the loop of ref_phys_wall_distance with the permutation supplied instead of ref_sort_shuffle */
      int per = h_w[1][0] - '0', ncell = per == 2 ? nseg : ntri, i, ok = 1;
      double *xyz = per == 2 ? segs : tris;
      REF_DBL center[3], radius;
      REF_DBL scale = 1.0 + 1.0e-8;
      REF_STATUS st;
      for (i = 2; i < h_nw; i++) {
        if (!valid_i(h_w[i])) { ok = 0; break; }
        if (h_i(h_w[i]) < 0 || h_i(h_w[i]) >= ncell) { ok = 0; break; }
      }
      if (!ok) { fputs("bad-op\n", out); continue; }
      drop_tree();
      st = ref_search_create(&tree, ncell);
      if (REF_SUCCESS != st) { free(tree); tree = NULL; }
      for (i = 2; REF_SUCCESS == st && i < h_nw; i++) {
        int cell = (int)h_i(h_w[i]);
        st = ref_node_bounding_sphere_xyz(&(xyz[3 * per * cell]), per, center, &radius);
        if (REF_SUCCESS == st) st = ref_search_insert(tree, cell, center, scale * radius);
      }
      fprintf(out, "%s\n", h_status(st));
    } else if (0 == strcmp(op, "walldist") && h_nw >= 3 && (0 == strcmp(h_w[1], "2") || 0 == strcmp(h_w[1], "3")) &&
               valid_i(h_w[2]) && h_i(h_w[2]) >= 1 && h_i(h_w[2]) <= 7 && (h_nw - 3) % 3 == 0 &&
               valid_fs(3, h_nw - 3)) {
      wall_distance(h_w[1][0] - '0', (int)h_i(h_w[2]), (h_nw - 3) / 3, h_w + 3);
    } else if (0 == strcmp(op, "walldistq") && h_nw >= 3 && valid_i(h_w[1]) && h_i(h_w[1]) >= 1 && h_i(h_w[1]) <= 7 &&
               valid_i(h_w[2]) && h_i(h_w[2]) >= 0 && h_i(h_w[2]) <= 1000 && h_nw >= 3 + 12 * (int)h_i(h_w[2]) &&
               (h_nw - 3 - 12 * (int)h_i(h_w[2])) % 3 == 0 && valid_fs(3, h_nw - 3)) {
      int nquad = (int)h_i(h_w[2]);
      wall_distance_q(3, (int)h_i(h_w[1]), nquad, h_w + 3, (h_nw - 3 - 12 * nquad) / 3, h_w + 3 + 12 * nquad);
    } else if (0 == strcmp(op, "d2") && valid_fs(1, 9)) {
      double v[9], d;
      int i;
      for (i = 0; i < 9; i++) v[i] = h_f(h_w[1 + i]);
      if (REF_SUCCESS != ref_search_distance2(v, v + 3, v + 6, &d)) { fputs("failure\n", out); continue; }
      h_pf(out, d);
      fputc('\n', out);
    } else if (0 == strcmp(op, "d3") && valid_fs(1, 12)) {
      double v[12], d;
      int i;
      for (i = 0; i < 12; i++) v[i] = h_f(h_w[1 + i]);
      if (REF_SUCCESS != ref_search_distance3(v, v + 3, v + 6, v + 9, &d)) { fputs("failure\n", out); continue; }
      h_pf(out, d);
      fputc('\n', out);
    } else if (0 == strcmp(op, "bspheren") && h_nw >= 4 && (h_nw - 1) % 3 == 0 && h_nw <= 1 + 3 * 27 &&
               valid_fs(1, h_nw - 1)) {
      /* ref_node_bounding_sphere: the same arithmetic through a REF_NODE and a node index list */
      int n = (h_nw - 1) / 3, i, k;
      REF_GRID grid = NULL;
      REF_INT nodes[27], node;
      double c[3], r;
      REF_STATUS st = REF_SUCCESS;
      if (!h_mpi) st = ref_mpi_create(&h_mpi);
      if (REF_SUCCESS == st) st = ref_grid_create(&grid, h_mpi);
      for (i = 0; REF_SUCCESS == st && i < n; i++) {
        st = ref_node_add(ref_grid_node(grid), (REF_GLOB)(3 * i + 5), &node);
        if (REF_SUCCESS != st) break;
        for (k = 0; k < 3; k++) ref_node_xyz(ref_grid_node(grid), k, node) = h_f(h_w[1 + 3 * i + k]);
        nodes[n - 1 - i] = node; /* index list in reverse order of creation */
      }
      if (REF_SUCCESS == st) st = ref_node_bounding_sphere(ref_grid_node(grid), nodes, n, c, &r);
      if (REF_SUCCESS != st) { fprintf(out, "%s\n", h_status(st)); }
      else {
        h_pf(out, c[0]); fputc(' ', out);
        h_pf(out, c[1]); fputc(' ', out);
        h_pf(out, c[2]); fputc(' ', out);
        h_pf(out, r);
        fputc('\n', out);
      }
      if (grid) ref_grid_free(grid);
    } else if (0 == strcmp(op, "bsphere") && h_nw >= 4 && (h_nw - 1) % 3 == 0 && valid_fs(1, h_nw - 1)) {
      int n = (h_nw - 1) / 3, i;
      double *v = (double *)malloc(sizeof(double) * 3 * (size_t)n), c[3], r;
      for (i = 0; i < 3 * n; i++) v[i] = h_f(h_w[1 + i]);
      ref_node_bounding_sphere_xyz(v, n, c, &r);
      h_pf(out, c[0]); fputc(' ', out);
      h_pf(out, c[1]); fputc(' ', out);
      h_pf(out, c[2]); fputc(' ', out);
      h_pf(out, r);
      fputc('\n', out);
      free(v);
    } else {
      fputs("bad-op\n", out);
    }
  }
  drop_tree();
  free(segs);
  free(tris);
  fflush(out);
  return 0;
}
