/* harness `smoothinterp` (properties C05, C13): the donor-location / metric bookkeeping of the vertex smoothers and
   of split insertion, observed on the REAL code, in process, with a cached background and a log-linear metric field.

   White-box (Stream(..., whitebox=['ref_smooth', 'ref_split', 'ref_interp'])), nothing in /repo is edited:
     ref_smooth.c  is #included with ref_metric_interpolate_node    redirected to a recording wrapper
     ref_split.c   is #included with ref_metric_interpolate_between redirected to a recording wrapper
     ref_interp.c  is #included with ref_agents_push / ref_agents_remove / ref_search_touching redirected to
                   recording wrappers: they show what the walk (ref_interp_walk_agent) and the sequential fall-back
                   of ref_interp_locate_node / ref_interp_locate_between did, i.e. the OUTCOME of the search
   the improvers are bracketed by the ref_verif_op_fcn hooks (smooth_edge | smooth_tri | smooth_tet begin/end).

   ops (stdin), a session starts with `grid`:
     grid <mode> <twod> <nn> <3*nn xyz hex> <24 hex: L0 Lx Ly Lz (6 each)> <ncell> {tri a b c id | edg a b id | tet a b c d}
          mode 0: background cached (ref_grid_cache_background), continuously; 1: no ref_grid_interp; 2: interp, not continuously
          vertex metric: log M(x) = L0 + Lx x + Ly y + Lz z  (ref_node_metric_set_log)
          -> `BG mode twod rank para nn <6*nn stored background logs> ncell {cell n0 n1 n2 n3}`
     setcell <node> <cell>   ref_interp_cell(node) = cell            -> ok
     setpart <node> <part>   ref_interp_part(node) = part            -> ok
     setpara <0|1>           ref_mpi_n = 2|1 on the grid's and the background's REF_MPI (no communication happens in
                             interp/move/between/improve; `pass` is refused meanwhile)  -> `PA <0|1>`
     interp <node>           ref_metric_interpolate_node             -> C record
     move <node> <x y z hex> set the position, then ref_metric_interpolate_node  -> C record
     between <n0> <n1> <w hex> [<x y z hex>]   new vertex by ref_node_interpolate_edge (weight w), position optionally
                             overridden, ref_metric_interpolate_between, vertex removed again  -> B record
     improve <edge|tri|tet> <node>   the static improver itself, bracketed like ref_smooth_pass does -> I record
     pass <letters>          m ref_smooth_pass, a ref_adapt_pass, s ref_split_pass, c ref_collapse_pass,
                             w ref_swap_tri_pass (2-D), y ref_metric_synchronize, p ref_grid_pack
                             -> I / B / C records as they happen, then `done <status> ...`
     dump                    -> `N nn {node x y z m0..m5 l0..l5 cell part}` (for the oracle)
   every op ends with a terminator line `. <op>`; malformed ops print `bad-op` before it.

   records (fed to `refdrv smoothinterp`); STATE := x y z cell part b0 b1 b2 b3 m0..m5 l0..l5 (21 words):
     C <node> <hasinterp> <cont> <status> STATE(pre) STATE(post) <nev> EV*
     I <kind> <node> <hasinterp> <cont> STATE(pre) <ncall> { <status> STATE(pre) STATE(post) <nev> EV* }* STATE(post)
     B <new> <n0> <n1> <hasinterp> <cont> <status> <fresh> <c0> <p0> <c1> <p1> STATE(pre) STATE(post) <nev> EV*
     EV := P <part> <seed> | R <mode> <seed> <part> <b0..b3> | T <n>

   refine prints diagnostics on stdout: the protocol goes to a dup of the original descriptor. */
#include <unistd.h>

#include "h_proto.h"
/* */
#include "ref_adapt.h"
#include "ref_agents.h"
#include "ref_cell.h"
#include "ref_collapse.h"
#include "ref_grid.h"
#include "ref_interp.h"
#include "ref_list.h"
#include "ref_metric.h"
#include "ref_mpi.h"
#include "ref_node.h"
#include "ref_search.h"
#include "ref_swap.h"
#include "ref_verif.h"

static REF_STATUS h_wrap_interp_node(REF_GRID ref_grid, REF_INT node);
static REF_STATUS h_wrap_between(REF_GRID ref_grid, REF_INT node0, REF_INT node1, REF_INT new_node);
static REF_STATUS h_wrap_push(REF_AGENTS ref_agents, REF_INT node, REF_INT part, REF_INT seed, REF_DBL *xyz, REF_INT *id);
static REF_STATUS h_wrap_remove(REF_AGENTS ref_agents, REF_INT id);
static REF_STATUS h_wrap_touching(REF_SEARCH ref_search, REF_LIST ref_list, REF_DBL *position, REF_DBL radius);

#define ref_metric_interpolate_node h_wrap_interp_node
#include "ref_smooth.c"
#undef ref_metric_interpolate_node
/* */
#define ref_metric_interpolate_between h_wrap_between
#include "ref_split.c"
#undef ref_metric_interpolate_between
/* */
#define ref_agents_push h_wrap_push
#define ref_agents_remove h_wrap_remove
#define ref_search_touching h_wrap_touching
#include "ref_interp.c"
#undef ref_agents_push
#undef ref_agents_remove
#undef ref_search_touching

static FILE *out;
static REF_MPI ref_mpi;
static REF_GRID G = NULL;
static int g_mode = 0;

static void pf(double d) {
  fputc(' ', out);
  h_pf(out, d);
}
static int is_hex(const char *s) { return 16 == strlen(s) && 16 == strspn(s, "0123456789abcdefABCDEF"); }
static int all_hex(int from, int to) {
  int i;
  if (to > h_nw) return 0;
  for (i = from; i < to; i++)
    if (!is_hex(h_w[i])) return 0;
  return 1;
}
static int is_nat(const char *s) { return 0 < strlen(s) && strlen(s) < 9 && strlen(s) == strspn(s, "0123456789"); }
static int is_int(const char *s) { return ('-' == s[0]) ? is_nat(s + 1) : is_nat(s); }

/* ---- events of the background search ------------------------------------------------------------------- */
typedef struct {
  int kind; /* 'P' 'R' 'T' */
  int i0, i1, i2;
  double b[4];
} EV;
#define MAXEV 12
static EV evs[MAXEV];
static int nev = 0, ev_on = 0, ev_overflow = 0;

static EV *ev_new(int kind) {
  if (nev >= MAXEV) {
    ev_overflow = 1;
    return NULL;
  }
  evs[nev].kind = kind;
  return &evs[nev++];
}

static REF_STATUS h_wrap_push(REF_AGENTS ref_agents, REF_INT node, REF_INT part, REF_INT seed, REF_DBL *xyz, REF_INT *id) {
  if (ev_on) {
    EV *e = ev_new('P');
    if (e) {
      e->i0 = part;
      e->i1 = seed;
    }
  }
  return ref_agents_push(ref_agents, node, part, seed, xyz, id);
}
static REF_STATUS h_wrap_remove(REF_AGENTS ref_agents, REF_INT id) {
  if (ev_on && id >= 0 && id < ref_agents_max(ref_agents)) {
    EV *e = ev_new('R');
    if (e) {
      int i;
      e->i0 = (int)ref_agent_mode(ref_agents, id);
      e->i1 = ref_agent_seed(ref_agents, id);
      e->i2 = ref_agent_part(ref_agents, id);
      for (i = 0; i < 4; i++) e->b[i] = ref_agent_bary(ref_agents, i, id);
    }
  }
  return ref_agents_remove(ref_agents, id);
}
static REF_STATUS h_wrap_touching(REF_SEARCH ref_search, REF_LIST ref_list, REF_DBL *position, REF_DBL radius) {
  REF_STATUS s = ref_search_touching(ref_search, ref_list, position, radius);
  if (ev_on) {
    EV *e = ev_new('T');
    if (e) e->i0 = (REF_SUCCESS == s) ? ref_list_n(ref_list) : -1;
  }
  return s;
}
static void print_evs(int n, const EV *e) {
  int k, i;
  fprintf(out, " %d", n);
  for (k = 0; k < n; k++) {
    if ('P' == e[k].kind) {
      fprintf(out, " P %d %d", e[k].i0, e[k].i1);
    } else if ('R' == e[k].kind) {
      /* mode: 1 when REF_AGENT_ENCLOSING */
      fprintf(out, " R %d %d %d", (REF_AGENT_ENCLOSING == (REF_AGENT_MODE)e[k].i0) ? 1 : 0, e[k].i1, e[k].i2);
      for (i = 0; i < 4; i++) pf((REF_AGENT_ENCLOSING == (REF_AGENT_MODE)e[k].i0) ? e[k].b[i] : 0.0);
    } else {
      fprintf(out, " T %d", e[k].i0);
    }
  }
}

/* ---- vertex state ---------------------------------------------------------------------------------------- */
typedef struct {
  double xyz[3];
  int cell, part;
  double bary[4];
  double m[6], lg[6];
} NST;

static void snap(REF_GRID g, REF_INT node, NST *s) {
  REF_NODE rn = ref_grid_node(g);
  REF_INTERP ri = ref_grid_interp(g);
  int i;
  for (i = 0; i < 3; i++) s->xyz[i] = ref_node_xyz(rn, i, node);
  for (i = 0; i < 6; i++) {
    s->m[i] = ref_node_real(rn, 3 + i, node);
    s->lg[i] = ref_node_real(rn, 9 + i, node);
  }
  if (NULL != ri && node < ref_interp_max(ri)) {
    s->cell = ref_interp_cell(ri, node);
    s->part = ref_interp_part(ri, node);
    for (i = 0; i < 4; i++) s->bary[i] = ref_interp_bary(ri, i, node);
  } else {
    s->cell = REF_EMPTY;
    s->part = REF_EMPTY;
    for (i = 0; i < 4; i++) s->bary[i] = 0.0;
  }
}
static void print_nst(const NST *s) {
  int i;
  for (i = 0; i < 3; i++) pf(s->xyz[i]);
  fprintf(out, " %d %d", s->cell, s->part);
  for (i = 0; i < 4; i++) pf(s->bary[i]);
  for (i = 0; i < 6; i++) pf(s->m[i]);
  for (i = 0; i < 6; i++) pf(s->lg[i]);
}
static int has_interp(REF_GRID g) { return NULL != ref_grid_interp(g); }
static int continuously(REF_GRID g) { return has_interp(g) && ref_interp_continuously(ref_grid_interp(g)); }

/* ---- recorder ---------------------------------------------------------------------------------------------- */
typedef struct {
  int status;
  NST pre, post;
  int nev;
  EV ev[MAXEV];
} CALL;
#define MAXCALL 24
static CALL calls[MAXCALL];
static int ncall = 0, call_overflow = 0;
static int in_improve = 0, imp_node = REF_EMPTY;
static char imp_kind[16];
static NST imp_pre;
static int rec_on = 0;
static int n_I = 0, n_B = 0, n_C = 0;

static REF_STATUS h_wrap_interp_node(REF_GRID ref_grid, REF_INT node) {
  REF_STATUS st;
  NST pre, post;
  int i;
  if (!rec_on) return ref_metric_interpolate_node(ref_grid, node);
  snap(ref_grid, node, &pre);
  nev = 0;
  ev_overflow = 0;
  ev_on = 1;
  st = ref_metric_interpolate_node(ref_grid, node);
  ev_on = 0;
  snap(ref_grid, node, &post);
  if (in_improve && node == imp_node) {
    if (ncall < MAXCALL) {
      calls[ncall].status = (int)st;
      calls[ncall].pre = pre;
      calls[ncall].post = post;
      calls[ncall].nev = nev;
      for (i = 0; i < nev; i++) calls[ncall].ev[i] = evs[i];
      ncall++;
    } else {
      call_overflow = 1;
    }
    if (ev_overflow) call_overflow = 1;
  } else {
    fprintf(out, "C %d %d %d %s", node, has_interp(ref_grid), continuously(ref_grid), h_status(st));
    print_nst(&pre);
    print_nst(&post);
    print_evs(ev_overflow ? 0 : nev, evs);
    fputc('\n', out);
    n_C++;
  }
  return st;
}

static REF_STATUS h_wrap_between(REF_GRID ref_grid, REF_INT node0, REF_INT node1, REF_INT new_node) {
  REF_STATUS st;
  NST pre, post;
  REF_INTERP ri = ref_grid_interp(ref_grid);
  int c0 = REF_EMPTY, p0 = REF_EMPTY, c1 = REF_EMPTY, p1 = REF_EMPTY, fresh;
  if (!rec_on) return ref_metric_interpolate_between(ref_grid, node0, node1, new_node);
  fresh = (NULL == ri) || (new_node >= ref_interp_max(ri));
  snap(ref_grid, new_node, &pre);
  if (NULL != ri) {
    if (REF_EMPTY != node0 && node0 < ref_interp_max(ri)) {
      c0 = ref_interp_cell(ri, node0);
      p0 = ref_interp_part(ri, node0);
    }
    if (REF_EMPTY != node1 && node1 < ref_interp_max(ri)) {
      c1 = ref_interp_cell(ri, node1);
      p1 = ref_interp_part(ri, node1);
    }
  }
  nev = 0;
  ev_overflow = 0;
  ev_on = 1;
  st = ref_metric_interpolate_between(ref_grid, node0, node1, new_node);
  ev_on = 0;
  snap(ref_grid, new_node, &post);
  fprintf(out, "B %d %d %d %d %d %s %d %d %d %d %d", new_node, node0, node1, has_interp(ref_grid), continuously(ref_grid),
          h_status(st), fresh, c0, p0, c1, p1);
  print_nst(&pre);
  print_nst(&post);
  print_evs(ev_overflow ? 0 : nev, evs);
  fputc('\n', out);
  n_B++;
  return st;
}

static void my_op(const char *phase, const char *kind, void *object, int n, const int *ints) {
  REF_GRID g = (REF_GRID)object;
  int k;
  if (!rec_on || n < 1 || 0 != strncmp(kind, "smooth_", 7)) return;
  if (0 == strcmp(phase, "begin")) {
    in_improve = 1;
    imp_node = ints[0];
    strncpy(imp_kind, kind + 7, sizeof(imp_kind) - 1);
    imp_kind[sizeof(imp_kind) - 1] = 0;
    ncall = 0;
    call_overflow = 0;
    snap(g, imp_node, &imp_pre);
  } else if (in_improve && ints[0] == imp_node) {
    NST post;
    snap(g, imp_node, &post);
    in_improve = 0;
    if (call_overflow) {
      fprintf(out, "X %s %d record-overflow\n", imp_kind, imp_node);
      return;
    }
    fprintf(out, "I %s %d %d %d", imp_kind, imp_node, has_interp(g), continuously(g));
    print_nst(&imp_pre);
    fprintf(out, " %d", ncall);
    for (k = 0; k < ncall; k++) {
      fprintf(out, " %s", h_status(calls[k].status));
      print_nst(&calls[k].pre);
      print_nst(&calls[k].post);
      print_evs(calls[k].nev, calls[k].ev);
    }
    print_nst(&post);
    fputc('\n', out);
    n_I++;
  }
}

/* ---- session grid ------------------------------------------------------------------------------------------ */
static void free_grid(void) {
  if (NULL != G) {
    REF_INTERP ri = ref_grid_interp(G);
    ref_mpi_n(ref_grid_mpi(G)) = 1;
    ref_mpi_n(ref_node_mpi(ref_grid_node(G))) = 1;
    if (NULL != ri) {
      ref_mpi_n(ref_interp_mpi(ri)) = 1;
      ref_mpi_n(ref_grid_mpi(ref_interp_from_grid(ri))) = 1;
    }
    ref_grid_free(G);
  }
  G = NULL;
}

static int build_grid(void) {
  REF_GRID g;
  REF_NODE rn;
  long long mode, twod, nn, nc;
  int w, i, k, c, ncells;
  double L[24];
  if (h_nw < 5 || !is_nat(h_w[1]) || !is_nat(h_w[2]) || !is_nat(h_w[3])) return 0;
  mode = h_i(h_w[1]);
  twod = h_i(h_w[2]);
  nn = h_i(h_w[3]);
  if (mode > 2 || twod > 1 || nn < 3 || nn > 20000) return 0;
  w = 4;
  if (h_nw - w < 3 * nn + 24 + 1) return 0;
  if (!all_hex(w, w + 3 * (int)nn + 24)) return 0;
  k = w + 3 * (int)nn + 24;
  if (!is_nat(h_w[k])) return 0;
  nc = h_i(h_w[k]);
  k++;
  ncells = 0;
  {
    int kk = k;
    while (kk < h_nw) {
      int size;
      if (0 == strcmp(h_w[kk], "tri"))
        size = 4;
      else if (0 == strcmp(h_w[kk], "edg"))
        size = 3;
      else if (0 == strcmp(h_w[kk], "tet"))
        size = 4;
      else
        return 0;
      if (h_nw - (kk + 1) < size) return 0;
      for (i = 0; i < size; i++)
        if (!is_nat(h_w[kk + 1 + i])) return 0;
      for (i = 0; i < ((0 == strcmp(h_w[kk], "tet")) ? 4 : size - 1); i++)
        if (h_i(h_w[kk + 1 + i]) >= nn) return 0;
      kk += 1 + size;
      ncells++;
    }
  }
  if (ncells != nc) return 0;
  for (i = 0; i < 24; i++) L[i] = h_f(h_w[w + 3 * nn + i]);
  free_grid();
  if (REF_SUCCESS != ref_grid_create(&g, ref_mpi)) exit(4);
  ref_grid_twod(g) = (REF_BOOL)twod;
  rn = ref_grid_node(g);
  for (i = 0; i < nn; i++) {
    REF_INT node;
    double x, y, z, lg[6];
    if (REF_SUCCESS != ref_node_add(rn, i, &node) || node != i) exit(5);
    for (c = 0; c < 3; c++) ref_node_xyz(rn, c, node) = h_f(h_w[w + 3 * i + c]);
    x = ref_node_xyz(rn, 0, node);
    y = ref_node_xyz(rn, 1, node);
    z = ref_node_xyz(rn, 2, node);
    for (c = 0; c < 6; c++) lg[c] = L[c] + L[6 + c] * x + L[12 + c] * y + L[18 + c] * z;
    if (REF_SUCCESS != ref_node_metric_set_log(rn, node, lg)) {
      ref_grid_free(g);
      return 0;
    }
  }
  if (REF_SUCCESS != ref_node_initialize_n_global(rn, (REF_GLOB)nn)) exit(6);
  while (k < h_nw) {
    REF_INT nodes[REF_CELL_MAX_SIZE_PER], cell;
    REF_CELL rc;
    int size;
    if (0 == strcmp(h_w[k], "tri")) {
      size = 4;
      rc = ref_grid_tri(g);
    } else if (0 == strcmp(h_w[k], "edg")) {
      size = 3;
      rc = ref_grid_edg(g);
    } else {
      size = 4;
      rc = ref_grid_tet(g);
    }
    for (i = 0; i < size; i++) nodes[i] = (REF_INT)h_i(h_w[k + 1 + i]);
    if (REF_SUCCESS != ref_cell_add(rc, nodes, &cell)) exit(7);
    k += 1 + size;
  }
  if (1 != mode) {
    if (REF_SUCCESS != ref_grid_cache_background(g)) {
      ref_grid_free(g);
      return 0;
    }
    if (2 == mode) ref_interp_continuously(ref_grid_interp(g)) = REF_FALSE;
  }
  G = g;
  g_mode = (int)mode;
  return 1;
}

static void print_bg(void) {
  REF_INTERP ri = ref_grid_interp(G);
  fprintf(out, "BG %d %d %d %d", g_mode, ref_grid_twod(G) ? 1 : 0, ref_mpi_rank(ref_mpi), ref_mpi_para(ref_mpi) ? 1 : 0);
  if (NULL == ri) {
    fprintf(out, " 0 0\n");
    return;
  }
  {
    REF_GRID fg = ref_interp_from_grid(ri);
    REF_NODE fn = ref_grid_node(fg);
    REF_CELL fc = ref_grid_twod(fg) ? ref_interp_from_tri(ri) : ref_interp_from_tet(ri);
    REF_INT node, cell, nodes[REF_CELL_MAX_SIZE_PER], i, nn = ref_node_max(fn);
    /* logs by node index 0..max-1 (zeros for unused slots) */
    fprintf(out, " %d", nn);
    for (node = 0; node < nn; node++) {
      for (i = 0; i < 6; i++) pf(ref_node_valid(fn, node) ? ref_node_real(fn, 9 + i, node) : 0.0);
    }
    fprintf(out, " %d", ref_cell_n(fc));
    each_ref_cell_valid_cell_with_nodes(fc, cell, nodes) {
      fprintf(out, " %d", cell);
      for (i = 0; i < 4; i++) fprintf(out, " %d", i < ref_cell_node_per(fc) ? nodes[i] : -1);
    }
    fputc('\n', out);
  }
}

static int node_ok(const char *s) {
  long long n;
  if (!is_nat(s) || NULL == G) return 0;
  n = h_i(s);
  return n < ref_node_max(ref_grid_node(G)) && ref_node_valid(ref_grid_node(G), (REF_INT)n);
}

/* one op: its records, then (in main) the terminator line `. <op>` */
static void do_op(void) {
  const char *op = h_w[0];
  if (0 == strcmp(op, "grid")) {
    if (!build_grid()) {
      fputs("bad-op\n", out);
      return;
    }
    print_bg();
  } else if (NULL == G) {
    fputs("bad-op\n", out);
  } else if (0 == strcmp(op, "setcell") || 0 == strcmp(op, "setpart")) {
    REF_INTERP ri = ref_grid_interp(G);
    if (3 != h_nw || !node_ok(h_w[1]) || !is_int(h_w[2]) || NULL == ri || h_i(h_w[1]) >= ref_interp_max(ri)) {
      fputs("bad-op\n", out);
      return;
    }
    if ('c' == op[3]) {
      REF_CELL fc = ref_grid_twod(G) ? ref_interp_from_tri(ri) : ref_interp_from_tet(ri);
      long long c = h_i(h_w[2]);
      if (-1 != c && (c < 0 || c >= ref_cell_max(fc) || !ref_cell_valid(fc, (REF_INT)c))) {
        fputs("bad-op\n", out);
        return;
      }
      ref_interp_cell(ri, h_i(h_w[1])) = (REF_INT)c;
    } else {
      ref_interp_part(ri, h_i(h_w[1])) = (REF_INT)h_i(h_w[2]);
    }
    fputs("ok\n", out);
  } else if (0 == strcmp(op, "setpara")) {
    /* pretend to be one rank of a parallel run for the calls that do not communicate (interp, move, between, improve):
       ref_mpi_para() is `n > 1`; it switches the sequential fall-back of ref_interp_locate_node / _between off */
    REF_INTERP ri = ref_grid_interp(G);
    int n;
    if (2 != h_nw || !is_nat(h_w[1]) || h_i(h_w[1]) > 1) {
      fputs("bad-op\n", out);
      return;
    }
    n = (1 == h_i(h_w[1])) ? 2 : 1;
    ref_mpi_n(ref_grid_mpi(G)) = n;
    ref_mpi_n(ref_node_mpi(ref_grid_node(G))) = n;
    if (NULL != ri) {
      ref_mpi_n(ref_interp_mpi(ri)) = n;
      ref_mpi_n(ref_grid_mpi(ref_interp_from_grid(ri))) = n;
    }
    fprintf(out, "PA %d\n", n > 1 ? 1 : 0);
  } else if (0 == strcmp(op, "interp") || 0 == strcmp(op, "move")) {
    REF_INT node;
    int i;
    if ('i' == op[0] ? (2 != h_nw) : (5 != h_nw || !all_hex(2, 5))) {
      fputs("bad-op\n", out);
      return;
    }
    if (!node_ok(h_w[1])) {
      fputs("bad-op\n", out);
      return;
    }
    node = (REF_INT)h_i(h_w[1]);
    if ('m' == op[0])
      for (i = 0; i < 3; i++) ref_node_xyz(ref_grid_node(G), i, node) = h_f(h_w[2 + i]);
    rec_on = 1;
    (void)h_wrap_interp_node(G, node);
    rec_on = 0;
  } else if (0 == strcmp(op, "between")) {
    REF_NODE rn = ref_grid_node(G);
    REF_INT n0, n1, new_node;
    REF_GLOB global;
    REF_STATUS s;
    int i;
    if (!((4 == h_nw || 7 == h_nw) && node_ok(h_w[1]) && node_ok(h_w[2]) && all_hex(3, h_nw))) {
      fputs("bad-op\n", out);
      return;
    }
    n0 = (REF_INT)h_i(h_w[1]);
    n1 = (REF_INT)h_i(h_w[2]);
    if (n0 == n1 || !(h_f(h_w[3]) >= 0.0 && h_f(h_w[3]) <= 1.0)) {
      fputs("bad-op\n", out);
      return;
    }
    s = ref_node_next_global(rn, &global);
    if (REF_SUCCESS == s) s = ref_node_add(rn, global, &new_node);
    if (REF_SUCCESS != s) {
      fprintf(out, "skip add-%s\n", h_status(s));
      return;
    }
    s = ref_node_interpolate_edge(rn, n0, n1, h_f(h_w[3]), new_node);
    if (REF_SUCCESS != s) {
      fprintf(out, "skip edge-%s\n", h_status(s));
    } else {
      if (7 == h_nw)
        for (i = 0; i < 3; i++) ref_node_xyz(rn, i, new_node) = h_f(h_w[4 + i]);
      rec_on = 1;
      (void)h_wrap_between(G, n0, n1, new_node);
      rec_on = 0;
    }
    if (REF_SUCCESS != ref_node_remove(rn, new_node)) exit(8);
  } else if (0 == strcmp(op, "improve")) {
    REF_INT node;
    REF_STATUS s = REF_SUCCESS;
    int ints[3];
    char kind[24];
    if (3 != h_nw || !node_ok(h_w[2]) ||
        !(0 == strcmp(h_w[1], "edge") || 0 == strcmp(h_w[1], "tri") || 0 == strcmp(h_w[1], "tet"))) {
      fputs("bad-op\n", out);
      return;
    }
    node = (REF_INT)h_i(h_w[2]);
    ints[0] = node;
    ints[1] = ints[2] = REF_EMPTY;
    snprintf(kind, sizeof(kind), "smooth_%s", h_w[1]);
    rec_on = 1;
    my_op("begin", kind, (void *)G, 3, ints);
    if ('e' == h_w[1][0])
      s = ref_smooth_no_geom_edge_improve(G, node);
    else if ('r' == h_w[1][1])
      s = ref_smooth_no_geom_tri_improve(G, node);
    else
      s = ref_smooth_tet_improve(G, node);
    my_op("end", kind, (void *)G, 3, ints);
    rec_on = 0;
    if (REF_SUCCESS != s) fprintf(out, "A %s %s %d\n", h_status(s), h_w[1], node);
  } else if (0 == strcmp(op, "pass")) {
    REF_STATUS s = REF_SUCCESS;
    REF_BOOL all_done;
    const char *p;
    if (2 != h_nw || strlen(h_w[1]) > 32 || ref_mpi_para(ref_grid_mpi(G))) {
      fputs("bad-op\n", out);
      return;
    }
    n_I = n_B = n_C = 0;
    rec_on = 1;
    in_improve = 0;
    for (p = h_w[1]; *p && REF_SUCCESS == s; p++) {
      switch (*p) {
        case 'm': s = ref_smooth_pass(G); break;
        case 'a': s = ref_adapt_pass(G, &all_done); break;
        case 's': s = ref_split_pass(G); break;
        case 'c': s = ref_collapse_pass(G); break;
        case 'w': s = ref_grid_twod(G) ? ref_swap_tri_pass(G) : REF_SUCCESS; break;
        case 'y': s = ref_metric_synchronize(G); break;
        case 'p': s = ref_grid_pack(G); break;
        default: break;
      }
    }
    rec_on = 0;
    in_improve = 0;
    fprintf(out, "done %s nI=%d nB=%d nC=%d nnode=%d\n", h_status(s), n_I, n_B, n_C, ref_node_n(ref_grid_node(G)));
  } else if (0 == strcmp(op, "dump")) {
    REF_NODE rn = ref_grid_node(G);
    REF_INTERP ri = ref_grid_interp(G);
    REF_INT node;
    int i;
    fprintf(out, "N %d", ref_node_n(rn));
    each_ref_node_valid_node(rn, node) {
      fprintf(out, " %d", node);
      for (i = 0; i < 3; i++) pf(ref_node_xyz(rn, i, node));
      for (i = 0; i < 6; i++) pf(ref_node_real(rn, 3 + i, node));
      for (i = 0; i < 6; i++) pf(ref_node_real(rn, 9 + i, node));
      if (NULL != ri && node < ref_interp_max(ri))
        fprintf(out, " %d %d", ref_interp_cell(ri, node), ref_interp_part(ri, node));
      else
        fprintf(out, " -1 -1");
    }
    fputc('\n', out);
  } else {
    fputs("bad-op\n", out);
  }
}

int main(int argc, char *argv[]) {
  int fd = dup(1);
  if (fd < 0) return 3;
  out = fdopen(fd, "w");
  if (!out) return 3;
  if (!freopen("/dev/null", "w", stdout)) return 3;
  if (REF_SUCCESS != ref_mpi_start(argc, argv)) return 3;
  if (REF_SUCCESS != ref_mpi_create(&ref_mpi)) return 3;
  ref_verif_op_fcn = my_op;
  while (h_next(stdin)) {
    do_op();
    fprintf(out, ". %s\n", h_w[0]);
  }
  fflush(out);
  ref_verif_op_fcn = NULL;
  free_grid();
  ref_mpi_free(ref_mpi);
  ref_mpi_stop();
  return 0;
}
