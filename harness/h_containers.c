/* harness `containers`: ref_list / ref_dict / ref_adj / ref_sort called in-process.
   One live list, dict and adj (re-created by `reset`); the sort/search ops are stateless.
   Same op lines and output lines as lean/Drivers/Containers.lean. */
#include "h_proto.h"
#include <errno.h>
#include <limits.h>
#include "ref_adj.h"
#include "ref_dict.h"
#include "ref_list.h"
#include "ref_sort.h"

static REF_LIST L = NULL;
static REF_DICT D = NULL;
static REF_ADJ A = NULL;

/* rand() is interposed so that ref_sort_shuffle / ref_sort_rand_in_range consume a stream given on the
   op line (exhausted stream yields 0) */
static long long *rand_stream = NULL;
static int rand_n = 0, rand_pos = 0;
int rand(void) {
  if (rand_pos < rand_n) return (int)rand_stream[rand_pos++];
  return 0;
}

/* strict decimal parse with range check; returns 0 on failure */
static int p_ll(const char *s, long long lo, long long hi, long long *v) {
  char *end;
  const char *p = s;
  if (*p == '-') p++;
  if (*p < '0' || *p > '9') return 0;
  errno = 0;
  *v = strtoll(s, &end, 10);
  if (errno || *end != 0) return 0;
  return *v >= lo && *v <= hi;
}
static int p_i(const char *s, long long *v) { return p_ll(s, INT_MIN, INT_MAX, v); }
static int p_g(const char *s, long long *v) { return p_ll(s, LLONG_MIN, LLONG_MAX, v); }
static int p_n(const char *s, long long *v) { return *s != '-' && p_ll(s, 0, LLONG_MAX, v); }
static int p_hex(const char *s) {
  int k;
  if (strlen(s) != 16) return 0;
  for (k = 0; k < 16; k++)
    if (!((s[k] >= '0' && s[k] <= '9') || (s[k] >= 'a' && s[k] <= 'f') || (s[k] >= 'A' && s[k] <= 'F')))
      return 0;
  return 1;
}

static void reset_all(void) {
  if (L) ref_list_free(L);
  if (D) ref_dict_free(D);
  if (A) ref_adj_free(A);
  L = NULL; D = NULL; A = NULL;
  if (ref_list_create(&L) || ref_dict_create(&D) || ref_adj_create(&A)) exit(3);
}

#define BAD { puts("bad-op"); continue; }
#define IS(name, nargs) (0 == strcmp(op, name) && h_nw == (nargs) + 1)

/* parse h_w[from..h_nw) as ints (kind 0: REF_INT, 1: REF_GLOB, 2: rand) into a fresh array; NULL on failure */
static long long *p_list(int from, int kind, int *n) {
  int k;
  long long *a = (long long *)malloc(sizeof(long long) * (size_t)(h_nw - from + 1));
  *n = h_nw - from;
  for (k = from; k < h_nw; k++) {
    int ok = kind == 0 ? p_i(h_w[k], &a[k - from]) : kind == 1 ? p_g(h_w[k], &a[k - from])
                                                                : p_ll(h_w[k], 0, INT_MAX, &a[k - from]);
    if (!ok) { free(a); return NULL; }
  }
  return a;
}

static int sort_op(const char *op) { /* returns 1 if handled */
  int n, k;
  long long *a;
  if (0 == strcmp(op, "isort") || 0 == strcmp(op, "hsort_int") || 0 == strcmp(op, "unique")) {
    REF_INT *orig, *out, nu = 0;
    a = p_list(1, 0, &n);
    if (!a) { puts("bad-op"); return 1; }
    orig = (REF_INT *)malloc(sizeof(REF_INT) * (size_t)(n + 1));
    out = (REF_INT *)malloc(sizeof(REF_INT) * (size_t)(n + 1));
    for (k = 0; k < n; k++) orig[k] = (REF_INT)a[k];
    /* exact-size copies so that ASan sees any out-of-range access */
    {
      REF_INT *o2 = (REF_INT *)malloc(sizeof(REF_INT) * (size_t)n + (n == 0));
      REF_INT *r2 = (REF_INT *)malloc(sizeof(REF_INT) * (size_t)n + (n == 0));
      REF_STATUS st;
      memcpy(o2, orig, sizeof(REF_INT) * (size_t)n);
      if (0 == strcmp(op, "isort")) {
        st = ref_sort_insertion_int(n, o2, r2);
        fputs(h_status(st), stdout);
        for (k = 0; k < n; k++) printf(" %d", r2[k]);
      } else if (0 == strcmp(op, "hsort_int")) {
        st = ref_sort_heap_int(n, o2, r2);
        fputs(h_status(st), stdout);
        for (k = 0; k < n; k++) printf(" %d", r2[k]);
      } else {
        st = ref_sort_unique_int(n, o2, &nu, r2);
        printf("%s %d", h_status(st), nu);
        for (k = 0; k < nu && k < n; k++) printf(" %d", r2[k]);
      }
      putchar('\n');
      free(o2); free(r2);
    }
    free(orig); free(out); free(a);
    return 1;
  }
  if (0 == strcmp(op, "hsort_glob") || 0 == strcmp(op, "inplace_glob")) {
    REF_GLOB *g;
    REF_INT *idx;
    REF_STATUS st;
    a = p_list(1, 1, &n);
    if (!a) { puts("bad-op"); return 1; }
    g = (REF_GLOB *)malloc(sizeof(REF_GLOB) * (size_t)n + (n == 0));
    idx = (REF_INT *)malloc(sizeof(REF_INT) * (size_t)n + (n == 0));
    for (k = 0; k < n; k++) g[k] = (REF_GLOB)a[k];
    if (0 == strcmp(op, "hsort_glob")) {
      st = ref_sort_heap_glob(n, g, idx);
      fputs(h_status(st), stdout);
      for (k = 0; k < n; k++) printf(" %d", idx[k]);
    } else {
      st = ref_sort_in_place_glob(n, g);
      fputs(h_status(st), stdout);
      for (k = 0; k < n; k++) printf(" %ld", (long)g[k]);
    }
    putchar('\n');
    free(g); free(idx); free(a);
    return 1;
  }
  if (0 == strcmp(op, "hsort_dbl") || 0 == strcmp(op, "search_dbl")) {
    int search = (0 == strcmp(op, "search_dbl"));
    int from = search ? 2 : 1;
    REF_DBL *x, t = 0.0;
    REF_INT *idx, pos = 0;
    REF_STATUS st;
    if (h_nw < from) { puts("bad-op"); return 1; }
    for (k = 1; k < h_nw; k++)
      if (!p_hex(h_w[k])) { puts("bad-op"); return 1; }
    n = h_nw - from;
    if (search) t = h_f(h_w[1]);
    x = (REF_DBL *)malloc(sizeof(REF_DBL) * (size_t)n + (n == 0));
    idx = (REF_INT *)malloc(sizeof(REF_INT) * (size_t)n + (n == 0));
    for (k = 0; k < n; k++) x[k] = h_f(h_w[from + k]);
    if (search) {
      int nanfree = 1;
      for (k = 0; k < n; k++)
        if (x[k] != x[k]) nanfree = 0;
      if (!nanfree) {
        puts("nan-list"); /* the C loop may not terminate when the list holds a NaN: not exercised */
      } else {
        st = ref_sort_search_dbl(n, x, t, &pos);
        printf("%s %d\n", h_status(st), pos);
      }
    } else {
      st = ref_sort_heap_dbl(n, x, idx);
      fputs(h_status(st), stdout);
      for (k = 0; k < n; k++) printf(" %d", idx[k]);
      putchar('\n');
    }
    free(x); free(idx);
    return 1;
  }
  if (0 == strcmp(op, "same")) {
    long long nn;
    REF_INT *l0, *l1;
    REF_BOOL same = REF_FALSE;
    REF_STATUS st;
    if (h_nw < 2 || !p_n(h_w[1], &nn)) { puts("bad-op"); return 1; }
    a = p_list(2, 0, &n);
    if (!a) { puts("bad-op"); return 1; }
    /* n == 0 is legitimate since the repair of ref_sort_unique_int's empty-list count (before it ref_sort_same(0, ..)
       read unique0[0] of a zero-length allocation: ASan reports that if it ever returns) */
    if ((long long)n != 2 * nn) { free(a); puts("bad-op"); return 1; }
    l0 = (REF_INT *)malloc(sizeof(REF_INT) * (size_t)(nn + 1));
    l1 = (REF_INT *)malloc(sizeof(REF_INT) * (size_t)(nn + 1));
    for (k = 0; k < nn; k++) { l0[k] = (REF_INT)a[k]; l1[k] = (REF_INT)a[nn + k]; }
    st = ref_sort_same((REF_INT)nn, l0, l1, &same);
    printf("%s %d\n", h_status(st), same ? 1 : 0);
    free(l0); free(l1); free(a);
    return 1;
  }
  if (0 == strcmp(op, "search_int")) {
    REF_INT *x, pos = 0;
    REF_STATUS st;
    a = p_list(1, 0, &n);
    if (!a) { puts("bad-op"); return 1; }
    if (n < 1) { free(a); puts("bad-op"); return 1; }
    n--;
    x = (REF_INT *)malloc(sizeof(REF_INT) * (size_t)n + (n == 0));
    for (k = 0; k < n; k++) x[k] = (REF_INT)a[k + 1];
    st = ref_sort_search_int(n, x, (REF_INT)a[0], &pos);
    printf("%s %d\n", h_status(st), pos);
    free(x); free(a);
    return 1;
  }
  if (0 == strcmp(op, "search_glob")) {
    REF_GLOB *x;
    REF_INT pos = 0;
    REF_STATUS st;
    a = p_list(1, 1, &n);
    if (!a) { puts("bad-op"); return 1; }
    if (n < 1) { free(a); puts("bad-op"); return 1; }
    n--;
    x = (REF_GLOB *)malloc(sizeof(REF_GLOB) * (size_t)n + (n == 0));
    for (k = 0; k < n; k++) x[k] = (REF_GLOB)a[k + 1];
    st = ref_sort_search_glob(n, x, (REF_GLOB)a[0], &pos);
    printf("%s %d\n", h_status(st), pos);
    free(x); free(a);
    return 1;
  }
  if (0 == strcmp(op, "shuffle")) {
    long long nn;
    REF_INT *perm;
    REF_STATUS st;
    if (h_nw < 2 || !p_n(h_w[1], &nn) || nn > 100000) { puts("bad-op"); return 1; }
    a = p_list(2, 2, &n);
    if (!a) { puts("bad-op"); return 1; }
    rand_stream = a; rand_n = n; rand_pos = 0;
    perm = (REF_INT *)malloc(sizeof(REF_INT) * (size_t)nn + (nn == 0));
    st = ref_sort_shuffle((REF_INT)nn, perm);
    fputs(h_status(st), stdout);
    for (k = 0; k < nn; k++) printf(" %d", perm[k]);
    putchar('\n');
    rand_stream = NULL; rand_n = 0;
    free(perm); free(a);
    return 1;
  }
  if (0 == strcmp(op, "rand_in_range") && h_nw == 4) {
    long long lo, hi, r;
    if (!p_i(h_w[1], &lo) || !p_i(h_w[2], &hi) || !p_ll(h_w[3], 0, INT_MAX, &r)) { puts("bad-op"); return 1; }
    if (hi - lo + 1 <= 0 || hi - lo + 1 > INT_MAX) { puts("bad-op"); return 1; }
    rand_stream = &r; rand_n = 1; rand_pos = 0;
    printf("%d\n", ref_sort_rand_in_range((REF_INT)lo, (REF_INT)hi));
    rand_stream = NULL; rand_n = 0;
    return 1;
  }
  return 0;
}

int main(void) {
  reset_all();
  while (h_next(stdin)) {
    const char *op = h_w[0];
    long long x, y;
    REF_INT i;
    if (IS("reset", 0)) {
      reset_all();
      puts("ok");
      /* ---- list ---- */
    } else if (IS("lpush", 1)) {
      if (!p_i(h_w[1], &x)) BAD;
      puts(h_status(ref_list_push(L, (REF_INT)x)));
    } else if (IS("lpop", 0)) {
      REF_INT v = 12345;
      REF_STATUS st = ref_list_pop(L, &v);
      printf("%s %d\n", h_status(st), v);
    } else if (IS("lshift", 0)) {
      REF_INT v = 12345;
      REF_STATUS st = ref_list_shift(L, &v);
      printf("%s %d\n", h_status(st), v);
    } else if (IS("ldelete", 1)) {
      if (!p_i(h_w[1], &x)) BAD;
      puts(h_status(ref_list_delete(L, (REF_INT)x)));
    } else if (IS("lerase", 0)) {
      puts(h_status(ref_list_erase(L)));
    } else if (IS("lcontains", 1)) {
      REF_BOOL c = REF_FALSE;
      REF_STATUS st;
      if (!p_i(h_w[1], &x)) BAD;
      st = ref_list_contains(L, (REF_INT)x, &c);
      printf("%s %d\n", h_status(st), c ? 1 : 0);
    } else if (IS("lvalue", 1)) {
      if (!p_i(h_w[1], &x)) BAD;
      if (x < 0 || x >= ref_list_n(L)) { puts("range"); continue; }
      printf("%d\n", ref_list_value(L, x));
    } else if (IS("lcopy", 0)) {
      REF_LIST c;
      if (ref_list_deep_copy(&c, L)) exit(3);
      ref_list_free(L);
      L = c;
      puts("ok");
    } else if (IS("ldump", 0)) {
      printf("list %d %d", ref_list_n(L), ref_list_max(L));
      each_ref_list_item(L, i) printf(" %d", ref_list_value(L, i));
      putchar('\n');
      /* ---- dict ---- */
    } else if (IS("dstore", 2)) {
      if (!p_i(h_w[1], &x) || !p_i(h_w[2], &y)) BAD;
      puts(h_status(ref_dict_store(D, (REF_INT)x, (REF_INT)y)));
    } else if (IS("dloc", 1)) {
      REF_INT loc = 12345;
      REF_STATUS st;
      if (!p_i(h_w[1], &x)) BAD;
      st = ref_dict_location(D, (REF_INT)x, &loc);
      printf("%s %d\n", h_status(st), loc);
    } else if (IS("dremove", 1)) {
      if (!p_i(h_w[1], &x)) BAD;
      puts(h_status(ref_dict_remove(D, (REF_INT)x)));
    } else if (IS("dvalue", 1)) {
      REF_INT v = 12345;
      REF_STATUS st;
      if (!p_i(h_w[1], &x)) BAD;
      st = ref_dict_value(D, (REF_INT)x, &v);
      if (REF_SUCCESS == st) printf("%s %d\n", h_status(st), v);
      else puts(h_status(st));
    } else if (IS("dhaskey", 1)) {
      if (!p_i(h_w[1], &x)) BAD;
      puts(ref_dict_has_key(D, (REF_INT)x) ? "1" : "0");
    } else if (IS("dhasvalue", 1)) {
      if (!p_i(h_w[1], &x)) BAD;
      puts(ref_dict_has_value(D, (REF_INT)x) ? "1" : "0");
    } else if (IS("dkey", 1)) {
      if (!p_i(h_w[1], &x)) BAD;
      printf("%d\n", ref_dict_safe_key(D, (REF_INT)x));
    } else if (IS("dkeyvalue", 1)) {
      if (!p_i(h_w[1], &x)) BAD;
      printf("%d\n", ref_dict_safe_keyvalue(D, (REF_INT)x));
    } else if (IS("dcopy", 0)) {
      REF_DICT c;
      if (ref_dict_deep_copy(&c, D)) exit(3);
      ref_dict_free(D);
      D = c;
      puts("ok");
    } else if (IS("ddump", 0)) {
      REF_INT k, v;
      printf("dict %d %d", ref_dict_n(D), ref_dict_max(D));
      each_ref_dict_key_value(D, i, k, v) printf(" %d %d", k, v);
      putchar('\n');
      /* ---- adj ---- */
    } else if (IS("aadd", 2)) {
      if (!p_i(h_w[1], &x) || !p_i(h_w[2], &y)) BAD;
      puts(h_status(ref_adj_add(A, (REF_INT)x, (REF_INT)y)));
    } else if (IS("aremove", 2)) {
      if (!p_i(h_w[1], &x) || !p_i(h_w[2], &y)) BAD;
      puts(h_status(ref_adj_remove(A, (REF_INT)x, (REF_INT)y)));
    } else if (IS("aaddu", 2)) {
      if (!p_i(h_w[1], &x) || !p_i(h_w[2], &y)) BAD;
      puts(h_status(ref_adj_add_uniquely(A, (REF_INT)x, (REF_INT)y)));
    } else if (IS("adegree", 1)) {
      REF_INT deg = 12345;
      REF_STATUS st;
      if (!p_i(h_w[1], &x)) BAD;
      st = ref_adj_degree(A, (REF_INT)x, &deg);
      printf("%s %d\n", h_status(st), deg);
    } else if (IS("aempty", 1)) {
      if (!p_i(h_w[1], &x)) BAD;
      puts(ref_adj_empty(A, (REF_INT)x) ? "1" : "0");
    } else if (IS("alist", 1)) {
      REF_INT item, ref;
      if (!p_i(h_w[1], &x)) BAD;
      fputs("refs", stdout);
      each_ref_adj_node_item_with_ref(A, (REF_INT)x, item, ref) printf(" %d", ref);
      putchar('\n');
    } else if (IS("aitems", 1)) {
      REF_INT item;
      if (!p_i(h_w[1], &x)) BAD;
      fputs("items", stdout);
      each_ref_adj_node_item(A, (REF_INT)x, item) printf(" %d", item);
      putchar('\n');
    } else if (IS("amindeg", 0)) {
      REF_INT deg = 12345, node = 12345;
      REF_STATUS st = ref_adj_min_degree_node(A, &deg, &node);
      printf("%s %d %d\n", h_status(st), deg, node);
    } else if (IS("acopy", 0)) {
      REF_ADJ c;
      if (ref_adj_deep_copy(&c, A)) exit(3);
      ref_adj_free(A);
      A = c;
      puts("ok");
    } else if (IS("adump", 0)) {
      printf("adj %d %d %d F", ref_adj_nnode(A), ref_adj_nitem(A), ref_adj_blank(A));
      for (i = 0; i < ref_adj_nnode(A); i++) printf(" %d", A->first[i]);
      fputs(" N", stdout);
      for (i = 0; i < ref_adj_nitem(A); i++) printf(" %d", ref_adj_item_next(A, i));
      fputs(" R", stdout);
      for (i = 0; i < ref_adj_nitem(A); i++) printf(" %d", ref_adj_item_ref(A, i));
      putchar('\n');
    } else if (!sort_op(op)) {
      puts("bad-op");
    }
  }
  return 0;
}
