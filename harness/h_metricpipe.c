/* harness `metricpipe`: the PIPELINE of `ref multiscale` (C10) — the drivers of ref_metric.c that call the stage
   functions in a fixed order, the --buffer post-processing, and the subcommand itself with an argv vector.
   White box: ref_metric.c and ref_subcommand.c are compiled into this unit (`main` renamed) so that
     * ref_metric_lp can be run on a Hessian field given on the op line: its call of ref_recon_hessian goes through
       h_recon_hessian_hook, which copies the given field when one is set and calls the real function otherwise;
     * the static `multiscale(ref_mpi, argc, argv)` of ref_subcommand.c can be called in process.

   MESH := twod nn <3*nn xyz> <6*nn metric> <nn owned 0|1> ncell <cells: kind n0 n1 ...>   (doubles as 16 hex digits)

   diff ops (one line each):
     stages <p> <gradation> <ar> <target> MESH   the four stages of ref_metric_lp called HERE in the coded order,
                                                 the field printed after each: `stages ok <f> ok <f> ... | <status>`
     lp <p> <gradation> <ar> <target> MESH       the real ref_metric_lp with MESH.metric as the reconstructed Hessian
     buffer MESH                                 ref_metric_buffer
     bac <target> MESH                           ref_metric_buffer_at_complexity
     bacsteps <target> MESH                      10 x (ref_metric_buffer, embedding block, ref_metric_set_complexity)
                                                 called HERE, the field printed after each relaxation
   dump op (validate stream; the printed line is fed to `refdrv metricpipe`):
     msrun <na> <a1..a_na> <ns> <ns scalar> MESH the grid is written to a .meshb, the scalar to a .solb (with --hessian
                                                 among the words: MESH.metric is written as the Hessian .solb instead),
                                                 then multiscale(ref_mpi, 2+na, {ref, multiscale, a1..}) is called with
                                                 @mesh / @scalar / @out / @pcd replaced by file names; the Hessian the
                                                 subcommand sees is recomputed on a re-imported grid for the dump
        -> msdump <status> <na> <a1..> <nout> <nout words> MESH'(as imported, metric := Hessian) | msskip <why>

   refine prints diagnostics on stdout: the protocol goes to a dup of the original descriptor. */
#include <unistd.h>

#include "h_proto.h"

#define ref_recon_hessian h_recon_hessian_hook
#include "ref_recon.h"
#include "ref_metric.c"
#define main ref_cli_main
#include "ref_subcommand.c"
#undef main
#undef ref_recon_hessian
REF_FCN REF_STATUS ref_recon_hessian(REF_GRID ref_grid, REF_DBL *scalar, REF_DBL *hessian,
                                     REF_RECON_RECONSTRUCTION recon);

static REF_DBL *h_fake_hessian = NULL;
static int h_fake_n = 0;
REF_FCN REF_STATUS h_recon_hessian_hook(REF_GRID ref_grid, REF_DBL *scalar, REF_DBL *hessian,
                                        REF_RECON_RECONSTRUCTION recon) {
  if (NULL != h_fake_hessian) {
    memcpy(hessian, h_fake_hessian, sizeof(REF_DBL) * 6 * (size_t)h_fake_n);
    return REF_SUCCESS;
  }
  return ref_recon_hessian(ref_grid, scalar, hessian, recon);
}

static FILE *out;
static REF_MPI ref_mpi;
static char tmpdir[64];

static void pf(double d) {
  fputc(' ', out);
  h_pf(out, d);
}
static void pv(const double *v, int n) {
  int i;
  for (i = 0; i < n; i++) pf(v[i]);
}
static void put(REF_STATUS s, int n, const double *x) {
  if (REF_SUCCESS != s) {
    fputs(h_status(s), out);
    fputc('\n', out);
    return;
  }
  fputs("ok", out);
  pv(x, n);
  fputc('\n', out);
}
static int is_hex(const char *s) { return 16 == strlen(s) && 16 == strspn(s, "0123456789abcdefABCDEF"); }
static int all_hex(int from, int to) {
  int i;
  if (to > h_nw) return 0;
  for (i = from; i < to; i++)
    if (!is_hex(h_w[i])) return 0;
  return 1;
}
static int is_nat(const char *s) { return 0 < strlen(s) && strlen(s) < 9 && strlen(s) == strspn(s, "0123456789"); }
static int is_int(const char *s) { return ('-' == s[0]) ? is_nat(s + 1) : is_nat(s); }

static int kind_of(const char *s, int *size, int *has_id) {
  if (0 == strcmp(s, "tri")) { *size = 3; *has_id = 1; return REF_CELL_TRI; }
  if (0 == strcmp(s, "qua")) { *size = 4; *has_id = 1; return REF_CELL_QUA; }
  if (0 == strcmp(s, "tet")) { *size = 4; *has_id = 0; return REF_CELL_TET; }
  if (0 == strcmp(s, "pyr")) { *size = 5; *has_id = 0; return REF_CELL_PYR; }
  if (0 == strcmp(s, "pri")) { *size = 6; *has_id = 0; return REF_CELL_PRI; }
  if (0 == strcmp(s, "hex")) { *size = 8; *has_id = 0; return REF_CELL_HEX; }
  return -1;
}

typedef struct {
  REF_GRID grid;
  REF_DBL *metric;
  int nn, twod;
  int w_cells; /* word index of `ncell` */
} MESH;

/* MESH starting at word w0; returns 0 when malformed (nothing allocated); compact: global = local index */
static int build_mesh(int w0, MESH *m, int compact) {
  REF_GRID ref_grid;
  REF_NODE ref_node;
  long long twod, nn, nc;
  int w, i, k, c, ncells;
  if (h_nw < w0 + 3 || !is_nat(h_w[w0]) || !is_nat(h_w[w0 + 1])) return 0;
  twod = h_i(h_w[w0]);
  nn = h_i(h_w[w0 + 1]);
  if (twod > 1 || nn == 0 || nn > 4000) return 0;
  w = w0 + 2;
  if (h_nw - w < 10 * nn + 1) return 0;
  if (!all_hex(w, w + 9 * (int)nn)) return 0;
  for (i = 0; i < nn; i++)
    if (0 != strcmp(h_w[w + 9 * nn + i], "0") && 0 != strcmp(h_w[w + 9 * nn + i], "1")) return 0;
  k = w + 10 * (int)nn;
  if (!is_nat(h_w[k])) return 0;
  nc = h_i(h_w[k]);
  m->w_cells = k;
  k++;
  ncells = 0;
  while (k < h_nw) {
    int size, has_id, kind = kind_of(h_w[k], &size, &has_id);
    if (kind < 0 || h_nw - (k + 1) < size) return 0;
    for (i = 0; i < size; i++)
      if (!is_nat(h_w[k + 1 + i]) || h_i(h_w[k + 1 + i]) >= nn) return 0;
    k += 1 + size;
    ncells++;
  }
  if (ncells != nc) return 0;
  if (REF_SUCCESS != ref_grid_create(&ref_grid, ref_mpi)) exit(4);
  ref_grid_twod(ref_grid) = (REF_BOOL)twod;
  ref_node = ref_grid_node(ref_grid);
  m->metric = (REF_DBL *)malloc(sizeof(REF_DBL) * 6 * (size_t)(nn + 8));
  for (i = 0; i < nn; i++) {
    REF_INT node;
    if (REF_SUCCESS != ref_node_add(ref_node, compact ? (REF_GLOB)i : (REF_GLOB)(3 * i + 5), &node) || node != i) exit(5);
    for (c = 0; c < 3; c++) ref_node_xyz(ref_node, c, node) = h_f(h_w[w + 3 * i + c]);
    for (c = 3; c < REF_NODE_REAL_PER; c++) ref_node_real(ref_node, c, node) = 0.0;
    for (c = 0; c < 6; c++) m->metric[6 * i + c] = h_f(h_w[w + 3 * nn + 6 * i + c]);
    ref_node_part(ref_node, node) = ('1' == h_w[w + 9 * nn + i][0]) ? ref_mpi_rank(ref_mpi) : ref_mpi_rank(ref_mpi) + 1;
  }
  if (compact && REF_SUCCESS != ref_node_initialize_n_global(ref_node, (REF_GLOB)nn)) exit(5);
  k = m->w_cells + 1;
  while (k < h_nw) {
    int size, has_id, kind = kind_of(h_w[k], &size, &has_id);
    REF_INT nodes[REF_CELL_MAX_SIZE_PER], cell;
    for (i = 0; i < size; i++) nodes[i] = (REF_INT)h_i(h_w[k + 1 + i]);
    if (has_id) nodes[size] = 1;
    if (REF_SUCCESS != ref_cell_add(ref_grid_cell(ref_grid, kind), nodes, &cell)) exit(6);
    k += 1 + size;
  }
  m->grid = ref_grid;
  m->nn = (int)nn;
  m->twod = (int)twod;
  return 1;
}
static void free_mesh(MESH *m) {
  free(m->metric);
  ref_grid_free(m->grid);
}
static void put_field(REF_STATUS s, MESH *m) { put(s, 6 * m->nn, m->metric); }

static void embed_block(MESH *m) {
  int node;
  if (!m->twod) return;
  for (node = 0; node < m->nn; node++) {
    m->metric[2 + 6 * node] = 0.0;
    m->metric[4 + 6 * node] = 0.0;
    m->metric[5 + 6 * node] = 1.0;
  }
}

/* the grid as multiscale will see it: nodes in local order, the tri/qua/tet/pyr/pri/hex cells in group order */
static void dump_grid(REF_GRID g, const REF_DBL *field) {
  REF_NODE ref_node = ref_grid_node(g);
  REF_INT node, nn = ref_node_n(ref_node), cell, i, group, ncell = 0;
  REF_INT nodes[REF_CELL_MAX_SIZE_PER];
  static const int groups[6] = {REF_CELL_TRI, REF_CELL_QUA, REF_CELL_TET, REF_CELL_PYR, REF_CELL_PRI, REF_CELL_HEX};
  static const char *names[6] = {"tri", "qua", "tet", "pyr", "pri", "hex"};
  fprintf(out, " %d %d", ref_grid_twod(g) ? 1 : 0, nn);
  for (node = 0; node < nn; node++)
    for (i = 0; i < 3; i++) pf(ref_node_xyz(ref_node, i, node));
  pv(field, 6 * nn);
  for (node = 0; node < nn; node++) fprintf(out, " %d", ref_node_owned(ref_node, node) ? 1 : 0);
  for (group = 0; group < 6; group++) ncell += ref_cell_n(ref_grid_cell(g, groups[group]));
  fprintf(out, " %d", ncell);
  for (group = 0; group < 6; group++) {
    REF_CELL ref_cell = ref_grid_cell(g, groups[group]);
    each_ref_cell_valid_cell_with_nodes(ref_cell, cell, nodes) {
      fprintf(out, " %s", names[group]);
      for (i = 0; i < ref_cell_node_per(ref_cell); i++) fprintf(out, " %d", nodes[i]);
    }
  }
}

static int contiguous_nodes(REF_GRID g) {
  REF_NODE ref_node = ref_grid_node(g);
  REF_INT node;
  for (node = 0; node < ref_node_n(ref_node); node++)
    if (!ref_node_valid(ref_node, node)) return 0;
  return ref_node_n(ref_node) == ref_node_max(ref_node) || !ref_node_valid(ref_node, ref_node_n(ref_node));
}

static void op_msrun(void) {
  MESH m;
  long long na, ns;
  int w0, i, hmode = 0;
  char f_mesh[128], f_scalar[128], f_out[128], f_pcd[128];
  char *argv2[72];
  REF_GRID g2 = NULL;
  REF_DBL *hess = NULL, *scalar = NULL, *outm = NULL;
  REF_STATUS s;
  REF_INT ldim;
  if (h_nw < 3 || !is_nat(h_w[1])) { fputs("bad-op\n", out); return; }
  na = h_i(h_w[1]);
  if (na > 64 || h_nw < 2 + na + 1 || !is_nat(h_w[2 + na])) { fputs("bad-op\n", out); return; }
  ns = h_i(h_w[2 + na]);
  if (ns > 4000 || !all_hex(3 + (int)na, 3 + (int)na + (int)ns)) { fputs("bad-op\n", out); return; }
  for (i = 0; i < na; i++) {
    /* branches that are not modelled (and, for --fixed-point, read argv past the end when values are missing) */
    if (0 == strcmp(h_w[2 + i], "--fixed-point") || 0 == strcmp(h_w[2 + i], "--uniform") ||
        0 == strcmp(h_w[2 + i], "--fun3d-mapbc") || 0 == strcmp(h_w[2 + i], "--viscous-tags")) {
      fputs("bad-op\n", out);
      return;
    }
    if (0 == strcmp(h_w[2 + i], "--hessian")) hmode = 1;
  }
  w0 = 3 + (int)na + (int)ns;
  if (!build_mesh(w0, &m, 1)) { fputs("bad-op\n", out); return; }
  if ((!hmode && ns != m.nn) || (hmode && ns != 0)) { fputs("bad-op\n", out); free_mesh(&m); return; }
  snprintf(f_mesh, sizeof(f_mesh), "%s/in.meshb", tmpdir);
  snprintf(f_scalar, sizeof(f_scalar), "%s/%s.solb", tmpdir, hmode ? "hessian" : "scalar");
  snprintf(f_out, sizeof(f_out), "%s/out-metric.solb", tmpdir);
  snprintf(f_pcd, sizeof(f_pcd), "%s/out.pcd", tmpdir);
  remove(f_out);
  if (REF_SUCCESS != ref_export_by_extension(m.grid, f_mesh)) { fputs("msskip export\n", out); free_mesh(&m); return; }
  if (hmode) {
    /* the Hessian file is a metric file: ref_node_metric_set takes the matrix logarithm, so the field must be SPD */
    if (REF_SUCCESS != ref_metric_to_node(m.metric, ref_grid_node(m.grid)) ||
        REF_SUCCESS != ref_gather_metric(m.grid, f_scalar)) {
      fputs("msskip hessian-file\n", out);
      free_mesh(&m);
      return;
    }
  } else {
    scalar = (REF_DBL *)malloc(sizeof(REF_DBL) * (size_t)(ns + 8));
    for (i = 0; i < ns; i++) scalar[i] = h_f(h_w[3 + na + i]);
    s = ref_gather_scalar_by_extension(m.grid, 1, scalar, NULL, f_scalar);
    free(scalar);
    scalar = NULL;
    if (REF_SUCCESS != s) { fputs("msskip scalar-file\n", out); free_mesh(&m); return; }
  }
  /* what the subcommand will see */
  if (REF_SUCCESS != ref_import_by_extension(&g2, ref_mpi, f_mesh)) { fputs("msskip import\n", out); free_mesh(&m); return; }
  if (!contiguous_nodes(g2) || ref_node_n(ref_grid_node(g2)) != m.nn) {
    fputs("msskip node-layout\n", out);
    ref_grid_free(g2);
    free_mesh(&m);
    return;
  }
  hess = (REF_DBL *)malloc(sizeof(REF_DBL) * 6 * (size_t)(ref_node_max(ref_grid_node(g2)) + 8));
  outm = (REF_DBL *)malloc(sizeof(REF_DBL) * 6 * (size_t)(ref_node_max(ref_grid_node(g2)) + 8));
  if (hmode) {
    s = ref_part_metric(ref_grid_node(g2), f_scalar);
    if (REF_SUCCESS == s) s = ref_metric_from_node(hess, ref_grid_node(g2));
  } else {
    s = ref_part_scalar(g2, &ldim, &scalar, f_scalar);
    if (REF_SUCCESS == s) {
      s = ref_recon_hessian(g2, scalar, hess, REF_RECON_L2PROJECTION);
      ref_free(scalar);
    }
  }
  if (REF_SUCCESS != s) {
    fprintf(out, "msskip hessian-%s\n", h_status(s));
  } else {
    int argc2 = 0, nout = 0;
    argv2[argc2++] = (char *)"ref";
    argv2[argc2++] = (char *)"multiscale";
    for (i = 0; i < na; i++) {
      char *a = h_w[2 + i];
      if (0 == strcmp(a, "@mesh")) a = f_mesh;
      else if (0 == strcmp(a, "@scalar")) a = f_scalar;
      else if (0 == strcmp(a, "@out")) a = f_out;
      else if (0 == strcmp(a, "@pcd")) a = f_pcd;
      argv2[argc2++] = a;
    }
    argv2[argc2] = NULL;
    s = multiscale(ref_mpi, argc2, argv2);
    if (REF_SUCCESS == s) {
      REF_STATUS s2 = ref_part_metric(ref_grid_node(g2), f_out);
      if (REF_SUCCESS == s2) s2 = ref_metric_from_node(outm, ref_grid_node(g2));
      if (REF_SUCCESS != s2) {
        fprintf(out, "msskip output-%s\n", h_status(s2));
        goto done;
      }
      nout = 6 * m.nn;
    }
    fprintf(out, "msdump %s %lld", h_status(s), na);
    for (i = 0; i < na; i++) fprintf(out, " %s", h_w[2 + i]);
    fprintf(out, " %d", nout);
    pv(outm, nout);
    dump_grid(g2, hess);
    fputc('\n', out);
  }
done:
  free(hess);
  free(outm);
  ref_grid_free(g2);
  free_mesh(&m);
}

int main(int argc, char *argv[]) {
  int fd = dup(1);
  if (fd < 0) return 3;
  out = fdopen(fd, "w");
  if (!out) return 3;
  if (!freopen("/dev/null", "w", stdout)) return 3;
  if (REF_SUCCESS != ref_mpi_start(argc, argv)) return 3;
  if (REF_SUCCESS != ref_mpi_create(&ref_mpi)) return 3;
  strcpy(tmpdir, "/tmp/h_metricpipe_XXXXXX");
  if (NULL == mkdtemp(tmpdir)) return 3;
  while (h_next(stdin)) {
    const char *op = h_w[0];
    MESH m;
    int is_stages = (0 == strcmp(op, "stages"));
    if (is_stages || 0 == strcmp(op, "lp")) {
      REF_STATUS s;
      if (h_nw < 5 || !is_int(h_w[1]) || h_i(h_w[1]) < -1000 || h_i(h_w[1]) > 1000 || !is_hex(h_w[2]) || !is_hex(h_w[3]) ||
          !is_hex(h_w[4]) || !build_mesh(5, &m, 0)) {
        fputs("bad-op\n", out);
        continue;
      }
      if (is_stages) {
        int st;
        fputs("stages", out);
        for (st = 0; st < 4; st++) {
          if (0 == st) s = ref_recon_roundoff_limit(m.metric, m.grid);
          if (1 == st) s = ref_metric_local_scale(m.metric, m.grid, (REF_INT)h_i(h_w[1]));
          if (2 == st) s = ref_metric_limit_aspect_ratio(m.metric, m.grid, h_f(h_w[3]));
          if (3 == st) s = ref_metric_gradation_at_complexity(m.metric, m.grid, h_f(h_w[2]), h_f(h_w[4]));
          fprintf(out, " %s", h_status(s));
          if (REF_SUCCESS != s) break;
          pv(m.metric, 6 * m.nn);
        }
        fputc('\n', out);
      } else {
        REF_DBL *scalar = (REF_DBL *)calloc((size_t)(m.nn + 8), sizeof(REF_DBL));
        h_fake_hessian = (REF_DBL *)malloc(sizeof(REF_DBL) * 6 * (size_t)(m.nn + 8));
        memcpy(h_fake_hessian, m.metric, sizeof(REF_DBL) * 6 * (size_t)m.nn);
        h_fake_n = m.nn;
        for (s = 0; s < 6 * m.nn; s++) m.metric[s] = -7.0; /* the driver must overwrite every entry */
        s = ref_metric_lp(m.metric, m.grid, scalar, REF_RECON_L2PROJECTION, (REF_INT)h_i(h_w[1]), h_f(h_w[2]), h_f(h_w[3]),
                          h_f(h_w[4]));
        free(h_fake_hessian);
        h_fake_hessian = NULL;
        free(scalar);
        put_field(s, &m);
      }
      free_mesh(&m);
    } else if (0 == strcmp(op, "buffer")) {
      if (!build_mesh(1, &m, 0)) { fputs("bad-op\n", out); continue; }
      put_field(ref_metric_buffer(m.metric, m.grid), &m);
      free_mesh(&m);
    } else if (0 == strcmp(op, "bac")) {
      if (h_nw < 2 || !is_hex(h_w[1]) || !build_mesh(2, &m, 0)) { fputs("bad-op\n", out); continue; }
      put_field(ref_metric_buffer_at_complexity(m.metric, m.grid, h_f(h_w[1])), &m);
      free_mesh(&m);
    } else if (0 == strcmp(op, "bacsteps")) {
      int k;
      REF_STATUS s = REF_SUCCESS;
      if (h_nw < 2 || !is_hex(h_w[1]) || !build_mesh(2, &m, 0)) { fputs("bad-op\n", out); continue; }
      fputs("bacsteps", out);
      for (k = 0; k < 10; k++) {
        s = ref_metric_buffer(m.metric, m.grid);
        if (REF_SUCCESS == s) {
          embed_block(&m);
          s = ref_metric_set_complexity(m.metric, m.grid, h_f(h_w[1]));
        }
        fprintf(out, " %s", h_status(s));
        if (REF_SUCCESS != s) break;
        pv(m.metric, 6 * m.nn);
      }
      fputc('\n', out);
      free_mesh(&m);
    } else if (0 == strcmp(op, "msrun")) {
      op_msrun();
    } else {
      fputs("bad-op\n", out);
    }
  }
  fflush(out);
  {
    char path[160];
    const char *names[] = {"in.meshb", "scalar.solb", "hessian.solb", "out-metric.solb", "out.pcd"};
    unsigned i;
    for (i = 0; i < sizeof(names) / sizeof(names[0]); i++) {
      snprintf(path, sizeof(path), "%s/%s", tmpdir, names[i]);
      remove(path);
    }
    rmdir(tmpdir);
  }
  ref_mpi_free(ref_mpi);
  ref_mpi_stop();
  return 0;
}
