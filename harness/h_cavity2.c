/* harness `cavity2`: the parts of ref_cavity.c around the insert / verify / replace core (form_edge_swap, form_ball,
   form_insert, form_insert_tet, enlarge_face / enlarge_seg / enlarge_visible / enlarge_conforming / enlarge_combined,
   the static ref_cavity_manifold and ref_cavity_add_tet_without_faceid, ref_cavity_visible, ratio / change / normdev,
   ref_swap_node23) on grids built in-process, and (mode `run`) hooked real ref_cavity_pass / ref_collapse_pass /
   ref_adapt_pass / ref_split_pass runs with one record per `cavity_replace` begin / accept.

   White-box: ref_cavity.c is included (the object ref_cavity.o is left out of the link) with three renames that do not
   change what the code computes:
     ref_list_contains -> h_list_contains   counts the calls made from ref_cavity.c; under a budget (300000 calls per
                                            enlarge_* op, about 400 times the largest count seen on generated grids) the
                                            harness leaves a `while (keep_growing)` loop that would never end by longjmp
                                            and prints `hang` (no memory is held at that point of the enlarge loops); in
                                            run mode (3000000 calls per pass) it prints `hang inside a pass` and exits 7
     ref_cavity_create / ref_cavity_free -> real_*; the public names are wrappers that call the real ones and, in run
                                            mode, record the structural hash of the current grid at create and at free
                                            (the callers in ref_collapse.c / ref_split.c are separate translation units
                                            and reach the wrappers; ref_cavity.c itself calls the real ones)
   Function level: the op vocabulary of h_cavity.c plus
     note w | metric v m0..m5 l0..l5 | limits pmin pmax | form_swap a b n | form_ball n | form_insert n site protect id |
     form_insert_tet n site protect | add_tet_wo c id | enlarge_face i | enlarge_seg i | visible_face i | manifold |
     enlarge_visible | enlarge_conforming | enlarge_combined | ratio | change | normdev | ledger | node23 a b
   `ledger` prints `ok L C S`: three evaluations written here without any refine function: L the conformity ledger (live
   faces + listed tris against cone of the unattached live segs + faces of the listed tets, signed multiplicity 0 per
   unordered face), C = listed cells live && live faces non-degenerate && L (Cavity2.certOk), S = every live seg carries the
   face id of a listed tri (Cavity2.segIdsOk).
   One output line per op on `out`; the library's own printf diagnostics go to /dev/null.  The harness works in a
   scratch directory under its start directory: without CAD ref_cavity_conforming answers "not conforming" for every seg
   because ref_geom_tri_norm_deviation fails inside ref_geom_tri_centroid, whose error handler writes
   ref_geom_tri_centroid_error.tec on every call, and ref_swap_node23 exports ref_swap_node23.tec on its error paths. */
#include <dirent.h>
#include <setjmp.h>
#include <sys/stat.h>
#include <sys/types.h>
#include <unistd.h>

#include "h_proto.h"
/* */
#include "ref_cavity.h"
#include "ref_list.h"

static long h_budget = -1; /* < 0: unlimited */
static int h_budget_exit = 0; /* run mode: a real pass cannot be left by longjmp: report and stop the harness */
static jmp_buf h_jmp;
static void h_pass_hang(void);
static REF_STATUS h_list_contains(REF_LIST ref_list, REF_INT item, REF_BOOL *contains) {
  if (h_budget >= 0) {
    if (0 == h_budget) {
      if (h_budget_exit) h_pass_hang();
      longjmp(h_jmp, 1);
    }
    h_budget--;
  }
  return ref_list_contains(ref_list, item, contains);
}
#define ref_list_contains h_list_contains
#define ref_cavity_create real_ref_cavity_create
#define ref_cavity_free real_ref_cavity_free
REF_FCN REF_STATUS real_ref_cavity_create(REF_CAVITY *ref_cavity_ptr);
REF_FCN REF_STATUS real_ref_cavity_free(REF_CAVITY ref_cavity);
#include "ref_cavity.c"
#undef ref_cavity_free
#undef ref_cavity_create
#undef ref_list_contains
/* */
#include "ref_adapt.h"
#include "ref_collapse.h"
#include "ref_smooth.h"
#include "ref_split.h"
#include "ref_swap.h"
#include "ref_validation.h"

static FILE *out;
static REF_MPI ref_mpi;
static REF_GRID ref_grid;
static REF_CAVITY ref_cavity;
static REF_GLOB next_global;
static int run_mode;

#define NODE_LIMIT 200000
#define HANG_BUDGET 300000L
#define PASS_BUDGET 3000000L

static void h_pass_hang(void) {
  fputs("hang inside a pass: a while (keep_growing) loop of ref_cavity.c does not end\n", out);
  fflush(out);
  _exit(7);
}

static int is_op(const char *op, int nw) { return 0 == strcmp(h_w[0], op) && h_nw == nw; }

static int is_int(const char *s) {
  int n = 0;
  if ('-' == *s) s++;
  if (!*s) return 0;
  for (; *s; s++, n++)
    if (*s < '0' || *s > '9') return 0;
  return n < 10;
}
static int is_hex16(const char *s) {
  int n = 0;
  for (; *s; s++, n++)
    if (!((*s >= '0' && *s <= '9') || (*s >= 'a' && *s <= 'f') || (*s >= 'A' && *s <= 'F'))) return 0;
  return 16 == n;
}
/* node / limits: 16 hex digits; metric: an integer then hex; reset / run: a word; everything else decimal integers */
static int args_ok(void) {
  int i;
  const char *op = h_w[0];
  if (0 == strcmp(op, "reset") || 0 == strcmp(op, "run") || 0 == strcmp(op, "note")) return 1;
  for (i = 1; i < h_nw; i++) {
    int hex = 0 == strcmp(op, "node") || 0 == strcmp(op, "limits") || (0 == strcmp(op, "metric") && i > 1);
    if (hex ? !is_hex16(h_w[i]) : !is_int(h_w[i])) return 0;
  }
  return 1;
}

static void fresh_cavity(void) {
  if (ref_cavity) real_ref_cavity_free(ref_cavity);
  ref_cavity = NULL;
  if (REF_SUCCESS != real_ref_cavity_create(&ref_cavity)) exit(3);
  ref_cavity_form_empty(ref_cavity, ref_grid, REF_EMPTY);
}

static void reset(int twod) {
  if (ref_cavity) real_ref_cavity_free(ref_cavity);
  ref_cavity = NULL;
  if (ref_grid) ref_grid_free(ref_grid);
  ref_grid = NULL;
  if (REF_SUCCESS != ref_grid_create(&ref_grid, ref_mpi)) exit(3);
  ref_grid_twod(ref_grid) = twod ? REF_TRUE : REF_FALSE;
  next_global = 0;
  fresh_cavity();
}

static int node_ok(long long v) {
  return v >= 0 && v < NODE_LIMIT && ref_node_valid(ref_grid_node(ref_grid), (REF_INT)v);
}

/* every node the cavity refers to is a valid node of the grid (what ref_cavity_validate tests): the C reads
   part[] / xyz of these nodes without a range check */
static int cav_nodes_ok(void) {
  REF_INT i, k;
  if (!node_ok(ref_cavity_node(ref_cavity))) return 0;
  if (REF_EMPTY != ref_cavity_surf_node(ref_cavity) && !node_ok(ref_cavity_surf_node(ref_cavity))) return 0;
  each_ref_cavity_valid_face(ref_cavity, i) for (k = 0; k < 3; k++) if (!node_ok(ref_cavity_f2n(ref_cavity, k, i))) return 0;
  each_ref_cavity_valid_seg(ref_cavity, i) for (k = 0; k < 2; k++) if (!node_ok(ref_cavity_s2n(ref_cavity, k, i))) return 0;
  return 1;
}

static void st_line(REF_STATUS s) { fprintf(out, "%s %d\n", h_status(s), (int)ref_cavity_state(ref_cavity)); }

static void dump_chain(REF_INT head, REF_INT *x2n, REF_INT max) {
  REF_INT i = head, guard = 0;
  int first = 1;
  while (REF_EMPTY != i && guard <= max) {
    fprintf(out, "%s%d", first ? "" : ",", i);
    first = 0;
    i = x2n[1 + 3 * i];
    guard++;
  }
  if (first) fputc('-', out);
}

static void dump_list(REF_LIST l) {
  REF_INT i;
  if (0 == ref_list_n(l)) fputc('-', out);
  for (i = 0; i < ref_list_n(l); i++) fprintf(out, "%s%d", i ? "," : "", ref_list_value(l, i));
}

static void cav_dump(void) {
  REF_INT i;
  fprintf(out, "%d %d %d %d %d | ", (int)ref_cavity_state(ref_cavity), ref_cavity_node(ref_cavity),
          ref_cavity_surf_node(ref_cavity), ref_cavity_nface(ref_cavity), ref_cavity_maxface(ref_cavity));
  for (i = 0; i < ref_cavity_maxface(ref_cavity); i++) {
    if (i) fputc(' ', out);
    if (REF_EMPTY == ref_cavity_f2n(ref_cavity, 0, i))
      fputc('-', out);
    else
      fprintf(out, "%d,%d,%d", ref_cavity_f2n(ref_cavity, 0, i), ref_cavity_f2n(ref_cavity, 1, i),
              ref_cavity_f2n(ref_cavity, 2, i));
  }
  fprintf(out, " | ");
  dump_chain(ref_cavity_blankface(ref_cavity), ref_cavity->f2n, ref_cavity_maxface(ref_cavity));
  fprintf(out, " | %d %d | ", ref_cavity_nseg(ref_cavity), ref_cavity_maxseg(ref_cavity));
  for (i = 0; i < ref_cavity_maxseg(ref_cavity); i++) {
    if (i) fputc(' ', out);
    if (REF_EMPTY == ref_cavity_s2n(ref_cavity, 0, i))
      fputc('-', out);
    else
      fprintf(out, "%d,%d,%d", ref_cavity_s2n(ref_cavity, 0, i), ref_cavity_s2n(ref_cavity, 1, i),
              ref_cavity_s2n(ref_cavity, 2, i));
  }
  fprintf(out, " | ");
  dump_chain(ref_cavity_blankseg(ref_cavity), ref_cavity->s2n, ref_cavity_maxseg(ref_cavity));
  fprintf(out, " | ");
  dump_list(ref_cavity_tet_list(ref_cavity));
  fprintf(out, " | ");
  dump_list(ref_cavity_tri_list(ref_cavity));
  fprintf(out, " | %d %d %d %d\n", ref_cavity->split_node0, ref_cavity->split_node1, ref_cavity->collapse_node0,
          ref_cavity->collapse_node1);
}

static int cmp_rows(const void *a, const void *b) {
  const REF_INT *x = (const REF_INT *)a, *y = (const REF_INT *)b;
  int k;
  for (k = 0; k < 4; k++) {
    if (x[k] < y[k]) return -1;
    if (x[k] > y[k]) return 1;
  }
  return 0;
}

/* valid cells of one store, rows of `per` ints padded to 4, sorted lexicographically */
static void dump_cells(REF_CELL ref_cell, int per) {
  REF_INT cell, nodes[REF_CELL_MAX_SIZE_PER], n = 0, k;
  REF_INT *rows = (REF_INT *)malloc(sizeof(REF_INT) * 4 * (size_t)(ref_cell_n(ref_cell) + 1));
  each_ref_cell_valid_cell_with_nodes(ref_cell, cell, nodes) {
    for (k = 0; k < 4; k++) rows[4 * n + k] = k < per ? nodes[k] : 0;
    n++;
  }
  qsort(rows, (size_t)n, 4 * sizeof(REF_INT), cmp_rows);
  if (0 == n) fputc('-', out);
  for (cell = 0; cell < n; cell++) {
    if (cell) fputc(' ', out);
    for (k = 0; k < per; k++) fprintf(out, "%s%d", k ? "," : "", rows[4 * cell + k]);
  }
  free(rows);
}

static void grid_dump(void) {
  REF_NODE ref_node = ref_grid_node(ref_grid);
  REF_INT node;
  int first = 1;
  dump_cells(ref_grid_tet(ref_grid), 4);
  fprintf(out, " | ");
  dump_cells(ref_grid_tri(ref_grid), 4);
  fprintf(out, " | ");
  dump_cells(ref_grid_edg(ref_grid), 3);
  fprintf(out, " | ");
  each_ref_node_valid_node(ref_node, node) {
    fprintf(out, "%s%d", first ? "" : ",", node);
    first = 0;
  }
  if (first) fputc('-', out);
  fputc('\n', out);
}

/* ---------- the conformity ledger, evaluated independently of refine (no refine function is called) ----------
   live faces + listed (live) tris   against   cone of the unattached live segs from the seg node + faces of the
   listed (live) tets: every unordered face has signed multiplicity zero */
static int sort3_sign(const REF_INT *f, REF_INT *k) {
  REF_INT a = f[0], b = f[1], c = f[2], t;
  int s = 1;
  if (a > b) { t = a; a = b; b = t; s = -s; }
  if (b > c) { t = b; b = c; c = t; s = -s; }
  if (a > b) { t = a; a = b; b = t; s = -s; }
  k[0] = a; k[1] = b; k[2] = c;
  return s;
}
static const int tet_face[4][3] = {{1, 3, 2}, {0, 2, 3}, {0, 3, 1}, {0, 1, 2}};

static int ledger_ok(void) {
  REF_CELL tet = ref_grid_tet(ref_grid), tri = ref_grid_tri(ref_grid);
  REF_LIST tl = ref_cavity_tet_list(ref_cavity), rl = ref_cavity_tri_list(ref_cavity);
  REF_INT cap = ref_cavity_maxface(ref_cavity) + ref_cavity_maxseg(ref_cavity) + 4 * ref_list_n(tl) + ref_list_n(rl) + 1;
  REF_INT *key = (REF_INT *)malloc(sizeof(REF_INT) * 3 * (size_t)cap);
  int *sgn = (int *)malloc(sizeof(int) * (size_t)cap), ok = 1;
  REF_INT n = 0, i, j, f[3], item, cell, sn = ref_cavity_seg_node(ref_cavity);
  for (i = 0; i < ref_cavity_maxface(ref_cavity); i++) {
    if (REF_EMPTY == ref_cavity->f2n[3 * i]) continue;
    for (j = 0; j < 3; j++) f[j] = ref_cavity->f2n[j + 3 * i];
    sgn[n] = sort3_sign(f, &key[3 * n]);
    n++;
  }
  for (item = 0; item < ref_list_n(rl); item++) {
    cell = ref_list_value(rl, item);
    if (cell < 0 || cell >= ref_cell_max(tri) || REF_EMPTY == tri->c2n[ref_cell_size_per(tri) * cell]) continue;
    for (j = 0; j < 3; j++) f[j] = tri->c2n[j + ref_cell_size_per(tri) * cell];
    sgn[n] = sort3_sign(f, &key[3 * n]);
    n++;
  }
  for (i = 0; i < ref_cavity_maxseg(ref_cavity); i++) {
    if (REF_EMPTY == ref_cavity->s2n[3 * i]) continue;
    f[0] = ref_cavity->s2n[3 * i];
    f[1] = ref_cavity->s2n[1 + 3 * i];
    f[2] = sn;
    if (sn == f[0] || sn == f[1]) continue;
    sgn[n] = -sort3_sign(f, &key[3 * n]);
    n++;
  }
  for (item = 0; item < ref_list_n(tl); item++) {
    cell = ref_list_value(tl, item);
    if (cell < 0 || cell >= ref_cell_max(tet) || REF_EMPTY == tet->c2n[ref_cell_size_per(tet) * cell]) continue;
    for (i = 0; i < 4; i++) {
      for (j = 0; j < 3; j++) f[j] = tet->c2n[tet_face[i][j] + ref_cell_size_per(tet) * cell];
      sgn[n] = -sort3_sign(f, &key[3 * n]);
      n++;
    }
  }
  for (i = 0; i < n && ok; i++) {
    int sum = 0;
    for (j = 0; j < n; j++)
      if (key[3 * i] == key[3 * j] && key[3 * i + 1] == key[3 * j + 1] && key[3 * i + 2] == key[3 * j + 2]) sum += sgn[j];
    if (0 != sum) ok = 0;
  }
  free(key);
  free(sgn);
  return ok;
}

/* the certificate of the run-level driver (Cavity2.certOk), again without refine code: every listed cell is live, every
   live face has three distinct nodes, the ledger is balanced */
static int cert_ok(void) {
  REF_CELL tet = ref_grid_tet(ref_grid), tri = ref_grid_tri(ref_grid);
  REF_LIST tl = ref_cavity_tet_list(ref_cavity), rl = ref_cavity_tri_list(ref_cavity);
  REF_INT item, cell, i;
  for (item = 0; item < ref_list_n(tl); item++) {
    cell = ref_list_value(tl, item);
    if (cell < 0 || cell >= ref_cell_max(tet) || REF_EMPTY == tet->c2n[ref_cell_size_per(tet) * cell]) return 0;
  }
  for (item = 0; item < ref_list_n(rl); item++) {
    cell = ref_list_value(rl, item);
    if (cell < 0 || cell >= ref_cell_max(tri) || REF_EMPTY == tri->c2n[ref_cell_size_per(tri) * cell]) return 0;
  }
  for (i = 0; i < ref_cavity_maxface(ref_cavity); i++) {
    REF_INT *f = &(ref_cavity->f2n[3 * i]);
    if (REF_EMPTY == f[0]) continue;
    if (f[0] == f[1] || f[1] == f[2] || f[2] == f[0]) return 0;
  }
  return ledger_ok();
}

/* Cavity2.segIdsOk, without refine code: every live seg carries the face id of some listed live tri */
static int seg_ids_ok(void) {
  REF_CELL tri = ref_grid_tri(ref_grid);
  REF_LIST rl = ref_cavity_tri_list(ref_cavity);
  REF_INT i, item, cell;
  for (i = 0; i < ref_cavity_maxseg(ref_cavity); i++) {
    int found = 0;
    if (REF_EMPTY == ref_cavity->s2n[3 * i]) continue;
    for (item = 0; item < ref_list_n(rl) && !found; item++) {
      cell = ref_list_value(rl, item);
      if (cell < 0 || cell >= ref_cell_max(tri) || REF_EMPTY == tri->c2n[ref_cell_size_per(tri) * cell]) continue;
      if (tri->c2n[3 + ref_cell_size_per(tri) * cell] == ref_cavity->s2n[2 + 3 * i]) found = 1;
    }
    if (!found) return 0;
  }
  return 1;
}

/* a call of one of the three functions with a `while (keep_growing)` loop, under the call budget */
static void enlarge_op(int which) {
  REF_STATUS s;
  h_budget = HANG_BUDGET;
  if (0 != setjmp(h_jmp)) {
    h_budget = -1;
    fputs("hang\n", out);
    return;
  }
  if (0 == which)
    s = ref_cavity_enlarge_visible(ref_cavity);
  else if (1 == which)
    s = ref_cavity_enlarge_conforming(ref_cavity);
  else
    s = ref_cavity_enlarge_combined(ref_cavity);
  h_budget = -1;
  st_line(s);
}

/* ======================= run level ======================= */
static uint64_t fnv(uint64_t h, const void *p, size_t n) {
  const unsigned char *c = (const unsigned char *)p;
  size_t i;
  for (i = 0; i < n; i++) {
    h ^= c[i];
    h *= 1099511628211ULL;
  }
  return h;
}
#define FNV0 1469598103934665603ULL

static int glob_cmp(const void *a, const void *b) {
  REF_GLOB x = *(const REF_GLOB *)a, y = *(const REF_GLOB *)b;
  return x < y ? -1 : (x > y ? 1 : 0);
}

/* structural hash of the whole grid (copied from h_meshops.c): every valid vertex (slot, global id, xyz, metric and
   log-metric bits), every cell of every group (as a multiset), the abstract id pool in canonical form, old_n_global */
static uint64_t grid_hash(REF_GRID g) {
  REF_NODE ref_node = ref_grid_node(g);
  REF_CELL ref_cell;
  REF_INT node, group, cell, nodes[REF_CELL_MAX_SIZE_PER], i, nu;
  uint64_t total = 0, h;
  REF_GLOB *un, new_n;
  each_ref_node_valid_node(ref_node, node) {
    REF_GLOB gl = ref_node_global(ref_node, node);
    h = fnv(FNV0, &node, sizeof(node));
    h = fnv(h, &gl, sizeof(gl));
    h = fnv(h, &(ref_node->real[REF_NODE_REAL_PER * node]), sizeof(REF_DBL) * REF_NODE_REAL_PER);
    total += h;
  }
  each_ref_grid_all_ref_cell(g, group, ref_cell) {
    each_ref_cell_valid_cell_with_nodes(ref_cell, cell, nodes) {
      h = fnv(FNV0 + 7 * (uint64_t)(group + 1), nodes, sizeof(REF_INT) * (size_t)ref_cell_size_per(ref_cell));
      total += h;
    }
  }
  nu = ref_node_n_unused(ref_node);
  un = (REF_GLOB *)malloc(sizeof(REF_GLOB) * (size_t)(nu + 1));
  for (i = 0; i < nu; i++) un[i] = ref_node->unused_global[i];
  qsort(un, (size_t)nu, sizeof(REF_GLOB), glob_cmp);
  new_n = ref_node->new_n_global;
  if (REF_EMPTY == new_n) new_n = ref_node_n(ref_node);
  while (nu > 0 && un[nu - 1] == new_n - 1 && (nu < 2 || un[nu - 2] != un[nu - 1])) {
    nu--;
    new_n--;
  }
  h = fnv(FNV0 + 99, un, sizeof(REF_GLOB) * (size_t)nu);
  h = fnv(h, &new_n, sizeof(new_n));
  h = fnv(h, &(ref_node->old_n_global), sizeof(REF_GLOB));
  free(un);
  return total + h;
}

#define REC_CAP 600
#define FREE_CAP 20000
static int rec_count, accept_count, free_count, free_changed, rec_full;
static char cur_pass = '-';
static int wrap_on, wrap_depth, wrap_accepts;
static uint64_t wrap_hash;

REF_FCN REF_STATUS ref_cavity_create(REF_CAVITY *ref_cavity_ptr) {
  if (wrap_on && 0 == wrap_depth) {
    wrap_hash = grid_hash(ref_grid);
    wrap_accepts = accept_count;
  }
  wrap_depth++;
  return real_ref_cavity_create(ref_cavity_ptr);
}
REF_FCN REF_STATUS ref_cavity_free(REF_CAVITY cav) {
  if (wrap_depth > 0) wrap_depth--;
  if (wrap_on && 0 == wrap_depth && NULL != (void *)cav) {
    int replaced = accept_count != wrap_accepts;
    int same = wrap_hash == grid_hash(ref_grid);
    free_count++;
    if (!replaced && !same) free_changed++;
    if (free_count <= FREE_CAP || (!replaced && !same)) fprintf(out, "free replaced=%d same=%d\n", replaced, same);
  }
  return real_ref_cavity_free(cav);
}

#define STAR_MAX 8192
static REF_INT cen[STAR_MAX], ncen;          /* star centres: cavity node, seg node, nodes of the listed cells */
static REF_INT nds[4 * STAR_MAX], nnds;      /* every node printed with coordinates */
static REF_INT star_cell[3][STAR_MAX], star_n[3];

static void push_unique(REF_INT *list, REF_INT *n, REF_INT cap, REF_INT v) {
  REF_INT i;
  for (i = 0; i < *n; i++)
    if (list[i] == v) return;
  if (*n < cap) list[(*n)++] = v;
}

static void collect_stars(REF_GRID g) {
  REF_CELL cells[3];
  REF_INT k, j, item, cell, cn;
  cells[0] = ref_grid_tet(g);
  cells[1] = ref_grid_tri(g);
  cells[2] = ref_grid_edg(g);
  for (k = 0; k < 3; k++) {
    star_n[k] = 0;
    for (j = 0; j < ncen; j++) {
      each_ref_cell_having_node(cells[k], cen[j], item, cell) { push_unique(star_cell[k], &star_n[k], STAR_MAX, cell); }
    }
    for (j = 0; j < star_n[k]; j++)
      for (cn = 0; cn < ref_cell_node_per(cells[k]); cn++)
        push_unique(nds, &nnds, 4 * STAR_MAX, ref_cell_c2n(cells[k], cn, star_cell[k][j]));
  }
}

/* the dumped cells of one group in an order that agrees with the adjacency order (most recently registered first) around
   EVERY dumped node: the model keeps one registration order per cell store and each_ref_cell_having_node is that order
   filtered by the node, so any topological order of the per-node chains reproduces every loop of the C over the star */
static REF_INT ord_from[8 * STAR_MAX], ord_to[8 * STAR_MAX], ord_deg[STAR_MAX], ord_out[STAR_MAX];
static char ord_done[STAR_MAX];
static int star_index(REF_INT k, REF_INT cell) {
  REF_INT i;
  for (i = 0; i < star_n[k]; i++)
    if (star_cell[k][i] == cell) return (int)i;
  return -1;
}
static int order_stars(REF_CELL ref_cell, REF_INT k) {
  REF_INT ne = 0, i, j, item, cell, n = star_n[k], nout = 0;
  int prev, cur, cyclic = 0;
  for (i = 0; i < n; i++) {
    ord_deg[i] = 0;
    ord_done[i] = 0;
  }
  for (j = 0; j < nnds; j++) {
    prev = -1;
    each_ref_cell_having_node(ref_cell, nds[j], item, cell) {
      cur = star_index(k, cell);
      if (cur < 0) continue;
      if (prev >= 0 && ne < 8 * STAR_MAX) {
        ord_from[ne] = prev;
        ord_to[ne] = cur;
        ord_deg[cur]++;
        ne++;
      }
      prev = cur;
    }
  }
  while (nout < n) {
    int pick = -1;
    for (i = 0; i < n; i++)
      if (!ord_done[i] && 0 == ord_deg[i]) {
        pick = (int)i;
        break;
      }
    if (pick < 0) { /* a cycle: ref_cell_replace_node (ref_collapse_edge, ref_split_edge) re-registers a cell at ONE of its
                       nodes only, after that the chains are no longer sub-sequences of one registration order */
      cyclic = 1;
      for (i = 0; i < n; i++)
        if (!ord_done[i]) {
          pick = (int)i;
          break;
        }
    }
    ord_done[pick] = 1;
    ord_out[nout++] = star_cell[k][pick];
    for (i = 0; i < ne; i++)
      if (ord_from[i] == pick) ord_deg[ord_to[i]]--;
  }
  for (i = 0; i < n; i++) star_cell[k][i] = ord_out[i];
  return !cyclic;
}

static void print_stars(REF_GRID g, int with_metric) {
  REF_NODE ref_node = ref_grid_node(g);
  REF_CELL cells[3];
  static const char *gname[] = {"T", "R", "E"};
  REF_INT k, i, j;
  cells[0] = ref_grid_tet(g);
  cells[1] = ref_grid_tri(g);
  cells[2] = ref_grid_edg(g);
  for (k = 0; k < 3; k++) {
    if (!order_stars(cells[k], k)) fprintf(out, " | X%s approx", gname[k]);
    fprintf(out, " | %s", gname[k]);
    for (i = 0; i < star_n[k]; i++) {
      fprintf(out, " %d", star_cell[k][i]);
      for (j = 0; j < ref_cell_size_per(cells[k]); j++) fprintf(out, ":%d", ref_cell_c2n(cells[k], j, star_cell[k][i]));
    }
  }
  fprintf(out, " | N");
  for (i = 0; i < nnds; i++) {
    REF_INT v = nds[i];
    if (!ref_node_valid(ref_node, v)) continue;
    fprintf(out, " %d:%d", v, ref_node_owned(ref_node, v) ? 1 : 0);
    for (k = 0; k < (with_metric ? REF_NODE_REAL_PER : 3); k++) { /* x y z, metric m[6], log metric l[6] */
      fputc(':', out);
      h_pf(out, ref_node_real(ref_node, k, v));
    }
  }
}

static void my_op(const char *phase, const char *kind, void *object, int n, const int *ints) {
  REF_CAVITY cav;
  REF_GRID g;
  REF_INT i, k, item, cell;
  int begin;
  (void)n;
  (void)ints;
  if (0 != strcmp(kind, "cavity_replace")) return;
  begin = 0 == strcmp(phase, "begin");
  if (!begin && 0 != strcmp(phase, "accept")) return;
  cav = (REF_CAVITY)object;
  g = ref_cavity_grid(cav);
  if (!begin) accept_count++;
  if (begin) {
    rec_full = rec_count < REC_CAP;
    if (rec_full) rec_count++;
  }
  if (!rec_full) { /* beyond the cap only the hash chain is continued */
    fprintf(out, "hash %s %016llx\n", phase, (unsigned long long)grid_hash(g));
    return;
  }
  if (begin) {
    REF_CELL tet = ref_grid_tet(g), tri = ref_grid_tri(g);
    ncen = 0;
    nnds = 0;
    push_unique(cen, &ncen, STAR_MAX, ref_cavity_node(cav));
    push_unique(cen, &ncen, STAR_MAX, ref_cavity_seg_node(cav));
    each_ref_list_item(ref_cavity_tet_list(cav), item) {
      cell = ref_list_value(ref_cavity_tet_list(cav), item);
      if (ref_cell_valid(tet, cell))
        for (k = 0; k < 4; k++) push_unique(cen, &ncen, STAR_MAX, ref_cell_c2n(tet, k, cell));
    }
    each_ref_list_item(ref_cavity_tri_list(cav), item) {
      cell = ref_list_value(ref_cavity_tri_list(cav), item);
      if (ref_cell_valid(tri, cell))
        for (k = 0; k < 3; k++) push_unique(cen, &ncen, STAR_MAX, ref_cell_c2n(tri, k, cell));
    }
    for (i = 0; i < ncen; i++) push_unique(nds, &nnds, 4 * STAR_MAX, cen[i]);
    each_ref_cavity_valid_face(cav, i) for (k = 0; k < 3; k++) push_unique(nds, &nnds, 4 * STAR_MAX, ref_cavity_f2n(cav, k, i));
    each_ref_cavity_valid_seg(cav, i) for (k = 0; k < 2; k++) push_unique(nds, &nnds, 4 * STAR_MAX, ref_cavity_s2n(cav, k, i));
  }
  collect_stars(g);
  fprintf(out, "rec %s node=%d surf=%d state=%d hash=%016llx sc=%d,%d,%d,%d pass=%c", phase, ref_cavity_node(cav),
          ref_cavity_surf_node(cav), (int)ref_cavity_state(cav), (unsigned long long)grid_hash(g), cav->split_node0,
          cav->split_node1, cav->collapse_node0, cav->collapse_node1, cur_pass);
  if (begin) { /* the thresholds of ref_grid_adapt the callers read, as they are now (ref_adapt_pass resets them) */
    fprintf(out, " smd=%d adapt=", ref_grid_adapt(g, swap_max_degree));
    h_pf(out, ref_grid_adapt(g, post_min_ratio));
    fputc(',', out);
    h_pf(out, ref_grid_adapt(g, post_max_ratio));
    fputc(',', out);
    h_pf(out, ref_grid_adapt(g, swap_min_quality));
    fputc(',', out);
    h_pf(out, ref_grid_adapt(g, collapse_quality_absolute));
    fputc(',', out);
    h_pf(out, ref_grid_adapt(g, split_quality_absolute));
  }
  fprintf(out, " | C");
  for (i = 0; i < ncen; i++) fprintf(out, " %d", cen[i]);
  if (begin) {
    fprintf(out, " | F");
    each_ref_cavity_valid_face(cav, i)
        fprintf(out, " %d,%d,%d", ref_cavity_f2n(cav, 0, i), ref_cavity_f2n(cav, 1, i), ref_cavity_f2n(cav, 2, i));
    fprintf(out, " | S");
    each_ref_cavity_valid_seg(cav, i)
        fprintf(out, " %d,%d,%d", ref_cavity_s2n(cav, 0, i), ref_cavity_s2n(cav, 1, i), ref_cavity_s2n(cav, 2, i));
    fprintf(out, " | TL");
    each_ref_list_item(ref_cavity_tet_list(cav), item) fprintf(out, " %d", ref_list_value(ref_cavity_tet_list(cav), item));
    fprintf(out, " | RL");
    each_ref_list_item(ref_cavity_tri_list(cav), item) fprintf(out, " %d", ref_list_value(ref_cavity_tri_list(cav), item));
  }
  print_stars(g, begin);
  fputc('\n', out);
}

/* run <passes>: v = ref_cavity_pass, c = ref_collapse_pass, a = ref_adapt_pass, s = ref_split_pass, m = ref_smooth_pass
   on the grid built by the preceding node / metric / tet / tri ops */
static void run_op(void) {
  REF_STATUS s = REF_SUCCESS;
  REF_BOOL all_done;
  const char *p;
  if (2 != h_nw || strlen(h_w[1]) > 16 || strlen(h_w[1]) != strspn(h_w[1], "vcasm")) {
    fputs("bad-op\n", out);
    return;
  }
  if (REF_SUCCESS != ref_node_initialize_n_global(ref_grid_node(ref_grid), next_global)) exit(5);
  rec_count = accept_count = free_count = free_changed = 0;
  wrap_depth = 0;
  ref_verif_op_fcn = my_op;
  wrap_on = 1;
  for (p = h_w[1]; *p && REF_SUCCESS == s; p++) {
    if ('v' == *p) fprintf(out, "pass begin %016llx\n", (unsigned long long)grid_hash(ref_grid));
    h_budget = PASS_BUDGET;
    h_budget_exit = 1;
    cur_pass = *p;
    switch (*p) {
      case 'v': s = ref_cavity_pass(ref_grid); break;
      case 'c': s = ref_collapse_pass(ref_grid); break;
      case 'a': s = ref_adapt_pass(ref_grid, &all_done); break;
      case 's': s = ref_split_pass(ref_grid); break;
      case 'm': s = ref_smooth_pass(ref_grid); break;
      default: break;
    }
    h_budget = -1;
    h_budget_exit = 0;
    if ('v' == *p) fprintf(out, "pass end %016llx %s\n", (unsigned long long)grid_hash(ref_grid), h_status(s));
  }
  wrap_on = 0;
  ref_verif_op_fcn = NULL;
  fprintf(out, "done %s nrec=%d naccept=%d nfree=%d changed=%d nnode=%d ntet=%d ntri=%d\n", h_status(s), rec_count,
          accept_count, free_count, free_changed, ref_node_n(ref_grid_node(ref_grid)), ref_cell_n(ref_grid_tet(ref_grid)),
          ref_cell_n(ref_grid_tri(ref_grid)));
  /* the cavity of the function-level ops refers to cells that may be gone */
  fresh_cavity();
}

static char scratch[512];

int main(int argc, char **argv) {
  out = fdopen(dup(1), "w");
  if (!out || !freopen("/dev/null", "w", stdout)) return 3;
  if (REF_SUCCESS != ref_mpi_create(&ref_mpi)) return 3;
  run_mode = argc > 1 && 0 == strcmp(argv[1], "run");
  snprintf(scratch, sizeof(scratch), "h_cavity2_scratch_%ld", (long)getpid());
  if (0 != mkdir(scratch, 0700) || 0 != chdir(scratch)) scratch[0] = 0;
  reset(0);
  while (h_next(stdin)) {
    const char *op = h_w[0];
    REF_NODE ref_node = ref_grid_node(ref_grid);
    if (!args_ok()) { fputs("bad-op\n", out); continue; }
    if (is_op("reset", 1) || is_op("reset", 2)) {
      reset(h_nw == 2 && 0 == strcmp(h_w[1], "twod"));
      fputs("ok\n", out);
    } else if (is_op("note", 2)) { /* a marker for the oracle: no effect */
      fputs("ok\n", out);
    } else if (is_op("node", 4)) {
      REF_INT node = REF_EMPTY;
      int k;
      if (next_global >= NODE_LIMIT) { fputs("bad-op\n", out); continue; }
      if (REF_SUCCESS != ref_node_add(ref_node, next_global, &node)) exit(3);
      next_global++;
      for (k = 0; k < 3; k++) ref_node_xyz(ref_node, k, node) = h_f(h_w[1 + k]);
      /* the identity metric with a zero log, written explicitly */
      for (k = 3; k < REF_NODE_REAL_PER; k++) ref_node_real(ref_node, k, node) = (3 == k || 6 == k || 8 == k) ? 1.0 : 0.0;
      fprintf(out, "ok %d\n", node);
    } else if (is_op("metric", 14)) { /* metric v m0..m5 l0..l5: the twelve stored reals, as h_collapse does */
      long long v = h_i(h_w[1]);
      int k;
      if (!node_ok(v)) { fputs("bad-op\n", out); continue; }
      for (k = 0; k < 12; k++) ref_node_real(ref_node, 3 + k, (REF_INT)v) = h_f(h_w[2 + k]);
      fputs("ok\n", out);
    } else if (is_op("metric", 8) && run_mode) { /* run mode only: ref_node_metric_set computes the log */
      long long v = h_i(h_w[1]);
      REF_DBL m[6];
      int k;
      if (!node_ok(v)) { fputs("bad-op\n", out); continue; }
      for (k = 0; k < 6; k++) m[k] = h_f(h_w[2 + k]);
      fprintf(out, "%s\n", h_status(ref_node_metric_set(ref_node, (REF_INT)v, m)));
    } else if (is_op("limits", 3)) {
      ref_grid_adapt(ref_grid, post_min_ratio) = h_f(h_w[1]);
      ref_grid_adapt(ref_grid, post_max_ratio) = h_f(h_w[2]);
      fputs("ok\n", out);
    } else if (is_op("ghost", 2)) {
      long long v = h_i(h_w[1]);
      if (!node_ok(v)) { fputs("bad-op\n", out); continue; }
      ref_node_part(ref_node, (REF_INT)v) = 1;
      fputs("ok\n", out);
    } else if (is_op("tet", 5) || is_op("tri", 5) || is_op("edg", 4)) {
      REF_INT nodes[REF_CELL_MAX_SIZE_PER], cell = REF_EMPTY;
      int per = ('t' == op[0] && 'e' == op[1]) ? 4 : ('t' == op[0] ? 3 : 2), k, j, good = 1;
      REF_CELL ref_cell = (4 == per) ? ref_grid_tet(ref_grid) : (3 == per ? ref_grid_tri(ref_grid) : ref_grid_edg(ref_grid));
      for (k = 0; k < h_nw - 1; k++) nodes[k] = (REF_INT)h_i(h_w[1 + k]);
      for (k = 0; k < per; k++) {
        if (!node_ok(h_i(h_w[1 + k]))) good = 0;
        for (j = 0; j < k; j++)
          if (nodes[j] == nodes[k]) good = 0;
      }
      if (!good) { fputs("bad-op\n", out); continue; }
      if (REF_SUCCESS != ref_cell_add(ref_cell, nodes, &cell)) exit(3);
      fprintf(out, "ok %d\n", cell);
    } else if (is_op("run", 2) && run_mode) {
      run_op();
    } else if (is_op("new", 1)) {
      fresh_cavity();
      fputs("ok\n", out);
    } else if (is_op("form", 2)) {
      long long v = h_i(h_w[1]);
      if (v < -1 || v >= NODE_LIMIT) { fputs("bad-op\n", out); continue; }
      st_line(ref_cavity_form_empty(ref_cavity, ref_grid, (REF_INT)v));
    } else if (is_op("surf_node", 2)) {
      long long v = h_i(h_w[1]);
      if (v < -1 || v >= NODE_LIMIT) { fputs("bad-op\n", out); continue; }
      ref_cavity_surf_node(ref_cavity) = (REF_INT)v;
      fputs("ok\n", out);
    } else if (is_op("set_state", 2)) {
      long long v = h_i(h_w[1]);
      if (v < 0 || v > 6) { fputs("bad-op\n", out); continue; }
      ref_cavity_state(ref_cavity) = (REF_CAVITY_STATE)v;
      fputs("ok\n", out);
    } else if (is_op("form_split", 4)) {
      long long a = h_i(h_w[1]), b = h_i(h_w[2]), c = h_i(h_w[3]);
      if (!node_ok(a) || !node_ok(b) || !node_ok(c) || a == b) { fputs("bad-op\n", out); continue; }
      fresh_cavity();
      st_line(ref_cavity_form_edge_split(ref_cavity, ref_grid, (REF_INT)a, (REF_INT)b, (REF_INT)c));
    } else if (is_op("form_collapse", 3)) {
      long long a = h_i(h_w[1]), b = h_i(h_w[2]);
      if (!node_ok(a) || !node_ok(b)) { fputs("bad-op\n", out); continue; }
      fresh_cavity();
      st_line(ref_cavity_form_edge_collapse(ref_cavity, ref_grid, (REF_INT)a, (REF_INT)b));
    } else if (is_op("form_swap", 4)) {
      long long a = h_i(h_w[1]), b = h_i(h_w[2]), c = h_i(h_w[3]);
      if (!node_ok(a) || !node_ok(b) || !node_ok(c) || a == b) { fputs("bad-op\n", out); continue; }
      fresh_cavity();
      st_line(ref_cavity_form_edge_swap(ref_cavity, ref_grid, (REF_INT)a, (REF_INT)b, (REF_INT)c));
    } else if (is_op("form_ball", 2)) {
      long long a = h_i(h_w[1]);
      if (!node_ok(a)) { fputs("bad-op\n", out); continue; }
      fresh_cavity();
      st_line(ref_cavity_form_ball(ref_cavity, ref_grid, (REF_INT)a));
    } else if (is_op("form_insert", 5) || is_op("form_insert_tet", 4)) {
      long long a = h_i(h_w[1]), b = h_i(h_w[2]), c = h_i(h_w[3]), d = 5 == h_nw ? h_i(h_w[4]) : -1;
      if (!node_ok(a) || !node_ok(b) || c < -1 || c >= NODE_LIMIT || d < -1000 || d > 1000) { fputs("bad-op\n", out); continue; }
      fresh_cavity();
      if (5 == h_nw)
        st_line(ref_cavity_form_insert(ref_cavity, ref_grid, (REF_INT)a, (REF_INT)b, (REF_INT)c, (REF_INT)d));
      else
        st_line(ref_cavity_form_insert_tet(ref_cavity, ref_grid, (REF_INT)a, (REF_INT)b, (REF_INT)c));
    } else if (is_op("add_tet", 2)) {
      long long c = h_i(h_w[1]);
      if (c < -1 || c > NODE_LIMIT) { fputs("bad-op\n", out); continue; }
      st_line(ref_cavity_add_tet(ref_cavity, (REF_INT)c));
    } else if (is_op("add_tri", 2)) {
      long long c = h_i(h_w[1]);
      if (c < -1 || c > NODE_LIMIT) { fputs("bad-op\n", out); continue; }
      st_line(ref_cavity_add_tri(ref_cavity, (REF_INT)c));
    } else if (is_op("add_tet_wo", 3)) {
      long long c = h_i(h_w[1]), d = h_i(h_w[2]);
      if (c < -1 || c > NODE_LIMIT || d < -1000 || d > 1000) { fputs("bad-op\n", out); continue; }
      st_line(ref_cavity_add_tet_without_faceid(ref_cavity, (REF_INT)c, (REF_INT)d));
    } else if (is_op("insert_face", 4)) {
      REF_INT nodes[3];
      long long a = h_i(h_w[1]), b = h_i(h_w[2]), c = h_i(h_w[3]);
      if (a < 0 || b < 0 || c < 0 || a >= NODE_LIMIT || b >= NODE_LIMIT || c >= NODE_LIMIT) { fputs("bad-op\n", out); continue; }
      nodes[0] = (REF_INT)a; nodes[1] = (REF_INT)b; nodes[2] = (REF_INT)c;
      st_line(ref_cavity_insert_face(ref_cavity, nodes));
    } else if (is_op("insert_seg", 4)) {
      REF_INT nodes[3];
      long long a = h_i(h_w[1]), b = h_i(h_w[2]), c = h_i(h_w[3]);
      if (a < 0 || b < 0 || a >= NODE_LIMIT || b >= NODE_LIMIT || c < -1000 || c > 1000) { fputs("bad-op\n", out); continue; }
      nodes[0] = (REF_INT)a; nodes[1] = (REF_INT)b; nodes[2] = (REF_INT)c;
      st_line(ref_cavity_insert_seg(ref_cavity, nodes));
    } else if (is_op("enlarge_face", 2)) {
      long long i = h_i(h_w[1]);
      if (i < -1 || i > NODE_LIMIT || !cav_nodes_ok()) { fputs("bad-op\n", out); continue; }
      st_line(ref_cavity_enlarge_face(ref_cavity, (REF_INT)i));
    } else if (is_op("enlarge_seg", 2)) {
      long long i = h_i(h_w[1]);
      if (i < -1 || i > NODE_LIMIT || !cav_nodes_ok()) { fputs("bad-op\n", out); continue; }
      st_line(ref_cavity_enlarge_seg(ref_cavity, (REF_INT)i));
    } else if (is_op("visible_face", 2)) {
      long long i = h_i(h_w[1]);
      REF_BOOL visible = REF_FALSE;
      REF_STATUS s;
      /* ref_cavity_visible reads f2n[face] without a validity test */
      if (i < 0 || i > NODE_LIMIT || !ref_cavity_valid_face(ref_cavity, (REF_INT)i) || !cav_nodes_ok()) { fputs("bad-op\n", out); continue; }
      s = ref_cavity_visible(ref_cavity, (REF_INT)i, &visible);
      if (REF_SUCCESS == s)
        fprintf(out, "ok %d\n", visible ? 1 : 0);
      else
        fprintf(out, "%s\n", h_status(s));
    } else if (is_op("manifold", 1)) {
      REF_BOOL manifold = REF_FALSE;
      REF_STATUS s;
      if (!cav_nodes_ok()) { fputs("bad-op\n", out); continue; }
      s = ref_cavity_manifold(ref_cavity, &manifold);
      if (REF_SUCCESS == s)
        fprintf(out, "ok %d\n", manifold ? 1 : 0);
      else
        fprintf(out, "%s\n", h_status(s));
    } else if (is_op("enlarge_visible", 1) || is_op("enlarge_conforming", 1) || is_op("enlarge_combined", 1)) {
      if (!cav_nodes_ok()) { fputs("bad-op\n", out); continue; }
      enlarge_op('v' == op[8] ? 0 : ('o' == op[9] && 'n' == op[10] ? 1 : 2));
    } else if (is_op("verify", 1)) {
      REF_STATUS s0 = ref_cavity_verify_face_manifold(ref_cavity);
      int st0 = (int)ref_cavity_state(ref_cavity);
      REF_STATUS s1 = ref_cavity_verify_seg_manifold(ref_cavity);
      fprintf(out, "%s %d %s %d\n", h_status(s0), st0, h_status(s1), (int)ref_cavity_state(ref_cavity));
    } else if (is_op("visible", 1)) {
      if (!node_ok(ref_cavity_node(ref_cavity))) { fputs("bad-op\n", out); continue; }
      st_line(ref_cavity_check_visible(ref_cavity));
    } else if (is_op("ratio", 1)) {
      REF_BOOL allowed = REF_FALSE;
      REF_STATUS s;
      if (!cav_nodes_ok()) { fputs("bad-op\n", out); continue; }
      s = ref_cavity_ratio(ref_cavity, &allowed);
      if (REF_SUCCESS == s)
        fprintf(out, "ok %d\n", allowed ? 1 : 0);
      else
        fprintf(out, "%s\n", h_status(s));
    } else if (is_op("change", 1)) {
      REF_DBL min_del = 0.0, min_add = 0.0;
      REF_STATUS s;
      if (!cav_nodes_ok()) { fputs("bad-op\n", out); continue; }
      s = ref_cavity_change(ref_cavity, &min_del, &min_add);
      fprintf(out, "%s ", h_status(s));
      h_pf(out, min_del);
      fputc(' ', out);
      h_pf(out, min_add);
      fputc('\n', out);
    } else if (is_op("normdev", 1)) {
      REF_BOOL improved = REF_FALSE;
      REF_STATUS s;
      if (!cav_nodes_ok()) { fputs("bad-op\n", out); continue; }
      s = ref_cavity_normdev(ref_cavity, &improved);
      fprintf(out, "%s %d\n", h_status(s), improved ? 1 : 0);
    } else if (is_op("replace", 1)) {
      st_line(ref_cavity_replace(ref_cavity));
    } else if (is_op("ledger", 1)) {
      fprintf(out, "ok %d %d %d\n", ledger_ok(), cert_ok(), seg_ids_ok());
    } else if (is_op("node23", 3)) {
      long long a = h_i(h_w[1]), b = h_i(h_w[2]);
      REF_INT node2 = REF_EMPTY, node3 = REF_EMPTY;
      REF_STATUS s;
      if (a < 0 || b < 0 || a >= NODE_LIMIT || b >= NODE_LIMIT || a == b) { fputs("bad-op\n", out); continue; }
      s = ref_swap_node23(ref_grid, (REF_INT)a, (REF_INT)b, &node2, &node3);
      fprintf(out, "%s %d %d\n", h_status(s), node2, node3);
    } else if (is_op("dump", 1)) {
      cav_dump();
    } else if (is_op("grid", 1)) {
      grid_dump();
    } else {
      fputs("bad-op\n", out);
    }
  }
  fflush(out);
  if (scratch[0]) { /* the .tec files of the library's error handlers */
    DIR *d = opendir(".");
    struct dirent *e;
    if (d) {
      while (NULL != (e = readdir(d)))
        if ('.' != e->d_name[0]) remove(e->d_name);
      closedir(d);
    }
    if (0 == chdir("..")) rmdir(scratch);
  }
  return 0;
}
