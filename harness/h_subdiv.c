/* harness `subdiv` (C13/C04): the real ref_subdiv.c (white-box include: static ref_subdiv_map,
   ref_subdiv_unmark_neg_tet_geom_support, ref_subdiv_new_node, ref_subdiv_split_tet/_tri/_edg) on small tet/tri/edg
   grids built in-process, serial.  One output line per op on `out`; the library's printf diagnostics go to /dev/null.

   ops (every op is safe in every state; anything else prints `bad-op`):
     reset                         -> ok                     new empty grid
     node g x y z                  -> node <local>           vertex with global id g (g fresh, 0 <= g < 1e6), hex doubles
     tet a b c d | tri a b c id | edg a b id -> ok           (valid, pairwise distinct vertices; before `begin`)
     begin                         -> edges n0-n1 ...        ref_subdiv_create; the ref_edge table in index order
     mark a b                      -> ok | not_found         ref_subdiv_mark_to_split
     markall                       -> marks ...              ref_subdiv_mark_all
     relax                         -> marks ...              ref_subdiv_mark_relax
     unrelax                       -> <status> marks ...     ref_subdiv_unmark_relax
     unmark_tet c                  -> again <0|1> marks ...  ref_subdiv_unmark_tet on one cell
     negcheck                      -> again <0|1> marks ...  ref_subdiv_new_node + one ref_subdiv_unmark_neg_tet_geom_support
     tmap c | fmap c | emap c      -> tetmap<k> | trimap<k> | edgmap<k>   mark pattern of one tet / tri / edg
     split ag nm                   -> split <status> [| marks ... | tet ... | tri ... | qua ... | edg ... | new ...]
                                      ref_subdiv_split with allow_geometry = ag, new_mark_allowed = nm
     rawsplit                      -> same line shape: new_node, split_tet, split_tri, split_edg without any relaxation
                                      (harness guard: every tet carries a supported pattern)
   vertices in dumps: original vertex n -> n ; the new vertex of edge (a,b), a<b -> 1000000 + 1000*a + b.
   rows are sorted lexicographically on these codes.  After split/rawsplit the session only accepts `reset`. */
#include <unistd.h>

#include "h_proto.h"
#include "ref_subdiv.c" /* white box */

#include "ref_grid.h"
#include "ref_node.h"

static FILE *out;
static REF_MPI ref_mpi;
static REF_GRID ref_grid;
static REF_SUBDIV ref_subdiv;
static int done_split;
static long long max_global;

#define NODE_LIMIT 1000
#define CODE_BASE 1000000

static int is_op(const char *op, int nw) { return 0 == strcmp(h_w[0], op) && h_nw == nw; }

static void reset(void) {
  if (ref_subdiv) ref_subdiv_free(ref_subdiv);
  ref_subdiv = NULL;
  if (ref_grid) ref_grid_free(ref_grid);
  ref_grid = NULL;
  if (REF_SUCCESS != ref_grid_create(&ref_grid, ref_mpi)) exit(3);
  done_split = 0;
  max_global = -1;
}

static int is_int(const char *s) {
  if (*s == '-') s++;
  if (!*s) return 0;
  if (strlen(s) > 9) return 0;
  for (; *s; s++)
    if (*s < '0' || *s > '9') return 0;
  return 1;
}
static int all_ints(int from, int n) {
  int i;
  for (i = 0; i < n; i++)
    if (!is_int(h_w[from + i])) return 0;
  return 1;
}
static int is_hex16(const char *s) {
  int i;
  if (strlen(s) != 16) return 0;
  for (i = 0; i < 16; i++)
    if (!((s[i] >= '0' && s[i] <= '9') || (s[i] >= 'a' && s[i] <= 'f'))) return 0;
  return 1;
}

static int node_ok(long long v) {
  return v >= 0 && v < NODE_LIMIT && ref_node_valid(ref_grid_node(ref_grid), (REF_INT)v);
}

static int cell_ok(int np) {
  int i, j;
  for (i = 0; i < np; i++) {
    long long v = h_i(h_w[1 + i]);
    if (!node_ok(v)) return 0;
    for (j = 0; j < i; j++)
      if (v == h_i(h_w[1 + j])) return 0;
  }
  return 1;
}

static void add_cell(REF_CELL ref_cell, int np) {
  REF_INT nodes[REF_CELL_MAX_SIZE_PER], k, new_cell;
  if (ref_subdiv || done_split || !cell_ok(np)) {
    fprintf(out, "bad-op\n");
    return;
  }
  for (k = 0; k < ref_cell_size_per(ref_cell); k++) nodes[k] = (REF_INT)h_i(h_w[1 + k]);
  fprintf(out, "%s\n", h_status(ref_cell_add(ref_cell, nodes, &new_cell)));
}

static void print_marks(void) {
  REF_INT edge;
  fprintf(out, "marks");
  for (edge = 0; edge < ref_edge_n(ref_subdiv_edge(ref_subdiv)); edge++)
    fprintf(out, " %d", ref_subdiv_mark(ref_subdiv, edge));
}

/* ---------- canonical dumps ---------- */
static int row_len;
static int row_cmp(const void *a, const void *b) {
  const long long *x = (const long long *)a, *y = (const long long *)b;
  int i;
  for (i = 0; i < row_len; i++) {
    if (x[i] < y[i]) return -1;
    if (x[i] > y[i]) return 1;
  }
  return 0;
}

static long long *code; /* per node slot */
static int ncode;

static void build_codes(void) {
  REF_NODE ref_node = ref_grid_node(ref_grid);
  REF_EDGE ref_edge = ref_subdiv_edge(ref_subdiv);
  REF_INT node, edge;
  ncode = ref_node_max(ref_node);
  code = (long long *)malloc(sizeof(long long) * (size_t)(ncode + 1));
  for (node = 0; node < ncode; node++) code[node] = node;
  for (edge = 0; edge < ref_edge_n(ref_edge); edge++) {
    node = ref_subdiv_node(ref_subdiv, edge);
    if (REF_EMPTY != node && node >= 0 && node < ncode) {
      long long a = ref_edge_e2n(ref_edge, 0, edge), b = ref_edge_e2n(ref_edge, 1, edge);
      code[node] = CODE_BASE + 1000 * (a < b ? a : b) + (a < b ? b : a);
    }
  }
}

static void print_group(const char *name, REF_CELL ref_cell) {
  REF_INT cell, nodes[REF_CELL_MAX_SIZE_PER], n = 0, k, i, len = ref_cell_size_per(ref_cell),
                                                         np = ref_cell_node_per(ref_cell);
  long long *rows = (long long *)malloc(sizeof(long long) * (size_t)len * (size_t)(ref_cell_n(ref_cell) + 1));
  each_ref_cell_valid_cell_with_nodes(ref_cell, cell, nodes) {
    for (k = 0; k < len; k++)
      rows[k + len * n] = (k < np && nodes[k] >= 0 && nodes[k] < ncode) ? code[nodes[k]] : nodes[k];
    n++;
  }
  row_len = len;
  qsort(rows, (size_t)n, sizeof(long long) * (size_t)len, row_cmp);
  fprintf(out, " | %s", name);
  for (i = 0; i < n; i++) {
    fputc(' ', out);
    for (k = 0; k < len; k++) fprintf(out, "%s%lld", k ? "," : "", rows[k + len * i]);
  }
  free(rows);
}

static void dump_after_split(void) {
  REF_NODE ref_node = ref_grid_node(ref_grid);
  REF_EDGE ref_edge = ref_subdiv_edge(ref_subdiv);
  REF_INT edge, node, n = 0, i;
  long long *rows;
  fprintf(out, " | ");
  print_marks();
  build_codes();
  print_group("tet", ref_grid_tet(ref_grid));
  print_group("tri", ref_grid_tri(ref_grid));
  print_group("qua", ref_grid_qua(ref_grid));
  print_group("edg", ref_grid_edg(ref_grid));
  /* new vertices: code and coordinates, sorted by code */
  rows = (long long *)malloc(sizeof(long long) * 2 * (size_t)(ref_edge_n(ref_edge) + 1));
  for (edge = 0; edge < ref_edge_n(ref_edge); edge++) {
    node = ref_subdiv_node(ref_subdiv, edge);
    if (REF_EMPTY != node && ref_node_valid(ref_node, node)) {
      rows[2 * n] = code[node];
      rows[2 * n + 1] = node;
      n++;
    }
  }
  row_len = 2;
  qsort(rows, (size_t)n, sizeof(long long) * 2, row_cmp);
  fprintf(out, " | new");
  for (i = 0; i < n; i++) {
    node = (REF_INT)rows[2 * i + 1];
    fprintf(out, " %lld:", rows[2 * i]);
    h_pf(out, ref_node_xyz(ref_node, 0, node));
    fputc(':', out);
    h_pf(out, ref_node_xyz(ref_node, 1, node));
    fputc(':', out);
    h_pf(out, ref_node_xyz(ref_node, 2, node));
  }
  free(rows);
  free(code);
  code = NULL;
}

static int supported_tet_map(int map) {
  switch (map) {
    case 0: case 1: case 2: case 4: case 8: case 16: case 32: case 11: case 56: case 38: case 21: case 63:
      return 1;
    default:
      return 0;
  }
}

static int every_node_in_a_tet(void) {
  REF_NODE ref_node = ref_grid_node(ref_grid);
  REF_INT node;
  each_ref_node_valid_node(ref_node, node) {
    if (ref_adj_empty(ref_cell_adj(ref_grid_tet(ref_grid)), node)) return 0;
  }
  return 1;
}

static void finish_split(const char *name, REF_STATUS s) {
  fprintf(out, "%s %s", name, h_status(s));
  if (REF_SUCCESS == s) dump_after_split();
  fprintf(out, "\n");
  done_split = 1;
}

static void loop(void) {
  while (h_next(stdin)) {
    REF_NODE ref_node = ref_grid_node(ref_grid);
    if (is_op("reset", 1)) {
      reset();
      fprintf(out, "ok\n");
    } else if (done_split) {
      fprintf(out, "bad-op\n");
    } else if (is_op("node", 5) && all_ints(1, 1) && is_hex16(h_w[2]) && is_hex16(h_w[3]) && is_hex16(h_w[4])) {
      REF_INT node, existing;
      long long g = h_i(h_w[1]);
      REF_STATUS s;
      if (ref_subdiv || g < 0 || g >= 1000000 || ref_node_n(ref_node) >= NODE_LIMIT ||
          REF_SUCCESS == ref_node_local(ref_node, (REF_GLOB)g, &existing)) {
        fprintf(out, "bad-op\n");
        continue;
      }
      s = ref_node_add(ref_node, (REF_GLOB)g, &node);
      if (REF_SUCCESS != s) {
        fprintf(out, "%s\n", h_status(s));
        continue;
      }
      if (g > max_global) max_global = g;
      ref_node_xyz(ref_node, 0, node) = h_f(h_w[2]);
      ref_node_xyz(ref_node, 1, node) = h_f(h_w[3]);
      ref_node_xyz(ref_node, 2, node) = h_f(h_w[4]);
      ref_node_metric_form(ref_node, node, 1, 0, 0, 1, 0, 1);
      fprintf(out, "node %d\n", node);
    } else if (is_op("tet", 5) && all_ints(1, 4)) {
      add_cell(ref_grid_tet(ref_grid), 4);
    } else if (is_op("tri", 5) && all_ints(1, 4)) {
      add_cell(ref_grid_tri(ref_grid), 3);
    } else if (is_op("edg", 4) && all_ints(1, 3)) {
      add_cell(ref_grid_edg(ref_grid), 2);
    } else if (is_op("begin", 1)) {
      REF_INT edge;
      if (ref_subdiv) {
        fprintf(out, "bad-op\n");
        continue;
      }
      ref_node_initialize_n_global(ref_node, (REF_GLOB)(max_global + 1));
      if (REF_SUCCESS != ref_subdiv_create(&ref_subdiv, ref_grid)) exit(3);
      fprintf(out, "edges");
      for (edge = 0; edge < ref_edge_n(ref_subdiv_edge(ref_subdiv)); edge++)
        fprintf(out, " %d-%d", ref_edge_e2n(ref_subdiv_edge(ref_subdiv), 0, edge),
                ref_edge_e2n(ref_subdiv_edge(ref_subdiv), 1, edge));
      fprintf(out, "\n");
    } else if (!ref_subdiv) {
      fprintf(out, "bad-op\n");
    } else if (is_op("mark", 3) && all_ints(1, 2)) {
      long long a = h_i(h_w[1]), b = h_i(h_w[2]);
      if (a < 0 || a >= NODE_LIMIT || b < 0 || b >= NODE_LIMIT) {
        fprintf(out, "bad-op\n");
        continue;
      }
      fprintf(out, "%s\n", h_status(ref_subdiv_mark_to_split(ref_subdiv, (REF_INT)a, (REF_INT)b)));
    } else if (is_op("markall", 1)) {
      ref_subdiv_mark_all(ref_subdiv);
      print_marks();
      fprintf(out, "\n");
    } else if (is_op("relax", 1)) {
      REF_STATUS s = ref_subdiv_mark_relax(ref_subdiv);
      if (REF_SUCCESS != s) fprintf(out, "%s ", h_status(s));
      print_marks();
      fprintf(out, "\n");
    } else if (is_op("unrelax", 1)) {
      REF_STATUS s = ref_subdiv_unmark_relax(ref_subdiv);
      fprintf(out, "%s ", h_status(s));
      print_marks();
      fprintf(out, "\n");
    } else if (is_op("unmark_tet", 2) && all_ints(1, 1)) {
      long long c = h_i(h_w[1]);
      REF_BOOL again = REF_FALSE;
      if (c < 0 || c >= 100000 || !ref_cell_valid(ref_grid_tet(ref_grid), (REF_INT)c)) {
        fprintf(out, "bad-op\n");
        continue;
      }
      if (REF_SUCCESS != ref_subdiv_unmark_tet(ref_subdiv, (REF_INT)c, &again)) {
        fprintf(out, "failed\n");
        continue;
      }
      fprintf(out, "again %d ", again ? 1 : 0);
      print_marks();
      fprintf(out, "\n");
    } else if (is_op("negcheck", 1)) {
      REF_BOOL again = REF_FALSE;
      REF_STATUS s = ref_subdiv_new_node(ref_subdiv);
      if (REF_SUCCESS == s) s = ref_subdiv_unmark_neg_tet_geom_support(ref_subdiv, &again);
      if (REF_SUCCESS != s) {
        fprintf(out, "%s\n", h_status(s));
        continue;
      }
      fprintf(out, "again %d ", again ? 1 : 0);
      print_marks();
      fprintf(out, "\n");
    } else if ((is_op("tmap", 2) || is_op("fmap", 2) || is_op("emap", 2)) && all_ints(1, 1)) {
      long long c = h_i(h_w[1]);
      REF_CELL ref_cell = h_w[0][0] == 't'   ? ref_grid_tet(ref_grid)
                          : h_w[0][0] == 'f' ? ref_grid_tri(ref_grid)
                                             : ref_grid_edg(ref_grid);
      REF_INT nodes[REF_CELL_MAX_SIZE_PER], e, k, map = 0, bit = 1;
      static const int tri_e[3][2] = {{0, 1}, {1, 2}, {2, 0}}; /* the order ref_subdiv_split_tri reads them */
      if (c < 0 || c >= 100000 || !ref_cell_valid(ref_cell, (REF_INT)c)) {
        fprintf(out, "bad-op\n");
        continue;
      }
      if (h_w[0][0] == 't') {
        fprintf(out, "tetmap%d\n", ref_subdiv_map(ref_subdiv, ref_cell, (REF_INT)c));
        continue;
      }
      ref_cell_nodes(ref_cell, (REF_INT)c, nodes);
      for (k = 0; k < (h_w[0][0] == 'f' ? 3 : 1); k++) {
        if (REF_SUCCESS == ref_edge_with(ref_subdiv_edge(ref_subdiv), nodes[tri_e[k][0]], nodes[tri_e[k][1]], &e))
          map += bit * ref_subdiv_mark(ref_subdiv, e);
        else
          map += 100;
        bit *= 2;
      }
      fprintf(out, "%smap%d\n", h_w[0][0] == 'f' ? "tri" : "edg", map);
    } else if (is_op("split", 3) && all_ints(1, 2)) {
      REF_STATUS s;
      ref_subdiv->allow_geometry = (0 != h_i(h_w[1]));
      ref_subdiv->new_mark_allowed = (0 != h_i(h_w[2]));
      s = ref_subdiv_split(ref_subdiv);
      finish_split("split", s);
    } else if (is_op("rawsplit", 1)) {
      REF_STATUS s;
      REF_INT cell;
      int ok = 1;
      each_ref_cell_valid_cell(ref_grid_tet(ref_grid), cell) {
        if (!supported_tet_map(ref_subdiv_map(ref_subdiv, ref_grid_tet(ref_grid), cell))) ok = 0;
      }
      if (!ok) {
        fprintf(out, "bad-op\n");
        continue;
      }
      s = ref_subdiv_new_node(ref_subdiv);
      if (REF_SUCCESS == s) s = ref_subdiv_split_tet(ref_subdiv);
      if (REF_SUCCESS == s) s = ref_subdiv_split_tri(ref_subdiv);
      if (REF_SUCCESS == s) s = ref_subdiv_split_edg(ref_subdiv);
      if (REF_SUCCESS == s && !every_node_in_a_tet()) s = REF_FAILURE; /* same verdict as the sweep in ref_subdiv_split */
      finish_split("rawsplit", s);
    } else {
      fprintf(out, "bad-op\n");
    }
  }
}

int main(void) {
  out = fdopen(dup(1), "w");
  if (!out || !freopen("/dev/null", "w", stdout)) return 3;
  if (REF_SUCCESS != ref_mpi_create(&ref_mpi)) return 3;
  reset();
  loop();
  fflush(out);
  return 0;
}
