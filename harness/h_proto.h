/* line protocol helpers shared by the C harnesses (DESIGN.md 3.4) */
#ifndef H_PROTO_H
#define H_PROTO_H
#include <stdint.h>
#include <stdio.h>
#include <stdlib.h>
#include <string.h>
#include <math.h>

#define H_MAXW 65536
static char h_line[1 << 22];
static char *h_w[H_MAXW];
static int h_nw;

/* reads next non-comment line into h_w[0..h_nw); returns 0 at EOF */
static int h_next(FILE *f) {
  for (;;) {
    char *p;
    if (!fgets(h_line, sizeof(h_line), f)) return 0;
    p = h_line;
    while (*p == ' ' || *p == '\t') p++;
    if (*p == '#' || *p == '\n' || *p == '\r' || *p == 0) continue;
    h_nw = 0;
    for (p = strtok(p, " \t\r\n"); p && h_nw < H_MAXW; p = strtok(NULL, " \t\r\n")) h_w[h_nw++] = p;
    if (h_nw == 0) continue;
    return 1;
  }
}

static double h_f(const char *s) { /* 16 hex digits -> double */
  uint64_t u = strtoull(s, NULL, 16);
  double d;
  memcpy(&d, &u, 8);
  return d;
}
static void h_pf(FILE *o, double d) { /* canonical: NaN -> "nan" */
  uint64_t u;
  if (d != d) { fputs("nan", o); return; }
  memcpy(&u, &d, 8);
  fprintf(o, "%016llx", (unsigned long long)u);
}
static long long h_i(const char *s) { return strtoll(s, NULL, 10); }

static const char *h_status(int s) {
  switch (s) {
    case 0: return "ok";
    case 1: return "failure";
    case 2: return "null";
    case 3: return "invalid";
    case 4: return "div_zero";
    case 5: return "not_found";
    case 6: return "implement";
    case 7: return "increase_limit";
    case 8: return "ill_conditioned";
    default: return "status?";
  }
}
#endif
