/* harness `reconpar` (MPI): the parallel paths of ref_recon.c on an explicitly distributed mesh.
 *
 * Only rank 0 reads the op lines (stdin, or the file named by `--ops <file>`: mpiexec's stdin forwarding is unreliable
 * for large inputs); every op line is broadcast.  One op line carries the GLOBAL mesh data
 * (coordinates and field per global vertex, owner of every global vertex) and, per rank, what that rank stores:
 *
 *   <op> np twod nn tag <3*nn xyz> <ns field> <nn part> | <rank 0> | <rank 1> | ...
 *   (`tag` is one word describing the field for the Python oracle; it is ignored here)
 *   rank group:  nl g_0 .. g_{nl-1}  nc (kind n_0 .. n_{k-1})*nc  ne (a b)*ne
 *
 *   ns = nn (scalar field) for l2grad l2hess l2hess1 signed_hess kx_grad kx_hess cloud1, 6*nn (symmetric tensors) for
 *   roundoff.  Doubles are 16 hex digits.  Local vertex i of a rank has global id g_i (distinct, < nn); cells use
 *   LOCAL indices; kinds tet pyr pri hex (3-D volume), tri qua (2-D cells, or boundary faces of a 3-D grid, id 1);
 *   `ne` boundary segments (2-D only, id 1).  Every rank builds exactly that REF_GRID (ref_node_add in the given
 *   order, ref_node_part from the part array, ref_cell_add in the given order) and calls the real function:
 *
 *   l2grad       ref_recon_l2_projection_grad
 *   l2hess       ref_recon_l2_projection_hessian (static, white-box)
 *   signed_hess  ref_recon_signed_hessian(REF_RECON_L2PROJECTION)   (mask, orphan filter, ref_recon_extrapolate_zeroth)
 *   kx_grad      ref_recon_gradient(REF_RECON_KEXACT)
 *   kx_hess      ref_recon_signed_hessian(REF_RECON_KEXACT)
 *   cloud1       ref_recon_local_immediate_cloud (static) + ref_recon_ghost_cloud: the one-layer cloud of every stored vertex
 *   roundoff     ref_recon_roundoff_limit
 *   extrap       ref_recon_extrapolate_zeroth(ldim 6) of a tensor field (ns = 6*nn) with the replace mask given by the tag
 *                word `m<nn characters 0|1>` (the same flag for the six components of a vertex): thick masked regions
 *                need several passes
 *
 * output (one line): `<status of rank 0> | <rank 0 values> | <rank 1 values> | ...` — every STORED vertex of every
 * rank in local order (owned and ghost), so that a stale ghost is visible.  cloud1 prints per vertex
 * `n (global x y z s)*n`.  A rank whose status differs from rank 0's makes the line `status-mismatch ...`.
 * refine prints diagnostics on stdout: stdout is redirected to /dev/null, protocol lines go to a dup.
 */
#include "h_proto.h"
#include <signal.h>
#include <unistd.h>

#include "ref_recon.c"
/* */
#include "ref_cell.h"
#include "ref_cloud.h"
#include "ref_grid.h"
#include "ref_malloc.h"
#include "ref_mpi.h"
#include "ref_node.h"

#ifndef HAVE_MPI
#error "h_reconpar.c is an MPI harness: build with mpicc -DHAVE_MPI"
#endif
#include "mpi.h"

static FILE *out;
static int me, np;
static REF_MPI ref_mpi;

/* ---- result string ---- */
static char *res;
static size_t res_n, res_cap;
static void r_reset(void) {
  if (!res) { res_cap = 256; res = (char *)malloc(res_cap); }
  res_n = 0;
  res[0] = 0;
}
static void r_raw(const char *s) {
  size_t l = strlen(s);
  if (res_n + l + 2 > res_cap) {
    res_cap = 2 * (res_n + l + 2) + 64;
    res = (char *)realloc(res, res_cap);
  }
  memcpy(res + res_n, s, l + 1);
  res_n += l;
}
static void r_put(const char *s) {
  if (res_n > 0) r_raw(" ");
  r_raw(s);
}
static void r_ll(long long v) { char b[32]; snprintf(b, sizeof b, "%lld", v); r_put(b); }
static void r_dbl(double d) {
  char b[32];
  uint64_t u;
  if (d != d) { r_put("nan"); return; }
  memcpy(&u, &d, 8);
  snprintf(b, sizeof b, "%016llx", (unsigned long long)u);
  r_put(b);
}

static int is_nat_tok(const char *s) {
  if (!*s || strlen(s) > 8) return 0;
  for (; *s; s++) if (*s < '0' || *s > '9') return 0;
  return 1;
}
static int is_hex16(const char *s) {
  int i;
  for (i = 0; s[i]; i++)
    if (!((s[i] >= '0' && s[i] <= '9') || (s[i] >= 'a' && s[i] <= 'f') || (s[i] >= 'A' && s[i] <= 'F'))) return 0;
  return i == 16;
}

static void on_alarm(int sig) {
  (void)sig;
  _exit(97);
}

static int kind_of(const char *s, int *size, int *twod) {
  if (0 == strcmp(s, "tri")) { *size = 3; *twod = 1; return REF_CELL_TRI; }
  if (0 == strcmp(s, "qua")) { *size = 4; *twod = 1; return REF_CELL_QUA; }
  if (0 == strcmp(s, "tet")) { *size = 4; *twod = 0; return REF_CELL_TET; }
  if (0 == strcmp(s, "pyr")) { *size = 5; *twod = 0; return REF_CELL_PYR; }
  if (0 == strcmp(s, "pri")) { *size = 6; *twod = 0; return REF_CELL_PRI; }
  if (0 == strcmp(s, "hex")) { *size = 8; *twod = 0; return REF_CELL_HEX; }
  return -1;
}

#define MAXNN 4000
#define MAXRANK 64

/* parsed op */
static long long twod, nn, ns;
static int w_xyz, w_fld, w_part;       /* word offsets */
static int g_lo[MAXRANK], g_hi[MAXRANK]; /* word ranges of the rank groups */

/* validate one rank group; returns 1 when well formed */
static int check_group(int lo, int hi) {
  int k = lo, i, j;
  long long nl, nc, ne;
  static char seen[MAXNN];
  if (k >= hi || !is_nat_tok(h_w[k])) return 0;
  nl = h_i(h_w[k++]);
  if (nl > nn || hi - k < nl) return 0;
  memset(seen, 0, sizeof seen);
  for (i = 0; i < nl; i++) {
    long long g;
    if (!is_nat_tok(h_w[k + i])) return 0;
    g = h_i(h_w[k + i]);
    if (g >= nn || seen[g]) return 0;
    seen[g] = 1;
  }
  k += (int)nl;
  if (k >= hi || !is_nat_tok(h_w[k])) return 0;
  nc = h_i(h_w[k++]);
  for (i = 0; i < nc; i++) {
    int size, td, kind;
    if (k >= hi) return 0;
    kind = kind_of(h_w[k], &size, &td);
    if (kind < 0 || (twod && !td) || hi - (k + 1) < size) return 0;
    for (j = 0; j < size; j++) {
      int j2;
      if (!is_nat_tok(h_w[k + 1 + j]) || h_i(h_w[k + 1 + j]) >= nl) return 0;
      for (j2 = 0; j2 < j; j2++)
        if (h_i(h_w[k + 1 + j2]) == h_i(h_w[k + 1 + j])) return 0;
    }
    k += 1 + size;
  }
  if (k >= hi || !is_nat_tok(h_w[k])) return 0;
  ne = h_i(h_w[k++]);
  if (ne > 0 && !twod) return 0;
  if (hi - k != 2 * ne) return 0;
  for (i = 0; i < 2 * ne; i++)
    if (!is_nat_tok(h_w[k + i]) || h_i(h_w[k + i]) >= nl) return 0;
  for (i = 0; i < ne; i++)
    if (h_i(h_w[k + 2 * i]) == h_i(h_w[k + 2 * i + 1])) return 0;
  return 1;
}

/* the tag of `extrap`: m followed by nn characters 0|1 */
static int mask_ok(const char *t) {
  long long i;
  if ('m' != t[0] || (long long)strlen(t) != nn + 1) return 0;
  for (i = 0; i < nn; i++)
    if (t[1 + i] != '0' && t[1 + i] != '1') return 0;
  return 1;
}

/* parse + validate the whole line (every rank does the same); `tensor`: the field has 6 values per vertex */
static int parse_op(int tensor) {
  int i, ng = 0, k;
  if (h_nw < 6 || !is_nat_tok(h_w[1]) || !is_nat_tok(h_w[2]) || !is_nat_tok(h_w[3])) return 0;
  if (0 == strcmp(h_w[4], "|")) return 0;
  if (h_i(h_w[1]) != np || np > MAXRANK) return 0;
  twod = h_i(h_w[2]);
  nn = h_i(h_w[3]);
  if (twod > 1 || nn == 0 || nn > MAXNN) return 0;
  ns = tensor ? 6 * nn : nn;
  w_xyz = 5;
  w_fld = w_xyz + 3 * (int)nn;
  w_part = w_fld + (int)ns;
  k = w_part + (int)nn;
  if (h_nw < k) return 0;
  for (i = w_xyz; i < w_part; i++) if (!is_hex16(h_w[i])) return 0;
  for (i = w_part; i < k; i++) if (!is_nat_tok(h_w[i]) || h_i(h_w[i]) >= np) return 0;
  for (i = k; i < h_nw; i++) {
    if (0 == strcmp(h_w[i], "|")) {
      if (ng > 0) g_hi[ng - 1] = i;
      if (ng >= MAXRANK) return 0;
      g_lo[ng] = i + 1;
      g_hi[ng] = h_nw;
      ng++;
    } else if (0 == ng) {
      return 0;
    }
  }
  if (ng != np) return 0;
  for (i = 0; i < np; i++)
    if (!check_group(g_lo[i], g_hi[i])) return 0;
  return 1;
}

/* build this rank's grid; `fld` gets ns/nn values per local vertex */
static int build_grid(REF_GRID *grid_ptr, REF_DBL **fld_ptr, int *nl_ptr) {
  REF_GRID ref_grid;
  REF_NODE ref_node;
  int k = g_lo[me], i, c, per = (int)(ns / nn);
  long long nl, nc, ne;
  REF_DBL *fld;
  if (REF_SUCCESS != ref_grid_create(&ref_grid, ref_mpi)) return 0;
  ref_grid_twod(ref_grid) = (REF_BOOL)twod;
  ref_node = ref_grid_node(ref_grid);
  nl = h_i(h_w[k++]);
  fld = (REF_DBL *)calloc((size_t)(per * (nl + 1)), sizeof(REF_DBL));
  for (i = 0; i < nl; i++) {
    REF_INT node;
    long long g = h_i(h_w[k + i]);
    if (REF_SUCCESS != ref_node_add(ref_node, (REF_GLOB)g, &node) || node != i) return 0;
    for (c = 0; c < 3; c++) ref_node_xyz(ref_node, c, node) = h_f(h_w[w_xyz + 3 * g + c]);
    for (c = 3; c < REF_NODE_REAL_PER; c++) ref_node_real(ref_node, c, node) = 0.0;
    ref_node_part(ref_node, node) = (REF_INT)h_i(h_w[w_part + g]);
    for (c = 0; c < per; c++) fld[c + per * i] = h_f(h_w[w_fld + per * g + c]);
  }
  if (REF_SUCCESS != ref_node_initialize_n_global(ref_node, (REF_GLOB)nn)) return 0;
  k += (int)nl;
  nc = h_i(h_w[k++]);
  for (i = 0; i < nc; i++) {
    int size, td, kind = kind_of(h_w[k], &size, &td), j;
    REF_INT nodes[REF_CELL_MAX_SIZE_PER], cell;
    for (j = 0; j < size; j++) nodes[j] = (REF_INT)h_i(h_w[k + 1 + j]);
    if (td) nodes[size] = 1; /* face id */
    if (REF_SUCCESS != ref_cell_add(ref_grid_cell(ref_grid, kind), nodes, &cell)) return 0;
    k += 1 + size;
  }
  ne = h_i(h_w[k++]);
  for (i = 0; i < ne; i++) {
    REF_INT nodes[REF_CELL_MAX_SIZE_PER], cell;
    nodes[0] = (REF_INT)h_i(h_w[k + 2 * i]);
    nodes[1] = (REF_INT)h_i(h_w[k + 2 * i + 1]);
    nodes[2] = 1;
    if (REF_SUCCESS != ref_cell_add(ref_grid_edg(ref_grid), nodes, &cell)) return 0;
  }
  *grid_ptr = ref_grid;
  *fld_ptr = fld;
  *nl_ptr = (int)nl;
  return 1;
}

/* gather the per-rank strings and statuses on rank 0 and print the line */
static void gather_print(int st) {
  int mylen = (int)res_n, *lens = NULL, *offs = NULL, *sts = NULL, i;
  char *all = NULL;
  if (0 == me) {
    lens = (int *)calloc((size_t)np + 1, sizeof(int));
    offs = (int *)calloc((size_t)np + 1, sizeof(int));
    sts = (int *)calloc((size_t)np + 1, sizeof(int));
  }
  MPI_Gather(&st, 1, MPI_INT, sts, 1, MPI_INT, 0, MPI_COMM_WORLD);
  MPI_Gather(&mylen, 1, MPI_INT, lens, 1, MPI_INT, 0, MPI_COMM_WORLD);
  if (0 == me) {
    int tot = 0;
    for (i = 0; i < np; i++) { offs[i] = tot; tot += lens[i]; }
    all = (char *)calloc((size_t)tot + 1, 1);
  }
  MPI_Gatherv(res, mylen, MPI_CHAR, all, lens, offs, MPI_CHAR, 0, MPI_COMM_WORLD);
  if (0 == me) {
    int same = 1;
    for (i = 1; i < np; i++) if (sts[i] != sts[0]) same = 0;
    if (!same) {
      fputs("status-mismatch", out);
      for (i = 0; i < np; i++) fprintf(out, " %s", h_status(sts[i]));
      fputc('\n', out);
    } else {
      fputs(h_status(sts[0]), out);
      for (i = 0; i < np; i++) {
        fputs(" |", out);
        if (lens[i] > 0) fputc(' ', out);
        fwrite(all + offs[i], 1, (size_t)lens[i], out);
      }
      fputc('\n', out);
    }
    fflush(out);
    free(all);
    free(lens);
    free(offs);
    free(sts);
  }
}

static int op_cloud1(REF_GRID ref_grid, REF_DBL *scalar, int nl) {
  REF_NODE ref_node = ref_grid_node(ref_grid);
  REF_CELL ref_cell = ref_grid_twod(ref_grid) ? ref_grid_tri(ref_grid) : ref_grid_tet(ref_grid);
  REF_CLOUD *one_layer;
  REF_INT node, item, i;
  int st;
  one_layer = (REF_CLOUD *)calloc((size_t)ref_node_max(ref_node) + 1, sizeof(REF_CLOUD));
  each_ref_node_valid_node(ref_node, node) {
    if (REF_SUCCESS != ref_cloud_create(&(one_layer[node]), 4)) return REF_FAILURE;
  }
  st = ref_recon_local_immediate_cloud(one_layer, ref_node, ref_cell, scalar);
  if (REF_SUCCESS == st) st = ref_recon_ghost_cloud(one_layer, ref_node);
  if (REF_SUCCESS == st) {
    for (node = 0; node < nl; node++) {
      r_ll(ref_cloud_n(one_layer[node]));
      each_ref_cloud_item(one_layer[node], item) {
        r_ll((long long)ref_cloud_global(one_layer[node], item));
        for (i = 0; i < 4; i++) r_dbl(ref_cloud_aux(one_layer[node], i, item));
      }
    }
  }
  each_ref_node_valid_node(ref_node, node) ref_cloud_free(one_layer[node]);
  free(one_layer);
  return st;
}

int main(int argc, char *argv[]) {
  int fd;
  FILE *in = stdin;
  MPI_Init(&argc, &argv);
  if (REF_SUCCESS != ref_mpi_create(&ref_mpi)) return 3;
  me = ref_mpi_rank(ref_mpi);
  np = ref_mpi_n(ref_mpi);
  if (argc >= 3 && 0 == strcmp(argv[1], "--ops") && 0 == me) {
    in = fopen(argv[2], "r");
    if (!in) return 4;
  }
  fd = dup(1);
  out = fdopen(fd, "w");
  if (!freopen("/dev/null", "w", stdout)) return 3;
  signal(SIGALRM, on_alarm);
  for (;;) {
    int len = -1, st = REF_SUCCESS, nl = 0, per = 0, i, tensor;
    const char *op;
    REF_GRID ref_grid = NULL;
    REF_DBL *fld = NULL, *val = NULL;
    if (0 == me) {
      for (;;) {
        char *p;
        if (!fgets(h_line, sizeof(h_line), in)) { len = -1; break; }
        p = h_line;
        while (*p == ' ' || *p == '\t') p++;
        if (*p == '#' || *p == '\n' || *p == '\r' || *p == 0) continue;
        len = (int)strlen(h_line);
        break;
      }
    }
    MPI_Bcast(&len, 1, MPI_INT, 0, MPI_COMM_WORLD);
    if (len < 0) break;
    MPI_Bcast(h_line, len + 1, MPI_CHAR, 0, MPI_COMM_WORLD);
    {
      char *p;
      h_nw = 0;
      for (p = strtok(h_line, " \t\r\n"); p && h_nw < H_MAXW; p = strtok(NULL, " \t\r\n")) h_w[h_nw++] = p;
    }
    if (h_nw == 0) continue;
    op = h_w[0];
    r_reset();
    tensor = (0 == strcmp(op, "roundoff") || 0 == strcmp(op, "extrap"));
    if (!(0 == strcmp(op, "l2grad") || 0 == strcmp(op, "l2hess") || 0 == strcmp(op, "signed_hess") ||
          0 == strcmp(op, "kx_grad") || 0 == strcmp(op, "kx_hess") || 0 == strcmp(op, "cloud1") || tensor) ||
        !parse_op(tensor) || (0 == strcmp(op, "extrap") && !mask_ok(h_w[4]))) {
      if (0 == me) { fputs("bad-op\n", out); fflush(out); }
      continue;
    }
    alarm(120);
    if (!build_grid(&ref_grid, &fld, &nl)) {
      /* cannot happen after validation; keep the ranks in step */
      st = REF_FAILURE;
      gather_print(st);
      alarm(0);
      continue;
    }
    if (0 == strcmp(op, "cloud1")) {
      st = op_cloud1(ref_grid, fld, nl);
    } else if (0 == strcmp(op, "extrap")) {
      REF_BOOL *replace = (REF_BOOL *)calloc((size_t)(6 * (nl + 1)), sizeof(REF_BOOL));
      int k0 = g_lo[me] + 1;
      per = 6;
      val = (REF_DBL *)calloc((size_t)(6 * (nl + 1)), sizeof(REF_DBL));
      for (i = 0; i < 6 * nl; i++) val[i] = fld[i];
      for (i = 0; i < 6 * nl; i++) replace[i] = ('1' == h_w[4][1 + h_i(h_w[k0 + i / 6])]) ? REF_TRUE : REF_FALSE;
      st = ref_recon_extrapolate_zeroth(ref_grid, val, replace, 6);
      free(replace);
    } else if (tensor) {
      per = 6;
      val = (REF_DBL *)calloc((size_t)(6 * (nl + 1)), sizeof(REF_DBL));
      for (i = 0; i < 6 * nl; i++) val[i] = fld[i];
      st = ref_recon_roundoff_limit(val, ref_grid);
    } else {
      per = (0 == strcmp(op, "l2grad") || 0 == strcmp(op, "kx_grad")) ? 3 : 6;
      val = (REF_DBL *)calloc((size_t)(per * (nl + 1)), sizeof(REF_DBL));
      if (0 == strcmp(op, "l2grad")) st = ref_recon_l2_projection_grad(ref_grid, fld, val);
      else if (0 == strcmp(op, "l2hess")) st = ref_recon_l2_projection_hessian(ref_grid, fld, val);
      else if (0 == strcmp(op, "signed_hess")) st = ref_recon_signed_hessian(ref_grid, fld, val, REF_RECON_L2PROJECTION);
      else if (0 == strcmp(op, "kx_grad")) st = ref_recon_gradient(ref_grid, fld, val, REF_RECON_KEXACT);
      else st = ref_recon_signed_hessian(ref_grid, fld, val, REF_RECON_KEXACT);
    }
    alarm(0);
    if (val && (REF_SUCCESS == st || REF_DIV_ZERO == st))
      for (i = 0; i < per * nl; i++) r_dbl(val[i]);
    gather_print(st);
    free(val);
    free(fld);
    ref_grid_free(ref_grid);
  }
  fclose(out);
  ref_mpi_free(ref_mpi);
  MPI_Finalize();
  return 0;
}
