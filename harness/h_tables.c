/* harness `tables`: cell-type tables and ref_part.h macros of the compiled code */
#include "h_proto.h"
#include "ref_cell.h"
#include "ref_part.h"

static const char *names[] = {"edg", "ed2", "ed3", "tri", "tr2", "tr3", "qua", "qu2",
                              "tet", "pyr", "pri", "hex", "te2", "py2", "pr2", "he2"};
static REF_CELL_TYPE types[] = {REF_CELL_EDG, REF_CELL_ED2, REF_CELL_ED3, REF_CELL_TRI, REF_CELL_TR2,
                                REF_CELL_TR3, REF_CELL_QUA, REF_CELL_QU2, REF_CELL_TET, REF_CELL_PYR,
                                REF_CELL_PRI, REF_CELL_HEX, REF_CELL_TE2, REF_CELL_PY2, REF_CELL_PR2,
                                REF_CELL_HE2};
static REF_CELL cells[16];

static REF_CELL find(const char *n) {
  int i;
  for (i = 0; i < 16; i++)
    if (0 == strcmp(n, names[i])) return cells[i];
  return NULL;
}

int main(void) {
  int i;
  for (i = 0; i < 16; i++)
    if (REF_SUCCESS != ref_cell_create(&cells[i], types[i])) return 3;
  while (h_next(stdin)) {
    const char *op = h_w[0];
    if (0 == strcmp(op, "per") && h_nw == 2) {
      REF_CELL c = find(h_w[1]);
      if (!c) { puts("bad-op"); continue; }
      printf("%d %d %d %d\n", ref_cell_node_per(c), ref_cell_edge_per(c), ref_cell_face_per(c),
             ref_cell_last_node_is_an_id(c) ? 1 : 0);
    } else if (0 == strcmp(op, "e2n") && h_nw == 4) {
      REF_CELL c = find(h_w[1]);
      long long e = h_i(h_w[2]), k = h_i(h_w[3]);
      if (!c) { puts("bad-op"); continue; }
      if (e < 0 || e >= ref_cell_edge_per(c) || k < 0 || k > 1) { puts("range"); continue; }
      printf("%d\n", ref_cell_e2n_gen(c, k, e));
    } else if (0 == strcmp(op, "f2n") && h_nw == 4) {
      REF_CELL c = find(h_w[1]);
      long long f = h_i(h_w[2]), k = h_i(h_w[3]);
      if (!c) { puts("bad-op"); continue; }
      if (f < 0 || f >= ref_cell_face_per(c) || k < 0 || k > 3) { puts("range"); continue; }
      printf("%d\n", ref_cell_f2n_gen(c, k, f));
    } else if (0 == strcmp(op, "first") && h_nw == 4) {
      REF_GLOB n = h_i(h_w[1]), p = h_i(h_w[2]), k = h_i(h_w[3]);
      printf("%lld\n", (long long)ref_part_first(n, p, k));
    } else if (0 == strcmp(op, "implicit") && h_nw == 4) {
      REF_GLOB n = h_i(h_w[1]), p = h_i(h_w[2]), g = h_i(h_w[3]);
      printf("%lld\n", (long long)ref_part_implicit(n, p, g));
    } else {
      puts("bad-op");
    }
  }
  return 0;
}
