/* harness `dist` (MPI): the distributed-mesh mechanisms of C06.
 *
 * Only rank 0 reads the op lines (stdin, or the file named by `--ops <file>`); every op line is broadcast.
 *
 * function-level ops (one output line each, compared with `refdrv dist`):
 *   sync np | old new S slot... U unused... | ...   build that ref_node state on every rank, call the real
 *                                                    ref_node_synchronize_globals, print `newN oldN nUnused T l:g ...`
 *   elimoff g... ; u...                              ref_node_eliminate_unused_offset
 *   active chunk a0 counts...                        ref_node_eliminate_active_parts
 *   cellpart g,p g,p ...                             ref_cell_part_cell_node / ref_cell_part on a one-cell grid
 *   ghost np ty ldim | g,p,v,... ... | ...           ref_node_ghost_int / _glob / _dbl
 * run-level op (`--validate` streams; several output lines, judged by `refdrv dist validate`):
 *   run np meshfile seed step...                     step = bal | adapt | pack | sync | ghost | metric:<h>:<g>
 *       ref_part_by_extension, then the real ref_migrate_to_balance / ref_adapt_pass / ref_grid_pack /
 *       ref_node_synchronize_globals; at every sync hook (ref_verif_sync_fcn) all ranks dump their state and
 *       rank 0 prints one `state <label> np | rank | rank ...` line; around ref_node_synchronize_globals one
 *       `syncpair np | pre R post | ...` line.
 * refine prints diagnostics on stdout: stdout is redirected to /dev/null, protocol lines go to a dup.
 */
#include "h_proto.h"
#include <signal.h>
#include <unistd.h>

#include "ref_adapt.h"
#include "ref_cell.h"
#include "ref_grid.h"
#include "ref_malloc.h"
#include "ref_metric.h"
#include "ref_migrate.h"
#include "ref_mpi.h"
#include "ref_node.h"
#include "ref_part.h"
#include "ref_verif.h"

#ifndef HAVE_MPI
#error "h_dist.c is an MPI harness: build with mpicc -DHAVE_MPI"
#endif
#include "mpi.h"

static FILE *out;
static int me, np;
static REF_MPI ref_mpi;

/* ---- result string ---- */
static char *res;
static size_t res_n, res_cap;
static void r_reset(void) {
  if (!res) { res_cap = 256; res = (char *)malloc(res_cap); }
  res_n = 0;
  res[0] = 0;
}
static void r_raw(const char *s) {
  size_t l = strlen(s);
  if (res_n + l + 2 > res_cap) {
    res_cap = 2 * (res_n + l + 2) + 64;
    res = (char *)realloc(res, res_cap);
  }
  memcpy(res + res_n, s, l + 1);
  res_n += l;
}
static void r_put(const char *s) {
  if (res_n > 0) r_raw(" ");
  r_raw(s);
}
static void r_ll(long long v) { char b[32]; snprintf(b, sizeof b, "%lld", v); r_put(b); }
static void r_fmt_dbl(char *b, double d) {
  uint64_t u;
  memcpy(&u, &d, 8);
  snprintf(b, 32, "%016llx", (unsigned long long)u);
}

static int is_int_tok(const char *s) {
  if (*s == '-') s++;
  if (!*s) return 0;
  for (; *s; s++) if (*s < '0' || *s > '9') return 0;
  return 1;
}
static int is_nat_tok(const char *s) {
  if (!*s || strlen(s) > 12) return 0;
  for (; *s; s++) if (*s < '0' || *s > '9') return 0;
  return 1;
}
static int is_hex16(const char *s) {
  int i;
  for (i = 0; s[i]; i++)
    if (!((s[i] >= '0' && s[i] <= '9') || (s[i] >= 'a' && s[i] <= 'f') || (s[i] >= 'A' && s[i] <= 'F'))) return 0;
  return i == 16;
}
static void *zalloc(size_t n, size_t sz) { return calloc(n + 1, sz); }

/* ---- groups ---- */
#define MAXG 64
static int g_lo[MAXG], g_hi[MAXG], ng, hdr_end;
static int split_groups(void) {
  int i;
  ng = 0;
  hdr_end = h_nw;
  for (i = 2; i < h_nw; i++) {
    if (0 == strcmp(h_w[i], "|")) {
      if (ng == 0) hdr_end = i;
      else g_hi[ng - 1] = i;
      if (ng >= MAXG) return 0;
      g_lo[ng] = i + 1;
      g_hi[ng] = h_nw;
      ng++;
    }
  }
  return 1;
}
#define GLEN(g) (g_hi[g] - g_lo[g])
#define GW(g, k) (h_w[g_lo[g] + (k)])
#define NHDR (hdr_end - 2)
#define HDR(k) (h_w[2 + (k)])

static void on_alarm(int sig) {
  (void)sig;
  _exit(97);
}

#define BAD 1
#define HANG 2
#define SERIAL 3 /* every rank computed the same line: rank 0 prints its own */
#define MULTI 4  /* the op printed its own lines */
#define LIM 1000000000LL
#define MAXSLOT 3000
#define MAXUNUSED 300000

static int in_lim(long long g) { return g >= 0 && g < LIM; }

/* `g` or `g:h`; 1 on success */
static int parse_range(const char *t, long long cap, long long *g, long long *h) {
  char a[16], b[16];
  const char *c = strchr(t, ':');
  if (!c) {
    if (!is_nat_tok(t)) return 0;
    *g = h_i(t);
    *h = *g + 1;
    return in_lim(*g);
  }
  if ((size_t)(c - t) >= sizeof a || strlen(c + 1) >= sizeof b) return 0;
  memcpy(a, t, (size_t)(c - t));
  a[c - t] = 0;
  strcpy(b, c + 1);
  if (!is_nat_tok(a) || !is_nat_tok(b)) return 0;
  *g = h_i(a);
  *h = h_i(b);
  return in_lim(*g) && in_lim(*h) && *g <= *h && (*h - *g) <= cap;
}

static int cmp_ll(const void *a, const void *b) {
  long long x = *(const long long *)a, y = *(const long long *)b;
  return (x > y) - (x < y);
}

/* ------------------------------------------------------------------ sync */
/* parse group g: slots (-1 = hole) and unused; returns 0 when malformed */
static int parse_sync_group(int g, long long *oldn, long long *newn, long long **slots_p, int *nslot_p,
                            long long **unused_p, int *nunused_p) {
  int k, nslot = 0, nun = 0, upos = -1, i;
  long long *slots, *unused, *live;
  int nlive = 0;
  *slots_p = NULL;
  *unused_p = NULL;
  if (GLEN(g) < 4 || !is_int_tok(GW(g, 0)) || !is_int_tok(GW(g, 1)) || strlen(GW(g, 0)) > 11 ||
      strlen(GW(g, 1)) > 11 || strcmp(GW(g, 2), "S"))
    return 0;
  *oldn = h_i(GW(g, 0));
  *newn = h_i(GW(g, 1));
  if (*oldn < -1 || *oldn >= LIM || *newn < -1 || *newn >= LIM) return 0;
  for (k = 3; k < GLEN(g); k++)
    if (0 == strcmp(GW(g, k), "U")) { upos = k; break; }
  if (upos < 0) return 0;
  slots = (long long *)zalloc(MAXSLOT + 1, sizeof(long long));
  unused = (long long *)zalloc(MAXUNUSED + 1, sizeof(long long));
  *slots_p = slots;
  *unused_p = unused;
  for (k = 3; k < upos; k++) {
    long long a, b, v;
    if (0 == strcmp(GW(g, k), "x")) {
      if (nslot >= MAXSLOT) return 0;
      slots[nslot++] = -1;
      continue;
    }
    if (!parse_range(GW(g, k), MAXSLOT, &a, &b)) return 0;
    for (v = a; v < b; v++) {
      if (nslot >= MAXSLOT) return 0;
      slots[nslot++] = v;
    }
  }
  for (k = upos + 1; k < GLEN(g); k++) {
    long long a, b, v;
    if (!parse_range(GW(g, k), MAXUNUSED, &a, &b)) return 0;
    for (v = a; v < b; v++) {
      if (nun >= MAXUNUSED) return 0;
      unused[nun++] = v;
    }
  }
  live = (long long *)zalloc((size_t)nslot, sizeof(long long));
  for (i = 0; i < nslot; i++)
    if (slots[i] >= 0) live[nlive++] = slots[i];
  qsort(live, (size_t)nlive, sizeof(long long), cmp_ll);
  for (i = 1; i < nlive; i++)
    if (live[i] == live[i - 1]) { free(live); return 0; }
  free(live);
  *nslot_p = nslot;
  *nunused_p = nun;
  return 1;
}

static void put_ids(REF_NODE ref_node) {
  REF_INT node;
  char b[64];
  r_ll(ref_node->new_n_global);
  r_ll(ref_node->old_n_global);
  r_ll(ref_node_n_unused(ref_node));
  r_put("T");
  for (node = 0; node < ref_node_max(ref_node); node++)
    if (ref_node->global[node] >= 0) {
      snprintf(b, sizeof b, "%d:%lld", node, (long long)ref_node->global[node]);
      r_put(b);
    }
}

static int op_sync(void) {
  int g, rc = 0, nslot = 0, nun = 0, i;
  long long oldn = 0, newn = 0, *slots = NULL, *unused = NULL;
  long long my_old = 0, my_new = 0, *my_slots = NULL, *my_unused = NULL;
  int my_nslot = 0, my_nun = 0;
  REF_NODE ref_node;
  REF_INT node;
  for (g = 0; g < np; g++) {
    if (!parse_sync_group(g, &oldn, &newn, &slots, &nslot, &unused, &nun)) rc = BAD;
    if (g == me && !rc) {
      my_old = oldn; my_new = newn; my_slots = slots; my_unused = unused; my_nslot = nslot; my_nun = nun;
    } else {
      free(slots);
      free(unused);
    }
    if (rc) break;
  }
  if (rc) { free(my_slots); free(my_unused); return rc; }
  if (REF_SUCCESS != ref_node_create(&ref_node, ref_mpi)) return BAD;
  for (i = 0; i < my_nslot; i++) {
    REF_GLOB gl = my_slots[i] >= 0 ? (REF_GLOB)my_slots[i] : (REF_GLOB)(LIM + i);
    if (REF_SUCCESS != ref_node_add(ref_node, gl, &node) || node != i) { r_put("harness-add-failed"); }
  }
  for (i = 0; i < my_nslot; i++)
    if (my_slots[i] < 0)
      if (REF_SUCCESS != ref_node_remove_without_global(ref_node, i)) r_put("harness-remove-failed");
  for (i = 0; i < my_nun; i++)
    if (REF_SUCCESS != ref_node_push_unused(ref_node, (REF_GLOB)my_unused[i])) r_put("harness-push-failed");
  ref_node->old_n_global = (REF_GLOB)my_old;
  ref_node->new_n_global = (REF_GLOB)my_new;
  {
    REF_STATUS st = ref_node_synchronize_globals(ref_node);
    if (REF_SUCCESS != st) r_put(h_status((int)st));
  }
  put_ids(ref_node);
  ref_node_free(ref_node);
  free(my_slots);
  free(my_unused);
  return 0;
}

/* ------------------------------------------------------------------ small serial ops */
static int op_elimoff(void) {
  int i, semi = -1, ng_, nu_;
  REF_GLOB *gs, *us;
  for (i = 1; i < h_nw; i++)
    if (0 == strcmp(h_w[i], ";")) { semi = i; break; }
  if (semi < 0) return BAD;
  for (i = 1; i < h_nw; i++)
    if (i != semi && (!is_nat_tok(h_w[i]) || !in_lim(h_i(h_w[i])))) return BAD;
  ng_ = semi - 1;
  nu_ = h_nw - semi - 1;
  gs = (REF_GLOB *)zalloc((size_t)ng_, sizeof(REF_GLOB));
  us = (REF_GLOB *)zalloc((size_t)nu_, sizeof(REF_GLOB));
  for (i = 0; i < ng_; i++) gs[i] = (REF_GLOB)h_i(h_w[1 + i]);
  for (i = 0; i < nu_; i++) us[i] = (REF_GLOB)h_i(h_w[semi + 1 + i]);
  r_put(h_status((int)ref_node_eliminate_unused_offset(ng_, gs, nu_, us)));
  for (i = 0; i < ng_; i++) r_ll((long long)gs[i]);
  free(gs);
  free(us);
  return SERIAL;
}

static int op_active(void) {
  int i, n;
  long long chunk, a0;
  REF_INT *counts, a1 = -1, nactive = -1;
  if (h_nw < 4) return BAD;
  for (i = 1; i < h_nw; i++)
    if (!is_nat_tok(h_w[i]) || !in_lim(h_i(h_w[i]))) return BAD;
  chunk = h_i(h_w[1]);
  a0 = h_i(h_w[2]);
  n = h_nw - 3;
  if (a0 >= n) return BAD;
  counts = (REF_INT *)zalloc((size_t)n, sizeof(REF_INT));
  for (i = 0; i < n; i++) counts[i] = (REF_INT)h_i(h_w[3 + i]);
  r_put(h_status((int)ref_node_eliminate_active_parts(n, counts, (REF_INT)chunk, (REF_INT)a0, &a1, &nactive)));
  r_ll(a1);
  r_ll(nactive);
  free(counts);
  return SERIAL;
}

/* `g,p` */
static int parse_gp(const char *t, long long *g, long long *p) {
  char a[16], b[16];
  const char *c = strchr(t, ',');
  if (!c || strchr(c + 1, ',')) return 0;
  if ((size_t)(c - t) >= sizeof a || strlen(c + 1) >= sizeof b) return 0;
  memcpy(a, t, (size_t)(c - t));
  a[c - t] = 0;
  strcpy(b, c + 1);
  if (!is_nat_tok(a) || !is_int_tok(b) || strlen(b) > 6) return 0;
  *g = h_i(a);
  *p = h_i(b);
  return in_lim(*g) && *p >= -1 && *p < 1000;
}

static int op_cellpart(void) {
  int n = h_nw - 1, i, j;
  long long g[8], p[8];
  REF_NODE ref_node;
  REF_CELL ref_cell;
  REF_CELL_TYPE type;
  REF_INT nodes[REF_CELL_MAX_SIZE_PER], cell, cell_node = -7, part = -7;
  REF_STATUS s1, s2;
  if (!(n == 2 || n == 3 || n == 4 || n == 5 || n == 6 || n == 8)) return BAD;
  for (i = 0; i < n; i++)
    if (!parse_gp(h_w[1 + i], &g[i], &p[i])) return BAD;
  for (i = 0; i < n; i++)
    for (j = 0; j < i; j++)
      if (g[i] == g[j]) return BAD;
  switch (n) {
    case 2: type = REF_CELL_EDG; break;
    case 3: type = REF_CELL_TRI; break;
    case 4: type = REF_CELL_TET; break;
    case 5: type = REF_CELL_PYR; break;
    case 6: type = REF_CELL_PRI; break;
    default: type = REF_CELL_HEX; break;
  }
  if (REF_SUCCESS != ref_node_create(&ref_node, ref_mpi)) return BAD;
  if (REF_SUCCESS != ref_cell_create(&ref_cell, type)) return BAD;
  for (i = 0; i < n; i++) {
    if (REF_SUCCESS != ref_node_add(ref_node, (REF_GLOB)g[i], &nodes[i])) r_put("harness-add-failed");
    ref_node_part(ref_node, nodes[i]) = (REF_INT)p[i];
  }
  if (ref_cell_last_node_is_an_id(ref_cell)) nodes[n] = 7;
  if (REF_SUCCESS != ref_cell_add(ref_cell, nodes, &cell)) r_put("harness-cell-failed");
  s1 = ref_cell_part_cell_node(ref_cell, ref_node, cell, &cell_node);
  s2 = ref_cell_part(ref_cell, ref_node, cell, &part);
  if (REF_SUCCESS != s1 || REF_SUCCESS != s2) {
    r_put(h_status((int)(REF_SUCCESS != s1 ? s1 : s2)));
  } else {
    r_put("ok");
    r_ll(cell_node);
    r_ll(part);
  }
  ref_cell_free(ref_cell);
  ref_node_free(ref_node);
  return SERIAL;
}

/* ------------------------------------------------------------------ ghost */
/* token `g,p,v1,...,vldim`: fields split in place into f[] ; returns number of fields */
static int split_commas(char *t, char **f, int maxf) {
  int n = 0;
  char *p = t;
  f[n++] = p;
  for (; *p; p++)
    if (*p == ',') {
      *p = 0;
      if (n >= maxf) return -1;
      f[n++] = p + 1;
    }
  return n;
}

static int op_ghost(void) {
  int ty, g, i, k, rc = 0;
  long long ldim;
  long long **gl = NULL, **pt = NULL;
  int *cnt = NULL;
  char ***vals = NULL; /* vals[g][i*ldim + k] */
  char *f[40];
  if (NHDR != 2 || !is_nat_tok(HDR(1))) return BAD;
  if (!strcmp(HDR(0), "int")) ty = 0;
  else if (!strcmp(HDR(0), "glob")) ty = 1;
  else if (!strcmp(HDR(0), "dbl")) ty = 2;
  else return BAD;
  ldim = h_i(HDR(1));
  if (ldim < 1 || ldim > 16) return BAD;
  gl = (long long **)zalloc((size_t)np, sizeof(long long *));
  pt = (long long **)zalloc((size_t)np, sizeof(long long *));
  vals = (char ***)zalloc((size_t)np, sizeof(char **));
  cnt = (int *)zalloc((size_t)np, sizeof(int));
  for (g = 0; g < np && !rc; g++) {
    cnt[g] = GLEN(g);
    if (cnt[g] > MAXSLOT) { rc = BAD; cnt[g] = 0; break; }
    gl[g] = (long long *)zalloc((size_t)cnt[g], sizeof(long long));
    pt[g] = (long long *)zalloc((size_t)cnt[g], sizeof(long long));
    vals[g] = (char **)zalloc((size_t)cnt[g] * (size_t)ldim, sizeof(char *));
    for (i = 0; i < cnt[g] && !rc; i++) {
      int nf = split_commas(GW(g, i), f, 40);
      if (nf != 2 + ldim || !is_nat_tok(f[0]) || !is_nat_tok(f[1])) { rc = BAD; break; }
      gl[g][i] = h_i(f[0]);
      pt[g][i] = h_i(f[1]);
      if (!in_lim(gl[g][i]) || pt[g][i] >= np) { rc = BAD; break; }
      for (k = 0; k < ldim; k++) {
        vals[g][i * ldim + k] = f[2 + k];
        if (ty == 2) {
          if (!is_hex16(f[2 + k])) rc = BAD;
        } else {
          if (!is_int_tok(f[2 + k]) || strlen(f[2 + k]) > 11 || h_i(f[2 + k]) <= -LIM || h_i(f[2 + k]) >= LIM) rc = BAD;
        }
      }
    }
  }
  /* world check: distinct globals per rank; every ghost is stored on the rank named by its part */
  for (g = 0; g < np && !rc; g++) {
    long long *tmp = (long long *)zalloc((size_t)cnt[g], sizeof(long long));
    memcpy(tmp, gl[g], (size_t)cnt[g] * sizeof(long long));
    qsort(tmp, (size_t)cnt[g], sizeof(long long), cmp_ll);
    for (i = 1; i < cnt[g]; i++)
      if (tmp[i] == tmp[i - 1]) rc = BAD;
    free(tmp);
    for (i = 0; i < cnt[g] && !rc; i++)
      if (pt[g][i] != g) {
        int o = (int)pt[g][i], found = 0, j;
        for (j = 0; j < cnt[o]; j++)
          if (gl[o][j] == gl[g][i]) found = 1;
        if (!found) rc = BAD;
      }
  }
  if (!rc) {
    REF_NODE ref_node;
    REF_INT *loc = (REF_INT *)zalloc((size_t)cnt[me], sizeof(REF_INT));
    REF_STATUS st = REF_SUCCESS;
    char b[64];
    if (REF_SUCCESS != ref_node_create(&ref_node, ref_mpi)) return BAD;
    for (i = 0; i < cnt[me]; i++) {
      if (REF_SUCCESS != ref_node_add(ref_node, (REF_GLOB)gl[me][i], &loc[i])) r_put("harness-add-failed");
      ref_node_part(ref_node, loc[i]) = (REF_INT)pt[me][i];
    }
    if (ty == 0) {
      REF_INT *v = (REF_INT *)zalloc((size_t)ldim * (size_t)ref_node_max(ref_node), sizeof(REF_INT));
      for (i = 0; i < cnt[me]; i++)
        for (k = 0; k < ldim; k++) v[k + ldim * loc[i]] = (REF_INT)h_i(vals[me][i * ldim + k]);
      st = ref_node_ghost_int(ref_node, v, (REF_INT)ldim);
      r_put(h_status((int)st));
      for (i = 0; i < cnt[me]; i++) {
        snprintf(b, sizeof b, "%lld:", gl[me][i]);
        r_put(b);
        for (k = 0; k < ldim; k++) {
          snprintf(b, sizeof b, "%s%d", k ? "," : "", v[k + ldim * loc[i]]);
          r_raw(b);
        }
      }
      free(v);
    } else if (ty == 1) {
      REF_GLOB *v = (REF_GLOB *)zalloc((size_t)ldim * (size_t)ref_node_max(ref_node), sizeof(REF_GLOB));
      for (i = 0; i < cnt[me]; i++)
        for (k = 0; k < ldim; k++) v[k + ldim * loc[i]] = (REF_GLOB)h_i(vals[me][i * ldim + k]);
      st = ref_node_ghost_glob(ref_node, v, (REF_INT)ldim);
      r_put(h_status((int)st));
      for (i = 0; i < cnt[me]; i++) {
        snprintf(b, sizeof b, "%lld:", gl[me][i]);
        r_put(b);
        for (k = 0; k < ldim; k++) {
          snprintf(b, sizeof b, "%s%lld", k ? "," : "", (long long)v[k + ldim * loc[i]]);
          r_raw(b);
        }
      }
      free(v);
    } else {
      REF_DBL *v = (REF_DBL *)zalloc((size_t)ldim * (size_t)ref_node_max(ref_node), sizeof(REF_DBL));
      for (i = 0; i < cnt[me]; i++)
        for (k = 0; k < ldim; k++) v[k + ldim * loc[i]] = h_f(vals[me][i * ldim + k]);
      st = ref_node_ghost_dbl(ref_node, v, (REF_INT)ldim);
      r_put(h_status((int)st));
      for (i = 0; i < cnt[me]; i++) {
        snprintf(b, sizeof b, "%lld:", gl[me][i]);
        r_put(b);
        for (k = 0; k < ldim; k++) {
          char hb[32];
          r_fmt_dbl(hb, v[k + ldim * loc[i]]);
          if (k) r_raw(",");
          r_raw(hb);
        }
      }
      free(v);
    }
    free(loc);
    ref_node_free(ref_node);
  }
  for (g = 0; g < np; g++) {
    if (gl) free(gl[g]);
    if (pt) free(pt[g]);
    if (vals) free(vals[g]);
  }
  free(gl);
  free(pt);
  free(vals);
  free(cnt);
  return rc;
}

/* ------------------------------------------------------------------ gather per-rank strings on rank 0 */
static void gather_print(const char *prefix) {
  int mylen = (int)res_n, *lens = NULL, *offs = NULL, i;
  char *all = NULL;
  if (0 == me) {
    lens = (int *)zalloc((size_t)np, sizeof(int));
    offs = (int *)zalloc((size_t)np, sizeof(int));
  }
  MPI_Gather(&mylen, 1, MPI_INT, lens, 1, MPI_INT, 0, MPI_COMM_WORLD);
  if (0 == me) {
    int tot = 0;
    for (i = 0; i < np; i++) { offs[i] = tot; tot += lens[i]; }
    all = (char *)zalloc((size_t)tot, 1);
  }
  MPI_Gatherv(res, mylen, MPI_CHAR, all, lens, offs, MPI_CHAR, 0, MPI_COMM_WORLD);
  if (0 == me) {
    if (prefix) fputs(prefix, out);
    for (i = 0; i < np; i++) {
      if (i || prefix) fputs(" | ", out);
      fwrite(all + offs[i], 1, (size_t)lens[i], out);
    }
    fputc('\n', out);
    fflush(out);
    free(all);
    free(lens);
    free(offs);
  }
}

/* ------------------------------------------------------------------ run-level: dumps at the sync hooks */
static char *pre_ids; /* this rank's pre-state string of the enclosing ref_node_synchronize_globals */
static int n_state, n_pair;

static void dump_pre_ids(REF_NODE ref_node) {
  REF_INT node, i, last = -1;
  char b[64];
  r_reset();
  r_ll(ref_node->old_n_global);
  r_ll(ref_node->new_n_global);
  r_put("G");
  for (node = 0; node < ref_node_max(ref_node); node++)
    if (ref_node->global[node] >= 0) last = node;
  for (node = 0; node <= last; node++) {
    if (ref_node->global[node] >= 0) r_ll((long long)ref_node->global[node]);
    else r_put("x");
  }
  r_put("S");
  for (i = 0; i < ref_node_n(ref_node); i++) {
    snprintf(b, sizeof b, "%lld:%d", (long long)ref_node->sorted_global[i], ref_node->sorted_local[i]);
    r_put(b);
  }
  r_put("U");
  for (i = 0; i < ref_node_n_unused(ref_node); i++) r_ll((long long)ref_node->unused_global[i]);
}

static void dump_grid(REF_GRID ref_grid) {
  REF_NODE ref_node = ref_grid_node(ref_grid);
  REF_CELL ref_cell;
  REF_INT node, group, cell, nodes[REF_CELL_MAX_SIZE_PER], i;
  char b[64], hb[32];
  /* Between two ref_node_synchronize_globals every rank numbers the vertices it creates old_n_global, old_n_global+1, ...
     on its own (ref_node_next_global): the same fresh id then names DIFFERENT vertices on different ranks until the next
     synchronisation shifts rank r's fresh ids by the number of fresh ids of the ranks before it (ref_node_shift_unused /
     shiftNew in the model).  A pass that ends without a synchronisation (ref_split_pass synchronises only when some edge
     spans partitions) is dumped in that state; ids >= old_n_global are therefore printed with exactly that shift, so that
     a dumped id names one vertex.  The header keeps old != new: the state is still reported as unsynchronised. */
  long long fresh_me = (long long)(ref_node->new_n_global - ref_node->old_n_global), fresh_off = 0;
  long long old_n = (long long)ref_node->old_n_global;
  if (fresh_me < 0) fresh_me = 0;
  MPI_Exscan(&fresh_me, &fresh_off, 1, MPI_LONG_LONG, MPI_SUM, MPI_COMM_WORLD);
  if (0 == me) fresh_off = 0;
#define DUMP_GLOB(g) ((long long)(g) >= old_n ? (long long)(g) + fresh_off : (long long)(g))
  r_reset();
  r_ll(ref_node->old_n_global);
  r_ll(ref_node->new_n_global);
  r_ll(ref_node_n_unused(ref_node));
  r_put("N");
  each_ref_node_valid_node(ref_node, node) {
    snprintf(b, sizeof b, "%lld,%d", DUMP_GLOB(ref_node_global(ref_node, node)), ref_node_part(ref_node, node));
    r_put(b);
    for (i = 0; i < REF_NODE_REAL_PER; i++) {
      r_fmt_dbl(hb, ref_node_real(ref_node, i, node));
      r_raw(",");
      r_raw(hb);
    }
    for (i = 0; i < ref_node_naux(ref_node); i++) {
      r_fmt_dbl(hb, ref_node_aux(ref_node, i, node));
      r_raw(",");
      r_raw(hb);
    }
  }
  r_put("C");
  each_ref_grid_all_ref_cell(ref_grid, group, ref_cell) {
    each_ref_cell_valid_cell_with_nodes(ref_cell, cell, nodes) {
      snprintf(b, sizeof b, "%d,%d", group,
               ref_cell_last_node_is_an_id(ref_cell) ? nodes[ref_cell_node_per(ref_cell)] : 0);
      r_put(b);
      for (i = 0; i < ref_cell_node_per(ref_cell); i++) {
        snprintf(b, sizeof b, ",%lld", DUMP_GLOB(ref_node_global(ref_node, nodes[i])));
        r_raw(b);
      }
    }
  }
#undef DUMP_GLOB
}

static void my_sync(const char *label, void *object) {
  char prefix[128];
  if (0 == strcmp(label, "node_synchronize_globals_begin")) {
    dump_pre_ids((REF_NODE)object);
    free(pre_ids);
    pre_ids = strdup(res);
    return;
  }
  if (0 == strcmp(label, "node_synchronize_globals_end")) {
    if (!pre_ids) return;
    r_reset();
    r_put(pre_ids);
    r_put("R");
    put_ids((REF_NODE)object);
    free(pre_ids);
    pre_ids = NULL;
    snprintf(prefix, sizeof prefix, "syncpair %d", np);
    gather_print(prefix);
    n_pair++;
    return;
  }
  dump_grid((REF_GRID)object);
  snprintf(prefix, sizeof prefix, "state %s %d", label, np);
  gather_print(prefix);
  n_state++;
}

/* metric m = diag(1/h^2), h = h0 * (1 + g*x): the same analytic function on owned and ghost copies */
static REF_STATUS set_metric(REF_GRID ref_grid, double h0, double gr) {
  REF_NODE ref_node = ref_grid_node(ref_grid);
  REF_INT node;
  each_ref_node_valid_node(ref_node, node) {
    double h = h0 * (1.0 + gr * ref_node_xyz(ref_node, 0, node));
    double m = 1.0 / (h * h);
    RSS(ref_node_metric_form(ref_node, node, m, 0, 0, m, 0, m), "set metric");
  }
  return REF_SUCCESS;
}

static REF_STATUS run_steps(REF_GRID *ref_grid_ptr, const char *path, int first, int *done) {
  REF_GRID ref_grid;
  int k;
  RSS(ref_part_by_extension(ref_grid_ptr, ref_mpi, path), "part");
  ref_grid = *ref_grid_ptr;
  RSS(set_metric(ref_grid, 0.5, 0.0), "metric");
  for (k = first; k < h_nw; k++) {
    const char *s = h_w[k];
    if (0 == strcmp(s, "bal")) {
      RSS(ref_migrate_to_balance(ref_grid), "balance");
    } else if (0 == strcmp(s, "adapt")) {
      REF_BOOL all_done = REF_FALSE;
      RSS(ref_adapt_pass(ref_grid, &all_done), "pass");
    } else if (0 == strcmp(s, "pack")) {
      RSS(ref_grid_pack(ref_grid), "pack");
    } else if (0 == strcmp(s, "sync")) {
      RSS(ref_node_synchronize_globals(ref_grid_node(ref_grid)), "sync");
      my_sync("after_sync", ref_grid);
    } else if (0 == strcmp(s, "ghost")) {
      RSS(ref_node_ghost_real(ref_grid_node(ref_grid)), "ghost");
      my_sync("after_ghost", ref_grid);
    } else if (0 == strncmp(s, "metric:", 7)) {
      double h0 = 0.5, gr = 0.0;
      if (2 != sscanf(s + 7, "%lf:%lf", &h0, &gr) || !(h0 > 0.01) || !(h0 < 100.0) || !(gr >= 0.0) || !(gr < 100.0))
        return REF_INVALID;
      RSS(set_metric(ref_grid, h0, gr), "metric");
    } else {
      return REF_INVALID;
    }
    (*done)++;
  }
  return REF_SUCCESS;
}

static int op_run(void) {
  REF_GRID ref_grid = NULL;
  REF_STATUS st;
  int done = 0;
  FILE *f;
  if (h_nw < 4 || !is_nat_tok(h_w[3])) return BAD;
  f = fopen(h_w[2], "r");
  if (!f) return BAD;
  fclose(f);
  n_state = 0;
  n_pair = 0;
  ref_verif_sync_fcn = my_sync;
  st = run_steps(&ref_grid, h_w[2], 4, &done);
  ref_verif_sync_fcn = NULL;
  if (ref_grid) ref_grid_free(ref_grid);
  free(pre_ids);
  pre_ids = NULL;
  {
    int ist = (int)st, worst = 0;
    MPI_Allreduce(&ist, &worst, 1, MPI_INT, MPI_MAX, MPI_COMM_WORLD);
    if (0 == me) {
      if (0 == worst) fprintf(out, "note run-done steps=%d states=%d syncpairs=%d\n", done, n_state, n_pair);
      else fprintf(out, "run-failed status=%s after %d steps\n", h_status(worst), done);
      fflush(out);
    }
  }
  return MULTI;
}

static void tokenise(void) {
  char *p;
  h_nw = 0;
  for (p = strtok(h_line, " \t\r\n"); p && h_nw < H_MAXW; p = strtok(NULL, " \t\r\n")) h_w[h_nw++] = p;
}

int main(int argc, char *argv[]) {
  int fd;
  FILE *in = stdin;
  MPI_Init(&argc, &argv);
  if (REF_SUCCESS != ref_mpi_create(&ref_mpi)) return 3;
  me = ref_mpi_rank(ref_mpi);
  np = ref_mpi_n(ref_mpi);
  if (argc >= 3 && 0 == strcmp(argv[1], "--ops") && 0 == me) {
    in = fopen(argv[2], "r");
    if (!in) return 4;
  }
  fd = dup(1);
  out = fdopen(fd, "w");
  if (!freopen("/dev/null", "w", stdout)) return 3;
  signal(SIGALRM, on_alarm);
  for (;;) {
    int len = -1, rc;
    const char *op;
    if (0 == me) {
      for (;;) {
        char *p;
        if (!fgets(h_line, sizeof(h_line), in)) { len = -1; break; }
        p = h_line;
        while (*p == ' ' || *p == '\t') p++;
        if (*p == '#' || *p == '\n' || *p == '\r' || *p == 0) continue;
        len = (int)strlen(h_line);
        break;
      }
    }
    MPI_Bcast(&len, 1, MPI_INT, 0, MPI_COMM_WORLD);
    if (len < 0) break;
    MPI_Bcast(h_line, len + 1, MPI_CHAR, 0, MPI_COMM_WORLD);
    tokenise();
    if (h_nw == 0) continue;
    op = h_w[0];
    r_reset();
    alarm(0 == strcmp(op, "run") ? 280 : 30);
    if (0 == strcmp(op, "elimoff")) rc = op_elimoff();
    else if (0 == strcmp(op, "active")) rc = op_active();
    else if (0 == strcmp(op, "cellpart")) rc = op_cellpart();
    else if (h_nw < 2 || !is_nat_tok(h_w[1]) || strlen(h_w[1]) > 6 || h_i(h_w[1]) != np) rc = BAD;
    else if (0 == strcmp(op, "run")) rc = op_run();
    else if (!split_groups() || ng != np) rc = BAD;
    else if (0 == strcmp(op, "sync")) rc = op_sync();
    else if (0 == strcmp(op, "ghost")) rc = op_ghost();
    else rc = BAD;
    alarm(0);
    if (rc == MULTI) continue;
    if (rc == BAD || rc == HANG) {
      if (0 == me) { fputs(rc == BAD ? "bad-op\n" : "hang\n", out); fflush(out); }
      continue;
    }
    if (rc == SERIAL) {
      if (0 == me) { fprintf(out, "%s\n", res); fflush(out); }
      continue;
    }
    gather_print(NULL);
  }
  fclose(out);
  ref_mpi_free(ref_mpi);
  MPI_Finalize();
  return 0;
}
