/* PMPI interposition shim (C18, stream cli_repro / repro_sched): random delays in front of every communication
 * call refine makes, so that message arrival order, rank progress and collective entry order vary from run to run
 * WITHOUT touching /repo.  Linked into the MPI build of `ref` (the executable's MPI_* definitions take precedence
 * over libmpi's; they forward to PMPI_*) or LD_PRELOADed as a shared object.
 *
 *   REF_VERIF_DELAY_SEED     unset/empty: no delays at all; otherwise the per-rank rand_r() state is seeded from
 *                            (seed, rank).  rand_r() has its own state: refine's libc rand() stream is NOT disturbed.
 *   REF_VERIF_DELAY_MAX_US   upper bound of one sleep in microseconds (default 2000)
 *   REF_VERIF_DELAY_PCT      percentage of calls that sleep (default 100)
 *   REF_VERIF_DELAY_STATS    if set: every rank prints "pmpi_delay rank r calls n slept m us t" to stderr at finalize
 */
#include <mpi.h>
#include <stdio.h>
#include <stdlib.h>
#include <unistd.h>

static int pd_state = 0; /* 0 unknown, 1 active, 2 inactive */
static unsigned int pd_seed = 1;
static unsigned int pd_max_us = 2000;
static unsigned int pd_pct = 100;
static long pd_calls = 0, pd_slept = 0, pd_us = 0;

static void pd_init(void) {
  const char *e = getenv("REF_VERIF_DELAY_SEED");
  int rank = 0, flag = 0;
  pd_state = 2;
  if (NULL == e || 0 == *e) return;
  PMPI_Initialized(&flag);
  if (!flag) {
    pd_state = 0;
    return;
  }
  PMPI_Comm_rank(MPI_COMM_WORLD, &rank);
  pd_seed = (unsigned int)strtoul(e, NULL, 10) * 2654435761u + (unsigned int)rank * 40503u + 12345u;
  e = getenv("REF_VERIF_DELAY_MAX_US");
  if (NULL != e && 0 != *e) pd_max_us = (unsigned int)strtoul(e, NULL, 10);
  e = getenv("REF_VERIF_DELAY_PCT");
  if (NULL != e && 0 != *e) pd_pct = (unsigned int)strtoul(e, NULL, 10);
  pd_state = 1;
}

static void pd_delay(void) {
  unsigned int us;
  if (0 == pd_state) pd_init();
  pd_calls++;
  if (1 != pd_state || 0 == pd_max_us) return;
  if (pd_pct < 100 && (unsigned int)(rand_r(&pd_seed) % 100) >= pd_pct) return;
  us = (unsigned int)rand_r(&pd_seed) % pd_max_us;
  pd_slept++;
  pd_us += (long)us;
  if (us > 0) usleep(us);
}

int MPI_Finalize(void) {
  if (NULL != getenv("REF_VERIF_DELAY_STATS")) {
    int rank = 0;
    PMPI_Comm_rank(MPI_COMM_WORLD, &rank);
    fprintf(stderr, "pmpi_delay rank %d calls %ld slept %ld us %ld\n", rank, pd_calls, pd_slept, pd_us);
  }
  return PMPI_Finalize();
}

int MPI_Alltoallv(const void *sb, const int *sc, const int *sd, MPI_Datatype st, void *rb, const int *rc,
                  const int *rd, MPI_Datatype rt, MPI_Comm comm) {
  pd_delay();
  return PMPI_Alltoallv(sb, sc, sd, st, rb, rc, rd, rt, comm);
}
int MPI_Alltoall(const void *sb, int sc, MPI_Datatype st, void *rb, int rc, MPI_Datatype rt, MPI_Comm comm) {
  pd_delay();
  return PMPI_Alltoall(sb, sc, st, rb, rc, rt, comm);
}
int MPI_Allreduce(const void *sb, void *rb, int n, MPI_Datatype t, MPI_Op op, MPI_Comm comm) {
  pd_delay();
  return PMPI_Allreduce(sb, rb, n, t, op, comm);
}
int MPI_Reduce(const void *sb, void *rb, int n, MPI_Datatype t, MPI_Op op, int root, MPI_Comm comm) {
  pd_delay();
  return PMPI_Reduce(sb, rb, n, t, op, root, comm);
}
int MPI_Bcast(void *b, int n, MPI_Datatype t, int root, MPI_Comm comm) {
  pd_delay();
  return PMPI_Bcast(b, n, t, root, comm);
}
int MPI_Barrier(MPI_Comm comm) {
  pd_delay();
  return PMPI_Barrier(comm);
}
int MPI_Allgather(const void *sb, int sc, MPI_Datatype st, void *rb, int rc, MPI_Datatype rt, MPI_Comm comm) {
  pd_delay();
  return PMPI_Allgather(sb, sc, st, rb, rc, rt, comm);
}
int MPI_Allgatherv(const void *sb, int sc, MPI_Datatype st, void *rb, const int *rc, const int *rd,
                   MPI_Datatype rt, MPI_Comm comm) {
  pd_delay();
  return PMPI_Allgatherv(sb, sc, st, rb, rc, rd, rt, comm);
}
int MPI_Send(const void *b, int n, MPI_Datatype t, int dest, int tag, MPI_Comm comm) {
  pd_delay();
  return PMPI_Send(b, n, t, dest, tag, comm);
}
int MPI_Recv(void *b, int n, MPI_Datatype t, int src, int tag, MPI_Comm comm, MPI_Status *s) {
  pd_delay();
  return PMPI_Recv(b, n, t, src, tag, comm, s);
}
int MPI_Isend(const void *b, int n, MPI_Datatype t, int dest, int tag, MPI_Comm comm, MPI_Request *r) {
  pd_delay();
  return PMPI_Isend(b, n, t, dest, tag, comm, r);
}
int MPI_Irecv(void *b, int n, MPI_Datatype t, int src, int tag, MPI_Comm comm, MPI_Request *r) {
  pd_delay();
  return PMPI_Irecv(b, n, t, src, tag, comm, r);
}
int MPI_Waitall(int n, MPI_Request *r, MPI_Status *s) {
  pd_delay();
  return PMPI_Waitall(n, r, s);
}
