/* harness `interpfrompart` (property C05, work package interppack): ref_interp_from_part on REAL distributed grids.
 * MPI only.  Only rank 0 reads the op lines (`--ops <file>` or stdin); every op line is broadcast; rank 0 prints.
 *
 *   frompart <np> <l> <m> <n> <R> <N parts>  { <N parts> }*R
 *     tet brick l x m x n (N = l*m*n vertices, global id = i + j*l + k*l*m) built on rank 0, distributed with
 *     ref_migrate_shufflin according to the first part array (part of global g), background cached exactly as
 *     `ref adapt` does (ref_grid_cache_background: donor = deep copy, identity records, part = rank); then R rounds:
 *     node_part[node] = parts_r[global(node)] for every stored vertex (owned and ghost, as ref_migrate_to_balance hands
 *     it over after ref_node_ghost_int) and ref_interp_from_part(ref_grid_interp, node_part) - which re-partitions the
 *     DONOR grid after the receptor's wishes (neighbour fill), re-identifies donor cells by their global vertex ids on
 *     the new owner, shuffles the receptor and returns every record to the new owner of its vertex.
 *     -> `ok R  D <c> {g p d0 d1 d2 d3 b0 b1 b2 b3}*c  U <u> ...` one `D .. U ..` group for the state after caching and
 *        one after every round: every OWNED valid receptor vertex g (sorted) with a record: the rank p that stores its
 *        donor cell, the GLOBAL ids of that cell's vertices as rank p stores them (-2 x4: p has no such valid cell),
 *        the weights; U = owned vertices without a record, followed by their ids.
 *   a REF_STATUS other than success on any rank: `<status> <step>`.   malformed: `bad-op`.  */
#include <signal.h>
#include <unistd.h>

#include "h_proto.h"
/* */
#include "ref_cell.h"
#include "ref_fixture.h"
#include "ref_grid.h"
#include "ref_interp.h"
#include "ref_malloc.h"
#include "ref_migrate.h"
#include "ref_mpi.h"
#include "ref_node.h"

#ifndef HAVE_MPI
#error "h_interpfrompart.c is an MPI harness: build with mpicc -DHAVE_MPI"
#endif
#include "mpi.h"

static FILE *out;
static int me, np;
static REF_MPI ref_mpi;
static char *res;
static size_t res_n, res_cap;

static void r_raw(const char *s) {
  size_t l = strlen(s);
  if (res_n + l + 2 > res_cap) {
    res_cap = 2 * (res_n + l + 2) + 64;
    res = (char *)realloc(res, res_cap);
  }
  memcpy(res + res_n, s, l + 1);
  res_n += l;
}
static void r_ll(long long v) {
  char b[40];
  snprintf(b, sizeof b, " %lld", v);
  r_raw(b);
}
static void r_dbl(double d) {
  char b[40];
  uint64_t u;
  memcpy(&u, &d, 8);
  snprintf(b, sizeof b, " %016llx", (unsigned long long)u);
  r_raw(b);
}

static void on_alarm(int sig) {
  (void)sig;
  _exit(7);
}

static int all_ok(REF_STATUS s) {
  int mine = (int)s, worst = 0;
  MPI_Allreduce(&mine, &worst, 1, MPI_INT, MPI_MAX, MPI_COMM_WORLD);
  return worst;
}

static int cmp_ll(const void *a, const void *b) {
  const long long *x = (const long long *)a, *y = (const long long *)b;
  return (x[0] > y[0]) - (x[0] < y[0]);
}

static int cmp_int(const void *a, const void *b) {
  const REF_INT *x = (const REF_INT *)a, *y = (const REF_INT *)b;
  return (x[0] > y[0]) - (x[0] < y[0]);
}

/* appends one `D .. U ..` group on rank 0 */
static REF_STATUS dump(REF_GRID ref_grid) {
  REF_NODE to_node = ref_grid_node(ref_grid);
  REF_INTERP ref_interp = ref_grid_interp(ref_grid);
  REF_GRID from_grid = ref_interp_from_grid(ref_interp);
  REF_NODE from_node = ref_grid_node(from_grid);
  REF_CELL from_cell = ref_interp_from_tet(ref_interp);
  REF_INT node, nrec = 0, nun = 0, i, k, total, total2, total3, *source;
  REF_INT *ask, *allask, *un, *allun;
  REF_GLOB *ans, *allans;
  REF_DBL *bary, *allbary;
  REF_INT nodes[REF_CELL_MAX_SIZE_PER];
  each_ref_node_valid_node(to_node, node) {
    if (!ref_node_owned(to_node, node)) continue;
    if (node < ref_interp_max(ref_interp) && REF_EMPTY != ref_interp->cell[node]) nrec++;
    else nun++;
  }
  ref_malloc(ask, 3 * nrec + 1, REF_INT);
  ref_malloc(bary, 4 * nrec + 1, REF_DBL);
  ref_malloc(un, nun + 1, REF_INT);
  nrec = 0;
  nun = 0;
  each_ref_node_valid_node(to_node, node) {
    if (!ref_node_owned(to_node, node)) continue;
    if (node < ref_interp_max(ref_interp) && REF_EMPTY != ref_interp->cell[node]) {
      ask[0 + 3 * nrec] = (REF_INT)ref_node_global(to_node, node);
      ask[1 + 3 * nrec] = ref_interp->part[node];
      ask[2 + 3 * nrec] = ref_interp->cell[node];
      for (k = 0; k < 4; k++) bary[k + 4 * nrec] = ref_interp->bary[k + 4 * node];
      nrec++;
    } else {
      un[nun++] = (REF_INT)ref_node_global(to_node, node);
    }
  }
  RSS(ref_mpi_allconcat(ref_mpi, 3, nrec, ask, &total, &source, (void **)&allask, REF_INT_TYPE), "ask");
  ref_free(source);
  RSS(ref_mpi_allconcat(ref_mpi, 4, nrec, bary, &total2, &source, (void **)&allbary, REF_DBL_TYPE), "bary");
  ref_free(source);
  RSS(ref_mpi_allconcat(ref_mpi, 1, nun, un, &total3, &source, (void **)&allun, REF_INT_TYPE), "un");
  ref_free(source);
  /* answer for the records whose donor cell this rank stores: one row per record, MAX-reduced */
  ref_malloc_init(ans, 4 * total + 1, REF_GLOB, -3);
  for (i = 0; i < total; i++) {
    if ((REF_INT)allask[1 + 3 * i] != me) continue;
    for (k = 0; k < 4; k++) ans[k + 4 * i] = -2;
    if (ref_cell_valid(from_cell, (REF_INT)allask[2 + 3 * i])) {
      RSS(ref_cell_nodes(from_cell, (REF_INT)allask[2 + 3 * i], nodes), "nodes");
      for (k = 0; k < 4; k++) ans[k + 4 * i] = ref_node_global(from_node, nodes[k]);
    }
  }
  ref_malloc(allans, 4 * total + 1, REF_GLOB);
  MPI_Allreduce(ans, allans, 4 * total, MPI_LONG_LONG, MPI_MAX, MPI_COMM_WORLD);
  if (0 == me) {
    long long *idx;
    idx = (long long *)malloc(sizeof(long long) * 2 * (size_t)(total + 1));
    for (i = 0; i < total; i++) {
      idx[2 * i] = (long long)allask[3 * i];
      idx[2 * i + 1] = i;
    }
    qsort(idx, (size_t)total, 2 * sizeof(long long), cmp_ll);
    r_raw(" D");
    r_ll(total);
    for (i = 0; i < total; i++) {
      REF_INT j = (REF_INT)idx[2 * i + 1];
      r_ll((long long)allask[3 * j]);
      r_ll((long long)allask[1 + 3 * j]);
      for (k = 0; k < 4; k++) r_ll((long long)allans[k + 4 * j]);
      for (k = 0; k < 4; k++) r_dbl(allbary[k + 4 * j]);
    }
    free(idx);
    qsort(allun, (size_t)total3, sizeof(REF_INT), cmp_int);
    r_raw(" U");
    r_ll(total3);
    for (i = 0; i < total3; i++) r_ll((long long)allun[i]);
  }
  ref_free(allans);
  ref_free(ans);
  ref_free(allun);
  ref_free(allbary);
  ref_free(allask);
  ref_free(un);
  ref_free(bary);
  ref_free(ask);
  return REF_SUCCESS;
}

#define STEP(call, name)                                  \
  {                                                       \
    int step_status = all_ok(call);                       \
    if (0 != step_status) {                               \
      res_n = 0;                                          \
      res[0] = 0;                                         \
      r_raw(h_status(step_status));                       \
      r_raw(" " name);                                    \
      if (NULL != ref_grid) ref_grid_free(ref_grid);      \
      return;                                             \
    }                                                     \
  }

static void do_op(void) {
  REF_GRID ref_grid = NULL;
  REF_NODE ref_node;
  REF_INT l, m, n, N, R, r, node, i;
  REF_INT *node_part;
  if (0 != strcmp(h_w[0], "frompart") || h_nw < 6 || h_i(h_w[1]) != np) {
    r_raw("bad-op");
    return;
  }
  l = (REF_INT)h_i(h_w[2]);
  m = (REF_INT)h_i(h_w[3]);
  n = (REF_INT)h_i(h_w[4]);
  R = (REF_INT)h_i(h_w[5]);
  N = l * m * n;
  if (l < 2 || m < 2 || n < 2 || N > 400 || R < 0 || R > 6 || h_nw != 6 + (R + 1) * N) {
    r_raw("bad-op");
    return;
  }
  for (i = 6; i < h_nw; i++) {
    long long p = h_i(h_w[i]);
    if (p < 0 || p >= np || strlen(h_w[i]) > 3) {
      r_raw("bad-op");
      return;
    }
  }
  STEP(ref_fixture_tet_brick_args_grid(&ref_grid, ref_mpi, 0.0, 1.0, 0.0, 1.0, 0.0, 1.0, l, m, n), "brick");
  ref_node = ref_grid_node(ref_grid);
  each_ref_node_valid_node(ref_node, node) {
    ref_node_part(ref_node, node) = (REF_INT)h_i(h_w[6 + ref_node_global(ref_node, node)]);
  }
  STEP(ref_migrate_shufflin(ref_grid), "distribute");
  STEP(ref_grid_cache_background(ref_grid), "cache");
  r_raw("ok");
  r_ll(R);
  STEP(dump(ref_grid), "dump");
  for (r = 1; r <= R; r++) {
    REF_STATUS s;
    node_part = (REF_INT *)malloc(sizeof(REF_INT) * (size_t)(ref_node_max(ref_node) + 1));
    for (i = 0; i < ref_node_max(ref_node); i++) node_part[i] = REF_EMPTY;
    each_ref_node_valid_node(ref_node, node) {
      node_part[node] = (REF_INT)h_i(h_w[6 + r * N + ref_node_global(ref_node, node)]);
    }
    s = ref_interp_from_part(ref_grid_interp(ref_grid), node_part);
    free(node_part);
    STEP(s, "from_part");
    STEP(dump(ref_grid), "dump");
  }
  ref_grid_free(ref_grid);
}

int main(int argc, char *argv[]) {
  int fd;
  FILE *in = stdin;
  MPI_Init(&argc, &argv);
  if (REF_SUCCESS != ref_mpi_create(&ref_mpi)) return 3;
  me = ref_mpi_rank(ref_mpi);
  np = ref_mpi_n(ref_mpi);
  if (argc >= 3 && 0 == strcmp(argv[1], "--ops") && 0 == me) {
    in = fopen(argv[2], "r");
    if (!in) return 4;
  }
  fd = dup(1);
  out = fdopen(fd, "w");
  if (!freopen("/dev/null", "w", stdout)) return 3;
  signal(SIGALRM, on_alarm);
  res_cap = 1024;
  res = (char *)malloc(res_cap);
  for (;;) {
    int len = -1;
    char *p;
    if (0 == me) {
      for (;;) {
        if (!fgets(h_line, sizeof(h_line), in)) { len = -1; break; }
        p = h_line;
        while (*p == ' ' || *p == '\t') p++;
        if (*p == '#' || *p == '\n' || *p == '\r' || *p == 0) continue;
        len = (int)strlen(h_line);
        break;
      }
    }
    MPI_Bcast(&len, 1, MPI_INT, 0, MPI_COMM_WORLD);
    if (len < 0) break;
    MPI_Bcast(h_line, len + 1, MPI_CHAR, 0, MPI_COMM_WORLD);
    h_nw = 0;
    for (p = strtok(h_line, " \t\r\n"); p && h_nw < H_MAXW; p = strtok(NULL, " \t\r\n")) h_w[h_nw++] = p;
    if (h_nw == 0) continue;
    res_n = 0;
    res[0] = 0;
    alarm(120);
    do_op();
    alarm(0);
    if (0 == me) {
      fputs(res, out);
      fputc('\n', out);
      fflush(out);
    }
  }
  fclose(out);
  ref_mpi_free(ref_mpi);
  MPI_Finalize();
  return 0;
}
