/* harness `nodecell`: vertex-id state machine of ref_node.c and the cell store of ref_cell.c.
   One output line per op on the protocol stream `out`; the library's own printf diagnostics
   (RSS/RAS messages go to stdout) are sent to /dev/null. */
#include <unistd.h>

#include "h_proto.h"
#include "ref_adj.h"
#include "ref_cell.h"
#include "ref_mpi.h"
#include "ref_node.h"

static const char *names[] = {"edg", "ed2", "ed3", "tri", "tr2", "tr3", "qua", "qu2",
                              "tet", "pyr", "pri", "hex", "te2", "py2", "pr2", "he2"};
static REF_CELL_TYPE types[] = {REF_CELL_EDG, REF_CELL_ED2, REF_CELL_ED3, REF_CELL_TRI, REF_CELL_TR2,
                                REF_CELL_TR3, REF_CELL_QUA, REF_CELL_QU2, REF_CELL_TET, REF_CELL_PYR,
                                REF_CELL_PRI, REF_CELL_HEX, REF_CELL_TE2, REF_CELL_PY2, REF_CELL_PR2,
                                REF_CELL_HE2};

static FILE *out;
static REF_MPI ref_mpi;
static REF_NODE ref_node;
static REF_CELL ref_cell;

#define NODE_LIMIT 100000 /* harness guard: larger cell node ids would make ref_adj allocate GBs */
#define LIST_MAX 1024

static int is_op(const char *op, int nw) { return 0 == strcmp(h_w[0], op) && h_nw == nw; }

static int find_type(const char *n) {
  int i;
  for (i = 0; i < 16; i++)
    if (0 == strcmp(n, names[i])) return i;
  return -1;
}

static void reset(int t) {
  if (ref_cell) ref_cell_free(ref_cell);
  if (ref_node) ref_node_free(ref_node);
  ref_node = NULL;
  ref_cell = NULL;
  if (REF_SUCCESS != ref_node_create(&ref_node, ref_mpi)) exit(3);
  if (REF_SUCCESS != ref_cell_create(&ref_cell, types[t])) exit(3);
}

static void node_dump(void) {
  REF_INT i, first;
  fprintf(out, "%d %d %d %d %d %lld %lld | ", ref_node_n(ref_node), ref_node_max(ref_node), ref_node->blank,
          ref_node_n_unused(ref_node), ref_node_max_unused(ref_node), (long long)ref_node->old_n_global,
          (long long)ref_node->new_n_global);
  for (i = 0; i < ref_node_max(ref_node); i++) fprintf(out, "%s%lld", i ? " " : "", (long long)ref_node->global[i]);
  fprintf(out, " | ");
  for (i = 0; i < ref_node_n(ref_node); i++)
    fprintf(out, "%s%lld", i ? " " : "", (long long)ref_node->sorted_global[i]);
  fprintf(out, " | ");
  for (i = 0; i < ref_node_n(ref_node); i++) fprintf(out, "%s%d", i ? " " : "", ref_node->sorted_local[i]);
  fprintf(out, " | ");
  for (i = 0; i < ref_node_n_unused(ref_node); i++)
    fprintf(out, "%s%lld", i ? " " : "", (long long)ref_node->unused_global[i]);
  fprintf(out, " | ");
  first = 1;
  for (i = 0; i < ref_node_max(ref_node); i++)
    if (ref_node_valid(ref_node, i)) {
      fprintf(out, "%s%d", first ? "" : " ", ref_node_part(ref_node, i));
      first = 0;
    }
  fprintf(out, "\n");
}

static void cell_dump(void) {
  REF_INT cell, k, node, item, ref, firstp;
  REF_ADJ adj = ref_cell_adj(ref_cell);
  fprintf(out, "%d %d %d %d | ", ref_cell_n(ref_cell), ref_cell_max(ref_cell), ref_cell_blank(ref_cell),
          ref_adj_nnode(adj));
  for (cell = 0; cell < ref_cell_max(ref_cell); cell++) {
    int nk = (REF_EMPTY == ref_cell_c2n(ref_cell, 0, cell)) ? 2 : ref_cell_size_per(ref_cell);
    if (cell > 0) fputc(' ', out);
    for (k = 0; k < nk; k++) fprintf(out, "%s%d", k ? "," : "", ref_cell_c2n(ref_cell, k, cell));
  }
  fprintf(out, " | ");
  firstp = 1;
  for (node = 0; node < ref_adj_nnode(adj); node++) {
    int f = 1;
    if (ref_adj_empty(adj, node)) continue;
    fprintf(out, "%s%d:", firstp ? "" : " ", node);
    firstp = 0;
    each_ref_adj_node_item_with_ref(adj, node, item, ref) {
      fprintf(out, "%s%d", f ? "" : ",", ref);
      f = 0;
    }
  }
  fprintf(out, "\n");
}

static void print_maps(REF_STATUS s, REF_INT nmax, REF_INT n, REF_INT *o2n, REF_INT *n2o) {
  REF_INT i;
  if (REF_SUCCESS != s) {
    fprintf(out, "%s\n", h_status(s));
    return;
  }
  fprintf(out, "ok | ");
  for (i = 0; i < nmax; i++) fprintf(out, "%s%d", i ? " " : "", o2n[i]);
  fprintf(out, " | ");
  for (i = 0; i < n; i++) fprintf(out, "%s%d", i ? " " : "", n2o[i]);
  fprintf(out, "\n");
}

static int nodes_ok(int from, int count) { /* harness guard on cell node ids */
  int i;
  for (i = 0; i < count; i++)
    if (h_i(h_w[from + i]) > NODE_LIMIT) return 0;
  return 1;
}

int main(void) {
  int t;
  out = fdopen(dup(1), "w");
  if (!out || !freopen("/dev/null", "w", stdout)) return 3;
  if (REF_SUCCESS != ref_mpi_create(&ref_mpi)) return 3;
  reset(8);
  while (h_next(stdin)) {
    const char *op = h_w[0];
    if (is_op("reset", 2)) {
      t = find_type(h_w[1]);
      if (t < 0) { fputs("bad-op\n", out); continue; }
      reset(t);
      fputs("ok\n", out);
    /* ---------------- ref_node ---------------- */
    } else if (is_op("add", 2)) {
      REF_INT node = REF_EMPTY;
      REF_STATUS s = ref_node_add(ref_node, (REF_GLOB)h_i(h_w[1]), &node);
      if (REF_SUCCESS == s) fprintf(out, "ok %d\n", node);
      else fprintf(out, "%s\n", h_status(s));
    } else if (0 == strcmp(op, "add_many")) {
      REF_INT n = h_nw - 1, i;
      REF_GLOB *g = (REF_GLOB *)malloc(sizeof(REF_GLOB) * (size_t)(n + 1));
      REF_STATUS s;
      for (i = 0; i < n; i++) g[i] = (REF_GLOB)h_i(h_w[1 + i]);
      s = ref_node_add_many(ref_node, n, g);
      /* protocol: a failed add_many returns before rebuild_sorted_global and leaves uninitialised
         sorted_* entries; both sides rebuild so that they are never observed */
      if (REF_SUCCESS != s) ref_node_rebuild_sorted_global(ref_node);
      free(g);
      fprintf(out, "%s\n", h_status(s));
    } else if (is_op("remove", 2)) {
      fprintf(out, "%s\n", h_status(ref_node_remove(ref_node, (REF_INT)h_i(h_w[1]))));
    } else if (is_op("remove_inv", 2)) {
      fprintf(out, "%s\n", h_status(ref_node_remove_invalidates_sorted(ref_node, (REF_INT)h_i(h_w[1]))));
    } else if (is_op("remove_wog", 2)) {
      fprintf(out, "%s\n", h_status(ref_node_remove_without_global(ref_node, (REF_INT)h_i(h_w[1]))));
    } else if (is_op("remove_wog_inv", 2)) {
      fprintf(out, "%s\n",
              h_status(ref_node_remove_without_global_invalidates_sorted(ref_node, (REF_INT)h_i(h_w[1]))));
    } else if (is_op("rebuild", 1)) {
      fprintf(out, "%s\n", h_status(ref_node_rebuild_sorted_global(ref_node)));
    } else if (is_op("init_n_global", 2)) {
      fprintf(out, "%s\n", h_status(ref_node_initialize_n_global(ref_node, (REF_GLOB)h_i(h_w[1]))));
    } else if (is_op("next_global", 1)) {
      REF_GLOB g = REF_EMPTY;
      REF_STATUS s = ref_node_next_global(ref_node, &g);
      fprintf(out, "%s %lld\n", h_status(s), (long long)g);
    } else if (is_op("push_unused", 2)) {
      fprintf(out, "%s\n", h_status(ref_node_push_unused(ref_node, (REF_GLOB)h_i(h_w[1]))));
    } else if (is_op("pop_unused", 1)) {
      REF_GLOB g = 0;
      REF_STATUS s = ref_node_pop_unused(ref_node, &g);
      fprintf(out, "%s %lld\n", h_status(s), (long long)g);
    } else if (is_op("local", 2)) {
      REF_INT l = 0;
      REF_STATUS s = ref_node_local(ref_node, (REF_GLOB)h_i(h_w[1]), &l);
      fprintf(out, "%s %d\n", h_status(s), l);
    } else if (is_op("valid", 2)) {
      REF_INT v = (REF_INT)h_i(h_w[1]);
      fprintf(out, "%d\n", ref_node_valid(ref_node, v) ? 1 : 0);
    } else if (is_op("glob", 2)) {
      REF_INT v = (REF_INT)h_i(h_w[1]);
      fprintf(out, "%lld\n", (long long)ref_node_global(ref_node, v));
    } else if (is_op("set_part", 3)) {
      REF_INT v = (REF_INT)h_i(h_w[1]);
      if (ref_node_valid(ref_node, v)) {
        ref_node_part(ref_node, v) = (REF_INT)h_i(h_w[2]);
        fputs("ok\n", out);
      } else {
        fputs("invalid\n", out);
      }
    } else if (is_op("nn", 1)) {
      fprintf(out, "%d %d %d %lld %lld\n", ref_node_n(ref_node), ref_node_max(ref_node),
              ref_node_n_unused(ref_node), (long long)ref_node->old_n_global, (long long)ref_node->new_n_global);
    } else if (is_op("stable_compact", 1) || is_op("compact", 1) || is_op("pack", 1) || is_op("stable_pack", 1)) {
      REF_INT *o2n = NULL, *n2o = NULL;
      int stable = ('s' == op[0]);
      int pack = (NULL != strstr(op, "pack"));
      REF_STATUS s = stable ? ref_node_stable_compact(ref_node, &o2n, &n2o) : ref_node_compact(ref_node, &o2n, &n2o);
      if (!pack) {
        print_maps(s, ref_node_max(ref_node), ref_node_n(ref_node), o2n, n2o);
      } else {
        if (REF_SUCCESS == s) s = ref_node_pack(ref_node, o2n, n2o);
        fprintf(out, "%s\n", h_status(s));
      }
      free(o2n);
      free(n2o);
    } else if (is_op("ndump", 1)) {
      node_dump();
    /* ---------------- ref_cell ---------------- */
    } else if (0 == strcmp(op, "cadd")) {
      REF_INT nodes[REF_CELL_MAX_SIZE_PER], i, cell = REF_EMPTY;
      REF_STATUS s;
      if (h_nw - 1 != ref_cell_size_per(ref_cell) || !nodes_ok(1, h_nw - 1)) { fputs("bad-op\n", out); continue; }
      for (i = 0; i < h_nw - 1; i++) nodes[i] = (REF_INT)h_i(h_w[1 + i]);
      s = ref_cell_add(ref_cell, nodes, &cell);
      if (REF_SUCCESS == s) fprintf(out, "ok %d\n", cell);
      else fprintf(out, "%s\n", h_status(s));
    } else if (is_op("cremove", 2)) {
      fprintf(out, "%s\n", h_status(ref_cell_remove(ref_cell, (REF_INT)h_i(h_w[1]))));
    } else if (0 == strcmp(op, "creplace_whole") && h_nw >= 2) {
      REF_INT nodes[REF_CELL_MAX_SIZE_PER], i;
      if (h_nw - 2 != ref_cell_size_per(ref_cell) || !nodes_ok(2, h_nw - 2)) { fputs("bad-op\n", out); continue; }
      for (i = 0; i < h_nw - 2; i++) nodes[i] = (REF_INT)h_i(h_w[2 + i]);
      fprintf(out, "%s\n", h_status(ref_cell_replace_whole(ref_cell, (REF_INT)h_i(h_w[1]), nodes)));
    } else if (is_op("creplace_node", 3)) {
      REF_INT old = (REF_INT)h_i(h_w[1]), item, cell, k, hang = 0;
      if (!nodes_ok(2, 1)) { fputs("bad-op\n", out); continue; }
      /* harness guard: the while loop of ref_cell_replace_node never ends when a cell registered around `old`
         does not contain `old` (only reachable after an error status left the store inconsistent) */
      if (old != (REF_INT)h_i(h_w[2])) {
        each_ref_cell_having_node(ref_cell, old, item, cell) {
          int has = 0;
          for (k = 0; k < ref_cell_node_per(ref_cell); k++)
            if (old == ref_cell_c2n(ref_cell, k, cell)) has = 1;
          if (!has) hang = 1;
        }
      }
      if (hang) { fputs("hang\n", out); continue; }
      fprintf(out, "%s\n",
              h_status(ref_cell_replace_node(ref_cell, (REF_INT)h_i(h_w[1]), (REF_INT)h_i(h_w[2]))));
    } else if (0 == strcmp(op, "cwith")) {
      REF_INT nodes[REF_CELL_MAX_SIZE_PER], i, cell = 0;
      REF_STATUS s;
      if (h_nw - 1 != ref_cell_node_per(ref_cell)) { fputs("bad-op\n", out); continue; }
      for (i = 0; i < h_nw - 1; i++) nodes[i] = (REF_INT)h_i(h_w[1 + i]);
      s = ref_cell_with(ref_cell, nodes, &cell);
      fprintf(out, "%s %d\n", h_status(s), cell);
    } else if (is_op("chas_side", 3)) {
      REF_BOOL has = REF_FALSE;
      ref_cell_has_side(ref_cell, (REF_INT)h_i(h_w[1]), (REF_INT)h_i(h_w[2]), &has);
      fprintf(out, "%d\n", has ? 1 : 0);
    } else if (is_op("cdegree_with2", 3)) {
      REF_INT deg = 0;
      ref_cell_degree_with2(ref_cell, (REF_INT)h_i(h_w[1]), (REF_INT)h_i(h_w[2]), &deg);
      fprintf(out, "%d\n", deg);
    } else if (is_op("clist_with2", 4) || is_op("cnode_list_around", 3) || is_op("cid_list_around", 3)) {
      REF_INT list[LIST_MAX + 1], n = 0, i;
      REF_STATUS s;
      long long m = h_i(h_w[h_nw - 1]);
      if (m < 0 || m > LIST_MAX) { fputs("bad-op\n", out); continue; }
      if ('l' == op[1]) {
        s = ref_cell_list_with2(ref_cell, (REF_INT)h_i(h_w[1]), (REF_INT)h_i(h_w[2]), (REF_INT)m, &n, list);
      } else if ('n' == op[1]) {
        s = ref_cell_node_list_around(ref_cell, (REF_INT)h_i(h_w[1]), (REF_INT)m, &n, list);
      } else {
        if (!ref_cell_last_node_is_an_id(ref_cell)) { fputs("bad-op\n", out); continue; }
        s = ref_cell_id_list_around(ref_cell, (REF_INT)h_i(h_w[1]), (REF_INT)m, &n, list);
      }
      if (REF_SUCCESS != s) { fprintf(out, "%s\n", h_status(s)); continue; }
      fprintf(out, "ok %d", n);
      fputc(' ', out);
      for (i = 0; i < n; i++) fprintf(out, "%s%d", i ? " " : "", list[i]);
      fputc('\n', out);
    } else if (is_op("cnodes", 2)) {
      REF_INT nodes[REF_CELL_MAX_SIZE_PER], i;
      REF_STATUS s = ref_cell_nodes(ref_cell, (REF_INT)h_i(h_w[1]), nodes);
      if (REF_SUCCESS != s) { fprintf(out, "%s\n", h_status(s)); continue; }
      fprintf(out, "ok ");
      for (i = 0; i < ref_cell_size_per(ref_cell); i++) fprintf(out, "%s%d", i ? " " : "", nodes[i]);
      fputc('\n', out);
    } else if (is_op("cvalid", 2)) {
      REF_INT c = (REF_INT)h_i(h_w[1]);
      fprintf(out, "%d\n", ref_cell_valid(ref_cell, c) ? 1 : 0);
    } else if (is_op("cn", 1)) {
      fprintf(out, "%d %d\n", ref_cell_n(ref_cell), ref_cell_max(ref_cell));
    } else if (is_op("ccompact", 1)) {
      REF_INT *o2n = NULL, *n2o = NULL;
      REF_STATUS s = ref_cell_compact(ref_cell, &o2n, &n2o);
      print_maps(s, ref_cell_max(ref_cell), ref_cell_n(ref_cell), o2n, n2o);
      free(o2n);
      free(n2o);
    } else if (is_op("cpack", 2)) {
      long long k = h_i(h_w[1]);
      REF_INT cell, node, i, *o2n;
      int ok = (k >= 1 && k <= 100000);
      for (cell = 0; ok && cell < ref_cell_max(ref_cell); cell++)
        if (ref_cell_valid(ref_cell, cell))
          for (node = 0; node < ref_cell_node_per(ref_cell); node++)
            if (ref_cell_c2n(ref_cell, node, cell) < 0 || ref_cell_c2n(ref_cell, node, cell) >= k) ok = 0;
      if (!ok) { fputs("bad-op\n", out); continue; }
      o2n = (REF_INT *)malloc(sizeof(REF_INT) * (size_t)k);
      for (i = 0; i < k; i++) o2n[i] = (REF_INT)(k - 1 - i);
      fprintf(out, "%s\n", h_status(ref_cell_pack(ref_cell, o2n)));
      free(o2n);
    } else if (is_op("cdump", 1)) {
      cell_dump();
    } else {
      fputs("bad-op\n", out);
    }
  }
  fflush(out);
  return 0;
}
