/* harness `interppack` (property C05, work package interppack): the alignment of the per-vertex donor records
   (ref_interp->cell / part / bary) with their vertices across a renumbering of the vertex slots, on the REAL code:
   ref_node_stable_compact | ref_node_compact | ref_edge_rcm  +  ref_node_pack  +  ref_cell_pack  +  ref_geom_pack  +
   ref_interp_pack, on a tet brick (ref_fixture_tet_brick_args_grid) whose background is cached exactly as `ref adapt`
   does (ref_grid_cache_background).

   one stateless op per line:
     pack <mode> <l> <m> <n> <seed> <rm> <resize> K k1..kK A g1..gA G s1..sG H h1..hH
       mode    stable  : the body of ref_grid_stable_pack without ref_node_synchronize_globals
               compact : the same with ref_node_compact (owned first, ghosts last)
               gstable : the real ref_grid_stable_pack          (oracle only)
               grid    : the real ref_grid_pack (ref_edge_rcm)  (oracle only)
       l m n   brick dimensions (vertices per direction, each >= 2): vertex slot = global = i + j*l + k*l*m
       seed    payload: for EVERY slot i < ref_interp_max: cell = 1000*seed + 7*i + 1, part = (i + seed) % 4,
               bary[4*i + k] = 0.25 * (4*i + k) + seed      (written after ref_grid_cache_background)
       rm      1: ref_interp_remove before each ref_node_remove (what ref_collapse does), 0: the record is left stale
       K..     vertices to delete, in order (their cells are removed first)
       A..     globals to add afterwards (ref_node_add: recycled slots, LIFO), xyz = (g, g + 0.5, -g)
       resize  > 0: ref_interp_resize(ref_interp, resize) after the adds
       G..     slots whose ref_node_part becomes 1 (ghosts for `compact`)
       H..     slots with agent_hired = TRUE
     -> `<status> n <n> max <imax> pre <c> {g x y z cell part b0 b1 b2 b3}*c post <c> {..}*c dead <d>`
        pre / post: every valid slot, sorted by global, before / after the pack; d = number of slots in [n, imax) whose
        cell or part is not REF_EMPTY after the pack.
        `oob n <n> max <imax>`: the call was NOT made because ref_interp_pack would index outside its arrays
        (n > max, or a live slot >= max) - see Model/InterpPack.lean.   `bad-op` for a malformed line.
   refine prints diagnostics on stdout: the protocol goes to a dup of the original descriptor. */
#include <unistd.h>

#include "h_proto.h"
/* */
#include "ref_cell.h"
#include "ref_edge.h"
#include "ref_fixture.h"
#include "ref_geom.h"
#include "ref_grid.h"
#include "ref_interp.h"
#include "ref_malloc.h"
#include "ref_mpi.h"
#include "ref_node.h"
#include "ref_sort.h"

static FILE *out;
static REF_MPI ref_mpi;

static int cmp_glob(const void *a, const void *b) {
  const REF_GLOB *x = (const REF_GLOB *)a, *y = (const REF_GLOB *)b;
  return (x[0] > y[0]) - (x[0] < y[0]);
}

static void dump(REF_GRID ref_grid, const char *tag) {
  REF_NODE ref_node = ref_grid_node(ref_grid);
  REF_INTERP ref_interp = ref_grid_interp(ref_grid);
  REF_INT node, c = 0, i, k;
  REF_GLOB *gs;
  gs = (REF_GLOB *)malloc(sizeof(REF_GLOB) * 2 * (size_t)(ref_node_n(ref_node) + 1));
  each_ref_node_valid_node(ref_node, node) {
    gs[2 * c] = ref_node_global(ref_node, node);
    gs[2 * c + 1] = node;
    c++;
  }
  qsort(gs, (size_t)c, 2 * sizeof(REF_GLOB), cmp_glob);
  fprintf(out, " %s %d", tag, c);
  for (i = 0; i < c; i++) {
    node = (REF_INT)gs[2 * i + 1];
    fprintf(out, " %lld ", (long long)gs[2 * i]);
    h_pf(out, ref_node_xyz(ref_node, 0, node));
    fputc(' ', out);
    h_pf(out, ref_node_xyz(ref_node, 1, node));
    fputc(' ', out);
    h_pf(out, ref_node_xyz(ref_node, 2, node));
    if (node < ref_interp_max(ref_interp)) {
      fprintf(out, " %d %d", ref_interp->cell[node], ref_interp->part[node]);
      for (k = 0; k < 4; k++) {
        fputc(' ', out);
        h_pf(out, ref_interp->bary[k + 4 * node]);
      }
    } else {
      fprintf(out, " -1 -1 nan nan nan nan"); /* slot not covered by the interp arrays */
    }
  }
  free(gs);
}

static REF_STATUS manual_pack(REF_GRID ref_grid, int compact) {
  REF_INT group;
  REF_INT *o2n, *n2o;
  REF_CELL ref_cell;
  if (compact) {
    RSS(ref_node_compact(ref_grid_node(ref_grid), &o2n, &n2o), "compact");
  } else {
    RSS(ref_node_stable_compact(ref_grid_node(ref_grid), &o2n, &n2o), "stable compact");
  }
  RSS(ref_node_pack(ref_grid_node(ref_grid), o2n, n2o), "pack node");
  each_ref_grid_all_ref_cell(ref_grid, group, ref_cell) { RSS(ref_cell_pack(ref_cell, o2n), "pack cell"); }
  RSS(ref_geom_pack(ref_grid_geom(ref_grid), o2n), "pack geom");
  {
    REF_STATUS s = ref_interp_pack(ref_grid_interp(ref_grid), n2o);
    ref_free(n2o);
    ref_free(o2n);
    return s;
  }
}

static void do_op(void) {
  REF_GRID ref_grid = NULL;
  REF_NODE ref_node;
  REF_INTERP ref_interp;
  REF_INT l, m, n, seed, rm, resize, mode = -1;
  REF_INT w, cnt, i, k, node, group, cell, imax;
  REF_INT nodes[REF_CELL_MAX_SIZE_PER];
  REF_CELL ref_cell;
  REF_STATUS s;
  REF_BOOL any_hired, safe;
  int bad = 0;
  if (0 != strcmp(h_w[0], "pack") || h_nw < 12) {
    fprintf(out, "bad-op\n");
    return;
  }
  if (0 == strcmp(h_w[1], "stable")) mode = 0;
  if (0 == strcmp(h_w[1], "compact")) mode = 1;
  if (0 == strcmp(h_w[1], "gstable")) mode = 2;
  if (0 == strcmp(h_w[1], "grid")) mode = 3;
  l = (REF_INT)h_i(h_w[2]);
  m = (REF_INT)h_i(h_w[3]);
  n = (REF_INT)h_i(h_w[4]);
  seed = (REF_INT)h_i(h_w[5]);
  rm = (REF_INT)h_i(h_w[6]);
  resize = (REF_INT)h_i(h_w[7]);
  if (mode < 0 || l < 2 || m < 2 || n < 2 || l * m * n > 200 || seed < 0 || seed > 1000 || resize < 0 || resize > 20000) {
    fprintf(out, "bad-op\n");
    return;
  }
  /* the four lists must be well formed before anything is built */
  w = 8;
  for (k = 0; k < 4; k++) {
    if (w >= h_nw) { bad = 1; break; }
    cnt = (REF_INT)h_i(h_w[w]);
    if (cnt < 0 || w + 1 + cnt > h_nw) { bad = 1; break; }
    w += 1 + cnt;
  }
  if (bad || w != h_nw) {
    fprintf(out, "bad-op\n");
    return;
  }
  if (REF_SUCCESS != ref_fixture_tet_brick_args_grid(&ref_grid, ref_mpi, 0.0, 1.0, 0.0, 1.0, 0.0, 1.0, l, m, n)) {
    fprintf(out, "bad-op\n");
    return;
  }
  ref_node = ref_grid_node(ref_grid);
  if (REF_SUCCESS != ref_grid_cache_background(ref_grid)) {
    fprintf(out, "bad-op\n");
    ref_grid_free(ref_grid);
    return;
  }
  ref_interp = ref_grid_interp(ref_grid);
  for (i = 0; i < ref_interp_max(ref_interp); i++) {
    ref_interp->cell[i] = 1000 * seed + 7 * i + 1;
    ref_interp->part[i] = (i + seed) % 4;
    for (k = 0; k < 4; k++) ref_interp->bary[k + 4 * i] = 0.25 * (REF_DBL)(4 * i + k) + (REF_DBL)seed;
  }
  /* K: deletions */
  w = 8;
  cnt = (REF_INT)h_i(h_w[w]);
  for (i = 0; i < cnt && !bad; i++) {
    node = (REF_INT)h_i(h_w[w + 1 + i]);
    if (!ref_node_valid(ref_node, node)) { bad = 1; break; }
    each_ref_grid_all_ref_cell(ref_grid, group, ref_cell) {
      each_ref_cell_valid_cell_with_nodes(ref_cell, cell, nodes) {
        REF_INT cn, has = 0;
        for (cn = 0; cn < ref_cell_node_per(ref_cell); cn++)
          if (node == nodes[cn]) has = 1;
        if (has && REF_SUCCESS != ref_cell_remove(ref_cell, cell)) bad = 1;
      }
    }
    if (rm && node < ref_interp_max(ref_interp)) {
      if (REF_SUCCESS != ref_interp_remove(ref_interp, node)) bad = 1;
    }
    if (REF_SUCCESS != ref_node_remove(ref_node, node)) bad = 1;
  }
  w += 1 + cnt;
  /* A: additions */
  cnt = (REF_INT)h_i(h_w[w]);
  for (i = 0; i < cnt && !bad; i++) {
    REF_GLOB g = (REF_GLOB)h_i(h_w[w + 1 + i]);
    if (g < 0 || g > 1000000 || REF_SUCCESS == ref_node_local(ref_node, g, &node)) { bad = 1; break; }
    if (REF_SUCCESS != ref_node_add(ref_node, g, &node)) { bad = 1; break; }
    ref_node_xyz(ref_node, 0, node) = (REF_DBL)g;
    ref_node_xyz(ref_node, 1, node) = (REF_DBL)g + 0.5;
    ref_node_xyz(ref_node, 2, node) = -(REF_DBL)g;
  }
  w += 1 + cnt;
  if (!bad && resize > 0) {
    REF_INT before = ref_interp_max(ref_interp);
    if (REF_SUCCESS != ref_interp_resize(ref_interp, resize)) bad = 1;
    /* the new bary entries are uninitialised memory: give them a printable value (the model's `junk`) */
    for (i = 4 * before; !bad && i < 4 * resize; i++) ref_interp->bary[i] = NAN;
  }
  /* G: ghosts */
  cnt = (REF_INT)h_i(h_w[w]);
  for (i = 0; i < cnt && !bad; i++) {
    node = (REF_INT)h_i(h_w[w + 1 + i]);
    if (!ref_node_valid(ref_node, node)) { bad = 1; break; }
    ref_node_part(ref_node, node) = 1;
  }
  w += 1 + cnt;
  /* H: hired */
  cnt = (REF_INT)h_i(h_w[w]);
  for (i = 0; i < cnt && !bad; i++) {
    node = (REF_INT)h_i(h_w[w + 1 + i]);
    if (node < 0 || node >= ref_interp_max(ref_interp)) { bad = 1; break; }
    ref_interp->agent_hired[node] = REF_TRUE;
  }
  if (bad) {
    fprintf(out, "bad-op\n");
    for (i = 0; i < ref_interp_max(ref_interp); i++) ref_interp->agent_hired[i] = REF_FALSE;
    ref_grid_free(ref_grid);
    return;
  }
  if (3 == mode) {
    /* ref_edge_rcm needs every valid vertex to have an edge (it writes o2n[-1] otherwise): hang a triangle on
       vertices the edits left without cells */
    each_ref_node_valid_node(ref_node, node) {
      if (ref_cell_node_empty(ref_grid_tet(ref_grid), node) && ref_cell_node_empty(ref_grid_tri(ref_grid), node)) {
        REF_INT other, found = 0;
        nodes[0] = node;
        each_ref_node_valid_node(ref_node, other) {
          if (other != node && found < 2) nodes[1 + (found++)] = other;
        }
        nodes[3] = 1;
        if (found < 2 || REF_SUCCESS != ref_cell_add(ref_grid_tri(ref_grid), nodes, &cell)) {
          fprintf(out, "hanging\n");
          ref_grid_free(ref_grid);
          return;
        }
      }
    }
  }
  imax = ref_interp_max(ref_interp);
  any_hired = REF_FALSE;
  for (i = 0; i < imax; i++) any_hired = any_hired || ref_interp->agent_hired[i];
  /* every index ref_interp_pack will use is < imax whatever the renumbering is */
  safe = (ref_node_n(ref_node) <= imax);
  each_ref_node_valid_node(ref_node, node) {
    if (node >= imax) safe = REF_FALSE;
  }
  if (!any_hired && !safe) {
    fprintf(out, "oob n %d max %d\n", ref_node_n(ref_node), imax);
    ref_grid_free(ref_grid);
    return;
  }
  {
    char *buf = NULL;
    size_t len = 0;
    FILE *keep = out, *mem = open_memstream(&buf, &len);
    out = mem;
    dump(ref_grid, "pre");
    out = keep;
    switch (mode) {
      case 0: s = manual_pack(ref_grid, 0); break;
      case 1: s = manual_pack(ref_grid, 1); break;
      case 2: s = ref_grid_stable_pack(ref_grid); break;
      default: s = ref_grid_pack(ref_grid); break;
    }
    fclose(mem);
    fprintf(out, "%s n %d max %d", h_status(s), ref_node_n(ref_node), ref_interp_max(ref_interp));
    if (REF_SUCCESS == s) {
      REF_INT dead = 0;
      fputs(buf, out);
      dump(ref_grid, "post");
      for (i = ref_node_n(ref_node); i < ref_interp_max(ref_interp); i++)
        if (REF_EMPTY != ref_interp->cell[i] || REF_EMPTY != ref_interp->part[i]) dead++;
      fprintf(out, " dead %d", dead);
    }
    fputc('\n', out);
    free(buf);
  }
  for (i = 0; i < ref_interp_max(ref_interp); i++) ref_interp->agent_hired[i] = REF_FALSE;
  ref_grid_free(ref_grid);
}

int main(int argc, char *argv[]) {
  int fd = dup(1);
  if (fd < 0) return 3;
  out = fdopen(fd, "w");
  if (!out) return 3;
  if (!freopen("/dev/null", "w", stdout)) return 3;
  if (REF_SUCCESS != ref_mpi_start(argc, argv)) return 3;
  if (REF_SUCCESS != ref_mpi_create(&ref_mpi)) return 3;
  while (h_next(stdin)) do_op();
  fflush(out);
  ref_mpi_free(ref_mpi);
  ref_mpi_stop();
  return 0;
}
