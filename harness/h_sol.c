/* harness `sol`: text + binary field/metric readers and writers on one or several ranks (C09).
 *
 *   rd_metric NP EXT FLOOR N | FILE | K g*K | ... (one node group per rank)
 *        every rank builds a REF_NODE with local i <-> global g_i, n_global = N; rank 0 writes FILE to
 *        `h_sol_<pid>EXT`; the REAL ref_part_metric is called; output `ok | m*6 per local node | ...` (one group per
 *        rank, bit patterns of ref_node->real[3..8]) or the status name.
 *   rd_scalar NP EXT FLOOR N | FILE | K g*K | ...     REAL ref_part_scalar -> `ok LDIM | v*LDIM per node | ...`
 *   rd_bamg   NP FLOOR N     | FILE | K g*K | ...     REAL ref_part_bamg_metric
 *   wr_metric NP EXT TWOD VER RBL N | K (g part m*6)*K | ...      REAL ref_gather_metric -> `ok FILE`
 *   wr_scalar NP EXT TWOD VER RBL N LDIM | K (g part v*LDIM)*K | ...   REAL ref_gather_scalar_by_extension
 *
 * FILE: `x:<hex bytes>` (one token, binary) or text tokens `w:<word>` `i:<int>` `f:<16 hex>` (a double, written
 *   with %.17g).  A written text file is printed back token by token with the same tags (a token strtol consumes
 *   entirely is `i:`, one strtod consumes entirely is `f:` with the bits of the parsed value).
 * FLOOR: the constant 100000 of `chunk = MAX(100000, nnode/np)` in the readers is replaced by FLOOR through a MAX shim
 *   in the white-box include of ref_part.c (no source change); FLOOR = 100000 is the production value.
 * RBL: ref_mpi->reduce_byte_limit for the call (the REF_VERIF_REDUCE_BYTE_LIMIT knob); a limit that makes the
 *   writer's chunk 0 is answered `hang` without calling (the C loop would not advance).
 * Under mpiexec only rank 0 reads the op lines and broadcasts them; only rank 0 prints.
 */
#include "h_proto.h"
#include <signal.h>
#include <unistd.h>
#ifdef HAVE_MPI
#include <mpi.h>
#endif

#include "ref_defs.h"
static long h_floor = 100000;
#undef MAX
#define MAX(a, b) (((a) == 100000) ? (h_floor > (long)(b) ? h_floor : (b)) : ((a) > (b) ? (a) : (b)))
#include "ref_part.c"
#undef MAX
#define MAX(a, b) ((a) > (b) ? (a) : (b))

#include "ref_gather.h"

static FILE *out;
static int me, np;
static REF_MPI ref_mpi;
static char fname[256];

static int is_int_tok(const char *s) {
  if (*s == '-') s++;
  if (!*s) return 0;
  for (; *s; s++)
    if (*s < '0' || *s > '9') return 0;
  return 1;
}
static int is_nat_tok(const char *s) { return *s != '-' && is_int_tok(s) && strlen(s) <= 9; }
static int is_hex16(const char *s) {
  int i;
  for (i = 0; s[i]; i++)
    if (!((s[i] >= '0' && s[i] <= '9') || (s[i] >= 'a' && s[i] <= 'f'))) return 0;
  return i == 16;
}
static int hexval(int c) {
  if (c >= '0' && c <= '9') return c - '0';
  if (c >= 'a' && c <= 'f') return c - 'a' + 10;
  return -1;
}

/* ---- result string of this rank ---- */
static char *res;
static size_t res_n, res_cap;
static void r_reset(void) {
  res_n = 0;
  if (res) res[0] = 0;
}
static void r_put(const char *s) {
  size_t l = strlen(s);
  if (res_n + l + 2 > res_cap) {
    res_cap = 2 * (res_n + l + 2) + 64;
    res = (char *)realloc(res, res_cap);
  }
  if (res_n > 0) res[res_n++] = ' ';
  memcpy(res + res_n, s, l + 1);
  res_n += l;
}
static void r_ll(long long v) {
  char b[32];
  snprintf(b, sizeof b, "%lld", v);
  r_put(b);
}
static void r_bits(double d, const char *tag) {
  char b[40];
  uint64_t u;
  memcpy(&u, &d, 8);
  if (d != d) snprintf(b, sizeof b, "%snan", tag);
  else snprintf(b, sizeof b, "%s%016llx", tag, (unsigned long long)u);
  r_put(b);
}

#define BAD 1
#define HANG 2

/* ---- groups ---- */
#define MAXG 64
static int g_lo[MAXG], g_hi[MAXG], ng, hdr_end;
static int split_groups(void) {
  int i;
  ng = 0;
  hdr_end = h_nw;
  for (i = 1; i < h_nw; i++) {
    if (0 == strcmp(h_w[i], "|")) {
      if (ng == 0) hdr_end = i;
      else g_hi[ng - 1] = i;
      if (ng >= MAXG) return 0;
      g_lo[ng] = i + 1;
      g_hi[ng] = h_nw;
      ng++;
    }
  }
  return 1;
}
#define GLEN(g) (g_hi[g] - g_lo[g])
#define GW(g, k) (h_w[g_lo[g] + (k)])
#define NHDR (hdr_end - 2)
#define HDR(k) (h_w[2 + (k)])

/* validate the FILE group g; returns 0 ok */
static int check_file(int g) {
  int i;
  if (GLEN(g) == 1 && 0 == strncmp(GW(g, 0), "x:", 2)) {
    const char *s = GW(g, 0) + 2;
    size_t l = strlen(s);
    if (0 == strcmp(s, "-")) return 0;
    if (l % 2) return BAD;
    for (i = 0; s[i]; i++)
      if (hexval(s[i]) < 0) return BAD;
    return 0;
  }
  for (i = 0; i < GLEN(g); i++) {
    const char *t = GW(g, i);
    if (0 == strncmp(t, "w:", 2)) {
      const char *p = t + 2;
      if (!*p || strlen(p) > 100) return BAD;
      for (; *p; p++)
        if (!((*p >= 'a' && *p <= 'z') || (*p >= 'A' && *p <= 'Z'))) return BAD;
      /* words strtod would read as a number are not words */
      if (0 == strncasecmp(t + 2, "nan", 3) || 0 == strncasecmp(t + 2, "inf", 3)) return BAD;
    } else if (0 == strncmp(t, "i:", 2)) {
      if (!is_int_tok(t + 2) || strlen(t + 2) > 9) return BAD;
    } else if (0 == strncmp(t, "f:", 2)) {
      double d;
      if (!is_hex16(t + 2)) return BAD;
      d = h_f(t + 2);
      if (d != d || d - d != 0.0) return BAD; /* finite only */
    } else return BAD;
  }
  return 0;
}

static int write_file(int g, const char *name) {
  FILE *f = fopen(name, "w");
  int i;
  if (!f) return BAD;
  if (GLEN(g) == 1 && 0 == strncmp(GW(g, 0), "x:", 2)) {
    const char *s = GW(g, 0) + 2;
    if (strcmp(s, "-"))
      for (i = 0; s[i]; i += 2) fputc(16 * hexval(s[i]) + hexval(s[i + 1]), f);
  } else {
    for (i = 0; i < GLEN(g); i++) {
      const char *t = GW(g, i);
      if (t[0] == 'w' || t[0] == 'i') fprintf(f, "%s", t + 2);
      else fprintf(f, "%.17g", h_f(t + 2));
      fputc((i % 7 == 6 || t[0] == 'w') ? '\n' : ' ', f);
    }
    fputc('\n', f);
  }
  fclose(f);
  return 0;
}

/* node group `K (g [part v*w])*K` with record length rec; distinct globals < N */
static int check_nodes(int g, int rec, long long N) {
  int k, i, j;
  if (GLEN(g) < 1 || !is_nat_tok(GW(g, 0))) return -1;
  k = (int)h_i(GW(g, 0));
  if (k > 5000 || (long long)1 + (long long)rec * k != GLEN(g)) return -1;
  for (i = 0; i < k; i++) {
    if (!is_nat_tok(GW(g, 1 + rec * i)) || h_i(GW(g, 1 + rec * i)) >= N) return -1;
    if (rec > 1 && (!is_nat_tok(GW(g, 2 + rec * i)) || h_i(GW(g, 2 + rec * i)) >= 64)) return -1;
    for (j = 2; j < rec; j++)
      if (!is_hex16(GW(g, 1 + rec * i + j))) return -1;
    for (j = 0; j < i; j++)
      if (h_i(GW(g, 1 + rec * i)) == h_i(GW(g, 1 + rec * j))) return -1;
  }
  return k;
}

/* ---- collect one string per rank on rank 0 and print ---- */
static void finish(int rc, int st, int with_rows) {
  int all_ok = (REF_SUCCESS == st), st0 = st;
#ifdef HAVE_MPI
  {
    int mine = all_ok, v = 0;
    MPI_Allreduce(&mine, &v, 1, MPI_INT, MPI_MIN, MPI_COMM_WORLD);
    all_ok = v;
    MPI_Bcast(&st0, 1, MPI_INT, 0, MPI_COMM_WORLD);
  }
#endif
  if (rc == BAD) {
    if (0 == me) fputs("bad-op\n", out);
  } else if (rc == HANG) {
    if (0 == me) fputs("hang\n", out);
  } else if (!all_ok) {
    if (0 == me) fprintf(out, "%s\n", REF_SUCCESS == st0 ? "rankfail" : h_status(st0));
  } else if (!with_rows) {
    if (0 == me) fprintf(out, "%s\n", res);
  } else {
#ifdef HAVE_MPI
    int r;
    if (0 == me) {
      fputs(res, out);
      for (r = 1; r < np; r++) {
        int len;
        char *b;
        MPI_Recv(&len, 1, MPI_INT, r, 7, MPI_COMM_WORLD, MPI_STATUS_IGNORE);
        b = (char *)malloc((size_t)len + 1);
        MPI_Recv(b, len + 1, MPI_CHAR, r, 8, MPI_COMM_WORLD, MPI_STATUS_IGNORE);
        fprintf(out, " %s", b);
        free(b);
      }
      fputc('\n', out);
    } else {
      int len;
      if (!res) { /* make sure res is allocated */
        r_put("x");
        r_reset();
      }
      len = (int)res_n;
      res[len] = 0;
      MPI_Send(&len, 1, MPI_INT, 0, 7, MPI_COMM_WORLD);
      MPI_Send(res, len + 1, MPI_CHAR, 0, 8, MPI_COMM_WORLD);
    }
#else
    fprintf(out, "%s\n", res);
#endif
  }
  if (0 == me) fflush(out);
}

static REF_GRID build_grid(int g, int rec, long long N, REF_INT **locals) {
  REF_GRID grid = NULL;
  REF_NODE node;
  int k = (int)h_i(GW(g, 0)), i;
  if (REF_SUCCESS != ref_grid_create(&grid, ref_mpi)) return NULL;
  node = ref_grid_node(grid);
  *locals = (REF_INT *)malloc(sizeof(REF_INT) * (size_t)(k + 1));
  for (i = 0; i < k; i++) {
    if (REF_SUCCESS != ref_node_add(node, (REF_GLOB)h_i(GW(g, 1 + rec * i)), &((*locals)[i]))) return NULL;
    ref_node_part(node, (*locals)[i]) = rec > 1 ? (REF_INT)h_i(GW(g, 2 + rec * i)) : me;
    ref_node_xyz(node, 0, (*locals)[i]) = (double)i;
    ref_node_xyz(node, 1, (*locals)[i]) = 0.0;
    ref_node_xyz(node, 2, (*locals)[i]) = 0.0;
  }
  if (REF_SUCCESS != ref_node_initialize_n_global(node, (REF_GLOB)N)) return NULL;
  return grid;
}

/* kind: 0 metric, 1 scalar, 2 bamg */
static void op_read(int kind) {
  int hdr = (2 == kind) ? 2 : 3, rc = 0, g, k, i, j;
  const char *ext = (2 == kind) ? ".met" : NULL;
  long long N = 0, fl = 0;
  REF_GRID grid = NULL;
  REF_INT *locals = NULL, ldim = 0;
  REF_DBL *scalar = NULL;
  REF_STATUS st = REF_SUCCESS;
  r_reset();
  fname[0] = 0;
  if (NHDR != hdr || ng != np + 1) rc = BAD;
  if (!rc) {
    if (2 != kind) ext = HDR(0);
    if (strlen(ext) > 40 || strchr(ext, '/') || !is_nat_tok(HDR(hdr - 2)) || !is_nat_tok(HDR(hdr - 1))) rc = BAD;
  }
  if (!rc) {
    fl = h_i(HDR(hdr - 2));
    N = h_i(HDR(hdr - 1));
    if (fl < 1 || N < 1 || N > 100000 || check_file(0)) rc = BAD;
    for (g = 1; g <= np && !rc; g++)
      if (check_nodes(g, 1, N) < 0) rc = BAD;
  }
  if (!rc) {
    snprintf(fname, sizeof fname, "h_sol_%d%s", (int)getppid(), ext);
    if (0 == me && write_file(0, fname)) rc = BAD;
  }
  if (!rc) {
    grid = build_grid(1 + me, 1, N, &locals);
    if (!grid) rc = BAD;
  }
#ifdef HAVE_MPI
  {
    int v = rc;
    MPI_Allreduce(&v, &rc, 1, MPI_INT, MPI_MAX, MPI_COMM_WORLD);
  }
#endif
  if (!rc) {
    h_floor = (long)fl;
    if (0 == kind) st = ref_part_metric(ref_grid_node(grid), fname);
    else if (1 == kind) st = ref_part_scalar(grid, &ldim, &scalar, fname);
    else st = ref_part_bamg_metric(grid, fname);
    h_floor = 100000;
    if (REF_SUCCESS == st) {
      REF_NODE node = ref_grid_node(grid);
      k = (int)h_i(GW(1 + me, 0));
      if (0 == me) {
        r_put("ok");
        if (1 == kind) r_ll(ldim);
      }
      r_put("|");
      for (i = 0; i < k; i++) {
        if (1 == kind)
          for (j = 0; j < ldim; j++) r_bits(scalar[j + ldim * locals[i]], "");
        else
          for (j = 0; j < 6; j++) r_bits(node->real[(j + 3) + REF_NODE_REAL_PER * locals[i]], "");
      }
    }
  }
  finish(rc, (int)st, 1);
  if (0 == me && fname[0]) remove(fname);
  free(scalar);
  free(locals);
  if (grid) ref_grid_free(grid);
}

static int dump_text(const char *name) {
  FILE *f = fopen(name, "r");
  static char tok[4096];
  if (!f) return BAD;
  /* csv separators are white space for the dump */
  while (1 == fscanf(f, " %4000[^ \t\r\n,]", tok)) {
    char *end;
    int c;
    (void)strtol(tok, &end, 10);
    if (*end == 0 && end != tok && strlen(tok) <= 10) {
      char b[64];
      snprintf(b, sizeof b, "i:%s", tok);
      r_put(b);
    } else {
      double d = strtod(tok, &end);
      if (*end == 0 && end != tok) r_bits(d, "f:");
      else {
        char b[4100];
        snprintf(b, sizeof b, "w:%s", tok);
        r_put(b);
      }
    }
    c = fgetc(f);
    if (c == EOF) break;
  }
  fclose(f);
  return 0;
}

static int dump_bin(const char *name) {
  FILE *f = fopen(name, "rb");
  static const char *hx = "0123456789abcdef";
  size_t n = 0, cap = 1 << 16;
  char *b;
  int c;
  if (!f) return BAD;
  b = (char *)malloc(cap);
  b[n++] = 'x';
  b[n++] = ':';
  while (EOF != (c = fgetc(f))) {
    if (n + 4 > cap) b = (char *)realloc(b, cap *= 2);
    b[n++] = hx[c >> 4];
    b[n++] = hx[c & 15];
  }
  if (n == 2) b[n++] = '-';
  b[n] = 0;
  r_put(b);
  free(b);
  fclose(f);
  return 0;
}

static int is_binary_ext(const char *ext) {
  size_t l = strlen(ext);
  return (l >= 5 && 0 == strcmp(ext + l - 5, ".solb")) || (l >= 4 && 0 == strcmp(ext + l - 4, ".bin")) ||
         (l >= 4 && 0 == strcmp(ext + l - 4, ".rst"));
}

/* metric != 0: wr_metric, else wr_scalar */
static void op_write(int metric) {
  int hdr = metric ? 5 : 6, rc = 0, g, k, i, j, ldim = 6, rec;
  const char *ext = NULL;
  long long twod = 0, ver = 0, rbl = 0, N = 0;
  REF_GRID grid = NULL;
  REF_INT *locals = NULL;
  REF_DBL *scalar = NULL;
  REF_STATUS st = REF_SUCCESS;
  r_reset();
  fname[0] = 0;
  if (NHDR != hdr || ng != np) rc = BAD;
  if (!rc) {
    ext = HDR(0);
    if (strlen(ext) > 40 || strchr(ext, '/') || !is_nat_tok(HDR(1)) || !is_nat_tok(HDR(2)) || !is_int_tok(HDR(3)) ||
        strlen(HDR(3)) > 10 || !is_nat_tok(HDR(4)) || (!metric && !is_nat_tok(HDR(5))))
      rc = BAD;
  }
  if (!rc) {
    twod = h_i(HDR(1));
    ver = h_i(HDR(2));
    rbl = h_i(HDR(3));
    N = h_i(HDR(4));
    if (!metric) ldim = (int)h_i(HDR(5));
    if (twod > 1 || ver > 4 || N < 1 || N > 100000 || ldim > 40 || rbl > 2147483647LL || rbl < -2147483648LL) rc = BAD;
    rec = 2 + ldim;
    for (g = 0; g < np && !rc; g++)
      if (check_nodes(g, rec, N) < 0) rc = BAD;
  }
  if (!rc) {
    /* chunk = MIN(N/np+1, rbl>0 ? rbl/((w+1)*8) : INT_MAX) == 0: the loop never advances (formats that gather) */
    int w = ldim, gathers;
    size_t l = strlen(ext);
#define ENDS(sfx) (l >= strlen(sfx) && 0 == strcmp(ext + l - strlen(sfx), sfx))
    if (metric) gathers = !(ENDS(".met") && !ENDS(".solb") && !twod);
    else gathers = ENDS(".sol") || ENDS(".solb") || ENDS(".bin") || ENDS(".txt") || (ENDS(".rst") && ldim % 2 == 0);
    if (!metric && ENDS(".rst")) w = ldim / 2;
    if (gathers && rbl > 0 && rbl / ((w + 1) * 8) == 0) rc = HANG;
  }
  if (!rc) {
    snprintf(fname, sizeof fname, "h_sol_%d%s", (int)getppid(), ext);
    rec = 2 + ldim;
    grid = build_grid(me, rec, N, &locals);
    if (!grid) rc = BAD;
  }
#ifdef HAVE_MPI
  {
    int v = rc;
    MPI_Allreduce(&v, &rc, 1, MPI_INT, MPI_MAX, MPI_COMM_WORLD);
  }
#endif
  if (!rc) {
    REF_NODE node = ref_grid_node(grid);
    rec = 2 + ldim;
    k = (int)h_i(GW(me, 0));
    ref_grid_twod(grid) = (REF_BOOL)twod;
    ref_grid_meshb_version(grid) = (REF_INT)ver;
    ref_grid_mpi(grid)->reduce_byte_limit = (REF_INT)rbl;
    if (metric) {
      for (i = 0; i < k; i++)
        for (j = 0; j < 6; j++) node->real[(j + 3) + REF_NODE_REAL_PER * locals[i]] = h_f(GW(me, 3 + rec * i + j));
      st = ref_gather_metric(grid, fname);
    } else {
      scalar = (REF_DBL *)calloc((size_t)(ldim * ref_node_max(node) + 1), sizeof(REF_DBL));
      for (i = 0; i < k; i++)
        for (j = 0; j < ldim; j++) scalar[j + ldim * locals[i]] = h_f(GW(me, 3 + rec * i + j));
      st = ref_gather_scalar_by_extension(grid, ldim, scalar, NULL, fname);
    }
    if (REF_SUCCESS == st && 0 == me) {
      r_put("ok");
      if (is_binary_ext(ext) ? dump_bin(fname) : dump_text(fname)) {
        r_reset();
        r_put("nofile");
      }
    }
  }
  finish(rc, (int)st, 0);
  if (0 == me && fname[0]) remove(fname);
  free(scalar);
  free(locals);
  if (grid) ref_grid_free(grid);
}

static void tokenise(void) {
  char *p;
  h_nw = 0;
  for (p = strtok(h_line, " \t\r\n"); p && h_nw < H_MAXW; p = strtok(NULL, " \t\r\n")) h_w[h_nw++] = p;
}

static void on_alarm(int sig) {
  (void)sig;
  _exit(97);
}

int main(int argc, char *argv[]) {
  int fd;
  FILE *in = stdin;
#ifdef HAVE_MPI
  MPI_Init(&argc, &argv);
#endif
  if (REF_SUCCESS != ref_mpi_create(&ref_mpi)) return 3;
  me = ref_mpi_rank(ref_mpi);
  np = ref_mpi_n(ref_mpi);
  if (argc >= 3 && 0 == strcmp(argv[1], "--ops") && 0 == me) {
    in = fopen(argv[2], "r");
    if (!in) return 4;
  }
  fd = dup(1);
  out = fdopen(fd, "w");
  if (!getenv("H_SOL_STDOUT") && !freopen("/dev/null", "w", stdout)) return 3;
  signal(SIGALRM, on_alarm);
  for (;;) {
    int len = -1;
    const char *op;
    if (0 == me) {
      for (;;) {
        char *p;
        if (!fgets(h_line, sizeof(h_line), in)) {
          len = -1;
          break;
        }
        p = h_line;
        while (*p == ' ' || *p == '\t') p++;
        if (*p == '#' || *p == '\n' || *p == '\r' || *p == 0) continue;
        len = (int)strlen(h_line);
        break;
      }
    }
#ifdef HAVE_MPI
    MPI_Bcast(&len, 1, MPI_INT, 0, MPI_COMM_WORLD);
    if (len < 0) break;
    MPI_Bcast(h_line, len + 1, MPI_CHAR, 0, MPI_COMM_WORLD);
#else
    if (len < 0) break;
#endif
    tokenise();
    if (h_nw == 0) continue;
    op = h_w[0];
    alarm(30);
    if (h_nw < 2 || !is_nat_tok(h_w[1]) || h_i(h_w[1]) != np || !split_groups()) {
      if (0 == me) {
        fputs("bad-op\n", out);
        fflush(out);
      }
    } else if (!strcmp(op, "rd_metric")) op_read(0);
    else if (!strcmp(op, "rd_scalar")) op_read(1);
    else if (!strcmp(op, "rd_bamg")) op_read(2);
    else if (!strcmp(op, "wr_metric")) op_write(1);
    else if (!strcmp(op, "wr_scalar")) op_write(0);
    else if (0 == me) {
      fputs("bad-op\n", out);
      fflush(out);
    }
    alarm(0);
  }
  fclose(out);
  ref_mpi_free(ref_mpi);
#ifdef HAVE_MPI
  MPI_Finalize();
#endif
  return 0;
}
