/* harness `geom`: geometric kernels of ref_node.c / ref_matrix.[ch] / ref_math.c, the L2-projection
   reconstruction of ref_recon.c and the evaluation loop of ref_interp_scalar, called in process on
   coordinates given as hex doubles.  White-box: ref_recon.c is included to reach the static
   ref_recon_l2_projection_hessian (Stream(..., whitebox=['ref_recon'])).
   The library prints diagnostics on stdout (RSS/RAS, div-zero notes): stdout is redirected to
   /dev/null and the protocol lines go to a dup of the original descriptor. */
#include <unistd.h>

#include "h_proto.h"
#include "ref_recon.c"
/* */
#include "ref_grid.h"
#include "ref_interp.h"
#include "ref_malloc.h"
#include "ref_math.h"
#include "ref_matrix.h"
#include "ref_mpi.h"
#include "ref_node.h"

static FILE *out;
static REF_MPI ref_mpi;
static REF_NODE kn; /* 5 nodes for the kernel ops */

static void pf(double d) {
  fputc(' ', out);
  h_pf(out, d);
}
static void pv(const double *v, int n) {
  int i;
  for (i = 0; i < n; i++) pf(v[i]);
}
/* status, then payload only for ok / div_zero */
static void st_line(int st, const double *v, int n) {
  fputs(h_status(st), out);
  if (REF_SUCCESS == st || REF_DIV_ZERO == st) pv(v, n);
  fputc('\n', out);
}
static int all_hex(int from, int to) { /* words [from,to) are 16 hex digits */
  int i;
  for (i = from; i < to; i++) {
    if (16 != strlen(h_w[i])) return 0;
    if (16 != strspn(h_w[i], "0123456789abcdefABCDEF")) return 0;
  }
  return 1;
}
static int is_nat(const char *s) { return 0 < strlen(s) && strlen(s) < 9 && strlen(s) == strspn(s, "0123456789"); }

static void set_xyz(int node, int w) { /* 3 words starting at w */
  int i;
  for (i = 0; i < 3; i++) ref_node_xyz(kn, i, node) = h_f(h_w[w + i]);
}
static void set_metric_identity(int node) {
  int i;
  for (i = 0; i < 6; i++) {
    ref_node_real(kn, 3 + i, node) = (0 == i || 3 == i || 5 == i) ? 1.0 : 0.0;
    ref_node_real(kn, 9 + i, node) = 0.0;
  }
}

static int kind_of(const char *s, int *size, int *twod) {
  if (0 == strcmp(s, "tri")) { *size = 3; *twod = 1; return REF_CELL_TRI; }
  if (0 == strcmp(s, "qua")) { *size = 4; *twod = 1; return REF_CELL_QUA; }
  if (0 == strcmp(s, "tet")) { *size = 4; *twod = 0; return REF_CELL_TET; }
  if (0 == strcmp(s, "pyr")) { *size = 5; *twod = 0; return REF_CELL_PYR; }
  if (0 == strcmp(s, "pri")) { *size = 6; *twod = 0; return REF_CELL_PRI; }
  if (0 == strcmp(s, "hex")) { *size = 8; *twod = 0; return REF_CELL_HEX; }
  return -1;
}

/* `<op> twod nn <3*nn xyz> <nn scalar> ncell <cells>` -> grid + scalar; returns 0 when malformed */
static int build_mesh(REF_GRID *grid_ptr, REF_DBL **scalar_ptr, int *nn_ptr) {
  REF_GRID ref_grid;
  REF_NODE ref_node;
  REF_DBL *scalar;
  long long twod, nn, nc;
  int w, i, k, c, ncells;
  if (h_nw < 4 || !is_nat(h_w[1]) || !is_nat(h_w[2])) return 0;
  twod = h_i(h_w[1]);
  nn = h_i(h_w[2]);
  if (twod > 1 || nn == 0 || nn > 4000) return 0;
  if (h_nw - 3 < 4 * nn + 1) return 0;
  if (!all_hex(3, 3 + 4 * (int)nn)) return 0;
  w = 3 + 4 * (int)nn;
  if (!is_nat(h_w[w])) return 0;
  nc = h_i(h_w[w]);
  w++;
  /* validate the cell list before building anything */
  ncells = 0;
  k = w;
  while (k < h_nw) {
    int size, td, kind = kind_of(h_w[k], &size, &td);
    if (kind < 0 || td != twod || h_nw - (k + 1) < size) return 0;
    for (i = 0; i < size; i++)
      if (!is_nat(h_w[k + 1 + i]) || h_i(h_w[k + 1 + i]) >= nn) return 0;
    k += 1 + size;
    ncells++;
  }
  if (ncells != nc) return 0;
  if (REF_SUCCESS != ref_grid_create(&ref_grid, ref_mpi)) exit(4);
  ref_grid_twod(ref_grid) = (REF_BOOL)twod;
  ref_node = ref_grid_node(ref_grid);
  scalar = (REF_DBL *)malloc(sizeof(REF_DBL) * (size_t)nn);
  for (i = 0; i < nn; i++) {
    REF_INT node;
    if (REF_SUCCESS != ref_node_add(ref_node, (REF_GLOB)(3 * i + 5), &node) || node != i) exit(5);
    for (c = 0; c < 3; c++) ref_node_xyz(ref_node, c, node) = h_f(h_w[3 + 3 * i + c]);
    for (c = 3; c < REF_NODE_REAL_PER; c++) ref_node_real(ref_node, c, node) = 0.0;
    scalar[i] = h_f(h_w[3 + 3 * (int)nn + i]);
  }
  k = w;
  while (k < h_nw) {
    int size, td, kind = kind_of(h_w[k], &size, &td);
    REF_INT nodes[REF_CELL_MAX_SIZE_PER], cell;
    for (i = 0; i < size; i++) nodes[i] = (REF_INT)h_i(h_w[k + 1 + i]);
    if (td) nodes[size] = 1; /* face id */
    if (REF_SUCCESS != ref_cell_add(ref_grid_cell(ref_grid, kind), nodes, &cell)) exit(6);
    k += 1 + size;
  }
  *grid_ptr = ref_grid;
  *scalar_ptr = scalar;
  *nn_ptr = (int)nn;
  return 1;
}

/* one-cell donor grid + one-node receptor grid for the real ref_interp_scalar */
static REF_INTERP interp_of[5];
static REF_INTERP make_interp(int node_per) {
  REF_GRID from, to;
  REF_INTERP ref_interp;
  REF_INT node, cell, nodes[5], i, c;
  static const double x[4][3] = {{0, 0, 0}, {1, 0, 0}, {0, 1, 0}, {0, 0, 1}};
  if (REF_SUCCESS != ref_grid_create(&from, ref_mpi)) exit(7);
  if (REF_SUCCESS != ref_grid_create(&to, ref_mpi)) exit(7);
  for (i = 0; i < node_per; i++) {
    if (REF_SUCCESS != ref_node_add(ref_grid_node(from), (REF_GLOB)(3 * i + 5), &node)) exit(7);
    for (c = 0; c < 3; c++) ref_node_xyz(ref_grid_node(from), c, node) = x[i][c];
    for (c = 3; c < REF_NODE_REAL_PER; c++) ref_node_real(ref_grid_node(from), c, node) = 0.0;
    nodes[i] = node;
  }
  if (3 == node_per) {
    ref_grid_twod(from) = REF_TRUE;
    ref_grid_twod(to) = REF_TRUE;
    nodes[3] = 1;
    if (REF_SUCCESS != ref_cell_add(ref_grid_tri(from), nodes, &cell)) exit(7);
  } else {
    if (REF_SUCCESS != ref_cell_add(ref_grid_tet(from), nodes, &cell)) exit(7);
  }
  if (REF_SUCCESS != ref_node_add(ref_grid_node(to), 0, &node)) exit(7);
  for (c = 0; c < REF_NODE_REAL_PER; c++) ref_node_real(ref_grid_node(to), c, node) = 0.0;
  if (REF_SUCCESS != ref_interp_create(&ref_interp, from, to)) exit(7);
  return ref_interp;
}
/* the real ref_interp_scalar with the receptor's stored (cell 0, bary) */
static int interp_eval(int node_per, const double *bary, const double *f, double *value) {
  REF_INTERP ref_interp = interp_of[node_per];
  REF_DBL to_scalar[1];
  int i, st;
  ref_interp->cell[0] = 0;
  ref_interp->part[0] = 0;
  for (i = 0; i < 4; i++) ref_interp->bary[i] = bary[i];
  to_scalar[0] = 0.0;
  st = ref_interp_scalar(ref_interp, 1, (REF_DBL *)f, to_scalar);
  *value = to_scalar[0];
  return st;
}

int main(void) {
  int i;
  {
    int fd = dup(1);
    if (fd < 0) return 3;
    out = fdopen(fd, "w");
    if (!out) return 3;
    if (!freopen("/dev/null", "w", stdout)) return 3;
  }
  if (REF_SUCCESS != ref_mpi_start(0, NULL)) return 3;
  if (REF_SUCCESS != ref_mpi_create(&ref_mpi)) return 3;
  if (REF_SUCCESS != ref_node_create(&kn, ref_mpi)) return 3;
  for (i = 0; i < 5; i++) {
    REF_INT node, c;
    if (REF_SUCCESS != ref_node_add(kn, (REF_GLOB)(3 * i + 5), &node) || node != i) return 3;
    for (c = 0; c < 3; c++) ref_node_xyz(kn, c, node) = 0.0;
    set_metric_identity(node);
  }
  interp_of[3] = make_interp(3);
  interp_of[4] = make_interp(4);

  while (h_next(stdin)) {
    const char *op = h_w[0];
    REF_INT nodes[5] = {0, 1, 2, 3, 4};
    double r[16];
    int st;
    if (0 == strcmp(op, "l2grad") || 0 == strcmp(op, "l2hess")) {
      REF_GRID ref_grid;
      REF_DBL *scalar, *res;
      int nn, per = (0 == strcmp(op, "l2grad")) ? 3 : 6;
      if (!build_mesh(&ref_grid, &scalar, &nn)) { fputs("bad-op\n", out); continue; }
      res = (REF_DBL *)calloc((size_t)(per * nn), sizeof(REF_DBL));
      if (3 == per)
        st = ref_recon_l2_projection_grad(ref_grid, scalar, res);
      else
        st = ref_recon_l2_projection_hessian(ref_grid, scalar, res);
      fputs(h_status(st), out);
      if (REF_SUCCESS == st || REF_DIV_ZERO == st) pv(res, per * nn);
      fputc('\n', out);
      free(res);
      free(scalar);
      ref_grid_free(ref_grid);
      continue;
    }
    if (0 == strcmp(op, "interp")) {
      long long np;
      double b[4], f[4], v;
      if (h_nw != 10 || !is_nat(h_w[1]) || !all_hex(2, 10)) { fputs("bad-op\n", out); continue; }
      np = h_i(h_w[1]);
      if (3 != np && 4 != np) { fputs("bad-op\n", out); continue; }
      for (i = 0; i < 4; i++) b[i] = h_f(h_w[2 + i]);
      for (i = 0; i < 4; i++) f[i] = h_f(h_w[6 + i]);
      st = interp_eval((int)np, b, f, &v);
      st_line(st, &v, REF_SUCCESS == st ? 1 : 0);
      continue;
    }
    if (!all_hex(1, h_nw)) { fputs("bad-op\n", out); continue; }
    if (0 == strcmp(op, "tet_vol") && h_nw == 13) {
      REF_DBL *xyzs[4];
      for (i = 0; i < 4; i++) set_xyz(i, 1 + 3 * i);
      for (i = 0; i < 4; i++) xyzs[i] = ref_node_xyz_ptr(kn, i);
      st = ref_node_tet_vol(kn, nodes, &r[0]);
      if (REF_SUCCESS == st) st = ref_node_xyz_vol(xyzs, &r[1]);
      st_line(st, r, 2);
    } else if (0 == strcmp(op, "dvol") && h_nw == 13) {
      for (i = 0; i < 4; i++) set_xyz(i, 1 + 3 * i);
      st = ref_node_tet_dvol_dnode0(kn, nodes, &r[0], &r[1]);
      st_line(st, r, 4);
    } else if (0 == strcmp(op, "tri_normal") && h_nw == 10) {
      for (i = 0; i < 3; i++) set_xyz(i, 1 + 3 * i);
      st = ref_node_tri_normal(kn, nodes, r);
      st_line(st, r, 3);
    } else if (0 == strcmp(op, "tri_area") && h_nw == 10) {
      for (i = 0; i < 3; i++) set_xyz(i, 1 + 3 * i);
      st = ref_node_tri_area(kn, nodes, r);
      st_line(st, r, 1);
    } else if (0 == strcmp(op, "tri_orient") && h_nw == 10) {
      REF_BOOL valid;
      for (i = 0; i < 3; i++) set_xyz(i, 1 + 3 * i);
      st = ref_node_tri_twod_orientation(kn, nodes, &valid);
      fprintf(out, "%s %d\n", h_status(st), valid ? 1 : 0);
    } else if (0 == strcmp(op, "tri_darea") && h_nw == 10) {
      for (i = 0; i < 3; i++) set_xyz(i, 1 + 3 * i);
      st = ref_node_tri_darea_dnode0(kn, nodes, &r[0], &r[1]);
      st_line(st, r, 4);
    } else if (0 == strcmp(op, "normalize") && h_nw == 4) {
      for (i = 0; i < 3; i++) r[i] = h_f(h_w[1 + i]);
      st = ref_math_normalize(r);
      fputs(h_status(st), out);
      pv(r, 3);
      fputc('\n', out);
    } else if (0 == strcmp(op, "bary4") && h_nw == 16) {
      double p[3];
      for (i = 0; i < 4; i++) set_xyz(i, 1 + 3 * i);
      for (i = 0; i < 3; i++) p[i] = h_f(h_w[13 + i]);
      st = ref_node_bary4(kn, nodes, p, r);
      st_line(st, r, 4);
    } else if ((0 == strcmp(op, "bary3") || 0 == strcmp(op, "bary3d")) && h_nw == 13) {
      double p[3];
      for (i = 0; i < 3; i++) set_xyz(i, 1 + 3 * i);
      for (i = 0; i < 3; i++) p[i] = h_f(h_w[10 + i]);
      st = (0 == strcmp(op, "bary3")) ? ref_node_bary3(kn, nodes, p, r) : ref_node_bary3d(kn, nodes, p, r);
      st_line(st, r, 3);
    } else if (0 == strcmp(op, "clip4") && h_nw == 5) {
      double b[4];
      for (i = 0; i < 4; i++) b[i] = h_f(h_w[1 + i]);
      st = ref_node_clip_bary4(b, r);
      st_line(st, r, 4);
    } else if (0 == strcmp(op, "clip3") && h_nw == 4) {
      double b[3];
      for (i = 0; i < 3; i++) b[i] = h_f(h_w[1 + i]);
      st = ref_node_clip_bary3(b, r);
      st_line(st, r, 3);
    } else if (0 == strcmp(op, "clip2") && h_nw == 3) {
      double b[2];
      for (i = 0; i < 2; i++) b[i] = h_f(h_w[1 + i]);
      st = ref_node_clip_bary2(b, r);
      st_line(st, r, 2);
    } else if (0 == strcmp(op, "tet_grad") && h_nw == 17) {
      double s[5] = {0, 0, 0, 0, 0};
      REF_DBL *xyzs[4];
      int st2;
      for (i = 0; i < 4; i++) set_xyz(i, 1 + 3 * i);
      for (i = 0; i < 4; i++) s[i] = h_f(h_w[13 + i]);
      for (i = 0; i < 4; i++) xyzs[i] = ref_node_xyz_ptr(kn, i);
      st = ref_node_tet_grad_nodes(kn, nodes, s, r);
      st2 = ref_node_xyz_grad(xyzs, s, r + 3);
      fputs(h_status(st), out);
      pv(r, 3);
      fprintf(out, " %s", h_status(st2));
      pv(r + 3, 3);
      fputc('\n', out);
    } else if (0 == strcmp(op, "tri_grad") && h_nw == 13) {
      double s[5] = {0, 0, 0, 0, 0};
      for (i = 0; i < 3; i++) set_xyz(i, 1 + 3 * i);
      for (i = 0; i < 3; i++) s[i] = h_f(h_w[10 + i]);
      st = ref_node_tri_grad_nodes(kn, nodes, s, r);
      fputs(h_status(st), out);
      pv(r, 3);
      fputc('\n', out);
    } else if (0 == strcmp(op, "vtmv") && h_nw == 10) {
      double m[6], v[3];
      for (i = 0; i < 6; i++) m[i] = h_f(h_w[1 + i]);
      for (i = 0; i < 3; i++) v[i] = h_f(h_w[7 + i]);
      r[0] = ref_matrix_vt_m_v(m, v);
      r[1] = ref_matrix_sqrt_vt_m_v(m, v);
      st = ref_matrix_vt_m_v_deriv(m, v, &r[2], &r[3]);
      if (REF_SUCCESS == st) st = ref_matrix_sqrt_vt_m_v_deriv(m, v, &r[6], &r[7]);
      st_line(st, r, 10);
    } else if (0 == strcmp(op, "ratio") && h_nw == 19) {
      for (i = 0; i < 2; i++) set_xyz(i, 1 + 3 * i);
      for (i = 0; i < 6; i++) ref_node_real(kn, 3 + i, 0) = h_f(h_w[7 + i]);
      for (i = 0; i < 6; i++) ref_node_real(kn, 3 + i, 1) = h_f(h_w[13 + i]);
      kn->ratio_method = REF_NODE_RATIO_GEOMETRIC;
      st = ref_node_ratio(kn, 0, 1, &r[0]);
      if (REF_SUCCESS == st) st = ref_node_ratio_node0(kn, 0, 1, &r[1]);
      if (REF_SUCCESS == st) st = ref_node_dratio_dnode0(kn, 0, 1, &r[2], &r[3]);
      st_line(st, r, 6);
      set_metric_identity(0);
      set_metric_identity(1);
    } else if (0 == strcmp(op, "ratio_quad") && h_nw == 19) {
      /* validate stream: echo the inputs, the mid-point log mix, the library's exp_m of it, results */
      double l0[6], l1[6], mix[6], mid[6], w0, w1;
      int st2;
      for (i = 0; i < 2; i++) set_xyz(i, 1 + 3 * i);
      for (i = 0; i < 6; i++) l0[i] = h_f(h_w[7 + i]);
      for (i = 0; i < 6; i++) l1[i] = h_f(h_w[13 + i]);
      for (i = 0; i < 6; i++) ref_node_real(kn, 9 + i, 0) = l0[i];
      for (i = 0; i < 6; i++) ref_node_real(kn, 9 + i, 1) = l1[i];
      w1 = 0.5;
      w0 = 0.5;
      for (i = 0; i < 6; i++) mix[i] = w0 * l0[i] + w1 * l1[i];
      kn->ratio_method = REF_NODE_RATIO_QUADRATURE;
      st = ref_node_ratio(kn, 0, 1, &r[0]);
      st2 = ref_node_dratio_dnode0(kn, 0, 1, &r[1], &r[2]);
      kn->ratio_method = REF_NODE_RATIO_GEOMETRIC;
      if (REF_SUCCESS != st || REF_SUCCESS != st2 || REF_SUCCESS != ref_matrix_exp_m(mix, mid)) {
        fprintf(out, "skip %s %s\n", h_status(st), h_status(st2));
      } else {
        fputs("rq", out);
        for (i = 1; i < 19; i++) fprintf(out, " %s", h_w[i]);
        pv(mix, 6);
        pv(mid, 6);
        pv(r, 5);
        fputc('\n', out);
      }
      set_metric_identity(0);
      set_metric_identity(1);
    } else if (0 == strcmp(op, "interp_edge") && h_nw == 8) {
      for (i = 0; i < 2; i++) set_xyz(i, 1 + 3 * i);
      st = ref_node_interpolate_edge(kn, 0, 1, h_f(h_w[7]), 2);
      for (i = 0; i < 3; i++) r[i] = ref_node_xyz(kn, i, 2);
      st_line(st, r, 3);
      set_metric_identity(2);
    } else if (0 == strcmp(op, "interp_xyz") && h_nw == 20) {
      double p[3], f[4], v;
      int st2;
      for (i = 0; i < 4; i++) set_xyz(i, 1 + 3 * i);
      for (i = 0; i < 3; i++) p[i] = h_f(h_w[13 + i]);
      for (i = 0; i < 4; i++) f[i] = h_f(h_w[16 + i]);
      st = ref_node_bary4(kn, nodes, p, r);
      st2 = interp_eval(4, r, f, &v);
      fputs(h_status(st), out);
      pv(r, 4);
      fprintf(out, " %s", h_status(st2));
      if (REF_SUCCESS == st2) pf(v);
      fputc('\n', out);
    } else {
      fputs("bad-op\n", out);
    }
  }
  fflush(out);
  return 0;
}
