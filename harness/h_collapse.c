/* harness `collapse` (properties C13 / C01): builds the local configuration of an op line in a real REF_GRID
   (ref_node_add / ref_cell_add, coordinates, metric and log-metric, ownership) and calls the REAL guards of
   ref_collapse.c, ref_collapse_edge and ref_collapse_to_remove_node1 on it.  ref_collapse.c is included white-box
   with ref_cavity_form_edge_collapse redirected to a recorder: in the function-level stream the cavity fall-back of
   ref_collapse_to_remove_node1 is recorded and answered "unsuccessful" (REF_FAILURE), so that the driver's guard
   order and first-passing-candidate rule are observable on their own (the cavity machine has its own harness).

   op line:  <op> n0 n1 twod <cqa> <pmin> <pmax> <minvol> nn { <x> <y> <z> flags <m0..m5> <l0..l5> }*nn nc <cells>
             doubles as 16 hex digits; flags bit0 = ghost (part != rank), bit1 = CAD edge association (op `cad` only)
   cells:    edg a b id | tri a b c id | qua a b c d id | tet a b c d | pyr x5 | pri x6 | hex x8
   output:   guards  `ok <0|1>` / status ;  quality probes `ok <hex>` ;
             collapse / remove:  `<status> a=<actual_node0> v=<node1 valid> cav=<n0,...> age=<sum> | T rows | R rows | E rows`

   `h_collapse run`: run <dim> <n> <jitter seed> <metric> <h hex>: a real ref_collapse_pass on a fixture; every
   `collapse_edge begin` record of the NASA_REFINE_VERIF hook prints `rec <op line>` with the stars of node0 and
   node1 renumbered locally; the Lean driver re-evaluates the modelled guards on it. */
#include <unistd.h>

#include "h_proto.h"
/* */
#include "ref_cavity.h"
static REF_STATUS h_spy_form_edge_collapse(REF_CAVITY ref_cavity, REF_GRID ref_grid, REF_INT node0, REF_INT node1);
#define ref_cavity_form_edge_collapse h_spy_form_edge_collapse
#include "ref_collapse.c"
#undef ref_cavity_form_edge_collapse
/* */
#include "ref_fixture.h"
#include "ref_geom.h"
#include "ref_grid.h"
#include "ref_math.h"
#include "ref_mpi.h"

static FILE *out;
static REF_MPI ref_mpi;

static int spy_stub = 1;
static int spy_n = 0;
static REF_INT spy_node0[2048];
static REF_STATUS h_spy_form_edge_collapse(REF_CAVITY ref_cavity, REF_GRID ref_grid, REF_INT node0, REF_INT node1) {
  if (spy_n < 2048) spy_node0[spy_n++] = node0;
  if (spy_stub) return REF_FAILURE;
  return ref_cavity_form_edge_collapse(ref_cavity, ref_grid, node0, node1);
}

static void pf(double d) {
  fputc(' ', out);
  h_pf(out, d);
}

static int is_hex16(const char *s) { return 16 == strlen(s) && 16 == strspn(s, "0123456789abcdefABCDEF"); }
static int is_nat(const char *s) { return 0 < strlen(s) && strlen(s) < 9 && strlen(s) == strspn(s, "0123456789"); }
static int is_int(const char *s) {
  if ('-' == s[0]) s++;
  return is_nat(s);
}
static int kind_of(const char *s, int *size, int *has_id) {
  if (0 == strcmp(s, "edg")) { *size = 2; *has_id = 1; return REF_CELL_EDG; }
  if (0 == strcmp(s, "tri")) { *size = 3; *has_id = 1; return REF_CELL_TRI; }
  if (0 == strcmp(s, "qua")) { *size = 4; *has_id = 1; return REF_CELL_QUA; }
  if (0 == strcmp(s, "tet")) { *size = 4; *has_id = 0; return REF_CELL_TET; }
  if (0 == strcmp(s, "pyr")) { *size = 5; *has_id = 0; return REF_CELL_PYR; }
  if (0 == strcmp(s, "pri")) { *size = 6; *has_id = 0; return REF_CELL_PRI; }
  if (0 == strcmp(s, "hex")) { *size = 8; *has_id = 0; return REF_CELL_HEX; }
  return -1;
}

#define PER_NODE 16
static long long N0, N1, TWOD;
static int NN;
static int FLAGS[512];

/* words from 1 on -> grid; returns 0 when malformed */
static int build(REF_GRID *grid_ptr, int with_geom) {
  REF_GRID ref_grid;
  REF_NODE ref_node;
  int i, c, k, w, ncells, j;
  long long nn, nc;
  if (h_nw < 10) return 0;
  for (i = 1; i <= 3; i++)
    if (!is_nat(h_w[i])) return 0;
  N0 = h_i(h_w[1]);
  N1 = h_i(h_w[2]);
  TWOD = h_i(h_w[3]);
  if (TWOD > 1) return 0;
  for (i = 4; i <= 7; i++)
    if (!is_hex16(h_w[i])) return 0;
  if (!is_nat(h_w[8])) return 0;
  nn = h_i(h_w[8]);
  if (nn == 0 || nn > 400) return 0;
  w = 9;
  if (h_nw - w < PER_NODE * nn + 1) return 0;
  for (i = 0; i < nn; i++)
    for (j = 0; j < PER_NODE; j++) {
      const char *s = h_w[w + PER_NODE * i + j];
      if (3 == j) {
        if (!is_nat(s) || h_i(s) > 3) return 0;
      } else if (!is_hex16(s))
        return 0;
    }
  k = w + PER_NODE * (int)nn;
  if (!is_nat(h_w[k])) return 0;
  nc = h_i(h_w[k]);
  k++;
  ncells = 0;
  c = k;
  while (c < h_nw) {
    int size, has_id, kind = kind_of(h_w[c], &size, &has_id);
    if (kind < 0 || h_nw - (c + 1) < size + has_id) return 0;
    for (i = 0; i < size; i++)
      if (!is_nat(h_w[c + 1 + i]) || h_i(h_w[c + 1 + i]) >= nn) return 0;
    /* the cell stores assume distinct nodes inside a simplex (a repeated node is listed twice by the adjacency) */
    for (i = 0; i < size; i++)
      for (j = i + 1; j < size; j++)
        if (size <= 4 && h_i(h_w[c + 1 + i]) == h_i(h_w[c + 1 + j])) return 0;
    if (has_id) {
      if (!is_int(h_w[c + 1 + size])) return 0;
      if (h_i(h_w[c + 1 + size]) < -1000000 || h_i(h_w[c + 1 + size]) > 1000000) return 0;
    }
    c += 1 + size + has_id;
    ncells++;
  }
  if (ncells != nc) return 0;
  if (N0 >= nn || N1 >= nn) return 0;
  NN = (int)nn;
  if (REF_SUCCESS != ref_grid_create(&ref_grid, ref_mpi)) exit(4);
  ref_node = ref_grid_node(ref_grid);
  for (i = 0; i < nn; i++) {
    REF_INT node;
    const int b = w + PER_NODE * i;
    if (REF_SUCCESS != ref_node_add(ref_node, (REF_GLOB)(3 * i + 5), &node) || node != i) exit(5);
    for (c = 0; c < 3; c++) ref_node_xyz(ref_node, c, node) = h_f(h_w[b + c]);
    FLAGS[i] = (int)h_i(h_w[b + 3]);
    for (c = 0; c < 12; c++) ref_node_real(ref_node, 3 + c, node) = h_f(h_w[b + 4 + c]);
    for (c = 15; c < REF_NODE_REAL_PER; c++) ref_node_real(ref_node, c, node) = 0.0;
    ref_node_part(ref_node, node) = (FLAGS[i] & 1) ? ref_mpi_rank(ref_mpi) + 1 : ref_mpi_rank(ref_mpi);
    if (with_geom && (FLAGS[i] & 2)) {
      REF_DBL param[2] = {0.5, 0.5};
      if (REF_SUCCESS != ref_geom_add(ref_grid_geom(ref_grid), node, REF_GEOM_EDGE, 1, param)) exit(8);
    }
  }
  if (REF_SUCCESS != ref_node_initialize_n_global(ref_node, NN)) exit(11);
  ref_grid_twod(ref_grid) = (REF_BOOL)TWOD;
  ref_grid_adapt(ref_grid, collapse_quality_absolute) = h_f(h_w[4]);
  ref_grid_adapt(ref_grid, post_min_ratio) = h_f(h_w[5]);
  ref_grid_adapt(ref_grid, post_max_ratio) = h_f(h_w[6]);
  ref_node_min_volume(ref_node) = h_f(h_w[7]);
  c = k;
  while (c < h_nw) {
    int size, has_id, kind = kind_of(h_w[c], &size, &has_id);
    REF_INT nodes[REF_CELL_MAX_SIZE_PER], cell;
    for (i = 0; i < size; i++) nodes[i] = (REF_INT)h_i(h_w[c + 1 + i]);
    if (has_id) nodes[size] = (REF_INT)h_i(h_w[c + 1 + size]);
    if (REF_SUCCESS != ref_cell_add(ref_grid_cell(ref_grid, kind), nodes, &cell)) exit(6);
    c += 1 + size + has_id;
  }
  *grid_ptr = ref_grid;
  return 1;
}

static void st_bool(REF_STATUS st, REF_BOOL b) {
  if (REF_SUCCESS == st)
    fprintf(out, "ok %d\n", b ? 1 : 0);
  else
    fprintf(out, "%s\n", h_status(st));
}
static void st_dbl(REF_STATUS st, REF_DBL d) {
  if (REF_SUCCESS == st) {
    fputs("ok", out);
    pf(d);
    fputc('\n', out);
  } else
    fprintf(out, "%s\n", h_status(st));
}

static int row_len;
static int row_cmp(const void *a, const void *b) {
  const REF_INT *x = (const REF_INT *)a, *y = (const REF_INT *)b;
  int i;
  for (i = 0; i < row_len; i++) {
    if (x[i] < y[i]) return -1;
    if (x[i] > y[i]) return 1;
  }
  return 0;
}
static void print_group(const char *name, REF_CELL ref_cell) {
  REF_INT cell, nodes[REF_CELL_MAX_SIZE_PER], n = 0, i, j;
  int len = ref_cell_size_per(ref_cell);
  REF_INT *rows = (REF_INT *)malloc(sizeof(REF_INT) * (size_t)len * (size_t)(ref_cell_n(ref_cell) + 1));
  each_ref_cell_valid_cell_with_nodes(ref_cell, cell, nodes) {
    for (j = 0; j < len; j++) rows[j + len * n] = nodes[j];
    n++;
  }
  row_len = len;
  qsort(rows, (size_t)n, sizeof(REF_INT) * (size_t)len, row_cmp);
  fprintf(out, " | %s", name);
  for (i = 0; i < n; i++) {
    fputc(' ', out);
    for (j = 0; j < len; j++) fprintf(out, j ? ",%d" : "%d", rows[j + len * i]);
  }
  free(rows);
}

static void after(REF_GRID g, REF_STATUS st, REF_INT actual) {
  REF_NODE ref_node = ref_grid_node(g);
  REF_INT node, i;
  long long age = 0;
  each_ref_node_valid_node(ref_node, node) age += ref_node_age(ref_node, node);
  fprintf(out, "%s a=%d v=%d cav=", h_status(st), actual, ref_node_valid(ref_node, (REF_INT)N1) ? 1 : 0);
  for (i = 0; i < spy_n; i++) fprintf(out, i ? ",%d" : "%d", spy_node0[i]);
  fprintf(out, " age=%lld", age);
  print_group("T", ref_grid_tet(g));
  print_group("R", ref_grid_tri(g));
  print_group("E", ref_grid_edg(g));
  fputc('\n', out);
}

static void function_level(void) {
  while (h_next(stdin)) {
    const char *op = h_w[0];
    REF_GRID g = NULL;
    REF_BOOL allowed = REF_FALSE;
    REF_STATUS st;
    REF_INT n0, n1;
    if (!build(&g, 0 == strcmp(op, "cad"))) {
      fputs("bad-op\n", out);
      continue;
    }
    n0 = (REF_INT)N0;
    n1 = (REF_INT)N1;
    spy_n = 0;
    spy_stub = 1;
    if (0 == strcmp(op, "manifold")) {
      st = ref_collapse_edge_manifold(g, n0, n1, &allowed);
      st_bool(st, allowed);
    } else if (0 == strcmp(op, "local")) {
      st = ref_collapse_edge_local_cell(g, n0, n1, &allowed);
      st_bool(st, allowed);
    } else if (0 == strcmp(op, "cad")) {
      st = ref_collapse_edge_cad_constrained(g, n0, n1, &allowed);
      st_bool(st, allowed);
    } else if (0 == strcmp(op, "tetq")) {
      st = ref_collapse_edge_tet_quality(g, n0, n1, &allowed);
      st_bool(st, allowed);
    } else if (0 == strcmp(op, "triq")) {
      st = ref_collapse_edge_tri_quality(g, n0, n1, &allowed);
      st_bool(st, allowed);
    } else if (0 == strcmp(op, "ratio")) {
      st = ref_collapse_edge_ratio(g, n0, n1, &allowed);
      st_bool(st, allowed);
    } else if (0 == strcmp(op, "normdev")) {
      st = ref_collapse_edge_normdev(g, n0, n1, &allowed);
      st_bool(st, allowed);
    } else if (0 == strcmp(op, "twodo")) {
      st = ref_collapse_edge_twod_orientation(g, n0, n1, &allowed);
      st_bool(st, allowed);
    } else if (0 == strcmp(op, "qtet")) {
      /* ref_node_tet_quality of the first tet */
      REF_INT nodes[REF_CELL_MAX_SIZE_PER];
      REF_DBL q = 0;
      if (REF_SUCCESS != ref_cell_nodes(ref_grid_tet(g), 0, nodes)) {
        fputs("bad-op\n", out);
      } else {
        st = ref_node_tet_quality(ref_grid_node(g), nodes, &q);
        st_dbl(st, q);
      }
    } else if (0 == strcmp(op, "qtri")) {
      REF_INT nodes[REF_CELL_MAX_SIZE_PER];
      REF_DBL q = 0;
      if (REF_SUCCESS != ref_cell_nodes(ref_grid_tri(g), 0, nodes)) {
        fputs("bad-op\n", out);
      } else {
        st = ref_node_tri_quality(ref_grid_node(g), nodes, &q);
        st_dbl(st, q);
      }
    } else if (0 == strcmp(op, "nratio")) {
      REF_DBL r = 0;
      st = ref_node_ratio(ref_grid_node(g), n0, n1, &r);
      st_dbl(st, r);
    } else if (0 == strcmp(op, "collapse")) {
      if (n0 == n1) {
        fputs("bad-op\n", out);
      } else {
        st = ref_collapse_edge(g, n0, n1);
        after(g, st, n0);
      }
    } else if (0 == strcmp(op, "remove")) {
      REF_INT actual = REF_EMPTY;
      st = ref_collapse_to_remove_node1(g, &actual, n1);
      after(g, st, actual);
    } else {
      fputs("bad-op\n", out);
    }
    if (REF_SUCCESS != ref_grid_free(g)) exit(10);
  }
}

/* ======================= run level: hooked real ref_collapse_pass ======================= */
static int rec_count;
#define REC_CAP 400
static REF_INT loc_node[1024], loc_n;
static int local_of(REF_INT v) {
  int i;
  for (i = 0; i < loc_n; i++)
    if (loc_node[i] == v) return i;
  if (loc_n < 1024) loc_node[loc_n++] = v;
  return loc_n - 1;
}

static void my_op(const char *phase, const char *kind, void *object, int n, const int *ints) {
  REF_GRID g = (REF_GRID)object;
  REF_NODE ref_node;
  REF_CELL cells[3];
  static const char *gname[] = {"tet", "tri", "edg"};
  REF_INT seen[3][2048];
  int nseen[3], k, e, i, j, ncell = 0;
  REF_INT item, cell;
  if (0 != strcmp(kind, "collapse_edge") || 0 != strcmp(phase, "begin") || n < 2) return;
  if (rec_count >= REC_CAP) return;
  ref_node = ref_grid_node(g);
  cells[0] = ref_grid_tet(g);
  cells[1] = ref_grid_tri(g);
  cells[2] = ref_grid_edg(g);
  loc_n = 0;
  for (k = 0; k < 3; k++) {
    nseen[k] = 0;
    for (e = 0; e < 2; e++) {
      each_ref_cell_having_node(cells[k], ints[e], item, cell) {
        int have = 0;
        for (i = 0; i < nseen[k]; i++)
          if (seen[k][i] == cell) have = 1;
        if (!have && nseen[k] < 2048) seen[k][nseen[k]++] = cell;
      }
    }
    for (i = 0; i < nseen[k]; i++)
      for (j = 0; j < ref_cell_node_per(cells[k]); j++) local_of(ref_cell_c2n(cells[k], j, seen[k][i]));
    ncell += nseen[k];
  }
  if (loc_n > 400) return;
  rec_count++;
  /* a mixed element on node1 is reported as a pyramid-free marker: the fixtures have none */
  fprintf(out, "rec judge %d %d %d", local_of(ints[0]), local_of(ints[1]), ref_grid_twod(g) ? 1 : 0);
  pf(ref_grid_adapt(g, collapse_quality_absolute));
  pf(ref_grid_adapt(g, post_min_ratio));
  pf(ref_grid_adapt(g, post_max_ratio));
  pf(ref_node_min_volume(ref_node));
  fprintf(out, " %d", loc_n);
  for (i = 0; i < loc_n; i++) {
    REF_INT v = loc_node[i];
    for (j = 0; j < 3; j++) pf(ref_node_xyz(ref_node, j, v));
    fprintf(out, " %d", ref_node_owned(ref_node, v) ? 0 : 1);
    for (j = 0; j < 12; j++) pf(ref_node_real(ref_node, 3 + j, v));
  }
  fprintf(out, " %d", ncell);
  for (k = 0; k < 3; k++)
    for (i = 0; i < nseen[k]; i++) {
      fprintf(out, " %s", gname[k]);
      for (j = 0; j < ref_cell_size_per(cells[k]); j++) {
        REF_INT v = ref_cell_c2n(cells[k], j, seen[k][i]);
        if (j < ref_cell_node_per(cells[k]))
          fprintf(out, " %d", local_of(v));
        else
          fprintf(out, " %d", v);
      }
    }
  fputc('\n', out);
}

static unsigned long long lcg_state;
static double lcg(void) {
  lcg_state = lcg_state * 6364136223846793005ULL + 1442695040888963407ULL;
  return ((double)((lcg_state >> 33) & 0xffffff) / (double)0x800000) - 1.0;
}

/* run <dim 2|3> <n> <jitter seed> <metric iso|aniso|lin> <h hex> */
static void run_level(void) {
  while (h_next(stdin)) {
    REF_GRID g = NULL;
    REF_NODE ref_node;
    REF_INT node, nn;
    REF_STATUS s = REF_SUCCESS;
    double h, dx;
    int dim, pass;
    if (!(0 == strcmp(h_w[0], "run") && 6 == h_nw && is_nat(h_w[1]) && is_nat(h_w[2]) && is_nat(h_w[3]) &&
          is_hex16(h_w[5]))) {
      fprintf(out, "skip bad-op\n");
      continue;
    }
    dim = (int)h_i(h_w[1]);
    nn = (REF_INT)h_i(h_w[2]);
    h = h_f(h_w[5]);
    if ((dim != 2 && dim != 3) || nn < 2 || nn > 12 || !(h > 1e-3 && h < 1e3)) {
      fprintf(out, "skip bad-op\n");
      continue;
    }
    if (3 == dim)
      s = ref_fixture_tet_brick_args_grid(&g, ref_mpi, 0.0, 1.0, 0.0, 1.0, 0.0, 1.0, nn, nn, nn);
    else
      s = ref_fixture_twod_brick_grid(&g, ref_mpi, nn);
    if (REF_SUCCESS != s) {
      fprintf(out, "skip fixture %s\n", h_status(s));
      continue;
    }
    ref_node = ref_grid_node(g);
    lcg_state = (unsigned long long)h_i(h_w[3]) * 2654435761ULL + 12345ULL;
    dx = 1.0 / (double)(nn - 1);
    each_ref_node_valid_node(ref_node, node) {
      double x = ref_node_xyz(ref_node, 0, node), y = ref_node_xyz(ref_node, 1, node),
             z = ref_node_xyz(ref_node, 2, node);
      double hx = h, hy = h, hz = h;
      int interior = x > 1e-9 && x < 1 - 1e-9 && y > 1e-9 && y < 1 - 1e-9 && (2 == dim || (z > 1e-9 && z < 1 - 1e-9));
      if (interior && 0 != h_i(h_w[3])) {
        ref_node_xyz(ref_node, 0, node) += 0.2 * dx * lcg();
        ref_node_xyz(ref_node, 1, node) += 0.2 * dx * lcg();
        if (3 == dim) ref_node_xyz(ref_node, 2, node) += 0.2 * dx * lcg();
      }
      if (0 == strcmp(h_w[4], "aniso")) {
        hy = 4.0 * h;
        hz = 2.0 * h;
      } else if (0 == strcmp(h_w[4], "lin")) {
        hx = hy = hz = h * (0.3 + 1.4 * x);
      }
      if (2 == dim) hz = 1.0;
      ref_node_metric_form(ref_node, node, 1.0 / (hx * hx), 0, 0, 1.0 / (hy * hy), 0, 1.0 / (hz * hz));
    }
    rec_count = 0;
    spy_stub = 0;
    spy_n = 0;
    ref_verif_op_fcn = my_op;
    for (pass = 0; pass < 2 && REF_SUCCESS == s; pass++) {
      s = ref_collapse_pass(g);
      spy_n = 0;
    }
    ref_verif_op_fcn = NULL;
    fprintf(out, "skip done %s nrec=%d nnode=%d ntet=%d ntri=%d\n", h_status(s), rec_count, ref_node_n(ref_node),
            ref_cell_n(ref_grid_tet(g)), ref_cell_n(ref_grid_tri(g)));
    ref_grid_free(g);
  }
}

int main(int argc, char **argv) {
  {
    int fd = dup(1);
    if (fd < 0) return 3;
    out = fdopen(fd, "w");
    if (!out) return 3;
    if (!freopen("/dev/null", "w", stdout)) return 3;
  }
  if (REF_SUCCESS != ref_mpi_create(&ref_mpi)) return 4;
  if (argc > 1 && 0 == strcmp(argv[1], "run"))
    run_level();
  else
    function_level();
  fflush(out);
  return 0;
}
