/* harness `meshops` (C13): the real ref_split_edge / ref_collapse_edge / ref_swap_tri_edge (static: white-box
   include of ref_swap.c) on a grid built in-process, and (mode `run`) hooked real adaptation passes.
   One output line per op on the protocol stream `out` (function level); in run mode one `rec ...` line per hook
   event plus one `done ...` line per op.  The library's own printf diagnostics go to /dev/null. */
#include <unistd.h>

#include "h_proto.h"
#include "ref_swap.c" /* white box: static ref_swap_tri_edge */

#include "ref_adapt.h"
#include "ref_cavity.h"
#include "ref_collapse.h"
#include "ref_fixture.h"
#include "ref_interp.h"
#include "ref_metric.h"
#include "ref_smooth.h"
#include "ref_split.h"
#include "ref_verif.h"

static FILE *out;
static REF_MPI ref_mpi;
static REF_GRID ref_grid;

#define NODE_LIMIT 100000

static int is_op(const char *op, int nw) { return 0 == strcmp(h_w[0], op) && h_nw == nw; }

static void reset(void) {
  if (ref_grid) ref_grid_free(ref_grid);
  ref_grid = NULL;
  if (REF_SUCCESS != ref_grid_create(&ref_grid, ref_mpi)) exit(3);
}

/* ---------- canonical cell lists ---------- */
static int row_len;
static int row_cmp(const void *a, const void *b) {
  const REF_INT *x = (const REF_INT *)a, *y = (const REF_INT *)b;
  int i;
  for (i = 0; i < row_len; i++) {
    if (x[i] < y[i]) return -1;
    if (x[i] > y[i]) return 1;
  }
  return 0;
}

static void print_rows(REF_INT *rows, int n, int len) {
  int i, k;
  row_len = len;
  qsort(rows, (size_t)n, sizeof(REF_INT) * (size_t)len, row_cmp);
  for (i = 0; i < n; i++) {
    fputc(' ', out);
    for (k = 0; k < len; k++) fprintf(out, "%s%d", k ? "," : "", rows[k + len * i]);
  }
}

static void print_group(const char *name, REF_CELL ref_cell) {
  REF_INT cell, nodes[REF_CELL_MAX_SIZE_PER], n = 0, k, len = ref_cell_size_per(ref_cell);
  REF_INT *rows = (REF_INT *)malloc(sizeof(REF_INT) * (size_t)len * (size_t)(ref_cell_n(ref_cell) + 1));
  each_ref_cell_valid_cell_with_nodes(ref_cell, cell, nodes) {
    for (k = 0; k < len; k++) rows[k + len * n] = nodes[k];
    n++;
  }
  fprintf(out, "%s", name);
  print_rows(rows, n, len);
  free(rows);
}

static void dump(void) {
  REF_NODE ref_node = ref_grid_node(ref_grid);
  REF_INT node, i, first = 1;
  fprintf(out, "nodes %d | ", ref_node_n(ref_node));
  each_ref_node_valid_node(ref_node, node) {
    fprintf(out, "%s%d:%lld:", first ? "" : " ", node, (long long)ref_node_global(ref_node, node));
    first = 0;
    h_pf(out, ref_node_xyz(ref_node, 0, node));
    fputc(':', out);
    h_pf(out, ref_node_xyz(ref_node, 1, node));
    fputc(':', out);
    h_pf(out, ref_node_xyz(ref_node, 2, node));
  }
  fprintf(out, " | unused ");
  for (i = 0; i < ref_node_n_unused(ref_node); i++)
    fprintf(out, "%s%lld", i ? " " : "", (long long)ref_node->unused_global[i]);
  fprintf(out, " | %lld %lld | ", (long long)ref_node->old_n_global, (long long)ref_node->new_n_global);
  print_group("tet", ref_grid_tet(ref_grid));
  fprintf(out, " | ");
  print_group("tri", ref_grid_tri(ref_grid));
  fprintf(out, " | ");
  print_group("edg", ref_grid_edg(ref_grid));
  fprintf(out, "\n");
}

static int in_range(long long v) { return v >= 0 && v < NODE_LIMIT; }

/* harness guard for tet/tri/edg: vertices are valid slots and pairwise distinct */
static int cell_ok(int np) {
  int i, j;
  for (i = 0; i < np; i++) {
    long long v = h_i(h_w[1 + i]);
    if (!in_range(v) || !ref_node_valid(ref_grid_node(ref_grid), (REF_INT)v)) return 0;
    for (j = 0; j < i; j++)
      if (v == h_i(h_w[1 + j])) return 0;
  }
  return 1;
}

static void add_cell(REF_CELL ref_cell, int np) {
  REF_INT nodes[REF_CELL_MAX_SIZE_PER], k, new_cell;
  REF_STATUS s;
  if (!cell_ok(np)) {
    fprintf(out, "bad-op\n");
    return;
  }
  for (k = 0; k < ref_cell_size_per(ref_cell); k++) nodes[k] = (REF_INT)h_i(h_w[1 + k]);
  s = ref_cell_add(ref_cell, nodes, &new_cell);
  fprintf(out, "%s\n", h_status(s));
}

static int all_ints(int from, int n) {
  int i;
  for (i = from; i < from + n; i++) {
    const char *p = h_w[i];
    if (*p == '-') p++;
    if (!*p) return 0;
    for (; *p; p++)
      if (*p < '0' || *p > '9') return 0;
  }
  return 1;
}
static int is_hex16(const char *s) {
  int i;
  if (strlen(s) != 16) return 0;
  for (i = 0; i < 16; i++)
    if (!((s[i] >= '0' && s[i] <= '9') || (s[i] >= 'a' && s[i] <= 'f') || (s[i] >= 'A' && s[i] <= 'F'))) return 0;
  return 1;
}

static void function_level(void) {
  while (h_next(stdin)) {
    REF_NODE ref_node = ref_grid_node(ref_grid);
    if (is_op("reset", 1)) {
      reset();
      fprintf(out, "ok\n");
    } else if (is_op("initg", 2) && all_ints(1, 1)) {
      ref_node_initialize_n_global(ref_node, (REF_GLOB)h_i(h_w[1]));
      fprintf(out, "ok\n");
    } else if (is_op("node", 5) && all_ints(1, 1) && is_hex16(h_w[2]) && is_hex16(h_w[3]) && is_hex16(h_w[4])) {
      REF_INT node;
      REF_STATUS s;
      if (h_i(h_w[1]) > 1000000000) {
        fprintf(out, "bad-op\n");
        continue;
      }
      s = ref_node_add(ref_node, (REF_GLOB)h_i(h_w[1]), &node);
      if (REF_SUCCESS != s) {
        fprintf(out, "%s\n", h_status(s));
        continue;
      }
      ref_node_xyz(ref_node, 0, node) = h_f(h_w[2]);
      ref_node_xyz(ref_node, 1, node) = h_f(h_w[3]);
      ref_node_xyz(ref_node, 2, node) = h_f(h_w[4]);
      fprintf(out, "ok %d\n", node);
    } else if (is_op("tet", 5) && all_ints(1, 4)) {
      add_cell(ref_grid_tet(ref_grid), 4);
    } else if (is_op("tri", 5) && all_ints(1, 4)) {
      add_cell(ref_grid_tri(ref_grid), 3);
    } else if (is_op("edg", 4) && all_ints(1, 3)) {
      add_cell(ref_grid_edg(ref_grid), 2);
    } else if ((is_op("split", 4) || is_op("trial_reject", 4)) && all_ints(1, 2) && is_hex16(h_w[3])) {
      long long a = h_i(h_w[1]), b = h_i(h_w[2]);
      int reject = (0 == strcmp(h_w[0], "trial_reject"));
      REF_GLOB global;
      REF_INT new_node;
      REF_STATUS s, si;
      if (!in_range(a) || !in_range(b)) {
        fprintf(out, "bad-op\n");
        continue;
      }
      if (!ref_node_valid(ref_node, (REF_INT)a) || !ref_node_valid(ref_node, (REF_INT)b)) {
        fprintf(out, "invalid-end\n"); /* harness guard: the passes only try edges of live cells */
        continue;
      }
      /* the trial-vertex frame of ref_split_pass */
      s = ref_node_next_global(ref_node, &global);
      if (REF_SUCCESS != s) {
        fprintf(out, "%s\n", h_status(s));
        continue;
      }
      s = ref_node_add(ref_node, global, &new_node);
      if (REF_SUCCESS != s) {
        fprintf(out, "%s\n", h_status(s));
        continue;
      }
      si = ref_node_interpolate_edge(ref_node, (REF_INT)a, (REF_INT)b, h_f(h_w[3]), new_node);
      if (reject) {
        s = ref_node_remove(ref_node, new_node);
        if (REF_SUCCESS == s) s = ref_geom_remove_all(ref_grid_geom(ref_grid), new_node);
        if (REF_SUCCESS == s)
          fprintf(out, "ok %d %lld %s\n", new_node, (long long)global, h_status(si));
        else
          fprintf(out, "%s\n", h_status(s));
        continue;
      }
      if (REF_SUCCESS != si) {
        ref_node_remove(ref_node, new_node);
        ref_geom_remove_all(ref_grid_geom(ref_grid), new_node);
        fprintf(out, "%s\n", h_status(si));
        continue;
      }
      s = ref_split_edge(ref_grid, (REF_INT)a, (REF_INT)b, new_node);
      if (REF_INCREASE_LIMIT == s) { /* the recovery of ref_split_pass */
        ref_node_remove(ref_node, new_node);
        ref_geom_remove_all(ref_grid_geom(ref_grid), new_node);
        fprintf(out, "increase_limit\n");
      } else if (REF_SUCCESS != s) {
        fprintf(out, "%s\n", h_status(s));
      } else {
        fprintf(out, "ok %d %lld\n", new_node, (long long)global);
      }
    } else if (is_op("collapse", 3) && all_ints(1, 2)) {
      long long a = h_i(h_w[1]), b = h_i(h_w[2]);
      if (!in_range(a) || !in_range(b)) {
        fprintf(out, "bad-op\n");
        continue;
      }
      fprintf(out, "%s\n", h_status(ref_collapse_edge(ref_grid, (REF_INT)a, (REF_INT)b)));
    } else if (is_op("swap", 3) && all_ints(1, 2)) {
      long long a = h_i(h_w[1]), b = h_i(h_w[2]);
      REF_BOOL allowed;
      REF_INT node2, node3;
      REF_STATUS s;
      if (!in_range(a) || !in_range(b)) {
        fprintf(out, "bad-op\n");
        continue;
      }
      s = ref_swap_same_faceid(ref_grid, (REF_INT)a, (REF_INT)b, &allowed);
      if (REF_SUCCESS != s) {
        fprintf(out, "%s\n", h_status(s));
        continue;
      }
      if (!allowed) {
        fprintf(out, "not-allowed\n");
        continue;
      }
      s = ref_swap_manifold(ref_grid, (REF_INT)a, (REF_INT)b, &allowed);
      if (REF_SUCCESS != s) {
        fprintf(out, "%s\n", h_status(s));
        continue;
      }
      if (!allowed) {
        fprintf(out, "not-manifold\n");
        continue;
      }
      s = ref_swap_node23(ref_grid, (REF_INT)a, (REF_INT)b, &node2, &node3);
      if (REF_SUCCESS != s) {
        fprintf(out, "%s\n", h_status(s));
        continue;
      }
      if (node2 == node3) { /* harness guard: the two triangles are the same face, reversed */
        fprintf(out, "degenerate\n");
        continue;
      }
      fprintf(out, "%s\n", h_status(ref_swap_tri_edge(ref_grid, (REF_INT)a, (REF_INT)b)));
    } else if (is_op("node23", 3) && all_ints(1, 2)) {
      long long a = h_i(h_w[1]), b = h_i(h_w[2]);
      REF_INT node2, node3;
      REF_STATUS s;
      if (!in_range(a) || !in_range(b)) {
        fprintf(out, "bad-op\n");
        continue;
      }
      s = ref_swap_node23(ref_grid, (REF_INT)a, (REF_INT)b, &node2, &node3);
      if (REF_SUCCESS == s)
        fprintf(out, "ok %d %d\n", node2, node3);
      else
        fprintf(out, "%s\n", h_status(s));
    } else if (is_op("dump", 1)) {
      dump();
    } else {
      fprintf(out, "bad-op\n");
    }
  }
}


/* ======================= run level: hooked real passes ======================= */
#define REC_CAP 1500 /* records per kind and run op */
static int rec_count[8], rec_total, rec_on[8];
static const char *kinds[] = {"split_trial", "split_edge", "collapse_edge", "swap_tri_edge",
                              "smooth_edge", "smooth_tri", "smooth_tet", "cavity_replace"};

static uint64_t fnv(uint64_t h, const void *p, size_t n) {
  const unsigned char *c = (const unsigned char *)p;
  size_t i;
  for (i = 0; i < n; i++) {
    h ^= c[i];
    h *= 1099511628211ULL;
  }
  return h;
}
#define FNV0 1469598103934665603ULL

static int glob_cmp(const void *a, const void *b) {
  REF_GLOB x = *(const REF_GLOB *)a, y = *(const REF_GLOB *)b;
  return x < y ? -1 : (x > y ? 1 : 0);
}

/* structural hash of the whole grid: every valid vertex (slot, global id, xyz, metric and log-metric bits), every
   cell of every group (as a multiset: the sum of per-cell hashes), the abstract id pool (unused list united with
   [new_n_global, infinity) in canonical form) and old_n_global; with_metric = 0 leaves the 12 metric entries out */
static uint64_t grid_hash(REF_GRID g, int with_metric) {
  REF_NODE ref_node = ref_grid_node(g);
  REF_CELL ref_cell;
  REF_INT node, group, cell, nodes[REF_CELL_MAX_SIZE_PER], i, nu;
  uint64_t total = 0, h;
  REF_GLOB *un, new_n;
  each_ref_node_valid_node(ref_node, node) {
    REF_GLOB gl = ref_node_global(ref_node, node);
    h = fnv(FNV0, &node, sizeof(node));
    h = fnv(h, &gl, sizeof(gl));
    h = fnv(h, &(ref_node->real[REF_NODE_REAL_PER * node]), sizeof(REF_DBL) * (with_metric ? REF_NODE_REAL_PER : 3));
    total += h;
  }
  each_ref_grid_all_ref_cell(g, group, ref_cell) {
    each_ref_cell_valid_cell_with_nodes(ref_cell, cell, nodes) {
      h = fnv(FNV0 + 7 * (uint64_t)(group + 1), nodes, sizeof(REF_INT) * (size_t)ref_cell_size_per(ref_cell));
      total += h;
    }
  }
  nu = ref_node_n_unused(ref_node);
  un = (REF_GLOB *)malloc(sizeof(REF_GLOB) * (size_t)(nu + 1));
  for (i = 0; i < nu; i++) un[i] = ref_node->unused_global[i];
  qsort(un, (size_t)nu, sizeof(REF_GLOB), glob_cmp);
  new_n = ref_node->new_n_global;
  if (REF_EMPTY == new_n) new_n = ref_node_n(ref_node);
  while (nu > 0 && un[nu - 1] == new_n - 1 && (nu < 2 || un[nu - 2] != un[nu - 1])) {
    nu--;
    new_n--;
  }
  h = fnv(FNV0 + 99, un, sizeof(REF_GLOB) * (size_t)nu);
  h = fnv(h, &new_n, sizeof(new_n));
  h = fnv(h, &(ref_node->old_n_global), sizeof(REF_GLOB));
  free(un);
  return total + h;
}

static REF_INT star_cell[3][4096], star_n[3];
static REF_INT star_node[16384], star_nn;

static void add_node(REF_INT v) {
  REF_INT i;
  for (i = 0; i < star_nn; i++)
    if (star_node[i] == v) return;
  if (star_nn < 16384) star_node[star_nn++] = v;
}

static void collect_star(REF_GRID g, int n, const int *ints) {
  REF_CELL cells[3];
  REF_INT k, j, i, item, cell, cn;
  cells[0] = ref_grid_tet(g);
  cells[1] = ref_grid_tri(g);
  cells[2] = ref_grid_edg(g);
  star_nn = 0;
  for (k = 0; k < 3; k++) {
    star_n[k] = 0;
    for (j = 0; j < n; j++) {
      if (ints[j] < 0) continue;
      each_ref_cell_having_node(cells[k], ints[j], item, cell) {
        int have = 0;
        for (i = 0; i < star_n[k]; i++)
          if (star_cell[k][i] == cell) have = 1;
        if (!have && star_n[k] < 4096) star_cell[k][star_n[k]++] = cell;
      }
    }
    for (i = 0; i < star_n[k]; i++)
      for (cn = 0; cn < ref_cell_node_per(cells[k]); cn++) add_node(ref_cell_c2n(cells[k], cn, star_cell[k][i]));
  }
  for (j = 0; j < n; j++)
    if (ints[j] >= 0 && ref_node_valid(ref_grid_node(g), ints[j])) add_node(ints[j]);
}

static void my_op(const char *phase, const char *kind, void *object, int n, const int *ints) {
  REF_GRID g;
  REF_NODE ref_node;
  REF_CELL cells[3];
  static const char *gname[] = {"T", "R", "E"};
  int kk, k, i, j, is_int;
  REF_INT *rows;
  for (kk = 0; kk < 8; kk++)
    if (0 == strcmp(kind, kinds[kk])) break;
  if (kk == 8) return;
  if (0 == strcmp(phase, "begin")) {
    rec_on[kk] = (rec_count[kk] < REC_CAP);
    if (rec_on[kk]) rec_count[kk]++;
  }
  if (!rec_on[kk]) return;
  g = (7 == kk) ? ref_cavity_grid((REF_CAVITY)object) : (REF_GRID)object;
  ref_node = ref_grid_node(g);
  cells[0] = ref_grid_tet(g);
  cells[1] = ref_grid_tri(g);
  cells[2] = ref_grid_edg(g);
  collect_star(g, n, ints);
  rec_total++;
  fprintf(out, "rec %s %s %d %d %d twod=%d hash=%016llx hashs=%016llx valid=", phase, kind, ints[0],
          n > 1 ? ints[1] : -1, n > 2 ? ints[2] : -1, ref_grid_twod(g) ? 1 : 0, (unsigned long long)grid_hash(g, 1),
          (unsigned long long)grid_hash(g, 0));
  for (j = 0; j < 3; j++)
    fprintf(out, "%d", (j < n && ints[j] >= 0 && ref_node_valid(ref_node, ints[j])) ? 1 : 0);
  fprintf(out, " nu=%d utop=%lld oldN=%lld newN=%lld | N", ref_node_n_unused(ref_node),
          ref_node_n_unused(ref_node) > 0 ? (long long)ref_node->unused_global[ref_node_n_unused(ref_node) - 1] : -1LL,
          (long long)ref_node->old_n_global, (long long)ref_node->new_n_global);
  for (i = 0; i < star_nn; i++) {
    REF_INT v = star_node[i];
    if (!ref_node_valid(ref_node, v)) continue; /* a cell referencing it shows up in localValid */
    is_int = 0;
    for (j = 0; j < n; j++)
      if (ints[j] == v) is_int = 1;
    fprintf(out, " %d:%lld", v, (long long)ref_node_global(ref_node, v));
    for (k = 0; k < (is_int ? REF_NODE_REAL_PER : 3); k++) {
      fputc(':', out);
      h_pf(out, ref_node->real[k + REF_NODE_REAL_PER * v]);
    }
  }
  for (k = 0; k < 3; k++) {
    int len = ref_cell_size_per(cells[k]);
    fprintf(out, " | %s", gname[k]);
    rows = (REF_INT *)malloc(sizeof(REF_INT) * (size_t)len * (size_t)(star_n[k] + 1));
    for (i = 0; i < star_n[k]; i++)
      for (j = 0; j < len; j++) rows[j + len * i] = ref_cell_c2n(cells[k], j, star_cell[k][i]);
    print_rows(rows, star_n[k], len);
    free(rows);
  }
  fprintf(out, "\n");
}

static unsigned long long lcg_state;
static double lcg(void) { /* deterministic jitter in [-1,1) */
  lcg_state = lcg_state * 6364136223846793005ULL + 1442695040888963407ULL;
  return ((double)((lcg_state >> 33) & 0xffffff) / (double)0x800000) - 1.0;
}

/* pole fixture (run dim code 5): one axis edge (0,0,0)-(0,0,1) surrounded by a closed fan of nsector tets
   (n0,n1,p_k,p_k+1), ring points on the unit circle at z = 0.5, 2*nsector boundary triangles (ids 1, 2).  With more
   than MAX_CELL_SPLIT = 100 sectors ref_split_edge refuses the axis edge with REF_INCREASE_LIMIT after the trial
   vertex was created: the reject branch of ref_split_pass that ordinary meshes never reach. */
static REF_STATUS pole_grid(REF_GRID *ref_grid_ptr, REF_INT nsector) {
  REF_GRID ref_grid;
  REF_NODE ref_node;
  REF_INT node, k, n0, n1, cell;
  REF_INT nodes[REF_CELL_MAX_SIZE_PER];
  REF_DBL theta, vol;
  RSS(ref_grid_create(ref_grid_ptr, ref_mpi), "create");
  ref_grid = *ref_grid_ptr;
  ref_node = ref_grid_node(ref_grid);
  RSS(ref_node_add(ref_node, 0, &n0), "n0");
  ref_node_xyz(ref_node, 0, n0) = 0.0;
  ref_node_xyz(ref_node, 1, n0) = 0.0;
  ref_node_xyz(ref_node, 2, n0) = 0.0;
  RSS(ref_node_add(ref_node, 1, &n1), "n1");
  ref_node_xyz(ref_node, 0, n1) = 0.0;
  ref_node_xyz(ref_node, 1, n1) = 0.0;
  ref_node_xyz(ref_node, 2, n1) = 1.0;
  for (k = 0; k < nsector; k++) {
    theta = 2.0 * 3.14159265358979323846 * (REF_DBL)k / (REF_DBL)nsector;
    RSS(ref_node_add(ref_node, (REF_GLOB)(2 + k), &node), "ring");
    ref_node_xyz(ref_node, 0, node) = cos(theta);
    ref_node_xyz(ref_node, 1, node) = sin(theta);
    ref_node_xyz(ref_node, 2, node) = 0.5;
  }
  RSS(ref_node_initialize_n_global(ref_node, (REF_GLOB)(2 + nsector)), "ng");
  for (k = 0; k < nsector; k++) {
    REF_INT pk = 2 + k, pk1 = 2 + (k + 1) % nsector;
    nodes[0] = n0;
    nodes[1] = n1;
    nodes[2] = pk;
    nodes[3] = pk1;
    RSS(ref_node_tet_vol(ref_node, nodes, &vol), "vol");
    if (vol < 0.0) {
      nodes[2] = pk1;
      nodes[3] = pk;
    }
    RSS(ref_cell_add(ref_grid_tet(ref_grid), nodes, &cell), "tet");
    nodes[0] = n0;
    nodes[1] = pk1;
    nodes[2] = pk;
    nodes[3] = 1;
    RSS(ref_cell_add(ref_grid_tri(ref_grid), nodes, &cell), "tri");
    nodes[0] = n1;
    nodes[1] = pk;
    nodes[2] = pk1;
    nodes[3] = 2;
    RSS(ref_cell_add(ref_grid_tri(ref_grid), nodes, &cell), "tri");
  }
  return REF_SUCCESS;
}

/* run <dim 2|3|5> <n> <jitter seed> <metric iso|aniso|lin|coarse|pole> <h hex> <passes e.g. acsmw...>
   (dim code 5: 3-D pole fixture with n sectors, 3 <= n <= 200) */
static void run_level(void) {
  while (h_next(stdin)) {
    REF_GRID g = NULL;
    REF_NODE ref_node;
    REF_INT node, nn;
    REF_STATUS s = REF_SUCCESS;
    REF_BOOL all_done;
    double h, dx;
    const char *p;
    int dim, k;
    if (!(is_op("run", 7) && all_ints(1, 3) && is_hex16(h_w[5]))) {
      fprintf(out, "bad-op\n");
      continue;
    }
    dim = (int)h_i(h_w[1]);
    nn = (REF_INT)h_i(h_w[2]);
    h = h_f(h_w[5]);
    if ((dim != 2 && dim != 3 && dim != 5) || nn < 2 || (nn > 12 && dim != 5) || (5 == dim && (nn < 3 || nn > 200)) ||
        !(h > 1e-3 && h < 1e3) || strlen(h_w[6]) > 24) {
      fprintf(out, "bad-op\n");
      continue;
    }
    if (5 == dim) {
      s = pole_grid(&g, nn);
      dim = 3;
    } else if (3 == dim)
      s = ref_fixture_tet_brick_args_grid(&g, ref_mpi, 0.0, 1.0, 0.0, 1.0, 0.0, 1.0, nn, nn, nn);
    else
      s = ref_fixture_twod_brick_grid(&g, ref_mpi, nn);
    if (REF_SUCCESS != s) {
      fprintf(out, "done fixture %s\n", h_status(s));
      continue;
    }
    ref_node = ref_grid_node(g);
    lcg_state = (unsigned long long)h_i(h_w[3]) * 2654435761ULL + 12345ULL;
    dx = 1.0 / (double)(nn - 1);
    each_ref_node_valid_node(ref_node, node) {
      double x = ref_node_xyz(ref_node, 0, node), y = ref_node_xyz(ref_node, 1, node),
             z = ref_node_xyz(ref_node, 2, node);
      double hx = h, hy = h, hz = h;
      int interior = x > 1e-9 && x < 1 - 1e-9 && y > 1e-9 && y < 1 - 1e-9 && (2 == dim || (z > 1e-9 && z < 1 - 1e-9));
      if (interior && 0 != h_i(h_w[3])) {
        ref_node_xyz(ref_node, 0, node) += 0.2 * dx * lcg();
        ref_node_xyz(ref_node, 1, node) += 0.2 * dx * lcg();
        if (3 == dim) ref_node_xyz(ref_node, 2, node) += 0.2 * dx * lcg();
      }
      if (0 == strcmp(h_w[4], "aniso")) {
        hy = 4.0 * h;
        hz = 2.0 * h;
      } else if (0 == strcmp(h_w[4], "lin")) {
        hx = hy = hz = h * (0.3 + 1.4 * x);
      } else if (0 == strcmp(h_w[4], "bl")) {
        hy = h * (0.1 + 2.0 * y);
      } else if (0 == strcmp(h_w[4], "pole")) { /* only the axis edge is long */
        hx = hy = 4.0 * h;
      }
      if (2 == dim) hz = 1.0;
      ref_node_metric_form(ref_node, node, 1.0 / (hx * hx), 0, 0, 1.0 / (hy * hy), 0, 1.0 / (hz * hz));
    }
    if (1 == h_i(h_w[3]) % 2) { /* odd seed: with a background grid, vertex moves re-interpolate the metric */
      if (REF_SUCCESS == ref_grid_cache_background(g)) ref_interp_continuously(ref_grid_interp(g)) = REF_TRUE;
    }
    for (k = 0; k < 8; k++) rec_count[k] = rec_on[k] = 0;
    rec_total = 0;
    ref_verif_op_fcn = my_op;
    for (p = h_w[6]; *p && REF_SUCCESS == s; p++) {
      switch (*p) {
        case 'a': s = ref_adapt_pass(g, &all_done); break;
        case 's': s = ref_split_pass(g); break;
        case 'c': s = ref_collapse_pass(g); break;
        case 'w': s = (2 == dim) ? ref_swap_tri_pass(g) : ref_swap_pass(g); break;
        case 'm': s = ref_smooth_pass(g); break;
        default: break;
      }
    }
    ref_verif_op_fcn = NULL;
    fprintf(out, "done %s nrec=%d nnode=%d ntet=%d ntri=%d split_edge=%d collapse_edge=%d swap=%d cavity=%d\n",
            h_status(s), rec_total, ref_node_n(ref_node), ref_cell_n(ref_grid_tet(g)), ref_cell_n(ref_grid_tri(g)),
            rec_count[1], rec_count[2], rec_count[3], rec_count[7]);
    ref_grid_free(g);
  }
}

int main(int argc, char **argv) {
  out = fdopen(dup(1), "w");
  if (!out || !freopen("/dev/null", "w", stdout)) return 3;
  if (REF_SUCCESS != ref_mpi_create(&ref_mpi)) return 3;
  { /* ref_swap_node23 exports a .tec file on its error paths: keep such files in a scratch directory */
    char tmpl[] = "/tmp/h_meshops_XXXXXX";
    char *d = mkdtemp(tmpl);
    if (d && 0 == chdir(d)) {
    }
  }
  reset();
  if (argc > 1 && 0 == strcmp(argv[1], "run"))
    run_level();
  else
    function_level();
  fflush(out);
  {
    char cwd[256];
    if (getcwd(cwd, sizeof(cwd)) && 0 == strncmp(cwd, "/tmp/h_meshops_", 15)) {
      remove("ref_swap_node23.tec");
      remove("ref_swap_same_faceid.tec");
      if (0 == chdir("/")) rmdir(cwd);
    }
  }
  return 0;
}
