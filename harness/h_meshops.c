/* harness `meshops` (C13): the real ref_split_edge / ref_collapse_edge / ref_swap_tri_edge (static: white-box
   include of ref_swap.c) on a grid built in-process, and (mode `run`) hooked real adaptation passes.
   One output line per op on the protocol stream `out` (function level); in run mode one `rec ...` line per hook
   event plus one `done ...` line per op.  The library's own printf diagnostics go to /dev/null. */
#include <unistd.h>

#include "h_proto.h"
#include "ref_swap.c" /* white box: static ref_swap_tri_edge */

#include "ref_adapt.h"
#include "ref_cavity.h"
#include "ref_collapse.h"
#include "ref_fixture.h"
#include "ref_metric.h"
#include "ref_smooth.h"
#include "ref_split.h"
#include "ref_verif.h"

static FILE *out;
static REF_MPI ref_mpi;
static REF_GRID ref_grid;

#define NODE_LIMIT 100000

static int is_op(const char *op, int nw) { return 0 == strcmp(h_w[0], op) && h_nw == nw; }

static void reset(void) {
  if (ref_grid) ref_grid_free(ref_grid);
  ref_grid = NULL;
  if (REF_SUCCESS != ref_grid_create(&ref_grid, ref_mpi)) exit(3);
}

/* ---------- canonical cell lists ---------- */
static int row_len;
static int row_cmp(const void *a, const void *b) {
  const REF_INT *x = (const REF_INT *)a, *y = (const REF_INT *)b;
  int i;
  for (i = 0; i < row_len; i++) {
    if (x[i] < y[i]) return -1;
    if (x[i] > y[i]) return 1;
  }
  return 0;
}

static void print_rows(REF_INT *rows, int n, int len) {
  int i, k;
  row_len = len;
  qsort(rows, (size_t)n, sizeof(REF_INT) * (size_t)len, row_cmp);
  for (i = 0; i < n; i++) {
    fputc(' ', out);
    for (k = 0; k < len; k++) fprintf(out, "%s%d", k ? "," : "", rows[k + len * i]);
  }
}

static void print_group(const char *name, REF_CELL ref_cell) {
  REF_INT cell, nodes[REF_CELL_MAX_SIZE_PER], n = 0, k, len = ref_cell_size_per(ref_cell);
  REF_INT *rows = (REF_INT *)malloc(sizeof(REF_INT) * (size_t)len * (size_t)(ref_cell_n(ref_cell) + 1));
  each_ref_cell_valid_cell_with_nodes(ref_cell, cell, nodes) {
    for (k = 0; k < len; k++) rows[k + len * n] = nodes[k];
    n++;
  }
  fprintf(out, "%s", name);
  print_rows(rows, n, len);
  free(rows);
}

static void dump(void) {
  REF_NODE ref_node = ref_grid_node(ref_grid);
  REF_INT node, i, first = 1;
  fprintf(out, "nodes %d | ", ref_node_n(ref_node));
  each_ref_node_valid_node(ref_node, node) {
    fprintf(out, "%s%d:%lld:", first ? "" : " ", node, (long long)ref_node_global(ref_node, node));
    first = 0;
    h_pf(out, ref_node_xyz(ref_node, 0, node));
    fputc(':', out);
    h_pf(out, ref_node_xyz(ref_node, 1, node));
    fputc(':', out);
    h_pf(out, ref_node_xyz(ref_node, 2, node));
  }
  fprintf(out, " | unused ");
  for (i = 0; i < ref_node_n_unused(ref_node); i++)
    fprintf(out, "%s%lld", i ? " " : "", (long long)ref_node->unused_global[i]);
  fprintf(out, " | %lld %lld | ", (long long)ref_node->old_n_global, (long long)ref_node->new_n_global);
  print_group("tet", ref_grid_tet(ref_grid));
  fprintf(out, " | ");
  print_group("tri", ref_grid_tri(ref_grid));
  fprintf(out, " | ");
  print_group("edg", ref_grid_edg(ref_grid));
  fprintf(out, "\n");
}

static int in_range(long long v) { return v >= 0 && v < NODE_LIMIT; }

/* harness guard for tet/tri/edg: vertices are valid slots and pairwise distinct */
static int cell_ok(int np) {
  int i, j;
  for (i = 0; i < np; i++) {
    long long v = h_i(h_w[1 + i]);
    if (!in_range(v) || !ref_node_valid(ref_grid_node(ref_grid), (REF_INT)v)) return 0;
    for (j = 0; j < i; j++)
      if (v == h_i(h_w[1 + j])) return 0;
  }
  return 1;
}

static void add_cell(REF_CELL ref_cell, int np) {
  REF_INT nodes[REF_CELL_MAX_SIZE_PER], k, new_cell;
  REF_STATUS s;
  if (!cell_ok(np)) {
    fprintf(out, "bad-op\n");
    return;
  }
  for (k = 0; k < ref_cell_size_per(ref_cell); k++) nodes[k] = (REF_INT)h_i(h_w[1 + k]);
  s = ref_cell_add(ref_cell, nodes, &new_cell);
  fprintf(out, "%s\n", h_status(s));
}

static int all_ints(int from, int n) {
  int i;
  for (i = from; i < from + n; i++) {
    const char *p = h_w[i];
    if (*p == '-') p++;
    if (!*p) return 0;
    for (; *p; p++)
      if (*p < '0' || *p > '9') return 0;
  }
  return 1;
}
static int is_hex16(const char *s) {
  int i;
  if (strlen(s) != 16) return 0;
  for (i = 0; i < 16; i++)
    if (!((s[i] >= '0' && s[i] <= '9') || (s[i] >= 'a' && s[i] <= 'f') || (s[i] >= 'A' && s[i] <= 'F'))) return 0;
  return 1;
}

static void function_level(void) {
  while (h_next(stdin)) {
    REF_NODE ref_node = ref_grid_node(ref_grid);
    if (is_op("reset", 1)) {
      reset();
      fprintf(out, "ok\n");
    } else if (is_op("initg", 2) && all_ints(1, 1)) {
      ref_node_initialize_n_global(ref_node, (REF_GLOB)h_i(h_w[1]));
      fprintf(out, "ok\n");
    } else if (is_op("node", 5) && all_ints(1, 1) && is_hex16(h_w[2]) && is_hex16(h_w[3]) && is_hex16(h_w[4])) {
      REF_INT node;
      REF_STATUS s;
      if (h_i(h_w[1]) > 1000000000) {
        fprintf(out, "bad-op\n");
        continue;
      }
      s = ref_node_add(ref_node, (REF_GLOB)h_i(h_w[1]), &node);
      if (REF_SUCCESS != s) {
        fprintf(out, "%s\n", h_status(s));
        continue;
      }
      ref_node_xyz(ref_node, 0, node) = h_f(h_w[2]);
      ref_node_xyz(ref_node, 1, node) = h_f(h_w[3]);
      ref_node_xyz(ref_node, 2, node) = h_f(h_w[4]);
      fprintf(out, "ok %d\n", node);
    } else if (is_op("tet", 5) && all_ints(1, 4)) {
      add_cell(ref_grid_tet(ref_grid), 4);
    } else if (is_op("tri", 5) && all_ints(1, 4)) {
      add_cell(ref_grid_tri(ref_grid), 3);
    } else if (is_op("edg", 4) && all_ints(1, 3)) {
      add_cell(ref_grid_edg(ref_grid), 2);
    } else if ((is_op("split", 4) || is_op("trial_reject", 4)) && all_ints(1, 2) && is_hex16(h_w[3])) {
      long long a = h_i(h_w[1]), b = h_i(h_w[2]);
      int reject = (0 == strcmp(h_w[0], "trial_reject"));
      REF_GLOB global;
      REF_INT new_node;
      REF_STATUS s, si;
      if (!in_range(a) || !in_range(b)) {
        fprintf(out, "bad-op\n");
        continue;
      }
      if (!ref_node_valid(ref_node, (REF_INT)a) || !ref_node_valid(ref_node, (REF_INT)b)) {
        fprintf(out, "invalid-end\n"); /* harness guard: the passes only try edges of live cells */
        continue;
      }
      /* the trial-vertex frame of ref_split_pass */
      s = ref_node_next_global(ref_node, &global);
      if (REF_SUCCESS != s) {
        fprintf(out, "%s\n", h_status(s));
        continue;
      }
      s = ref_node_add(ref_node, global, &new_node);
      if (REF_SUCCESS != s) {
        fprintf(out, "%s\n", h_status(s));
        continue;
      }
      si = ref_node_interpolate_edge(ref_node, (REF_INT)a, (REF_INT)b, h_f(h_w[3]), new_node);
      if (reject) {
        s = ref_node_remove(ref_node, new_node);
        if (REF_SUCCESS == s) s = ref_geom_remove_all(ref_grid_geom(ref_grid), new_node);
        if (REF_SUCCESS == s)
          fprintf(out, "ok %d %lld %s\n", new_node, (long long)global, h_status(si));
        else
          fprintf(out, "%s\n", h_status(s));
        continue;
      }
      if (REF_SUCCESS != si) {
        ref_node_remove(ref_node, new_node);
        ref_geom_remove_all(ref_grid_geom(ref_grid), new_node);
        fprintf(out, "%s\n", h_status(si));
        continue;
      }
      s = ref_split_edge(ref_grid, (REF_INT)a, (REF_INT)b, new_node);
      if (REF_INCREASE_LIMIT == s) { /* the recovery of ref_split_pass */
        ref_node_remove(ref_node, new_node);
        ref_geom_remove_all(ref_grid_geom(ref_grid), new_node);
        fprintf(out, "increase_limit\n");
      } else if (REF_SUCCESS != s) {
        fprintf(out, "%s\n", h_status(s));
      } else {
        fprintf(out, "ok %d %lld\n", new_node, (long long)global);
      }
    } else if (is_op("collapse", 3) && all_ints(1, 2)) {
      long long a = h_i(h_w[1]), b = h_i(h_w[2]);
      if (!in_range(a) || !in_range(b)) {
        fprintf(out, "bad-op\n");
        continue;
      }
      fprintf(out, "%s\n", h_status(ref_collapse_edge(ref_grid, (REF_INT)a, (REF_INT)b)));
    } else if (is_op("swap", 3) && all_ints(1, 2)) {
      long long a = h_i(h_w[1]), b = h_i(h_w[2]);
      REF_BOOL allowed;
      REF_INT node2, node3;
      REF_STATUS s;
      if (!in_range(a) || !in_range(b)) {
        fprintf(out, "bad-op\n");
        continue;
      }
      s = ref_swap_same_faceid(ref_grid, (REF_INT)a, (REF_INT)b, &allowed);
      if (REF_SUCCESS != s) {
        fprintf(out, "%s\n", h_status(s));
        continue;
      }
      if (!allowed) {
        fprintf(out, "not-allowed\n");
        continue;
      }
      s = ref_swap_manifold(ref_grid, (REF_INT)a, (REF_INT)b, &allowed);
      if (REF_SUCCESS != s) {
        fprintf(out, "%s\n", h_status(s));
        continue;
      }
      if (!allowed) {
        fprintf(out, "not-manifold\n");
        continue;
      }
      s = ref_swap_node23(ref_grid, (REF_INT)a, (REF_INT)b, &node2, &node3);
      if (REF_SUCCESS != s) {
        fprintf(out, "%s\n", h_status(s));
        continue;
      }
      if (node2 == node3) { /* harness guard: the two triangles are the same face, reversed */
        fprintf(out, "degenerate\n");
        continue;
      }
      fprintf(out, "%s\n", h_status(ref_swap_tri_edge(ref_grid, (REF_INT)a, (REF_INT)b)));
    } else if (is_op("node23", 3) && all_ints(1, 2)) {
      long long a = h_i(h_w[1]), b = h_i(h_w[2]);
      REF_INT node2, node3;
      REF_STATUS s;
      if (!in_range(a) || !in_range(b)) {
        fprintf(out, "bad-op\n");
        continue;
      }
      s = ref_swap_node23(ref_grid, (REF_INT)a, (REF_INT)b, &node2, &node3);
      if (REF_SUCCESS == s)
        fprintf(out, "ok %d %d\n", node2, node3);
      else
        fprintf(out, "%s\n", h_status(s));
    } else if (is_op("dump", 1)) {
      dump();
    } else {
      fprintf(out, "bad-op\n");
    }
  }
}

int main(int argc, char **argv) {
  out = fdopen(dup(1), "w");
  if (!out || !freopen("/dev/null", "w", stdout)) return 3;
  if (REF_SUCCESS != ref_mpi_create(&ref_mpi)) return 3;
  { /* ref_swap_node23 exports a .tec file on its error paths: keep such files in a scratch directory */
    char tmpl[] = "/tmp/h_meshops_XXXXXX";
    char *d = mkdtemp(tmpl);
    if (d && 0 == chdir(d)) {
    }
  }
  reset();
  (void)argc;
  (void)argv;
  function_level();
  fflush(out);
  {
    char cwd[256];
    if (getcwd(cwd, sizeof(cwd)) && 0 == strncmp(cwd, "/tmp/h_meshops_", 15)) {
      remove("ref_swap_node23.tec");
      remove("ref_swap_same_faceid.tec");
      if (0 == chdir("/")) rmdir(cwd);
    }
  }
  return 0;
}
