/* harness `repro` (C18): the mechanisms behind "same inputs => same output" that have a model.
 *
 *   reset                         fresh REF_GRID (all 16 cell stores empty), wall elements dropped        -> ok
 *   add <group> n0 .. n_{size_per-1}   ref_cell_add on ref_grid_cell(grid,group)                          -> ok <cell> | status
 *   remove <group> <cell>         ref_cell_remove                                                         -> status
 *   live                          the live cells of every store in slot order                             -> ok g:cell:n0,n1,.. ...
 *   edges                         ref_edge_create(grid): n and e2n in edge order                          -> ok n a0 b0 a1 b1 .. | status
 *
 *   welem 2 <6 hex> | welem 3 <9 hex>   one wall segment / triangle for the wall-distance session         -> ok
 *   randseed <k>                  seed of the rand() stream the harness feeds to refine (see rand below)   -> ok
 *   walldist <per> <mask> q...    the real serial ref_phys_wall_distance (its tree insertion order comes from
 *                                 ref_sort_shuffle, i.e. from rand()) on the session's elements            -> ok d... | status
 *
 * White-box link trick: this translation unit defines rand(), so ref_sort_shuffle / the RCB rotation consume the
 * stream chosen by `randseed` instead of libc's never-seeded one.
 * refine's RSS/RAS macros print diagnostics to stdout on error branches, so the protocol lines go to a private copy
 * of fd 1 and stdout itself is pointed at /dev/null. */
#include "h_proto.h"
#include <unistd.h>
#include "ref_cell.h"
#include "ref_dict.h"
#include "ref_edge.h"
#include "ref_grid.h"
#include "ref_mpi.h"
#include "ref_node.h"
#include "ref_phys.h"

static unsigned long long h_rand_state = 1;
int rand(void) {
  h_rand_state = h_rand_state * 6364136223846793005ULL + 1442695040888963407ULL;
  return (int)((h_rand_state >> 33) & 0x7fffffffULL);
}

static FILE *out;
static REF_MPI h_mpi = NULL;
static REF_GRID grid = NULL;
static double *wall[4] = {NULL, NULL, NULL, NULL};
static int nwall[4] = {0, 0, 0, 0}, cwall[4] = {0, 0, 0, 0};

#define NODE_LIMIT 100000

static int valid_i(const char *s) {
  int n = 0;
  if (*s == '-') s++;
  while (*s >= '0' && *s <= '9') { s++; n++; }
  return *s == 0 && n > 0 && n < 10;
}
static int valid_f(const char *s) {
  int i;
  for (i = 0; i < 16; i++) {
    char c = s[i];
    if (!((c >= '0' && c <= '9') || (c >= 'a' && c <= 'f') || (c >= 'A' && c <= 'F'))) return 0;
  }
  return s[16] == 0;
}

static REF_STATUS fresh(void) {
  REF_STATUS st = REF_SUCCESS;
  int per;
  if (grid) ref_grid_free(grid);
  grid = NULL;
  if (!h_mpi) st = ref_mpi_create(&h_mpi);
  if (REF_SUCCESS == st) st = ref_grid_create(&grid, h_mpi);
  for (per = 2; per <= 3; per++) nwall[per] = 0;
  return st;
}

static void wall_distance(int per, int mask, int nq, char **qw) {
  REF_GRID g = NULL;
  REF_DICT dict = NULL;
  REF_NODE ref_node;
  REF_DBL *distance = NULL;
  REF_STATUS st = REF_SUCCESS;
  int ncell = nwall[per], e, v, i, node, cell, first_q;
  double *xyz = wall[per];
  REF_GLOB gl = 0;
  REF_INT nodes[REF_CELL_MAX_SIZE_PER];
  st = ref_grid_create(&g, h_mpi);
  if (REF_SUCCESS != st) { fprintf(out, "%s\n", h_status(st)); return; }
  if (2 == per) ref_grid_twod(g) = REF_TRUE;
  ref_node = ref_grid_node(g);
  for (e = 0; REF_SUCCESS == st && e < ncell; e++) {
    for (v = 0; REF_SUCCESS == st && v < per; v++) {
      st = ref_node_add(ref_node, gl++, &node);
      if (REF_SUCCESS != st) break;
      for (i = 0; i < 3; i++) ref_node_xyz(ref_node, i, node) = xyz[i + 3 * v + 3 * per * e];
      nodes[v] = node;
    }
    nodes[per] = 1 + e % 3;
    if (REF_SUCCESS == st) st = ref_cell_add(2 == per ? ref_grid_edg(g) : ref_grid_tri(g), nodes, &cell);
  }
  first_q = (int)gl;
  for (e = 0; REF_SUCCESS == st && e < nq; e++) {
    st = ref_node_add(ref_node, gl++, &node);
    if (REF_SUCCESS != st) break;
    for (i = 0; i < 3; i++) ref_node_xyz(ref_node, i, node) = h_f(qw[3 * e + i]);
  }
  if (REF_SUCCESS == st) st = ref_dict_create(&dict);
  for (i = 1; REF_SUCCESS == st && i <= 3; i++)
    if (mask & (1 << (i - 1))) st = ref_dict_store(dict, i, 4000);
  if (REF_SUCCESS == st) {
    distance = (REF_DBL *)malloc(sizeof(REF_DBL) * (size_t)(ref_node_max(ref_node) + 1));
    for (i = 0; i < ref_node_max(ref_node); i++) distance[i] = -1.0;
    st = ref_phys_wall_distance(g, dict, distance);
  }
  fprintf(out, "%s", h_status(st));
  if (REF_SUCCESS == st)
    for (e = 0; e < nq; e++) {
      fputc(' ', out);
      h_pf(out, distance[first_q + e]);
    }
  fputc('\n', out);
  free(distance);
  if (dict) ref_dict_free(dict);
  if (g) ref_grid_free(g);
}

int main(void) {
  int fd = dup(1);
  out = fdopen(fd, "w");
  if (!freopen("/dev/null", "w", stdout)) return 3;
  if (REF_SUCCESS != fresh()) return 4;
  while (h_next(stdin)) {
    const char *op = h_w[0];
    int i, ok = 1;
    if (0 == strcmp(op, "reset") && 1 == h_nw) {
      fprintf(out, "%s\n", h_status(fresh()));
    } else if (0 == strcmp(op, "add") && h_nw >= 3 && valid_i(h_w[1]) && h_i(h_w[1]) >= 0 && h_i(h_w[1]) < 16) {
      REF_CELL ref_cell = ref_grid_cell(grid, (int)h_i(h_w[1]));
      REF_INT nodes[REF_CELL_MAX_SIZE_PER], cell;
      REF_STATUS st;
      if (h_nw != 2 + ref_cell_size_per(ref_cell)) { fputs("bad-op\n", out); continue; }
      for (i = 2; i < h_nw; i++)
        if (!valid_i(h_w[i]) || h_i(h_w[i]) < -3 || h_i(h_w[i]) >= NODE_LIMIT) ok = 0;
      if (!ok) { fputs("bad-op\n", out); continue; }
      for (i = 2; i < h_nw; i++) nodes[i - 2] = (REF_INT)h_i(h_w[i]);
      st = ref_cell_add(ref_cell, nodes, &cell);
      if (REF_SUCCESS == st) fprintf(out, "ok %d\n", cell);
      else fprintf(out, "%s\n", h_status(st));
    } else if (0 == strcmp(op, "remove") && 3 == h_nw && valid_i(h_w[1]) && h_i(h_w[1]) >= 0 && h_i(h_w[1]) < 16 &&
               valid_i(h_w[2])) {
      fprintf(out, "%s\n", h_status(ref_cell_remove(ref_grid_cell(grid, (int)h_i(h_w[1])), (REF_INT)h_i(h_w[2]))));
    } else if (0 == strcmp(op, "live") && 1 == h_nw) {
      int group, cell, k;
      fputs("ok", out);
      for (group = 0; group < 16; group++) {
        REF_CELL ref_cell = ref_grid_cell(grid, group);
        each_ref_cell_valid_cell(ref_cell, cell) {
          fprintf(out, " %d:%d:", group, cell);
          for (k = 0; k < ref_cell_node_per(ref_cell); k++)
            fprintf(out, "%s%d", k ? "," : "", ref_cell_c2n(ref_cell, k, cell));
        }
      }
      fputc('\n', out);
    } else if (0 == strcmp(op, "edges") && 1 == h_nw) {
      REF_EDGE ref_edge = NULL;
      REF_STATUS st = ref_edge_create(&ref_edge, grid);
      if (REF_SUCCESS != st) {
        fprintf(out, "%s\n", h_status(st)); /* the C leaks ref_edge on this path */
      } else {
        int e;
        fprintf(out, "ok %d", ref_edge_n(ref_edge));
        for (e = 0; e < ref_edge_n(ref_edge); e++)
          fprintf(out, " %d %d", ref_edge_e2n(ref_edge, 0, e), ref_edge_e2n(ref_edge, 1, e));
        fputc('\n', out);
        ref_edge_free(ref_edge);
      }
    } else if (0 == strcmp(op, "welem") && h_nw >= 2 && (0 == strcmp(h_w[1], "2") || 0 == strcmp(h_w[1], "3"))) {
      int per = h_w[1][0] - '0';
      if (h_nw != 2 + 3 * per) { fputs("bad-op\n", out); continue; }
      for (i = 2; i < h_nw; i++)
        if (!valid_f(h_w[i])) ok = 0;
      if (!ok) { fputs("bad-op\n", out); continue; }
      if (nwall[per] >= cwall[per]) {
        cwall[per] = 2 * cwall[per] + 16;
        wall[per] = (double *)realloc(wall[per], sizeof(double) * 3 * (size_t)per * (size_t)cwall[per]);
      }
      for (i = 0; i < 3 * per; i++) wall[per][3 * per * nwall[per] + i] = h_f(h_w[2 + i]);
      nwall[per]++;
      fputs("ok\n", out);
    } else if (0 == strcmp(op, "randseed") && 2 == h_nw && valid_i(h_w[1])) {
      h_rand_state = (unsigned long long)h_i(h_w[1]) * 2654435761ULL + 88172645463325252ULL;
      fputs("ok\n", out);
    } else if (0 == strcmp(op, "walldist") && h_nw >= 3 && (0 == strcmp(h_w[1], "2") || 0 == strcmp(h_w[1], "3")) &&
               valid_i(h_w[2]) && h_i(h_w[2]) >= 1 && h_i(h_w[2]) <= 7 && (h_nw - 3) % 3 == 0) {
      for (i = 3; i < h_nw; i++)
        if (!valid_f(h_w[i])) ok = 0;
      if (!ok) { fputs("bad-op\n", out); continue; }
      wall_distance(h_w[1][0] - '0', (int)h_i(h_w[2]), (h_nw - 3) / 3, h_w + 3);
    } else {
      fputs("bad-op\n", out);
    }
  }
  if (grid) ref_grid_free(grid);
  free(wall[2]);
  free(wall[3]);
  fflush(out);
  return 0;
}
