/* harness `quality`: cell quality in the metric and its derivative with respect to node 0 (ref_node.c),
   called in process on coordinates and vertex metrics given as hex doubles.  White-box: ref_node.c is
   included to reach the static ref_node_{tet,tri}_{epic,jac}_{quality,dquality_dnode0}
   (Stream(..., whitebox=['ref_node'])).
   ops
     tet <epic|jac|other> <min_volume> <x0 m0 x1 m1 x2 m2 x3 m3>     3 + 6 words per vertex
     tri <epic|jac|other> <d0 d1 d2>   <x0 m0 x1 m1 x2 m2>           d*: what d_quality holds before the call
   The vertex metrics are stored with the real ref_node_metric_set (m and log_m(m)).
   output: `set <status>` when a metric_set fails, else six results
     <dispatching quality> <dispatching dquality> <epic quality> <jac quality> <epic dquality> <jac dquality>
   each `<status>` followed, when ok, by the quality (and the three derivative components).
   The library prints diagnostics on stdout (RSS): stdout is redirected to /dev/null and the protocol lines go
   to a dup of the original descriptor. */
#include <unistd.h>

#include "h_proto.h"
#include "ref_node.c"
/* */
#include "ref_mpi.h"

static FILE *out;
static REF_MPI ref_mpi;
static REF_NODE kn;

static void pf(double d) {
  fputc(' ', out);
  h_pf(out, d);
}
static int all_hex(int from, int to) {
  int i;
  for (i = from; i < to; i++) {
    if (16 != strlen(h_w[i])) return 0;
    if (16 != strspn(h_w[i], "0123456789abcdefABCDEF")) return 0;
  }
  return 1;
}
static int sel_of(const char *s) {
  if (0 == strcmp(s, "epic")) return REF_NODE_EPIC_QUALITY;
  if (0 == strcmp(s, "jac")) return REF_NODE_JAC_QUALITY;
  if (0 == strcmp(s, "other")) return 0;
  return -1;
}
static void res_q(int first, int st, double q) {
  if (!first) fputc(' ', out);
  fputs(h_status(st), out);
  if (REF_SUCCESS == st) pf(q);
}
static void res_d(int st, double q, const double *d) {
  fputc(' ', out);
  fputs(h_status(st), out);
  if (REF_SUCCESS == st) {
    pf(q);
    pf(d[0]);
    pf(d[1]);
    pf(d[2]);
  }
}
/* vertices from word w on: xyz then metric; returns the first failing status */
static int set_nodes(int n, int w) {
  int i, k, st;
  for (i = 0; i < n; i++) {
    double m[6];
    for (k = 0; k < 3; k++) ref_node_xyz(kn, k, i) = h_f(h_w[w + 9 * i + k]);
    for (k = 0; k < 6; k++) m[k] = h_f(h_w[w + 9 * i + 3 + k]);
    st = ref_node_metric_set(kn, i, m);
    if (REF_SUCCESS != st) return st;
  }
  return REF_SUCCESS;
}

int main(void) {
  int i;
  double default_min_volume;
  {
    int fd = dup(1);
    if (fd < 0) return 3;
    out = fdopen(fd, "w");
    if (!out) return 3;
    if (!freopen("/dev/null", "w", stdout)) return 3;
  }
  if (REF_SUCCESS != ref_mpi_start(0, NULL)) return 3;
  if (REF_SUCCESS != ref_mpi_create(&ref_mpi)) return 3;
  if (REF_SUCCESS != ref_node_create(&kn, ref_mpi)) return 3;
  for (i = 0; i < 4; i++) {
    REF_INT node, c;
    if (REF_SUCCESS != ref_node_add(kn, (REF_GLOB)(3 * i + 5), &node) || node != i) return 3;
    for (c = 0; c < REF_NODE_REAL_PER; c++) ref_node_real(kn, c, node) = 0.0;
  }
  default_min_volume = ref_node_min_volume(kn);
  kn->ratio_method = REF_NODE_RATIO_GEOMETRIC;

  while (h_next(stdin)) {
    const char *op = h_w[0];
    REF_INT nodes[4] = {0, 1, 2, 3};
    double q, d[3];
    int st, sel;
    if (h_nw < 3 || (sel = sel_of(h_w[1])) < 0 || !all_hex(2, h_nw)) {
      fputs("bad-op\n", out);
      continue;
    }
    if (0 == strcmp(op, "tet") && h_nw == 39) {
      st = set_nodes(4, 3);
      if (REF_SUCCESS != st) {
        fprintf(out, "set %s\n", h_status(st));
        continue;
      }
      ref_node_min_volume(kn) = h_f(h_w[2]);
      kn->tet_quality = sel;
      q = 0.0;
      st = ref_node_tet_quality(kn, nodes, &q);
      res_q(1, st, q);
      q = d[0] = d[1] = d[2] = 0.0;
      st = ref_node_tet_dquality_dnode0(kn, nodes, &q, d);
      res_d(st, q, d);
      kn->tet_quality = REF_NODE_JAC_QUALITY; /* the static paths must not depend on the selector */
      q = 0.0;
      st = ref_node_tet_epic_quality(kn, nodes, &q);
      res_q(0, st, q);
      kn->tet_quality = REF_NODE_EPIC_QUALITY;
      q = 0.0;
      st = ref_node_tet_jac_quality(kn, nodes, &q);
      res_q(0, st, q);
      kn->tet_quality = REF_NODE_JAC_QUALITY;
      q = d[0] = d[1] = d[2] = 0.0;
      st = ref_node_tet_epic_dquality_dnode0(kn, nodes, &q, d);
      res_d(st, q, d);
      kn->tet_quality = REF_NODE_EPIC_QUALITY;
      q = d[0] = d[1] = d[2] = 0.0;
      st = ref_node_tet_jac_dquality_dnode0(kn, nodes, &q, d);
      res_d(st, q, d);
      fputc('\n', out);
      ref_node_min_volume(kn) = default_min_volume;
    } else if (0 == strcmp(op, "tri") && h_nw == 32) {
      double d0[3];
      for (i = 0; i < 3; i++) d0[i] = h_f(h_w[2 + i]);
      st = set_nodes(3, 5);
      if (REF_SUCCESS != st) {
        fprintf(out, "set %s\n", h_status(st));
        continue;
      }
      kn->tri_quality = sel;
      q = 0.0;
      st = ref_node_tri_quality(kn, nodes, &q);
      res_q(1, st, q);
      q = 0.0;
      for (i = 0; i < 3; i++) d[i] = d0[i];
      st = ref_node_tri_dquality_dnode0(kn, nodes, &q, d);
      res_d(st, q, d);
      kn->tri_quality = REF_NODE_JAC_QUALITY;
      q = 0.0;
      st = ref_node_tri_epic_quality(kn, nodes, &q);
      res_q(0, st, q);
      kn->tri_quality = REF_NODE_EPIC_QUALITY;
      q = 0.0;
      st = ref_node_tri_jac_quality(kn, nodes, &q);
      res_q(0, st, q);
      kn->tri_quality = REF_NODE_JAC_QUALITY;
      q = 0.0;
      for (i = 0; i < 3; i++) d[i] = d0[i];
      st = ref_node_tri_epic_dquality_dnode0(kn, nodes, &q, d);
      res_d(st, q, d);
      kn->tri_quality = REF_NODE_EPIC_QUALITY;
      q = 0.0;
      for (i = 0; i < 3; i++) d[i] = d0[i];
      st = ref_node_tri_jac_dquality_dnode0(kn, nodes, &q, d);
      res_d(st, q, d);
      fputc('\n', out);
    } else {
      fputs("bad-op\n", out);
    }
  }
  fflush(out);
  return 0;
}
