/* harness `gradation`: the gradation sweeps of ref_metric.c, ref_metric_gradation_at_complexity and the
   ref_metric_lp chain, called in process on a grid built from the op line (mesh block as in h_metric.c).

   MESH := twod nn <3*nn xyz> <6*nn metric> <nn owned 0|1> ncell <cells: kind n0 n1 ...>   (doubles as 16 hex digits)

   diff ops (one line each):
     edges MESH                            ref_edge_create                       -> ok n a0 b0 a1 b1 ...
     ms <r> <k> MESH                       k calls of ref_metric_metric_space_gradation -> ok + the field after each call
     mixed <r> <t> <k> MESH                k calls of ref_metric_mixed_space_gradation  -> ok + fields | REF_STATUS name
     gac <gradation> <target> MESH         ref_metric_gradation_at_complexity    -> ok + field | status
     lpchain <p> <gradation> <ar> <target> MESH   ref_recon_roundoff_limit, ref_metric_local_scale,
                                           ref_metric_limit_aspect_ratio, ref_metric_gradation_at_complexity
   dump op (validate stream; the printed line is fed to `refdrv gradation`):
     lp <p> <gradation> <ar> <target> <nn scalar> MESH   ref_recon_hessian (L2 projection) for the dump, then the real
                                           ref_metric_lp on the same scalar
                                           -> lpdump <status> p gradation ar target <6*nn out> MESH(metric := Hessian)
                                            | lpskip <why>

   refine prints diagnostics on stdout: the protocol goes to a dup of the original descriptor. */
#include <unistd.h>

#include "h_proto.h"
#include "ref_cell.h"
#include "ref_edge.h"
#include "ref_grid.h"
#include "ref_interp.h"
#include "ref_malloc.h"
#include "ref_math.h"
#include "ref_matrix.h"
#include "ref_metric.h"
#include "ref_mpi.h"
#include "ref_node.h"
#include "ref_recon.h"

static FILE *out;
static REF_MPI ref_mpi;

static void pf(double d) {
  fputc(' ', out);
  h_pf(out, d);
}
static void pv(const double *v, int n) {
  int i;
  for (i = 0; i < n; i++) pf(v[i]);
}
static void put(REF_STATUS s, int n, const double *x) {
  if (REF_SUCCESS != s) {
    fputs(h_status(s), out);
    fputc('\n', out);
    return;
  }
  fputs("ok", out);
  pv(x, n);
  fputc('\n', out);
}
static int is_hex(const char *s) { return 16 == strlen(s) && 16 == strspn(s, "0123456789abcdefABCDEF"); }
static int all_hex(int from, int to) {
  int i;
  if (to > h_nw) return 0;
  for (i = from; i < to; i++)
    if (!is_hex(h_w[i])) return 0;
  return 1;
}
static int is_nat(const char *s) { return 0 < strlen(s) && strlen(s) < 9 && strlen(s) == strspn(s, "0123456789"); }
static int is_int(const char *s) { return ('-' == s[0]) ? is_nat(s + 1) : is_nat(s); }

static int kind_of(const char *s, int *size, int *has_id) {
  if (0 == strcmp(s, "tri")) { *size = 3; *has_id = 1; return REF_CELL_TRI; }
  if (0 == strcmp(s, "qua")) { *size = 4; *has_id = 1; return REF_CELL_QUA; }
  if (0 == strcmp(s, "tet")) { *size = 4; *has_id = 0; return REF_CELL_TET; }
  if (0 == strcmp(s, "pyr")) { *size = 5; *has_id = 0; return REF_CELL_PYR; }
  if (0 == strcmp(s, "pri")) { *size = 6; *has_id = 0; return REF_CELL_PRI; }
  if (0 == strcmp(s, "hex")) { *size = 8; *has_id = 0; return REF_CELL_HEX; }
  return -1;
}

typedef struct {
  REF_GRID grid;
  REF_DBL *metric;
  int nn, twod;
  int w_cells; /* word index of `ncell` */
} MESH;

/* MESH starting at word w0; returns 0 when malformed (nothing allocated) */
static int build_mesh(int w0, MESH *m) {
  REF_GRID ref_grid;
  REF_NODE ref_node;
  long long twod, nn, nc;
  int w, i, k, c, ncells;
  if (h_nw < w0 + 3 || !is_nat(h_w[w0]) || !is_nat(h_w[w0 + 1])) return 0;
  twod = h_i(h_w[w0]);
  nn = h_i(h_w[w0 + 1]);
  if (twod > 1 || nn == 0 || nn > 4000) return 0;
  w = w0 + 2;
  if (h_nw - w < 10 * nn + 1) return 0;
  if (!all_hex(w, w + 9 * (int)nn)) return 0;
  for (i = 0; i < nn; i++)
    if (0 != strcmp(h_w[w + 9 * nn + i], "0") && 0 != strcmp(h_w[w + 9 * nn + i], "1")) return 0;
  k = w + 10 * (int)nn;
  if (!is_nat(h_w[k])) return 0;
  nc = h_i(h_w[k]);
  m->w_cells = k;
  k++;
  ncells = 0;
  while (k < h_nw) {
    int size, has_id, kind = kind_of(h_w[k], &size, &has_id);
    if (kind < 0 || h_nw - (k + 1) < size) return 0;
    for (i = 0; i < size; i++)
      if (!is_nat(h_w[k + 1 + i]) || h_i(h_w[k + 1 + i]) >= nn) return 0;
    k += 1 + size;
    ncells++;
  }
  if (ncells != nc) return 0;
  if (REF_SUCCESS != ref_grid_create(&ref_grid, ref_mpi)) exit(4);
  ref_grid_twod(ref_grid) = (REF_BOOL)twod;
  ref_node = ref_grid_node(ref_grid);
  m->metric = (REF_DBL *)malloc(sizeof(REF_DBL) * 6 * (size_t)(nn + 8));
  for (i = 0; i < nn; i++) {
    REF_INT node;
    if (REF_SUCCESS != ref_node_add(ref_node, (REF_GLOB)(3 * i + 5), &node) || node != i) exit(5);
    for (c = 0; c < 3; c++) ref_node_xyz(ref_node, c, node) = h_f(h_w[w + 3 * i + c]);
    for (c = 3; c < REF_NODE_REAL_PER; c++) ref_node_real(ref_node, c, node) = 0.0;
    for (c = 0; c < 6; c++) m->metric[6 * i + c] = h_f(h_w[w + 3 * nn + 6 * i + c]);
    ref_node_part(ref_node, node) = ('1' == h_w[w + 9 * nn + i][0]) ? ref_mpi_rank(ref_mpi) : ref_mpi_rank(ref_mpi) + 1;
  }
  k = m->w_cells + 1;
  while (k < h_nw) {
    int size, has_id, kind = kind_of(h_w[k], &size, &has_id);
    REF_INT nodes[REF_CELL_MAX_SIZE_PER], cell;
    for (i = 0; i < size; i++) nodes[i] = (REF_INT)h_i(h_w[k + 1 + i]);
    if (has_id) nodes[size] = 1;
    if (REF_SUCCESS != ref_cell_add(ref_grid_cell(ref_grid, kind), nodes, &cell)) exit(6);
    k += 1 + size;
  }
  m->grid = ref_grid;
  m->nn = (int)nn;
  m->twod = (int)twod;
  return 1;
}
static void free_mesh(MESH *m) {
  free(m->metric);
  ref_grid_free(m->grid);
}
static void put_field(REF_STATUS s, MESH *m) { put(s, 6 * m->nn, m->metric); }

/* words of the mesh block with the metric replaced by the current array */
static void dump_mesh(int w0, MESH *m) {
  int i, w = w0 + 2;
  fprintf(out, " %d %d", m->twod, m->nn);
  for (i = 0; i < 3 * m->nn; i++) fprintf(out, " %s", h_w[w + i]);
  pv(m->metric, 6 * m->nn);
  for (i = w + 9 * m->nn; i < h_nw; i++) fprintf(out, " %s", h_w[i]);
}


int main(int argc, char *argv[]) {
  int fd = dup(1);
  if (fd < 0) return 3;
  out = fdopen(fd, "w");
  if (!out) return 3;
  if (!freopen("/dev/null", "w", stdout)) return 3;
  if (REF_SUCCESS != ref_mpi_start(argc, argv)) return 3;
  if (REF_SUCCESS != ref_mpi_create(&ref_mpi)) return 3;
  while (h_next(stdin)) {
    const char *op = h_w[0];
    MESH m;
    if (0 == strcmp(op, "edges")) {
      REF_EDGE ref_edge;
      REF_INT edge;
      if (!build_mesh(1, &m)) { fputs("bad-op\n", out); continue; }
      if (REF_SUCCESS != ref_edge_create(&ref_edge, m.grid)) {
        fputs("failure\n", out);
      } else {
        fprintf(out, "ok %d", ref_edge_n(ref_edge));
        each_ref_edge(ref_edge, edge) fprintf(out, " %d %d", ref_edge_e2n(ref_edge, 0, edge), ref_edge_e2n(ref_edge, 1, edge));
        fputc('\n', out);
        ref_edge_free(ref_edge);
      }
      free_mesh(&m);
    } else if (0 == strcmp(op, "ms") || 0 == strcmp(op, "mixed")) {
      int mixed = ('i' == op[1]);
      int w0 = mixed ? 4 : 3, k, kk;
      REF_STATUS s = REF_SUCCESS;
      REF_DBL *all;
      if (h_nw < w0 + 1 || !is_hex(h_w[1]) || (mixed && !is_hex(h_w[2])) || !is_nat(h_w[w0 - 1])) { fputs("bad-op\n", out); continue; }
      kk = (int)h_i(h_w[w0 - 1]);
      if (kk < 1 || kk > 8 || !build_mesh(w0, &m)) { fputs("bad-op\n", out); continue; }
      all = (REF_DBL *)malloc(sizeof(REF_DBL) * 6 * (size_t)m.nn * (size_t)kk);
      for (k = 0; k < kk && REF_SUCCESS == s; k++) {
        if (mixed)
          s = ref_metric_mixed_space_gradation(m.metric, m.grid, h_f(h_w[1]), h_f(h_w[2]));
        else
          s = ref_metric_metric_space_gradation(m.metric, m.grid, h_f(h_w[1]));
        memcpy(all + 6 * m.nn * k, m.metric, sizeof(REF_DBL) * 6 * (size_t)m.nn);
      }
      put(s, 6 * m.nn * kk, all);
      free(all);
      free_mesh(&m);
    } else if (0 == strcmp(op, "gac")) {
      if (h_nw < 3 || !is_hex(h_w[1]) || !is_hex(h_w[2]) || !build_mesh(3, &m)) { fputs("bad-op\n", out); continue; }
      put_field(ref_metric_gradation_at_complexity(m.metric, m.grid, h_f(h_w[1]), h_f(h_w[2])), &m);
      free_mesh(&m);
    } else if (0 == strcmp(op, "lpchain")) {
      REF_STATUS s;
      if (h_nw < 5 || !is_int(h_w[1]) || h_i(h_w[1]) < -1000 || h_i(h_w[1]) > 1000 || !is_hex(h_w[2]) || !is_hex(h_w[3]) ||
          !is_hex(h_w[4]) || !build_mesh(5, &m)) {
        fputs("bad-op\n", out);
        continue;
      }
      s = ref_recon_roundoff_limit(m.metric, m.grid);
      if (REF_SUCCESS == s) s = ref_metric_local_scale(m.metric, m.grid, (REF_INT)h_i(h_w[1]));
      if (REF_SUCCESS == s) s = ref_metric_limit_aspect_ratio(m.metric, m.grid, h_f(h_w[3]));
      if (REF_SUCCESS == s) s = ref_metric_gradation_at_complexity(m.metric, m.grid, h_f(h_w[2]), h_f(h_w[4]));
      put_field(s, &m);
      free_mesh(&m);
    } else if (0 == strcmp(op, "lp")) {
      REF_STATUS s;
      REF_DBL *scalar, *hess;
      long long ns;
      int i, w0;
      if (h_nw < 7 || !is_int(h_w[1]) || h_i(h_w[1]) < -1000 || h_i(h_w[1]) > 1000 || !is_hex(h_w[2]) || !is_hex(h_w[3]) ||
          !is_hex(h_w[4]) || !is_nat(h_w[5])) {
        fputs("bad-op\n", out);
        continue;
      }
      ns = h_i(h_w[5]);
      if (ns < 1 || ns > 4000 || !all_hex(6, 6 + (int)ns)) { fputs("bad-op\n", out); continue; }
      w0 = 6 + (int)ns;
      if (!build_mesh(w0, &m)) { fputs("bad-op\n", out); continue; }
      if (m.nn != ns) { fputs("bad-op\n", out); free_mesh(&m); continue; }
      scalar = (REF_DBL *)malloc(sizeof(REF_DBL) * (size_t)(ns + 8));
      hess = (REF_DBL *)malloc(sizeof(REF_DBL) * 6 * (size_t)(ns + 8));
      for (i = 0; i < ns; i++) scalar[i] = h_f(h_w[6 + i]);
      s = ref_recon_hessian(m.grid, scalar, hess, REF_RECON_L2PROJECTION);
      if (REF_SUCCESS != s) {
        fprintf(out, "lpskip hessian-%s\n", h_status(s));
      } else {
        s = ref_metric_lp(m.metric, m.grid, scalar, REF_RECON_L2PROJECTION, (REF_INT)h_i(h_w[1]), h_f(h_w[2]), h_f(h_w[3]),
                          h_f(h_w[4]));
        fprintf(out, "lpdump %s %s %s %s %s", h_status(s), h_w[1], h_w[2], h_w[3], h_w[4]);
        if (REF_SUCCESS == s) pv(m.metric, 6 * m.nn);
        memcpy(m.metric, hess, sizeof(REF_DBL) * 6 * (size_t)m.nn);
        dump_mesh(w0, &m);
        fputc('\n', out);
      }
      free(scalar);
      free(hess);
      free_mesh(&m);
    } else {
      fputs("bad-op\n", out);
    }
  }
  fflush(out);
  ref_mpi_free(ref_mpi);
  ref_mpi_stop();
  return 0;
}
